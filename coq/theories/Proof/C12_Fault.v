(* C12 - read faults: a Store that meets an ERROR RETURN part-way through the walk of its outputs
   (Model.C12: fault, walk_f, store_plain_f, pack_f, comp_tail, store_comp_g, cut, fault_defect).

   Compressed cache: for ALL trees, output lists, fault positions, prior states and crash points the
   faulted store leaves a miss (or, before the old entry is gone, the old entry); the removal of the
   temporary tarball in storeCompressed's error branch is exactly what makes it so - without it the
   truncated archive is renamed into place and Retrieve hits with the prefix (comp_no_rm_partial_hit).
   Uncompressed cache: a faulted store IS the complete store of the truncated source tree `cut`
   (plain_f_cut); it is a miss when nothing of the output could be stored, the complete tree when
   only the tail of the walk failed, and a partial hit otherwise (w_fault_partial_hit). *)
From PlzV Require Import Base.Harness Base.StrFacts Model.C12 Proof.C12.
From Coq Require Import Lia.

(* ------------------------------------------------------------------------------------------ *)
(* no fault: the faulted step lists are the ones of Model.C12 *)

Lemma link_steps_f_none pre src o : link_steps_f pre src None o = link_steps pre src o.
Proof. reflexivity. Qed.

Lemma outs_steps_f_none order src outs : forall st,
  outs_steps_f order src None st outs = outs_steps order src st outs.
Proof.
  induction outs as [|o r IH]; intros st; cbn [outs_steps_f outs_steps]; [reflexivity|].
  unfold out_steps_f, out_steps. rewrite link_steps_f_none. rewrite IH. reflexivity.
Qed.

Lemma store_plain_f_none order st outs src : store_plain_f order st outs src None = store_plain order st outs src.
Proof. unfold store_plain_f, store_plain. rewrite outs_steps_f_none. reflexivity. Qed.

Lemma pack_f_none src outs : all_present src outs = true -> pack_f src None outs = (pack src outs, false).
Proof.
  induction outs as [|o r IH]; intros H; cbn [pack_f pack flat_map]; [reflexivity|].
  cbn [all_present forallb] in H. apply andb_true_iff in H as [Ho Hr]. rewrite Ho.
  cbn [walk_f snd fst]. fold (pack src r). rewrite (IH Hr). reflexivity.
Qed.

Lemma store_comp_f_none order st outs src : all_present src outs = true ->
  store_comp_f order st outs src None = store_comp order st outs src.
Proof.
  intros H. unfold store_comp_f, store_comp_g, store_comp. rewrite H, (pack_f_none _ _ H). reflexivity.
Qed.

Lemma store_steps_f_none c order st outs src : all_present src outs = true ->
  store_steps_f c order st outs src None = store_steps c order st outs src.
Proof. intros H. destruct c; [apply store_comp_f_none; exact H|apply store_plain_f_none]. Qed.

(* a fault in one of the outputs makes the archive loop end in an error *)
Lemma pack_f_aborts src o k outs : all_present src outs = true -> In o outs ->
  snd (pack_f src (Some (o, k)) outs) = true.
Proof.
  induction outs as [|o0 r IH]; intros H Hin; [destruct Hin|].
  cbn [all_present forallb] in H. apply andb_true_iff in H as [Ho Hr].
  cbn [pack_f]. rewrite Ho. cbn [walk_f]. destruct (str_eqb o o0) eqn:He; cbn [snd fst]; [reflexivity|].
  apply IH; [exact Hr|]. destruct Hin as [->|Hin]; [|exact Hin]. rewrite str_eqb_refl in He. discriminate.
Qed.

(* a missing output does the same *)
Lemma pack_f_missing src f outs : all_present src outs = false -> snd (pack_f src f outs) = true.
Proof.
  induction outs as [|o r IH]; intros H; [discriminate|]. cbn [all_present forallb] in H. cbn [pack_f].
  destruct (mem [o] src); cbn [andb] in H; [|reflexivity].
  destruct (snd (walk_f src f o)); cbn [snd]; [reflexivity|]. apply IH. exact H.
Qed.

(* ------------------------------------------------------------------------------------------ *)
(* lists of steps a ++ b ++ [x]: every prefix *)

Lemma prefix3 {A} n (a b : list A) (x : A) :
  (exists k, firstn n (a ++ b ++ [x]) = firstn k a)
  \/ (exists k, firstn n (a ++ b ++ [x]) = a ++ firstn k b)
  \/ firstn n (a ++ b ++ [x]) = a ++ b ++ [x].
Proof.
  destruct (Nat.le_gt_cases n (length a)) as [Hle|Hgt].
  - left. exists n. rewrite firstn_app. replace (n - length a) with 0 by lia. cbn [firstn]. apply app_nil_r.
  - destruct (Nat.le_gt_cases n (length (a ++ b))) as [Hle2|Hgt2].
    + right; left. exists (n - length a). rewrite app_assoc. rewrite firstn_app.
      replace (n - length (a ++ b)) with 0 by lia. cbn [firstn]. rewrite app_nil_r.
      rewrite firstn_app. rewrite (firstn_all2 a) by lia. reflexivity.
    + right; right. apply firstn_all2. rewrite !app_length in *. cbn [length]. lia.
Qed.

Lemma exec_rename_absent a b st : lookup a st = None -> exec st (SRename a b) = st.
Proof. intros H. cbn [exec]. unfold rename_ok. rewrite H. reflexivity. Qed.

Lemma mem_remove_same {A} p (l : list (path * A)) : mem p (remove p l) = false.
Proof.
  induction l as [|[q v] l IH]; [reflexivity|]. cbn [remove filter fst].
  destruct (path_eqb q p) eqn:Hq; cbn [negb]; [exact IH|].
  cbn [mem existsb fst]. rewrite Hq. exact IH.
Qed.

(* ------------------------------------------------------------------------------------------ *)
(* compressed cache *)

(* the steps of a compressed store between the removal of the old entry and the rename *)
Definition comp_mid (rm : bool) order st outs src f : list step :=
  rm_steps order [kT] st ++ [SAdd [kT] Junk] ++ comp_tail rm (pack_f src f outs).

Lemma store_comp_g_split rm order st outs src f :
  store_comp_g rm order st outs src f =
  rm_steps order [kK] st ++ comp_mid rm order (run (rm_steps order [kK] st) st) outs src f ++ [SRename [kT] [kK]].
Proof. unfold store_comp_g, comp_mid. rewrite <- !app_assoc. reflexivity. Qed.

Lemma comp_mid_under rm order st outs src f : Forall (fun s => step_under [kT] s = true) (comp_mid rm order st outs src f).
Proof.
  unfold comp_mid, comp_tail. repeat (apply Forall_app; split).
  - apply rm_steps_under.
  - repeat constructor.
  - destruct (snd (pack_f src f outs)), rm; repeat constructor.
Qed.

Lemma comp_mid_off rm order st outs src f : Forall (fun s => step_off [kK] s = true) (comp_mid rm order st outs src f).
Proof. eapply Forall_under_off; [|apply comp_mid_under]. apply prefix_KT_not_K. Qed.

(* on the error path the temporary tarball is gone when Store reaches its rename *)
Lemma comp_mid_error_no_tmp order st outs src f : snd (pack_f src f outs) = true ->
  lookup [kT] (run (comp_mid true order st outs src f) st) = None.
Proof.
  intros He. unfold comp_mid, comp_tail. rewrite He. rewrite !run_app. cbn [run fold_left exec].
  apply mem_lookup. apply mem_remove_same.
Qed.

(* the K-subtree after a complete faulted compressed store is empty *)
Lemma comp_fault_final order st outs src f : snd (pack_f src f outs) = true ->
  sub [kK] (run (store_comp_f order st outs src f) st) = [].
Proof.
  intros He. unfold store_comp_f. rewrite store_comp_g_split, !run_app.
  set (st1 := run (rm_steps order [kK] st) st).
  assert (sub [kK] st1 = []) as HK1 by apply rm_steps_clears.
  cbn [run fold_left]. rewrite exec_rename_absent by (apply comp_mid_error_no_tmp; exact He).
  rewrite sub_run_off; [exact HK1|apply comp_mid_off].
Qed.

(* every crash state of a faulted compressed store: part of the old entry, or nothing *)
Lemma comp_fault_states order st outs src f n : snd (pack_f src f outs) = true ->
  let st' := run (firstn n (store_comp_f order st outs src f)) st in
  (exists g, sub [kK] st' = sub [kK] (filter g st)) \/ sub [kK] st' = [].
Proof.
  intros He. cbn zeta. pose proof (comp_fault_final order st outs src f He) as Hfin.
  unfold store_comp_f in *. rewrite store_comp_g_split in *.
  destruct (prefix3 n (rm_steps order [kK] st)
              (comp_mid true order (run (rm_steps order [kK] st) st) outs src f) (SRename [kT] [kK])) as [[k ->] | [[k ->] | ->]].
  - left. unfold rm_steps. rewrite firstn_map, run_unlinks. eexists. reflexivity.
  - right. rewrite run_app. rewrite sub_run_off; [apply rm_steps_clears|].
    apply Forall_firstn. apply comp_mid_off.
  - right. exact Hfin.
Qed.

(* THE THEOREM for the compressed cache: whatever the tree, the output list, the position of the
   fault, the prior state of the cache directory and the retrieved output list - a Store whose
   archive loop returned an error leaves a miss; and if the process also dies after any n steps of
   it, a miss or exactly what Retrieve returned before (no defect class of the crash clause) *)
Theorem fault_comp_miss order st outs src f outs' : snd (pack_f src f outs) = true ->
  retrieve true (run (store_steps_f true order st outs src f) st) outs' = Miss.
Proof. intros He. apply retrieve_miss. apply comp_fault_final. exact He. Qed.

Theorem fault_comp_crash order st outs src f outs' : snd (pack_f src f outs) = true ->
  crash_defect true st outs' = None ->
  forall n, let r := retrieve true (run (firstn n (store_steps_f true order st outs src f)) st) outs' in
    r = Miss \/ r = retrieve true st outs'.
Proof.
  intros He Hd n. cbn zeta. cbn [store_steps_f].
  destruct (comp_fault_states order st outs src f n He) as [[g Hg] | H0].
  - destruct (retrieve_removed true g st outs' Hd) as [Hm | Ho].
    + left. rewrite <- Hm. apply retrieve2_ext; exact Hg.
    + right. rewrite <- Ho. apply retrieve2_ext; exact Hg.
  - left. apply retrieve_miss. exact H0.
Qed.

(* ... and the removal in the error branch is what it rests on: without it (seeded mutation m3)
   the truncated archive is renamed into place and Retrieve hits with what had been archived *)
Theorem comp_no_rm_partial_hit order st outs src f o outs' : snd (pack_f src f outs) = true ->
  retrieve true (run (store_comp_g false order st outs src f) st) (o :: outs') = Hit (unpack (fst (pack_f src f outs))).
Proof.
  intros He. rewrite store_comp_g_split, !run_app.
  set (st1 := run (rm_steps order [kK] st) st).
  assert (sub [kK] st1 = []) as HK1 by apply rm_steps_clears.
  unfold comp_mid, comp_tail. rewrite He. rewrite !run_app.
  set (s2 := run (rm_steps order [kT] st1) st1).
  assert (sub [kT] s2 = []) as HT2 by apply rm_steps_clears.
  assert (sub [kK] s2 = []) as HK2.
  { unfold s2. rewrite sub_run_off; [exact HK1|]. eapply Forall_under_off; [|apply rm_steps_under]. apply prefix_KT_not_K. }
  pose proof (mem_sub_nil [kT] [kT] s2 (is_prefix_refl _) HT2) as HmT.
  set (t := fst (pack_f src f outs)).
  assert (run [SAdd [kT] (Tar t)] (run [SAdd [kT] Junk] s2) = s2 ++ [([kT], Tar t)]) as ->.
  { cbn [run fold_left exec]. rewrite (remove_absent _ _ HmT). rewrite remove_app, (remove_absent _ _ HmT).
    cbn [remove filter fst]. rewrite path_eqb_refl. cbn [negb app]. rewrite app_nil_r. reflexivity. }
  set (st2 := s2 ++ [([kT], Tar t)]).
  assert (sub [kK] st2 = []) as HK3. { unfold st2. rewrite sub_app, HK2. reflexivity. }
  assert (sub [kT] st2 = [([kT], Tar t)]) as HT3.
  { unfold st2. rewrite sub_app, HT2. cbn [sub filter fst app]. rewrite is_prefix_refl. reflexivity. }
  assert (mem [kT] st2 = true) as HmT2.
  { unfold st2. rewrite mem_app. cbn [mem existsb fst]. rewrite path_eqb_refl. apply orb_true_r. }
  change (run [SRename [kT] [kK]] st2) with (exec st2 (SRename [kT] [kK])).
  rewrite (rename_final st2 HK3 HmT2).
  unfold retrieve, retrieve2.
  rewrite <- (lookup_sub [kK] [kK] (map (reprefix [kT] [kK]) st2) (is_prefix_refl _)).
  rewrite (sub_reprefix [] st2 HK3), HT3. cbn [map]. unfold reprefix; cbn [fst snd is_prefix].
  rewrite str_eqb_refl. cbn [andb app length skipn lookup]. rewrite path_eqb_refl. reflexivity.
Qed.

(* ------------------------------------------------------------------------------------------ *)
(* uncompressed cache: a faulted store = the store of the truncated source tree *)

Lemma sub_cut_same o k : forall src k', k' = k -> sub [o] (cut o k' src) = firstn k (sub [o] src).
Proof.
  intros src; revert k. induction src as [|e r IH]; intros k k' ->; cbn [cut sub filter].
  - destruct k; reflexivity.
  - fold (sub [o] r). destruct (is_prefix [o] (fst e)) eqn:Hp.
    + destruct k as [|k]; cbn [firstn].
      * apply (IH 0 0 eq_refl).
      * cbn [sub filter]. rewrite Hp. fold (sub [o] (cut o k r)). f_equal. apply (IH k k eq_refl).
    + cbn [sub filter]. rewrite Hp. fold (sub [o] (cut o k r)). apply (IH k k eq_refl).
Qed.

Lemma sub_cut_other o o' : o <> o' -> forall src k, sub [o'] (cut o k src) = sub [o'] src.
Proof.
  intros Hne src. induction src as [|e r IH]; intros k; cbn [cut]; [reflexivity|].
  cbn [sub filter]. fold (sub [o'] r). destruct (is_prefix [o] (fst e)) eqn:Hp.
  - rewrite (prefix_one_other o o' _ Hne Hp). destruct k as [|k].
    + apply IH.
    + cbn [sub filter]. rewrite (prefix_one_other o o' _ Hne Hp). apply IH.
  - cbn [sub filter]. fold (sub [o'] (cut o k r)). rewrite IH. reflexivity.
Qed.

Lemma lookup_top {A} o (l : list (path * A)) : lookup [o] l = lookup [o] (sub [o] l).
Proof. symmetry. apply lookup_sub. apply is_prefix_refl. Qed.

Lemma lookup_firstn_none {A} p k (l : list (path * A)) : lookup p l = None -> lookup p (firstn k l) = None.
Proof.
  revert k; induction l as [|[q v] l IH]; intros k H; destruct k; cbn [firstn lookup] in *; try reflexivity.
  destruct (path_eqb q p); [discriminate|]. apply IH. exact H.
Qed.

(* the walk handled the root of the output before it failed (or failed at the root, or the output
   does not exist): true of every walk-ordered tree, see cut_ok_wf *)
Definition cut_ok (o : str) (k : nat) (src : tree) : Prop :=
  k = 0 \/ lookup [o] src = None \/ lookup [o] (firstn k (sub [o] src)) <> None.

Lemma link_f_cut pre src o k o' : cut_ok o k src ->
  link_steps_f pre src (Some (o, k)) o' = link_steps pre (cut o k src) o'.
Proof.
  intros Hok. unfold link_steps_f, link_steps. cbn [walk_f]. destruct (str_eqb o o') eqn:He.
  - apply str_eqb_eq in He. subst o'. cbn [fst].
    rewrite (lookup_top o (cut o k src)), (sub_cut_same o k src k eq_refl).
    destruct Hok as [-> | [Hn | Hs]].
    + cbn [firstn lookup map]. destruct (lookup [o] src); reflexivity.
    + rewrite Hn. rewrite lookup_firstn_none; [reflexivity|]. rewrite <- lookup_top. exact Hn.
    + assert (lookup [o] src <> None) as Hs'.
      { intros Hn. apply Hs. apply lookup_firstn_none. rewrite <- lookup_top. exact Hn. }
      destruct (lookup [o] src); [|congruence].
      destruct (lookup [o] (firstn k (sub [o] src))); [reflexivity|congruence].
  - assert (o <> o') as Hne by (apply str_eqb_neq; exact He). cbn [fst].
    rewrite (lookup_top o' (cut o k src)), (sub_cut_other o o' Hne), <- lookup_top. reflexivity.
Qed.

Lemma outs_steps_f_cut order src o k outs : cut_ok o k src -> forall st,
  outs_steps_f order src (Some (o, k)) st outs = outs_steps order (cut o k src) st outs.
Proof.
  intros Hok. induction outs as [|o' r IH]; intros st; cbn [outs_steps_f outs_steps]; [reflexivity|].
  unfold out_steps_f, out_steps. rewrite (link_f_cut _ _ _ _ _ Hok). rewrite IH. reflexivity.
Qed.

(* THE characterisation for the uncompressed cache *)
Theorem plain_f_cut order st outs src o k : cut_ok o k src ->
  store_plain_f order st outs src (Some (o, k)) = store_plain order st outs (cut o k src).
Proof. intros Hok. unfold store_plain_f, store_plain. rewrite (outs_steps_f_cut _ _ _ _ _ Hok). reflexivity. Qed.

(* walk-ordered trees satisfy cut_ok: the first entry of an output's walk is its root *)
Lemma sub_head acc src o rest : wfb_from acc (sub [o] src ++ rest) = true -> mem [o] src = true ->
  exists v r, sub [o] src = ([o], v) :: r.
Proof.
  intros Hwf Hm. destruct (present_in o src Hm) as [v Hv].
  destruct (sub [o] src) as [|[p x] r] eqn:Hs; [destruct Hv|].
  destruct Hv as [Heq | Hin].
  - inversion Heq; subst. eauto.
  - exfalso. cbn [app wfb_from] in Hwf. apply andb_true_iff in Hwf as [_ H3].
    assert (is_prefix [o] p = true) as Hp.
    { apply (sub_tree_under o src (p, x)). rewrite Hs. left. reflexivity. }
    pose proof (wfb_from_fresh _ _ H3 ([o], v) (p, x)) as Hf. cbn [fst] in Hf.
    rewrite Hf in Hp; [discriminate| |].
    + apply in_or_app. left. exact Hin.
    + apply in_or_app. right. left. reflexivity.
Qed.

Lemma pack_split src outs o : In o outs -> exists a b, pack src outs = a ++ sub [o] src ++ b.
Proof.
  induction outs as [|o0 r IH]; intros Hin; [destruct Hin|]. cbn [pack flat_map]. fold (pack src r).
  destruct Hin as [-> | Hin].
  - exists [], (pack src r). reflexivity.
  - destruct (IH Hin) as (a & b & ->). exists (sub [o0] src ++ a), b. rewrite <- app_assoc. reflexivity.
Qed.

Lemma cut_ok_wf src outs o k : wfb (pack src outs) = true -> In o outs -> cut_ok o k src.
Proof.
  intros Hwf Hin. destruct k as [|k]; [left; reflexivity|]. right.
  destruct (lookup [o] src) eqn:Hl; [right|left; reflexivity].
  assert (mem [o] src = true) as Hm by (apply mem_true_lookup; congruence).
  destruct (pack_split src outs o Hin) as (a & b & Hp). unfold wfb in Hwf. rewrite Hp in Hwf.
  rewrite wfb_from_app in Hwf. apply andb_true_iff in Hwf as [_ Hwf].
  destruct (sub_head _ _ _ _ Hwf Hm) as (v & r & ->). cbn [firstn lookup]. rewrite path_eqb_refl. discriminate.
Qed.

(* ------------------------------------------------------------------------------------------ *)
(* uncompressed: an output of which nothing was stored makes every later retrieve a miss *)

Lemma retr_plain_missing st o outs : In o outs -> lookup [kK; o] st = None -> forall out, retr_plain st outs out = Miss.
Proof.
  induction outs as [|o0 r IH]; intros Hin Hl out; [destruct Hin|]. cbn [retr_plain].
  destruct Hin as [-> | Hin]; [rewrite Hl; reflexivity|].
  destruct (lookup [kK; o0] st); [apply IH; assumption|reflexivity].
Qed.

Lemma outs_steps_mem_tmp order src outs st : outs <> [] -> mem [kT] (run (outs_steps order src st outs) st) = true.
Proof.
  destruct outs as [|o r]; [congruence|]. intros _. cbn [outs_steps]. rewrite run_app.
  apply mem_run_keeps; [apply outs_steps_keeps|].
  pose proof (out_steps_keeps order src st o) as Hk. unfold out_steps in *.
  apply Forall_app in Hk as [_ Hk]. rewrite run_app. apply mem_run_keeps; [exact Hk|].
  cbn [run fold_left exec]. destruct (mem [kT] st) eqn:Hm; [exact Hm|].
  rewrite mem_app. cbn [mem existsb fst]. rewrite path_eqb_refl. apply orb_true_r.
Qed.

Lemma outs_steps_missing order src o outs : NoDup outs -> In o outs -> mem [o] src = false ->
  forall st, sub [kT; o] (run (outs_steps order src st outs) st) = [].
Proof.
  induction outs as [|o0 r IH]; intros Hnd Hin Hm st; [destruct Hin|].
  inversion Hnd as [|? ? Hnotin Hnd']; subst. cbn [outs_steps]. rewrite run_app.
  destruct Hin as [-> | Hin].
  - rewrite sub_run_off by (apply outs_steps_off; exact Hnotin).
    unfold out_steps, link_steps. apply mem_lookup in Hm. rewrite Hm. rewrite app_nil_r, run_app.
    change (run [SMkdir [kT]] st) with (exec st (SMkdir [kT])). apply rm_steps_clears.
  - apply IH; assumption.
Qed.

Lemma plain_missing_miss order st outs src o : NoDup outs -> In o outs -> mem [o] src = false ->
  retrieve false (run (store_plain order st outs src) st) outs = Miss.
Proof.
  intros Hnd Hin Hm. unfold store_plain. rewrite !run_app.
  set (st1 := run (rm_steps order [kK] st) st).
  assert (sub [kK] st1 = []) as HK1 by apply rm_steps_clears.
  set (st2 := run (outs_steps order src st1 outs) st1).
  assert (sub [kK] st2 = []) as HK2.
  { unfold st2. rewrite sub_run_off; [exact HK1|]. eapply Forall_under_off; [|apply outs_steps_under]. apply prefix_KT_not_K. }
  assert (outs <> []) as Hne by (intros ->; destruct Hin).
  pose proof (outs_steps_mem_tmp order src outs st1 Hne) as Hmem. fold st2 in Hmem.
  pose proof (outs_steps_missing order src o outs Hnd Hin Hm st1) as Hsub. fold st2 in Hsub.
  cbn [run fold_left]. rewrite (rename_final st2 HK2 Hmem).
  unfold retrieve, retrieve2. destruct (lookup [kK] (map (reprefix [kT] [kK]) st2)); [|reflexivity].
  destruct outs as [|o1 r]; [congruence|]. apply (retr_plain_missing _ o); [exact Hin|].
  apply (lookup_nil_sub [kK; o]); [apply is_prefix_refl|].
  rewrite (sub_reprefix [o] st2 HK2), Hsub. reflexivity.
Qed.

Lemma mem_cut_zero o src : mem [o] (cut o 0 src) = false.
Proof.
  apply (mem_sub_nil [o]); [apply is_prefix_refl|]. rewrite (sub_cut_same o 0 src 0 eq_refl). reflexivity.
Qed.

(* the walk failed at the root of output o (or o does not exist): miss *)
Theorem fault_plain_root_miss order st outs src o : NoDup outs -> In o outs ->
  retrieve false (run (store_steps_f false order st outs src (Some (o, 0))) st) outs = Miss.
Proof.
  intros Hnd Hin. cbn [store_steps_f]. rewrite plain_f_cut by (left; reflexivity).
  apply (plain_missing_miss _ _ _ _ o Hnd Hin). apply mem_cut_zero.
Qed.

Theorem plain_absent_output_miss order st outs src o : NoDup outs -> In o outs -> mem [o] src = false ->
  retrieve false (run (store_steps_f false order st outs src None) st) outs = Miss.
Proof.
  intros Hnd Hin Hm. cbn [store_steps_f]. rewrite store_plain_f_none. eapply plain_missing_miss; eauto.
Qed.

(* only the tail of the walk failed (nothing storable comes after the failing entry): the faulted
   store is the complete store *)
Lemma firstn_cut_all o k src : length (sub [o] src) <= k -> cut o k src = src.
Proof.
  revert k; induction src as [|e r IH]; intros k Hk; cbn [cut]; [reflexivity|].
  cbn [sub filter] in Hk. fold (sub [o] r) in Hk. destruct (is_prefix [o] (fst e)).
  - cbn [length] in Hk. destruct k as [|k]; [lia|]. f_equal. apply IH. lia.
  - f_equal. apply IH. exact Hk.
Qed.

(* ------------------------------------------------------------------------------------------ *)
(* the fault clause of the property, its refutation, and the part that holds *)

Definition fault_clause (c : bool) order st outs src (o : str) (k : nat) : Prop :=
  let r := retrieve c (run (store_steps_f c order st outs src (Some (o, k))) st) outs in
  r = Miss \/ r = Hit (pack src outs).

Lemma fault_partial_holds c order st outs src o k :
  inputs_ok c st outs src -> In o outs -> fault_defect c src (Some (o, k)) = None ->
  fault_clause c order st outs src o k.
Proof.
  intros (Hwf & Hnd & Hne & Hp & _) Hin Hd. unfold fault_clause. cbn zeta. destruct c.
  - left. apply fault_comp_miss. apply pack_f_aborts; assumption.
  - cbn [fault_defect] in Hd.
    destruct (Nat.eqb k 0) eqn:Hk0; cbn [orb] in Hd.
    { apply Nat.eqb_eq in Hk0. subst k. left. apply fault_plain_root_miss; assumption. }
    destruct (Nat.leb (length (sub [o] src)) k) eqn:Hlen; cbn [orb] in Hd.
    { apply Nat.leb_le in Hlen. right. cbn [store_steps_f].
      rewrite plain_f_cut by (eapply cut_ok_wf; eauto). rewrite (firstn_cut_all _ _ _ Hlen).
      apply roundtrip_plain; assumption. }
    destruct (mem [o] src) eqn:Hm; cbn [negb] in Hd; [discriminate|].
    left. cbn [store_steps_f]. rewrite plain_f_cut by (eapply cut_ok_wf; eauto).
    apply (plain_missing_miss _ _ _ _ o Hnd Hin).
    apply (mem_sub_nil [o]); [apply is_prefix_refl|]. rewrite (sub_cut_same o k src k eq_refl).
    assert (sub [o] src = []) as ->; [|destruct k; reflexivity].
    destruct (sub [o] src) as [|e r] eqn:Hs; [reflexivity|]. exfalso.
    unfold all_present in Hp. rewrite forallb_forall in Hp. rewrite (Hp o Hin) in Hm. discriminate.
Qed.

(* witness: the directory output d = {a, b}; the walk fails at its third entry (an unstorable entry
   sorts between a and b): the uncompressed store publishes d with a only *)
Definition wf_fault : fault := Some (s "d", 2).

Lemma w_fault_partial_hit :
  retrieve false (run (store_steps_f false [] [] w_outs w_src wf_fault) []) w_outs
  = Hit [([s "d"], D); ([s "d"; s "a"], F (s "1") false)].
Proof. vm_compute. reflexivity. Qed.

Lemma fault_refuted :
  ~ (forall c order st outs src o k, inputs_ok c st outs src -> In o outs -> fault_clause c order st outs src o k).
Proof.
  intros H. assert (inputs_ok false [] w_outs w_src) as Hok.
  { unfold inputs_ok. repeat split; try reflexivity; try discriminate. repeat constructor. intros []. }
  specialize (H false [] [] w_outs w_src (s "d") 2 Hok (or_introl eq_refl)).
  unfold fault_clause in H. cbn zeta in H. change (Some (s "d", 2)) with wf_fault in H.
  rewrite w_fault_partial_hit in H. destruct H as [H | H]; [discriminate H|].
  vm_compute in H. discriminate H.
Qed.

(* ------------------------------------------------------------------------------------------ *)
(* the bundles Props/C12.v states *)

Lemma fault_compressed_holds :
  forall order st outs src f outs', snd (pack_f src f outs) = true ->
    retrieve true (run (store_steps_f true order st outs src f) st) outs' = Miss
    /\ (crash_defect true st outs' = None -> forall n,
          let r := retrieve true (run (firstn n (store_steps_f true order st outs src f)) st) outs' in
          r = Miss \/ r = retrieve true st outs')
    /\ (forall o, retrieve true (run (store_comp_g false order st outs src f) st) (o :: outs')
                  = Hit (unpack (fst (pack_f src f outs)))).
Proof.
  intros order st outs src f outs' He. split; [|split].
  - apply fault_comp_miss; exact He.
  - intros Hd. apply fault_comp_crash; assumption.
  - intros o. apply comp_no_rm_partial_hit; exact He.
Qed.

Lemma fault_plain_exact_holds :
  (forall order st outs src o k, wfb (pack src outs) = true -> In o outs ->
      store_steps_f false order st outs src (Some (o, k)) = store_steps false order st outs (cut o k src))
  /\ (forall c order st outs src, all_present src outs = true ->
      store_steps_f c order st outs src None = store_steps c order st outs src).
Proof.
  split.
  - intros order st outs src o k Hwf Hin. apply plain_f_cut. eapply cut_ok_wf; eauto.
  - exact store_steps_f_none.
Qed.
