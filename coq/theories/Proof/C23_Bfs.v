(* C23 - findRevdeps with --hidden (every edge costs one level): the FIFO open set with dedup-on-push IS a
   breadth-first search, so `plz query revdeps --hidden --level N` is exact for ALL graphs and ALL limits.
   (Without --hidden the zero-cost edges break the queue order: that is the known finding.)

   Invariant (ghost list P = the nodes popped so far with the depth they were popped at): the queue is sorted by
   depth and spans at most two consecutive depths, nothing popped is deeper than anything queued, every done
   label is in P or in the queue, and every dependent u of a popped node w that was allowed to expand
   (depth < limit) is in the result and has itself a depth <= depth(w) + 1. *)
From Coq Require Import Lia Permutation Sorted.
From PlzV Require Import Base.Harness Model.C23 Proof.C23_Spec Proof.C23 Proof.C23_Rev.

Definition dle (a b : label * Z) : Prop := (snd a <= snd b)%Z.

Lemma sorted_app_one : forall q x, StronglySorted dle q -> (forall y, In y q -> dle y x) -> StronglySorted dle (q ++ [x]).
Proof.
  induction q as [|a q IH]; intros x Hs Hall; cbn [app].
  - constructor; [constructor | constructor].
  - apply StronglySorted_inv in Hs. destruct Hs as [Hs Hf]. constructor.
    + apply IH; [exact Hs | intros y Hy; apply Hall; right; exact Hy].
    + apply Forall_app. split; [exact Hf|]. constructor; [apply Hall; left; reflexivity | constructor].
Qed.

Lemma sorted_const : forall q, (forall x d, In (x, d) q -> d = 0%Z) -> StronglySorted dle q.
Proof.
  induction q as [|[a da] q IH]; intros H; [constructor|]. constructor.
  - apply IH. intros x d Hin. apply (H x d). right. exact Hin.
  - apply Forall_forall. intros [y dy] Hy. unfold dle. cbn [snd].
    rewrite (H a da (or_introl eq_refl)), (H y dy (or_intror Hy)). lia.
Qed.

Section RevHidden.
  Variable g : graph.
  Variable maxd : Z.
  Variable roots : list label.

  Definition belowb (d : Z) : bool := Z.ltb d maxd || Z.eqb maxd (-1).
  Definition below (d : Z) : Prop := maxd = (-1)%Z \/ (d < maxd)%Z.

  Lemma belowb_spec : forall d, belowb d = true <-> below d.
  Proof.
    intros d. unfold belowb, below. rewrite orb_true_iff, Z.ltb_lt, Z.eqb_eq. tauto.
  Qed.

  Lemma below_le : forall d d', (d' <= d)%Z -> below d -> below d'.
  Proof. intros d d' Hle [H|H]; [left; exact H | right; lia]. Qed.

  (* with --hidden the loop body is: report t, push it one level deeper *)
  Lemma rev_step_hid : forall nt nd st t, (0 <= nd)%Z ->
    rev_step g true maxd nt nd st t =
      if belowb nd then push (t, (nd + 1)%Z) (mkR (r_q st) (r_done st) (add t (r_ret st))) else st.
  Proof.
    intros nt nd st t Hnd. unfold rev_step, belowb. cbn [orb].
    replace (Z.ltb 0 (nd + 1)) with true by (symmetry; apply Z.ltb_lt; lia). reflexivity.
  Qed.

  Definition has_depth (P : list (label * Z)) (st : rstate) (u : label) (d : Z) : Prop :=
    In (u, d) P \/ In (u, d) (r_q st).

  (* a popped node that was allowed to expand has all its dependents reported and placed at most one level deeper *)
  Definition expanded (P : list (label * Z)) (st : rstate) (w : label) (dw : Z) : Prop :=
    below dw -> forall u, edge g [] u w -> In u (r_ret st) /\ exists du, has_depth P st u du /\ (du <= dw + 1)%Z.

  Definition binv (P : list (label * Z)) (st : rstate) : Prop :=
    (forall x d, has_depth P st x d -> (0 <= d)%Z) /\
    StronglySorted dle (r_q st) /\
    (forall x d x' d', In (x, d) (r_q st) -> In (x', d') (r_q st) -> (d' <= d + 1)%Z) /\
    (forall p dp x d, In (p, dp) P -> In (x, d) (r_q st) -> (dp <= d)%Z) /\
    (forall u, In u (r_done st) -> exists d, has_depth P st u d) /\
    (forall w dw, In (w, dw) P -> expanded P st w dw) /\
    (forall r, In r roots -> has_depth P st r 0%Z).

  (* while the dependents of the popped (nt, nd) are examined; P' already contains (nt, nd) *)
  Definition iinv (P' : list (label * Z)) (nd : Z) (st : rstate) : Prop :=
    StronglySorted dle (r_q st) /\
    (forall x d, In (x, d) (r_q st) -> (nd <= d <= nd + 1)%Z) /\
    (forall p dp, In (p, dp) P' -> (dp <= nd)%Z) /\
    (forall u, In u (r_done st) -> exists d, has_depth P' st u d).

  Definition growsq (st st' : rstate) : Prop :=
    incl (r_q st) (r_q st') /\ incl (r_done st) (r_done st') /\ incl (r_ret st) (r_ret st').

  Lemma growsq_refl : forall st, growsq st st.
  Proof. intros st. repeat split; apply incl_refl. Qed.

  Lemma growsq_trans : forall a b c, growsq a b -> growsq b c -> growsq a c.
  Proof. intros a b c [A1 [A2 A3]] [B1 [B2 B3]]. repeat split; eapply incl_tran; eauto. Qed.

  Lemma has_depth_grows : forall P st st' u d, growsq st st' -> has_depth P st u d -> has_depth P st' u d.
  Proof. intros P st st' u d [G1 _] [H|H]; [left; exact H | right; apply G1; exact H]. Qed.

  Lemma rev_step_bfs :
    forall P' nt nd st t, (0 <= nd)%Z -> iinv P' nd st ->
      let st' := rev_step g true maxd nt nd st t in
      iinv P' nd st' /\ growsq st st' /\
      (below nd -> In t (r_ret st') /\ exists du, has_depth P' st' t du /\ (du <= nd + 1)%Z).
  Proof.
    intros P' nt nd st t Hnd Hi. pose proof Hi as [I1 [I2 [I3 I4]]]. cbn zeta. rewrite rev_step_hid by exact Hnd.
    destruct (belowb nd) eqn:Eb.
    2:{ split; [exact Hi|]. split; [apply growsq_refl|]. intros Hb. apply belowb_spec in Hb. congruence. }
    unfold push. cbn [fst r_done r_q r_ret]. destruct (mem t (r_done st)) eqn:Em.
    - split; [exact Hi|]. split.
      + split; [apply incl_refl|]. split; [apply incl_refl|]. cbn [r_ret]. intros z Hz. apply In_add_old. exact Hz.
      + intros _. cbn [r_ret]. split; [apply In_add_same|]. apply mem_In in Em. destruct (I4 t Em) as [d [Hd|Hd]].
        * exists d. split; [left; exact Hd|]. specialize (I3 t d Hd). lia.
        * exists d. split; [right; exact Hd|]. specialize (I2 t d Hd). lia.
    - split; [|split].
      + split; cbn [r_q r_done]; [|split; [|split]].
        * apply sorted_app_one; [exact I1|]. intros [y dy] Hy. unfold dle. cbn [snd]. specialize (I2 y dy Hy). lia.
        * intros x d Hin. apply in_app_or in Hin. destruct Hin as [Hin|[Hin|[]]]; [apply I2 with x; exact Hin|].
          injection Hin as <- <-. lia.
        * exact I3.
        * intros u [Hu|Hu].
          -- subst u. exists (nd + 1)%Z. right. cbn [r_q]. apply in_or_app. right. left. reflexivity.
          -- destruct (I4 u Hu) as [d [Hd|Hd]]; exists d; [left; exact Hd | right; cbn [r_q]; apply in_or_app; left; exact Hd].
      + split; [|split]; cbn [r_q r_done r_ret]; intros z Hz; [apply in_or_app; left; exact Hz | right; exact Hz | apply In_add_old; exact Hz].
      + intros _. cbn [r_ret]. split; [apply In_add_same|]. exists (nd + 1)%Z. split; [|lia].
        right. cbn [r_q]. apply in_or_app. right. left. reflexivity.
  Qed.

  Lemma rev_fold_bfs :
    forall P' nt nd ts st, (0 <= nd)%Z -> iinv P' nd st ->
      let st' := fold_left (rev_step g true maxd nt nd) ts st in
      iinv P' nd st' /\ growsq st st' /\
      (below nd -> forall t, In t ts -> In t (r_ret st') /\ exists du, has_depth P' st' t du /\ (du <= nd + 1)%Z).
  Proof.
    intros P' nt nd. induction ts as [|t ts IH]; intros st Hnd Hi; cbn [fold_left].
    - split; [exact Hi|]. split; [apply growsq_refl|]. intros _ t [].
    - destruct (rev_step_bfs P' nt nd st t Hnd Hi) as [Hi1 [Hg1 Hr1]].
      destruct (IH _ Hnd Hi1) as [Hi2 [Hg2 Hall]].
      split; [exact Hi2|]. split; [eapply growsq_trans; eauto|].
      intros Hb z [Hz|Hz]; [|apply Hall; assumption]. subst z.
      destruct (Hr1 Hb) as [Hret [du [Hd Hle]]]. split; [apply Hg2; exact Hret|].
      exists du. split; [eapply has_depth_grows; eauto | exact Hle].
  Qed.

  Lemma rev_loop_bfs :
    forall fuel P st out, binv P st -> rev_loop fuel g true maxd st = Some out ->
      exists Pf,
        (forall w dw, In (w, dw) Pf -> below dw -> forall u, edge g [] u w ->
           In u out /\ exists du, In (u, du) Pf /\ (du <= dw + 1)%Z) /\
        (forall r, In r roots -> In (r, 0%Z) Pf).
  Proof.
    induction fuel as [|f IH]; intros P st out Hb H; cbn [rev_loop] in H; [discriminate|].
    destruct Hb as [B0 [B1 [B2 [B3 [B4 [B5 B6]]]]]].
    destruct (r_q st) as [|[nt nd] q'] eqn:Eq.
    - injection H as <-. exists P. split.
      + intros w dw Hw Hbl u Hu. destruct (B5 w dw Hw Hbl u Hu) as [Hr [du [[Hd|Hd] Hle]]]; [|rewrite Eq in Hd; destruct Hd].
        split; [exact Hr|]. exists du. auto.
      + intros r Hr. destruct (B6 r Hr) as [Hd|Hd]; [exact Hd | rewrite Eq in Hd; destruct Hd].
    - set (st0 := mkR q' (r_done st) (r_ret st)) in *. set (P' := (nt, nd) :: P).
      assert (Hnd : (0 <= nd)%Z) by (apply (B0 nt nd); right; rewrite Eq; left; reflexivity).
      apply StronglySorted_inv in B1. destruct B1 as [S1 S2]. rewrite Forall_forall in S2.
      (* has_depth moves from (P, st) to (P', anything that contains q') *)
      assert (Hmove : forall s u d, incl q' (r_q s) -> has_depth P st u d -> has_depth P' s u d).
      { intros s u d Hq [Hd|Hd]; [left; right; exact Hd|]. rewrite Eq in Hd. destruct Hd as [Hd|Hd].
        - left. left. exact Hd.
        - right. apply Hq. exact Hd. }
      assert (Hi0 : iinv P' nd st0).
      { split; [exact S1|]. split; [|split].
        - cbn [r_q st0]. intros x d Hin. split.
          + apply (S2 (x, d) Hin).
          + apply (B2 nt nd x d); [left; reflexivity | right; exact Hin].
        - intros p dp [Hp|Hp]; [injection Hp as <- <-; lia|]. apply (B3 p dp nt nd Hp). left. reflexivity.
        - cbn [r_done st0]. intros u Hu. destruct (B4 u Hu) as [d Hd]. exists d. apply Hmove; [apply incl_refl | exact Hd]. }
      destruct (rev_fold_bfs P' nt nd (rev_of g nt) st0 Hnd Hi0) as [[J1 [J2 [J3 J4]]] [Hg Hall]].
      cbn zeta in *. set (sb := fold_left (rev_step g true maxd nt nd) (rev_of g nt) st0) in *.
      assert (Hq' : incl q' (r_q sb)) by (destruct Hg as [G1 _]; exact G1).
      apply (IH P' sb out); [|exact H].
      split; [|split; [|split; [|split; [|split; [|split]]]]].
      + intros x d [[Hd|Hd]|Hd].
        * injection Hd as <- <-. exact Hnd.
        * apply (B0 x d). left. exact Hd.
        * pose proof (J2 x d Hd). lia.
      + exact J1.
      + intros x d x' d' H1 H2. pose proof (J2 x d H1). pose proof (J2 x' d' H2). lia.
      + intros p dp x d Hp Hx. pose proof (J3 p dp Hp). pose proof (J2 x d Hx). lia.
      + exact J4.
      + intros w dw [Hw|Hw] Hbl u Hu.
        * injection Hw as <- <-. apply (Hall Hbl). apply rev_of_complete. exact Hu.
        * destruct (B5 w dw Hw Hbl u Hu) as [Hr [du [Hd Hle]]]. split; [apply Hg; exact Hr|].
          exists du. split; [apply Hmove; assumption | exact Hle].
      + intros r Hr. apply Hmove; [exact Hq' | apply B6; exact Hr].
  Qed.

  (* ---- the initial pushes: with --hidden only the roots themselves, all at depth 0 ---- *)
  Lemma rev_init_hid : forall rs chs st, rev_init g true rs chs st = fold_left (fun s r => push (r, 0%Z) s) rs st.
  Proof. induction rs as [|r rs IH]; intros chs st; cbn [rev_init fold_left negb andb]; [reflexivity | apply IH]. Qed.

  Definition q0 (st : rstate) : Prop :=
    (forall x d, In (x, d) (r_q st) -> d = 0%Z) /\ (forall u, In u (r_done st) -> In (u, 0%Z) (r_q st)).

  Lemma push0 : forall r st, q0 st -> q0 (push (r, 0%Z) st) /\ In (r, 0%Z) (r_q (push (r, 0%Z) st)) /\ incl (r_q st) (r_q (push (r, 0%Z) st)).
  Proof.
    intros r st [Q1 Q2]. unfold push. cbn [fst]. destruct (mem r (r_done st)) eqn:Em.
    - split; [split; assumption|]. split; [apply Q2; apply mem_In; exact Em | apply incl_refl].
    - cbn [r_q r_done]. split; [split|split].
      + intros x d Hin. apply in_app_or in Hin. destruct Hin as [Hin|[Hin|[]]]; [apply (Q1 x d Hin) | injection Hin as <- <-; reflexivity].
      + intros u [Hu|Hu]; apply in_or_app; [right; left; subst; reflexivity | left; apply Q2; exact Hu].
      + apply in_or_app. right. left. reflexivity.
      + intros z Hz. apply in_or_app. left. exact Hz.
  Qed.

  Lemma fold_push0 : forall rs st, q0 st ->
    q0 (fold_left (fun s r => push (r, 0%Z) s) rs st) /\
    incl (r_q st) (r_q (fold_left (fun s r => push (r, 0%Z) s) rs st)) /\
    forall r, In r rs -> In (r, 0%Z) (r_q (fold_left (fun s r => push (r, 0%Z) s) rs st)).
  Proof.
    induction rs as [|r rs IH]; intros st Hq; cbn [fold_left].
    - split; [exact Hq|]. split; [apply incl_refl|]. intros r [].
    - destruct (push0 r st Hq) as [Hq1 [Hin Hinc]]. destruct (IH _ Hq1) as [Hq2 [Hinc2 Hall]].
      split; [exact Hq2|]. split; [eapply incl_tran; eauto|].
      intros z [Hz|Hz]; [subst z; apply Hinc2; exact Hin | apply Hall; exact Hz].
  Qed.
End RevHidden.

Theorem revdeps_hidden_complete :
  forall g roots chs lim out, revdeps_with g roots chs true lim = Some out ->
    forall x, rwithin g true roots lim x -> In x out.
Proof.
  intros g roots chs lim out H x [s [t [c [Hs [Hp [Hc [Hlim Hrep]]]]]]].
  unfold report in Hrep. cbn [orb] in Hrep. subst x.
  destruct Hs as [r [Hr [Hs|[Hf _]]]]; [subst s | discriminate].
  unfold revdeps_with in H. rewrite rev_init_hid in H.
  assert (Hq0 : q0 (mkR [] [] [])) by (split; cbn [r_q r_done]; [intros ? ? [] | intros ? []]).
  destruct (fold_push0 roots _ Hq0) as [[Q1 Q2] [_ Q3]].
  set (st := fold_left (fun s r => push (r, 0%Z) s) roots (mkR [] [] [])) in *.
  assert (Hb : binv g lim roots [] st).
  { split; [|split; [|split; [|split; [|split; [|split]]]]].
    - intros y d [[]|Hd]. rewrite (Q1 y d Hd). lia.
    - apply sorted_const. exact Q1.
    - intros y d y' d' H1 H2. rewrite (Q1 y d H1), (Q1 y' d' H2). lia.
    - intros p dp y d [].
    - intros u Hu. exists 0%Z. right. apply Q2. exact Hu.
    - intros w dw [].
    - intros r0 Hr0. right. apply Q3. exact Hr0. }
  destruct (rev_loop_bfs g lim roots _ _ _ _ Hb H) as [Pf [F5 F6]].
  assert (HK : forall s t c, rpath g true s t c -> In s roots -> below lim c -> exists d, In (t, d) Pf /\ (d <= c)%Z).
  { clear r t c Hr Hp Hc Hlim. intros s t c Hp. induction Hp as [s|s u t c Hp IH He]; intros Hs Hbl.
    - exists 0%Z. split; [apply F6; exact Hs | lia].
    - unfold rcost in *. cbn [orb] in *.
      assert (Hbl' : below lim c) by (eapply below_le; [|exact Hbl]; lia).
      destruct (IH Hs Hbl') as [du [Hdu Hle]].
      destruct (F5 u du Hdu (below_le lim c du Hle Hbl') t He) as [_ [dt [Hdt Hle2]]].
      exists dt. split; [exact Hdt | lia]. }
  inversion Hp as [s0 Es Et Ec | s0 u t0 c' Hp' He Es Et Ec]; subst; [lia|].
  unfold rcost in *. cbn [orb] in *.
  assert (Hbl : below lim c') by (destruct Hlim as [Hl|Hl]; [left; exact Hl | right; lia]).
  destruct (HK r u c' Hp' Hr Hbl) as [du [Hdu Hle]].
  apply (F5 u du Hdu (below_le lim c' du Hle Hbl) t He).
Qed.

(* `plz query revdeps --hidden --level lim` is exact, for every graph and every limit *)
Theorem revdeps_hidden_exact :
  forall g roots chs lim, NoDup (map fst g) -> Forall (in_graph g) roots ->
    Forall2 (fun r ch => Permutation ch (children g r)) roots chs ->
    exists out, revdeps_with g roots chs true lim = Some out /\ forall x, In x out <-> rwithin g true roots lim x.
Proof.
  intros g roots chs lim Hnd Hin HF.
  destruct (revdeps_sound_proof g roots chs true lim Hnd Hin HF) as [out [Hq Hs]].
  exists out. split; [exact Hq|]. intros x. split; [apply Hs|].
  eapply revdeps_hidden_complete; eauto.
Qed.
