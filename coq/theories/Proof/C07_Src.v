(* C07 - the source-hash stream does not depend on the order in which Go enumerates the named-source / named-tool maps
   nor on the order of the dependency slices of the graph, as long as the EXPORTED entries of every slice keep their
   relative order (ExportedDependencies() is not sorted; that order is the order of the BUILD file's arguments, ordered
   data of the definition).  The last lemma shows that this hypothesis cannot be dropped. *)
From Coq Require Import Lia Permutation.
From PlzV Require Import Base.Harness Base.StrFacts Model.C08 Model.C07_Src Gen.C07SourceHash Proof.C07.

(* ------------------------------------------------------------------------------------------ permutations *)

Lemma perm_filter {A} (f : A -> bool) (l l' : list A) : Permutation l l' -> Permutation (filter f l) (filter f l').
Proof.
  induction 1 as [|x l l' Hp IH|x y l|l l' l'' Hp1 IH1 Hp2 IH2]; cbn.
  - constructor.
  - destruct (f x); [now constructor | assumption].
  - destruct (f x), (f y); try reflexivity. apply perm_swap.
  - now transitivity (filter f l').
Qed.

Lemma existsb_perm {A} (f : A -> bool) (l l' : list A) : Permutation l l' -> existsb f l = existsb f l'.
Proof.
  induction 1 as [|x l l' Hp IH|x y l|l l' l'' Hp1 IH1 Hp2 IH2]; cbn.
  - reflexivity.
  - now rewrite IH.
  - destruct (f x), (f y); reflexivity.
  - congruence.
Qed.

(* ------------------------------------------------------------------------------------------ one node *)

(* everything IterInputs / sourceHash observe of a node *)
Record obs_eq (p : sprog) (n n' : node) : Prop := ObsEq {
  oe_build : build_deps p n = build_deps p n';
  oe_exp : exported_deps n = exported_deps n';
  oe_tool : forall l, is_tool n l = is_tool n' l;
  oe_rt : n_runtime n = n_runtime n';
  oe_nt : n_needs_transitive n = n_needs_transitive n';
  oe_oc : n_output_is_complete n = n_output_is_complete n';
  oe_srcs : all_sources p n = all_sources p n';
  oe_tools : all_tools p n = all_tools p n'
}.

Lemma obs_eq_refl p n : obs_eq p n n.
Proof. constructor; reflexivity. Qed.

Lemma node_obs_eq p n n' :
  src_sorted_only p = true -> node_wfb n = true -> node_same n n' -> exported_deps n = exported_deps n' -> obs_eq p n n'.
Proof.
  intros Hp Hwf (Hs & Hns & Ht & Hnt & Htt & Hd & Hn & Ho & Hr) He.
  unfold src_sorted_only in Hp. apply andb_true_iff in Hp. destruct Hp as [Hbs His].
  unfold node_wfb in Hwf. apply andb_true_iff in Hwf. destruct Hwf as [Hk1 Hk2].
  constructor; try assumption.
  - unfold build_deps. rewrite Hbs. apply sort_labels_perm. apply Permutation_flat_map. now apply perm_filter.
  - intros l. unfold is_tool. rewrite Ht, Htt. f_equal. f_equal. now apply existsb_perm.
  - unfold all_sources, all_inputs. rewrite His, Hs. unfold order_of. now rewrite (sort_keys_perm _ _ Hk1 Hns).
  - unfold all_tools, all_inputs. rewrite His, Ht. unfold order_of. now rewrite (sort_keys_perm _ _ Hk2 Hnt).
Qed.

(* ------------------------------------------------------------------------------------------ the graph *)

Lemma find_obs p (l : label) (ns : list (label * node)) : forall ns',
  src_sorted_only p = true ->
  forallb (fun kv => node_wfb (snd kv)) ns = true ->
  Forall2 (fun kv kv' => fst kv = fst kv' /\ node_same (snd kv) (snd kv')) ns ns' ->
  Forall2 (fun kv kv' => exported_deps (snd kv) = exported_deps (snd kv')) ns ns' ->
  obs_eq p (match find (fun kv => label_eqb l (fst kv)) ns with Some kv => snd kv | None => empty_node end)
           (match find (fun kv => label_eqb l (fst kv)) ns' with Some kv => snd kv | None => empty_node end).
Proof.
  induction ns as [|kv ns IH]; intros ns' Hp Hwf Hsame Hexp.
  - inversion Hsame; subst. cbn. apply obs_eq_refl.
  - inversion Hsame as [|? kv' ? ns0' [Hk Hn] Hsame']; subst. inversion Hexp as [|? ? ? ? He Hexp']; subst.
    cbn [forallb] in Hwf. apply andb_true_iff in Hwf. destruct Hwf as [Hw Hwf].
    cbn [find]. rewrite <- Hk. destruct (label_eqb l (fst kv)).
    + now apply node_obs_eq.
    + now apply IH.
Qed.

Lemma find_node_obs p g g' :
  src_sorted_only p = true -> graph_wf g -> graph_same g g' -> exported_same g g' ->
  forall l, obs_eq p (find_node g l) (find_node g' l).
Proof.
  intros Hp Hwf (Hsame & _ & _) Hexp l. unfold find_node. now apply find_obs.
Qed.

Lemma rpf_same g g' : g_provide g = g_provide g' -> forall a b, rpf g a b = rpf g' a b.
Proof. intros H a b. unfold rpf. now rewrite H. Qed.

Lemma paths_same g g' : g_paths g = g_paths g' -> forall i, paths_of g i = paths_of g' i.
Proof. intros H i. unfold paths_of. now rewrite H. Qed.

Lemma visit_label_same p g g' : (forall l, obs_eq p (find_node g l) (find_node g' l)) ->
  forall l, visit_label g l = visit_label g' l.
Proof. intros H l. unfold visit_label. now rewrite (oe_rt _ _ _ (H l)). Qed.

(* ------------------------------------------------------------------------------------------ IterInputs *)

Lemma fold_left_step_ext rec rec' skip skip' (l : list label) :
  (forall d st, rec d st = rec' d st) -> (forall d, skip d = skip' d) ->
  forall acc, fold_left (step rec skip) l acc = fold_left (step rec' skip') l acc.
Proof.
  intros Hr Hs. induction l as [|x l IH]; intros acc; [reflexivity|]. cbn [fold_left]. rewrite IH. f_equal.
  unfold step. destruct acc as [st|]; [|reflexivity]. now rewrite Hs, Hr.
Qed.

Lemma inner_same p g g' top :
  (forall l, obs_eq p (find_node g l) (find_node g' l)) -> g_provide g = g_provide g' ->
  forall fuel d st, inner p g top fuel d st = inner p g' top fuel d st.
Proof.
  intros Hobs Hprov. induction fuel as [|f IH]; intros d st; [reflexivity|].
  cbn [inner]. destruct (Hobs d) as [Hb He Ht _ _ Hoc _ _]. destruct (Hobs top) as [_ _ _ _ Hnt _ _ _].
  rewrite (visit_label_same p g g' Hobs d), Hnt, Hoc, Hb, He.
  destruct (label_eqb d top || n_needs_transitive (find_node g' top) && negb (n_output_is_complete (find_node g' d)));
    rewrite (flat_map_ext (rpf g d) (rpf g' d) (rpf_same g g' Hprov d)).
  - apply fold_left_step_ext; [exact IH | exact Ht].
  - apply fold_left_step_ext; [exact IH | reflexivity].
Qed.

Lemma provide_source_same p g g' top :
  (forall l, obs_eq p (find_node g l) (find_node g' l)) -> g_provide g = g_provide g' ->
  forall i, provide_source g top i = provide_source g' top i.
Proof.
  intros Hobs Hprov i. unfold provide_source. destruct (non_output_label i) as [l|]; [|reflexivity].
  rewrite (rpf_same g g' Hprov). apply flat_map_ext. apply (visit_label_same p g g' Hobs).
Qed.

Lemma iter_inputs_same p g g' top fuel it :
  (forall l, obs_eq p (find_node g l) (find_node g' l)) -> g_provide g = g_provide g' ->
  iter_inputs p g top fuel it = iter_inputs p g' top fuel it.
Proof.
  intros Hobs Hprov. unfold iter_inputs. destruct (Hobs top) as [_ _ _ _ _ _ Hs Ht]. rewrite Hs, Ht.
  rewrite !(flat_map_ext (provide_source g top) (provide_source g' top) (provide_source_same p g g' top Hobs Hprov)).
  rewrite (inner_same p g g' top Hobs Hprov). reflexivity.
Qed.

(* ------------------------------------------------------------------------------------------ sourceHash *)

Theorem src_stream_order_free PH p fuel g g' top :
  src_sorted_only p = true -> graph_wf g -> graph_same g g' -> exported_same g g' ->
  src_stream PH p fuel g top = src_stream PH p fuel g' top.
Proof.
  intros Hp Hwf Hsame Hexp. pose proof (find_node_obs p g g' Hp Hwf Hsame Hexp) as Hobs.
  destruct Hsame as (_ & Hprov & Hpaths). unfold src_stream.
  induction (sp_body p) as [|e body IH]; [reflexivity|]. cbn [fold_right]. rewrite IH. f_equal.
  destruct e as [it ws|ws]; cbn [semit_bytes].
  - unfold iter_sources. rewrite (iter_inputs_same p g g' top fuel it Hobs Hprov).
    destruct (iter_inputs p g' top fuel it) as [ins|]; [|reflexivity]. cbn [option_map].
    now rewrite (flat_map_ext (paths_of g) (paths_of g') (paths_same g g' Hpaths)).
  - destruct (Hobs top) as [_ _ _ _ _ _ _ Ht]. rewrite Ht. f_equal. apply flat_map_ext. intros tool.
    now rewrite (paths_same g g' Hpaths).
Qed.

(* computation on the regenerated program: BuildDependencies sorts its copy and allBuildInputs sorts the keys.
   Removing `sort.Sort(ret)` from BuildDependencies or `sort.Strings(keys)` from allBuildInputs makes gotrans emit
   `false` and this lemma fails. *)
Lemma gen_src_sorted : src_sorted_only C07SourceHash.prog = true.
Proof. vm_compute. reflexivity. Qed.

Lemma C07_src_full_proof :
  forall (D : Type) (H : str -> D) (PH : str -> str) (fuel : nat) (g g' : graph) (top : label),
    graph_wf g -> graph_same g g' -> exported_same g g' ->
    option_map H (src_stream PH C07SourceHash.prog fuel g top) = option_map H (src_stream PH C07SourceHash.prog fuel g' top).
Proof.
  intros D H PH fuel g g' top Hwf Hsame Hexp. f_equal. now apply src_stream_order_free; [apply gen_src_sorted| | |].
Qed.

(* ------------------------------------------------------------------------------------------ the classifier *)

(* when no node has two exported dependencies, two presentations necessarily agree on the exported order *)
Lemma no_exported_pair_same g g' : exported_order_matters g = false -> graph_same g g' -> exported_same g g'.
Proof.
  intros Hc (Hsame & _ & _). unfold exported_same, exported_order_matters in *.
  induction Hsame as [|kv kv' ns ns' [_ Hn] Hsame IH]; [constructor|].
  cbn [existsb] in Hc. apply orb_false_iff in Hc. destruct Hc as [Hlen Hc]. constructor; [|now apply IH].
  destruct Hn as (_ & _ & _ & _ & _ & Hd & _).
  assert (Hp : Permutation (exported_deps (snd kv)) (exported_deps (snd kv'))).
  { unfold exported_deps. apply Permutation_map. now apply perm_filter. }
  destruct (exported_deps (snd kv)) as [|a [|b r]].
  - apply Permutation_nil in Hp. now rewrite Hp.
  - apply Permutation_length_1_inv in Hp. now rewrite Hp.
  - cbn in Hlen. discriminate.
Qed.

Lemma C07_src_classified_proof :
  forall (D : Type) (H : str -> D) (PH : str -> str) (fuel : nat) (g g' : graph) (top : label),
    graph_wf g -> graph_same g g' -> exported_order_matters g = false ->
    option_map H (src_stream PH C07SourceHash.prog fuel g top) = option_map H (src_stream PH C07SourceHash.prog fuel g' top).
Proof.
  intros D H PH fuel g g' top Hwf Hsame Hc. apply C07_src_full_proof; try assumption. now apply no_exported_pair_same.
Qed.

(* ------------------------------------------------------------------------------------------ the witness *)

(* t depends on d; d exports x and y (inserted into d's slice by a dict-valued srcs in either order) *)
Definition w_x := Label [] (s "p") (s "x").
Definition w_y := Label [] (s "p") (s "y").
Definition w_d := Label [] (s "p") (s "d").
Definition w_t := Label [] (s "p") (s "t").
Definition w_leaf : node := empty_node.
Definition w_dnode (deps : list dep) : node :=
  Node [] [(s "a", [ILabel w_x]); (s "b", [ILabel w_y])] [] [] [] deps false false [].
Definition w_tnode : node := Node [] [] [] [] [] [Dep w_d [w_d] true false] false false [].
Definition w_paths : list (input * list (str * str)) :=
  [(ILabel w_x, [(s "gen/p/x.out", s "tmp/p/x.out")]); (ILabel w_y, [(s "gen/p/y.out", s "tmp/p/y.out")]);
   (ILabel w_d, [(s "gen/p/d.out", s "tmp/p/d.out")])].
Definition w_graph (deps : list dep) : graph :=
  Graph [(w_x, w_leaf); (w_y, w_leaf); (w_d, w_dnode deps); (w_t, w_tnode)] [] w_paths.
Definition w_dx := Dep w_x [w_x] true true.
Definition w_dy := Dep w_y [w_y] true true.
Definition w_g := w_graph [w_dx; w_dy].
Definition w_g' := w_graph [w_dy; w_dx].

Lemma node_same_refl n : node_same n n.
Proof. repeat split; reflexivity. Qed.

Lemma w_same : graph_same w_g w_g'.
Proof.
  split; [|split; reflexivity]. cbn.
  constructor; [split; [reflexivity | apply node_same_refl]|].
  constructor; [split; [reflexivity | apply node_same_refl]|].
  constructor; [|constructor; [split; [reflexivity | apply node_same_refl] | constructor]].
  split; [reflexivity|]. repeat split; try reflexivity. cbn. apply perm_swap.
Qed.

(* For the record, why `exported_same` cannot be dropped: ExportedDependencies() returns the exported entries in the
   stored order of the slice and IterInputs follows it, so two presentations that differ ONLY in the order of two
   exported entries are hashed differently.  (On the real code this was reachable while asp added the groups of a
   dict-valued srcs/tools/data in Go map order; the harness keeps that witness end to end.) *)
Lemma exported_order_is_observable :
  ~ (forall (D : Type) (H : str -> D) (PH : str -> str) (fuel : nat) (g g' : graph) (top : label),
       graph_wf g -> graph_same g g' ->
       option_map H (src_stream PH C07SourceHash.prog fuel g top) = option_map H (src_stream PH C07SourceHash.prog fuel g' top)).
Proof.
  intros Hall. specialize (Hall str (fun x => x) (fun x => x) 4%nat w_g w_g' w_t eq_refl w_same).
  vm_compute in Hall. discriminate Hall.
Qed.
