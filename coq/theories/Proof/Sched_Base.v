(* C04 / C05 - basic facts about the scheduler model (Model/Sched.v): multisets as lists, finite-map updates,
   the helper functions of `apply`, runs and reachability. *)
From PlzV Require Import Base.Harness Model.Sched.
From Coq Require Import Lia Arith.

(* ---- multisets ---- *)
Fixpoint cnt (t : nat) (l : list nat) : nat :=
  match l with
  | [] => 0
  | x :: r => (if Nat.eqb t x then 1 else 0) + cnt t r
  end.

Lemma mem_In : forall t l, mem t l = true <-> In t l.
Proof.
  intros t l. unfold mem. rewrite existsb_exists. split.
  - intros [x [Hx He]]. apply Nat.eqb_eq in He. subst. exact Hx.
  - intros H. exists t. split; [exact H | apply Nat.eqb_refl].
Qed.

Lemma mem_cnt : forall t l, mem t l = true <-> 1 <= cnt t l.
Proof.
  intros t l. induction l as [|x r IH]; cbn.
  - split; [discriminate | lia].
  - destruct (Nat.eqb_spec t x); cbn.
    + split; intros; [lia | reflexivity].
    + rewrite IH. reflexivity.
Qed.

Lemma mem_false_cnt : forall t l, mem t l = false <-> cnt t l = 0.
Proof.
  intros t l. destruct (mem t l) eqn:E.
  - apply mem_cnt in E. split; [discriminate | lia].
  - split; [|reflexivity]. intros _. destruct (cnt t l) eqn:C; [reflexivity|].
    assert (mem t l = true) by (apply mem_cnt; lia). congruence.
Qed.

Lemma cnt_remove1_same : forall t l, mem t l = true -> S (cnt t (remove1 t l)) = cnt t l.
Proof.
  intros t l. induction l as [|x r IH]; cbn; [discriminate|].
  destruct (Nat.eqb_spec t x); cbn.
  - intros _. reflexivity.
  - intros H. destruct (Nat.eqb_spec t x); [contradiction|]. cbn. apply IH. exact H.
Qed.

Lemma cnt_remove1_other : forall t u l, t <> u -> cnt t (remove1 u l) = cnt t l.
Proof.
  intros t u l Hne. induction l as [|x r IH]; cbn; [reflexivity|].
  destruct (Nat.eqb_spec u x); cbn.
  - subst. destruct (Nat.eqb_spec t x); [contradiction | reflexivity].
  - rewrite IH. reflexivity.
Qed.

Lemma length_remove1 : forall t l, mem t l = true -> S (length (remove1 t l)) = length l.
Proof.
  intros t l. induction l as [|x r IH]; cbn; [discriminate|].
  destruct (Nat.eqb_spec t x); cbn; [reflexivity|]. intros H. rewrite IH; [reflexivity | exact H].
Qed.

Lemma In_remove1 : forall x t l, In x (remove1 t l) -> In x l.
Proof.
  intros x t l. induction l as [|y r IH]; cbn; [tauto|].
  destruct (Nat.eqb t y); cbn; intuition.
Qed.

Lemma In_remove1_other : forall x t l, x <> t -> In x l -> In x (remove1 t l).
Proof.
  intros x t l Hne. induction l as [|y r IH]; cbn; [tauto|].
  destruct (Nat.eqb_spec t y); cbn; intuition; subst; contradiction.
Qed.

Lemma is_nil_true : forall A (l : list A), is_nil l = true <-> l = [].
Proof. intros A [|x r]; cbn; split; intros H; congruence. Qed.

Lemma cnt_nil_all : forall l, (forall t, cnt t l = 0) -> l = [].
Proof.
  intros [|x r] H; [reflexivity|]. specialize (H x). cbn in H. rewrite Nat.eqb_refl in H. lia.
Qed.

(* ---- finite maps ---- *)
Lemma upd_same : forall A (f : nat -> A) k v, upd f k v k = v.
Proof. intros. unfold upd. rewrite Nat.eqb_refl. reflexivity. Qed.
Lemma upd_other : forall A (f : nat -> A) k v x, x <> k -> upd f k v x = f x.
Proof. intros. unfold upd. destruct (Nat.eqb_spec x k); [contradiction | reflexivity]. Qed.

(* ---- the state order (depends on the regenerated Gen/StateOrder.v) ---- *)
Lemma rank_table :
  rank Inactive = 0%N /\ rank Semiactive = 1%N /\ rank Active = 2%N /\ rank Pending = 3%N /\ rank Building = 4%N /\
  (rank Building < rank is_built_lo)%N /\ (rank is_built_lo <= rank Built)%N /\ (rank Built < rank is_built_hi)%N /\
  (rank Cached < rank is_built_hi)%N /\ (rank Unchanged < rank is_built_hi)%N /\ (rank Reused < rank is_built_hi)%N /\
  rank is_built_hi = rank DependencyFailed /\ (rank DependencyFailed < rank Failed)%N.
Proof. cbn. repeat split; try reflexivity; try lia. Qed.

Lemma constants_ok :
  queued_threshold = Active /\ cas_need = [(Inactive, Active); (Semiactive, Active)] /\ cas_noneed = [(Inactive, Semiactive)] /\
  dep_failed_threshold = DependencyFailed /\ dep_failed_set = DependencyFailed /\ cas_pending = (Active, Pending) /\
  build_start_set = Building /\ build_fail_set = Failed /\ is_built_lo = Built /\ is_built_hi = DependencyFailed.
Proof. repeat split; reflexivity. Qed.

(* states only move forward: every compare-and-swap pair and every stored constant respects the order *)
Lemma cas_forward : forall pairs cur new, In pairs [cas_need; cas_noneed; [cas_pending]] -> cas pairs cur = Some new -> (rank cur < rank new)%N.
Proof.
  intros pairs cur new Hin. cbn in Hin.
  destruct Hin as [<-|[<-|[<-|[]]]]; destruct cur; cbn; intros H; inversion H; subst; cbn; lia.
Qed.

(* ---- helpers of apply ---- *)
Definition qr_ok (s : state) (t : nat) : bool := N.ltb (rank (ts s t)) 2.

Definition qr_state (g : graph) (s : state) (t : nat) : state :=
  set_asy (set_numPending (set_numActive (set_ts s (upd (ts s) t Active)) (numActive s + 1)%Z) (numPending s + 1)%Z)
          (upd (asy s) t (AQueue (g_deps g t))).

Lemma queue_resolved_eq : forall g s t, queue_resolved g s t = if qr_ok s t then qr_state g s t else s.
Proof.
  intros g s t. unfold queue_resolved, qr_ok, qr_state. destruct (ts s t) eqn:E; cbn; try reflexivity.
Qed.

(* ---- runs ---- *)
Definition reachable (g : graph) (s : state) : Prop := exists ls, run g (init g) ls = Some s.

Lemma run_app : forall g ls1 ls2 s, run g s (ls1 ++ ls2) = match run g s ls1 with Some s' => run g s' ls2 | None => None end.
Proof.
  intros g ls1. induction ls1 as [|l r IH]; intros ls2 s; cbn; [reflexivity|].
  destruct (enabled g s l); [apply IH | reflexivity].
Qed.

Lemma reachable_ind' : forall g (P : state -> Prop),
  P (init g) ->
  (forall s l, reachable g s -> P s -> enabled g s l = true -> P (apply g s l)) ->
  forall s, reachable g s -> P s.
Proof.
  intros g P H0 Hstep s [ls Hrun]. revert s Hrun.
  induction ls as [|l r IH] using rev_ind; intros s Hrun.
  - cbn in Hrun. inversion Hrun. subst. exact H0.
  - rewrite run_app in Hrun. destruct (run g (init g) r) as [s'|] eqn:Hr; [|discriminate].
    cbn in Hrun. destruct (enabled g s' l) eqn:He; [|discriminate]. inversion Hrun. subst.
    apply Hstep; [exists r; exact Hr | apply IH; reflexivity | exact He].
Qed.

Lemma reachable_step : forall g s l, reachable g s -> enabled g s l = true -> reachable g (apply g s l).
Proof.
  intros g s l [ls H] He. exists (ls ++ [l]). rewrite run_app, H. cbn. rewrite He. reflexivity.
Qed.

(* graphs the theorems are about: labels in range *)
Definition wf (g : graph) : Prop :=
  (forall t d, In d (g_deps g t) -> d < g_n g) /\ (forall l, In l (g_req g) -> l < g_n g) /\ 1 <= g_threads g.
