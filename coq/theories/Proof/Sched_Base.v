(* C04 / C05 - basic facts about the scheduler model (Model/Sched.v): multisets as lists, finite-map updates,
   the helper functions of `apply`, runs and reachability. *)
From PlzV Require Import Base.Harness Model.Sched.
From Coq Require Import Lia Arith.

(* ---- multisets ---- *)
Fixpoint cnt (t : nat) (l : list nat) : nat :=
  match l with
  | [] => 0
  | x :: r => (if Nat.eqb t x then 1 else 0) + cnt t r
  end.

Lemma mem_In : forall t l, mem t l = true <-> In t l.
Proof.
  intros t l. unfold mem. rewrite existsb_exists. split.
  - intros [x [Hx He]]. apply Nat.eqb_eq in He. subst. exact Hx.
  - intros H. exists t. split; [exact H | apply Nat.eqb_refl].
Qed.

Lemma mem_cnt : forall t l, mem t l = true <-> 1 <= cnt t l.
Proof.
  intros t l. induction l as [|x r IH]; cbn.
  - split; [discriminate | lia].
  - destruct (Nat.eqb_spec t x); cbn.
    + split; intros; [lia | reflexivity].
    + rewrite IH. reflexivity.
Qed.

Lemma mem_false_cnt : forall t l, mem t l = false <-> cnt t l = 0.
Proof.
  intros t l. destruct (mem t l) eqn:E.
  - apply mem_cnt in E. split; [discriminate | lia].
  - split; [|reflexivity]. intros _. destruct (cnt t l) eqn:C; [reflexivity|].
    assert (mem t l = true) by (apply mem_cnt; lia). congruence.
Qed.

Lemma cnt_remove1_same : forall t l, mem t l = true -> S (cnt t (remove1 t l)) = cnt t l.
Proof.
  intros t l. induction l as [|x r IH]; cbn; [discriminate|].
  destruct (Nat.eqb_spec t x); cbn.
  - intros _. reflexivity.
  - intros H. destruct (Nat.eqb_spec t x); [contradiction|]. cbn. apply IH. exact H.
Qed.

Lemma cnt_remove1_other : forall t u l, t <> u -> cnt t (remove1 u l) = cnt t l.
Proof.
  intros t u l Hne. induction l as [|x r IH]; cbn; [reflexivity|].
  destruct (Nat.eqb_spec u x); cbn.
  - subst. destruct (Nat.eqb_spec t x); [contradiction | reflexivity].
  - rewrite IH. reflexivity.
Qed.

Lemma length_remove1 : forall t l, mem t l = true -> S (length (remove1 t l)) = length l.
Proof.
  intros t l. induction l as [|x r IH]; cbn; [discriminate|].
  destruct (Nat.eqb_spec t x); cbn; [reflexivity|]. intros H. rewrite IH; [reflexivity | exact H].
Qed.

Lemma In_remove1 : forall x t l, In x (remove1 t l) -> In x l.
Proof.
  intros x t l. induction l as [|y r IH]; cbn; [tauto|].
  destruct (Nat.eqb t y); cbn; intuition.
Qed.

Lemma In_remove1_other : forall x t l, x <> t -> In x l -> In x (remove1 t l).
Proof.
  intros x t l Hne. induction l as [|y r IH]; cbn; [tauto|].
  destruct (Nat.eqb_spec t y); cbn; intuition; subst; contradiction.
Qed.

Lemma is_nil_true : forall A (l : list A), is_nil l = true <-> l = [].
Proof. intros A [|x r]; cbn; split; intros H; congruence. Qed.

Lemma cnt_nil_all : forall l, (forall t, cnt t l = 0) -> l = [].
Proof.
  intros [|x r] H; [reflexivity|]. specialize (H x). cbn in H. rewrite Nat.eqb_refl in H. lia.
Qed.

(* ---- finite maps ---- *)
Lemma upd_same : forall A (f : nat -> A) k v, upd f k v k = v.
Proof. intros. unfold upd. rewrite Nat.eqb_refl. reflexivity. Qed.
Lemma upd_other : forall A (f : nat -> A) k v x, x <> k -> upd f k v x = f x.
Proof. intros. unfold upd. destruct (Nat.eqb_spec x k); [contradiction | reflexivity]. Qed.

(* ---- the state order (depends on the regenerated Gen/StateOrder.v) ---- *)
Lemma rank_table :
  rank Inactive = 0%N /\ rank Semiactive = 1%N /\ rank Active = 2%N /\ rank Pending = 3%N /\ rank Building = 4%N /\
  (rank Building < rank is_built_lo)%N /\ (rank is_built_lo <= rank Built)%N /\ (rank Built < rank is_built_hi)%N /\
  (rank Cached < rank is_built_hi)%N /\ (rank Unchanged < rank is_built_hi)%N /\ (rank Reused < rank is_built_hi)%N /\
  rank is_built_hi = rank DependencyFailed /\ (rank DependencyFailed < rank Failed)%N.
Proof. cbn. repeat split; try reflexivity; try lia. Qed.

Lemma constants_ok :
  queued_threshold = Active /\ cas_need = [(Inactive, Active); (Semiactive, Active)] /\ cas_noneed = [(Inactive, Semiactive)] /\
  dep_failed_threshold = DependencyFailed /\ dep_failed_set = DependencyFailed /\ cas_pending = (Active, Pending) /\
  build_start_set = Building /\ build_fail_set = Failed /\ is_built_lo = Built /\ is_built_hi = DependencyFailed.
Proof. repeat split; reflexivity. Qed.

(* states only move forward: every compare-and-swap pair and every stored constant respects the order *)
Lemma cas_forward : forall pairs cur new, In pairs [cas_need; cas_noneed; [cas_pending]] -> cas pairs cur = Some new -> (rank cur < rank new)%N.
Proof.
  intros pairs cur new Hin. cbn in Hin.
  destruct Hin as [<-|[<-|[<-|[]]]]; destruct cur; cbn; intros H; inversion H; subst; cbn; lia.
Qed.

(* ---- helpers of apply ---- *)
Definition qr_ok (s : state) (t : nat) : bool := N.ltb (rank (ts s t)) 2.

Definition qr_state (g : graph) (s : state) (t : nat) : state :=
  set_asy (set_numPending (set_numActive (set_ts s (upd (ts s) t Active)) (numActive s + 1)%Z) (numPending s + 1)%Z)
          (upd (asy s) t (AQueue (g_deps g t))).

Lemma queue_resolved_eq : forall g s t, queue_resolved g s t = if qr_ok s t then qr_state g s t else s.
Proof.
  intros g s t. unfold queue_resolved, qr_ok, qr_state. destruct (ts s t) eqn:E; cbn; try reflexivity.
Qed.

(* the non-building pass releases nothing - in the source as it is (Gen/StateOrder.v: pending_cas_needs_building) *)
Lemma semi_release_eq : forall s t, semi_release s t = s.
Proof. reflexivity. Qed.
#[export] Hint Rewrite semi_release_eq : proj.

(* build.Build's failure path sets the state before it wakes the waiters - in the source as it is (Gen/StateOrder.v:
   buildfail_prog); with FinishBuild in front of SetState this fails and with it every proof that looks at LBuildFail *)
Lemma state_before_finish_src : state_before_finish buildfail_prog = true.
Proof. reflexivity. Qed.
Lemma sbf_if : forall (A : Type) (x y : A), (if state_before_finish buildfail_prog then x else y) = x.
Proof. intros A x y. rewrite state_before_finish_src. reflexivity. Qed.
#[export] Hint Rewrite sbf_if : proj.

(* waitOnChan, as a program run against ANY sequence of close / timer events: when the syntactic check wc_safe accepts
   the program, it never returns before the close has been received (induction over the program). *)
Lemma wc_exec_seen : forall p env, wc_exec p env true = Some false -> False.
Proof.
  induction p as [|st r IH]; intros env H; cbn in H; [discriminate|].
  destruct st as [chret tmret|].
  - destruct env as [|[|] env']; [discriminate| |].
    + destruct chret; [discriminate | exact (IH _ H)].
    + destruct tmret; [discriminate | exact (IH _ H)].
  - destruct (wc_recv env) as [env'|]; [exact (IH _ H) | discriminate].
Qed.
Theorem wc_safe_sound : forall p, wc_safe p = true -> forall env seen b, wc_exec p env seen = Some b -> b = true.
Proof.
  induction p as [|st r IH]; intros Hs env seen b H; cbn in Hs; [discriminate|].
  destruct st as [chret tmret|]; cbn in H.
  - apply andb_prop in Hs. destruct Hs as [Ht Hr]. apply negb_true_iff in Ht. subst tmret.
    destruct env as [|[|] env']; [discriminate| |].
    + destruct chret; [inversion H; reflexivity|].
      destruct b; [reflexivity | exfalso; exact (wc_exec_seen _ _ H)].
    + exact (IH Hr _ _ _ H).
  - destruct (wc_recv env) as [env'|]; [|discriminate].
    destruct b; [reflexivity | exfalso; exact (wc_exec_seen _ _ H)].
Qed.
(* ... and conversely the check is exact: a rejected program has an environment in which it returns without the close *)
Theorem wc_safe_complete : forall p, wc_safe p = false -> exists env, wc_exec p env false = Some false.
Proof.
  induction p as [|st r IH]; intros Hs; cbn in Hs.
  - exists []. reflexivity.
  - destruct st as [chret tmret|]; [|discriminate].
    destruct tmret; cbn in Hs.
    + exists [WETimer]. reflexivity.
    + destruct (IH Hs) as [env He]. exists (WETimer :: env). exact He.
Qed.
(* the source as it is: WaitForBuild (SyncParsePackage, ...) returns only after the close *)
Lemma wait_needs_close_src : wait_needs_close = true.
Proof. reflexivity. Qed.
Theorem waitonchan_waits : forall env b, wc_exec waitonchan_prog env false = Some b -> b = true.
Proof. intros env b. apply wc_safe_sound. exact wait_needs_close_src. Qed.
Lemma wait_ok_eq : forall b, (negb wait_needs_close || b) = b.
Proof. intros b. rewrite wait_needs_close_src. reflexivity. Qed.
#[export] Hint Rewrite wait_ok_eq : proj.

(* ---- runs ---- *)
Definition reachable (g : graph) (s : state) : Prop := exists ls, run g (init g) ls = Some s.

Lemma run_app : forall g ls1 ls2 s, run g s (ls1 ++ ls2) = match run g s ls1 with Some s' => run g s' ls2 | None => None end.
Proof.
  intros g ls1. induction ls1 as [|l r IH]; intros ls2 s; cbn; [reflexivity|].
  destruct (enabled g s l); [apply IH | reflexivity].
Qed.

Lemma reachable_ind' : forall g (P : state -> Prop),
  P (init g) ->
  (forall s l, reachable g s -> P s -> enabled g s l = true -> P (apply g s l)) ->
  forall s, reachable g s -> P s.
Proof.
  intros g P H0 Hstep s [ls Hrun]. revert s Hrun.
  induction ls as [|l r IH] using rev_ind; intros s Hrun.
  - cbn in Hrun. inversion Hrun. subst. exact H0.
  - rewrite run_app in Hrun. destruct (run g (init g) r) as [s'|] eqn:Hr; [|discriminate].
    cbn in Hrun. destruct (enabled g s' l) eqn:He; [|discriminate]. inversion Hrun. subst.
    apply Hstep; [exists r; exact Hr | apply IH; reflexivity | exact He].
Qed.

Lemma reachable_step : forall g s l, reachable g s -> enabled g s l = true -> reachable g (apply g s l).
Proof.
  intros g s l [ls H] He. exists (ls ++ [l]). rewrite run_app, H. cbn. rewrite He. reflexivity.
Qed.

(* graphs the theorems are about: labels in range *)
Definition wf (g : graph) : Prop :=
  (forall t d, In d (g_deps g t) -> d < g_n g) /\ (forall l, In l (g_req g) -> l < g_n g) /\ 1 <= g_threads g.
(* projections through the helpers of apply (rewrite database `proj`) *)
Lemma ts_task_done : forall s, ts (task_done s) = ts s.
Proof. intros s. unfold task_done. cbn. destruct (numPending s - 1 <=? 0)%Z; reflexivity. Qed.
Lemma ts_log_fail : forall g s p, ts (log_fail g s p) = ts s.
Proof. intros g s p. unfold log_fail. cbn. destruct (negb (g_keep_going g) || p); reflexivity. Qed.
Lemma ts_async_error : forall g s l, ts (async_error g s l) = ts s.
Proof. intros g s l. unfold async_error. cbn. rewrite ts_log_fail. reflexivity. Qed.
#[export] Hint Rewrite ts_task_done ts_log_fail ts_async_error : proj.
Lemma fin_task_done : forall s, fin (task_done s) = fin s.
Proof. intros s. unfold task_done. cbn. destruct (numPending s - 1 <=? 0)%Z; reflexivity. Qed.
Lemma fin_log_fail : forall g s p, fin (log_fail g s p) = fin s.
Proof. intros g s p. unfold log_fail. cbn. destruct (negb (g_keep_going g) || p); reflexivity. Qed.
Lemma fin_async_error : forall g s l, fin (async_error g s l) = fin s.
Proof. intros g s l. unfold async_error. cbn. rewrite fin_log_fail. reflexivity. Qed.
#[export] Hint Rewrite fin_task_done fin_log_fail fin_async_error : proj.
Lemma ex_task_done : forall s, ex (task_done s) = ex s.
Proof. intros s. unfold task_done. cbn. destruct (numPending s - 1 <=? 0)%Z; reflexivity. Qed.
Lemma ex_log_fail : forall g s p, ex (log_fail g s p) = ex s.
Proof. intros g s p. unfold log_fail. cbn. destruct (negb (g_keep_going g) || p); reflexivity. Qed.
Lemma ex_async_error : forall g s l, ex (async_error g s l) = ex s.
Proof. intros g s l. unfold async_error. cbn. rewrite ex_log_fail. reflexivity. Qed.
#[export] Hint Rewrite ex_task_done ex_log_fail ex_async_error : proj.
Lemma pk_task_done : forall s, pk (task_done s) = pk s.
Proof. intros s. unfold task_done. cbn. destruct (numPending s - 1 <=? 0)%Z; reflexivity. Qed.
Lemma pk_log_fail : forall g s p, pk (log_fail g s p) = pk s.
Proof. intros g s p. unfold log_fail. cbn. destruct (negb (g_keep_going g) || p); reflexivity. Qed.
Lemma pk_async_error : forall g s l, pk (async_error g s l) = pk s.
Proof. intros g s l. unfold async_error. cbn. rewrite pk_log_fail. reflexivity. Qed.
#[export] Hint Rewrite pk_task_done pk_log_fail pk_async_error : proj.
Lemma asy_task_done : forall s, asy (task_done s) = asy s.
Proof. intros s. unfold task_done. cbn. destruct (numPending s - 1 <=? 0)%Z; reflexivity. Qed.
Lemma asy_log_fail : forall g s p, asy (log_fail g s p) = asy s.
Proof. intros g s p. unfold log_fail. cbn. destruct (negb (g_keep_going g) || p); reflexivity. Qed.
Lemma asy_async_error : forall g s l, asy (async_error g s l) = asy s.
Proof. intros g s l. unfold async_error. cbn. rewrite asy_log_fail. reflexivity. Qed.
#[export] Hint Rewrite asy_task_done asy_log_fail asy_async_error : proj.
Lemma initq_task_done : forall s, initq (task_done s) = initq s.
Proof. intros s. unfold task_done. cbn. destruct (numPending s - 1 <=? 0)%Z; reflexivity. Qed.
Lemma initq_log_fail : forall g s p, initq (log_fail g s p) = initq s.
Proof. intros g s p. unfold log_fail. cbn. destruct (negb (g_keep_going g) || p); reflexivity. Qed.
Lemma initq_async_error : forall g s l, initq (async_error g s l) = initq s.
Proof. intros g s l. unfold async_error. cbn. rewrite initq_log_fail. reflexivity. Qed.
#[export] Hint Rewrite initq_task_done initq_log_fail initq_async_error : proj.
Lemma ptasks_task_done : forall s, ptasks (task_done s) = ptasks s.
Proof. intros s. unfold task_done. cbn. destruct (numPending s - 1 <=? 0)%Z; reflexivity. Qed.
Lemma ptasks_log_fail : forall g s p, ptasks (log_fail g s p) = ptasks s.
Proof. intros g s p. unfold log_fail. cbn. destruct (negb (g_keep_going g) || p); reflexivity. Qed.
Lemma ptasks_async_error : forall g s l, ptasks (async_error g s l) = ptasks s.
Proof. intros g s l. unfold async_error. cbn. rewrite ptasks_log_fail. reflexivity. Qed.
#[export] Hint Rewrite ptasks_task_done ptasks_log_fail ptasks_async_error : proj.
Lemma parsers_task_done : forall s, parsers (task_done s) = parsers s.
Proof. intros s. unfold task_done. cbn. destruct (numPending s - 1 <=? 0)%Z; reflexivity. Qed.
Lemma parsers_log_fail : forall g s p, parsers (log_fail g s p) = parsers s.
Proof. intros g s p. unfold log_fail. cbn. destruct (negb (g_keep_going g) || p); reflexivity. Qed.
Lemma parsers_async_error : forall g s l, parsers (async_error g s l) = parsers s.
Proof. intros g s l. unfold async_error. cbn. rewrite parsers_log_fail. reflexivity. Qed.
#[export] Hint Rewrite parsers_task_done parsers_log_fail parsers_async_error : proj.
Lemma semi_task_done : forall s, semi (task_done s) = semi s.
Proof. intros s. unfold task_done. cbn. destruct (numPending s - 1 <=? 0)%Z; reflexivity. Qed.
Lemma semi_log_fail : forall g s p, semi (log_fail g s p) = semi s.
Proof. intros g s p. unfold log_fail. cbn. destruct (negb (g_keep_going g) || p); reflexivity. Qed.
Lemma semi_async_error : forall g s l, semi (async_error g s l) = semi s.
Proof. intros g s l. unfold async_error. cbn. rewrite semi_log_fail. reflexivity. Qed.
#[export] Hint Rewrite semi_task_done semi_log_fail semi_async_error : proj.
Lemma sendq_task_done : forall s, sendq (task_done s) = sendq s.
Proof. intros s. unfold task_done. cbn. destruct (numPending s - 1 <=? 0)%Z; reflexivity. Qed.
Lemma sendq_log_fail : forall g s p, sendq (log_fail g s p) = sendq s.
Proof. intros g s p. unfold log_fail. cbn. destruct (negb (g_keep_going g) || p); reflexivity. Qed.
Lemma sendq_async_error : forall g s l, sendq (async_error g s l) = sendq s.
Proof. intros g s l. unfold async_error. cbn. rewrite sendq_log_fail. reflexivity. Qed.
#[export] Hint Rewrite sendq_task_done sendq_log_fail sendq_async_error : proj.
Lemma actq_task_done : forall s, actq (task_done s) = actq s.
Proof. intros s. unfold task_done. cbn. destruct (numPending s - 1 <=? 0)%Z; reflexivity. Qed.
Lemma actq_log_fail : forall g s p, actq (log_fail g s p) = actq s.
Proof. intros g s p. unfold log_fail. cbn. destruct (negb (g_keep_going g) || p); reflexivity. Qed.
Lemma actq_async_error : forall g s l, actq (async_error g s l) = actq s.
Proof. intros g s l. unfold async_error. cbn. rewrite actq_log_fail. reflexivity. Qed.
#[export] Hint Rewrite actq_task_done actq_log_fail actq_async_error : proj.
Lemma taken_task_done : forall s, taken (task_done s) = taken s.
Proof. intros s. unfold task_done. cbn. destruct (numPending s - 1 <=? 0)%Z; reflexivity. Qed.
Lemma taken_log_fail : forall g s p, taken (log_fail g s p) = taken s.
Proof. intros g s p. unfold log_fail. cbn. destruct (negb (g_keep_going g) || p); reflexivity. Qed.
Lemma taken_async_error : forall g s l, taken (async_error g s l) = taken s.
Proof. intros g s l. unfold async_error. cbn. rewrite taken_log_fail. reflexivity. Qed.
#[export] Hint Rewrite taken_task_done taken_log_fail taken_async_error : proj.
Lemma building_task_done : forall s, building (task_done s) = building s.
Proof. intros s. unfold task_done. cbn. destruct (numPending s - 1 <=? 0)%Z; reflexivity. Qed.
Lemma building_log_fail : forall g s p, building (log_fail g s p) = building s.
Proof. intros g s p. unfold log_fail. cbn. destruct (negb (g_keep_going g) || p); reflexivity. Qed.
Lemma building_async_error : forall g s l, building (async_error g s l) = building s.
Proof. intros g s l. unfold async_error. cbn. rewrite building_log_fail. reflexivity. Qed.
#[export] Hint Rewrite building_task_done building_log_fail building_async_error : proj.
Lemma finishing_task_done : forall s, finishing (task_done s) = finishing s.
Proof. intros s. unfold task_done. cbn. destruct (numPending s - 1 <=? 0)%Z; reflexivity. Qed.
Lemma finishing_log_fail : forall g s p, finishing (log_fail g s p) = finishing s.
Proof. intros g s p. unfold log_fail. cbn. destruct (negb (g_keep_going g) || p); reflexivity. Qed.
Lemma finishing_async_error : forall g s l, finishing (async_error g s l) = finishing s.
Proof. intros g s l. unfold async_error. cbn. rewrite finishing_log_fail. reflexivity. Qed.
#[export] Hint Rewrite finishing_task_done finishing_log_fail finishing_async_error : proj.
Lemma completing_task_done : forall s, completing (task_done s) = completing s.
Proof. intros s. unfold task_done. cbn. destruct (numPending s - 1 <=? 0)%Z; reflexivity. Qed.
Lemma completing_log_fail : forall g s p, completing (log_fail g s p) = completing s.
Proof. intros g s p. unfold log_fail. cbn. destruct (negb (g_keep_going g) || p); reflexivity. Qed.
Lemma completing_async_error : forall g s l, completing (async_error g s l) = completing s.
Proof. intros g s l. unfold async_error. cbn. rewrite completing_log_fail. reflexivity. Qed.
#[export] Hint Rewrite completing_task_done completing_log_fail completing_async_error : proj.
Lemma numActive_task_done : forall s, numActive (task_done s) = numActive s.
Proof. intros s. unfold task_done. cbn. destruct (numPending s - 1 <=? 0)%Z; reflexivity. Qed.
Lemma numActive_log_fail : forall g s p, numActive (log_fail g s p) = numActive s.
Proof. intros g s p. unfold log_fail. cbn. destruct (negb (g_keep_going g) || p); reflexivity. Qed.
Lemma numActive_async_error : forall g s l, numActive (async_error g s l) = numActive s.
Proof. intros g s l. unfold async_error. cbn. rewrite numActive_log_fail. reflexivity. Qed.
#[export] Hint Rewrite numActive_task_done numActive_log_fail numActive_async_error : proj.
Lemma initdone_task_done : forall s, initdone (task_done s) = initdone s.
Proof. intros s. unfold task_done. cbn. destruct (numPending s - 1 <=? 0)%Z; reflexivity. Qed.
Lemma initdone_log_fail : forall g s p, initdone (log_fail g s p) = initdone s.
Proof. intros g s p. unfold log_fail. cbn. destruct (negb (g_keep_going g) || p); reflexivity. Qed.
Lemma initdone_async_error : forall g s l, initdone (async_error g s l) = initdone s.
Proof. intros g s l. unfold async_error. cbn. rewrite initdone_log_fail. reflexivity. Qed.
#[export] Hint Rewrite initdone_task_done initdone_log_fail initdone_async_error : proj.
Lemma exited_task_done : forall s, exited (task_done s) = exited s.
Proof. intros s. unfold task_done. cbn. destruct (numPending s - 1 <=? 0)%Z; reflexivity. Qed.
Lemma exited_log_fail : forall g s p, exited (log_fail g s p) = exited s.
Proof. intros g s p. unfold log_fail. cbn. destruct (negb (g_keep_going g) || p); reflexivity. Qed.
Lemma exited_async_error : forall g s l, exited (async_error g s l) = exited s.
Proof. intros g s l. unfold async_error. cbn. rewrite exited_log_fail. reflexivity. Qed.
#[export] Hint Rewrite exited_task_done exited_log_fail exited_async_error : proj.
Lemma cycreported_task_done : forall s, cycreported (task_done s) = cycreported s.
Proof. intros s. unfold task_done. cbn. destruct (numPending s - 1 <=? 0)%Z; reflexivity. Qed.
Lemma cycreported_log_fail : forall g s p, cycreported (log_fail g s p) = cycreported s.
Proof. intros g s p. unfold log_fail. cbn. destruct (negb (g_keep_going g) || p); reflexivity. Qed.
Lemma cycreported_async_error : forall g s l, cycreported (async_error g s l) = cycreported s.
Proof. intros g s l. unfold async_error. cbn. rewrite cycreported_log_fail. reflexivity. Qed.
#[export] Hint Rewrite cycreported_task_done cycreported_log_fail cycreported_async_error : proj.
Lemma trace_task_done : forall s, trace (task_done s) = trace s.
Proof. intros s. unfold task_done. cbn. destruct (numPending s - 1 <=? 0)%Z; reflexivity. Qed.
Lemma trace_log_fail : forall g s p, trace (log_fail g s p) = trace s.
Proof. intros g s p. unfold log_fail. cbn. destruct (negb (g_keep_going g) || p); reflexivity. Qed.
#[export] Hint Rewrite trace_task_done trace_log_fail : proj.
Lemma nfwd_task_done : forall s, nfwd (task_done s) = nfwd s.
Proof. intros s. unfold task_done. cbn. destruct (numPending s - 1 <=? 0)%Z; reflexivity. Qed.
Lemma nfwd_log_fail : forall g s p, nfwd (log_fail g s p) = nfwd s.
Proof. intros g s p. unfold log_fail. cbn. destruct (negb (g_keep_going g) || p); reflexivity. Qed.
Lemma nfwd_async_error : forall g s l, nfwd (async_error g s l) = nfwd s.
Proof. intros g s l. unfold async_error. cbn. rewrite nfwd_log_fail. reflexivity. Qed.
#[export] Hint Rewrite nfwd_task_done nfwd_log_fail nfwd_async_error : proj.
Lemma numPending_log_fail : forall g s p, numPending (log_fail g s p) = numPending s.
Proof. intros g s p. unfold log_fail. cbn. destruct (negb (g_keep_going g) || p); reflexivity. Qed.
#[export] Hint Rewrite numPending_log_fail : proj.
Lemma closed_log_fail : forall g s p, closed (log_fail g s p) = closed s.
Proof. intros g s p. unfold log_fail. cbn. destruct (negb (g_keep_going g) || p); reflexivity. Qed.
#[export] Hint Rewrite closed_log_fail : proj.
Lemma failed_task_done : forall s, failed (task_done s) = failed s.
Proof. intros s. unfold task_done. cbn. destruct (numPending s - 1 <=? 0)%Z; reflexivity. Qed.
#[export] Hint Rewrite failed_task_done : proj.
Lemma stopreq_task_done : forall s, stopreq (task_done s) = stopreq s.
Proof. intros s. unfold task_done. cbn. destruct (numPending s - 1 <=? 0)%Z; reflexivity. Qed.
#[export] Hint Rewrite stopreq_task_done : proj.
Lemma trace_async_error : forall g s l, trace (async_error g s l) = OErr l :: trace s.
Proof. intros g s l. unfold async_error. cbn. rewrite trace_log_fail. reflexivity. Qed.
#[export] Hint Rewrite trace_async_error : proj.
Lemma failed_log_fail : forall g s p, failed (log_fail g s p) = true.
Proof. intros g s p. unfold log_fail. cbn. destruct (negb (g_keep_going g) || p); reflexivity. Qed.
#[export] Hint Rewrite failed_log_fail : proj.
Lemma failed_async_error : forall g s l, failed (async_error g s l) = true.
Proof. intros g s l. unfold async_error. cbn. apply failed_log_fail. Qed.
#[export] Hint Rewrite failed_async_error : proj.
Lemma closed_async_error : forall g s l, closed (async_error g s l) = true.
Proof. reflexivity. Qed.
#[export] Hint Rewrite closed_async_error : proj.
Lemma numPending_async_error : forall g s l, numPending (async_error g s l) = numPending s.
Proof. intros g s l. unfold async_error. cbn. rewrite numPending_log_fail. reflexivity. Qed.
#[export] Hint Rewrite numPending_async_error : proj.
Lemma numPending_task_done : forall s, numPending (task_done s) = (numPending s - 1)%Z.
Proof. intros s. unfold task_done. cbn. destruct (numPending s - 1 <=? 0)%Z; reflexivity. Qed.
#[export] Hint Rewrite numPending_task_done : proj.
Lemma closed_task_done : forall s, closed (task_done s) = (closed s || (numPending s - 1 <=? 0)%Z).
Proof. intros s. unfold task_done. cbn. destruct (numPending s - 1 <=? 0)%Z; cbn; [rewrite orb_true_r | rewrite orb_false_r]; reflexivity. Qed.
#[export] Hint Rewrite closed_task_done : proj.
Lemma fin_qr : forall g s d, fin (queue_resolved g s d) = fin s.
Proof. intros g s d. rewrite queue_resolved_eq. destruct (qr_ok s d); reflexivity. Qed.
#[export] Hint Rewrite fin_qr : proj.
Lemma ex_qr : forall g s d, ex (queue_resolved g s d) = ex s.
Proof. intros g s d. rewrite queue_resolved_eq. destruct (qr_ok s d); reflexivity. Qed.
#[export] Hint Rewrite ex_qr : proj.
Lemma pk_qr : forall g s d, pk (queue_resolved g s d) = pk s.
Proof. intros g s d. rewrite queue_resolved_eq. destruct (qr_ok s d); reflexivity. Qed.
#[export] Hint Rewrite pk_qr : proj.
Lemma initq_qr : forall g s d, initq (queue_resolved g s d) = initq s.
Proof. intros g s d. rewrite queue_resolved_eq. destruct (qr_ok s d); reflexivity. Qed.
#[export] Hint Rewrite initq_qr : proj.
Lemma ptasks_qr : forall g s d, ptasks (queue_resolved g s d) = ptasks s.
Proof. intros g s d. rewrite queue_resolved_eq. destruct (qr_ok s d); reflexivity. Qed.
#[export] Hint Rewrite ptasks_qr : proj.
Lemma parsers_qr : forall g s d, parsers (queue_resolved g s d) = parsers s.
Proof. intros g s d. rewrite queue_resolved_eq. destruct (qr_ok s d); reflexivity. Qed.
#[export] Hint Rewrite parsers_qr : proj.
Lemma semi_qr : forall g s d, semi (queue_resolved g s d) = semi s.
Proof. intros g s d. rewrite queue_resolved_eq. destruct (qr_ok s d); reflexivity. Qed.
#[export] Hint Rewrite semi_qr : proj.
Lemma sendq_qr : forall g s d, sendq (queue_resolved g s d) = sendq s.
Proof. intros g s d. rewrite queue_resolved_eq. destruct (qr_ok s d); reflexivity. Qed.
#[export] Hint Rewrite sendq_qr : proj.
Lemma actq_qr : forall g s d, actq (queue_resolved g s d) = actq s.
Proof. intros g s d. rewrite queue_resolved_eq. destruct (qr_ok s d); reflexivity. Qed.
#[export] Hint Rewrite actq_qr : proj.
Lemma taken_qr : forall g s d, taken (queue_resolved g s d) = taken s.
Proof. intros g s d. rewrite queue_resolved_eq. destruct (qr_ok s d); reflexivity. Qed.
#[export] Hint Rewrite taken_qr : proj.
Lemma building_qr : forall g s d, building (queue_resolved g s d) = building s.
Proof. intros g s d. rewrite queue_resolved_eq. destruct (qr_ok s d); reflexivity. Qed.
#[export] Hint Rewrite building_qr : proj.
Lemma finishing_qr : forall g s d, finishing (queue_resolved g s d) = finishing s.
Proof. intros g s d. rewrite queue_resolved_eq. destruct (qr_ok s d); reflexivity. Qed.
#[export] Hint Rewrite finishing_qr : proj.
Lemma completing_qr : forall g s d, completing (queue_resolved g s d) = completing s.
Proof. intros g s d. rewrite queue_resolved_eq. destruct (qr_ok s d); reflexivity. Qed.
#[export] Hint Rewrite completing_qr : proj.
Lemma initdone_qr : forall g s d, initdone (queue_resolved g s d) = initdone s.
Proof. intros g s d. rewrite queue_resolved_eq. destruct (qr_ok s d); reflexivity. Qed.
#[export] Hint Rewrite initdone_qr : proj.
Lemma closed_qr : forall g s d, closed (queue_resolved g s d) = closed s.
Proof. intros g s d. rewrite queue_resolved_eq. destruct (qr_ok s d); reflexivity. Qed.
#[export] Hint Rewrite closed_qr : proj.
Lemma exited_qr : forall g s d, exited (queue_resolved g s d) = exited s.
Proof. intros g s d. rewrite queue_resolved_eq. destruct (qr_ok s d); reflexivity. Qed.
#[export] Hint Rewrite exited_qr : proj.
Lemma failed_qr : forall g s d, failed (queue_resolved g s d) = failed s.
Proof. intros g s d. rewrite queue_resolved_eq. destruct (qr_ok s d); reflexivity. Qed.
#[export] Hint Rewrite failed_qr : proj.
Lemma stopreq_qr : forall g s d, stopreq (queue_resolved g s d) = stopreq s.
Proof. intros g s d. rewrite queue_resolved_eq. destruct (qr_ok s d); reflexivity. Qed.
#[export] Hint Rewrite stopreq_qr : proj.
Lemma cycreported_qr : forall g s d, cycreported (queue_resolved g s d) = cycreported s.
Proof. intros g s d. rewrite queue_resolved_eq. destruct (qr_ok s d); reflexivity. Qed.
#[export] Hint Rewrite cycreported_qr : proj.
Lemma trace_qr : forall g s d, trace (queue_resolved g s d) = trace s.
Proof. intros g s d. rewrite queue_resolved_eq. destruct (qr_ok s d); reflexivity. Qed.
#[export] Hint Rewrite trace_qr : proj.
Lemma nfwd_qr : forall g s d, nfwd (queue_resolved g s d) = nfwd s.
Proof. intros g s d. rewrite queue_resolved_eq. destruct (qr_ok s d); reflexivity. Qed.
#[export] Hint Rewrite nfwd_qr : proj.
Lemma ts_qr : forall g s d x, ts (queue_resolved g s d) x = if qr_ok s d && Nat.eqb x d then Active else ts s x.
Proof.
  intros g s d x. rewrite queue_resolved_eq. destruct (qr_ok s d); cbn; [|reflexivity].
  unfold upd. destruct (Nat.eqb x d); reflexivity.
Qed.
Lemma asy_qr : forall g s d x, asy (queue_resolved g s d) x = if qr_ok s d && Nat.eqb x d then AQueue (g_deps g d) else asy s x.
Proof.
  intros g s d x. rewrite queue_resolved_eq. destruct (qr_ok s d); cbn; [|reflexivity].
  unfold upd. destruct (Nat.eqb_spec x d); [subst|]; reflexivity.
Qed.
Lemma numPending_qr : forall g s d, numPending (queue_resolved g s d) = (numPending s + (if qr_ok s d then 1 else 0))%Z.
Proof. intros g s d. rewrite queue_resolved_eq. destruct (qr_ok s d); cbn; lia. Qed.
