(* C04 / C05 - a finished target never changes again; a target gets past Pending only with all its dependencies
   finished and built; order of events in the logged result stream. *)
From PlzV Require Import Base.Harness Model.Sched Proof.Sched_Base Proof.Sched_Inv.
From Coq Require Import Lia Arith.

(* completed: Built or later in the state order *)
Definition completed (st : tstate) : bool := N.leb 6 (rank st).

Lemma fin_completed : forall s d, J s d -> fin s d = true -> completed (ts s d) = true.
Proof.
  intros s d (HA & HB & HS) Hf. unfold shape in HS. unfold completed.
  destruct (ts s d); cbn in *; dand; try congruence; try contradiction; reflexivity.
Qed.

Lemma dead_facts : forall s d, J s d -> completed (ts s d) = true ->
  qr_ok s d = false /\ async_live (asy s d) = false /\ cnt d (taken s) = 0 /\ cnt d (building s) = 0 /\
  cas cas_noneed (ts s d) = None.
Proof.
  intros s d (HA & HB & HS) Hc. unfold shape, q in HS. unfold qr_ok, completed in *. apply N.leb_le in Hc.
  destruct (async_live (asy s d)) eqn:El.
  - rewrite (HB eq_refl) in Hc. cbn in Hc. lia.
  - destruct (ts s d); cbn in *; dand; try lia; try contradiction; repeat split; try reflexivity; lia.
Qed.

Ltac use_dead d :=
  match goal with
  | Hd : qr_ok ?s d = false |- _ => rewrite ?Hd
  end.

Theorem completed_stable : forall g s l d, (forall t, J s t) -> completed (ts s d) = true -> enabled g s l = true ->
  ts (apply g s l) d = ts s d /\ (fin s d = true -> fin (apply g s l) d = true).
Proof.
  intros g s l d HJ Hcp He. destruct (dead_facts s d (HJ d) Hcp) as (Hq & Hl & Ht & Hb & Hc).
  destruct l; unfold enabled in He; cbv beta iota in He; cbn [apply]; btrue.
  - destruct (initq s); cbn; auto.
  - autorewrite with proj. cbn. auto.
  - autorewrite with proj. cbn. destruct (ex s l); autorewrite with proj; cbn; auto.
    rewrite ts_qr. cbn. destruct (Nat.eqb_spec d l); [subst; unfold qr_ok in *; cbn in *; rewrite Hq|rewrite andb_false_r]; auto.
  - cbn. auto.
  - destruct (Nat.eqb t l); autorewrite with proj; cbn; auto.
    rewrite ts_qr. cbn. destruct (Nat.eqb_spec d t); [subst; unfold qr_ok in *; cbn in *; rewrite Hq|rewrite andb_false_r]; auto.
  - autorewrite with proj. cbn. destruct (ex s l); autorewrite with proj; cbn; auto.
    rewrite ts_qr. cbn. destruct (Nat.eqb_spec d l); [subst; unfold qr_ok in *; cbn in *; rewrite Hq|rewrite andb_false_r]; auto.
  - autorewrite with proj. cbn. auto.
  - destruct (cas cas_noneed (ts s t)) eqn:C; cbn; auto.
    destruct (Nat.eq_dec d t) as [->|Hne]; [congruence|]. rewrite upd_other by exact Hne. auto.
  - autorewrite with proj. cbn. auto.
  - dasy s t Ea. dlist todo. destruct (ex s d0); [|destruct (pst_eqb (pk s (g_pkg g d0)) PParsed)]; cbn; autorewrite with proj; cbn; auto.
    rewrite ts_qr. destruct (Nat.eqb_spec d d0); [subst; rewrite Hq|rewrite andb_false_r]; auto.
  - cbn. auto.
  - dasy s t Ea. destruct (ex s d0); cbn; autorewrite with proj; cbn; auto.
    rewrite ts_qr. destruct (Nat.eqb_spec d d0); [subst; rewrite Hq|rewrite andb_false_r]; auto.
  - dasy s t Ea. dlist todo. destruct err; cbn; autorewrite with proj; cbn; auto.
  - dasy s t Ea. dlist todo. cbn. auto.
  - dasy s t Ea. dlist todo. cbn.
    destruct (Nat.eq_dec d t) as [->|Hne]; [rewrite Ea in Hl; discriminate|]. rewrite !upd_other by exact Hne. auto.
  - dasy s t Ea. dlist todo.
    destruct (Nat.eq_dec d t) as [->|Hne]; [rewrite Ea in Hl; discriminate|].
    destruct (cas [cas_pending] (ts s t)); cbn; rewrite ?upd_other by exact Hne; auto.
  - autorewrite with proj. cbn. auto.
  - cbn. destruct (closed s); cbn; auto.
  - cbn. auto.
  - cbn. destruct (Nat.eq_dec d t) as [->|Hne]; [|rewrite upd_other by exact Hne; auto].
    assert (1 <= cnt t (taken s)) by (apply mem_cnt; assumption). lia.
  - cbn. destruct (Nat.eq_dec d t) as [->|Hne]; [|rewrite upd_other by exact Hne; auto].
    assert (1 <= cnt t (building s)) by (apply mem_cnt; assumption). lia.
  - cbn. autorewrite with proj. cbn. destruct (Nat.eq_dec d t) as [->|Hne]; [|rewrite upd_other by exact Hne; auto].
    assert (1 <= cnt t (building s)) by (apply mem_cnt; assumption). lia.
  - cbn. split; [reflexivity|]. intros Hf. destruct (Nat.eq_dec d t) as [->|Hne]; [apply upd_same | rewrite upd_other by exact Hne; exact Hf].
  - autorewrite with proj. cbn. auto.
  - cbn. auto.
  - cbn. auto.
  - cbn. autorewrite with proj. auto.
  - cbn. auto.
Qed.

Definition done_ok (s : state) (d : nat) : Prop := fin s d = true /\ is_built (ts s d) = true.

Lemma done_ok_stable : forall g s l d, (forall t, J s t) -> done_ok s d -> enabled g s l = true -> done_ok (apply g s l) d.
Proof.
  intros g s l d HJ [Hf Hb] He.
  destruct (completed_stable g s l d HJ (fin_completed s d (HJ d) Hf) He) as [H1 H2]. split; [exact (H2 Hf) | rewrite H1; exact Hb].
Qed.

(* past Pending (and not "dependency failed"): the build task of the target has been handed out *)
Definition past_pending (st : tstate) : bool := N.leb 3 (rank st) && negb (st_eqb st DependencyFailed).

Definition K (g : graph) (s : state) (t : nat) : Prop :=
  (past_pending (ts s t) = true -> forall d, In d (g_deps g t) -> done_ok s d) /\
  (forall todo, asy s t = AWait todo -> exists dn, g_deps g t = dn ++ todo /\ forall d, In d dn -> done_ok s d).

Lemma K_init : forall g t, K g (init g) t.
Proof. intros g t. split; cbn; [discriminate | intros; discriminate]. Qed.

(* a finished dependency below DependencyFailed is a built one *)
Lemma fin_below_failed_built : forall s d, J s d -> fin s d = true -> st_geb (ts s d) dep_failed_threshold = false -> is_built (ts s d) = true.
Proof.
  intros s d (HA & HB & HS) Hf Hlt. unfold shape in HS. unfold st_geb in Hlt. apply N.leb_gt in Hlt.
  destruct (ts s d); cbn in *; dand; try congruence; try contradiction; try reflexivity; lia.
Qed.

Lemma K_weak : forall g s s' x,
  (past_pending (ts s' x) = true -> past_pending (ts s x) = true) ->
  (forall todo, asy s' x = AWait todo -> asy s x = AWait todo) ->
  (forall d, done_ok s d -> done_ok s' d) ->
  K g s x -> K g s' x.
Proof.
  intros g s s' x H1 H2 H3 [K1 K2]. split.
  - intros Hp d Hd. apply H3, K1; auto.
  - intros todo Ha. destruct (K2 todo (H2 todo Ha)) as [dn [E Hdn]]. exists dn. split; [exact E | intros d Hd; apply H3, Hdn, Hd].
Qed.

Ltac kweak := repeat match goal with
  | |- context [if ?b then _ else _] => destruct b eqn:?
  | H : context [if ?b then _ else _] |- _ => destruct b eqn:?
  end; cbn in *; try discriminate; try congruence; auto.

Theorem K_step : forall g s l, (forall t, J s t) -> (forall t, K g s t) -> enabled g s l = true -> forall x, K g (apply g s l) x.
Proof.
  intros g s l HJ HK He x.
  assert (Hst : forall d, done_ok s d -> done_ok (apply g s l) d) by (intros d Hd; eapply done_ok_stable; eauto).
  pose proof (HK x) as HKx. revert Hst.
  destruct l; unfold enabled in He; cbv beta iota in He; cbn [apply]; btrue; intros Hst.
  - apply (K_weak g s); auto; destruct (initq s); cbn; auto.
  - apply (K_weak g s); auto; autorewrite with proj; cbn; auto.
  - apply (K_weak g s); auto; autorewrite with proj; cbn; destruct (ex s l); autorewrite with proj; cbn; auto;
      rewrite ?ts_qr, ?asy_qr; intros; kweak.
  - apply (K_weak g s); auto.
  - apply (K_weak g s); auto; destruct (Nat.eqb t l); autorewrite with proj; cbn; auto; rewrite ?ts_qr, ?asy_qr; intros; kweak.
  - apply (K_weak g s); auto; autorewrite with proj; cbn; destruct (ex s l); autorewrite with proj; cbn; auto;
      rewrite ?ts_qr, ?asy_qr; intros; kweak.
  - apply (K_weak g s); auto; autorewrite with proj; cbn; auto.
  - apply (K_weak g s); auto; destruct (cas cas_noneed (ts s t)) as [new|] eqn:C; cbn; auto.
    assert (ts s t = Inactive /\ new = Semiactive) as [Ht ->] by (destruct (ts s t); cbn in C; inversion C; split; reflexivity).
    unfold upd. destruct (Nat.eqb x t); [discriminate | auto].
  - apply (K_weak g s); auto; autorewrite with proj; cbn; auto.
  - (* LAsyncQueueDep *) dasy s t Ea. dlist todo.
    apply (K_weak g s); auto;
      (destruct (ex s d); [|destruct (pst_eqb (pk s (g_pkg g d)) PParsed)]); cbn; autorewrite with proj; cbn; rewrite ?ts_qr; auto;
      unfold upd; intros; rewrite ?asy_qr in *; kweak.
    all: try (apply Nat.eqb_eq in Heqb; subst; congruence).
    all: try (apply Nat.eqb_eq in Heqb0; subst; congruence).
  - (* LAsyncBeginResolve *) dasy s t Ea. dlist todo.
    apply (K_weak g s); auto; cbn; auto. unfold upd. intros; kweak.
    all: try (apply Nat.eqb_eq in Heqb; subst; congruence).
  - (* LAsyncResolveDep *) dasy s t Ea.
    apply (K_weak g s); auto; destruct (ex s d); cbn; autorewrite with proj; cbn; rewrite ?ts_qr; auto;
      unfold upd; intros; rewrite ?asy_qr in *; kweak.
    all: try (apply Nat.eqb_eq in Heqb; subst; congruence).
    all: try (apply Nat.eqb_eq in Heqb0; subst; congruence).
  - (* LAsyncBeginWait *) dasy s t Ea. dlist todo. destruct err.
    + apply (K_weak g s); auto; cbn; autorewrite with proj; cbn; auto. unfold upd. intros; kweak.
      all: try (apply Nat.eqb_eq in Heqb; subst; congruence).
    + destruct HKx as [K1 K2]. split; cbn; [intros Hp dd Hd; apply Hst, K1; auto|].
      intros td Ha. unfold upd in Ha. destruct (Nat.eqb_spec x t).
      * subst. inversion Ha. subst. exists []. split; [reflexivity | intros ? []].
      * destruct (K2 td Ha) as [dn [E Hdn]]. exists dn. split; [exact E | intros; apply Hst, Hdn; assumption].
  - (* LWaitDep *) dasy s t Ea. dlist todo. btrue.
    destruct HKx as [K1 K2]. split; cbn; [intros Hp dd Hd; apply Hst, K1; auto|].
    intros td Ha. unfold upd in Ha. destruct (Nat.eqb_spec x t).
    + subst. inversion Ha. subst. destruct (K2 _ Ea) as [dn [E Hdn]]. exists (dn ++ [d0]). split.
      * rewrite E, <- app_assoc. reflexivity.
      * intros dd Hd. apply in_app_or in Hd. destruct Hd as [Hd|[<-|[]]]; [apply Hst, Hdn, Hd|].
        apply Hst. apply Nat.eqb_eq in H1. subst d0. split; [assumption|]. apply fin_below_failed_built; auto.
    + destruct (K2 td Ha) as [dn [E Hdn]]. exists dn. split; [exact E | intros; apply Hst, Hdn; assumption].
  - (* LDepFailed *) dasy s t Ea. dlist todo.
    apply (K_weak g s); auto; cbn; unfold upd; intros; kweak.
  - (* LActivatePending *) dasy s t Ea. dlist todo.
    assert (Hts : ts s t = Active) by (destruct (HJ t) as (_ & HB' & _); apply HB'; rewrite Ea; reflexivity).
    rewrite Hts in *. cbn in *. destruct HKx as [K1 K2]. split; cbn.
    + unfold upd. destruct (Nat.eqb_spec x t); [subst|intros Hp dd Hd; apply Hst, K1; auto].
      intros _ dd Hd. destruct (K2 _ Ea) as [dn [E Hdn]]. rewrite app_nil_r in E. subst dn. apply Hst, Hdn, Hd.
    + intros td Ha. unfold upd in Ha. destruct (Nat.eqb_spec x t); [discriminate|].
      destruct (K2 td Ha) as [dn [E Hdn]]. exists dn. split; [exact E | intros; apply Hst, Hdn; assumption].
  - (* LAsyncDone *) dasy s t Ea.
    apply (K_weak g s); auto; autorewrite with proj; cbn; auto. unfold upd; intros; kweak.
  - apply (K_weak g s); auto; cbn; destruct (closed s); cbn; auto.
  - apply (K_weak g s); auto.
  - (* LBuildStart *)
    assert (Hq : 1 <= cnt t (taken s)) by (apply mem_cnt; assumption).
    apply (K_weak g s); auto; cbn; unfold upd; intros; kweak.
    apply Nat.eqb_eq in Heqb; subst. destruct (HJ t) as (_ & _ & HS). unfold shape, q in HS.
    destruct (ts s t); cbn in *; dand; try lia; try contradiction; reflexivity.
  - (* LBuildOk *)
    assert (Hq : 1 <= cnt t (building s)) by (apply mem_cnt; assumption).
    apply (K_weak g s); auto; cbn; unfold upd; intros; kweak.
    apply Nat.eqb_eq in Heqb; subst. destruct (HJ t) as (_ & _ & HS). unfold shape, q in HS.
    destruct (ts s t); cbn in *; dand; try lia; try contradiction; reflexivity.
  - (* LBuildFail *)
    assert (Hq : 1 <= cnt t (building s)) by (apply mem_cnt; assumption).
    apply (K_weak g s); auto; cbn; autorewrite with proj; cbn; unfold upd; intros; kweak.
    apply Nat.eqb_eq in Heqb; subst. destruct (HJ t) as (_ & _ & HS). unfold shape, q in HS.
    destruct (ts s t); cbn in *; dand; try lia; try contradiction; reflexivity.
  - apply (K_weak g s); auto.
  - apply (K_weak g s); auto; autorewrite with proj; cbn; auto.
  - apply (K_weak g s); auto.
  - apply (K_weak g s); auto.
  - apply (K_weak g s); auto; cbn; autorewrite with proj; auto.
  - apply (K_weak g s); auto.
Qed.

Theorem JK_reachable : forall g s, reachable g s -> (forall t, J s t) /\ (forall t, K g s t).
Proof.
  intros g s Hr. pattern s. apply (reachable_ind' g); [split; intros t; [apply J_init | apply K_init] | | exact Hr].
  intros s0 l _ [HJ HK] He. split; [apply J_step | apply K_step]; assumption.
Qed.
