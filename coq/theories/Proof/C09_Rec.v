(* C09 follow-up 2 - proofs about Model/C09_Rec.v:
   (1) a tree with an unreadable entry makes hash() fail, a readable one gives exactly `stream`;
   (2) rec_sound: along ANY sequence of file-system changes (incl. in-place edits, mv, cp -a, faults and
       their repair), process restarts and Hash calls that follows the protocol, every Hash answers with
       the stream of the tree now at the path or fails exactly when that tree is missing / unreadable;
       source_hash_ignores_xattrs: outside plz-out/ no xattr is ever believed, in ANY state;
   (3) conc_sound: under ANY interleaving of the Read/Write steps of concurrent Hash calls on different
       paths, every call writes exactly the bytes the sequential call writes. *)
From PlzV Require Import Base.Harness Base.StrFacts Model.C09 Gen.PathHashProg Proof.C09 Model.C09_Rec.
From Coq Require Import List Bool Lia.

(* ---- ties to what gotrans read off hash.go for this follow-up ---- *)
Lemma gen_memo_guard : memo_store_requires_success = true.
Proof. reflexivity. Qed.
Lemma gen_xattr_read_cond read enabled k :
  xattr_read_cond read enabled k = read && has_prefix outputs_prefix k && enabled.
Proof. reflexivity. Qed.
Lemma gen_xattr_store_prefix : xattr_store_prefix = outputs_prefix.
Proof. reflexivity. Qed.
Lemma gen_copy_buffer : file_copy_buffer = BufPrivate.
Proof. reflexivity. Qed.

(* ================= (1) unreadable entries ================= *)
Section fnode_induction.
  Variable P : fnode -> Prop.
  Hypothesis HF : forall c, P (FFile c).
  Hypothesis HL : forall t, P (FLink t).
  Hypothesis HB : P FBad.
  Hypothesis HD : forall es, Forall (fun e => P (snd e)) es -> P (FDir es).
  Fixpoint fnode_ind' (n : fnode) : P n :=
    match n with
    | FFile c => HF c
    | FLink t => HL t
    | FBad => HB
    | FDir es =>
        HD es ((fix go (l : list (str * fnode)) : Forall (fun e => P (snd e)) l :=
                  match l with
                  | [] => Forall_nil _
                  | e :: r => Forall_cons e (fnode_ind' (snd e)) (go r)
                  end) es)
    end.
End fnode_induction.

Definition pwalk_spec (t : fnode) : Prop :=
  match to_node t with
  | Some n => pwalk t = (walk n, true)
  | None => snd (pwalk t) = false
  end.

Lemma seq_until_ok (l : list (str * bool)) : snd (seq_until l) = forallb snd l.
Proof.
  induction l as [|[b ok] l IH]; cbn [seq_until forallb snd]; [reflexivity|].
  destruct ok; cbn [andb]; [|reflexivity].
  destruct (seq_until l) as [b' ok']. cbn [snd] in *. exact IH.
Qed.

Lemma seq_until_all (l : list str) :
  seq_until (map (fun w => (w, true)) l) = (concat l, true).
Proof.
  induction l as [|w l IH]; cbn [map seq_until concat]; [reflexivity|]. rewrite IH. reflexivity.
Qed.

Lemma forallb_insert {A} (f : str * A -> bool) x l : forallb f (insert x l) = f x && forallb f l.
Proof.
  induction l as [|y l IH]; cbn [insert forallb]; [reflexivity|].
  destruct (str_ltb (fst x) (fst y)); cbn [forallb]; [reflexivity|].
  rewrite IH. destruct (f x), (f y); reflexivity.
Qed.
Lemma forallb_sort {A} (f : str * A -> bool) l : forallb f (sort_by_name l) = forallb f l.
Proof.
  induction l as [|x l IH]; cbn [sort_by_name fold_right forallb]; [reflexivity|].
  fold (sort_by_name l). rewrite forallb_insert, IH. reflexivity.
Qed.
Lemma forallb_map {A B} (g : A -> B) (f : B -> bool) l : forallb f (map g l) = forallb (fun x => f (g x)) l.
Proof. induction l as [|x l IH]; cbn [map forallb]; [reflexivity|]. rewrite IH. reflexivity. Qed.

Lemma dir_case es :
  Forall (fun e : str * fnode => pwalk_spec (snd e)) es ->
  match all_some (map (fun e : str * fnode => option_map (pair (fst e)) (to_node (snd e))) es) with
  | Some es' => map (fun e : str * fnode => (fst e, pwalk (snd e))) es
                = vmap (fun w : str => (w, true)) (map (fun e' : str * node => (fst e', walk (snd e'))) es')
  | None => forallb (fun x : str * (str * bool) => snd (snd x)) (map (fun e : str * fnode => (fst e, pwalk (snd e))) es) = false
  end.
Proof.
  induction 1 as [|[k t] es Ht _ IH]; cbn [map all_some]; [reflexivity|].
  cbn [fst snd] in *. unfold pwalk_spec in Ht.
  destruct (to_node t) as [n|]; cbn [option_map].
  - destruct (all_some _) as [es'|]; cbn [option_map].
    + cbn [map vmap fst snd]. rewrite Ht. f_equal. exact IH.
    + cbn [forallb snd fst]. rewrite IH. apply andb_false_r.
  - cbn [forallb snd fst]. rewrite Ht. reflexivity.
Qed.

Lemma pwalk_ok t : pwalk_spec t.
Proof.
  induction t as [c|t| |es IH] using fnode_ind'; unfold pwalk_spec; cbn [to_node pwalk]; try reflexivity.
  pose proof (dir_case es IH) as Hd.
  destruct (all_some _) as [es'|]; cbn [option_map].
  - rewrite Hd. unfold visit_order. rewrite gen_walk_sorted, sort_vmap.
    unfold vmap. rewrite map_map. cbn [snd].
    rewrite <- (map_map snd (fun w : str => (w, true))). rewrite seq_until_all.
    cbn [walk]. unfold visit_order. rewrite gen_walk_sorted. reflexivity.
  - destruct (seq_until _) as [b ok] eqn:E. cbn [snd].
    pose proof (seq_until_ok (map snd (visit_order (map (fun e : str * fnode => (fst e, pwalk (snd e))) es)))) as Hs.
    rewrite E in Hs. cbn [snd] in Hs. rewrite Hs.
    unfold visit_order. rewrite gen_walk_sorted, forallb_map, forallb_sort. exact Hd.
Qed.

(* readable trees are hashed exactly as the tree model says; any unreadable entry makes hash() fail *)
Lemma fstream_readable t n : to_node t = Some n -> fstream t = (stream n, true).
Proof.
  intros Hn. destruct t as [c|l| |es]; cbn [to_node] in Hn; try discriminate.
  - injection Hn as <-. reflexivity.
  - injection Hn as <-. reflexivity.
  - pose proof (pwalk_ok (FDir es)) as Hp. unfold pwalk_spec in Hp. cbn [to_node] in Hp. rewrite Hn in Hp.
    cbn [fstream]. rewrite Hp. destruct (all_some _); cbn [option_map] in Hn; [|discriminate].
    injection Hn as <-. reflexivity.
Qed.
Lemma fstream_unreadable t : to_node t = None -> snd (fstream t) = false.
Proof.
  intros Hn. destruct t as [c|l| |es]; cbn [to_node] in Hn; try discriminate; [reflexivity|].
  pose proof (pwalk_ok (FDir es)) as Hp. unfold pwalk_spec in Hp. cbn [to_node] in Hp. rewrite Hn in Hp. exact Hp.
Qed.
Lemma fstream_ok_readable t : snd (fstream t) = readable t.
Proof.
  unfold readable. destruct (to_node t) as [n|] eqn:E.
  - rewrite (fstream_readable t n E). reflexivity.
  - apply fstream_unreadable. exact E.
Qed.

(* ================= (2) recorded hashes ================= *)
(* (restated here so that this file does not wait for Proof/C09_Memo.v) *)
Lemma raget_aset {A} (m : amap A) k o k' : aget (aset m k o) k' = if str_eqb k k' then o else aget m k'.
Proof. unfold aget, aset. cbn [find fst]. destruct (str_eqb k k'); reflexivity. Qed.
Lemma mget_mset g k x k' : mget (mset g k x) k' = if str_eqb k k' then x else mget g k'.
Proof. unfold mget, mset. cbn [gm]. rewrite raget_aset. destruct (str_eqb k k'); reflexivity. Qed.
Lemma xget_xset g k x k' : xget (xset g k x) k' = if str_eqb k k' then x else xget g k'.
Proof. unfold xget, xset. cbn [gx]. rewrite raget_aset. destruct (str_eqb k k'); reflexivity. Qed.
Lemma mget_xset g k x k' : mget (xset g k x) k' = mget g k'.
Proof. reflexivity. Qed.
Lemma xget_mset g k x k' : xget (mset g k x) k' = xget g k'.
Proof. reflexivity. Qed.
Lemma xget_mdemote g k k' : xget (mdemote g k) k' = xget g k'.
Proof. unfold mdemote. destruct (mget g k); reflexivity. Qed.
Lemma mget_mdemote g k k' :
  mget (mdemote g k) k' = if str_eqb k k' then match mget g k with MValid => MStale | x => x end else mget g k'.
Proof.
  unfold mdemote. destruct (str_eqb_spec k k') as [<-|Hne].
  - destruct (mget g k) eqn:E; rewrite ?mget_mset, ?str_eqb_refl, ?E; reflexivity.
  - destruct (mget g k); rewrite ?mget_mset; try reflexivity. destruct (str_eqb_spec k k'); congruence.
Qed.

(* the stream of the tree at k, when there is one and it can be read *)
Definition true_stream (f : amap (fnode * option str)) (k : str) (v : str) : Prop :=
  exists t x n, aget f k = Some (t, x) /\ to_node t = Some n /\ v = stream n.

Definition mgood (st : rstate) (x : mst) (k : str) : Prop :=
  match x with
  | MAbsent => aget (rmemo st) k = None
  | MValid => exists v, aget (rmemo st) k = Some v /\ true_stream (rfiles st) k v
  | MStale => exists v, aget (rmemo st) k = Some v
  end.
Definition xgood (st : rstate) (x : xst) (k : str) : Prop :=
  match x with
  | XNone => xattr_of (rfiles st) k = None
  | XValid => exists v, xattr_of (rfiles st) k = Some v /\ true_stream (rfiles st) k v
  | XStale => exists v, xattr_of (rfiles st) k = Some v
  end.
(* THE INVARIANT: every memo entry and every stored xattr the protocol vouches for is the stream of the
   tree now at its path *)
Definition RInv (st : rstate) (g : rghost) : Prop :=
  forall k, mgood st (mget g k) k /\ xgood st (xget g k) k.

Lemma true_stream_ext f f' k v : aget f' k = aget f k -> true_stream f k v -> true_stream f' k v.
Proof. intros He (t & x & n & H1 & H2 & H3). exists t, x, n. rewrite He. auto. Qed.
Lemma mgood_ext st st' x k :
  aget (rmemo st') k = aget (rmemo st) k -> aget (rfiles st') k = aget (rfiles st) k ->
  mgood st x k -> mgood st' x k.
Proof.
  intros Hm Hf. destruct x; cbn [mgood]; rewrite ?Hm; auto.
  intros (v & H1 & H2). exists v. split; [exact H1|]. eapply true_stream_ext; eauto.
Qed.
Lemma xgood_ext st st' x k :
  aget (rfiles st') k = aget (rfiles st) k -> xgood st x k -> xgood st' x k.
Proof.
  intros Hf. destruct x; cbn [xgood]; unfold xattr_of; rewrite ?Hf; auto.
  intros (v & H1 & H2). exists v. split; [exact H1|]. eapply true_stream_ext; eauto.
Qed.
Lemma mgood_weaken st k : mgood st MValid k -> mgood st MStale k.
Proof. intros (v & H & _). exists v. exact H. Qed.
Lemma xgood_weaken st k : xgood st XValid k -> xgood st XStale k.
Proof. intros (v & H & _). exists v. exact H. Qed.

(* the content at k0 changes (or not), the memo does not: demoting k0 keeps every memo claim *)
Lemma mgood_demote st st' g k0 k :
  (forall k', aget (rmemo st') k' = aget (rmemo st) k') ->
  (k0 <> k -> aget (rfiles st') k = aget (rfiles st) k) ->
  mgood st (mget g k) k -> mgood st' (mget (mdemote g k0) k) k.
Proof.
  intros Hm Hf Hg. rewrite mget_mdemote. destruct (str_eqb_spec k0 k) as [->|Hne].
  - destruct (mget g k); cbn [mgood] in *; rewrite ?Hm; auto. destruct Hg as (v & H & _). exists v. exact H.
  - eapply mgood_ext; eauto.
Qed.

Ltac rupd := repeat (rewrite raget_aset in * || rewrite mget_mset in * || rewrite xget_xset in *
                     || rewrite mget_xset in * || rewrite xget_mset in * || rewrite xget_mdemote in * ).
Ltac rkeys :=
  repeat match goal with
         | |- context [str_eqb ?a ?b] => destruct (str_eqb_spec a b); subst
         | H : context [str_eqb ?a ?b] |- _ => destruct (str_eqb_spec a b); subst
         end.

(* what a Hash answer has to be *)
Definition ranswer_ok (root : str) (st : rstate) (o : rop) (r : robs) : Prop :=
  match o, r with
  | RHash p _ _, RVal v _ => true_stream (rfiles st) (ensure_relative root p) v
  | RHash p _ _, RErr _ => exists t x, aget (rfiles st) (ensure_relative root p) = Some (t, x) /\ to_node t = None
  | RHash p _ _, RMissing => aget (rfiles st) (ensure_relative root p) = None
  | _, _ => True
  end.

Lemma xattr_of_aset f k e k' :
  xattr_of (aset f k e) k' = if str_eqb k k' then match e with Some (_, x) => x | None => None end else xattr_of f k'.
Proof. unfold xattr_of. rewrite raget_aset. destruct (str_eqb k k'); reflexivity. Qed.

(* ---- world operations ---- *)
Lemma world_inv_write st g p t :
  RInv st g ->
  RInv (RState (rmemo st) (rx st) (aset (rfiles st) p (Some (t, None)))) (xset (mdemote g p) p XNone).
Proof.
  intros HI k. destruct (HI k) as [Hm Hx]. split.
  - rewrite mget_xset. eapply (mgood_demote st); [reflexivity| |exact Hm].
    intros Hne. cbn [rfiles]. rewrite raget_aset. destruct (str_eqb_spec p k); congruence.
  - rewrite xget_xset, xget_mdemote. destruct (str_eqb_spec p k) as [->|Hne].
    + cbn [xgood rfiles]. rewrite xattr_of_aset, str_eqb_refl. reflexivity.
    + eapply xgood_ext; [|exact Hx]. cbn [rfiles]. rewrite raget_aset. destruct (str_eqb_spec p k); congruence.
Qed.

Lemma world_inv_remove st g p :
  RInv st g ->
  RInv (RState (rmemo st) (rx st) (aset (rfiles st) p None)) (xset (mdemote g p) p XNone).
Proof.
  intros HI k. destruct (HI k) as [Hm Hx]. split.
  - rewrite mget_xset. eapply (mgood_demote st); [reflexivity| |exact Hm].
    intros Hne. cbn [rfiles]. rewrite raget_aset. destruct (str_eqb_spec p k); congruence.
  - rewrite xget_xset, xget_mdemote. destruct (str_eqb_spec p k) as [->|Hne].
    + cbn [xgood rfiles]. rewrite xattr_of_aset, str_eqb_refl. reflexivity.
    + eapply xgood_ext; [|exact Hx]. cbn [rfiles]. rewrite raget_aset. destruct (str_eqb_spec p k); congruence.
Qed.

Lemma world_inv_edit st g p t t0 x :
  RInv st g -> aget (rfiles st) p = Some (t0, x) ->
  RInv (RState (rmemo st) (rx st) (aset (rfiles st) p (Some (t, x))))
       (let g' := mdemote g p in match xget g p with XValid => xset g' p XStale | _ => g' end).
Proof.
  intros HI Hp k. destruct (HI k) as [Hm Hx]. cbn zeta. split.
  - assert (Hd : mgood (RState (rmemo st) (rx st) (aset (rfiles st) p (Some (t, x)))) (mget (mdemote g p) k) k).
    { eapply (mgood_demote st); [reflexivity| |exact Hm].
      intros Hne. cbn [rfiles]. rewrite raget_aset. destruct (str_eqb_spec p k); congruence. }
    destruct (xget g p); rewrite ?mget_xset; exact Hd.
  - destruct (str_eqb_spec p k) as [->|Hne].
    + assert (Hxa : xattr_of (aset (rfiles st) k (Some (t, x))) k = xattr_of (rfiles st) k).
      { rewrite xattr_of_aset, str_eqb_refl. unfold xattr_of. rewrite Hp. reflexivity. }
      destruct (xget g k) eqn:E; rewrite ?xget_xset, ?str_eqb_refl, ?xget_mdemote, ?E;
        cbn [xgood rfiles] in *; rewrite ?Hxa; auto.
      destruct Hx as (v & H & _). exists v. exact H.
    + assert (Hk : xgood (RState (rmemo st) (rx st) (aset (rfiles st) p (Some (t, x)))) (xget g k) k).
      { eapply xgood_ext; [|exact Hx]. cbn [rfiles]. rewrite raget_aset. destruct (str_eqb_spec p k); congruence. }
      destruct (xget g p); rewrite ?xget_xset, ?xget_mdemote; try exact Hk.
      destruct (str_eqb_spec p k); [congruence|exact Hk].
Qed.

Lemma true_stream_moved f f' a b v :
  aget f' b = aget f a -> true_stream f a v -> true_stream f' b v.
Proof. intros He (t & x & n & H1 & H2 & H3). exists t, x, n. rewrite He. auto. Qed.

Lemma world_inv_move st g a b e :
  RInv st g -> aget (rfiles st) a = Some e -> a <> b ->
  RInv (RState (rmemo st) (rx st) (aset (aset (rfiles st) b (Some e)) a None))
       (xset (xset (mdemote (mdemote g a) b) b (xget g a)) a XNone).
Proof.
  intros HI Ha Hab k. destruct (HI k) as [Hm Hx]. split.
  - rewrite !mget_xset.
    eapply (mgood_demote (RState (rmemo st) (rx st) (aset (rfiles st) a None))); [reflexivity| |].
    + intros Hne. cbn [rfiles]. rewrite !raget_aset. destruct (str_eqb_spec a k); [reflexivity|].
      destruct (str_eqb_spec b k); congruence.
    + eapply (mgood_demote st); [reflexivity| |exact Hm].
      intros Hne. cbn [rfiles]. rewrite raget_aset. destruct (str_eqb_spec a k); congruence.
  - rewrite !xget_xset, !xget_mdemote. destruct (str_eqb_spec a k) as [->|Hak].
    + cbn [xgood rfiles]. rewrite xattr_of_aset, str_eqb_refl. reflexivity.
    + destruct (str_eqb_spec b k) as [->|Hbk].
      * destruct (HI a) as [_ Hxa]. destruct e as [t x].
        assert (Hv : xattr_of (aset (aset (rfiles st) k (Some (t, x))) a None) k = xattr_of (rfiles st) a).
        { rewrite !xattr_of_aset, str_eqb_refl. destruct (str_eqb_spec a k); [congruence|].
          unfold xattr_of. rewrite Ha. reflexivity. }
        destruct (xget g a); cbn [xgood rfiles] in *; rewrite Hv; auto.
        destruct Hxa as (v & H1 & H2). exists v. split; [exact H1|].
        eapply true_stream_moved; [|exact H2]. rewrite !raget_aset, str_eqb_refl.
        destruct (str_eqb_spec a k); [congruence|]. symmetry. exact Ha.
      * eapply xgood_ext; [|exact Hx]. cbn [rfiles]. rewrite !raget_aset.
        destruct (str_eqb_spec a k); [congruence|]. destruct (str_eqb_spec b k); congruence.
Qed.

Lemma world_inv_copy st g a b e :
  RInv st g -> aget (rfiles st) a = Some e -> a <> b ->
  RInv (RState (rmemo st) (rx st) (aset (rfiles st) b (Some e))) (xset (mdemote g b) b (xget g a)).
Proof.
  intros HI Ha Hab k. destruct (HI k) as [Hm Hx]. split.
  - rewrite mget_xset. eapply (mgood_demote st); [reflexivity| |exact Hm].
    intros Hne. cbn [rfiles]. rewrite raget_aset. destruct (str_eqb_spec b k); congruence.
  - rewrite xget_xset, xget_mdemote. destruct (str_eqb_spec b k) as [->|Hbk].
    + destruct (HI a) as [_ Hxa]. destruct e as [t x].
      assert (Hv : xattr_of (aset (rfiles st) k (Some (t, x))) k = xattr_of (rfiles st) a).
      { rewrite xattr_of_aset, str_eqb_refl. unfold xattr_of. rewrite Ha. reflexivity. }
      destruct (xget g a); cbn [xgood rfiles] in *; rewrite Hv; auto.
      destruct Hxa as (v & H1 & H2). exists v. split; [exact H1|].
      eapply true_stream_moved; [|exact H2]. rewrite raget_aset, str_eqb_refl. symmetry. exact Ha.
    + eapply xgood_ext; [|exact Hx]. cbn [rfiles]. rewrite raget_aset. destruct (str_eqb_spec b k); congruence.
Qed.

Lemma world_inv_newproc st g x : RInv st g -> RInv (RState [] x (rfiles st)) (RGhost [] (gx g)).
Proof.
  intros HI k. destruct (HI k) as [_ Hx]. split; [reflexivity|].
  change (xget (RGhost [] (gx g)) k) with (xget g k). eapply xgood_ext; [|exact Hx]. reflexivity.
Qed.

(* ---- Hash ---- *)
(* the branch of hash() that really hashes: its answer is right in ANY state (no invariant, no protocol) *)
Definition computed (m : amap str) (xf : bool) (f : amap (fnode * option str)) (k0 : str) (t : fnode) (store : bool)
  : rstate * robs :=
  let (b, ok) := fstream t in
  if ok then
    (RState (aset m k0 (Some b)) xf
            (if store && xf && has_prefix xattr_store_prefix k0 && xattr_storable t
             then aset f k0 (Some (t, Some b)) else f),
     RVal b true)
  else (RState (if memo_store_requires_success then m else aset m k0 (Some b)) xf f, RErr b).

Definition answer_at (f : amap (fnode * option str)) (k : str) (r : robs) : Prop :=
  match r with
  | RVal v _ => true_stream f k v
  | RErr _ => exists t x, aget f k = Some (t, x) /\ to_node t = None
  | RMissing => aget f k = None
  | RNone => True
  end.

Lemma computed_answer m xf f k0 t x store :
  aget f k0 = Some (t, x) ->
  answer_at (rfiles (fst (computed m xf f k0 t store))) k0 (snd (computed m xf f k0 t store)).
Proof.
  intros Ef. unfold computed. destruct (to_node t) as [n|] eqn:En.
  - rewrite (fstream_readable t n En). cbn [fst snd rfiles answer_at].
    destruct (store && xf && has_prefix xattr_store_prefix k0 && xattr_storable t).
    + exists t, (Some (stream n)), n. rewrite raget_aset, str_eqb_refl. auto.
    + exists t, x, n. auto.
  - pose proof (fstream_unreadable t En) as Hs. destruct (fstream t) as [b ok]. cbn [snd] in Hs. subst ok.
    cbn [fst snd rfiles answer_at]. exists t, x. auto.
Qed.

Lemma computed_inv m xf f g k0 t x store :
  RInv (RState m xf f) g -> aget f k0 = Some (t, x) ->
  RInv (fst (computed m xf f k0 t store))
       (if readable t
        then (let g' := mset g k0 MValid in
              if store && xf && has_prefix outputs_prefix k0 && xattr_storable t then xset g' k0 XValid else g')
        else g).
Proof.
  intros HI Ef. unfold computed, readable. destruct (to_node t) as [n|] eqn:En.
  - rewrite (fstream_readable t n En), gen_xattr_store_prefix. cbn [fst]. cbn zeta.
    destruct (store && xf && has_prefix outputs_prefix k0 && xattr_storable t).
    + intros k. destruct (HI k) as [Hm Hx]. rewrite mget_xset, mget_mset, xget_xset, xget_mset.
      destruct (str_eqb_spec k0 k) as [<-|Hne].
      * split; cbn [mgood xgood rmemo rfiles].
        -- exists (stream n). rewrite raget_aset, str_eqb_refl. split; [reflexivity|].
           exists t, (Some (stream n)), n. rewrite raget_aset, str_eqb_refl. auto.
        -- exists (stream n). rewrite xattr_of_aset, str_eqb_refl. split; [reflexivity|].
           exists t, (Some (stream n)), n. rewrite raget_aset, str_eqb_refl. auto.
      * split.
        -- eapply mgood_ext; [| |exact Hm]; cbn [rmemo rfiles]; rewrite raget_aset;
             destruct (str_eqb_spec k0 k); congruence.
        -- eapply xgood_ext; [|exact Hx]. cbn [rfiles]. rewrite raget_aset. destruct (str_eqb_spec k0 k); congruence.
    + intros k. destruct (HI k) as [Hm Hx]. rewrite mget_mset, xget_mset.
      destruct (str_eqb_spec k0 k) as [<-|Hne].
      * split; [|exact Hx]. cbn [mgood rmemo rfiles].
        exists (stream n). rewrite raget_aset, str_eqb_refl. split; [reflexivity|]. exists t, x, n. auto.
      * split; [|exact Hx]. eapply mgood_ext; [| |exact Hm]; cbn [rmemo rfiles]; rewrite ?raget_aset; try reflexivity.
        destruct (str_eqb_spec k0 k); congruence.
  - pose proof (fstream_unreadable t En) as Hs. destruct (fstream t) as [b ok]. cbn [snd] in Hs. subst ok.
    rewrite gen_memo_guard. cbn [fst]. exact HI.
Qed.

Lemma hash_sound root st g p recalc store :
  RInv st g -> rallowed root st g (RHash p recalc store) = true ->
  RInv (fst (rstep root st (RHash p recalc store))) (rg_step root st g (RHash p recalc store))
  /\ answer_at (rfiles (fst (rstep root st (RHash p recalc store)))) (ensure_relative root p)
               (snd (rstep root st (RHash p recalc store))).
Proof.
  intros HI Hal. destruct st as [m xf f]. cbn [rstep rg_step rallowed rmemo rx rfiles] in *.
  set (k0 := ensure_relative root p) in *.
  destruct (HI k0) as [Hm0 Hx0].
  (* the common tail: hash() really hashes *)
  assert (Hcomp : forall t x, aget f k0 = Some (t, x) ->
            RInv (fst (computed m xf f k0 t store))
                 (if readable t
                  then (let g' := mset g k0 MValid in
                        if store && xf && has_prefix outputs_prefix k0 && xattr_storable t then xset g' k0 XValid else g')
                  else g)
            /\ answer_at (rfiles (fst (computed m xf f k0 t store))) k0 (snd (computed m xf f k0 t store))).
  { intros t x Ef. split; [eapply computed_inv; eauto|eapply computed_answer; eauto]. }
  destruct recalc; cbn [negb andb].
  - (* recalc: never the memo, never the xattr *)
    destruct (aget f k0) as [[t x]|] eqn:Ef.
    + rewrite gen_xattr_read_cond. cbn [andb]. exact (Hcomp t x eq_refl).
    + cbn [fst snd rfiles answer_at]. split; [exact HI|exact Ef].
  - destruct (mget g k0) eqn:Em; cbn [mst_eqb negb] in *; cbn [mgood rmemo] in Hm0.
    + (* no entry yet *)
      rewrite Hm0. destruct (aget f k0) as [[t x]|] eqn:Ef.
      2:{ cbn [fst snd rfiles answer_at]. split; [exact HI|exact Ef]. }
      rewrite gen_xattr_read_cond. cbn [andb].
      assert (Hxa : xattr_of f k0 = x) by (unfold xattr_of; rewrite Ef; reflexivity).
      destruct (has_prefix outputs_prefix k0) eqn:Ep, xf; cbn [andb] in *; try exact (Hcomp t x eq_refl).
      destruct (xget g k0) eqn:Ex; cbn [xst_eqb negb] in *; cbn [xgood rfiles] in Hx0; try discriminate.
      * rewrite Hxa in Hx0. subst x. exact (Hcomp t None eq_refl).
      * destruct Hx0 as (v & Hv & Hts). rewrite Hxa in Hv. subst x.
        cbn [fst snd rfiles answer_at]. split; [|exact Hts].
        intros k. destruct (HI k) as [Hm Hx]. rewrite mget_mset, xget_mset.
        destruct (str_eqb_spec k0 k) as [<-|Hne].
        -- split; [|exact Hx]. cbn [mgood rmemo rfiles]. exists v. rewrite raget_aset, str_eqb_refl. auto.
        -- split; [|exact Hx]. eapply mgood_ext; [| |exact Hm]; cbn [rmemo rfiles]; rewrite ?raget_aset; try reflexivity.
           destruct (str_eqb_spec k0 k); congruence.
    + (* a vouched entry *)
      destruct Hm0 as (v & Hv & Hts). rewrite Hv. cbn [fst snd rfiles answer_at]. split; [exact HI|exact Hts].
    + discriminate.
Qed.

(* ---- one step, any operation ---- *)
Lemma rstep_sound root st g o :
  RInv st g -> rallowed root st g o = true ->
  RInv (fst (rstep root st o)) (rg_step root st g o)
  /\ match o with
     | RHash p _ _ => answer_at (rfiles (fst (rstep root st o))) (ensure_relative root p) (snd (rstep root st o))
     | _ => True
     end.
Proof.
  intros HI Hal. destruct o as [p t|p t|p|a b|a b|x|p rc sto].
  - split; [|exact I]. cbn [rstep rg_step fst]. apply world_inv_write. exact HI.
  - split; [|exact I]. cbn [rstep rg_step]. unfold exists_at.
    destruct (aget (rfiles st) p) as [[t0 x]|] eqn:Ep; cbn [fst]; [|exact HI].
    apply (world_inv_edit st g p t t0 x HI Ep).
  - split; [|exact I]. cbn [rstep rg_step fst]. apply world_inv_remove. exact HI.
  - split; [|exact I]. cbn [rstep rg_step]. unfold exists_at.
    destruct (aget (rfiles st) a) as [e|] eqn:Ea; cbn [andb]; [|exact HI].
    destruct (str_eqb_spec a b) as [->|Hab]; cbn [negb fst]; [exact HI|].
    apply world_inv_move; assumption.
  - split; [|exact I]. cbn [rstep rg_step]. unfold exists_at.
    destruct (aget (rfiles st) a) as [e|] eqn:Ea; cbn [andb]; [|exact HI].
    destruct (str_eqb_spec a b) as [->|Hab]; cbn [negb fst]; [exact HI|].
    apply world_inv_copy; assumption.
  - split; [|exact I]. cbn [rstep rg_step fst]. apply world_inv_newproc. exact HI.
  - apply hash_sound; assumption.
Qed.

Fixpoint rrun (root : str) (st : rstate) (g : rghost) (ops : list rop) : rstate * rghost :=
  match ops with
  | [] => (st, g)
  | o :: r => rrun root (fst (rstep root st o)) (rg_step root st g o) r
  end.

(* e = (operation, what it returned, allowed, state after it) *)
Definition rentry_ok (root : str) (e : rop * robs * bool * rstate) : Prop :=
  match fst (fst (fst e)) with
  | RHash p _ _ => answer_at (rfiles (snd e)) (ensure_relative root p) (snd (fst (fst e)))
  | _ => True
  end.

(* ---- the theorem: induction over the operation list, from any state satisfying the invariant ---- *)
Lemma rec_sound_from root ops : forall st g,
  RInv st g -> rfollows root st g ops = true ->
  Forall (rentry_ok root) (rexec root st g ops)
  /\ RInv (fst (rrun root st g ops)) (snd (rrun root st g ops)).
Proof.
  induction ops as [|o r IH]; intros st g HI Hf.
  - split; [constructor|exact HI].
  - unfold rfollows in Hf. cbn [rexec rrun] in *.
    pose proof (rstep_sound root st g o HI) as Hs.
    destruct (rstep root st o) as [st' out] eqn:Es. cbn [forallb fst snd] in Hf, Hs.
    apply andb_true_iff in Hf as [Hal Hrest]. destruct (Hs Hal) as [HI' Ha].
    destruct (IH st' _ HI' Hrest) as [Hall Hfin]. split; [|exact Hfin].
    constructor; [|exact Hall]. unfold rentry_ok. cbn [fst snd]. destruct o; exact Ha || exact I.
Qed.

Lemma rinv_init : RInv rstate0 rghost0.
Proof. intros k. split; reflexivity. Qed.

Lemma rec_sound root ops :
  rfollows root rstate0 rghost0 ops = true ->
  Forall (rentry_ok root) (rexec root rstate0 rghost0 ops)
  /\ RInv (fst (rrun root rstate0 rghost0 ops)) (snd (rrun root rstate0 rghost0 ops)).
Proof. apply rec_sound_from. exact rinv_init. Qed.

(* ---- no premise at all: a Hash that recalculates, and the FIRST Hash a process makes of a path outside
        plz-out/, answer for the tree that is there - whatever memo, xattrs and history (m3: a source
        that used to be an output and still carries its stored hash) ---- *)
Lemma fresh_hash_sound root st p recalc store :
  recalc = true
  \/ (aget (rmemo st) (ensure_relative root p) = None /\ has_prefix outputs_prefix (ensure_relative root p) = false) ->
  answer_at (rfiles (fst (rstep root st (RHash p recalc store)))) (ensure_relative root p)
            (snd (rstep root st (RHash p recalc store)))
  /\ forall k, option_map fst (aget (rfiles (fst (rstep root st (RHash p recalc store)))) k)
               = option_map fst (aget (rfiles st) k).
Proof.
  intros Hc. destruct st as [m xf f]. cbn [rstep rmemo rx rfiles] in *. set (k0 := ensure_relative root p) in *.
  assert (Hcomp : forall t x, aget f k0 = Some (t, x) ->
            answer_at (rfiles (fst (computed m xf f k0 t store))) k0 (snd (computed m xf f k0 t store))
            /\ forall k, option_map fst (aget (rfiles (fst (computed m xf f k0 t store))) k) = option_map fst (aget f k)).
  { intros t x Ef. split; [eapply computed_answer; eauto|]. intros k. unfold computed.
    destruct (fstream t) as [b ok]. destruct ok; cbn [fst rfiles]; [|reflexivity].
    destruct (store && xf && has_prefix xattr_store_prefix k0 && xattr_storable t); [|reflexivity].
    rewrite raget_aset. destruct (str_eqb_spec k0 k) as [<-|]; [|reflexivity]. rewrite Ef. reflexivity. }
  assert (Hmiss : aget f k0 = None ->
            answer_at (rfiles (fst (RState m xf f, RMissing))) k0 (snd (RState m xf f, RMissing))
            /\ forall k, option_map fst (aget (rfiles (fst (RState m xf f, RMissing))) k) = option_map fst (aget f k)).
  { intros Ef. split; [exact Ef|reflexivity]. }
  destruct Hc as [->|[Hm Hp]].
  - destruct (aget f k0) as [[t x]|] eqn:Ef; [|exact (Hmiss eq_refl)].
    rewrite gen_xattr_read_cond. cbn [negb andb]. exact (Hcomp t x eq_refl).
  - destruct recalc.
    + destruct (aget f k0) as [[t x]|] eqn:Ef; [|exact (Hmiss eq_refl)].
      rewrite gen_xattr_read_cond. cbn [negb andb]. exact (Hcomp t x eq_refl).
    + rewrite Hm. destruct (aget f k0) as [[t x]|] eqn:Ef; [|exact (Hmiss eq_refl)].
      rewrite gen_xattr_read_cond, Hp. cbn [negb andb]. exact (Hcomp t x eq_refl).
Qed.

(* m1 in one line: a Hash that fails leaves the memo as it was *)
Lemma failed_hash_not_recorded root st p recalc store w :
  snd (rstep root st (RHash p recalc store)) = RErr w ->
  rmemo (fst (rstep root st (RHash p recalc store))) = rmemo st.
Proof.
  destruct st as [m xf f]. cbn [rstep rmemo rx rfiles].
  destruct (if recalc then None else aget m (ensure_relative root p)) as [v|]; [discriminate|].
  destruct (aget f (ensure_relative root p)) as [[t x]|]; [|discriminate].
  destruct (if xattr_read_cond (negb recalc) xf (ensure_relative root p) then x else None); [discriminate|].
  destruct (fstream t) as [b ok]. destruct ok; [discriminate|]. rewrite gen_memo_guard. reflexivity.
Qed.

(* ---- witnesses: the two histories of the seeded changes are inside the protocol and answered correctly;
        the protocol premise for outputs cannot be dropped ---- *)
Definition fault_repair_demo : list rop :=
  [RWrite (s "src/d") (FDir [(s "a.txt", FFile (s "aaa")); (s "b.txt", FBad)]);
   RNewProc false; RHash (s "src/d") false true;
   REdit (s "src/d") (FDir [(s "a.txt", FFile (s "aaa")); (s "b.txt", FFile (s "bbb"))]);
   RHash (s "src/d") false true].
Lemma fault_repair_ok :
  rfollows (s "/r") rstate0 rghost0 fault_repair_demo = true
  /\ map (fun e => snd (fst (fst e))) (rexec (s "/r") rstate0 rghost0 fault_repair_demo)
     = [RNone; RNone; RErr (s "aaa"); RNone; RVal (s "aaabbb") true].
Proof. split; vm_compute; reflexivity. Qed.

Definition output_becomes_source_demo : list rop :=
  [RWrite (s "plz-out/gen/pkg/data.txt") (FFile (s "one")); RNewProc true;
   RHash (s "plz-out/gen/pkg/data.txt") true true;
   RMove (s "plz-out/gen/pkg/data.txt") (s "src/pkg/data.txt");
   REdit (s "src/pkg/data.txt") (FFile (s "onetwo"));
   RNewProc true; RHash (s "src/pkg/data.txt") false true].
Lemma output_becomes_source_ok :
  rfollows (s "/r") rstate0 rghost0 output_becomes_source_demo = true
  /\ map (fun e => snd (fst (fst e))) (rexec (s "/r") rstate0 rghost0 output_becomes_source_demo)
     = [RNone; RNone; RVal (s "one") true; RNone; RNone; RNone; RVal (s "onetwo") true]
  /\ xattr_of (rfiles (fst (rrun (s "/r") rstate0 rghost0 output_becomes_source_demo))) (s "src/pkg/data.txt")
     = Some (s "one").
Proof. repeat split; vm_compute; reflexivity. Qed.

Definition output_edited_in_place_demo : list rop :=
  [RWrite (s "plz-out/gen/o") (FFile (s "one")); RNewProc true; RHash (s "plz-out/gen/o") true true;
   REdit (s "plz-out/gen/o") (FFile (s "two")); RNewProc true; RHash (s "plz-out/gen/o") false true].
Lemma output_protocol_needed :
  rfollows (s "/r") rstate0 rghost0 output_edited_in_place_demo = false
  /\ map (fun e => snd (fst (fst e))) (rexec (s "/r") rstate0 rghost0 output_edited_in_place_demo)
     = [RNone; RNone; RVal (s "one") true; RNone; RNone; RVal (s "one") false].
Proof. split; vm_compute; reflexivity. Qed.

(* ================= (3) concurrency ================= *)
Definition remaining (t : thread) : str :=
  match pend t with Some n => firstn n (priv t) | None => [] end ++ flat_map item_bytes (todo t).
(* everything the call has written and has still to write *)
Definition total (t : thread) : str := acc t ++ remaining t.
(* what was read is still in the call's own buffer *)
Definition tinv (t : thread) : Prop := match pend t with Some n => n = length (priv t) | None => True end.

Lemma tstep_total sh t : tinv t -> tinv (fst (tstep sh t)) /\ total (fst (tstep sh t)) = total t.
Proof.
  intros Hi. unfold tstep. rewrite gen_copy_buffer. destruct t as [td pd ac pv]. cbn [pend todo acc priv] in *.
  unfold tinv, total, remaining in *. cbn [pend todo acc priv] in *.
  destruct pd as [n|].
  - cbn [fst pend todo acc priv]. split; [exact I|]. cbn [app]. rewrite <- app_assoc. reflexivity.
  - destruct td as [|[b|b] r]; cbn [fst pend todo acc priv flat_map item_bytes app].
    + split; [exact I|reflexivity].
    + split; [exact I|]. rewrite <- app_assoc. reflexivity.
    + split; [reflexivity|]. rewrite firstn_all. reflexivity.
Qed.

Lemma step_nth_total i : forall ts sh,
  Forall tinv ts -> Forall tinv (fst (step_nth i ts sh)) /\ map total (fst (step_nth i ts sh)) = map total ts.
Proof.
  induction i as [|j IH]; intros [|t r] sh Hf; cbn [step_nth fst map]; try (split; [constructor|reflexivity]).
  - inversion Hf as [|? ? Ht Hr]; subst. destruct (tstep_total sh t Ht) as [H1 H2].
    destruct (tstep sh t) as [t' sh']. cbn [fst map] in *. split; [constructor; assumption|]. rewrite H2. reflexivity.
  - inversion Hf as [|? ? Ht Hr]; subst. destruct (IH r sh Hr) as [H1 H2].
    destruct (step_nth j r sh) as [r' sh']. cbn [fst map] in *. split; [constructor; assumption|]. rewrite H2. reflexivity.
Qed.

Lemma crun_total sched : forall c,
  Forall tinv (threads c) ->
  Forall tinv (threads (crun sched c)) /\ map total (threads (crun sched c)) = map total (threads c).
Proof.
  induction sched as [|i r IH]; intros c Hf; cbn [crun fold_left]; [split; [exact Hf|reflexivity]|].
  fold (crun r (cstep c i)). unfold cstep.
  destruct (step_nth_total i (threads c) (shared c) Hf) as [H1 H2].
  destruct (step_nth i (threads c) (shared c)) as [ts sh]. cbn [fst] in *.
  destruct (IH (CState ts sh) H1) as [H3 H4]. cbn [threads] in *. split; [exact H3|]. rewrite H4. exact H2.
Qed.

Lemma items_bytes n : flat_map item_bytes (items_of n) = stream n.
Proof.
  assert (Hl : forall ls, flat_map item_bytes (flat_map leaf_item ls) = bytes_of ls).
  { induction ls as [|o ls IH]; cbn [flat_map]; [reflexivity|]. rewrite flat_map_app, IH.
    unfold bytes_of. cbn [flat_map]. f_equal.
    destruct o as [[|b c]|]; cbn [leaf_item flat_map item_bytes leaf_bytes]; rewrite ?app_nil_r; reflexivity. }
  destruct n as [c|t|es]; unfold items_of.
  - rewrite Hl. symmetry. apply stream_bytes.
  - cbn [flat_map item_bytes stream]. rewrite gen_top_link, gen_marker, app_nil_r. reflexivity.
  - rewrite Hl. symmetry. apply stream_bytes.
Qed.

Lemma finished_total t : finished t = true -> total t = acc t.
Proof.
  unfold finished, total, remaining. destruct (todo t); [|discriminate]. destruct (pend t); [discriminate|].
  intros _. cbn. apply app_nil_r.
Qed.

(* ANY interleaving of the Read/Write steps of any number of concurrent Hash calls on different paths,
   from any content of a shared buffer: a call that has finished wrote exactly its sequential stream, and
   at every moment what it has written so far is a prefix of it *)
Theorem conc_sound ns sched sh i n t :
  nth_error ns i = Some n ->
  nth_error (threads (crun sched (CState (map thread0 ns) sh))) i = Some t ->
  (exists rest, acc t ++ rest = stream n) /\ (finished t = true -> acc t = stream n).
Proof.
  intros Hn Ht.
  assert (Hf : Forall tinv (threads (CState (map thread0 ns) sh))).
  { cbn [threads]. apply Forall_forall. intros x Hx. apply in_map_iff in Hx as (y & <- & _). exact I. }
  destruct (crun_total sched _ Hf) as [_ Hm]. cbn [threads] in Hm.
  assert (Htot : total t = stream n).
  { pose proof (map_nth_error total i _ Ht) as H1. rewrite Hm in H1.
    rewrite map_map in H1. pose proof (map_nth_error (fun x => total (thread0 x)) i _ Hn) as H2.
    rewrite H1 in H2. injection H2 as ->. unfold total, remaining, thread0. cbn. apply items_bytes. }
  split.
  - exists (remaining t). exact Htot.
  - intros Hfin. rewrite <- Htot. symmetry. apply finished_total. exact Hfin.
Qed.

(* every call that still has something to do can take a step, and a call's steps are bounded: a fair
   schedule finishes every call (so the theorem is about something) *)
Definition work (t : thread) : nat := (match pend t with Some _ => 1 | None => 0 end) + 2 * length (todo t).
Lemma tstep_progress sh t : finished t = false -> work (fst (tstep sh t)) < work t.
Proof.
  unfold finished, work, tstep. rewrite gen_copy_buffer. destruct t as [td pd ac pv]. cbn [pend todo acc priv].
  destruct pd as [n|]; cbn [fst pend todo]; [lia|].
  destruct td as [|[b|b] r]; [discriminate| |]; intros _; cbn [fst pend todo length]; lia.
Qed.

Example conc_nonvacuous :
  let ns := [File (s "aaaa"); Dir [(s "k", Link (s "q")); (s "z", File (s "bb"))]; Link (s "t")] in
  let c := crun [0; 1; 1; 0; 2; 1; 2]%nat (CState (map thread0 ns) []) in
  forallb finished (threads c) = true /\ map acc (threads c) = map stream ns.
Proof. split; vm_compute; reflexivity. Qed.
