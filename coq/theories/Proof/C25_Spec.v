(* C25 - specification vocabulary (definitions only, no proofs): what "kept" means in the property
   text, what "uses a source" means, and the executable classifier of the known defect classes. *)
From PlzV Require Import Base.Harness Model.C25.

Section Spec.
Variables (g : graph) (a : args).

Definition exists_in (l : label) : Prop := find_target g l <> None.

(* "t is a test of x": x is reached from t through declared dependencies, looking through the hidden
   sub-targets of t's own rule (same parent label); the target producing t's subrepo counts too *)
Inductive test_of : target -> target -> Prop :=
| TO_direct t d x :
    In d (t_declared t) -> find_target g d = Some x -> parent (t_label x) <> parent (t_label t) -> test_of t x
| TO_hidden t d h x :
    In d (t_declared t) -> find_target g d = Some h -> parent (t_label h) = parent (t_label t) ->
    test_of h x -> test_of t x
| TO_subrepo t l x :
    t_subrepo_target t = Some l -> find_target g l = Some x -> test_of t x.

(* t reaches x through the chain hs of hidden sub-targets of its own rule, of ANY length:
   t -> h1 -> h2 -> ... -> hn -> x, every hi with the same parent label as t, x with another one
   (//lib:k_test -> //lib:_k_test#main -> //lib:_k_test#lib -> //lib:k is hs = [_k_test#main; _k_test#lib]) *)
Fixpoint hidden_chain (t : target) (hs : list target) (x : target) : Prop :=
  match hs with
  | [] => exists d, In d (t_declared t) /\ find_target g d = Some x /\ parent (t_label x) <> parent (t_label t)
  | h :: r => (exists d, In d (t_declared t) /\ find_target g d = Some h)
              /\ parent (t_label h) = parent (t_label t) /\ hidden_chain h r x
  end.

(* a named target: gc.keep (pseudo-labels match through BuildLabel.Includes) or its expansion `targets`
   (a label, or - never passed by please.go - a `...` label naming the targets of the packages it includes) *)
Definition named (t : target) : Prop :=
  any_include (a_keep a) (t_label t) = true
  \/ (In (t_label t) (a_targets a) /\ is_all_subpackages (t_label t) = false)
  \/ (exists l p, In l (a_targets a) /\ is_all_subpackages l = true /\ In p (g_pkgs g)
                  /\ pkg_included_in p l = true /\ In (t_label t) (p_targets p)).

(* the kept roots of the property text: a non-test binary (any binary in conservative mode), a target
   with a kept label, a named target.  (Subincludes and tests of kept targets: see Kept.) *)
Definition root (t : target) : Prop :=
  (t_binary t = true /\ (t_test t = false \/ a_include_tests a = true))
  \/ has_any_label t (a_keep_labels a) = true
  \/ named t.

Definition subincluded (l : label) : Prop := exists p, In p (g_pkgs g) /\ In l (p_subincludes p).

(* the least set with the roots, closed under "depends on" and "is a test of a kept, non-test_only target" *)
Inductive Kept : label -> Prop :=
| K_root t : In t (g_targets g) -> root t -> Kept (t_label t)
| K_subinclude l : subincluded l -> exists_in l -> Kept l
| K_dep l t d : Kept l -> find_target g l = Some t -> In d (dep_labels t) -> exists_in d -> Kept d
| K_test t x : In t (g_targets g) -> t_test t = true -> test_of t x -> Kept (t_label x) ->
               t_test_only x = false -> Kept (t_label t).

(* the same without tests ... *)
Inductive Kept0 : label -> Prop :=
| K0_root t : In t (g_targets g) -> root t -> Kept0 (t_label t)
| K0_subinclude l : subincluded l -> exists_in l -> Kept0 l
| K0_dep l t d : Kept0 l -> find_target g l = Some t -> In d (dep_labels t) -> exists_in d -> Kept0 d.

(* ... and with ONE round of tests: tests of what the roots alone keep (default mode only) *)
Inductive Kept1 : label -> Prop :=
| K1_base l : Kept0 l -> Kept1 l
| K1_test t x : In t (g_targets g) -> t_test t = true -> a_include_tests a = false -> test_of t x ->
                Kept0 (t_label x) -> t_test_only x = false -> Kept1 (t_label t)
| K1_dep l t d : Kept1 l -> find_target g l = Some t -> In d (dep_labels t) -> exists_in d -> Kept1 d.

(* a target uses a file: as a source, as data, or as a file inside a directory it lists *)
Definition uses (t : target) (f : str) : Prop :=
  exists x, In x (t_srcs t ++ t_data t) /\ (x = f \/ has_prefix (x ++ [c_slash]) f = true).

Definition safe_targets (removed : list label) : Prop := forall r, In r removed -> ~ Kept r.
Definition safe_sources (srcs : list str) : Prop :=
  forall f, In f srcs -> forall k t, Kept k -> find_target g k = Some t -> ~ uses t f.

(* ---- the executable classifier of the known defect classes, on the keep set the code computed ---- *)
Inductive defect :=
| SiblingNotKept               (* a kept target carries gc_sibling:<x> and x is not kept: it shares x's fate *)
| TestNotRevisited             (* a test of a target that was kept later in the single pass over the tests *)
| NonBinaryTestConservative    (* conservative mode skips the pass: a test that is not a binary is never looked at *)
| DataOrDirectory.             (* a removed source is data of a kept target, or lies inside a directory it lists *)

Definition uses_b (t : target) (f : str) : bool :=
  existsb (fun x => str_eqb x f || has_prefix (x ++ [c_slash]) f) (t_srcs t ++ t_data t).

Definition test_unstable (m : kset) (t : target) : bool :=
  t_test t && negb (kmem (t_label t) m)
  && match public_deps (fuel_of g) g t with
     | None => true
     | Some ds => existsb (fun x => kmem (t_label x) m && negb (t_test_only x)) ds
     end.

Definition defect_class : option defect :=
  match gc_keep g a with
  | None => None
  | Some m =>
      if existsb (fun t => kmem (t_label t) m && negb (kmem (t_label (gc_sibling g t)) m)) (g_targets g)
      then Some SiblingNotKept
      else if existsb (test_unstable m) (g_targets g)
      then Some (if a_include_tests a then NonBinaryTestConservative else TestNotRevisited)
      else if existsb (fun f => existsb (fun k => match find_target g k with
                                                  | Some t => uses_b t f
                                                  | None => false
                                                  end) m) (removed_srcs g a m)
      then Some DataOrDirectory
      else None
  end.

End Spec.
