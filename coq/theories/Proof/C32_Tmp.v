(* C32 (follow-up) - proofs about the work directory model (Model/C32_Tmp.v):
   whatever a killed build left in plz-out/tmp/<target>._build, the next build's command starts in an empty
   directory, so what it produces is a function of the sources only; with the invariant of Proof/C32.v this gives
   the property for kills at any step of [prepare; command; metadata; outputs; record; clean-up]. *)
From Coq Require Import String.
From PlzV Require Import Base.Harness Base.StrFacts Model.C32 Model.C32_Tmp Proof.C32 Gen.C32Order.
From Coq Require Import Lia List.

(* ------------------------------------------------------------------------------------------ *)
(* the work directory alone *)

Lemma trun_app wc srcs l1 l2 m : trun wc srcs (l1 ++ l2) m = trun wc srcs l2 (trun wc srcs l1 m).
Proof. unfold trun. apply fold_left_app. Qed.

(* prepareDirectory(target.TmpDir(), true) leaves an empty directory, whatever was there *)
Lemma prep_empty srcs T : trun wipe_cond srcs prep_steps (start T) = start (TDir []).
Proof. destruct T; reflexivity. Qed.

(* ... so the command runs as in a fresh directory *)
Lemma after_cmd_indep srcs cmd T :
  after_cmd wipe_cond srcs cmd T = trun wipe_cond srcs (map TCmd cmd) (start (TDir [])).
Proof. unfold after_cmd, cmd_steps. rewrite trun_app, prep_empty. reflexivity. Qed.

Lemma after_cmd_any srcs cmd T T' : after_cmd wipe_cond srcs cmd T = after_cmd wipe_cond srcs cmd T'.
Proof. rewrite (after_cmd_indep srcs cmd T), (after_cmd_indep srcs cmd T'). reflexivity. Qed.

Lemma cmd_ok_any srcs cmd outs T T' : cmd_ok wipe_cond srcs cmd outs T = cmd_ok wipe_cond srcs cmd outs T'.
Proof. unfold cmd_ok. rewrite (after_cmd_any srcs cmd T T'). reflexivity. Qed.

Lemma produced_any srcs cmd outs T T' : produced wipe_cond srcs cmd outs T = produced wipe_cond srcs cmd outs T'.
Proof. unfold produced. rewrite (cmd_ok_any srcs cmd outs T T'), (after_cmd_any srcs cmd T T'). reflexivity. Qed.

(* a history of builds on the work directory alone: each killed after some number of its [prepare; command] steps *)
Definition tafter (srcs : list (name * str)) (cmd : list cstep) (ks : list nat) (T : tdir) : tdir :=
  fold_left (fun T k => tcrash wipe_cond srcs cmd k T) ks T.

(* After ANY history of killed builds, from ANY initial content of the work directory, the next build's command
   starts in the empty directory and the build leaves what the clean build leaves. *)
Lemma tmp_next_build srcs cmd outs ks T0 :
  let T := tafter srcs cmd ks T0 in
  trun wipe_cond srcs prep_steps (start T) = start (TDir [])
  /\ after_cmd wipe_cond srcs cmd T = trun wipe_cond srcs (map TCmd cmd) (start (TDir []))
  /\ produced wipe_cond srcs cmd outs T = produced wipe_cond srcs cmd outs TAbsent.
Proof.
  cbn zeta. split; [apply prep_empty|]. split; [apply after_cmd_indep|apply produced_any].
Qed.

(* the statement is about the wipe: with the condition `remove && !fs.IsDirectory(directory)` (seeded mutation m3)
   the same history gives a different output *)
Definition wipe_m3 (remove is_directory : bool) : bool := remove && negb is_directory.

Definition w_srcs : list (name * str) := [(s "a", s "alpha"); (s "b", s "beta")].
Definition w_cmd : list cstep :=
  [Append (s "acc") (ASrc (s "a")); Append (s "acc") (ASrc (s "b")); Write (s "out") (AFile (s "acc"))].

Lemma wipe_needed :
  produced wipe_m3 w_srcs w_cmd [s "out"] (tcrash wipe_m3 w_srcs w_cmd 3 TAbsent) = Some [(s "out", s "alphaalphabeta")]
  /\ produced wipe_m3 w_srcs w_cmd [s "out"] TAbsent = Some [(s "out", s "alphabeta")]
  /\ produced wipe_cond w_srcs w_cmd [s "out"] (tcrash wipe_cond w_srcs w_cmd 3 TAbsent) = Some [(s "out", s "alphabeta")]
  /\ tcrash wipe_cond w_srcs w_cmd 3 TAbsent = TDir [(s "acc", NFile (s "alpha"))].
Proof. vm_compute. repeat split. Qed.

(* ------------------------------------------------------------------------------------------ *)
(* work directory and plz-out together *)

Section Both.
  Variable srcs : list (name * str).
  Variable cid : str -> content.
  Variable cmd : list cstep.
  Variable t : target.
  Variable dirouts : list name.
  Variable cur : rec.

  Notation bld := (bld_of wipe_cond srcs cid cmd dirouts cur).
  Notation B := (bld_of wipe_cond srcs cid cmd dirouts cur TAbsent false).
  Notation xr1 := (xrun1 wipe_cond srcs).
  Notation n0 := (length (cmd_steps cmd)).

  Lemma bld_any T f : bld T f = with_force B f.
  Proof. unfold bld_of, with_force. cbn [b_dirouts b_new b_cur]. rewrite (after_cmd_any srcs cmd T TAbsent). reflexivity. Qed.

  Lemma all_outs_bld T f : all_outs t (bld T f) = all_outs t B.
  Proof. reflexivity. Qed.

  Lemma snd_fold_XS (l : list step) : forall j (x : xst),
    snd (fold_left (fun a y => xr1 y a) (firstn j (map XS l ++ [XT TClean])) x) = run (firstn j l) (snd x).
  Proof.
    induction l as [|a l IH]; intros [|j] x; cbn [map app firstn fold_left]; try reflexivity.
    - destruct j; reflexivity.
    - rewrite IH. destruct x as [T s0]. reflexivity.
  Qed.

  Hypothesis Hok : cmd_ok wipe_cond srcs cmd (all_outs t B) TAbsent = true.

  Lemma xcrash_snd k f T s0 :
    snd (xcrash wipe_cond srcs cid cmd t dirouts cur k f (T, s0)) = crash (k - n0) t B s0.
  Proof.
    unfold xcrash. cbn [fst snd].
    destruct (Nat.leb_spec k n0) as [Hle|Hgt].
    - cbn [snd]. replace (k - n0) with 0 by lia. reflexivity.
    - rewrite (all_outs_bld T f), (cmd_ok_any srcs cmd (all_outs t B) T TAbsent), Hok.
      unfold post_steps. rewrite snd_fold_XS. cbn [snd].
      rewrite (bld_any T f). unfold crash. rewrite build_steps_force. reflexivity.
  Qed.

  Lemma xstep_event_snd T s0 e :
    snd (xstep_event wipe_cond srcs cid cmd t dirouts cur (T, s0) e) = step_event t B s0 (fst e, snd e - n0).
  Proof.
    unfold xstep_event, step_event. cbn [fst snd]. rewrite (bld_any T (fst e)).
    destruct (decide t (with_force B (fst e)) s0); try reflexivity.
    rewrite xcrash_snd, crash_force. reflexivity.
  Qed.

  Definition shift (evs : list event) : list event := map (fun e => (fst e, snd e - n0)) evs.

  Lemma xafter_snd evs : forall x,
    snd (xafter wipe_cond srcs cid cmd t dirouts cur evs x) = after t B (shift evs) (snd x).
  Proof.
    induction evs as [|e r IH]; intros [T s0]; [reflexivity|].
    change (xafter wipe_cond srcs cid cmd t dirouts cur (e :: r) (T, s0))
      with (xafter wipe_cond srcs cid cmd t dirouts cur r (xstep_event wipe_cond srcs cid cmd t dirouts cur (T, s0) e)).
    change (after t B (shift (e :: r)) (snd (T, s0)))
      with (after t B (shift r) (step_event t B s0 (fst e, snd e - n0))).
    rewrite IH, xstep_event_snd. reflexivity.
  Qed.

  Lemma xrecover_of_recover x s' :
    recover t B (snd x) = Some s' ->
    exists x', xrecover wipe_cond srcs cid cmd t dirouts cur x = Some x' /\ snd x' = s'.
  Proof.
    destruct x as [T s0]. unfold recover, xrecover. cbn [fst snd].
    rewrite (bld_any T false). change (with_force B false) with B.
    rewrite (cmd_ok_any srcs cmd _ T TAbsent), Hok.
    destruct (decide t B s0); intros H; try discriminate; injection H as <-;
      eexists; split; reflexivity.
  Qed.

  (* Kills at ANY step of [prepare; command; metadata; outputs; record; clean-up], any number of builds (normal or
     --rebuild), any initial content of the work directory, any trusted initial plz-out: the next normal build
     succeeds and leaves exactly the outputs of the clean build (empty plz-out, no work directory). *)
  Lemma tmp_histories_full T0 s0 evs :
    trusted t B s0 ->
    exists x', xrecover wipe_cond srcs cid cmd t dirouts cur (xafter wipe_cond srcs cid cmd t dirouts cur evs (T0, s0)) = Some x'
               /\ visible t B (snd x') = visible t B (xclean wipe_cond srcs cid cmd t dirouts cur)
               /\ md_full t B (snd x') = true.
  Proof.
    intros Htr.
    destruct (histories_full t B s0 (shift evs) Htr) as [s' [Hrec [Hvis Hmd]]].
    change s0 with (snd (T0, s0)) in Hrec. rewrite <- (xafter_snd evs (T0, s0)) in Hrec.
    destruct (xrecover_of_recover _ _ Hrec) as [x' [Hx' Hs]].
    exists x'. split; [exact Hx'|]. rewrite Hs. split; [exact Hvis|exact Hmd].
  Qed.
End Both.

(* ------------------------------------------------------------------------------------------ *)
(* the tie to the source (Gen/C32Order.v is regenerated from /repo on every run) *)

Local Open Scope string_scope.

(* prepareDirectory: (guard, call) in source order *)
Definition tstep_of_prep (gc : string * string) : list tstep :=
  if String.eqb (snd gc) "fs.RemoveAll" then [TWipe]
  else if String.eqb (snd gc) "os.MkdirAll" then
    (if String.eqb (fst gc) "" then [TMk]
     else if String.eqb (fst gc) "err != nil && checkForStaleOutput(directory, err)" then []   (* the retry inside TMk *)
     else [TClean])
  else [TClean].               (* anything else is not the modelled shape *)

Lemma prepare_directory_order : flat_map tstep_of_prep C32Order.prepare_directory = prep_steps.
Proof. reflexivity. Qed.

(* the condition of the fs.RemoveAll in prepareDirectory, translated from the Go expression *)
Lemma prepare_wipe_cond_tie : forall remove is_directory,
  C32Order.prepare_wipe_cond remove is_directory = wipe_cond remove is_directory.
Proof. intros [|] [|]; reflexivity. Qed.

(* prepareDirectories wipes the work directory (remove = true) and only creates the output directory;
   buildTarget: prepare, sources, command, then the persistent steps of Model/C32.v, then the clean-up *)
Lemma prepare_directories_order :
  C32Order.prepare_directories =
    [("prepareDirectory", "target.TmpDir(), true"); ("prepareOutputDirectories", "target"); ("prepareDirectory", "target.OutDir(), false")]
  /\ C32Order.build_target_tmp =
    ["prepareDirectories"; "prepareSources"; "build"; "StoreTargetMetadata"; "moveOutputs"; "calculateAndCheckRuleHash"; "fs.RemoveAll(target.TmpDir())"].
Proof. split; reflexivity. Qed.

Lemma tmp_source_order :
  flat_map tstep_of_prep C32Order.prepare_directory = prep_steps
  /\ (forall remove is_directory, C32Order.prepare_wipe_cond remove is_directory = wipe_cond remove is_directory)
  /\ C32Order.prepare_directories =
       [("prepareDirectory", "target.TmpDir(), true"); ("prepareOutputDirectories", "target"); ("prepareDirectory", "target.OutDir(), false")]
  /\ C32Order.build_target_tmp =
       ["prepareDirectories"; "prepareSources"; "build"; "StoreTargetMetadata"; "moveOutputs"; "calculateAndCheckRuleHash"; "fs.RemoveAll(target.TmpDir())"].
Proof.
  exact (conj prepare_directory_order (conj prepare_wipe_cond_tie prepare_directories_order)).
Qed.
