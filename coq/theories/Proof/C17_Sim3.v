(* C17 - parametricity of the evaluator in the ids it allocates, part 3: monadic maps, sorting, constants, the
   operator chain (flat_ops), the native builtins and the methods commute with the renaming. *)
From Coq Require Import String Lia.
From PlzV Require Import Base.Harness Base.StrFacts Gen.AspTables Model.C16_Syntax Model.C16_Ops Model.C16_Prim Model.C16_Eval.
From PlzV Require Import Proof.C17_Inv Proof.C17_Ops Proof.C17_Scopes Proof.C17_Sim1 Proof.C17_Sim2.
Local Open Scope list_scope.
Local Open Scope nat_scope.

Lemma combine_map_r : forall {A B} (f : B -> B) (a : list A) (b : list B), combine a (map f b) = map (fun p => (fst p, f (snd p))) (combine a b).
Proof. intros A B f. induction a as [|x r IH]; intros [|y ys]; cbn; try reflexivity. f_equal. apply IH. Qed.

Lemma flat_ops_unfold2 : forall {X V S} (evalx : X -> S -> res (V * S)) ab un tr obj i0 i1 rest st,
  flat_ops evalx ab un tr obj (i0 :: i1 :: rest) st =
  (if aprec (ikey i0) >=? aprec (ikey i1) then
     rbind (interp_op_x evalx ab un tr obj i0 st) (fun '(r, st1) => flat_ops evalx ab un tr r (i1 :: rest) st1)
   else if alazy (ikey i0) && negb (Bool.eqb (tr obj st) (key_is_and (ikey i0))) then Ok (obj, st)
   else match i0 with
        | IUn u => rbind (flat_ops evalx ab un tr obj (i1 :: rest) st) (fun '(r, st1) => lift_un un u r st1)
        | IBin o x =>
            rbind (evalx x st) (fun '(r0, st1) =>
            rbind (flat_ops evalx ab un tr r0 (i1 :: rest) st1) (fun '(n, st2) => interp_op_v ab tr obj o n st st2))
        end)%Z.
Proof. reflexivity. Qed.

Ltac rsubst :=
  repeat match goal with
         | H : C17_Sim1.vR _ _ _ |- _ => red in H
         | H : (fun _ _ => _ = _) _ _ |- _ => cbv beta in H
         end; subst.

Section Ops3.
Variable W : shift.
Variable defs : list (str * prog).
Notation rn := (C17_Sim1.rn W).
Notation rn_slice := (C17_Sim1.rn_slice W).
Notation rn_env := (C17_Sim1.rn_env W).
Notation rn_kv := (C17_Sim1.rn_kv W).
Notation sim := (C17_Sim1.sim W defs).
Notation rsim := (C17_Sim1.rsim W defs).
Notation vR := (C17_Sim1.vR W).
Notation shd := (C17_Sim1.shd W).

(* ---------------------------------------------------------------- monadic maps *)
Lemma mapM_sim : forall {A B} (h : A -> A) (hb : B -> B) (g g' : A -> state -> res (B * state)) l st st',
  (forall x, List.In x l -> forall s0 s0', sim s0 s0' -> rsim (fun y y' => y' = hb y) (g x s0) (g' (h x) s0')) ->
  sim st st' -> rsim (fun ys ys' => ys' = map hb ys) (mapM g l st) (mapM g' (map h l) st').
Proof.
  intros A B h hb g g'. induction l as [|x r IH]; intros st st' Hg HS; cbn [mapM map].
  - split; [reflexivity|exact HS].
  - eapply rsim_bind; [apply Hg; [left; reflexivity|exact HS]|].
    intros y s1 y' s1' Hy HS1. cbv beta match.
    eapply rsim_bind; [apply IH; [intros; apply Hg; [right; assumption|assumption]|exact HS1]|].
    intros ys s2 ys' s2' Hys HS2. cbv beta match. rsubst. split; [reflexivity|exact HS2].
Qed.

Lemma mapM_sim_same : forall {A B} (hb : B -> B) (g g' : A -> state -> res (B * state)) l st st',
  (forall x, List.In x l -> forall s0 s0', sim s0 s0' -> rsim (fun y y' => y' = hb y) (g x s0) (g' x s0')) ->
  sim st st' -> rsim (fun ys ys' => ys' = map hb ys) (mapM g l st) (mapM g' l st').
Proof.
  intros A B hb g g' l st st' Hg HS. rewrite <- (map_id l) at 2. apply (mapM_sim (fun x => x) hb g g'); assumption.
Qed.

(* ---------------------------------------------------------------- sorting *)
Section Sort.
  Variables less less' : value -> value -> res bool.
  Hypothesis Hless : forall x y, less' (rn x) (rn y) = less x y.

  Lemma ins_left_rn : forall x l, ins_left less' (rn x) (map rn l) = rmap (map rn) (ins_left less x l).
  Proof.
    intros x. induction l as [|y r IH]; cbn [ins_left map]; [reflexivity|].
    rewrite Hless. destruct (less x y) as [[|]| |]; cbn [rbind rmap]; try reflexivity.
    rewrite IH. destruct (ins_left less x r); reflexivity.
  Qed.

  Lemma insertion_sort_rn : forall l, insertion_sort less' (map rn l) = rmap (map rn) (insertion_sort less l).
  Proof.
    intros l. unfold insertion_sort.
    assert (Hgo : forall l0 acc,
      (fix go (l1 acc0 : list value) : res (list value) :=
         match l1 with [] => Ok acc0 | x :: rest => rbind (ins_left less' x acc0) (fun acc' => go rest acc') end) (map rn l0) (map rn acc) =
      rmap (map rn) ((fix go (l1 acc0 : list value) : res (list value) :=
         match l1 with [] => Ok acc0 | x :: rest => rbind (ins_left less x acc0) (fun acc' => go rest acc') end) l0 acc)).
    { induction l0 as [|x rest IH]; intros acc; cbn [map]; [reflexivity|].
      rewrite ins_left_rn. destruct (ins_left less x acc); cbn [rbind rmap]; try reflexivity. apply IH. }
    pose proof (Hgo l []) as H0. cbn [map] in H0. rewrite H0.
    match goal with |- rbind (rmap _ ?X) _ = _ => destruct X end; cbn [rbind rmap]; try reflexivity. rewrite map_rev. reflexivity.
  Qed.
End Sort.

(* ---------------------------------------------------------------- scope.Constant expressions *)
Lemma const_alloc_sim : forall fuel e st st', sim st st' -> rsim vR (const_alloc fuel e st) (const_alloc fuel e st').
Proof.
  induction fuel as [|f IH]; intros e st st' HS; [exact I|].
  destruct e as [v ops iff]. cbn [const_alloc].
  destruct v; try rs_leaf; destruct ops; try rs_leaf; destruct iff; try rs_leaf.
  - eapply rsim_bind; [apply (mapM_sim_same rn); [intros; apply IH; assumption|exact HS]|].
    intros vs s1 vs' s1' Hvs HS1. cbv beta match. rsubst. rewrite map_length. apply alloc_list_rsim. exact HS1.
  - rewrite (const_sim _ _ _ _ HS). rs_leaf.
Qed.

(* ---------------------------------------------------------------- the operator chain *)
Section Chain.
  Variable fuel : nat.
  Variable evalx : vexpr -> state -> res (value * state).
  Variable un : unop -> value -> state -> res value.
  Variable tr : value -> state -> bool.
  Hypothesis un_sim : forall u v st st', sim st st' -> un u (rn v) st' = rmap rn (un u v st).
  Hypothesis tr_sim : forall v st st', sim st st' -> tr (rn v) st' = tr v st.

  Definition operand_sim (x : vexpr) : Prop := forall st st', sim st st' -> rsim vR (evalx x st) (evalx x st').

  Lemma lift_un_sim : forall u obj st st', sim st st' -> rsim vR (lift_un un u obj st) (lift_un un u (rn obj) st').
  Proof.
    intros u obj st st' HS. unfold lift_un. rewrite (un_sim _ _ _ _ HS).
    destruct (un u obj st); cbn; [split; [reflexivity|exact HS]|reflexivity|exact I].
  Qed.

  Lemma recheck_sim : forall obj st0 st0' st1 st1' (k k' : res (value * state)), sim st0 st0' -> sim st1 st1' -> rsim vR k k' ->
    rsim vR (recheck tr obj st0 st1 k) (recheck tr (rn obj) st0' st1' k').
  Proof.
    intros obj st0 st0' st1 st1' k k' H0 H1 Hk. unfold recheck. rewrite (tr_sim _ _ _ H0), (tr_sim _ _ _ H1).
    destruct (Bool.eqb _ _); [exact Hk|reflexivity].
  Qed.

  Lemma interp_op_x_sim : forall i obj st st', sim st st' ->
    (forall o x, i = OBin o x -> operand_sim x) ->
    rsim vR (interp_op_x evalx (apply_bin Asp fuel) un tr obj (of_opitem i) st)
            (interp_op_x evalx (apply_bin Asp fuel) un tr (rn obj) (of_opitem i) st').
  Proof.
    intros i obj st st' HS Hx. destruct i as [o x|u]; cbn [of_opitem interp_op_x]; [|apply lift_un_sim; exact HS].
    specialize (Hx o x eq_refl).
    assert (Hstrict : rsim vR (rbind (evalx x st) (fun '(r, st1) => apply_bin Asp fuel o obj r st1))
                              (rbind (evalx x st') (fun '(r, st1) => apply_bin Asp fuel o (rn obj) r st1))).
    { eapply rsim_bind; [apply Hx; exact HS|]. intros r s1 r' s1' Hr HS1. cbv beta match. rsubst. apply apply_bin_sim. exact HS1. }
    assert (Hlazy : forall c,
      rsim vR (if Bool.eqb (tr obj st) c then rbind (evalx x st) (fun '(r, st1) => recheck tr obj st st1 (Ok (r, st1))) else Ok (obj, st))
              (if Bool.eqb (tr (rn obj) st') c then rbind (evalx x st') (fun '(r, st1) => recheck tr (rn obj) st' st1 (Ok (r, st1))) else Ok (rn obj, st'))).
    { intros c. rewrite (tr_sim _ _ _ HS). destruct (Bool.eqb _ _); [|split; [reflexivity|exact HS]].
      eapply rsim_bind; [apply Hx; exact HS|]. intros r s1 r' s1' Hr HS1. cbv beta match. rsubst.
      apply recheck_sim; auto. split; [reflexivity|exact HS1]. }
    destruct o; try exact Hstrict; apply Hlazy.
  Qed.

  Lemma interp_op_v_sim : forall obj o n st0 st0' st st', sim st0 st0' -> sim st st' ->
    rsim vR (interp_op_v (apply_bin Asp fuel) tr obj o n st0 st) (interp_op_v (apply_bin Asp fuel) tr (rn obj) o (rn n) st0' st').
  Proof.
    intros obj o n st0 st0' st st' H0 HS. unfold interp_op_v.
    destruct o; try (apply apply_bin_sim; exact HS).
    - apply recheck_sim; auto. rewrite (tr_sim _ _ _ HS). destruct (Bool.eqb _ _); split; try reflexivity; exact HS.
    - apply recheck_sim; auto. rewrite (tr_sim _ _ _ HS). destruct (Bool.eqb _ _); split; try reflexivity; exact HS.
  Qed.

  Lemma flat_ops_sim : forall (ops : list opitem),
    (forall o x, List.In (OBin o x) ops -> operand_sim x) ->
    forall obj st st', sim st st' ->
    rsim vR (flat_ops evalx (apply_bin Asp fuel) un tr obj (items_of ops) st)
            (flat_ops evalx (apply_bin Asp fuel) un tr (rn obj) (items_of ops) st').
  Proof.
    induction ops as [|i0 rest IH]; intros Hx obj st st' HS.
    - cbn. split; [reflexivity|exact HS].
    - assert (Hx0 : forall o x, i0 = OBin o x -> operand_sim x).
      { intros o x ->. apply (Hx o). left. reflexivity. }
      assert (Hxr : forall o x, List.In (OBin o x) rest -> operand_sim x).
      { intros o x Hin. apply (Hx o). right. exact Hin. }
      destruct rest as [|i1 rest'].
      + cbn [items_of map flat_ops]. apply interp_op_x_sim; auto.
      + change (items_of (i0 :: i1 :: rest')) with (of_opitem i0 :: of_opitem i1 :: items_of rest').
        rewrite !flat_ops_unfold2. change (of_opitem i1 :: items_of rest') with (items_of (i1 :: rest')).
        destruct (aprec (ikey (of_opitem i0)) >=? aprec (ikey (of_opitem i1)))%Z eqn:Eprec.
        * eapply rsim_bind; [apply interp_op_x_sim; auto|].
          intros r s1 r' s1' Hr HS1. cbv beta match. rsubst. apply IH; auto.
        * rewrite (tr_sim _ _ _ HS).
          destruct (alazy (ikey (of_opitem i0)) && negb (Bool.eqb (tr obj st) (key_is_and (ikey (of_opitem i0))))); [split; [reflexivity|exact HS]|].
          destruct i0 as [o x|u]; cbn [of_opitem].
          -- eapply rsim_bind; [apply (Hx0 o x eq_refl); exact HS|].
             intros r0 s1 r0' s1' Hr0 HS1. cbv beta match. rsubst.
             eapply rsim_bind; [apply IH; auto|].
             intros n s2 n' s2' Hn HS2. cbv beta match. rsubst. apply interp_op_v_sim; auto.
          -- eapply rsim_bind; [apply IH; auto|].
             intros r s1 r' s1' Hr HS1. cbv beta match. rsubst. apply lift_un_sim; auto.
  Qed.
End Chain.

Lemma chain_sim : forall fuel evalx ops obj st st',
  (forall o x, List.In (OBin o x) ops -> operand_sim evalx x) ->
  sim st st' ->
  rsim vR (chain Asp evalx fuel obj ops st) (chain Asp evalx fuel (rn obj) ops st').
Proof.
  intros fuel evalx ops obj st st' Hx HS. unfold chain. apply flat_ops_sim; auto.
  - intros u v s0 s0' H0. exact (apply_un_sim W defs s0 s0' H0 u v).
  - intros v s0 s0' H0. apply (truthy_sim _ _ _ _ H0).
Qed.

(* ---------------------------------------------------------------- natives *)
Definition closed_sig (sg : list (str * N * option value)) : Prop :=
  Forall (fun x => forall dv, snd x = Some dv -> rn dv = dv) sg.

Lemma native_sig_closed : forall n sg va, native_sig n = Some (sg, va) -> closed_sig sg.
Proof.
  intros n sg va H. unfold native_sig in H. inv_res H; injection H as <- <-;
    repeat constructor; cbn; intros dv E'; try discriminate E'; injection E' as <-; reflexivity.
Qed.

Lemma method_sig_closed : forall n sg, method_sig n = Some sg -> closed_sig sg.
Proof.
  intros n sg H. unfold method_sig in H. inv_res H; injection H as <-;
    repeat constructor; cbn; intros dv E'; try discriminate E'; injection E' as <-; reflexivity.
Qed.

Lemma existsb_truthy_sim : forall st st' l, sim st st' -> existsb (truthy Asp st') (map rn l) = existsb (truthy Asp st) l.
Proof. intros st st' l HS. induction l as [|x r IH]; cbn [map existsb]; [reflexivity|]. rewrite (truthy_sim _ _ _ _ HS), IH. reflexivity. Qed.

Lemma forallb_truthy_sim : forall st st' l, sim st st' -> forallb (truthy Asp st') (map rn l) = forallb (truthy Asp st) l.
Proof. intros st st' l HS. induction l as [|x r IH]; cbn [map forallb]; [reflexivity|]. rewrite (truthy_sim _ _ _ _ HS), IH. reflexivity. Qed.

Lemma forallb_rn : forall (p : value -> bool) l, (forall v, p (rn v) = p v) -> forallb p (map rn l) = forallb p l.
Proof. intros p l Hp. induction l as [|x r IH]; cbn [map forallb]; [reflexivity|]. rewrite Hp, IH. reflexivity. Qed.

Lemma map_VStr_rn : forall (l : list str), map rn (map VStr l) = map VStr l.
Proof. induction l; cbn; [reflexivity|]. f_equal. assumption. Qed.

Lemma rsim_pure : forall {A B} (f : A -> A) (R : B -> B -> Prop) (r : res A) (k k' : A -> res (B * state)),
  (forall a, r = Ok a -> rsim R (k a) (k' (f a))) -> rsim R (rbind r k) (rbind (rmap f r) k').
Proof. intros A B f R r k k' H. destruct r; cbn; auto. Qed.

Lemma rsim_same : forall {A B} (R : B -> B -> Prop) (r : res A) (k k' : A -> res (B * state)),
  (forall a, r = Ok a -> rsim R (k a) (k' a)) -> rsim R (rbind r k) (rbind r k').
Proof. intros A B R r k k' H. destruct r; cbn; auto. Qed.

Lemma native_sim : forall fuel n args st st', sim st st' -> rsim vR (native Asp fuel n args st) (native Asp fuel n (map rn args) st').
Proof.
  intros fuel n args st st' HS. unfold native. cbv beta zeta. rewrite !nth_rn.
  destruct (str_eqb n (s "len")).
  { destruct (nth 0 args VNone); cbn [C17_Sim1.rn]; try rs_leaf;
      rewrite (dict_of_sim _ _ _ _ HS), rn_env_length; rs_leaf. }
  destruct (str_eqb n (s "str")).
  { rewrite (vstr_sim _ _ _ _ HS). apply rsim_same. intros x _. rs_leaf. }
  destruct (str_eqb n (s "bool")). { rewrite (truthy_sim _ _ _ _ HS). rs_leaf. }
  destruct (str_eqb n (s "enumerate")).
  { rewrite (strict_list_sim _ _ _ _ HS). apply rsim_pure. intros l _.
    rewrite map_length, combine_map_r.
    eapply rsim_bind.
    - apply (mapM_sim (fun p : nat * value => (fst p, rn (snd p))) rn); [|exact HS].
      intros iv _ s0 s0' H0. cbn [fst snd]. exact (new_list_sim W defs [VInt _; _] s0 s0' H0).
    - intros pairs s1 pairs' s1' Hp HS1. cbv beta match. rsubst. apply new_list_sim. exact HS1. }
  destruct (str_eqb n (s "zip")).
  { rewrite (mapR_rmap (strict_list Asp st) (strict_list Asp st') rn (map rn)) by (intros; apply (strict_list_sim _ _ _ _ HS)).
    apply rsim_pure. intros ls _. destruct ls as [|l0 lr]; cbn [map]; [rs_leaf|].
    assert (Hlen : forall (ls0 : list (list value)) k, forallb (fun l => Nat.eqb (length l) k) (map (map rn) ls0) = forallb (fun l => Nat.eqb (length l) k) ls0).
    { induction ls0 as [|a r IH]; intros k; cbn [map forallb]; [reflexivity|]. rewrite map_length, IH. reflexivity. }
    change (map rn l0 :: map (map rn) lr) with (map (map rn) (l0 :: lr)). rewrite map_length, Hlen.
    destruct (forallb _ _); [|rs_leaf].
    eapply rsim_bind.
    - apply (mapM_sim_same rn); [|exact HS]. intros i _ s0 s0' H0.
      match goal with |- rsim _ (Ok (new_list ?a s0)) (Ok (new_list ?b s0')) => replace b with (map rn a) end;
        [exact (new_list_sim W defs _ s0 s0' H0)|].
      cbn [map]. rewrite nth_rn. f_equal. rewrite !map_map. apply map_ext. intros l. symmetry. apply nth_rn.
    - intros rows s1 rows' s1' Hp HS1. cbv beta match. rsubst. apply new_list_sim. exact HS1. }
  destruct (str_eqb n (s "any")).
  { rewrite (strict_list_sim _ _ _ _ HS). apply rsim_pure. intros l _. rewrite (existsb_truthy_sim _ _ _ HS). rs_leaf. }
  destruct (str_eqb n (s "all")).
  { rewrite (strict_list_sim _ _ _ _ HS). apply rsim_pure. intros l _. rewrite (forallb_truthy_sim _ _ _ HS). rs_leaf. }
  destruct (str_eqb n (s "reversed")).
  { rewrite (strict_list_sim _ _ _ _ HS). apply rsim_pure. intros l _. rewrite <- map_rev. apply new_list_sim. exact HS. }
  destruct (str_eqb n (s "sorted")).
  { rewrite (strict_list_sim _ _ _ _ HS). apply rsim_pure. intros l _.
    destruct (nth 1 args VNone); cbn [C17_Sim1.rn]; try rs_leaf.
    destruct (nth 2 args VNone); cbn [C17_Sim1.rn]; try rs_leaf.
    rewrite map_length, !forallb_rn by (intros v; destruct v; reflexivity).
    destruct (_ && _); [rs_leaf|].
    rewrite (insertion_sort_rn (fun x y => vcmp Asp fuel st (if b then Gt else C16_Syntax.Lt) x y) (fun x y => vcmp Asp fuel st' (if b then Gt else C16_Syntax.Lt) x y))
      by (intros; apply (vcmp_sim _ _ _ _ HS)).
    apply rsim_pure. intros r _. apply new_list_sim. exact HS. }
  destruct (str_eqb n (s "min") || str_eqb n (s "max")).
  { rewrite (strict_list_sim _ _ _ _ HS). apply rsim_pure. intros l _.
    destruct (nth 1 args VNone); cbn [C17_Sim1.rn]; try rs_leaf.
    destruct l as [|x r]; cbn [map]; [rs_leaf|].
    match goal with |- rsim _ (rbind (?go r x) _) (rbind (?go' (map rn r) (rn x)) _) =>
      assert (Hgo : forall r0 cur, go' (map rn r0) (rn cur) = rmap rn (go r0 cur)) end.
    { induction r0 as [|y r0 IH]; intros cur; cbn [map]; [reflexivity|].
      rewrite (vcmp_sim _ _ _ _ HS). destruct (vcmp Asp fuel st _ y cur) as [[|]| |]; cbn [rbind]; try reflexivity; apply IH. }
    rewrite Hgo. apply rsim_pure. intros best _. rs_leaf. }
  destruct (str_eqb n (s "range")).
  { destruct (nth 0 args VNone); cbn [C17_Sim1.rn]; try rs_leaf.
    destruct (nth 1 args VNone); cbn [C17_Sim1.rn]; try rs_leaf; destruct (nth 2 args VNone); cbn [C17_Sim1.rn]; rs_leaf. }
  rs_leaf.
Qed.

Lemma native_method_sim : forall fuel n args st st', sim st st' ->
  rsim vR (native_method Asp fuel n args st) (native_method Asp fuel n (map rn args) st').
Proof.
  intros fuel n args st st' HS. unfold native_method. cbv beta zeta. rewrite !nth_rn.
  assert (Hd : forall i,
    rsim vR
      (if str_eqb n (s "get") then
         match nth 1 args VNone with
         | VStr k => Ok (match env_get k (dict_enum Asp (dict_of st i)) with Some v => v | None => nth 2 args VNone end, st)
         | _ => Err EType
         end
       else if str_eqb n (s "keys") then Ok (new_list (map (fun kv => VStr (fst kv)) (dict_enum Asp (dict_of st i))) st)
       else if str_eqb n (s "values") then Ok (new_list (map (@snd _ _) (dict_enum Asp (dict_of st i))) st)
       else if str_eqb n (s "items") then
         rbind (mapM (fun kv st0 => Ok (new_list [VStr (fst kv); snd kv] st0)) (dict_enum Asp (dict_of st i)) st)
               (fun '(pairs, st1) => Ok (new_list pairs st1))
       else Err EUnsupported)
      (if str_eqb n (s "get") then
         match rn (nth 1 args VNone) with
         | VStr k => Ok (match env_get k (dict_enum Asp (dict_of st' (shd i))) with Some v => v | None => rn (nth 2 args VNone) end, st')
         | _ => Err EType
         end
       else if str_eqb n (s "keys") then Ok (new_list (map (fun kv => VStr (fst kv)) (dict_enum Asp (dict_of st' (shd i)))) st')
       else if str_eqb n (s "values") then Ok (new_list (map (@snd _ _) (dict_enum Asp (dict_of st' (shd i)))) st')
       else if str_eqb n (s "items") then
         rbind (mapM (fun kv st0 => Ok (new_list [VStr (fst kv); snd kv] st0)) (dict_enum Asp (dict_of st' (shd i))) st')
               (fun '(pairs, st1) => Ok (new_list pairs st1))
       else Err EUnsupported)).
  { intros i. cbn [dict_enum]. rewrite (dict_of_sim _ _ _ _ HS), rn_sort_kvs. set (kvs := sort_kvs (dict_of st i)).
    destruct (str_eqb n (s "get")).
    { destruct (nth 1 args VNone); cbn [C17_Sim1.rn]; try rs_leaf. rewrite rn_env_get.
      destruct (env_get _ kvs); cbn [option_map]; rs_leaf. }
    destruct (str_eqb n (s "keys")).
    { replace (map (fun kv => VStr (fst kv)) (rn_env kvs)) with (map rn (map (fun kv => VStr (fst kv)) kvs)); [apply new_list_sim; exact HS|].
      unfold C17_Sim1.rn_env. rewrite !map_map. apply map_ext. intros kv. reflexivity. }
    destruct (str_eqb n (s "values")).
    { replace (map (@snd _ _) (rn_env kvs)) with (map rn (map (@snd _ _) kvs)); [apply new_list_sim; exact HS|].
      unfold C17_Sim1.rn_env. rewrite !map_map. apply map_ext. intros kv. reflexivity. }
    destruct (str_eqb n (s "items")); [|rs_leaf].
    eapply rsim_bind.
    - unfold C17_Sim1.rn_env. apply (mapM_sim rn_kv rn); [|exact HS].
      intros kv _ s0 s0' H0. cbn [C17_Sim1.rn_kv fst snd]. exact (new_list_sim W defs [VStr _; _] s0 s0' H0).
    - intros pairs s1 pairs' s1' Hp HS1. cbv beta match. rsubst. apply new_list_sim. exact HS1. }
  destruct (nth 0 args VNone) as [ ? | self | ? | | ? | ? | | ? | ? | ? ? ? | ? | ? ]; cbn [C17_Sim1.rn]; try rs_leaf; try apply Hd.
  destruct (str_eqb n (s "join")).
  { rewrite as_list_rn. destruct (as_list (nth 1 args VNone)) as [sl|]; cbn [option_map]; [|rs_leaf].
    rewrite (list_items_sim _ _ _ _ HS).
    rewrite (mapR_map (fun v => match v with VStr x => Ok x | _ => Err EType end) (fun v => match v with VStr x => Ok x | _ => Err EType end) rn)
      by (intros v _; destruct v; reflexivity).
    apply rsim_same. intros xs _. rs_leaf. }
  destruct (str_eqb n (s "split")).
  { destruct (nth 1 args VNone) as [| sep | | | | | | | | | |]; cbn [C17_Sim1.rn]; try rs_leaf. destruct sep; [rs_leaf|].
    rewrite <- (map_VStr_rn (str_split _ self)) at 2. apply new_list_sim. exact HS. }
  destruct (str_eqb n (s "startswith")). { destruct (nth 1 args VNone); cbn [C17_Sim1.rn]; rs_leaf. }
  destruct (str_eqb n (s "endswith")). { destruct (nth 1 args VNone); cbn [C17_Sim1.rn]; rs_leaf. }
  destruct (str_eqb n (s "upper")). { apply rsim_same. intros r _. rs_leaf. }
  destruct (str_eqb n (s "lower")). { apply rsim_same. intros r _. rs_leaf. }
  rs_leaf.
Qed.

End Ops3.
