(* C22 - the specification side: what `//dir/...` is supposed to expand to, written by path COMPONENTS and
   without reference to the walk (no order, no SkipDir, no string prefixes).  Definitions only. *)
From PlzV Require Import Base.Harness Model.C22.

(* ---------------------------------------------------------------- paths as component lists *)

(* a directory entry name / a component of a clean relative path *)
Definition valid_name (n : str) : bool :=
  negb (str_eqb n []) && negb (str_eqb n (s ".")) && forallb not_slash n.

Fixpoint wf (t : node) : bool :=
  match t with
  | File _ => true
  | Dir cs => forallb (fun nc => valid_name (fst nc) && wf (snd nc)) cs
  end.

Fixpoint intercalate (cs : list str) : str :=        (* strings.Join(cs, "/") *)
  match cs with
  | [] => []
  | [c] => c
  | c :: r => c ++ slash :: intercalate r
  end.

(* the path string of a directory given by its components, relative to the repository root *)
Definition path_str (cs : list str) : str :=
  match cs with [] => s "." | _ => intercalate cs end.

(* the package name of that directory (the repository root is the package "") *)
Definition pkg_name (cs : list str) : str := intercalate cs.

Fixpoint split_slash (p : str) : list str :=          (* strings.Split(p, "/") *)
  match p with
  | [] => [[]]
  | c :: r => if is_slash c then [] :: split_slash r
              else match split_slash r with
                   | [] => [[c]]
                   | h :: t => (c :: h) :: t
                   end
  end.

(* p is a prefix of cs as a list of WHOLE components *)
Fixpoint comps_prefix (p cs : list str) : bool :=
  match p, cs with
  | [], _ => true
  | _ :: _, [] => false
  | x :: p', y :: cs' => str_eqb x y && comps_prefix p' cs'
  end.

Definition last_comp (cs : list str) : option str :=
  match rev cs with [] => None | b :: _ => Some b end.

(* ---------------------------------------------------------------- which directories are excluded *)

(* a blacklist entry names the directory itself (any depth), or - as a path from the repository root, split
   into components - the directory or one of its ancestors *)
Definition blacklisted_comps (cfg : config) (cs : list str) : bool :=
  match last_comp cs with Some b => mem_str b (blacklist cfg) | None => false end
  || existsb (fun e => comps_prefix (split_slash e) cs) (blacklist cfg).

Definition excluded_dir (cfg : config) (cs : list str) : bool :=
  match last_comp cs with
  | Some b => str_eqb b (s "plz-out") || has_prefix b (s ".")       (* the output directory; hidden *)
  | None => false
  end
  || mem_str (path_str cs) (experimental cfg)                        (* a configured experimental dir *)
  || blacklisted_comps cfg cs.

(* ---------------------------------------------------------------- packages *)

(* following a chain of entry names down from a node *)
Inductive at_path : node -> list str -> node -> Prop :=
| at_nil t : at_path t [] t
| at_cons kids n c rest t' : In (n, c) kids -> at_path c rest t' -> at_path (Dir kids) (n :: rest) t'.

Definition has_build_file (cfg : config) (kids : list (str * node)) : Prop :=
  exists b k, In (b, File k) kids /\ is_build_file cfg b = true.

(* the directory reached from `dir` (components `root`, tree `t`) by `chain` is a package that `//dir/...`
   must list: it holds a BUILD file, and no directory from `dir` down to it (both included) is excluded *)
Definition is_package (cfg : config) (root : list str) (t : node) (chain : list str) : Prop :=
  exists kids, at_path t chain (Dir kids) /\ has_build_file cfg kids
               /\ forall pre suf, chain = pre ++ suf -> excluded_dir cfg (root ++ pre) = false.

(* the BUILD file names that FindAllBuildFiles must send for the directory with components `cs` and tree `t`:
   the BUILD files of the directories below it (itself included) that no excluded directory separates from it *)
Definition sent_spec (cfg : config) (cs : list str) (t : node) (f : str) : Prop :=
  exists chain kids b k,
    at_path t chain (Dir kids) /\ In (b, File k) kids /\ is_build_file cfg b = true
    /\ (forall pre suf, chain = pre ++ suf -> excluded_dir cfg (cs ++ pre) = false)
    /\ f = path_str (cs ++ chain ++ [b]).

(* configurations the statement is about: "." is not a directory name one can blacklist *)
Definition cfg_ok (cfg : config) : Prop := ~ In (s ".") (blacklist cfg).

Definition valid_path (cs : list str) : Prop := Forall (fun c => valid_name c = true) cs.

(* ---------------------------------------------------------------- several labels on one command line *)

(* a command-line label at the level of the specification: `//root/...` (root by components, with the
   entries found there) or any other label *)
Inductive starget :=
| SDots (root : list str) (kids : list (str * node))
| SLabel (pkg name : str).

Definition to_target (st : starget) : target :=
  match st with
  | SDots root kids => TDots (path_str root) (Dir kids)
  | SLabel pkg name => TLabel pkg name
  end.

Definition starget_ok (st : starget) : Prop :=
  match st with
  | SDots root kids => valid_path root /\ wf (Dir kids) = true
  | SLabel _ _ => True
  end.

(* the (package, name) pairs one label stands for: `//root/...` = :all of every package under root *)
Definition lists (cfg : config) (st : starget) (l : str * str) : Prop :=
  match st with
  | SDots root kids => snd l = s "all"
                       /\ exists chain, fst l = pkg_name (root ++ chain) /\ is_package cfg root (Dir kids) chain
  | SLabel pkg name => l = (pkg, name)
  end.

(* ---------------------------------------------------------------- completion: containsPackage *)

(* depth-first, order-free reading of containsPackage: the directory is not isExcluded and holds an entry
   named like a BUILD file, or one of its sub-directories does (recursively) *)
Fixpoint cp_spec (cfg : config) (dir : str) (n : node) {struct n} : bool :=
  match n with
  | File _ => false
  | Dir cs => negb (is_excluded cfg dir)
              && (existsb (fun nc => is_build_file cfg (fst nc)) cs
                  || existsb (fun nc => cp_spec cfg (join dir (fst nc)) (snd nc)) cs)
  end.

(* declaratively: some directory below `root` (itself included), reached through directories none of which
   isExcluded holds for, has an entry (of any kind) named like a BUILD file *)
Definition cp_reach (cfg : config) (root : list str) (t : node) : Prop :=
  exists chain kids b c,
    at_path t chain (Dir kids) /\ In (b, c) kids /\ is_build_file cfg b = true
    /\ forall pre suf, chain = pre ++ suf -> is_excluded cfg (path_str (root ++ pre)) = false.
