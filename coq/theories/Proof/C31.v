(* C31 - proofs about the transition system of Model/C31.v.

   Safety (Section Safety): with the per-target lock, EVERY schedule keeps the invariant `Inv`:
   records are truthful, what an invocation has finished is in plz-out with the clean build's content,
   nobody has finished a target that somebody is rebuilding, nothing fails.
   Then: clean-build equations for well-formed repositories, the closed theorems used by Props/C31.v,
   exactly-once, progress, and the counterexample without the lock. *)
From PlzV Require Import Base.Harness Base.StrFacts Model.C31.
From PlzV Require Gen.LockProtocol.
From Coq Require Import Lia.

(* ------------------------------------------------------------------------------------------ *)
(* lists and booleans *)

Lemma mem_In k l : mem k l = true <-> In k l.
Proof.
  unfold mem. rewrite existsb_exists. split.
  - intros [x [Hin Heq]]. apply str_eqb_eq in Heq. subst. exact Hin.
  - intros Hin. exists k. split; [exact Hin | apply str_eqb_refl].
Qed.

Lemma mem_false k l : mem k l = false <-> ~ In k l.
Proof.
  split.
  - intros Hm Hin. apply mem_In in Hin. congruence.
  - intros Hn. destruct (mem k l) eqn:E; [|reflexivity]. apply mem_In in E. contradiction.
Qed.

Lemma existsb_mem_nil l : existsb (fun d => mem d []) l = false.
Proof. induction l as [|x l IH]; cbn; [reflexivity|exact IH]. Qed.

Lemma existsb_false {A} (f : A -> bool) l : existsb f l = false -> forall x, In x l -> f x = false.
Proof.
  intros He x Hin. destruct (f x) eqn:E; [|reflexivity].
  assert (existsb f l = true) by (apply existsb_exists; exists x; auto). congruence.
Qed.

Lemma has_label_eq l t : has_label l t = true <-> t_label t = l.
Proof. unfold has_label. apply str_eqb_eq. Qed.

Lemma has_label_neq l t : has_label l t = false <-> t_label t <> l.
Proof. unfold has_label. apply str_eqb_neq. Qed.

Lemma in_drop l t ts : In t (drop l ts) <-> In t ts /\ t_label t <> l.
Proof.
  unfold drop. rewrite filter_In. rewrite negb_true_iff, has_label_neq. reflexivity.
Qed.

Lemma in_curl_dropc l t c : In t (map fst (dropc l c)) <-> In t (map fst c) /\ t_label t <> l.
Proof.
  unfold dropc. split.
  - intros Hin. apply in_map_iff in Hin. destruct Hin as [tb [<- Hin]]. apply filter_In in Hin.
    destruct Hin as [Hin Hl]. apply negb_true_iff, has_label_neq in Hl. split; [apply in_map; exact Hin|exact Hl].
  - intros [Hin Hl]. apply in_map_iff in Hin. destruct Hin as [tb [<- Hin]]. apply in_map.
    apply filter_In. split; [exact Hin|]. apply negb_true_iff, has_label_neq. exact Hl.
Qed.

Lemma curl_markc l c : map fst (markc l c) = map fst c.
Proof.
  unfold markc. rewrite map_map. apply map_ext. intros tb. destruct (has_label l (fst tb)); reflexivity.
Qed.

Lemma gather_ext (f g : str -> option val) ls : (forall l, In l ls -> f l = g l) -> gather f ls = gather g ls.
Proof.
  induction ls as [|l ls IH]; intros Hx; cbn [gather]; [reflexivity|].
  rewrite (Hx l) by (left; reflexivity). rewrite IH by (intros l' Hl'; apply Hx; right; exact Hl'). reflexivity.
Qed.

(* ------------------------------------------------------------------------------------------ *)

Section Safety.
  Variable key : Type.
  Variable key_eqb : key -> key -> bool.
  Variable H : target -> list val -> key.
  Variable act : target -> list val -> option val.
  Hypothesis key_eqb_ok : forall a b, key_eqb a b = true <-> a = b.
  Hypothesis H_inj : forall t a b, H t a = H t b -> a = b.

  Variable r : list target.                      (* the repository *)
  Variable cv : str -> option val.               (* the outputs of the clean build *)
  Hypothesis labels_inj : forall t t', In t r -> In t' r -> t_label t = t_label t' -> t = t'.
  Hypothesis cv_eq : forall t, In t r ->
    cv (t_label t) = match gather cv (t_deps t) with Some ins => act t ins | None => None end.

  Variable s0 : store key.                       (* plz-out before the invocations start *)
  Variable todo0 : nat -> list target.           (* what invocation i has to build *)
  Hypothesis todo0_ok : forall i t, In t (todo0 i) -> In t r /\ cv (t_label t) <> None.
  Variable n0 : nat.                             (* the number of invocations *)

  Notation stepL := (step key key_eqb H act true).

  (* the outputs of t in s are those of the clean build, with the record of the clean inputs *)
  Definition good (s : store key) (t : target) : Prop :=
    exists cins v, gather cv (t_deps t) = Some cins /\ cv (t_label t) = Some v /\ s (t_label t) = Some (H t cins, v).
  Definition done_ok (s : store key) (l : str) : Prop := exists t, In t r /\ t_label t = l /\ good s t.
  (* Trust: a record found on the outputs tells the truth about them *)
  Definition trust (s : store key) : Prop :=
    forall t k v, In t r -> s (t_label t) = Some (k, v) -> forall ins, H t ins = k -> act t ins = Some v.

  Definition curl (iv : inv) : list target := map fst (i_cur iv).

  Record Inv (st : state key) : Prop := {
    I_n : st_n key st = n0;
    I_trust : trust (st_store key st);
    I_done : forall i l, In l (i_done (st_inv key st i)) -> done_ok (st_store key st) l;
    I_nofail : forall i, i_failed (st_inv key st i) = [];
    I_todo : forall i t, In t (i_todo (st_inv key st i)) -> In t (todo0 i);
    I_cur : forall i t, In t (curl (st_inv key st i)) ->
              In t (todo0 i)
              /\ (forall d, In d (t_deps t) -> In d (i_done (st_inv key st i)))
              /\ (forall j, ~ In (t_label t) (i_done (st_inv key st j)))
              /\ (forall j t', In t' (curl (st_inv key st j)) -> t_label t' = t_label t -> j = i);
    I_out : forall i, st_n key st <= i -> i_cur (st_inv key st i) = [];
    I_cover : forall i t, In t (todo0 i) ->
              In t (i_todo (st_inv key st i)) \/ In t (curl (st_inv key st i)) \/ In (t_label t) (i_done (st_inv key st i));
    I_frame : forall l, (forall i t, In t (todo0 i) -> t_label t <> l) -> st_store key st l = s0 l;
    (* a command that some invocation ran is done there, was run once, and by nobody else *)
    I_ran_done : forall i l, In l (i_ran (st_inv key st i)) -> In l (i_done (st_inv key st i));
    I_ran_once : forall i, NoDup (i_ran (st_inv key st i));
    I_ran_excl : forall i j l, In l (i_ran (st_inv key st i)) -> In l (i_ran (st_inv key st j)) -> i = j;
    (* what is in the shared cache was stored by a correct build (or was there, trusted, at the start) *)
    I_ctrust : cache_trusted key H act r (st_cache key st)
  }.

  (* ---- facts about good / trust ---- *)

  Lemma done_sval s d : done_ok s d -> sval key s d = cv d.
  Proof.
    intros (t & _ & <- & cins & v & _ & Hcv & Hs). unfold sval. rewrite Hs, Hcv. reflexivity.
  Qed.

  Lemma gather_done s ds : (forall d, In d ds -> done_ok s d) -> gather (sval key s) ds = gather cv ds.
  Proof. intros Hd. apply gather_ext. intros l Hl. apply done_sval. apply Hd. exact Hl. Qed.

  Lemma good_uptodate s t : good s t -> (forall d, In d (t_deps t) -> done_ok s d) ->
    needs_build key key_eqb H s t = false.
  Proof.
    intros (cins & v & Hg & Hcv & Hs) Hd. unfold needs_build. rewrite Hs, (gather_done s _ Hd), Hg. cbn [fst].
    replace (key_eqb (H t cins) (H t cins)) with true; [reflexivity|]. symmetry. apply key_eqb_ok. reflexivity.
  Qed.

  Lemma reuse_good s t : trust s -> In t r -> needs_build key key_eqb H s t = false ->
    (forall d, In d (t_deps t) -> done_ok s d) -> good s t.
  Proof.
    intros Htr Hin Hnb Hd. unfold needs_build in Hnb. destruct (s (t_label t)) as [[k v]|] eqn:Hs; [|discriminate].
    rewrite (gather_done s _ Hd) in Hnb. destruct (gather cv (t_deps t)) as [ins|] eqn:Hg; [|discriminate].
    cbn [fst] in Hnb. apply negb_false_iff, key_eqb_ok in Hnb. subst k.
    exists ins, v. split; [exact Hg|]. split; [|exact Hs].
    rewrite (cv_eq t Hin), Hg. apply (Htr t (H t ins) v Hin Hs). reflexivity.
  Qed.

  Lemma good_upd_other s t l x : t_label t <> l -> good s t -> good (upd key s l x) t.
  Proof.
    intros Hne (cins & v & Hg & Hcv & Hs). exists cins, v. split; [exact Hg|]. split; [exact Hcv|].
    unfold upd. apply str_eqb_neq in Hne. rewrite Hne. exact Hs.
  Qed.

  Lemma done_ok_upd_other s l l' x : l' <> l -> done_ok s l' -> done_ok (upd key s l x) l'.
  Proof.
    intros Hne (t & Hin & Hl & Hg). exists t. split; [exact Hin|]. split; [exact Hl|].
    apply good_upd_other; [congruence|exact Hg].
  Qed.

  Lemma trust_upd_none s l : trust s -> trust (upd key s l None).
  Proof.
    intros Htr t k v Hin Hs. unfold upd in Hs. destruct (str_eqb (t_label t) l); [discriminate|].
    apply (Htr t k v Hin Hs).
  Qed.

  Lemma trust_upd_run s t ins v : trust s -> In t r -> act t ins = Some v ->
    trust (upd key s (t_label t) (Some (H t ins, v))).
  Proof.
    intros Htr Hin Ha t' k v' Hin' Hs ins' Hk. unfold upd in Hs.
    destruct (str_eqb_spec (t_label t') (t_label t)) as [Heq|Hne].
    - assert (t' = t) by (apply labels_inj; assumption). subst t'. injection Hs as <- <-.
      apply H_inj in Hk. subst ins'. exact Ha.
    - apply (Htr t' k v' Hin' Hs ins' Hk).
  Qed.

  Lemma ctrust_put oc t ins v : cache_trusted key H act r oc -> In t r -> act t ins = Some v ->
    cache_trusted key H act r (cache_put key key_eqb oc (t_label t) (H t ins) v).
  Proof.
    intros Hc Hin Ha. destruct oc as [c|]; cbn [cache_put cache_trusted] in *; [|exact I].
    intros t' k v' Hin' Hs ins' Hk.
    destruct (str_eqb_spec (t_label t') (t_label t)) as [Heq|Hne]; cbn [andb] in Hs.
    - destruct (key_eqb k (H t ins)) eqn:Ek.
      + assert (t' = t) by (apply labels_inj; assumption). subst t'. injection Hs as <-.
        apply key_eqb_ok in Ek. subst k. apply H_inj in Hk. subst ins'. exact Ha.
      + apply (Hc t' k v' Hin' Hs ins' Hk).
    - apply (Hc t' k v' Hin' Hs ins' Hk).
  Qed.

  Lemma upd_same s l x : upd key s l x l = x.
  Proof. unfold upd. rewrite str_eqb_refl. reflexivity. Qed.
  Lemma upd_other s l x l' : l' <> l -> upd key s l x l' = s l'.
  Proof. intros Hne. unfold upd. apply str_eqb_neq in Hne. rewrite Hne. reflexivity. Qed.

  Lemma inv_at st s i iv j :
    st_inv key (set_both key st s i iv) j = if Nat.eqb j i then iv else st_inv key st j.
  Proof. reflexivity. Qed.

  Lemma not_locked st l : (forall i, st_n key st <= i -> i_cur (st_inv key st i) = []) ->
    locked key st l = false -> forall j t', In t' (curl (st_inv key st j)) -> t_label t' <> l.
  Proof.
    intros Hout Hlk j t' Hin. unfold curl in Hin. destruct (Nat.lt_ge_cases j (st_n key st)) as [Hlt|Hge].
    - unfold locked in Hlk. assert (Hh : holds (st_inv key st j) l = false).
      { apply (existsb_false _ _ Hlk). apply in_seq. lia. }
      unfold holds in Hh. apply in_map_iff in Hin. destruct Hin as [tb [<- Hin]].
      apply has_label_neq. apply (existsb_false _ _ Hh tb Hin).
    - rewrite (Hout j Hge) in Hin. destruct Hin.
  Qed.

  (* ---- Begin ---- *)
  Lemma begin_inv st i l st' : Inv st -> i < st_n key st ->
    step_begin key key_eqb H true st i l = Some st' -> Inv st'.
  Proof.
    intros HI Hi Hs. unfold step_begin in Hs.
    destruct (find (has_label l) (i_todo (st_inv key st i))) as [t|] eqn:Hf; [|discriminate].
    apply find_some in Hf. destruct Hf as [Htodo Hl]. apply has_label_eq in Hl.
    destruct (forallb _ (t_deps t)) eqn:Hdeps; cbn [negb] in Hs; [|discriminate].
    rewrite (I_nofail st HI i) in Hs, Hdeps. rewrite existsb_mem_nil in Hs. cbn [andb] in Hs.
    assert (Hdd : forall d, In d (t_deps t) -> In d (i_done (st_inv key st i))).
    { intros d Hd. rewrite forallb_forall in Hdeps. specialize (Hdeps d Hd).
      change (mem d []) with false in Hdeps. rewrite orb_false_r in Hdeps. apply mem_In. exact Hdeps. }
    assert (Hdone : forall d, In d (t_deps t) -> done_ok (st_store key st) d).
    { intros d Hd. apply (I_done st HI i). apply Hdd. exact Hd. }
    assert (Ht0 : In t (todo0 i)) by (apply (I_todo st HI); exact Htodo).
    assert (HtR : In t r) by (apply (todo0_ok i t Ht0)).
    assert (Hcov : forall t0, In t0 (todo0 i) -> In t0 (i_todo (st_inv key st i)) ->
                     t0 = t \/ In t0 (drop l (i_todo (st_inv key st i)))).
    { intros t0 H0 Ha. destruct (str_eqb_spec (t_label t0) l) as [He|Hne].
      - left. apply labels_inj; [apply (todo0_ok i t0 H0)|exact HtR|congruence].
      - right. apply in_drop. split; assumption. }
    destruct (locked key st (t_label t)) eqn:Hlk; [discriminate|].
    pose proof (not_locked st (t_label t) (I_out st HI) Hlk) as Hfree.
    destruct (needs_build key key_eqb H (st_store key st) t) eqn:Hnb; injection Hs as Hs; subst st'; unfold set_inv;
      match goal with |- Inv (set_both _ _ _ _ ?x) => set (iv' := x) end.
    - (* the command will run: t is in flight *)
      assert (Hd_same : forall j', i_done (st_inv key (set_both key st (st_store key st) i iv') j') = i_done (st_inv key st j')).
      { intros j'. rewrite inv_at. destruct (Nat.eqb_spec j' i) as [->|?]; reflexivity. }
      assert (Hr_same : forall j', i_ran (st_inv key (set_both key st (st_store key st) i iv') j') = i_ran (st_inv key st j')).
      { intros j'. rewrite inv_at. destruct (Nat.eqb_spec j' i) as [->|?]; reflexivity. }
      assert (Hnew : forall j' t', In t' (curl (st_inv key (set_both key st (st_store key st) i iv') j')) ->
                     (j' = i /\ t' = t) \/ In t' (curl (st_inv key st j'))).
      { intros j' t' Hin'. unfold curl in *. rewrite inv_at in Hin'. destruct (Nat.eqb_spec j' i) as [->|?]; [|right; exact Hin'].
        cbn [iv' i_cur map fst] in Hin'. destruct Hin' as [<-|Hin']; [left; split; reflexivity|right; exact Hin']. }
      constructor.
      + exact (I_n st HI).
      + exact (I_trust st HI).
      + intros j l0 Hin. rewrite Hd_same in Hin. apply (I_done st HI j). exact Hin.
      + intros j. rewrite inv_at. destruct (Nat.eqb_spec j i) as [->|?]; [reflexivity|apply (I_nofail st HI)].
      + intros j t0 Hin. rewrite inv_at in Hin. destruct (Nat.eqb_spec j i) as [->|?]; [|apply (I_todo st HI); exact Hin].
        cbn [iv' i_todo] in Hin. apply in_drop in Hin. apply (I_todo st HI). apply Hin.
      + intros j t0 Hin. destruct (Hnew j t0 Hin) as [[-> ->]|Hin0].
        * split; [exact Ht0|]. split; [intros d Hd; rewrite Hd_same; apply Hdd; exact Hd|]. split.
          -- intros j Hj. rewrite Hd_same in Hj. destruct (I_done st HI j _ Hj) as (t1 & Hin1 & Hl1 & Hg1).
             assert (t1 = t) by (apply labels_inj; assumption). subst t1.
             rewrite (good_uptodate _ _ Hg1 Hdone) in Hnb. discriminate.
          -- intros j t' Hin' Hlab. destruct (Hnew j t' Hin') as [[-> _]|Hin'']; [reflexivity|].
             exfalso. apply (Hfree j t' Hin'' Hlab).
        * destruct (I_cur st HI j t0 Hin0) as (A & B & C & D). split; [exact A|].
          split; [intros d Hd; rewrite Hd_same; apply B; exact Hd|]. split.
          -- intros j0 Hj. rewrite Hd_same in Hj. apply (C j0 Hj).
          -- intros j0 t' Hin' Hlab. destruct (Hnew j0 t' Hin') as [[-> ->]|Hin'']; [|apply (D j0 t' Hin'' Hlab)].
             exfalso. apply (Hfree j t0 Hin0). symmetry. exact Hlab.
      + intros j Hj. cbn [st_n set_both set_all] in Hj. rewrite inv_at. destruct (Nat.eqb_spec j i) as [->|?]; [lia|].
        apply (I_out st HI). exact Hj.
      + intros j t0 Hin0. unfold curl. rewrite inv_at. destruct (Nat.eqb_spec j i) as [->|?]; [|apply (I_cover st HI); exact Hin0].
        cbn [iv' i_todo i_cur i_done map fst]. destruct (I_cover st HI i t0 Hin0) as [Ha|[Hb|Hc]].
        * destruct (Hcov t0 Hin0 Ha) as [->|Hd]; [right; left; left; reflexivity|left; exact Hd].
        * right. left. right. exact Hb.
        * right. right. exact Hc.
      + intros l0 Hl0. exact (I_frame st HI l0 Hl0).
      + intros j l0 Hin. rewrite Hr_same in Hin. rewrite Hd_same. apply (I_ran_done st HI). exact Hin.
      + intros j. rewrite Hr_same. apply (I_ran_once st HI).
      + intros j j' l0 H1 H2. rewrite Hr_same in H1, H2. apply (I_ran_excl st HI j j' l0 H1 H2).
      + exact (I_ctrust st HI).
    - (* up to date: reused, nothing is written *)
      assert (Hgood : good (st_store key st) t).
      { apply reuse_good; [exact (I_trust st HI)|exact HtR|exact Hnb|exact Hdone]. }
      assert (Hc_same : forall j', curl (st_inv key (set_both key st (st_store key st) i iv') j') = curl (st_inv key st j')).
      { intros j'. unfold curl. rewrite inv_at. destruct (Nat.eqb_spec j' i) as [->|?]; reflexivity. }
      assert (Hr_same : forall j', i_ran (st_inv key (set_both key st (st_store key st) i iv') j') = i_ran (st_inv key st j')).
      { intros j'. rewrite inv_at. destruct (Nat.eqb_spec j' i) as [->|?]; reflexivity. }
      assert (Hd_new : forall j' l0, In l0 (i_done (st_inv key (set_both key st (st_store key st) i iv') j')) ->
                         (j' = i /\ l0 = t_label t) \/ In l0 (i_done (st_inv key st j'))).
      { intros j' l0 Hin. rewrite inv_at in Hin. destruct (Nat.eqb_spec j' i) as [->|?]; [|right; exact Hin].
        cbn [iv' i_done] in Hin. destruct Hin as [<-|Hin]; [left; split; reflexivity|right; exact Hin]. }
      assert (Hd_mono : forall j' l0, In l0 (i_done (st_inv key st j')) ->
                          In l0 (i_done (st_inv key (set_both key st (st_store key st) i iv') j'))).
      { intros j' l0 Hin. rewrite inv_at. destruct (Nat.eqb_spec j' i) as [->|?]; [right; exact Hin|exact Hin]. }
      constructor.
      + exact (I_n st HI).
      + exact (I_trust st HI).
      + intros j l0 Hin. destruct (Hd_new j l0 Hin) as [[-> ->]|Hin0]; [|apply (I_done st HI j); exact Hin0].
        exists t. split; [exact HtR|]. split; [reflexivity|exact Hgood].
      + intros j. rewrite inv_at. destruct (Nat.eqb_spec j i) as [->|?]; [reflexivity|apply (I_nofail st HI)].
      + intros j t0 Hin. rewrite inv_at in Hin. destruct (Nat.eqb_spec j i) as [->|?]; [|apply (I_todo st HI); exact Hin].
        cbn [iv' i_todo] in Hin. apply in_drop in Hin. apply (I_todo st HI). apply Hin.
      + intros j t0 Hin. rewrite Hc_same in Hin. destruct (I_cur st HI j t0 Hin) as (A & B & C & D). split; [exact A|].
        split; [intros d Hd; apply Hd_mono; apply B; exact Hd|]. split.
        * intros j0 Hj. destruct (Hd_new j0 _ Hj) as [[-> He]|Hj0]; [|apply (C j0 Hj0)].
          apply (Hfree j t0 Hin). exact He.
        * intros j0 t' Hin' Hlab. rewrite Hc_same in Hin'. apply (D j0 t' Hin' Hlab).
      + intros j Hj. cbn [st_n set_both set_all] in Hj. rewrite inv_at. destruct (Nat.eqb_spec j i) as [->|?]; [lia|].
        apply (I_out st HI). exact Hj.
      + intros j t0 Hin0. rewrite Hc_same. destruct (I_cover st HI j t0 Hin0) as [Ha|[Hb|Hc]].
        * rewrite inv_at. destruct (Nat.eqb_spec j i) as [->|?]; [|left; exact Ha].
          cbn [iv' i_todo i_done]. destruct (Hcov t0 Hin0 Ha) as [->|Hd]; [right; right; left; reflexivity|left; exact Hd].
        * right. left. exact Hb.
        * right. right. apply Hd_mono. exact Hc.
      + intros l0 Hl0. exact (I_frame st HI l0 Hl0).
      + intros j l0 Hin. rewrite Hr_same in Hin. apply Hd_mono. apply (I_ran_done st HI). exact Hin.
      + intros j. rewrite Hr_same. apply (I_ran_once st HI).
      + intros j j' l0 H1 H2. rewrite Hr_same in H1, H2. apply (I_ran_excl st HI j j' l0 H1 H2).
      + exact (I_ctrust st HI).
  Qed.

  (* ---- Move ---- *)
  Lemma move_inv st i l st' : Inv st -> i < st_n key st -> step_move key st i l = Some st' -> Inv st'.
  Proof.
    intros HI Hi Hs. unfold step_move in Hs. cbv zeta in Hs.
    destruct (find _ (i_cur (st_inv key st i))) as [tb|] eqn:Hf; [|discriminate].
    apply find_some in Hf. destruct Hf as [Hcur Hl]. apply andb_prop in Hl. destruct Hl as [Hl _]. apply has_label_eq in Hl.
    injection Hs as Hs; subst st'. set (t := fst tb) in *.
    assert (Hint : In t (curl (st_inv key st i))) by (unfold curl, t; apply in_map; exact Hcur).
    destruct (I_cur st HI i t Hint) as (A & B & C & D).
    match goal with |- Inv (set_both _ _ ?y _ ?x) => set (iv' := x); set (s' := y) end.
    assert (Hc_same : forall j', curl (st_inv key (set_both key st s' i iv') j') = curl (st_inv key st j')).
    { intros j'. unfold curl. rewrite inv_at. destruct (Nat.eqb_spec j' i) as [->|?]; [|reflexivity].
      cbn [iv' i_cur]. apply curl_markc. }
    assert (Hd_same : forall j', i_done (st_inv key (set_both key st s' i iv') j') = i_done (st_inv key st j')).
    { intros j'. rewrite inv_at. destruct (Nat.eqb_spec j' i) as [->|?]; reflexivity. }
    assert (Hr_same : forall j', i_ran (st_inv key (set_both key st s' i iv') j') = i_ran (st_inv key st j')).
    { intros j'. rewrite inv_at. destruct (Nat.eqb_spec j' i) as [->|?]; reflexivity. }
    assert (Ht_same : forall j', i_todo (st_inv key (set_both key st s' i iv') j') = i_todo (st_inv key st j')).
    { intros j'. rewrite inv_at. destruct (Nat.eqb_spec j' i) as [->|?]; reflexivity. }
    constructor.
    + exact (I_n st HI).
    + apply trust_upd_none. exact (I_trust st HI).
    + intros j l0 Hin. rewrite Hd_same in Hin. cbn [st_store set_both set_all]. apply done_ok_upd_other.
      * intros ->. apply (C j Hin).
      * apply (I_done st HI j). exact Hin.
    + intros j. rewrite inv_at. destruct (Nat.eqb_spec j i) as [->|?]; apply (I_nofail st HI).
    + intros j t0 Hin. rewrite Ht_same in Hin. apply (I_todo st HI). exact Hin.
    + intros j t0 Hin. rewrite Hc_same in Hin. destruct (I_cur st HI j t0 Hin) as (A' & B' & C' & D'). split; [exact A'|].
      split; [intros d Hd; rewrite Hd_same; apply B'; exact Hd|]. split.
      * intros j0 Hj. rewrite Hd_same in Hj. apply (C' j0 Hj).
      * intros j0 t' Hin' Hlab. rewrite Hc_same in Hin'. apply (D' j0 t' Hin' Hlab).
    + intros j Hj. cbn [st_n set_both set_all] in Hj. rewrite inv_at. destruct (Nat.eqb_spec j i) as [->|?]; [lia|].
      apply (I_out st HI). exact Hj.
    + intros j t0 Hin0. rewrite Hc_same, Hd_same, Ht_same. apply (I_cover st HI). exact Hin0.
    + intros l0 Hl0. cbn [st_store set_both set_all]. unfold s'. rewrite upd_other; [apply (I_frame st HI); exact Hl0|].
      intros He. apply (Hl0 i t A). symmetry. exact He.
    + intros j l0 Hin. rewrite Hr_same in Hin. rewrite Hd_same. apply (I_ran_done st HI). exact Hin.
    + intros j. rewrite Hr_same. apply (I_ran_once st HI).
    + intros j j' l0 H1 H2. rewrite Hr_same in H1, H2. apply (I_ran_excl st HI j j' l0 H1 H2).
    + exact (I_ctrust st HI).
  Qed.

  (* ---- End ---- *)
  (* the common part of the two successful ways a target build ends: the command ran (b = true; the
     result may also have been stored in the cache) or its outputs were retrieved from the cache *)
  Lemma end_core st i l tb cins v oc' (b : bool) : Inv st -> i < st_n key st ->
    find (fun tb => has_label l (fst tb) && snd tb) (i_cur (st_inv key st i)) = Some tb ->
    gather cv (t_deps (fst tb)) = Some cins -> act (fst tb) cins = Some v ->
    cache_trusted key H act r oc' ->
    Inv (set_all key st (upd key (st_store key st) (t_label (fst tb)) (Some (H (fst tb) cins, v))) oc' i
                 (mkI (i_todo (st_inv key st i)) (dropc l (i_cur (st_inv key st i)))
                      (t_label (fst tb) :: i_done (st_inv key st i)) (i_failed (st_inv key st i))
                      (if b then t_label (fst tb) :: i_ran (st_inv key st i) else i_ran (st_inv key st i)))).
  Proof.
    intros HI Hi Hf Hg Ha Hoc.
    apply find_some in Hf. destruct Hf as [Hcur Hl]. apply andb_prop in Hl. destruct Hl as [Hl _]. apply has_label_eq in Hl.
    set (t := fst tb) in *.
    assert (Hint : In t (curl (st_inv key st i))) by (unfold curl, t; apply in_map; exact Hcur).
    destruct (I_cur st HI i t Hint) as (A & B & C & D).
    assert (HtR : In t r) by (apply (todo0_ok i t A)).
    pose proof (cv_eq t HtR) as Hcv. rewrite Hg, Ha in Hcv.
    match goal with |- Inv (set_all _ _ ?y _ _ ?x) => set (iv' := x); set (s' := y) end.
    assert (Hgood : good s' t).
    { exists cins, v. split; [exact Hg|]. split; [exact Hcv|]. unfold s'. apply upd_same. }
    assert (Hat : forall j, st_inv key (set_all key st s' oc' i iv') j = if Nat.eqb j i then iv' else st_inv key st j) by reflexivity.
    assert (Hc_new : forall j' t', In t' (curl (st_inv key (set_all key st s' oc' i iv') j')) ->
                       In t' (curl (st_inv key st j')) /\ (j' = i -> t_label t' <> l)).
    { intros j' t' Hin. unfold curl in *. rewrite Hat in Hin. destruct (Nat.eqb_spec j' i) as [->|Hne].
      - cbn [iv' i_cur] in Hin. apply in_curl_dropc in Hin. destruct Hin as [Hin Hne]. split; [exact Hin|intros _; exact Hne].
      - split; [exact Hin|intros He; contradiction]. }
    assert (Hc_keep : forall j' t', In t' (curl (st_inv key st j')) -> (j' <> i \/ t_label t' <> l) ->
                       In t' (curl (st_inv key (set_all key st s' oc' i iv') j'))).
    { intros j' t' Hin Hor. unfold curl in *. rewrite Hat. destruct (Nat.eqb_spec j' i) as [->|Hne]; [|exact Hin].
      cbn [iv' i_cur]. apply in_curl_dropc. split; [exact Hin|]. destruct Hor as [Hor|Hor]; [contradiction|exact Hor]. }
    assert (Hd_new : forall j' l0, In l0 (i_done (st_inv key (set_all key st s' oc' i iv') j')) ->
                       (j' = i /\ l0 = t_label t) \/ In l0 (i_done (st_inv key st j'))).
    { intros j' l0 Hin. rewrite Hat in Hin. destruct (Nat.eqb_spec j' i) as [->|?]; [|right; exact Hin].
      cbn [iv' i_done] in Hin. destruct Hin as [<-|Hin]; [left; split; reflexivity|right; exact Hin]. }
    assert (Hd_mono : forall j' l0, In l0 (i_done (st_inv key st j')) ->
                        In l0 (i_done (st_inv key (set_all key st s' oc' i iv') j'))).
    { intros j' l0 Hin. rewrite Hat. destruct (Nat.eqb_spec j' i) as [->|?]; [right; exact Hin|exact Hin]. }
    assert (Hr_new : forall j' l0, In l0 (i_ran (st_inv key (set_all key st s' oc' i iv') j')) ->
                       (j' = i /\ l0 = t_label t /\ b = true) \/ In l0 (i_ran (st_inv key st j'))).
    { intros j' l0 Hin. rewrite Hat in Hin. destruct (Nat.eqb_spec j' i) as [->|?]; [|right; exact Hin].
      cbn [iv' i_ran] in Hin. destruct b; [|right; exact Hin].
      destruct Hin as [<-|Hin]; [left; repeat split; reflexivity|right; exact Hin]. }
    assert (Hfresh : forall j', ~ In (t_label t) (i_ran (st_inv key st j'))).
    { intros j' Hin. apply (C j'). apply (I_ran_done st HI). exact Hin. }
    constructor.
    + exact (I_n st HI).
    + cbn [st_store set_all]. unfold s'. apply trust_upd_run; [exact (I_trust st HI)|exact HtR|exact Ha].
    + intros j l0 Hin. cbn [st_store set_all]. destruct (Hd_new j l0 Hin) as [[-> ->]|Hin0].
      * exists t. split; [exact HtR|]. split; [reflexivity|exact Hgood].
      * unfold s'. apply done_ok_upd_other; [|apply (I_done st HI j); exact Hin0].
        intros ->. apply (C j Hin0).
    + intros j. rewrite Hat. destruct (Nat.eqb_spec j i) as [->|?]; apply (I_nofail st HI).
    + intros j t0 Hin. rewrite Hat in Hin. destruct (Nat.eqb_spec j i) as [->|?]; apply (I_todo st HI); exact Hin.
    + intros j t0 Hin. destruct (Hc_new j t0 Hin) as [Hin0 Hne]. destruct (I_cur st HI j t0 Hin0) as (A' & B' & C' & D').
      split; [exact A'|]. split; [intros d Hd; apply Hd_mono; apply B'; exact Hd|]. split.
      * intros j0 Hj. destruct (Hd_new j0 _ Hj) as [[-> He]|Hj0]; [|apply (C' j0 Hj0)].
        pose proof (D' i t Hint (eq_sym He)) as Hij. subst j. apply (Hne eq_refl). congruence.
      * intros j0 t' Hin' Hlab. destruct (Hc_new j0 t' Hin') as [Hin'' _]. apply (D' j0 t' Hin'' Hlab).
    + intros j Hj. cbn [st_n set_all] in Hj. rewrite Hat. destruct (Nat.eqb_spec j i) as [->|?]; [lia|].
      apply (I_out st HI). exact Hj.
    + intros j t0 Hin0. destruct (I_cover st HI j t0 Hin0) as [Ha0|[Hb|Hc]].
      * left. rewrite Hat. destruct (Nat.eqb_spec j i) as [->|?]; exact Ha0.
      * destruct (Nat.eq_dec j i) as [->|Hne].
        -- destruct (str_eqb_spec (t_label t0) l) as [He|Hne'].
           ++ right. right. rewrite Hat, Nat.eqb_refl. cbn [iv' i_done]. left. congruence.
           ++ right. left. apply Hc_keep; [exact Hb|right; exact Hne'].
        -- right. left. apply Hc_keep; [exact Hb|left; exact Hne].
      * right. right. apply Hd_mono. exact Hc.
    + intros l0 Hl0. cbn [st_store set_all]. unfold s'. rewrite upd_other; [apply (I_frame st HI); exact Hl0|].
      intros He. apply (Hl0 i t A). symmetry. exact He.
    + intros j l0 Hin. destruct (Hr_new j l0 Hin) as [(-> & -> & _)|Hin0].
      * rewrite Hat, Nat.eqb_refl. cbn [iv' i_done]. left. reflexivity.
      * apply Hd_mono. apply (I_ran_done st HI). exact Hin0.
    + intros j. rewrite Hat. destruct (Nat.eqb_spec j i) as [->|?]; [|apply (I_ran_once st HI)].
      cbn [iv' i_ran]. destruct b; [|apply (I_ran_once st HI)]. constructor; [apply Hfresh|apply (I_ran_once st HI)].
    + intros j j' l0 H1 H2. destruct (Hr_new j l0 H1) as [(-> & E1 & _)|H1'], (Hr_new j' l0 H2) as [(-> & E2 & _)|H2'].
      * reflexivity.
      * exfalso. apply (Hfresh j'). rewrite <- E1. exact H2'.
      * exfalso. apply (Hfresh j). rewrite <- E2. exact H1'.
      * apply (I_ran_excl st HI j j' l0 H1' H2').
    + exact Hoc.
  Qed.

  Lemma end_inv st i l st' : Inv st -> i < st_n key st -> step_end key key_eqb H act st i l = Some st' -> Inv st'.
  Proof.
    intros HI Hi Hs. unfold step_end in Hs. cbv zeta in Hs.
    destruct (find _ (i_cur (st_inv key st i))) as [tb|] eqn:Hf; [|discriminate].
    pose proof Hf as Hf'.
    apply find_some in Hf. destruct Hf as [Hcur Hl]. apply andb_prop in Hl. destruct Hl as [Hl _]. apply has_label_eq in Hl.
    assert (Hint : In (fst tb) (curl (st_inv key st i))) by (unfold curl; apply in_map; exact Hcur).
    destruct (I_cur st HI i (fst tb) Hint) as (A & B & C & D).
    assert (HtR : In (fst tb) r) by (apply (todo0_ok i _ A)).
    assert (Hcvn : cv (t_label (fst tb)) <> None) by (apply (todo0_ok i _ A)).
    assert (Hdone : forall d, In d (t_deps (fst tb)) -> done_ok (st_store key st) d).
    { intros d Hd. apply (I_done st HI i). apply B. exact Hd. }
    rewrite (gather_done _ _ Hdone) in Hs. pose proof (cv_eq _ HtR) as Hcv.
    destruct (gather cv (t_deps (fst tb))) as [cins|] eqn:Hg; [|exfalso; apply Hcvn; exact Hcv].
    destruct (act (fst tb) cins) as [v|] eqn:Ha; [|exfalso; apply Hcvn; exact Hcv].
    destruct (if cacheable (fst tb) then cache_get key (st_cache key st) (t_label (fst tb)) (H (fst tb) cins) else None)
      as [v'|] eqn:Hhit.
    - (* retrieved from the cache: by I_ctrust it is what the command would have produced *)
      assert (v' = v).
      { destruct (cacheable (fst tb)); [|discriminate]. pose proof (I_ctrust st HI) as Hct.
        destruct (st_cache key st) as [c|]; cbn [cache_get] in Hhit; [|discriminate]. cbn [cache_trusted] in Hct.
        pose proof (Hct _ _ _ HtR Hhit cins eq_refl) as Hx. congruence. }
      subst v'. injection Hs as Hs; subst st'.
      exact (end_core st i l tb cins v (st_cache key st) false HI Hi Hf' Hg Ha (I_ctrust st HI)).
    - injection Hs as Hs; subst st'.
      apply (end_core st i l tb cins v _ true HI Hi Hf' Hg Ha).
      destruct (cacheable (fst tb)); [|exact (I_ctrust st HI)].
      apply ctrust_put; [exact (I_ctrust st HI)|exact HtR|exact Ha].
  Qed.

  Lemma step_inv st e st' : Inv st -> stepL st e = Some st' -> Inv st'.
  Proof.
    intros HI Hs. destruct e as [i l|i l|i l]; cbn [step] in Hs;
      destruct (Nat.ltb_spec i (st_n key st)) as [Hi|Hi]; try discriminate.
    - apply (begin_inv st i l st' HI Hi Hs).
    - apply (move_inv st i l st' HI Hi Hs).
    - apply (end_inv st i l st' HI Hi Hs).
  Qed.

  Lemma apply_inv st e : Inv st -> Inv (apply key key_eqb H act true st e).
  Proof. intros HI. unfold apply. destruct (stepL st e) as [st'|] eqn:Hs; [apply (step_inv st e st' HI Hs)|exact HI]. Qed.

  Lemma run_inv sched : forall st, Inv st -> Inv (run key key_eqb H act true sched st).
  Proof.
    induction sched as [|e sched IH]; intros st HI; [exact HI|].
    change (Inv (run key key_eqb H act true sched (apply key key_eqb H act true st e))). apply IH. apply apply_inv. exact HI.
  Qed.

  Lemma init_inv todos oc : trust s0 -> cache_trusted key H act r oc -> n0 = length todos ->
    (forall i, todo0 i = nth i todos []) -> Inv (init_c key s0 oc todos).
  Proof.
    intros Htr Hoc Hn Htd. constructor; cbn [init_c st_n st_store st_inv st_cache i_todo i_cur i_done i_failed i_ran].
    - symmetry. exact Hn.
    - exact Htr.
    - intros i l [].
    - reflexivity.
    - intros i t Hin. rewrite Htd. exact Hin.
    - intros i t [].
    - reflexivity.
    - intros i t Hin. left. rewrite <- Htd. exact Hin.
    - reflexivity.
    - intros i l [].
    - intros i. constructor.
    - intros i j l [].
    - exact Hoc.
  Qed.

  (* what the invariant gives when every process has exited *)
  Lemma inv_all_ok st : Inv st -> all_ok key st = true.
  Proof.
    intros HI. unfold all_ok. apply forallb_forall. intros i _. unfold inv_ok. rewrite (I_nofail st HI i). reflexivity.
  Qed.

  Lemma inv_finished_clean st : Inv st -> finished key st = true -> forall i t, i < n0 -> In t (todo0 i) ->
    sval key (st_store key st) (t_label t) = cv (t_label t).
  Proof.
    intros HI Hf i t Hi Hin. unfold finished in Hf. rewrite forallb_forall in Hf.
    assert (Hfi : inv_finished (st_inv key st i) = true).
    { apply Hf. apply in_seq. rewrite (I_n st HI). lia. }
    unfold inv_finished in Hfi.
    destruct (i_todo (st_inv key st i)) eqn:E1; [|discriminate].
    destruct (i_cur (st_inv key st i)) eqn:E2; [|discriminate].
    destruct (I_cover st HI i t Hin) as [Ha|[Hb|Hc]].
    - rewrite E1 in Ha. destruct Ha.
    - unfold curl in Hb. rewrite E2 in Hb. destruct Hb.
    - apply done_sval. apply (I_done st HI i). exact Hc.
  Qed.
End Safety.

(* ------------------------------------------------------------------------------------------ *)
(* the clean build of a well-formed repository satisfies the clean-build equations *)

Lemma nodup_str_NoDup l : nodup_str l = true -> NoDup l.
Proof.
  induction l as [|x l IH]; cbn [nodup_str]; intros Hn; [constructor|].
  apply andb_prop in Hn. destruct Hn as [H1 H2]. constructor.
  - apply negb_true_iff in H1. apply mem_false in H1. exact H1.
  - apply IH. exact H2.
Qed.

Lemma NoDup_map_inj {A B} (f : A -> B) l : NoDup (map f l) -> forall a b, In a l -> In b l -> f a = f b -> a = b.
Proof.
  induction l as [|x l IH]; intros Hnd a b Ha Hb Hf; [destruct Ha|].
  cbn [map] in Hnd. inversion Hnd as [|y ys Hnin Hnd']. subst.
  destruct Ha as [->|Ha], Hb as [->|Hb].
  - reflexivity.
  - exfalso. apply Hnin. rewrite Hf. apply in_map. exact Hb.
  - exfalso. apply Hnin. rewrite <- Hf. apply in_map. exact Ha.
  - apply IH; assumption.
Qed.

Lemma topo_spec ts : forall seen, topo seen ts = true -> forall pre t post, ts = pre ++ t :: post ->
  forall d, In d (t_deps t) -> In d seen \/ In d (map t_label pre).
Proof.
  induction ts as [|t0 rest IH]; intros seen Ht pre t post Heq d Hd.
  - destruct pre; discriminate.
  - cbn [topo] in Ht. apply andb_prop in Ht. destruct Ht as [H1 H2]. destruct pre as [|p pre].
    + cbn [app] in Heq. injection Heq as -> ->. left. rewrite forallb_forall in H1. apply mem_In. apply H1. exact Hd.
    + cbn [app] in Heq. injection Heq as -> ->. destruct (IH _ H2 pre t post eq_refl d Hd) as [[<-|Hs]|Hp].
      * right. left. reflexivity.
      * left. exact Hs.
      * right. right. exact Hp.
Qed.

Section Clean.
  Variable act : target -> list val -> option val.
  Notation F := (fold_left (clean_step act)).

  Lemma clean_step_other cv t l : l <> t_label t -> clean_step act cv t l = cv l.
  Proof. intros Hne. unfold clean_step. apply str_eqb_neq in Hne. rewrite Hne. reflexivity. Qed.

  Lemma clean_step_same cv t :
    clean_step act cv t (t_label t) = match gather cv (t_deps t) with Some ins => act t ins | None => None end.
  Proof. unfold clean_step. rewrite str_eqb_refl. reflexivity. Qed.

  Lemma fold_clean_other ts : forall cv l, ~ In l (map t_label ts) -> F ts cv l = cv l.
  Proof.
    induction ts as [|t ts IH]; intros cv l Hn; [reflexivity|]. cbn [fold_left].
    rewrite IH by (intros Hi; apply Hn; right; exact Hi).
    apply clean_step_other. intros ->. apply Hn. left. reflexivity.
  Qed.

  Lemma cleanv_eq r : wf_repo r = true -> forall t, In t r ->
    cleanv act r (t_label t) = match gather (cleanv act r) (t_deps t) with Some ins => act t ins | None => None end.
  Proof.
    intros Hwf t Hin. unfold wf_repo in Hwf. apply andb_prop in Hwf. destruct Hwf as [Hnd Htopo].
    apply nodup_str_NoDup in Hnd. apply in_split in Hin. destruct Hin as (pre & post & ->).
    rewrite map_app in Hnd. cbn [map] in Hnd.
    assert (Hpost : forall l, In l (map t_label pre) \/ l = t_label t -> ~ In l (map t_label post)).
    { intros l Hl Hp. apply NoDup_remove in Hnd. destruct Hnd as [Hnd Hnt]. destruct Hl as [Hl| ->].
      - revert Hnd Hl Hp. generalize (map t_label pre) (map t_label post). intros a b Hnd Hl Hp.
        induction a as [|x a IHa]; [destruct Hl|]. cbn [app] in Hnd. inversion Hnd as [|y ys Hx Hnd']. subst.
        destruct Hl as [->|Hl]; [apply Hx; apply in_or_app; right; exact Hp|apply IHa; assumption].
      - apply Hnt. apply in_or_app. right. exact Hp. }
    assert (Hpre : ~ In (t_label t) (map t_label pre)).
    { apply NoDup_remove_2 in Hnd. intros Hp. apply Hnd. apply in_or_app. left. exact Hp. }
    assert (Hval : forall l, In l (map t_label pre) \/ l = t_label t ->
                     cleanv act (pre ++ t :: post) l = clean_step act (F pre (fun _ => None)) t l).
    { intros l Hl. unfold cleanv. rewrite fold_left_app. cbn [fold_left]. apply fold_clean_other. apply Hpost. exact Hl. }
    rewrite (Hval (t_label t)) by (right; reflexivity). rewrite clean_step_same.
    rewrite (gather_ext (cleanv act (pre ++ t :: post)) (F pre (fun _ => None)) (t_deps t)); [reflexivity|].
    intros d Hd. destruct (topo_spec _ _ Htopo pre t post eq_refl d Hd) as [[]|Hp].
    rewrite (Hval d) by (left; exact Hp). apply clean_step_other. intros ->. apply Hpre. exact Hp.
  Qed.
End Clean.

(* ------------------------------------------------------------------------------------------ *)
(* the closed theorems *)

Lemma forallb_false_ex {A} (f : A -> bool) l : forallb f l = false -> exists x, In x l /\ f x = false.
Proof.
  induction l as [|a l IH]; cbn [forallb]; intros Hf; [discriminate|].
  destruct (f a) eqn:Ea.
  - destruct (IH Hf) as (x & Hin & Hx). exists x. split; [right; exact Hin|exact Hx].
  - exists a. split; [left; reflexivity|exact Ea].
Qed.

Lemma first_with (P : target -> bool) : forall ts, (exists x, In x ts /\ P x = true) ->
  exists pre t post, ts = pre ++ t :: post /\ P t = true /\ forall y, In y pre -> P y = false.
Proof.
  induction ts as [|a ts IH]; intros (x & Hin & Hp); [destruct Hin|].
  destruct (P a) eqn:Ea.
  - exists [], a, ts. split; [reflexivity|]. split; [exact Ea|]. intros y [].
  - destruct Hin as [->|Hin]; [congruence|].
    destruct (IH (ex_intro _ x (conj Hin Hp))) as (pre & t & post & -> & Ht & Hpre).
    exists (a :: pre), t, post. split; [reflexivity|]. split; [exact Ht|].
    intros y [<-|Hy]; [exact Ea|apply Hpre; exact Hy].
Qed.

(* a request list contains the dependencies of its targets (what `plan` computes) *)
Definition deps_closed (ts : list target) : Prop :=
  forall t d, In t ts -> In d (t_deps t) -> exists td, In td ts /\ t_label td = d.

Section Closed.
  Variable key : Type.
  Variable key_eqb : key -> key -> bool.
  Variable H : target -> list val -> key.
  Variable act : target -> list val -> option val.
  Hypothesis key_eqb_ok : forall a b, key_eqb a b = true <-> a = b.
  Hypothesis H_inj : forall t a b, H t a = H t b -> a = b.
  Variable r : list target.
  Hypothesis Hwf : wf_repo r = true.
  Variable s0 : store key.
  Hypothesis Htr : trusted key H act r s0.

  Lemma wf_labels_inj : forall t t', In t r -> In t' r -> t_label t = t_label t' -> t = t'.
  Proof.
    unfold wf_repo in Hwf. apply andb_prop in Hwf. destruct Hwf as [Hnd _]. apply nodup_str_NoDup in Hnd.
    intros t t' Ht Ht' Hl. apply (NoDup_map_inj t_label r Hnd t t' Ht Ht' Hl).
  Qed.

  Lemma todo0_of todos : requests_ok act r todos ->
    forall i t, In t (nth i todos []) -> In t r /\ cleanv act r (t_label t) <> None.
  Proof.
    intros Hreq i t Hin. destruct (nth_in_or_default i todos []) as [Hi|Hd].
    - apply (Hreq _ t Hi Hin).
    - rewrite Hd in Hin. destruct Hin.
  Qed.

  Lemma reach_inv todos oc sched : cache_trusted key H act r oc -> requests_ok act r todos ->
    Inv key H act r (cleanv act r) s0 (fun i => nth i todos []) (length todos)
        (run key key_eqb H act true sched (init_c key s0 oc todos)).
  Proof.
    intros Hoc Hreq.
    apply (run_inv key key_eqb H act key_eqb_ok H_inj r (cleanv act r) wf_labels_inj (cleanv_eq act r Hwf)
                   s0 (fun i => nth i todos []) (todo0_of todos Hreq) (length todos) sched).
    apply init_inv; [exact Htr|exact Hoc|reflexivity|reflexivity].
  Qed.

  (* SAFETY, every schedule: nobody ever fails; when all have exited every requested target carries
     the clean build's outputs; nothing else in plz-out has been touched *)
  Theorem c31_safety todos oc sched : cache_trusted key H act r oc -> requests_ok act r todos ->
    let st := run key key_eqb H act true sched (init_c key s0 oc todos) in
    all_ok key st = true
    /\ (finished key st = true -> forall ts t, In ts todos -> In t ts ->
          sval key (st_store key st) (t_label t) = cleanv act r (t_label t))
    /\ (forall l, (forall ts t, In ts todos -> In t ts -> t_label t <> l) -> st_store key st l = s0 l).
  Proof.
    intros Hoc Hreq st. pose proof (reach_inv todos oc sched Hoc Hreq) as HI. fold st in HI. split; [|split].
    - apply (inv_all_ok _ _ _ _ _ _ _ _ _ HI).
    - intros Hf ts t Hts Hin. destruct (In_nth todos ts [] Hts) as (i & Hi & Hnth).
      apply (inv_finished_clean _ _ _ _ _ _ _ _ _ HI Hf i t Hi). cbv beta. rewrite Hnth. exact Hin.
    - intros l Hl. apply (I_frame _ _ _ _ _ _ _ _ _ HI). intros i t Hin. cbv beta in Hin.
      destruct (nth_in_or_default i todos []) as [Hi|Hd]; [apply (Hl _ t Hi Hin)|rewrite Hd in Hin; destruct Hin].
  Qed.

  (* the same plz-out as ONE process building the union, whatever the two schedules *)
  Theorem c31_same_as_single todos single oc oc1 sched sched1 :
    cache_trusted key H act r oc -> cache_trusted key H act r oc1 ->
    requests_ok act r todos -> requests_ok act r [single] ->
    (forall l, In l (map t_label (concat todos)) <-> In l (map t_label single)) ->
    let st := run key key_eqb H act true sched (init_c key s0 oc todos) in
    let st1 := run key key_eqb H act true sched1 (init_c key s0 oc1 [single]) in
    finished key st = true -> finished key st1 = true ->
    all_ok key st = true /\ all_ok key st1 = true
    /\ forall l, sval key (st_store key st) l = sval key (st_store key st1) l.
  Proof.
    intros Hoc Hoc1 Hreq Hreq1 Hun st st1 Hf Hf1.
    destruct (c31_safety todos oc sched Hoc Hreq) as (Hok & Hcl & Hfr).
    destruct (c31_safety [single] oc1 sched1 Hoc1 Hreq1) as (Hok1 & Hcl1 & Hfr1).
    fold st in Hok, Hcl, Hfr. fold st1 in Hok1, Hcl1, Hfr1.
    split; [exact Hok|]. split; [exact Hok1|]. intros l.
    destruct (in_dec (list_eq_dec N.eq_dec) l (map t_label (concat todos))) as [Hin|Hnin].
    - pose proof (proj1 (Hun l) Hin) as Hin1.
      apply in_map_iff in Hin. destruct Hin as (t & <- & Hin). apply in_concat in Hin. destruct Hin as (ts & Hts & Hint).
      apply in_map_iff in Hin1. destruct Hin1 as (t1 & Hl1 & Hin1).
      transitivity (cleanv act r (t_label t)); [apply (Hcl Hf ts t Hts Hint)|].
      rewrite <- Hl1. symmetry. apply (Hcl1 Hf1 single t1 (or_introl eq_refl) Hin1).
    - assert (Hnin1 : ~ In l (map t_label single)) by (intros Hx; apply Hnin; apply Hun; exact Hx).
      assert (E : st_store key st l = s0 l).
      { apply Hfr. intros ts t Hts Hint <-. apply Hnin. apply in_map. apply in_concat. exists ts. split; assumption. }
      assert (E1 : st_store key st1 l = s0 l).
      { apply Hfr1. intros ts t [<-|[]] Hint <-. apply Hnin1. apply in_map. exact Hint. }
      unfold sval. rewrite E, E1. reflexivity.
  Qed.
  (* no command runs twice: not in one process, not in two *)
  Theorem c31_at_most_once todos oc sched : cache_trusted key H act r oc -> requests_ok act r todos ->
    let st := run key key_eqb H act true sched (init_c key s0 oc todos) in
    (forall i, NoDup (i_ran (st_inv key st i)))
    /\ (forall i j l, In l (i_ran (st_inv key st i)) -> In l (i_ran (st_inv key st j)) -> i = j).
  Proof.
    intros Hoc Hreq st. pose proof (reach_inv todos oc sched Hoc Hreq) as HI. fold st in HI. split.
    - apply (I_ran_once _ _ _ _ _ _ _ _ _ HI).
    - apply (I_ran_excl _ _ _ _ _ _ _ _ _ HI).
  Qed.
  (* PROGRESS: no deadlock.  In every reachable state in which some process has not exited, some
     event is enabled (a lock is held across one target build only, and that build needs no other lock) *)
  Theorem c31_no_deadlock todos oc sched : cache_trusted key H act r oc ->
    requests_ok act r todos -> (forall ts, In ts todos -> deps_closed ts) ->
    let st := run key key_eqb H act true sched (init_c key s0 oc todos) in
    finished key st = false -> exists e, step key key_eqb H act true st e <> None.
  Proof.
    intros Hoc Hreq Hcl st Hnf. pose proof (reach_inv todos oc sched Hoc Hreq) as HI. fold st in HI.
    pose proof (I_n _ _ _ _ _ _ _ _ _ HI) as Hn.
    destruct (existsb (fun i => match i_cur (st_inv key st i) with [] => false | _ => true end) (seq 0 (st_n key st))) eqn:Hex.
    - apply existsb_exists in Hex. destruct Hex as (i & Hi & Hc). apply in_seq in Hi.
      assert (Hlt : Nat.ltb i (st_n key st) = true) by (apply Nat.ltb_lt; lia).
      destruct (i_cur (st_inv key st i)) as [|[t b] rest] eqn:Ecur; [discriminate|]. destruct b.
      + exists (End i (t_label t)). cbn [step]. rewrite Hlt. unfold step_end. cbv zeta. rewrite Ecur. cbn [find fst snd].
        unfold has_label at 1. rewrite str_eqb_refl. cbn [andb fst].
        destruct (gather _ _); [|discriminate].
        destruct (if cacheable t then _ else _); [discriminate|]. destruct (act _ _); discriminate.
      + exists (Move i (t_label t)). cbn [step]. rewrite Hlt. unfold step_move. cbv zeta. rewrite Ecur. cbn [find fst snd].
        unfold has_label at 1. rewrite str_eqb_refl. cbn [andb negb]. discriminate.
    - assert (Hnocur : forall j, i_cur (st_inv key st j) = []).
      { intros j. destruct (Nat.lt_ge_cases j (st_n key st)) as [Hj|Hj]; [|apply (I_out _ _ _ _ _ _ _ _ _ HI); exact Hj].
        assert (Hin : In j (seq 0 (st_n key st))) by (apply in_seq; lia).
        pose proof (existsb_false _ _ Hex j Hin) as Hx. cbv beta in Hx.
        destruct (i_cur (st_inv key st j)); [reflexivity|discriminate]. }
      unfold finished in Hnf. apply forallb_false_ex in Hnf. destruct Hnf as (i & Hi & Hfi). apply in_seq in Hi.
      assert (Hlt : Nat.ltb i (st_n key st) = true) by (apply Nat.ltb_lt; lia).
      unfold inv_finished in Hfi. rewrite (Hnocur i) in Hfi.
      destruct (i_todo (st_inv key st i)) as [|a todo'] eqn:Etodo; [discriminate|]. clear Hfi.
      assert (Htodo_r : forall x, In x (i_todo (st_inv key st i)) -> In x r).
      { intros x Hx. apply (todo0_of todos Hreq i x). apply (I_todo _ _ _ _ _ _ _ _ _ HI i x Hx). }
      set (P := fun x : target => mem (t_label x) (map t_label (i_todo (st_inv key st i)))).
      destruct (first_with P r) as (pre & t & post & Hr & HPt & Hpre).
      { exists a. split; [apply Htodo_r; rewrite Etodo; left; reflexivity|].
        unfold P. apply mem_In. apply in_map. rewrite Etodo. left. reflexivity. }
      assert (HtR : In t r) by (rewrite Hr; apply in_or_app; right; left; reflexivity).
      assert (Htodo : In t (i_todo (st_inv key st i))).
      { unfold P in HPt. apply mem_In in HPt. apply in_map_iff in HPt. destruct HPt as (t' & Hl' & Hin').
        assert (t' = t) by (apply wf_labels_inj; [apply Htodo_r; exact Hin'|exact HtR|exact Hl']). subst t'. exact Hin'. }
      assert (Ht0 : In t (nth i todos [])) by (apply (I_todo _ _ _ _ _ _ _ _ _ HI i t Htodo)).
      assert (Hts : In (nth i todos []) todos) by (apply nth_In; lia).
      exists (Begin i (t_label t)). cbn [step]. rewrite Hlt. unfold step_begin. cbv zeta.
      destruct (find (has_label (t_label t)) (i_todo (st_inv key st i))) as [t'|] eqn:Hf.
      2: { exfalso. pose proof (find_none _ _ Hf t Htodo) as Hx. unfold has_label in Hx. rewrite str_eqb_refl in Hx. discriminate. }
      apply find_some in Hf. destruct Hf as [Hin' Hl']. apply has_label_eq in Hl'.
      assert (t' = t) by (apply wf_labels_inj; [apply Htodo_r; exact Hin'|exact HtR|exact Hl']). subst t'.
      assert (Hdeps : forallb (fun d => mem d (i_done (st_inv key st i)) || mem d (i_failed (st_inv key st i))) (t_deps t) = true).
      { apply forallb_forall. intros d Hd. apply orb_true_iff. left. apply mem_In.
        destruct (Hcl _ Hts t d Ht0 Hd) as (td & Htd & Hld).
        destruct (I_cover _ _ _ _ _ _ _ _ _ HI i td Htd) as [Ha|[Hb|Hc]].
        - exfalso. pose proof Hwf as Hwf'. unfold wf_repo in Hwf'. apply andb_prop in Hwf'. destruct Hwf' as [_ Htopo].
          destruct (topo_spec _ _ Htopo pre t post Hr d Hd) as [[]|Hp].
          apply in_map_iff in Hp. destruct Hp as (y & Hly & Hy). pose proof (Hpre y Hy) as HPy. unfold P in HPy.
          apply mem_false in HPy. apply HPy. rewrite Hly, <- Hld. apply in_map. exact Ha.
        - unfold curl in Hb. rewrite Hnocur in Hb. destruct Hb.
        - rewrite Hld in Hc. exact Hc. }
      rewrite Hdeps. cbn [negb]. rewrite (I_nofail _ _ _ _ _ _ _ _ _ HI i). rewrite existsb_mem_nil. cbn [andb].
      assert (Hlk : locked key st (t_label t) = false).
      { unfold locked. apply not_true_is_false. intros E.
        apply existsb_exists in E. destruct E as (j & _ & Hh). unfold holds in Hh. rewrite Hnocur in Hh. discriminate. }
      rewrite Hlk. destruct (needs_build key key_eqb H (st_store key st) t); discriminate.
  Qed.
End Closed.

(* ------------------------------------------------------------------------------------------ *)
(* the instance of the correspondence check satisfies the hypotheses (non-vacuity) *)

Lemma pair_eqb_spec a b : reflect (a = b) (pair_eqb a b).
Proof.
  destruct a as [a1 a2], b as [b1 b2]. unfold pair_eqb. cbn [fst snd].
  destruct (str_eqb_spec a1 b1) as [->|Hne]; cbn [andb].
  - destruct (str_eqb_spec a2 b2) as [->|Hne]; constructor; congruence.
  - constructor; congruence.
Qed.

Lemma ckey_eqb_ok a b : ckey_eqb a b = true <-> a = b.
Proof.
  symmetry. apply reflect_iff. unfold ckey_eqb, val_eqb.
  apply list_eqb_spec. apply list_eqb_spec. exact pair_eqb_spec.
Qed.

Lemma cH_inj (t : target) (a b : list val) : cH t a = cH t b -> a = b.
Proof. intros E. exact E. Qed.

Lemma trusted_empty key H act r : trusted key H act r (empty_store key).
Proof. intros t k v _ Hs. discriminate. Qed.

(* ------------------------------------------------------------------------------------------ *)
(* the lock is needed: the same system without the flock has a schedule on which a process fails.
   Two processes build b (which reads a).  Both start a; process 0 finishes a and starts b; then
   process 1 replaces a's outputs while b's command of process 0 reads them. *)

Definition ex_a : target := mkT (s "//p:a") (KConst (s "x")) [] [s "a.out"].
Definition ex_b : target := mkT (s "//p:b") KConcat [SDep (s "//p:a")] [s "b.out"].
Definition ex_repo : list target := [ex_a; ex_b].
Definition ex_sched : list ev :=
  [Begin 0 (s "//p:a"); Begin 1 (s "//p:a"); Move 0 (s "//p:a"); End 0 (s "//p:a");
   Begin 0 (s "//p:b"); Move 1 (s "//p:a"); Move 0 (s "//p:b"); End 0 (s "//p:b");
   End 1 (s "//p:a"); Begin 1 (s "//p:b"); Move 1 (s "//p:b"); End 1 (s "//p:b")].
Definition ex_run (lock : bool) : cstate :=
  run ckey ckey_eqb cH act_cmd lock ex_sched (cinit (empty_store ckey) [ex_repo; ex_repo]).

Lemma unlocked_fails : finished ckey (ex_run false) = true /\ all_ok ckey (ex_run false) = false.
Proof. vm_compute. split; reflexivity. Qed.

(* with the lock the same list of events is harmless (Begin 1 a is blocked, process 1 catches up later) *)
Lemma locked_same_schedule_ok : all_ok ckey (ex_run true) = true.
Proof. vm_compute. reflexivity. Qed.

(* ------------------------------------------------------------------------------------------ *)
(* the property statement of Props/C31.v *)

Lemma c31_full_proof :
  forall (key : Type) (key_eqb : key -> key -> bool) (H : target -> list val -> key)
         (act : target -> list val -> option val),
    (forall a b, key_eqb a b = true <-> a = b) ->
    (forall t a b, H t a = H t b -> a = b) ->
  forall r : list target, wf_repo r = true ->
  forall s0 : store key, trusted key H act r s0 ->
  forall oc : option (cache key), cache_trusted key H act r oc ->
  forall todos : list (list target), requests_ok act r todos ->
  forall sched : list ev,
    let st := run key key_eqb H act true sched (init_c key s0 oc todos) in
    all_ok key st = true
    /\ (finished key st = true -> forall ts t, In ts todos -> In t ts ->
          sval key (st_store key st) (t_label t) = cleanv act r (t_label t))
    /\ (forall l, (forall ts t, In ts todos -> In t ts -> t_label t <> l) -> st_store key st l = s0 l)
    /\ (forall single oc1 sched1, cache_trusted key H act r oc1 -> requests_ok act r [single] ->
          (forall l, In l (map t_label (concat todos)) <-> In l (map t_label single)) ->
          let st1 := run key key_eqb H act true sched1 (init_c key s0 oc1 [single]) in
          finished key st = true -> finished key st1 = true ->
          all_ok key st1 = true /\ forall l, sval key (st_store key st) l = sval key (st_store key st1) l).
Proof.
  intros key key_eqb H act Hk Hinj r Hwf s0 Htr oc Hoc todos Hreq sched st.
  destruct (c31_safety key key_eqb H act Hk Hinj r Hwf s0 Htr todos oc sched Hoc Hreq) as (Hok & Hcl & Hfr).
  split; [exact Hok|]. split; [exact Hcl|]. split; [exact Hfr|].
  intros single oc1 sched1 Hoc1 Hreq1 Hun st1 Hf Hf1.
  destruct (c31_same_as_single key key_eqb H act Hk Hinj r Hwf s0 Htr todos single oc oc1 sched sched1 Hoc Hoc1 Hreq Hreq1 Hun Hf Hf1)
    as (_ & Hok1 & Heq).
  split; [exact Hok1|exact Heq].
Qed.

(* a locked schedule of the two-process example that runs to completion *)
Definition ex_sched_locked : list ev :=
  [Begin 0 (s "//p:a"); Begin 1 (s "//p:a"); Move 0 (s "//p:a"); End 0 (s "//p:a");
   Begin 1 (s "//p:a"); Begin 1 (s "//p:b"); Begin 0 (s "//p:b"); Move 1 (s "//p:b"); End 1 (s "//p:b");
   Begin 0 (s "//p:b")].
Definition ex_done : cstate :=
  run ckey ckey_eqb cH act_cmd true ex_sched_locked (cinit (empty_store ckey) [ex_repo; ex_repo]).

Lemma ex_requests_ok : requests_ok act_cmd ex_repo [ex_repo; ex_repo].
Proof.
  intros ts t Hts Hin. assert (Hr : In t ex_repo) by (destruct Hts as [<-|[<-|[]]]; exact Hin).
  split; [exact Hr|]. destruct Hr as [<-|[<-|[]]]; vm_compute; discriminate.
Qed.

Lemma ex_nonvacuous :
  wf_repo ex_repo = true
  /\ finished ckey ex_done = true /\ all_ok ckey ex_done = true
  /\ sval ckey (st_store ckey ex_done) (s "//p:b") = Some [(s "b.out", s "x" ++ nl)]
  /\ i_ran (st_inv ckey ex_done 0) = [s "//p:a"] /\ i_ran (st_inv ckey ex_done 1) = [s "//p:b"].
Proof. vm_compute. repeat split; reflexivity. Qed.

(* ------------------------------------------------------------------------------------------ *)
(* the events of the model against the source (Gen/LockProtocol.v is regenerated by gotrans from
   build_step.go, lock.go, please.go, build_target.go on every run):
   - the target lock is the FIRST watched call of buildTarget's local branch, on target.BuildLockFile(),
     released only by the defer (held until buildTarget returns), never taken or released again;
   - needsBuilding is asked under it (Begin); the command runs before moveOutputs (Move); the record
     is written after moveOutputs (End);
   - the lock is an exclusive flock and the caller BLOCKS until it gets it;
   - an ordinary invocation takes the repo lock in SHARED mode only (invocations are not serialised). *)

Definition str_in (x : String.string) (l : list String.string) : bool := existsb (String.eqb x) l.
Fixpoint after_call (x : String.string) (l : list String.string) : list String.string :=
  match l with
  | [] => []
  | y :: rest => if String.eqb x y then rest else after_call x rest
  end.

Local Open Scope string_scope.
Definition protocol_ok : bool :=
  match LockProtocol.build_calls with
  | a :: b :: rest =>
      String.eqb a "AcquireExclusiveFileLock" && String.eqb b "defer ReleaseFileLock"
      && negb (str_in "AcquireExclusiveFileLock" rest) && negb (str_in "ReleaseFileLock" rest)
      && negb (str_in "defer ReleaseFileLock" rest)
      && str_in "needsBuilding" rest
      && str_in "moveOutputs" (after_call "build" rest)
      && str_in "calculateAndCheckRuleHash" (after_call "moveOutputs" rest)
      (* the shared cache: looked at under the lock after needsBuilding and before the command runs (End
         with a hit), filled after the record is written (End after a run) *)
      && str_in "retrieveArtifacts" (after_call "needsBuilding" rest)
      && str_in "build" (after_call "retrieveArtifacts" rest)
      && str_in "storeInCache" (after_call "calculateAndCheckRuleHash" (after_call "moveOutputs" rest))
  | _ => false
  end
  (* filegroupBuilder.Build: the in-process mutex is its only guard (no file lock of its own), the output
     is compared, then removed, then re-created - not replaced atomically (Model/C31.v SharedDir) *)
  && list_eqb String.eqb LockProtocol.filegroup_build_calls
       ["Lock"; "defer Unlock"; "isSameFileContent"; "RemoveAll"; "EnsureDir"; "RecursiveCopyOrLinkFile"]
  && String.eqb LockProtocol.target_lock_arg "target.BuildLockFile()"
  && String.eqb LockProtocol.target_lock_file "target.TmpDir() + lockFileSuffix"
  && String.eqb LockProtocol.target_lock_mode "syscall.LOCK_EX"
  && list_eqb String.eqb LockProtocol.open_then_lock ["openLockFile"; "acquireFileLock"]
  && str_in "how" LockProtocol.flock_modes
  && String.eqb LockProtocol.shared_repo_lock_mode "syscall.LOCK_SH"
  && list_eqb String.eqb LockProtocol.run_please_repo_locks ["AcquireSharedRepoLock"].

Local Close Scope string_scope.

Lemma lock_protocol_ok : protocol_ok = true.
Proof. vm_compute. reflexivity. Qed.

Lemma ex_deps_closed : forall ts, In ts [ex_repo; ex_repo] -> deps_closed ts.
Proof.
  intros ts Hts t d Hin Hd. assert (ts = ex_repo) by (destruct Hts as [<-|[<-|[]]]; reflexivity). subst ts.
  destruct Hin as [<-|[<-|[]]]; cbn in Hd.
  - destruct Hd.
  - destruct Hd as [<-|[]]. exists ex_a. split; [left; reflexivity|reflexivity].
Qed.

Lemma cache_trusted_empty key H act r : cache_trusted key H act r (Some (empty_cache key)).
Proof. intros t k v _ Hs. discriminate. Qed.

(* the shared cache at work: a first build of a and b with an empty cache, plz-out wiped, then two
   processes building both again under the scheduler of the correspondence check *)
Definition ex_warm : cstate :=
  cdrive [] 20 (cinit_c (empty_store ckey) (Some (empty_cache ckey)) [ex_repo]).
Definition ex_cached : cstate :=
  cdrive [3%N; 1%N; 4%N; 1%N; 5%N] 40 (cinit_c (empty_store ckey) (st_cache ckey ex_warm) [ex_repo; ex_repo]).

Lemma ex_cache_nonvacuous :
  finished ckey ex_cached = true /\ all_ok ckey ex_cached = true
  /\ sval ckey (st_store ckey ex_cached) (s "//p:b") = Some [(s "b.out", s "x" ++ nl)]
  /\ i_ran (st_inv ckey ex_cached 0) = [] /\ i_ran (st_inv ckey ex_cached 1) = []
  /\ i_ran (st_inv ckey ex_warm 0) = [s "//p:b"; s "//p:a"].
Proof. vm_compute. repeat split; reflexivity. Qed.

(* ------------------------------------------------------------------------------------------ *)
(* two targets writing the same path: the path-level model of two directory filegroups in two processes
   (Model/C31.v, SharedDir).  n = 1 file, the output directory exists from an earlier build with old content.

   dw_silent: process 0 removes the old directory (check, snap, rm, end of names, rmdir); process 1 checks
   now - nothing there, so it will replace; process 0 links the file and is done with its filegroup;
   process 1 reads the names (the file process 0 just linked) and unlinks it; process 0's genrule reads
   the directory: EMPTY.  Process 1 goes on (rmdir, link, read) and sees the complete directory.  Both
   processes succeed; the output of process 0's genrule was computed from an empty directory. *)
Definition dw_silent : list bool :=
  [false; false; false; false; false; true; false; false; true; true; false; true; true; true; true; true].
Lemma dir_silent_witness :
  let st := drun false 1 dw_silent (dinit 1 true) in
  dfinished st = true /\ d_p0 st = PDone (Some []) /\ d_p1 st = PDone (Some (complete 1)) /\ dsafe 1 st = false.
Proof. vm_compute. repeat split; reflexivity. Qed.

(* dw_fail: process 0 has emptied the directory; process 1 checks, reads the (no) names; process 0 removes
   the directory, links the file, its genrule reads the complete directory; process 1 now removes the
   directory itself: not empty - its build of the filegroup FAILS ("unlinkat ...: directory not empty") *)
Definition dw_fail : list bool :=
  [false; false; false; false; true; true; false; false; false; false; true; true].
Lemma dir_fail_witness :
  let st := drun false 1 dw_fail (dinit 1 true) in
  d_p0 st = PDone (Some (complete 1)) /\ d_p1 st = PFail.
Proof. vm_compute. split; reflexivity. Qed.

(* the control: with ONE lock (both processes build the same filegroup) the exhaustive exploration of all
   interleavings finds nothing, from a stale and from an empty plz-out (n = 2, 3: a computation, not a
   theorem for all n); without it it does, also from an empty plz-out *)
Lemma dir_same_lock_explored :
  dexplore true 2 24 (dinit 2 true) = true /\ dexplore true 2 24 (dinit 2 false) = true
  /\ dexplore true 3 32 (dinit 3 true) = true /\ dexplore true 3 32 (dinit 3 false) = true
  /\ dexplore false 2 24 (dinit 2 true) = false /\ dexplore false 2 24 (dinit 2 false) = false.
Proof. vm_compute. repeat split; reflexivity. Qed.

(* the classifier: the repository of the examples has no shared path; two filegroups of one package with
   a common source file have *)
Definition ex_fg (label : str) : target :=
  mkT label KFilegroup [SFile (s "a.txt") (s "x")] [s "a.txt"].
Lemma ex_classes :
  shared_output_class ex_repo = None
  /\ shared_output_class [ex_fg (s "//p:fga"); ex_a; ex_fg (s "//p:fgb")] = Some (s "two-targets-write-the-same-output-path")
  /\ shared_output_class [ex_fg (s "//p:fga"); ex_fg (s "//q:fgb")] = None.
Proof. vm_compute. repeat split; reflexivity. Qed.

Lemma shared_dir_refuted :
  ~ (forall (n : nat) (stale : bool) (sched : list bool), dsafe n (drun false n sched (dinit n stale)) = true).
Proof.
  intros Hd. specialize (Hd 1 true dw_silent).
  destruct dir_silent_witness as (_ & _ & _ & Hbad). cbv zeta in Hbad. rewrite Hd in Hbad. discriminate.
Qed.
