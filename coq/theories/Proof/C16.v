(* C16 - refutation witnesses (computed on the model; each one is replayed on the real interpreter and on
   python3 by the harness) and the lemmas behind C16_partial. *)
From Coq Require Import Lia.
From PlzV Require Import Base.Harness Gen.AspTables Model.C16_Syntax Model.C16_Ops Model.C16_Prim Model.C16_Eval Model.C16.
From PlzV Require Import Proof.C16_Ops Proof.C16_Int.
Local Open Scope Z_scope.

Definition plain_same (a b : list (str * obs)) : bool := kvobs_eqb obs_plain_eqb (drop_funcs a) (drop_funcs b).

(* the property, for one interpreter run with a given fuel *)
Definition agrees_with_python (fuel : nat) (p : prog) : Prop :=
  forall after final, run Asp [] fuel [p] = [OGlobals after final] ->
    exists pafter pfinal, run Py [] fuel [p] = [OGlobals pafter pfinal] /\ plain_same final pfinal = true.

Definition sub_label : str := s "//defs:d".
Definition sub_call : stmt := SCall (s "subinclude") [(None, Ex (XStr sub_label) [] None)].

(* values and functions imported from a subincluded file behave as if the file's text stood in the BUILD file *)
Definition imported_agrees_with_python (fuel : nat) (defs p : prog) : Prop :=
  forall after final, run Asp [(sub_label, defs)] fuel [sub_call :: p] = [OGlobals after final] ->
    exists pafter pfinal, run Py [] fuel [defs ++ p] = [OGlobals pafter pfinal] /\ plain_same final pfinal = true.

(* executable form of a counterexample *)
Definition differs (fuel : nat) (defs : list (str * prog)) (b p : prog) : bool :=
  match run Asp defs fuel [b] with
  | [OGlobals _ final] =>
      match run Py [] fuel [p] with
      | [OGlobals _ pfinal] => negb (plain_same final pfinal)
      | _ => true
      end
  | _ => false
  end.

Lemma differs_refutes : forall fuel p, differs fuel [] p p = true -> ~ agrees_with_python fuel p.
Proof.
  intros fuel p H Hagree. unfold differs in H.
  match type of H with (match ?t with _ => _ end) = true => remember t as r eqn:Ha end.
  destruct r as [|o r']; [discriminate H|]. destruct o as [| |after final]; try discriminate H.
  destruct r'; [|discriminate H]. symmetry in Ha.
  destruct (Hagree after final Ha) as (pa & pf & Hpy & Hsame).
  match type of H with (match ?t with _ => _ end) = true => replace t with [OGlobals pa pf] in H by (symmetry; exact Hpy) end.
  cbv iota beta in H. rewrite Hsame in H. discriminate.
Qed.

Lemma differs_refutes_imported : forall fuel defs p,
  differs fuel [(sub_label, defs)] (sub_call :: p) (defs ++ p) = true -> ~ imported_agrees_with_python fuel defs p.
Proof.
  intros fuel defs p H Hagree. unfold differs in H.
  match type of H with (match ?t with _ => _ end) = true => remember t as r eqn:Ha end.
  destruct r as [|o r']; [discriminate H|]. destruct o as [| |after final]; try discriminate H.
  destruct r'; [|discriminate H]. symmetry in Ha.
  destruct (Hagree after final Ha) as (pa & pf & Hpy & Hsame).
  match type of H with (match ?t with _ => _ end) = true => replace t with [OGlobals pa pf] in H by (symmetry; exact Hpy) end.
  cbv iota beta in H. rewrite Hsame in H. discriminate.
Qed.

(* ---- the witnesses ---- *)
Definition lit (z : Z) : expr := Ex (XInt z) [] None.
Definition ints (l : list Z) : vexpr := XList (map lit l).
Definition assign1 (e : expr) : prog := [SAssign (s "a") e].

(* a = 10 - 2 * 3 - 1      asp 5, CPython 3 *)
Definition w_rest := assign1 (Ex (XInt 10) [OBin Sub (XInt 2); OBin Mul (XInt 3); OBin Sub (XInt 1)] None).
(* a = 0 and 1 == 1 or 5    asp 0, CPython 5 *)
Definition w_lazy := assign1 (Ex (XInt 0) [OBin And (XInt 1); OBin C16_Syntax.Eq (XInt 1); OBin Or (XInt 5)] None).
(* a = not 1 == 2 or 1      asp False, CPython True *)
Definition w_not := assign1 (Ex (XInt 1) [OUn Not; OBin C16_Syntax.Eq (XInt 2); OBin Or (XInt 1)] None).
(* a = 2 * - 3 + 10         asp 14, CPython 4 *)
Definition w_neg := assign1 (Ex (XInt 2) [OBin Mul (XInt 3); OUn Neg; OBin Add (XInt 10)] None).
(* a = 1 < 2 == True        asp True, CPython False (chained) *)
Definition w_cmp := assign1 (Ex (XInt 1) [OBin C16_Syntax.Lt (XInt 2); OBin C16_Syntax.Eq XTrue] None).
(* a = -7 % 3               asp -1, CPython 2 *)
Definition w_mod := assign1 (Ex (XInt (-7)) [OBin Mod (XInt 3)] None).
(* a = 7 / 2                asp 3, CPython 3.5 *)
Definition w_div := assign1 (Ex (XInt 7) [OBin Div (XInt 2)] None).
(* a = 1 // 0               asp -2^63, CPython raises *)
Definition w_floordiv0 := assign1 (Ex (XInt 1) [OBin FloorDiv (XInt 0)] None).
(* a = 900000000000000000 * 11    asp wraps around *)
Definition w_overflow := assign1 (Ex (XInt 900000000000000000) [OBin Mul (XInt 11)] None).
(* a = 1 == True            asp False (reflect.DeepEqual), CPython True *)
Definition w_eq := assign1 (Ex (XInt 1) [OBin C16_Syntax.Eq XTrue] None).
(* a = str([1, 2])          asp "[1 2]", CPython "[1, 2]" *)
Definition w_str := assign1 (Ex (XCall (s "str") [(None, Ex (ints [1; 2]) [] None)]) [] None).
(* a = [x for x in [1, 2, 3] if x < 3]; b = a + [3]; c = a + [4]      asp b == [1, 2, 4] BEFORE /repo 7aeabfa (+ wrote into
   the spare capacity of a's array); since then b == [1, 2, 3]: kept as a regression example, see append_fixed below *)
Definition w_append : prog :=
  [SAssign (s "a") (Ex (XComp (Ex (XIdent (s "x")) [] None) [s "x"] (Ex (ints [1; 2; 3]) [] None)
                              (Some (Ex (XIdent (s "x")) [OBin C16_Syntax.Lt (XInt 3)] None))) [] None);
   SAssign (s "b") (Ex (XIdent (s "a")) [OBin Add (ints [3])] None);
   SAssign (s "c") (Ex (XIdent (s "a")) [OBin Add (ints [4])] None)].
(* m = [1, 2, 3]; n = m[0:2]; n[0] = 7      asp m == [7, 2, 3] *)
Definition w_slice : prog :=
  [SAssign (s "m") (Ex (ints [1; 2; 3]) [] None);
   SAssign (s "n") (Ex (XSlice (XIdent (s "m")) (Some (lit 0)) (Some (lit 2))) [] None);
   SIdxAssign (s "n") (lit 0) (lit 7)].
(* a = [1]; b = a; b += [2]     asp a == [1], CPython a == [1, 2] *)
Definition w_aug : prog :=
  [SAssign (s "a") (Ex (ints [1]) [] None); SAssign (s "b") (Ex (XIdent (s "a")) [] None); SAug (s "b") (Ex (ints [2]) [] None)].
(* y = 1; def f(q=y): return q; y = 2; z = f()      asp 2, CPython 1 *)
Definition w_default : prog :=
  [SAssign (s "y") (lit 1); SDef (s "f") [(s "q", Some (Ex (XIdent (s "y")) [] None))] [SReturn (Some (Ex (XIdent (s "q")) [] None))];
   SAssign (s "y") (lit 2); SAssign (s "z") (Ex (XCall (s "f") []) [] None)].
(* subincluded:  def f(): return [1, 2, 3]      BUILD:  a = f(); a[0] = 9; b = f()       asp b == [9, 2, 3] *)
Definition w_const_defs : prog := [SDef (s "f") [] [SReturn (Some (Ex (ints [1; 2; 3]) [] None))]].
Definition w_const_build : prog :=
  [SAssign (s "a") (Ex (XCall (s "f") []) [] None); SIdxAssign (s "a") (lit 0) (lit 9); SAssign (s "b") (Ex (XCall (s "f") []) [] None)].

Definition witnesses : list prog :=
  [w_rest; w_lazy; w_not; w_neg; w_cmp; w_mod; w_div; w_floordiv0; w_overflow; w_eq; w_str; w_slice; w_aug; w_default].

Lemma witnesses_differ : forallb (fun p => differs FUEL [] p p) witnesses = true.
Proof. vm_compute. reflexivity. Qed.

Lemma witness_values :
  asp_run [] [w_rest] = [OGlobals [(s "a", OInt 5)] [(s "a", OInt 5)]] /\ py_run w_rest = OGlobals [(s "a", OInt 3)] [(s "a", OInt 3)]
  /\ asp_run [] [w_lazy] = [OGlobals [(s "a", OInt 0)] [(s "a", OInt 0)]] /\ py_run w_lazy = OGlobals [(s "a", OInt 5)] [(s "a", OInt 5)]
  /\ asp_run [] [w_mod] = [OGlobals [(s "a", OInt (-1))] [(s "a", OInt (-1))]] /\ py_run w_mod = OGlobals [(s "a", OInt 2)] [(s "a", OInt 2)]
  /\ asp_run [] [w_cmp] = [OGlobals [(s "a", OBool true)] [(s "a", OBool true)]] /\ py_run w_cmp = OGlobals [(s "a", OBool false)] [(s "a", OBool false)]
  /\ asp_run [] [w_str] = [OGlobals [(s "a", OStr (s "[1 2]"))] [(s "a", OStr (s "[1 2]"))]]
  /\ py_run w_str = OGlobals [(s "a", OStr (s "[1, 2]"))] [(s "a", OStr (s "[1, 2]"))].
Proof. vm_compute. repeat split. Qed.

(* regression: the former witness of class list-add-writes-spare-capacity now agrees with CPython *)
Lemma append_fixed :
  differs FUEL [] w_append w_append = false /\
  match asp_run [] [w_append] with
  | [OGlobals _ final] => assoc_get (s "b") final = Some (OList false 0 [OInt 1; OInt 2; OInt 3])
  | _ => False
  end.
Proof. vm_compute. split; reflexivity. Qed.

Lemma rest_refutes : ~ agrees_with_python FUEL w_rest.
Proof. apply differs_refutes. vm_compute. reflexivity. Qed.

Lemma const_refutes : ~ imported_agrees_with_python FUEL w_const_defs w_const_build.
Proof. apply differs_refutes_imported. vm_compute. reflexivity. Qed.

(* ---- C16_partial, layer by layer ---- *)

(* layer 1: the model's interpretOps on a safe chain computes what CPython's grouping of the same chain
   computes, with the same operand evaluator and the same operators - for every chain, operand evaluator,
   first value, and state *)
Theorem chain_safe_agrees : forall (evalx : vexpr -> state -> res (value * state)) fuel obj (ops : list opitem) st,
  ops_safe (items_of ops) = true ->
  chain Asp evalx fuel obj ops st =
  py_ops evalx (apply_bin Asp fuel) (fun u v st0 => apply_un Asp u st0 v) (fun v st0 => truthy Asp st0 v) obj (items_of ops) st.
Proof. intros evalx fuel obj ops st H. unfold chain. now apply ops_agree. Qed.

(* and the classifier of the defect shapes is complete: what it does not flag is safe *)
Theorem chain_unflagged_agrees : forall (evalx : vexpr -> state -> res (value * state)) fuel obj (ops : list opitem) st,
  chain_class (items_of ops) = None ->
  chain Asp evalx fuel obj ops st =
  py_ops evalx (apply_bin Asp fuel) (fun u v st0 => apply_un Asp u st0 v) (fun v st0 => truthy Asp st0 v) obj (items_of ops) st.
Proof. intros. unfold chain. now apply ops_agree_class. Qed.

(* layer 3: list +.  pyList.Operator(Add) never writes an existing array: the result is a fresh array holding both
   operands, with capacity = length, and every existing array is left as it was - for EVERY list (since /repo 7aeabfa;
   before, only for a list without spare capacity and a non-empty right operand). *)
Lemma nth_app_old : forall {A} (l : list A) x n dflt, (n < length l)%nat -> nth n (l ++ [x]) dflt = nth n l dflt.
Proof. intros. now rewrite app_nth1. Qed.

Lemma list_concat_pinned : asp_list_concat_pinned = true.
Proof. reflexivity. Qed.

Theorem list_add_always_fresh : forall (l : slice) (items2 : list value) (st : state),
  (s_off l + s_len l <= length (arr_of st (s_arr l)))%nat ->
  let '(r, st') := list_add Asp l items2 st in
  s_arr r = length (arrays st)
  /\ (forall a, (a < length (arrays st))%nat -> arr_of st' a = arr_of st a)
  /\ list_items Asp st' r = list_items Asp st l ++ items2
  /\ s_cap r = s_len r.
Proof.
  intros l items2 st Hwf. unfold list_add.
  assert (Hlen : length (list_items Asp st l) = s_len l).
  { unfold list_items. rewrite firstn_length, skipn_length. lia. }
  unfold alloc_list. cbn [s_arr s_len s_cap s_off arrays set_arrays arr_of].
  repeat split.
  + intros a Ha. unfold arr_of. cbn [arrays set_arrays]. now apply nth_app_old.
  + unfold list_items, arr_of. cbn [arrays set_arrays s_arr s_off s_len].
    rewrite app_nth2 by lia. rewrite Nat.sub_diag. cbn [nth skipn].
    fold (arr_of st (s_arr l)). fold (list_items Asp st l).
    rewrite app_length, Hlen. rewrite Nat.sub_diag. cbn [repeat]. rewrite app_nil_r.
    rewrite firstn_all2; [reflexivity|]. rewrite app_length. lia.
  + rewrite app_length, Hlen. lia.
Qed.

(* the statement of the previous round (its two extra hypotheses are no longer needed) *)
Theorem list_add_full_is_pure : forall (l : slice) (items2 : list value) (st : state),
  s_cap l = s_len l -> items2 <> [] ->
  (s_off l + s_len l <= length (arr_of st (s_arr l)))%nat ->
  let '(r, st') := list_add Asp l items2 st in
  s_arr r = length (arrays st)
  /\ (forall a, (a < length (arrays st))%nat -> arr_of st' a = arr_of st a)
  /\ list_items Asp st' r = list_items Asp st l ++ items2
  /\ s_cap r = s_len r.
Proof. intros l items2 st _ _ Hwf. now apply list_add_always_fresh. Qed.
