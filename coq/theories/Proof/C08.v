(* C08 - proofs about the byte stream ruleHash writes (Model/C08.v `ser`) for the program regenerated from the
   source (Gen/RuleHashProg.v). *)
From Coq Require Import Lia Permutation.
From PlzV Require Import Base.Harness Base.StrFacts Model.C08 Gen.RuleHashProg.

(* ------------------------------------------------------------------------------------------ fields *)

Lemma field_beq_true f g : field_beq f g = true <-> f = g.
Proof. split; [apply internal_field_dec_bl | apply internal_field_dec_lb]. Qed.

Lemma field_in_In f l : field_in f l = true <-> In f l.
Proof.
  unfold field_in. rewrite existsb_exists. split.
  - intros [g [Hin Heq]]. apply field_beq_true in Heq. now subst.
  - intros Hin. exists f. split; [assumption | now apply field_beq_true].
Qed.

Lemma field_in_false f l : field_in f l = false -> ~ In f l.
Proof. intros Hf Hin. apply field_in_In in Hin. congruence. Qed.

(* ------------------------------------------------------------------------------------------ an emit depends only on the fields it reads *)

Definition agree_on (fs : list field) (t1 t2 : target) : Prop := forall g, In g fs -> get g t1 = get g t2.
Definition agree_except (f : field) (t1 t2 : target) : Prop := forall g, g <> f -> get g t1 = get g t2.

Ltac use_agree H t1 :=
  repeat match goal with
         | |- context [get ?f t1] => rewrite (H f) by (cbn; tauto)
         end.

Lemma toks_agree e t1 t2 : agree_on (reads e) t1 t2 -> toks t1 e = toks t2 e.
Proof.
  intros H. destruct e as [f|f|test|f|f|f|sorted f g|sorted f|sorted f|sorted sep f|f tv fv|f tv|sep|b];
    try destruct test; cbn [toks reads] in *; use_agree H t1; reflexivity.
Qed.

Lemma conds_agree cs rt t1 t2 :
  agree_on (flat_map cond_reads cs) t1 t2 -> forallb (cond_holds rt t1) cs = forallb (cond_holds rt t2) cs.
Proof.
  induction cs as [|c cs IH]; intros H; [reflexivity|]. cbn [forallb]. f_equal.
  - destruct c; cbn [cond_holds]; [reflexivity|]. rewrite (H FIsTest); [reflexivity|]. cbn. tauto.
  - apply IH. intros g Hg. apply H. cbn [flat_map]. apply in_or_app. now right.
Qed.

Lemma item_toks_agree it rt t1 t2 : agree_on (item_reads it) t1 t2 -> item_toks rt t1 it = item_toks rt t2 it.
Proof.
  intros H. unfold item_toks, item_reads in *.
  rewrite (conds_agree (fst it) rt t1 t2) by (intros g Hg; apply H; apply in_or_app; now left).
  rewrite (toks_agree (snd it) t1 t2) by (intros g Hg; apply H; apply in_or_app; now right).
  reflexivity.
Qed.

Lemma item_enc_agree it rt t1 t2 : agree_on (item_reads it) t1 t2 -> item_enc rt t1 it = item_enc rt t2 it.
Proof. intros H. unfold item_enc. now rewrite (item_toks_agree it rt t1 t2 H). Qed.

Lemma ser_agree p rt t1 t2 :
  (forall it, In it p -> agree_on (item_reads it) t1 t2) -> ser p rt t1 = ser p rt t2.
Proof.
  unfold ser. induction p as [|it p IH]; intros H; [reflexivity|]. cbn [flat_map]. f_equal.
  - apply item_enc_agree. apply H. now left.
  - apply IH. intros i Hi. apply H. now right.
Qed.

Lemma ser_app p q rt t : ser (p ++ q) rt t = ser p rt t ++ ser q rt t.
Proof. unfold ser. apply flat_map_app. Qed.

Lemma ser_cons it p rt t : ser (it :: p) rt t = item_enc rt t it ++ ser p rt t.
Proof. reflexivity. Qed.

(* ------------------------------------------------------------------------------------------ locate *)

Lemma locate_spec f p : forall pre it post,
  locate f p = Some (pre, it, post) ->
  p = pre ++ it :: post
  /\ (forall i, In i pre -> field_in f (item_reads i) = false)
  /\ (forall i, In i post -> field_in f (item_reads i) = false)
  /\ field_in f (item_reads it) = true.
Proof.
  induction p as [|x p IH]; intros pre it post H; cbn [locate] in H; [discriminate|].
  destruct (field_in f (item_reads x)) eqn:Hx.
  - destruct (existsb (fun i => field_in f (item_reads i)) p) eqn:Hex; [discriminate|].
    injection H as <- <- <-. repeat split; try assumption.
    + intros i [].
    + intros i Hi. destruct (field_in f (item_reads i)) eqn:Hf; [|reflexivity].
      assert (existsb (fun i => field_in f (item_reads i)) p = true) by (apply existsb_exists; eauto). congruence.
  - destruct (locate f p) as [[[pre' x'] post']|] eqn:Hl; [|discriminate].
    injection H as <- <- <-. destruct (IH _ _ _ eq_refl) as (-> & Hpre & Hpost & Hit).
    repeat split; try assumption. intros i [<-|Hi]; [assumption | now apply Hpre].
Qed.

Lemma agree_except_on f t1 t2 fs : agree_except f t1 t2 -> field_in f fs = false -> agree_on fs t1 t2.
Proof.
  intros Ha Hf g Hg. apply Ha. intros ->. apply field_in_false in Hf. contradiction.
Qed.

(* The exact characterisation of collisions between two targets that differ in one field: the streams are equal iff the
   bytes written by the one item that reads the field are equal. *)
Theorem single_field_exact f p pre it post rt t1 t2 :
  locate f p = Some (pre, it, post) -> agree_except f t1 t2 ->
  (ser p rt t1 = ser p rt t2 <-> item_enc rt t1 it = item_enc rt t2 it).
Proof.
  intros Hl Ha. destruct (locate_spec _ _ _ _ _ Hl) as (-> & Hpre & Hpost & _).
  rewrite !ser_app, !ser_cons.
  rewrite (ser_agree pre rt t1 t2) by (intros i Hi; eapply agree_except_on; eauto).
  rewrite (ser_agree post rt t1 t2) by (intros i Hi; eapply agree_except_on; eauto).
  split.
  - intros H. apply app_inv_head in H. now apply app_inv_tail in H.
  - intros ->. reflexivity.
Qed.

(* a field that no item reads does not influence the stream at all *)
Theorem unread_field_ignored f p rt t1 t2 :
  read_count f p = 0 -> agree_except f t1 t2 -> ser p rt t1 = ser p rt t2.
Proof.
  intros Hc Ha. apply ser_agree. intros it Hit. eapply agree_except_on; [eassumption|].
  destruct (field_in f (item_reads it)) eqn:Hf; [|reflexivity]. exfalso.
  unfold read_count in Hc. apply length_zero_iff_nil in Hc.
  assert (Hin : In it (filter (fun i => field_in f (item_reads i)) p)) by (apply filter_In; split; assumption).
  rewrite Hc in Hin. destruct Hin.
Qed.

(* ------------------------------------------------------------------------------------------ unframed concatenation *)

Lemma app_same_length {A} (x y r r' : list A) : length x = length y -> x ++ r = y ++ r' -> x = y /\ r = r'.
Proof.
  revert y. induction x as [|a x IH]; intros [|b y] Hl H; cbn in *; try discriminate; [now split|].
  injection H as -> H. injection Hl as Hl. destruct (IH y Hl H) as [-> ->]. now split.
Qed.

(* entries of equal lengths: the concatenation determines the entries *)
Lemma concat_same_shape (a b : list str) :
  map (@length N) a = map (@length N) b -> concat a = concat b -> a = b.
Proof.
  revert b. induction a as [|x a IH]; intros [|y b] Hs H; cbn in *; try discriminate; [reflexivity|].
  injection Hs as Hl Hs. destruct (app_same_length _ _ _ _ Hl H) as [-> H']. f_equal. now apply IH.
Qed.

Definition shape (a : list str) : list nat := map (@length N) a.

(* the only way two different write sequences can give the same bytes: same total length, different entry lengths,
   i.e. an entry boundary moved *)
Definition shift_suspect (a b : list str) : bool :=
  Nat.eqb (length (concat a)) (length (concat b)) && negb (list_eqb Nat.eqb (shape a) (shape b)).

Lemma nat_list_eqb_spec a b : reflect (a = b) (list_eqb Nat.eqb a b).
Proof. apply list_eqb_spec. intros x y. apply Nat.eqb_spec. Qed.

Lemma no_shift_no_collision (a b : list str) : a <> b -> shift_suspect a b = false -> concat a <> concat b.
Proof.
  intros Hne Hs Hc. unfold shift_suspect in Hs. rewrite Hc, Nat.eqb_refl in Hs. cbn in Hs.
  destruct (nat_list_eqb_spec (shape a) (shape b)) as [Hsh|Hsh]; [|discriminate].
  apply Hne. now apply concat_same_shape.
Qed.

(* ------------------------------------------------------------------------------------------ the regenerated program *)

(* Every field of the model, classified by how often the regenerated ruleHash reads it.  These three lemmas are
   computations on Gen.prog: dropping, duplicating or adding a hashed field in ruleHash changes them. *)

(* fields read by exactly one item *)
Definition hashed_fields : list field :=
  [FLabel; FDeps; FVisibility; FHashes; FSrcs; FNamedSrcs; FOuts; FNamedOuts; FLicences; FOptionalOuts;
   FLabels; FSecrets; FBinary; FSubrepo; FSandbox; FCommand; FCommands; FNeedsTransitive; FOutputIsComplete; FStamp;
   FFilegroup; FTextFile; FRemoteFile; FLocal; FSrcListFiles; FExitOnError; FRequires; FProvides; FPreBuild;
   FPostBuild; FPassEnv; FEnviron; FOutputDirs; FEntryPoints; FEnv; FFileContent; FData; FNamedData; FTestOutputs;
   FTestSandbox; FTestCommand; FTestCommands; FTestArgsPlaceholder].

Lemma gen_hashed_fields : filter (fun f => Nat.eqb (read_count f prog) 1) all_fields = hashed_fields.
Proof. vm_compute. reflexivity. Qed.

(* attributes ruleHash does not read at all *)
Lemma gen_unread_fields : unread_fields prog = [FNamedSecrets; FTools; FNamedTools].
Proof. vm_compute. reflexivity. Qed.

(* read by several items: the two configuration names (build and test command selection) and `Test != nil`
   (guard of the four test items) *)
Lemma gen_multi_read_fields : multi_read_fields prog = [FConfig; FFallbackConfig; FIsTest].
Proof. vm_compute. reflexivity. Qed.

Definition is_some {A} (o : option A) : bool := match o with Some _ => true | None => false end.

Lemma gen_locate_all : forallb (fun f => is_some (locate f prog)) hashed_fields = true.
Proof. vm_compute. reflexivity. Qed.

(* the item that reads a hashed field *)
Definition item_of (f : field) : item :=
  match locate f prog with Some (_, it, _) => it | None => ([], EConst []) end.

Definition toks_of (f : field) (rt : bool) (t : target) : list str := item_toks rt t (item_of f).

Lemma hashed_located f : In f hashed_fields -> exists pre post, locate f prog = Some (pre, item_of f, post).
Proof.
  intros Hin. pose proof gen_locate_all as H. rewrite forallb_forall in H. specialize (H f Hin).
  unfold item_of. destruct (locate f prog) as [[[pre it] post]|]; [|discriminate]. now exists pre, post.
Qed.

Definition injective {A B} (H : A -> B) : Prop := forall a b, H a = H b -> a = b.

(* Two targets that differ in ONE hashed field: equal hashes iff the strings written for that field concatenate to the
   same bytes; and if the sequences of strings differ, the hashes can only be equal when an entry boundary moved. *)
Theorem one_field_characterisation (D : Type) (H : str -> D) :
  injective H -> forall rt f t1 t2, In f hashed_fields -> agree_except f t1 t2 ->
    (H (ser prog rt t1) = H (ser prog rt t2) <-> concat (toks_of f rt t1) = concat (toks_of f rt t2))
    /\ (toks_of f rt t1 <> toks_of f rt t2 -> shift_suspect (toks_of f rt t1) (toks_of f rt t2) = false ->
        H (ser prog rt t1) <> H (ser prog rt t2)).
Proof.
  intros Hinj rt f t1 t2 Hin Ha. destruct (hashed_located f Hin) as (pre & post & Hl).
  pose proof (single_field_exact f prog pre (item_of f) post rt t1 t2 Hl Ha) as Hex.
  assert (Hiff : H (ser prog rt t1) = H (ser prog rt t2) <-> concat (toks_of f rt t1) = concat (toks_of f rt t2)).
  { unfold toks_of. fold (item_enc rt t1 (item_of f)) (item_enc rt t2 (item_of f)). rewrite <- Hex. split.
    - apply Hinj.
    - intros ->. reflexivity. }
  split; [exact Hiff|]. intros Hne Hs Heq. apply Hiff in Heq. revert Heq. now apply no_shift_no_collision.
Qed.

(* an attribute that ruleHash does not read never changes the hash *)
Theorem unread_field_collides (D : Type) (H : str -> D) rt f t1 t2 :
  In f (unread_fields prog) -> agree_except f t1 t2 -> H (ser prog rt t1) = H (ser prog rt t2).
Proof.
  intros Hin Ha. f_equal. apply (unread_field_ignored f); [|assumption].
  unfold unread_fields in Hin. apply filter_In in Hin. destruct Hin as [_ Hc]. now apply Nat.eqb_eq.
Qed.
