(* C08 - proofs about the byte stream ruleHash writes (Model/C08.v `ser`) for the program regenerated from the
   source (Gen/RuleHashProg.v). *)
From Coq Require Import Lia Permutation.
From PlzV Require Import Base.Harness Base.StrFacts Model.C08 Model.C08_Set Model.C08_Spec Gen.RuleHashProg.

(* ------------------------------------------------------------------------------------------ fields *)

Lemma field_beq_true f g : field_beq f g = true <-> f = g.
Proof. split; [apply internal_field_dec_bl | apply internal_field_dec_lb]. Qed.

Lemma field_in_In f l : field_in f l = true <-> In f l.
Proof.
  unfold field_in. rewrite existsb_exists. split.
  - intros [g [Hin Heq]]. apply field_beq_true in Heq. now subst.
  - intros Hin. exists f. split; [assumption | now apply field_beq_true].
Qed.

Lemma field_in_false f l : field_in f l = false -> ~ In f l.
Proof. intros Hf Hin. apply field_in_In in Hin. congruence. Qed.

(* ------------------------------------------------------------------------------------------ an emit depends only on the fields it reads *)

Definition agree_on (fs : list field) (t1 t2 : target) : Prop := forall g, In g fs -> get g t1 = get g t2.
Definition agree_except (f : field) (t1 t2 : target) : Prop := forall g, g <> f -> get g t1 = get g t2.

Ltac use_agree H t1 :=
  repeat match goal with
         | |- context [get ?f t1] => rewrite (H f) by (cbn; tauto)
         end.

Lemma toks_agree e t1 t2 : agree_on (reads e) t1 t2 -> toks t1 e = toks t2 e.
Proof.
  intros H. destruct e as [f|f|test|f|f|f|sorted f g|sorted f|sorted f|sorted sep f|f tv fv|f tv|sep|b];
    try destruct test; cbn [toks reads] in *; use_agree H t1; reflexivity.
Qed.

Lemma conds_agree cs rt t1 t2 :
  agree_on (flat_map cond_reads cs) t1 t2 -> forallb (cond_holds rt t1) cs = forallb (cond_holds rt t2) cs.
Proof.
  induction cs as [|c cs IH]; intros H; [reflexivity|]. cbn [forallb]. f_equal.
  - destruct c; cbn [cond_holds]; [reflexivity|]. rewrite (H FIsTest); [reflexivity|]. cbn. tauto.
  - apply IH. intros g Hg. apply H. cbn [flat_map]. apply in_or_app. now right.
Qed.

Lemma item_toks_agree it rt t1 t2 : agree_on (item_reads it) t1 t2 -> item_toks rt t1 it = item_toks rt t2 it.
Proof.
  intros H. unfold item_toks, item_reads in *.
  rewrite (conds_agree (fst it) rt t1 t2) by (intros g Hg; apply H; apply in_or_app; now left).
  rewrite (toks_agree (snd it) t1 t2) by (intros g Hg; apply H; apply in_or_app; now right).
  reflexivity.
Qed.

Lemma item_enc_agree it rt t1 t2 : agree_on (item_reads it) t1 t2 -> item_enc rt t1 it = item_enc rt t2 it.
Proof. intros H. unfold item_enc. now rewrite (item_toks_agree it rt t1 t2 H). Qed.

Lemma ser_agree p rt t1 t2 :
  (forall it, In it p -> agree_on (item_reads it) t1 t2) -> ser p rt t1 = ser p rt t2.
Proof.
  unfold ser. induction p as [|it p IH]; intros H; [reflexivity|]. cbn [flat_map]. f_equal.
  - apply item_enc_agree. apply H. now left.
  - apply IH. intros i Hi. apply H. now right.
Qed.

Lemma ser_app p q rt t : ser (p ++ q) rt t = ser p rt t ++ ser q rt t.
Proof. unfold ser. apply flat_map_app. Qed.

Lemma ser_cons it p rt t : ser (it :: p) rt t = item_enc rt t it ++ ser p rt t.
Proof. reflexivity. Qed.

(* ------------------------------------------------------------------------------------------ locate *)

Lemma locate_spec f p : forall pre it post,
  locate f p = Some (pre, it, post) ->
  p = pre ++ it :: post
  /\ (forall i, In i pre -> field_in f (item_reads i) = false)
  /\ (forall i, In i post -> field_in f (item_reads i) = false)
  /\ field_in f (item_reads it) = true.
Proof.
  induction p as [|x p IH]; intros pre it post H; cbn [locate] in H; [discriminate|].
  destruct (field_in f (item_reads x)) eqn:Hx.
  - destruct (existsb (fun i => field_in f (item_reads i)) p) eqn:Hex; [discriminate|].
    injection H as <- <- <-. repeat split; try assumption.
    + intros i [].
    + intros i Hi. destruct (field_in f (item_reads i)) eqn:Hf; [|reflexivity].
      assert (existsb (fun i => field_in f (item_reads i)) p = true) by (apply existsb_exists; eauto). congruence.
  - destruct (locate f p) as [[[pre' x'] post']|] eqn:Hl; [|discriminate].
    injection H as <- <- <-. destruct (IH _ _ _ eq_refl) as (-> & Hpre & Hpost & Hit).
    repeat split; try assumption. intros i [<-|Hi]; [assumption | now apply Hpre].
Qed.

Lemma agree_except_on f t1 t2 fs : agree_except f t1 t2 -> field_in f fs = false -> agree_on fs t1 t2.
Proof.
  intros Ha Hf g Hg. apply Ha. intros ->. apply field_in_false in Hf. contradiction.
Qed.

(* The exact characterisation of collisions between two targets that differ in one field: the streams are equal iff the
   bytes written by the one item that reads the field are equal. *)
Theorem single_field_exact f p pre it post rt t1 t2 :
  locate f p = Some (pre, it, post) -> agree_except f t1 t2 ->
  (ser p rt t1 = ser p rt t2 <-> item_enc rt t1 it = item_enc rt t2 it).
Proof.
  intros Hl Ha. destruct (locate_spec _ _ _ _ _ Hl) as (-> & Hpre & Hpost & _).
  rewrite !ser_app, !ser_cons.
  rewrite (ser_agree pre rt t1 t2) by (intros i Hi; eapply agree_except_on; eauto).
  rewrite (ser_agree post rt t1 t2) by (intros i Hi; eapply agree_except_on; eauto).
  split.
  - intros H. apply app_inv_head in H. now apply app_inv_tail in H.
  - intros ->. reflexivity.
Qed.

(* a field that no item reads does not influence the stream at all *)
Theorem unread_field_ignored f p rt t1 t2 :
  read_count f p = 0 -> agree_except f t1 t2 -> ser p rt t1 = ser p rt t2.
Proof.
  intros Hc Ha. apply ser_agree. intros it Hit. eapply agree_except_on; [eassumption|].
  destruct (field_in f (item_reads it)) eqn:Hf; [|reflexivity]. exfalso.
  unfold read_count in Hc. apply length_zero_iff_nil in Hc.
  assert (Hin : In it (filter (fun i => field_in f (item_reads i)) p)) by (apply filter_In; split; assumption).
  rewrite Hc in Hin. destruct Hin.
Qed.

(* ------------------------------------------------------------------------------------------ unframed concatenation *)

Lemma app_same_length {A} (x y r r' : list A) : length x = length y -> x ++ r = y ++ r' -> x = y /\ r = r'.
Proof.
  revert y. induction x as [|a x IH]; intros [|b y] Hl H; cbn in *; try discriminate; [now split|].
  injection H as -> H. injection Hl as Hl. destruct (IH y Hl H) as [-> ->]. now split.
Qed.

(* entries of equal lengths: the concatenation determines the entries *)
Lemma concat_same_shape (a b : list str) :
  map (@length N) a = map (@length N) b -> concat a = concat b -> a = b.
Proof.
  revert b. induction a as [|x a IH]; intros [|y b] Hs H; cbn in *; try discriminate; [reflexivity|].
  injection Hs as Hl Hs. destruct (app_same_length _ _ _ _ Hl H) as [-> H']. f_equal. now apply IH.
Qed.

Definition shape (a : list str) : list nat := map (@length N) a.

(* the only way two different write sequences can give the same bytes: same total length, different entry lengths,
   i.e. an entry boundary moved *)
Definition shift_suspect (a b : list str) : bool :=
  Nat.eqb (length (concat a)) (length (concat b)) && negb (list_eqb Nat.eqb (shape a) (shape b)).

Lemma nat_list_eqb_spec a b : reflect (a = b) (list_eqb Nat.eqb a b).
Proof. apply list_eqb_spec. intros x y. apply Nat.eqb_spec. Qed.

Lemma no_shift_no_collision (a b : list str) : a <> b -> shift_suspect a b = false -> concat a <> concat b.
Proof.
  intros Hne Hs Hc. unfold shift_suspect in Hs. rewrite Hc, Nat.eqb_refl in Hs. cbn in Hs.
  destruct (nat_list_eqb_spec (shape a) (shape b)) as [Hsh|Hsh]; [|discriminate].
  apply Hne. now apply concat_same_shape.
Qed.

(* ------------------------------------------------------------------------------------------ the regenerated program *)

(* Every field of the model, classified by how often the regenerated ruleHash reads it.  These three lemmas are
   computations on Gen.prog: dropping, duplicating or adding a hashed field in ruleHash changes them. *)

(* fields read by exactly one item *)
Definition hashed_fields : list field :=
  [FLabel; FDeps; FVisibility; FHashes; FSrcs; FNamedSrcs; FOuts; FNamedOuts; FLicences; FOptionalOuts;
   FLabels; FSecrets; FBinary; FSubrepo; FSandbox; FCommand; FCommands; FNeedsTransitive; FOutputIsComplete; FStamp;
   FFilegroup; FTextFile; FRemoteFile; FLocal; FSrcListFiles; FExitOnError; FRequires; FProvides; FPreBuild;
   FPostBuild; FPassEnv; FEnviron; FOutputDirs; FEntryPoints; FEnv; FFileContent; FData; FNamedData; FTestOutputs;
   FTestSandbox; FTestCommand; FTestCommands; FTestArgsPlaceholder].

Lemma gen_hashed_fields : filter (fun f => Nat.eqb (read_count f prog) 1) all_fields = hashed_fields.
Proof. vm_compute. reflexivity. Qed.

(* attributes ruleHash does not read at all *)
Lemma gen_unread_fields : unread_fields prog = [FNamedSecrets; FTools; FNamedTools].
Proof. vm_compute. reflexivity. Qed.

(* read by several items: the two configuration names (build and test command selection) and `Test != nil`
   (guard of the four test items) *)
Lemma gen_multi_read_fields : multi_read_fields prog = [FConfig; FFallbackConfig; FIsTest].
Proof. vm_compute. reflexivity. Qed.

Definition is_some {A} (o : option A) : bool := match o with Some _ => true | None => false end.

Lemma gen_locate_all : forallb (fun f => is_some (locate f prog)) hashed_fields = true.
Proof. vm_compute. reflexivity. Qed.

(* the item that reads a hashed field *)
Definition item_of (f : field) : item :=
  match locate f prog with Some (_, it, _) => it | None => ([], EConst []) end.

Definition toks_of (f : field) (rt : bool) (t : target) : list str := item_toks rt t (item_of f).

Lemma hashed_located f : In f hashed_fields -> exists pre post, locate f prog = Some (pre, item_of f, post).
Proof.
  intros Hin. pose proof gen_locate_all as H. rewrite forallb_forall in H. specialize (H f Hin).
  unfold item_of. destruct (locate f prog) as [[[pre it] post]|]; [|discriminate]. now exists pre, post.
Qed.

(* Two targets that differ in ONE hashed field: equal hashes iff the strings written for that field concatenate to the
   same bytes; and if the sequences of strings differ, the hashes can only be equal when an entry boundary moved. *)
Theorem one_field_characterisation (D : Type) (H : str -> D) :
  injective H -> forall rt f t1 t2, In f hashed_fields -> agree_except f t1 t2 ->
    (H (ser prog rt t1) = H (ser prog rt t2) <-> concat (toks_of f rt t1) = concat (toks_of f rt t2))
    /\ (toks_of f rt t1 <> toks_of f rt t2 -> shift_suspect (toks_of f rt t1) (toks_of f rt t2) = false ->
        H (ser prog rt t1) <> H (ser prog rt t2)).
Proof.
  intros Hinj rt f t1 t2 Hin Ha. destruct (hashed_located f Hin) as (pre & post & Hl).
  pose proof (single_field_exact f prog pre (item_of f) post rt t1 t2 Hl Ha) as Hex.
  assert (Hiff : H (ser prog rt t1) = H (ser prog rt t2) <-> concat (toks_of f rt t1) = concat (toks_of f rt t2)).
  { unfold toks_of. fold (item_enc rt t1 (item_of f)) (item_enc rt t2 (item_of f)). rewrite <- Hex. split.
    - apply Hinj.
    - intros ->. reflexivity. }
  split; [exact Hiff|]. intros Hne Hs Heq. apply Hiff in Heq. revert Heq. now apply no_shift_no_collision.
Qed.

Lemma unread_in p f : In f (unread_fields p) -> read_count f p = 0.
Proof.
  unfold unread_fields. intros Hin. apply filter_In in Hin. destruct Hin as [_ Hc]. now apply Nat.eqb_eq.
Qed.

(* an attribute that ruleHash does not read never changes the hash *)
Theorem unread_field_collides (D : Type) (H : str -> D) rt f t1 t2 :
  In f (unread_fields prog) -> agree_except f t1 t2 -> H (ser prog rt t1) = H (ser prog rt t2).
Proof.
  intros Hin Ha. f_equal. apply (unread_field_ignored f); [|assumption]. now apply unread_in.
Qed.

(* ------------------------------------------------------------------------------------------ readable corollaries (rule hash, runtime = false) *)

Lemma singleton_no_shift (x y : str) : shift_suspect [x] [y] = false.
Proof.
  unfold shift_suspect, shape. cbn [concat map]. rewrite !app_nil_r. cbn [list_eqb].
  destruct (Nat.eqb (length x) (length y)); reflexivity.
Qed.

Definition plain_list_fields : list field :=
  [FHashes; FOuts; FLicences; FOptionalOuts; FLabels; FSecrets; FRequires; FOutputDirs].
Definition bool_fields : list field :=
  [FBinary; FNeedsTransitive; FOutputIsComplete; FStamp; FFilegroup; FTextFile; FRemoteFile; FLocal; FSrcListFiles;
   FPreBuild; FPostBuild].
Definition optbool_fields : list field := [FSubrepo; FSandbox; FExitOnError].

Lemma plain_list_hashed f : In f plain_list_fields -> In f hashed_fields.
Proof. intros Hin. repeat (destruct Hin as [<-|Hin]; [cbn; tauto|]). destruct Hin. Qed.
Lemma bool_hashed f : In f bool_fields -> In f hashed_fields.
Proof. intros Hin. repeat (destruct Hin as [<-|Hin]; [cbn; tauto|]). destruct Hin. Qed.
Lemma optbool_hashed f : In f optbool_fields -> In f hashed_fields.
Proof. intros Hin. repeat (destruct Hin as [<-|Hin]; [cbn; tauto|]). destruct Hin. Qed.

Lemma gen_toks_of_list f : In f plain_list_fields -> forall t, toks_of f false t = as_list (get f t).
Proof. intros Hin t. repeat (destruct Hin as [<-|Hin]; [vm_compute; reflexivity|]). destruct Hin. Qed.

Lemma gen_toks_of_bool f : In f bool_fields -> forall t, toks_of f false t = [if as_bool (get f t) then [2%N] else [1%N]].
Proof. intros Hin t. repeat (destruct Hin as [<-|Hin]; [vm_compute; reflexivity|]). destruct Hin. Qed.

Lemma gen_toks_of_optbool f : In f optbool_fields -> forall t, toks_of f false t = if as_bool (get f t) then [[2%N]] else [].
Proof. intros Hin t. repeat (destruct Hin as [<-|Hin]; [vm_compute; reflexivity|]). destruct Hin. Qed.

Lemma gen_toks_of_file_content t : toks_of FFileContent false t = [t_file_content t].
Proof. vm_compute. reflexivity. Qed.

Lemma gen_toks_of_command t : toks_of FCommand false t = [effective_command t].
Proof. vm_compute. reflexivity. Qed.
Lemma gen_toks_of_commands t : toks_of FCommands false t = [effective_command t].
Proof. vm_compute. reflexivity. Qed.

Section Corollaries.
  Variable D : Type.
  Variable H : str -> D.
  Hypothesis H_inj : injective H.

  Let hash (t : target) : D := H (ser prog false t).

  (* a list attribute written entry by entry: any change is detected unless it moves an entry boundary *)
  Lemma list_change_detected f t1 t2 :
    In f plain_list_fields -> agree_except f t1 t2 ->
    as_list (get f t1) <> as_list (get f t2) ->
    shift_suspect (as_list (get f t1)) (as_list (get f t2)) = false -> hash t1 <> hash t2.
  Proof.
    intros Hin Ha Hne Hs. destruct (one_field_characterisation D H H_inj false f t1 t2 (plain_list_hashed f Hin) Ha) as [_ Hd].
    rewrite !(gen_toks_of_list f Hin) in Hd. now apply Hd.
  Qed.

  (* ... and it is NOT detected exactly when the concatenations agree *)
  Lemma list_change_missed_iff f t1 t2 :
    In f plain_list_fields -> agree_except f t1 t2 ->
    (hash t1 = hash t2 <-> concat (as_list (get f t1)) = concat (as_list (get f t2))).
  Proof.
    intros Hin Ha. destruct (one_field_characterisation D H H_inj false f t1 t2 (plain_list_hashed f Hin) Ha) as [Hiff _].
    now rewrite !(gen_toks_of_list f Hin) in Hiff.
  Qed.

  Lemma bool_change_detected f t1 t2 :
    In f bool_fields \/ In f optbool_fields -> agree_except f t1 t2 ->
    as_bool (get f t1) <> as_bool (get f t2) -> hash t1 <> hash t2.
  Proof.
    intros [Hin|Hin] Ha Hne.
    - destruct (one_field_characterisation D H H_inj false f t1 t2 (bool_hashed f Hin) Ha) as [_ Hd].
      rewrite !(gen_toks_of_bool f Hin) in Hd. apply Hd; [|apply singleton_no_shift].
      destruct (as_bool (get f t1)), (as_bool (get f t2)); congruence.
    - destruct (one_field_characterisation D H H_inj false f t1 t2 (optbool_hashed f Hin) Ha) as [_ Hd].
      rewrite !(gen_toks_of_optbool f Hin) in Hd.
      destruct (as_bool (get f t1)), (as_bool (get f t2)); try congruence; apply Hd; (discriminate || reflexivity).
  Qed.

  Lemma file_content_change_detected t1 t2 :
    agree_except FFileContent t1 t2 -> t_file_content t1 <> t_file_content t2 -> hash t1 <> hash t2.
  Proof.
    intros Ha Hne. destruct (one_field_characterisation D H H_inj false FFileContent t1 t2 ltac:(cbn; tauto) Ha) as [_ Hd].
    rewrite !gen_toks_of_file_content in Hd. apply Hd; [congruence | apply singleton_no_shift].
  Qed.

  (* the command selected for the current configuration (a change to a command that is not selected is not a change
     of the build action) *)
  Lemma command_change_detected f t1 t2 :
    f = FCommand \/ f = FCommands -> agree_except f t1 t2 ->
    effective_command t1 <> effective_command t2 -> hash t1 <> hash t2.
  Proof.
    intros [->| ->] Ha Hne.
    - destruct (one_field_characterisation D H H_inj false FCommand t1 t2 ltac:(cbn; tauto) Ha) as [_ Hd].
      rewrite !gen_toks_of_command in Hd. apply Hd; [congruence | apply singleton_no_shift].
    - destruct (one_field_characterisation D H H_inj false FCommands t1 t2 ltac:(cbn; tauto) Ha) as [_ Hd].
      rewrite !gen_toks_of_commands in Hd. apply Hd; [congruence | apply singleton_no_shift].
  Qed.
End Corollaries.

(* ------------------------------------------------------------------------------------------ the statement is false: witnesses *)

Definition base : target :=
  set_label (Label [] (s "pkg") (s "t")) (set_command (s "cmd") (set_fallback_config (s "opt") empty_target)).

(* t1, t2 are well-formed, differ in exactly the field f (in its value, not just in its listing), and have the same
   rule-hash stream *)
Definition one_field_collision (f : field) (t1 t2 : target) : Prop :=
  wf t1 /\ wf t2 /\ agree_except f t1 t2 /\ ~ field_same f t1 t2 /\ ser prog false t1 = ser prog false t2.

Ltac agree_tac := let g := fresh "g" in let Hg := fresh "Hg" in
  intros g Hg; destruct g; try reflexivity; exfalso; apply Hg; reflexivity.
Ltac collision_tac tac :=
  split; [vm_compute; reflexivity|]; split; [vm_compute; reflexivity|]; split; [agree_tac|];
  split; [unfold field_same; cbn; tac | vm_compute; reflexivity].
Ltac perm_len_tac := let Hp := fresh "Hp" in intros Hp; apply Permutation_length in Hp; discriminate.
Ltac perm_one_tac := let Hp := fresh "Hp" in intros Hp; apply Permutation_length_1 in Hp; discriminate.

(* (a) an entry boundary inside one list: outs ["ab","c"] / ["a","bc"] (both sorted sets, as BuildTarget.insert keeps them) *)
Lemma witness_list_boundary :
  one_field_collision FOuts (set_outs [s "ab"; s "c"] base) (set_outs [s "a"; s "bc"] base).
Proof. collision_tac discriminate. Qed.

(* (b) an empty entry *)
Lemma witness_empty_entry :
  one_field_collision FLabels (set_labels [s "a"; []] base) (set_labels [s "a"] base).
Proof. collision_tac discriminate. Qed.

(* (c) hashMap: key=value without framing *)
Lemma witness_hashmap_kv :
  one_field_collision FEnv (set_env [(s "a", s "b=c")] base) (set_env [(s "a=b", s "c")] base).
Proof. collision_tac perm_one_tac. Qed.

Lemma witness_hashmap_entries :
  one_field_collision FEntryPoints (set_entry_points [(s "a", s "1"); (s "b", s "2")] base)
                                   (set_entry_points [(s "a", s "1b=2")] base).
Proof. collision_tac perm_len_tac. Qed.

(* (d) pass_env: the VALUES of the passed variables change, the names do not *)
Lemma witness_pass_env_values :
  let pe := Some [s "VERIF_A"; s "VERIF_B"] in
  one_field_collision FEnviron
    (set_pass_env pe (set_environ [(s "VERIF_A", []); (s "VERIF_B", s "xVERIF_B=")] base))
    (set_pass_env pe (set_environ [(s "VERIF_A", s "VERIF_B=x"); (s "VERIF_B", [])] base)).
Proof. cbv zeta. collision_tac discriminate. Qed.

(* (e) named outputs: a group name is indistinguishable from an entry *)
Lemma witness_named_outs :
  one_field_collision FNamedOuts (set_named_outs [(s "a", [s "b"]); (s "c", [s "d"])] base)
                                 (set_named_outs [(s "a", [s "b"; s "c"; s "d"])] base).
Proof. collision_tac perm_len_tac. Qed.

(* (f) named sources: the names are not written at all ($SRCS_A becomes $SRCS_B) *)
Lemma witness_named_srcs_names :
  one_field_collision FNamedSrcs (set_named_srcs [(s "a", [s "x"])] base) (set_named_srcs [(s "b", [s "x"])] base).
Proof. collision_tac perm_one_tac. Qed.

(* (g) dependencies: two labels vs one label with the same rendering *)
Lemma witness_deps :
  one_field_collision FDeps (set_deps [Label [] (s "z") (s "a"); Label [] (s "z") (s "b")] base)
                            (set_deps [Label [] (s "z") (s "a//z:b")] base).
Proof. collision_tac perm_len_tac. Qed.

(* (h) provides *)
Lemma witness_provides :
  one_field_collision FProvides (set_provides [(s "go", [Label [] (s "p") (s "a")]); (s "py", [])] base)
                                (set_provides [(s "go", [Label [] (s "p") (s "apy")])] base).
Proof. collision_tac perm_len_tac. Qed.

(* (i) tools, named tools and named secrets are not read by ruleHash *)
Lemma witness_tools :
  one_field_collision FTools (set_tools [s "/usr/bin/gzip"] base) (set_tools [s "/usr/bin/gunzip"] base).
Proof. collision_tac discriminate. Qed.
Lemma witness_named_tools :
  one_field_collision FNamedTools (set_named_tools [(s "a", [s "//t:x"])] base) (set_named_tools [(s "b", [s "//t:x"])] base).
Proof. collision_tac perm_one_tac. Qed.
Lemma witness_named_secrets :
  one_field_collision FNamedSecrets (set_named_secrets [(s "k", [s "/a"])] base) (set_named_secrets [(s "k", [s "/b"])] base).
Proof. collision_tac perm_one_tac. Qed.

(* (j) two attributes: the last entry of one list moves to the front of the next list that is written; an optional
   boolean (written as one byte or not at all) changes places with its neighbour *)
Lemma witness_adjacent_lists :
  let t1 := set_optional_outs [s "o"; s "x"] (set_labels [s "l"] base) in
  let t2 := set_optional_outs [s "o"] (set_labels [s "x"; s "l"] base) in
  wf t1 /\ wf t2 /\ ~ same_definition t1 t2 /\ ser prog false t1 = ser prog false t2.
Proof.
  cbv zeta. split; [vm_compute; reflexivity|]. split; [vm_compute; reflexivity|]. split; [|vm_compute; reflexivity].
  intros [Hf _]. specialize (Hf FLabels ltac:(cbn; tauto)). unfold field_same in Hf. cbn in Hf. discriminate.
Qed.

Lemma witness_optional_bool :
  let t1 := set_sandbox true base in
  let t2 := set_subrepo true base in
  wf t1 /\ wf t2 /\ ~ same_definition t1 t2 /\ ser prog false t1 = ser prog false t2.
Proof.
  cbv zeta. split; [vm_compute; reflexivity|]. split; [vm_compute; reflexivity|]. split; [|vm_compute; reflexivity].
  intros [Hf _]. specialize (Hf FSandbox ltac:(cbn; tauto)). unfold field_same in Hf. cbn in Hf. discriminate.
Qed.

Lemma one_field_collision_relevant f t1 t2 :
  In f relevant_fields -> one_field_collision f t1 t2 ->
  wf t1 /\ wf t2 /\ ~ same_definition t1 t2 /\ ser prog false t1 = ser prog false t2.
Proof.
  intros Hin (Hw1 & Hw2 & _ & Hne & Hs). repeat split; try assumption. intros [Hf _]. apply Hne. now apply Hf.
Qed.

(* ------------------------------------------------------------------------------------------ the two property theorems *)

Lemma C08_refuted_proof :
  ~ (forall (D : Type) (H : str -> D), injective H ->
     forall t1 t2, wf t1 -> wf t2 -> ~ same_definition t1 t2 -> H (ser prog false t1) <> H (ser prog false t2)).
Proof.
  intros Hst.
  destruct (one_field_collision_relevant FOuts _ _ ltac:(cbn; tauto) witness_list_boundary) as (Hw1 & Hw2 & Hne & Hs).
  apply (Hst str (fun x => x) (fun a b e => e) _ _ Hw1 Hw2 Hne). exact Hs.
Qed.

Lemma C08_partial_proof :
  forall (D : Type) (H : str -> D), injective H ->
    (forall rt f t1 t2, In f hashed_fields -> agree_except f t1 t2 ->
       (H (ser prog rt t1) = H (ser prog rt t2) <-> concat (toks_of f rt t1) = concat (toks_of f rt t2))
       /\ (toks_of f rt t1 <> toks_of f rt t2 -> shift_suspect (toks_of f rt t1) (toks_of f rt t2) = false ->
           H (ser prog rt t1) <> H (ser prog rt t2)))
    /\ (forall f t1 t2, In f plain_list_fields -> agree_except f t1 t2 ->
          (H (ser prog false t1) = H (ser prog false t2) <-> concat (as_list (get f t1)) = concat (as_list (get f t2))))
    /\ (forall f t1 t2, In f bool_fields \/ In f optbool_fields -> agree_except f t1 t2 ->
          as_bool (get f t1) <> as_bool (get f t2) -> H (ser prog false t1) <> H (ser prog false t2))
    /\ (forall t1 t2, agree_except FFileContent t1 t2 -> t_file_content t1 <> t_file_content t2 ->
          H (ser prog false t1) <> H (ser prog false t2))
    /\ (forall f t1 t2, f = FCommand \/ f = FCommands -> agree_except f t1 t2 ->
          effective_command t1 <> effective_command t2 -> H (ser prog false t1) <> H (ser prog false t2))
    /\ (forall rt f t1 t2, In f [FTools; FNamedTools; FNamedSecrets] -> agree_except f t1 t2 ->
          H (ser prog rt t1) = H (ser prog rt t2)).
Proof.
  intros D H Hinj.
  split; [intros rt f t1 t2 Hin Ha; exact (one_field_characterisation D H Hinj rt f t1 t2 Hin Ha)|].
  split; [intros f t1 t2 Hin Ha; exact (list_change_missed_iff D H Hinj f t1 t2 Hin Ha)|].
  split; [intros f t1 t2 Hin Ha Hne; exact (bool_change_detected D H Hinj f t1 t2 Hin Ha Hne)|].
  split; [intros t1 t2 Ha Hne; exact (file_content_change_detected D H Hinj t1 t2 Ha Hne)|].
  split; [intros f t1 t2 Hf Ha Hne; exact (command_change_detected D H Hinj f t1 t2 Hf Ha Hne)|].
  intros rt f t1 t2 Hin Ha. apply (unread_field_collides D H rt f t1 t2); [|assumption].
  rewrite gen_unread_fields. cbn in *. tauto.
Qed.
