(* C34 - proofs about the model of RecursiveCopyOrLinkFile (Model/C34.v). *)
From PlzV Require Import Base.Harness Base.StrFacts Gen.C34Copy Model.C34.
From Coq Require Import Lia.

(* ---------------------------------------------------------------- induction on trees -------- *)
Section node_ind2.
  Variable P : node -> Prop.
  Hypothesis HF : forall i p c, P (File i p c).
  Hypothesis HL : forall t, P (Link t).
  Hypothesis HD : forall es, Forall (fun e => P (snd e)) es -> P (Dir es).
  Fixpoint node_ind2 (n : node) : P n :=
    match n with
    | File i p c => HF i p c
    | Link t => HL t
    | Dir es =>
        HD es ((fix go (l : list (str * node)) : Forall (fun e => P (snd e)) l :=
                  match l with
                  | [] => Forall_nil _
                  | e :: r => Forall_cons e (node_ind2 (snd e)) (go r)
                  end) es)
    end.
End node_ind2.

(* names for the local fixpoints of the model *)
Fixpoint walk_list (l : list (str * node)) : list (path * node) :=
  match l with
  | [] => []
  | (x, c) :: r => map (pfx x) (walk c) ++ walk_list r
  end.

Lemma walk_dir es : walk (Dir es) = ([], Dir es) :: walk_list es.
Proof. reflexivity. Qed.

Definition map_files_list (f : N -> N -> str -> node) : list (str * node) -> list (str * node) :=
  fix go (l : list (str * node)) : list (str * node) :=
    match l with
    | [] => []
    | (x, c) :: r => (x, map_files f c) :: go r
    end.

Lemma map_files_list_cons f x c r :
  map_files_list f ((x, c) :: r) = (x, map_files f c) :: map_files_list f r.
Proof. reflexivity. Qed.

Lemma map_files_dir f es : map_files f (Dir es) = Dir (map_files_list f es).
Proof. reflexivity. Qed.

Fixpoint wfb_list (l : list (str * node)) : bool :=
  match l with
  | [] => true
  | (_, c) :: r => wfb c && wfb_list r
  end.

Lemma wfb_dir es :
  wfb (Dir es) = nodupb (map fst es) && forallb plain_name (map fst es) && wfb_list es.
Proof. reflexivity. Qed.

Lemma walk_nonempty n : exists e l, walk n = e :: l.
Proof. destruct n; do 2 eexists; reflexivity. Qed.

(* ---------------------------------------------------------------- association lists --------- *)
Lemma assoc_set_same x v es : assoc x (set x v es) = Some v.
Proof.
  induction es as [|[y w] r IH]; cbn [set assoc].
  - now rewrite str_eqb_refl.
  - destruct (str_eqb x y) eqn:E; cbn [assoc]; rewrite E; auto.
Qed.

Lemma assoc_set_other x y v es : x <> y -> assoc x (set y v es) = assoc x es.
Proof.
  intros Hne. induction es as [|[z w] r IH]; cbn [set assoc].
  - apply str_eqb_neq in Hne. now rewrite Hne.
  - destruct (str_eqb y z) eqn:E; cbn [assoc].
    + apply str_eqb_eq in E. subst z. apply str_eqb_neq in Hne. now rewrite Hne.
    + now rewrite IH.
Qed.

Lemma set_set x v1 v2 es : set x v2 (set x v1 es) = set x v2 es.
Proof.
  induction es as [|[y w] r IH]; cbn [set].
  - now rewrite str_eqb_refl.
  - destruct (str_eqb x y) eqn:E; cbn [set]; rewrite E; [reflexivity | now rewrite IH].
Qed.

Lemma set_fresh x v es : assoc x es = None -> set x v es = es ++ [(x, v)].
Proof.
  induction es as [|[y w] r IH]; cbn [set assoc app]; [reflexivity|].
  destruct (str_eqb x y); [discriminate|]. intros H. now rewrite IH.
Qed.

Lemma assoc_notin x es : ~ In x (map fst es) -> assoc x es = None.
Proof.
  induction es as [|[y w] r IH]; cbn [assoc map fst In]; [reflexivity|].
  intros H. destruct (str_eqb x y) eqn:E.
  - apply str_eqb_eq in E. subst. exfalso. apply H. now left.
  - apply IH. intros Hin. apply H. now right.
Qed.

Lemma existsb_str_false x l : existsb (str_eqb x) l = false -> ~ In x l.
Proof.
  intros H Hin. assert (existsb (str_eqb x) l = true) as Ht.
  { apply existsb_exists. exists x. split; [assumption | apply str_eqb_refl]. }
  congruence.
Qed.

(* ---------------------------------------------------------------- the temporary file -------- *)
(* WriteFile = open a temporary sibling, write, chmod, rename onto `to` (Model: write_in_dir).  With a
   temporary name NOBODY HAS this is exactly the atomic step the tree theorems are about. *)
Lemma remove_set_fresh t v es : assoc t es = None -> remove t (set t v es) = es.
Proof.
  induction es as [|[y w] r IH]; cbn [assoc set remove].
  - now rewrite str_eqb_refl.
  - destruct (str_eqb t y) eqn:E; [discriminate|]. intros H. cbn [remove]. rewrite E. now rewrite IH.
Qed.

(* EVERY directory, EVERY file name x, EVERY unused temporary name t *)
Theorem write_in_dir_unique t m x c es :
  assoc t es = None -> t <> x ->
  write_in_dir t TempUnique m x c es =
  match f_rename (File 0 (eff m) c) (assoc x es) with
  | ROk v => ROk (Dir (set x v es))
  | r => r
  end.
Proof.
  intros Ht Hx. unfold write_in_dir. rewrite Ht. cbn [open_temp].
  rewrite assoc_set_other by (intros E; apply Hx; now symmetry).
  now rewrite remove_set_fresh by exact Ht.
Qed.

(* ANY fixed naming scheme pre ++ file ++ suf (opened over what is there) takes a sibling of that name
   away: the sibling's inode j - a file of the tree being copied, for a hard-linked copy the SOURCE's
   own inode - is emptied, filled with the other file's contents and renamed onto `to`. *)
Theorem fixed_temp_loses_sibling pre suf m x c j pm c0 :
  pre ++ x ++ suf <> x ->
  write_in_dir (pre ++ x ++ suf) (TempFixed pre suf) m x c [(pre ++ x ++ suf, File j pm c0)]
  = ROk (Dir [(x, File j (eff m) c)]).
Proof.
  intros Ht. unfold write_in_dir. cbn [assoc]. rewrite str_eqb_refl. cbn [open_temp set]. rewrite str_eqb_refl.
  cbn [assoc]. assert (str_eqb x (pre ++ x ++ suf) = false) as E by (apply str_eqb_neq; congruence).
  rewrite E. cbn [f_rename remove]. rewrite str_eqb_refl. reflexivity.
Qed.

Lemma assoc_some_len x es n : assoc x es = Some n -> (length x <= name_lengths es)%nat.
Proof.
  induction es as [|[y w] r IH]; cbn [assoc name_lengths fold_right fst]; [discriminate|].
  destruct (str_eqb x y) eqn:E.
  - apply str_eqb_eq in E. subst y. intros _. lia.
  - intros H. apply IH in H. unfold name_lengths in H. lia.
Qed.

Lemma unique_temp_fresh x es : assoc (unique_temp x es) es = None.
Proof.
  destruct (assoc (unique_temp x es) es) eqn:E; [|reflexivity]. apply assoc_some_len in E.
  unfold unique_temp in E. rewrite app_length, repeat_length in E. lia.
Qed.

Lemma unique_temp_neq x es : unique_temp x es <> x.
Proof.
  intros E. apply (f_equal (@length N)) in E. unfold unique_temp in E. rewrite app_length, repeat_length in E. lia.
Qed.

Lemma f_write_unique m x c d :
  f_write TempUnique m x c d = upd true [x] (f_rename (File 0 (eff m) c)) d.
Proof.
  destruct d as [[i pm c0|es|t]|]; cbn [f_write upd temp_name]; try reflexivity.
  - rewrite write_in_dir_unique by (apply unique_temp_fresh || apply unique_temp_neq).
    destruct (f_rename (File 0 (eff m) c) (assoc x es)); reflexivity.
  - rewrite write_in_dir_unique by (apply unique_temp_fresh || apply unique_temp_neq). reflexivity.
Qed.

Lemma upd_ext mk f g : (forall d, f d = g d) -> forall p d, upd mk p f d = upd mk p g d.
Proof.
  intros H. induction p as [|x q IH]; intros d; cbn [upd]; [apply H|].
  destruct d as [[i pm c|es|t]|]; try reflexivity; now rewrite IH.
Qed.

Lemma upd_app mk q x f : forall d, upd mk (q ++ [x]) f d = upd mk q (upd mk [x] f) d.
Proof.
  remember (upd mk [x] f) as g eqn:Hg.
  induction q as [|y q IH]; intros d; [now subst g|]. change ((y :: q) ++ [x]) with (y :: (q ++ [x])).
  destruct d as [[i pm c|es|t]|]; cbn [upd]; try reflexivity; now rewrite IH.
Qed.

Lemma split_last_app : forall p q x, split_last p = Some (q, x) -> p = q ++ [x].
Proof.
  induction p as [|y p IH]; intros q x; cbn [split_last]; [discriminate|].
  destruct (split_last p) as [[q' z]|] eqn:E.
  - intros H. injection H as <- <-. cbn [app]. f_equal. now apply IH.
  - intros H. injection H as <- <-. destruct p as [|z p]; [reflexivity|]. cbn [split_last] in E.
    destruct (split_last p) as [[? ?]|]; discriminate.
Qed.

(* the policy the code has, TRANSLATED from `tempFile, err := ...` in fs.go *)
Lemma temp_policy_unique : temp_policy_now = TempUnique.
Proof. reflexivity. Qed.

(* CopyFile as it runs (temporary sibling and rename, any depth, any directory contents) IS the atomic
   step: nothing but `to` changes in its directory, no sibling is touched, no inode that existed
   before is written *)
Theorem copy_file_refines m p c d : copy_file m p c d = copy_file_atomic m p c d.
Proof.
  unfold copy_file. destruct (split_last p) as [[q x]|] eqn:E; [|reflexivity].
  apply split_last_app in E. subst p. unfold copy_file_atomic. rewrite upd_app, temp_policy_unique.
  apply upd_ext. intros d'. apply f_write_unique.
Qed.

(* copy_or_link with the atomic step (what the tree proofs unfold) *)
Definition copy_or_link_a (k : cfg) (p : path) (src : node) (o : opened) (d : dest) : R :=
  let copy (m : N) := match o with
                      | OContent c => copy_file_atomic m p c d
                      | OErr => RErr
                      | OUnsup => RUnsup
                      end in
  if link k then
    match src with
    | Link t => upd false p (f_create (Link t)) d
    | File i pm c =>
        match (if link_ok k then upd false p (f_create (File i pm c)) d else RErr) with
        | RErr => if fallback k then copy pm else RErr
        | r => r
        end
    | Dir _ => RUnsup
    end
  else copy (mode k).

Lemma copy_or_link_eq k p src o d : copy_or_link k p src o d = copy_or_link_a k p src o d.
Proof.
  unfold copy_or_link, copy_or_link_a. destruct o as [c| |]; try reflexivity.
  destruct (link k); [|apply copy_file_refines].
  destruct src as [i pm c0|es|t]; try reflexivity.
  destruct (if link_ok k then upd false p (f_create (File i pm c0)) d else RErr); try reflexivity.
  destruct (fallback k); [apply copy_file_refines | reflexivity].
Qed.

(* ---------------------------------------------------------------- one level down ------------ *)
Definition lift (x : str) (es : list (str * node)) (r : R) : R :=
  match r with
  | ROk c => ROk (Dir (set x c es))
  | RErr => RErr
  | RUnsup => RUnsup
  end.

Lemma upd_cons mk x q f es :
  upd mk (x :: q) f (Some (Dir es)) = lift x es (upd mk q f (assoc x es)).
Proof. cbn [upd]. destruct (upd mk q f (assoc x es)); reflexivity. Qed.

(* every step of the walk below the entry x of a directory is the same step, one level down *)
Lemma visit_cons k x (e : path * node) es :
  visit k (pfx x e) (Some (Dir es)) = lift x es (visit k e (assoc x es)).
Proof.
  destruct e as [q n]. unfold visit, pfx. cbn [fst snd]. destruct n as [i pm c|es'|t].
  - rewrite !copy_or_link_eq. unfold copy_or_link_a, copy_file_atomic.
    destruct (link k).
    + destruct (link_ok k).
      * rewrite upd_cons. destruct (upd false q _ (assoc x es)); cbn [lift]; try reflexivity.
        destruct (fallback k); [|reflexivity]. now rewrite upd_cons.
      * destruct (fallback k); [|reflexivity]. now rewrite upd_cons.
    + now rewrite upd_cons.
  - apply upd_cons.
  - apply upd_cons.
Qed.

Lemma run_walk_cons k e r d :
  run_walk k (e :: r) d =
  match visit k e d with
  | ROk n => run_walk k r (Some n)
  | RErr => WFailed
  | RUnsup => WUnsup
  end.
Proof. reflexivity. Qed.

Lemma run_lift k x rest : forall l e es,
  run_walk k (map (pfx x) (e :: l) ++ rest) (Some (Dir es)) =
  match run_walk k (e :: l) (assoc x es) with
  | WDone (Some c) => run_walk k rest (Some (Dir (set x c es)))
  | WDone None => WFailed
  | WFailed => WFailed
  | WUnsup => WUnsup
  end.
Proof.
  induction l as [|e' l IH]; intros e es.
  - cbn [map app run_walk]. rewrite visit_cons.
    destruct (visit k e (assoc x es)); reflexivity.
  - change (map (pfx x) (e :: e' :: l) ++ rest)
      with (pfx x e :: (map (pfx x) (e' :: l) ++ rest)).
    rewrite (run_walk_cons k (pfx x e)), (run_walk_cons k e (e' :: l)), visit_cons.
    destruct (visit k e (assoc x es)) as [m| |]; cbn [lift]; try reflexivity.
    rewrite IH, assoc_set_same.
    destruct (run_walk k (e' :: l) (Some m)) as [[c|]| |]; try reflexivity.
    now rewrite set_set.
Qed.

(* ---------------------------------------------------------------- the walk into a fresh place *)
Lemma visit_leaf_file k i pm c :
  placeable k = true ->
  visit k ([], File i pm c) None = ROk (file_result k i pm c).
Proof.
  destruct k as [m l f lo]. unfold placeable, visit. cbn [fst snd]. rewrite copy_or_link_eq. unfold copy_or_link_a, copy_file_atomic, file_result.
  cbn [link link_ok fallback mode fst snd upd f_create f_rename].
  destruct l, lo, f; cbn; intros H; try discriminate; reflexivity.
Qed.

Lemma walk_children k :
  forall es acc,
    Forall (fun e => run_walk k (walk (snd e)) None = WDone (Some (map_files (file_result k) (snd e)))) es ->
    nodupb (map fst es) = true ->
    (forall x, In x (map fst acc) -> ~ In x (map fst es)) ->
    run_walk k (walk_list es) (Some (Dir acc)) =
    WDone (Some (Dir (acc ++ map_files_list (file_result k) es))).
Proof.
  induction es as [|[x c] r IH]; intros acc Hall Hnd Hdis.
  - cbn. now rewrite app_nil_r.
  - cbn [walk_list map_files_list].
    inversion Hall as [|e l Hc Hr]; subst. cbn [snd] in Hc.
    cbn [map fst nodupb] in Hnd. apply andb_true_iff in Hnd as [Hx Hnd].
    apply negb_true_iff in Hx. apply existsb_str_false in Hx.
    destruct (walk_nonempty c) as [e0 [l0 Hw]]. rewrite Hw in *.
    rewrite run_lift.
    assert (assoc x acc = None) as Hnone.
    { apply assoc_notin. intros Hin. apply (Hdis x Hin). cbn. now left. }
    rewrite Hnone, Hc. rewrite (set_fresh _ _ _ Hnone).
    rewrite IH; [ | assumption | assumption | ].
    + now rewrite <- app_assoc.
    + intros y Hy. rewrite map_app in Hy. apply in_app_or in Hy as [Hy|Hy].
      * intros Hin. apply (Hdis y Hy). cbn. now right.
      * cbn in Hy. destruct Hy as [<-|[]]. exact Hx.
Qed.

Lemma wfb_list_forall es : wfb_list es = true -> Forall (fun e => wfb (snd e) = true) es.
Proof.
  induction es as [|[x c] r IH]; cbn [wfb_list]; intros H; constructor.
  - apply andb_true_iff in H. tauto.
  - apply IH. apply andb_true_iff in H. tauto.
Qed.

(* Walking a well-formed tree into a place where nothing exists reproduces it, file by file as
   file_result says, without error and without leaving the modelled part of the OS. *)
Lemma walk_fresh k :
  placeable k = true ->
  forall n, wfb n = true ->
    run_walk k (walk n) None = WDone (Some (map_files (file_result k) n)).
Proof.
  intros Hp. induction n as [i pm c|t|es IH] using node_ind2; intros Hwf.
  - cbn [walk run_walk]. now rewrite visit_leaf_file.
  - reflexivity.
  - rewrite walk_dir, map_files_dir. cbn [run_walk]. unfold visit. cbn [fst snd upd f_mkdir].
    rewrite wfb_dir in Hwf. apply andb_true_iff in Hwf as [Hwf Hl]. apply andb_true_iff in Hwf as [Hnd _].
    apply wfb_list_forall in Hl.
    rewrite (walk_children k es []); [reflexivity | | assumption | intros x []].
    clear Hnd. induction es as [|e r IHr]; constructor.
    + inversion IH; subst. inversion Hl; subst. auto.
    + inversion IH; subst. inversion Hl; subst. auto.
Qed.

(* ---------------------------------------------------------------- what was reproduced ------- *)
Lemma erase_file_result k : forall n, erase (map_files (file_result k) n) = erase n.
Proof.
  unfold erase. induction n as [i pm c|t|es IH] using node_ind2.
  - cbn [map_files]. unfold file_result. destruct (link k), (link_ok k); reflexivity.
  - reflexivity.
  - rewrite !map_files_dir. f_equal.
    induction es as [|[x c] r IHr]; [reflexivity|].
    cbn [map_files_list]. inversion IH; subst. cbn [snd] in *. f_equal; [f_equal|]; auto.
Qed.

(* ---------------------------------------------------------------- RecursiveCopyOrLinkFile --- *)
Definition copied_link_root (k : cfg) (src : node) : bool :=
  match src with Link _ => negb (link k) | _ => false end.

Theorem copy_top_faithful k w a b src :
  assoc a w = Some src -> assoc b w = None -> wfb src = true -> placeable k = true ->
  copied_link_root k src = false ->
  copy_top k w a b = Done (map_files (file_result k) src).
Proof.
  intros Ha Hb Hwf Hp Hroot. unfold copy_top. rewrite Ha, Hb.
  destruct src as [i pm c|es|t].
  - cbn [length open_node]. fold (visit k ([], File i pm c) None).
    change (copy_or_link k [] (File i pm c) (OContent c) None) with (visit k ([], File i pm c) None).
    now rewrite visit_leaf_file.
  - now rewrite walk_fresh.
  - cbn [copied_link_root] in Hroot. apply negb_false_iff in Hroot.
    unfold copy_or_link. rewrite Hroot. reflexivity.
Qed.

Theorem top_link_followed k w a b t :
  assoc a w = Some (Link t) -> assoc b w = None -> link k = false ->
  copy_top k w a b =
  match open_node (S (length w)) w (Link t) with
  | OContent c => Done (File 0 (eff (mode k)) c)
  | OErr => Failed
  | OUnsup => Unsupported
  end.
Proof.
  intros Ha Hb Hl. unfold copy_top. rewrite Ha, Hb. unfold copy_or_link. rewrite Hl.
  destruct (open_node (S (length w)) w (Link t)); reflexivity.
Qed.

Theorem nothing_else_touched w b n x : x <> b -> assoc x (set b n w) = assoc x w.
Proof. apply assoc_set_other. Qed.

(* the full statement, assembled *)
Definition faithful_on (k : cfg) (w : world) (a b : str) (src : node) : Prop :=
  exists dst,
    copy_top k w a b = Done dst
    /\ erase dst = erase src
    /\ dst = map_files (file_result k) src
    /\ assoc a (set b dst w) = Some src
    /\ (forall x, x <> b -> assoc x (set b dst w) = assoc x w).

Theorem faithful k w a b src :
  assoc a w = Some src -> assoc b w = None -> a <> b -> wfb src = true -> placeable k = true ->
  copied_link_root k src = false ->
  faithful_on k w a b src.
Proof.
  intros Ha Hb Hab Hwf Hp Hroot. exists (map_files (file_result k) src). repeat split.
  - now apply copy_top_faithful.
  - apply erase_file_result.
  - now rewrite nothing_else_touched.
  - intros x Hx. now apply nothing_else_touched.
Qed.

(* ---------------------------------------------------------------- when no file can be placed *)
Fixpoint has_file_list (l : list (str * node)) : bool :=
  match l with
  | [] => false
  | (_, c) :: r => has_file c || has_file_list r
  end.

Lemma has_file_dir es : has_file (Dir es) = has_file_list es.
Proof. reflexivity. Qed.

Lemma visit_file_unplaceable k (p : path) i pm c d :
  placeable k = false -> visit k (p, File i pm c) d = RErr.
Proof.
  destruct k as [m l f lo]. unfold placeable, visit, copy_or_link.
  cbn [link link_ok fallback mode fst snd].
  destruct l, lo, f; cbn; intros H; try discriminate; reflexivity.
Qed.

Lemma run_walk_not_done k :
  placeable k = false ->
  forall l d, (exists (p : path) i pm c, In (p, File i pm c) l) -> forall d', run_walk k l d <> WDone d'.
Proof.
  intros Hp. induction l as [|e r IH]; intros d [p [i [pm [c Hin]]]] d'.
  - destruct Hin.
  - rewrite run_walk_cons. destruct Hin as [->|Hin].
    + now rewrite visit_file_unplaceable.
    + destruct (visit k e d); try discriminate. apply IH. eauto.
Qed.

Lemma has_file_walk : forall n,
  has_file n = true -> exists (p : path) i pm c, In (p, File i pm c) (walk n).
Proof.
  induction n as [i pm c|t|es IH] using node_ind2; intros H.
  - exists [], i, pm, c. now left.
  - discriminate.
  - rewrite has_file_dir in H. rewrite walk_dir.
    assert (exists (p : path) i pm c, In (p, File i pm c) (walk_list es)) as [p [i [pm [c Hin]]]].
    { induction es as [|[x c0] r IHr]; [discriminate|].
      cbn [has_file_list] in H. cbn [walk_list]. inversion IH as [|e l Hc Hr]; subst. cbn [snd] in Hc.
      apply orb_true_iff in H as [H|H].
      - destruct (Hc H) as [p [i [pm [c Hin]]]]. exists (x :: p), i, pm, c.
        apply in_or_app. left. change (x :: p, File i pm c) with (pfx x (p, File i pm c)).
        now apply in_map.
      - destruct (IHr Hr H) as [p [i [pm [c Hin]]]]. exists p, i, pm, c. apply in_or_app. now right. }
    exists p, i, pm, c. now right.
Qed.

(* hard-linking without fallback where link(2) does not work: a tree that holds a regular file is
   never reported as copied, whatever the destination held *)
Theorem unplaceable_never_done k w a b src :
  assoc a w = Some src -> placeable k = false -> has_file src = true ->
  forall dst, copy_top k w a b <> Done dst.
Proof.
  intros Ha Hp Hf dst. unfold copy_top. rewrite Ha. destruct src as [i pm c|es|t].
  - change (copy_or_link k [] (File i pm c) (open_node (S (length w)) w (File i pm c)) (assoc b w))
      with (visit k ([], File i pm c) (assoc b w)).
    now rewrite visit_file_unplaceable.
  - destruct (run_walk k (walk (Dir es)) (assoc b w)) as [[n|]| |] eqn:E; try discriminate.
    exfalso. apply (run_walk_not_done k Hp (walk (Dir es)) (assoc b w) (has_file_walk _ Hf) (Some n)). exact E.
  - discriminate.
Qed.

(* whatever the destination held before: when the call succeeds, nothing but `to` has changed *)
Theorem only_destination_written (k : cfg) w (a b : str) dst :
  copy_top k w a b = Done dst -> forall x, x <> b -> assoc x (set b dst w) = assoc x w.
Proof. intros _ x Hx. now apply nothing_else_touched. Qed.

(* ---------------------------------------------------------------- tied to the source text --- *)
(* RecursiveCopy and RecursiveLink (argument tuples regenerated from copy.go) can always place a
   file: RecursiveCopy does not link, RecursiveLink falls back. *)
Lemma recursive_copy_cfg m :
  placeable (recursive_copy m) = true /\ link (recursive_copy m) = false /\ mode (recursive_copy m) = m.
Proof. repeat split. Qed.

Lemma recursive_link_cfg lok :
  placeable (recursive_link lok) = true /\ link (recursive_link lok) = true.
Proof. destruct lok; repeat split. Qed.

Lemma default_mode_ok : default_file_mode = 436%N /\ dir_permissions = 509%N.
Proof. split; reflexivity. Qed.

(* the guarded straight-line programs of the anchored functions, as the model reads them *)
Open Scope string_scope.
Lemma prog_top_ok : prog_RecursiveCopyOrLinkFile = [
  ("", "info, err := os.Lstat(from)");
  ("(err != nil)", "return err");
  ("(info.IsDir())", "from = filepath.Clean(from)");
  ("(info.IsDir())", "return WalkMode(from, func(name string, fileMode Mode) error {}, )");
  ("", "return CopyOrLinkFile(from, to, info.Mode(), mode, link, fallback)")
].
Proof. reflexivity. Qed.

Lemma prog_callback_ok : prog_walk_callback = [
  ("", "dest := filepath.Join(to, name[len(from):])");
  ("(fileMode.IsDir())", "return os.MkdirAll(dest, DirPermissions)");
  ("(fileMode.IsSymlink())", "return copySymlink(name, dest)");
  ("", "return CopyOrLinkFile(name, dest, fileMode.ModeType(), mode, link, fallback)")
].
Proof. reflexivity. Qed.

Lemma prog_copy_or_link_ok : prog_CopyOrLinkFile = [
  ("(link) && ((fromMode & os.ModeSymlink) != 0)", "dest, err := os.Readlink(from)");
  ("(link) && ((fromMode & os.ModeSymlink) != 0) && (err != nil)", "return err");
  ("(link) && ((fromMode & os.ModeSymlink) != 0)", "return os.Symlink(dest, to)");
  ("(link) && (err := os.Link(from, to); err == nil || !fallback)", "return err");
  ("(link)", "info, err := os.Lstat(from)");
  ("(link) && (err != nil)", "return err");
  ("(link)", "toMode = info.Mode()");
  ("", "return CopyFile(from, to, toMode)")
].
Proof. reflexivity. Qed.

Lemma prog_copy_symlink_ok : prog_copySymlink = [
  ("", "resolvedPath, err := os.Readlink(name)");
  ("(err != nil)", "return err");
  ("", "return os.Symlink(resolvedPath, dest)")
].
Proof. reflexivity. Qed.

Lemma prog_copy_file_ok : prog_CopyFile = [
  ("", "fromFile, err := os.Open(from)");
  ("(err != nil)", "return err");
  ("", "defer fromFile.Close()");
  ("", "return WriteFile(fromFile, to, mode)")
].
Proof. reflexivity. Qed.

Lemma prog_write_file_ok : prog_WriteFile = [
  ("", "dir, file := filepath.Split(to)");
  ("(dir != """") && (err := os.MkdirAll(dir, DirPermissions); err != nil)", "return err");
  ("", "tempFile, err := os.CreateTemp(dir, file)");
  ("(err != nil)", "return err");
  ("(_, err := io.Copy(tempFile, fromFile); err != nil)", "return err");
  ("(err := tempFile.Close(); err != nil)", "return err");
  ("(mode == 0)", "mode = 0664");
  ("(err := os.Chmod(tempFile.Name(), mode); err != nil)", "return err");
  ("", "return renameFile(tempFile.Name(), to)")
].
Proof. reflexivity. Qed.

Lemma prog_walk_mode_ok : prog_WalkMode = [
  ("(info, err := os.Lstat(rootPath); err != nil)", "return err");
  ("!(info, err := os.Lstat(rootPath); err != nil) && (!info.IsDir())", "return callback(rootPath, mode(info.Mode()))");
  ("", "return godirwalk.Walk(rootPath, &godirwalk.Options{Callback: func(name string, info *godirwalk.Dirent) error {}, })")
].
Proof. reflexivity. Qed.
