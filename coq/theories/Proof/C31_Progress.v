(* C31 - progress: `plan` is dependency-closed, every enabled event lowers the measure `mu`, `mu` is 0
   exactly in the finished states; hence from every reachable state a run of at most `mu` events ends in
   `finished`, no schedule contains more than `mu` enabled events, and `mu` of the initial state is three
   times the sum of the plan sizes. *)
From PlzV Require Import Base.Harness Base.StrFacts Model.C31 Proof.C31.
From Coq Require Import Lia.

(* ------------------------------------------------------------------------------------------ *)
(* plan r req contains the dependencies of its targets *)

Definition cstep (need : list str) (t : target) : list str :=
  if mem (t_label t) need then t_deps t ++ need else need.

Lemma closure_fold ts req : closure ts req = fold_left cstep (rev ts) req.
Proof. reflexivity. Qed.

Lemma cstep_mono need t x : In x need -> In x (cstep need t).
Proof. intros Hx. unfold cstep. destruct (mem (t_label t) need); [apply in_or_app; right|]; exact Hx. Qed.

Lemma cfold_mono L : forall need x, In x need -> In x (fold_left cstep L need).
Proof.
  induction L as [|a L IH]; intros need x Hx; [exact Hx|]. cbn [fold_left]. apply IH. apply cstep_mono. exact Hx.
Qed.

Lemma cfold_src L : forall need x, In x (fold_left cstep L need) ->
  In x need \/ exists t, In t L /\ In x (t_deps t).
Proof.
  induction L as [|a L IH]; intros need x Hx; [left; exact Hx|]. cbn [fold_left] in Hx.
  destruct (IH _ _ Hx) as [Hn|(t & Hin & Hd)].
  - unfold cstep in Hn. destruct (mem (t_label a) need); [|left; exact Hn].
    apply in_app_or in Hn. destruct Hn as [Hn|Hn]; [right; exists a; split; [left; reflexivity|exact Hn]|left; exact Hn].
  - right. exists t. split; [right; exact Hin|exact Hd].
Qed.

Lemma NoDup_mid_not_pre {A} (a : list A) x b : NoDup (a ++ x :: b) -> ~ In x a.
Proof. intros Hnd Hin. apply NoDup_remove_2 in Hnd. apply Hnd. apply in_or_app. left. exact Hin. Qed.

Theorem plan_deps_closed r req : wf_repo r = true -> deps_closed (plan r req).
Proof.
  intros Hwf t d Hin Hd. unfold plan in *. apply filter_In in Hin. destruct Hin as [HtR Hneed]. apply mem_In in Hneed.
  pose proof Hwf as Hwf'. unfold wf_repo in Hwf'. apply andb_prop in Hwf'. destruct Hwf' as [Hnd Htopo].
  apply nodup_str_NoDup in Hnd.
  destruct (in_split _ _ HtR) as (pre & post & Hr).
  assert (Hlt : ~ In (t_label t) (map t_label pre)).
  { rewrite Hr, map_app in Hnd. cbn [map] in Hnd. apply (NoDup_mid_not_pre _ _ _ Hnd). }
  assert (Hdeps_pre : forall t', In t' pre -> forall x, In x (t_deps t') -> In x (map t_label pre)).
  { intros t' Hin' x Hx. destruct (in_split _ _ Hin') as (p1 & p2 & Hp).
    assert (Hr' : r = p1 ++ t' :: (p2 ++ t :: post)) by (rewrite Hr, Hp, <- app_assoc; reflexivity).
    destruct (topo_spec _ _ Htopo p1 t' _ Hr' x Hx) as [[]|Hp1].
    rewrite Hp, map_app. apply in_or_app. left. exact Hp1. }
  assert (Hd_pre : In d (map t_label pre)).
  { destruct (topo_spec _ _ Htopo pre t post Hr d Hd) as [[]|Hp]. exact Hp. }
  (* the closure, split at t *)
  rewrite closure_fold in Hneed |- *. rewrite Hr in Hneed |- *.
  rewrite rev_app_distr in Hneed |- *. cbn [rev] in Hneed |- *. rewrite <- app_assoc in Hneed |- *.
  rewrite fold_left_app in Hneed |- *. cbn [app fold_left] in Hneed |- *.
  set (need1 := fold_left cstep (rev post) req) in *.
  assert (Hd_in : In d (fold_left cstep (rev pre) (cstep need1 t))).
  { apply cfold_mono. destruct (cfold_src _ _ _ Hneed) as [Hn|(t' & Hin' & Hx)].
    - unfold cstep in Hn |- *. destruct (mem (t_label t) need1) eqn:Em.
      + apply in_or_app. left. exact Hd.
      + exfalso. apply mem_false in Em. apply Em. exact Hn.
    - exfalso. apply Hlt. apply (Hdeps_pre t'); [apply in_rev; exact Hin'|exact Hx]. }
  apply in_map_iff in Hd_pre. destruct Hd_pre as (td & Hl & Hin_td). exists td. split; [|exact Hl].
  apply filter_In. split.
  - apply in_or_app. left. exact Hin_td.
  - apply mem_In. rewrite Hl. exact Hd_in.
Qed.

(* ------------------------------------------------------------------------------------------ *)
(* the measure *)

Lemma filter_length_le {A} (f : A -> bool) l : length (filter f l) <= length l.
Proof. induction l as [|a l IH]; cbn [filter length]; [lia|]. destruct (f a); cbn [length]; lia. Qed.

Lemma filter_length_lt {A} (f : A -> bool) l x : In x l -> f x = false -> length (filter f l) < length l.
Proof.
  induction l as [|a l IH]; intros Hin Hf; [destruct Hin|]. cbn [filter length]. destruct Hin as [->|Hin].
  - rewrite Hf. pose proof (filter_length_le f l). lia.
  - specialize (IH Hin Hf). destruct (f a); cbn [length]; lia.
Qed.

Lemma list_sum_cons a l : list_sum (a :: l) = a + list_sum l.
Proof. reflexivity. Qed.

Lemma sum_update (f : nat -> nat) (x : nat) i : forall n a, a <= i < a + n ->
  list_sum (map (fun j => if Nat.eqb j i then x else f j) (seq a n)) + f i = list_sum (map f (seq a n)) + x.
Proof.
  induction n as [|n IH]; intros a Hi; [lia|]. cbn [seq map]. rewrite !list_sum_cons.
  destruct (Nat.eqb_spec a i) as [->|Hne].
  - assert (E : map (fun j => if Nat.eqb j i then x else f j) (seq (S i) n) = map f (seq (S i) n)).
    { apply map_ext_in. intros j Hj. apply in_seq in Hj. destruct (Nat.eqb_spec j i); [lia|reflexivity]. }
    rewrite E. lia.
  - assert (Hi' : S a <= i < S a + n) by lia. specialize (IH (S a) Hi'). lia.
Qed.

Section Measure.
  Variable key : Type.
  Variable key_eqb : key -> key -> bool.
  Variable H : target -> list val -> key.
  Variable act : target -> list val -> option val.
  Variable use_lock : bool.

  Notation stepU := (step key key_eqb H act use_lock).
  Notation runU := (run key key_eqb H act use_lock).

  Lemma mu_cur_cons (tb : target * bool) c : mu_cur (tb :: c) = (if snd tb then 1 else 2) + mu_cur c.
  Proof. reflexivity. Qed.

  Lemma mu_cur_dropc_le l c : mu_cur (dropc l c) <= mu_cur c.
  Proof.
    induction c as [|tb c IH]; [cbn; lia|]. unfold dropc in *. cbn [filter].
    destruct (negb (has_label l (fst tb))); rewrite !mu_cur_cons; destruct (snd tb); lia.
  Qed.

  Lemma mu_cur_dropc_lt l c (P : target * bool -> bool) tb :
    find P c = Some tb -> (forall x, P x = true -> has_label l (fst x) = true) -> mu_cur (dropc l c) < mu_cur c.
  Proof.
    intros Hf HP. induction c as [|a c IH]; [discriminate|]. cbn [find] in Hf. unfold dropc in *. cbn [filter].
    destruct (P a) eqn:Pa.
    - rewrite (HP a Pa). cbn [negb]. pose proof (mu_cur_dropc_le l c) as Hle. unfold dropc in Hle.
      rewrite !mu_cur_cons. destruct (snd a); lia.
    - specialize (IH Hf). destruct (negb (has_label l (fst a))); rewrite !mu_cur_cons; destruct (snd a); lia.
  Qed.

  Lemma mu_cur_markc_le l c : mu_cur (markc l c) <= mu_cur c.
  Proof.
    induction c as [|tb c IH]; [cbn; lia|]. unfold markc in *. cbn [map]. rewrite !mu_cur_cons.
    destruct (has_label l (fst tb)); cbn [snd]; destruct (snd tb); lia.
  Qed.

  Lemma mu_cur_markc_lt l c tb :
    find (fun tb => has_label l (fst tb) && negb (snd tb)) c = Some tb -> mu_cur (markc l c) < mu_cur c.
  Proof.
    intros Hf. induction c as [|a c IH]; [discriminate|]. cbn [find] in Hf. unfold markc in *.
    cbn [map]. rewrite !mu_cur_cons. destruct (has_label l (fst a)) eqn:Hl; cbn [andb] in Hf.
    - destruct (snd a) eqn:Sa; cbn [negb] in Hf.
      + specialize (IH Hf). cbn [snd]. lia.
      + pose proof (mu_cur_markc_le l c) as Hle. unfold markc in Hle. cbn [snd]. lia.
    - specialize (IH Hf). destruct (snd a); lia.
  Qed.

  Lemma mu_set st s oc i iv' : i < st_n key st ->
    mu key (set_all key st s oc i iv') + mu_inv (st_inv key st i) = mu key st + mu_inv iv'.
  Proof.
    intros Hi. unfold mu. cbn [set_all st_n st_inv].
    rewrite <- (sum_update (fun j => mu_inv (st_inv key st j)) (mu_inv iv') i (st_n key st) 0) by lia.
    f_equal. f_equal. apply map_ext. intros j. destruct (Nat.eqb j i); reflexivity.
  Qed.

  Lemma drop_lt l ts t : find (has_label l) ts = Some t -> length (drop l ts) < length ts.
  Proof.
    intros Hf. apply find_some in Hf. destruct Hf as [Hin Hl]. unfold drop.
    apply (filter_length_lt _ _ t Hin). rewrite Hl. reflexivity.
  Qed.

  Lemma set_lt st s oc i iv' : i < st_n key st -> mu_inv iv' < mu_inv (st_inv key st i) ->
    mu key (set_all key st s oc i iv') < mu key st.
  Proof. intros Hi Hlt. pose proof (mu_set st s oc i iv' Hi). lia. Qed.

  (* EVERY enabled event strictly lowers the measure (with or without the lock) *)
  Theorem step_decreases st e st' : stepU st e = Some st' -> mu key st' < mu key st.
  Proof.
    intros Hs. destruct e as [i l|i l|i l]; cbn [step] in Hs;
      destruct (Nat.ltb_spec i (st_n key st)) as [Hi|Hi]; try discriminate.
    - (* Begin *)
      unfold step_begin in Hs. cbv zeta in Hs.
      destruct (find (has_label l) (i_todo (st_inv key st i))) as [t|] eqn:Hf; [|discriminate].
      pose proof (drop_lt _ _ _ Hf) as Hlt.
      destruct (negb _); [discriminate|].
      destruct (existsb _ (t_deps t)).
      { injection Hs as <-. unfold set_inv, set_both. apply set_lt; [exact Hi|].
        unfold mu_inv. cbn [i_todo i_cur]. lia. }
      destruct (use_lock && locked key st (t_label t)); [discriminate|].
      destruct (needs_build key key_eqb H (st_store key st) t); injection Hs as <-; unfold set_inv, set_both;
        (apply set_lt; [exact Hi|]); unfold mu_inv; cbn [i_todo i_cur]; rewrite ?mu_cur_cons; cbn [snd]; lia.
    - (* Move *)
      unfold step_move in Hs. cbv zeta in Hs.
      destruct (find _ (i_cur (st_inv key st i))) as [tb|] eqn:Hf; [|discriminate].
      pose proof (mu_cur_markc_lt _ _ _ Hf) as Hlt. injection Hs as <-. unfold set_both.
      apply set_lt; [exact Hi|]. unfold mu_inv. cbn [i_todo i_cur]. lia.
    - (* End *)
      unfold step_end in Hs. cbv zeta in Hs.
      destruct (find _ (i_cur (st_inv key st i))) as [tb|] eqn:Hf; [|discriminate].
      assert (Hlt : mu_cur (dropc l (i_cur (st_inv key st i))) < mu_cur (i_cur (st_inv key st i))).
      { apply (mu_cur_dropc_lt l _ _ tb Hf). intros x Hx. apply andb_prop in Hx. apply Hx. }
      assert (Hgen : forall s oc d f rn,
                 mu key (set_all key st s oc i (mkI (i_todo (st_inv key st i)) (dropc l (i_cur (st_inv key st i))) d f rn))
                 < mu key st).
      { intros s oc d f rn. apply set_lt; [exact Hi|]. unfold mu_inv. cbn [i_todo i_cur]. lia. }
      destruct (gather _ _) as [ins|]; [|injection Hs as <-; apply Hgen].
      destruct (if cacheable (fst tb) then _ else _) as [v'|]; [injection Hs as <-; apply Hgen|].
      destruct (act (fst tb) ins); injection Hs as <-; apply Hgen.
  Qed.

  Lemma apply_mu st e : mu key (apply key key_eqb H act use_lock st e) <= mu key st.
  Proof.
    unfold apply. destruct (stepU st e) as [st'|] eqn:Hs; [|lia]. pose proof (step_decreases _ _ _ Hs). lia.
  Qed.

  Lemma run_mu sched : forall st, mu key (runU sched st) <= mu key st.
  Proof.
    induction sched as [|e sched IH]; intros st; [cbn; lia|].
    change (runU (e :: sched) st) with (runU sched (apply key key_eqb H act use_lock st e)).
    pose proof (IH (apply key key_eqb H act use_lock st e)). pose proof (apply_mu st e). lia.
  Qed.

  (* no schedule contains more than mu enabled events *)
  Theorem effective_bounded sched : forall st,
    effective key key_eqb H act use_lock st sched + mu key (runU sched st) <= mu key st.
  Proof.
    induction sched as [|e sched IH]; intros st; [cbn; lia|].
    change (runU (e :: sched) st) with (runU sched (apply key key_eqb H act use_lock st e)).
    cbn [effective]. specialize (IH (apply key key_eqb H act use_lock st e)).
    unfold enabled, apply in *. destruct (stepU st e) as [st'|] eqn:Hs.
    - pose proof (step_decreases _ _ _ Hs). lia.
    - lia.
  Qed.

  Lemma mu_cur_zero c : mu_cur c = 0 -> c = [].
  Proof. destruct c as [|tb c]; [reflexivity|]. cbn [mu_cur fold_right]. destruct (snd tb); lia. Qed.

  Lemma list_sum_zero l : list_sum l = 0 <-> forall x, In x l -> x = 0.
  Proof.
    induction l as [|a l IH]; [|rewrite list_sum_cons]; split.
    - intros _ x [].
    - reflexivity.
    - intros E x [<-|Hx]; [lia|]. apply IH; [lia|exact Hx].
    - intros Hx. assert (a = 0) by (apply Hx; left; reflexivity). assert (list_sum l = 0) by (apply IH; intros x Hin; apply Hx; right; exact Hin). lia.
  Qed.

  (* the measure is 0 exactly when every process has exited *)
  Theorem mu_zero_finished st : mu key st = 0 <-> finished key st = true.
  Proof.
    unfold mu, finished. rewrite list_sum_zero, forallb_forall. split.
    - intros Hz i Hi. assert (E : mu_inv (st_inv key st i) = 0) by (apply Hz; apply in_map_iff; exists i; split; [reflexivity|exact Hi]).
      unfold mu_inv in E. unfold inv_finished.
      assert (E1 : length (i_todo (st_inv key st i)) = 0) by lia. assert (E2 : mu_cur (i_cur (st_inv key st i)) = 0) by lia.
      apply length_zero_iff_nil in E1. apply mu_cur_zero in E2. rewrite E1, E2. reflexivity.
    - intros Hf x Hx. apply in_map_iff in Hx. destruct Hx as (i & <- & Hi). specialize (Hf i Hi). unfold inv_finished in Hf.
      unfold mu_inv. destruct (i_todo (st_inv key st i)); [|discriminate]. destruct (i_cur (st_inv key st i)); [|discriminate]. reflexivity.
  Qed.

  Lemma mu_init s0 oc todos : mu key (init_c key s0 oc todos) = 3 * length (concat todos).
  Proof.
    unfold mu. cbn [init_c st_n st_inv]. unfold mu_inv. cbn [i_todo i_cur mu_cur fold_right].
    assert (G : forall (ts : list (list target)) a (f : nat -> list target), (forall j, j < length ts -> f (a + j) = nth j ts []) ->
              list_sum (map (fun i => 3 * length (f i) + 0) (seq a (length ts))) = 3 * length (concat ts)).
    { induction ts as [|x ts IH]; intros a f Hf; [reflexivity|]. cbn [length seq map concat]. rewrite list_sum_cons, app_length.
      rewrite (IH (S a) f).
      - pose proof (Hf 0 ltac:(cbn; lia)) as E. rewrite Nat.add_0_r in E. rewrite E. cbn [nth]. lia.
      - intros j Hj. replace (S a + j) with (a + S j) by lia. rewrite Hf by (cbn [length]; lia). reflexivity. }
    apply (G todos 0 (fun i => nth i todos [])). intros j _. reflexivity.
  Qed.
End Measure.

(* ------------------------------------------------------------------------------------------ *)
(* termination: from every reachable state a finite run ends in `finished` *)

Lemma run_app key key_eqb H act lk a b st :
  run key key_eqb H act lk (a ++ b) st = run key key_eqb H act lk b (run key key_eqb H act lk a st).
Proof. unfold run. apply fold_left_app. Qed.

Section Termination.
  Variable key : Type.
  Variable key_eqb : key -> key -> bool.
  Variable H : target -> list val -> key.
  Variable act : target -> list val -> option val.
  Hypothesis key_eqb_ok : forall a b, key_eqb a b = true <-> a = b.
  Hypothesis H_inj : forall t a b, H t a = H t b -> a = b.
  Variable r : list target.
  Hypothesis Hwf : wf_repo r = true.
  Variable s0 : store key.
  Hypothesis Htr : trusted key H act r s0.
  Variable oc : option (cache key).
  Hypothesis Hoc : cache_trusted key H act r oc.
  Variable todos : list (list target).
  Hypothesis Hreq : requests_ok act r todos.
  Hypothesis Hcl : forall ts, In ts todos -> deps_closed ts.

  Notation runL := (run key key_eqb H act true).
  Notation st0 := (init_c key s0 oc todos).

  Lemma finish_from k : forall sched, mu key (runL sched st0) <= k ->
    exists sched', length sched' <= mu key (runL sched st0) /\ finished key (runL sched' (runL sched st0)) = true.
  Proof.
    induction k as [|k IH]; intros sched Hk.
    - exists []. split; [cbn; lia|]. apply mu_zero_finished. cbn [run fold_left]. lia.
    - destruct (finished key (runL sched st0)) eqn:Hf.
      + exists []. split; [cbn; lia|exact Hf].
      + destruct (c31_no_deadlock key key_eqb H act key_eqb_ok H_inj r Hwf s0 Htr todos oc sched Hoc Hreq Hcl Hf) as (e & He).
        destruct (step key key_eqb H act true (runL sched st0) e) as [st'|] eqn:Hs; [|contradiction].
        pose proof (step_decreases key key_eqb H act true _ _ _ Hs) as Hlt.
        assert (Hrun : runL (sched ++ [e]) st0 = st').
        { rewrite run_app. cbn [run fold_left]. unfold apply. rewrite Hs. reflexivity. }
        destruct (IH (sched ++ [e])) as (sched' & Hlen & Hfin); [rewrite Hrun; lia|].
        rewrite Hrun in Hlen, Hfin. exists (e :: sched'). split; [cbn [length]; lia|].
        change (runL (e :: sched') (runL sched st0)) with (runL sched' (apply key key_eqb H act true (runL sched st0) e)).
        unfold apply. rewrite Hs. exact Hfin.
  Qed.

  (* every reachable state has a run to `finished` of at most mu events; mu of a reachable state is at most
     three times the sum of the plan sizes; and no continuation whatever contains more than mu enabled events,
     so a scheduler that keeps taking enabled events (a fair one) reaches `finished` within that many *)
  Theorem c31_terminates sched :
    let st := runL sched st0 in
    (exists sched', length sched' <= mu key st /\ finished key (runL sched' st) = true)
    /\ mu key st <= 3 * length (concat todos)
    /\ (forall sched', effective key key_eqb H act true st sched' + mu key (runL sched' st) <= mu key st)
    /\ (forall sched', finished key (runL sched' st) = false -> exists e, step key key_eqb H act true (runL sched' st) e <> None).
  Proof.
    intros st. split; [|split; [|split]].
    - apply (finish_from (mu key st) sched). apply Nat.le_refl.
    - unfold st. rewrite <- (mu_init key s0 oc todos). apply run_mu.
    - intros sched'. apply effective_bounded.
    - intros sched' Hf. unfold st in *. rewrite <- run_app in Hf |- *.
      apply (c31_no_deadlock key key_eqb H act key_eqb_ok H_inj r Hwf s0 Htr todos oc (sched ++ sched') Hoc Hreq Hcl Hf).
  Qed.
End Termination.

(* the closed form used by Props/C31.v: the requests are label lists, every process works on `plan r req` *)
Theorem c31_terminates_plan :
  forall (key : Type) (key_eqb : key -> key -> bool) (H : target -> list val -> key)
         (act : target -> list val -> option val),
    (forall a b, key_eqb a b = true <-> a = b) -> (forall t a b, H t a = H t b -> a = b) ->
  forall r, wf_repo r = true -> forall s0, trusted key H act r s0 ->
  forall oc, cache_trusted key H act r oc ->
  forall reqs : list (list str), requests_ok act r (map (plan r) reqs) ->
  forall sched,
    let st := run key key_eqb H act true sched (init_c key s0 oc (map (plan r) reqs)) in
    (exists sched', length sched' <= mu key st /\ finished key (run key key_eqb H act true sched' st) = true)
    /\ mu key st <= 3 * length (concat (map (plan r) reqs))
    /\ (forall sched', effective key key_eqb H act true st sched' + mu key (run key key_eqb H act true sched' st) <= mu key st)
    /\ (forall sched', finished key (run key key_eqb H act true sched' st) = false ->
          exists e, step key key_eqb H act true (run key key_eqb H act true sched' st) e <> None).
Proof.
  intros key key_eqb H act Hk Hinj r Hwf s0 Htr oc Hoc reqs Hreq sched.
  apply (c31_terminates key key_eqb H act Hk Hinj r Hwf s0 Htr oc Hoc (map (plan r) reqs) Hreq).
  intros ts Hts. apply in_map_iff in Hts. destruct Hts as (req & <- & _). apply plan_deps_closed. exact Hwf.
Qed.

Lemma ex_plan_nonvacuous :
  requests_ok act_cmd ex_repo (map (plan ex_repo) [[s "//p:b"]; [s "//p:b"]])
  /\ map (plan ex_repo) [[s "//p:b"]; [s "//p:b"]] = [ex_repo; ex_repo]
  /\ mu ckey (cinit_c (empty_store ckey) (Some (empty_cache ckey)) [ex_repo; ex_repo]) = 12.
Proof.
  assert (E : map (plan ex_repo) [[s "//p:b"]; [s "//p:b"]] = [ex_repo; ex_repo]) by (vm_compute; reflexivity).
  split; [rewrite E; exact ex_requests_ok|]. split; [exact E|vm_compute; reflexivity].
Qed.
