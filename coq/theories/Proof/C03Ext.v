(* Proofs about Model/C03Ext.v (follow-up of the seeded changes C03/r2-m1..m3).  Each main theorem is stated about the
   definition REGENERATED from the source (Gen/C03Incr.v): a change of the statement it was read off changes the
   generated value and the proof no longer goes through. *)
From Coq Require Import List Bool Arith Lia Permutation.
From PlzV Require Gen.C03Incr.
From PlzV Require Import Base.Harness Base.StrFacts Model.Engine Model.C03Ext.
Import ListNotations.

(* ------------------------------------------------------------------------------------------ *)
(* Link: with the CopyHash mark on every way out of filegroupBuilder.Build the consumer always sees the hash of the
   CURRENT content of the source, whatever the history of edits in place, replacements, deletions of plz-out and builds *)

(* the user's inode never carries an xattr; a separate output inode carries none or the right one *)
Definition linv (st : lstate) : Prop :=
  i_xattr (l_src st) = None
  /\ match l_out st with
     | OSep o => i_xattr o = None \/ i_xattr o = Some (i_content o)
     | _ => True
     end.

Lemma lrun_spec : forall evs st, linv st ->
  lrun true st evs = spec_runs (i_content (l_src st)) (l_rec st) evs.
Proof.
  induction evs as [|e evs IH]; intros st [Hx Ho]; [reflexivity|].
  destruct st as [src out rec]; cbn [l_src l_out l_rec] in *.
  destruct e as [c|c| |]; cbn [lrun lstep spec_runs l_src l_out l_rec].
  - rewrite IH; [reflexivity|]. split; cbn [l_src l_out i_xattr]; assumption.
  - rewrite IH; [reflexivity|]. split; cbn [l_src l_out i_xattr]; [reflexivity|].
    destruct out as [| |o]; [exact I|left; exact Hx|exact Ho].
  - rewrite IH; [reflexivity|]. split; cbn [l_src l_out]; [exact Hx|exact I].
  - destruct out as [| |o]; cbn [fg_build].
    + rewrite IH; [reflexivity|]. split; cbn [l_src l_out]; [exact Hx|exact I].
    + rewrite IH; [reflexivity|]. split; cbn [l_src l_out]; [exact Hx|exact I].
    + assert (Hh : match i_xattr o with Some h => h | None => i_content o end = i_content o)
        by (destruct Ho as [-> | ->]; reflexivity).
      rewrite Hh. destruct (str_eqb_spec (i_content src) (i_content o)) as [E|E].
      * rewrite IH; [cbn [l_src l_rec]; rewrite E; reflexivity|].
        split; cbn [l_src l_out i_xattr i_content]; [exact Hx|right; reflexivity].
      * rewrite IH; [reflexivity|]. split; cbn [l_src l_out]; [exact Hx|exact I].
Qed.

Lemma same_copy_true : same_copy = true.
Proof. reflexivity. Qed.

Theorem link_runs_exact : forall c0 evs, lrun same_copy (linit c0) evs = spec_runs c0 None evs.
Proof.
  intros c0 evs. rewrite same_copy_true. apply (lrun_spec evs (linit c0)).
  split; [reflexivity|exact I].
Qed.

(* the mark is needed: build, a second build in a new process (the hash lands on the user's inode), an edit in place *)
Lemma link_needs_copyhash :
  let evs := [Build; Build; EditInPlace (s "two"); Build] in
  map snd (lrun false (linit (s "one")) evs) = [true; false; false]
  /\ map snd (spec_runs (s "one") None evs) = [true; false; true].
Proof. vm_compute. split; reflexivity. Qed.

(* ------------------------------------------------------------------------------------------ *)
(* Conc: lock, THEN needsBuilding: under every schedule of any number of processes the command runs at most once *)

Definition lock_first : list C03Incr.pstep := [C03Incr.PLock; C03Incr.PCheck; C03Incr.PBuild; C03Incr.PUnlock].

Definition pinv (st : cstate) (i : nat) : Prop :=
  let p := c_procs st i in
     (p_rest p = lock_first /\ holds st i = false)
  \/ (p_rest p = [C03Incr.PCheck; C03Incr.PBuild; C03Incr.PUnlock] /\ holds st i = true)
  \/ (p_rest p = [C03Incr.PBuild; C03Incr.PUnlock] /\ holds st i = true /\ c_built st = false)
  \/ (p_rest p = [C03Incr.PUnlock] /\ holds st i = true /\ c_built st = true)
  \/ (p_rest p = [] /\ holds st i = false /\ c_built st = true).

Definition ginv (b0 : bool) (st : cstate) : Prop :=
  if b0 then c_built st = true /\ c_count st = 0
  else (c_built st = false /\ c_count st = 0) \/ (c_built st = true /\ c_count st = 1).

Definition cinv (b0 : bool) (st : cstate) : Prop := ginv b0 st /\ forall i, pinv st i.

Lemma holds_unique st i j : holds st i = true -> holds st j = true -> i = j.
Proof.
  unfold holds. destruct (c_lock st) as [k|]; [|discriminate].
  intros Hi Hj. apply Nat.eqb_eq in Hi, Hj. congruence.
Qed.

Lemma setp_same f i p : setp f i p i = p.
Proof. unfold setp. rewrite Nat.eqb_refl. reflexivity. Qed.
Lemma setp_other f i p j : j <> i -> setp f i p j = f j.
Proof. intros H. unfold setp. destruct (Nat.eqb_spec j i); [contradiction|reflexivity]. Qed.

(* the invariant of a process other than the one that moved survives when its view of the lock and of `built` does *)
Lemma pinv_other st st' i j p :
  j <> i -> c_procs st' = setp (c_procs st) i p ->
  holds st' j = holds st j -> (c_built st = true -> c_built st' = true) ->
  (holds st j = true -> c_built st' = c_built st) ->
  pinv st j -> pinv st' j.
Proof.
  intros Hne Hp Hh Hb Hb' H. unfold pinv in *. rewrite Hp, (setp_other _ _ _ _ Hne), Hh.
  destruct H as [[A B]|[[A B]|[[A [B C]]|[[A [B C]]|[A [B C]]]]]].
  - left; auto.
  - right; left; auto.
  - right; right; left. repeat split; auto. rewrite (Hb' B); exact C.
  - right; right; right; left. auto.
  - right; right; right; right. auto.
Qed.

Lemma cstep_inv b0 st i : cinv b0 st -> cinv b0 (cstep st i).
Proof.
  intros [G P]. pose proof (P i) as Pi. unfold pinv in Pi.
  destruct Pi as [[A B]|[[A B]|[[A [B C]]|[[A [B C]]|[A [B C]]]]]]; unfold cstep; rewrite A; unfold lock_first.
  - (* asks for the lock *)
    destruct (c_lock st) as [k|] eqn:L; [split; assumption|].
    split; [exact G|]. intros j. destruct (Nat.eq_dec j i) as [->|Hne].
    + right; left. cbn [c_procs]. rewrite setp_same. cbn [p_rest]. split; [reflexivity|].
      unfold holds; cbn [c_lock]. apply Nat.eqb_refl.
    + assert (Hj : holds st j = false) by (unfold holds; rewrite L; reflexivity).
      eapply (pinv_other st _ i j _ Hne); [reflexivity|..]; cbn [c_built]; auto.
      rewrite Hj. unfold holds; cbn [c_lock]. destruct (Nat.eqb_spec i j); [congruence|reflexivity].
  - (* holds the lock, asks needsBuilding *)
    destruct (c_built st) eqn:Bt.
    + split; [unfold ginv in *; cbn [c_built c_count]; rewrite Bt in G; exact G|].
      intros j. destruct (Nat.eq_dec j i) as [->|Hne].
      * right; right; right; left. cbn [c_procs]. rewrite setp_same, B. cbn [p_rest].
        repeat split; auto.
      * eapply (pinv_other st _ i j _ Hne); [reflexivity|..]; cbn [c_built]; auto.
    + split; [unfold ginv in *; cbn [c_built c_count]; rewrite Bt in G; exact G|].
      intros j. destruct (Nat.eq_dec j i) as [->|Hne].
      * right; right; left. cbn [c_procs]. rewrite setp_same. cbn [p_rest]. repeat split; auto.
      * eapply (pinv_other st _ i j _ Hne); [reflexivity|..]; cbn [c_built]; auto; try congruence.
  - (* runs the command *)
    split.
    + unfold ginv in *. cbn [c_built c_count]. destruct b0.
      * destruct G; congruence.
      * destruct G as [[_ G]|[G _]]; [right; split; [reflexivity|lia]|congruence].
    + intros j. destruct (Nat.eq_dec j i) as [->|Hne].
      * right; right; right; left. cbn [c_procs]. rewrite setp_same. cbn [p_rest]. repeat split; auto.
      * pose proof (P j) as Pj.
        assert (Hj : holds st j = false).
        { destruct (holds st j) eqn:E; [|reflexivity]. exfalso. apply Hne. symmetry. exact (holds_unique st i j B E). }
        eapply (pinv_other st _ i j _ Hne); [reflexivity|..]; cbn [c_built]; auto; try congruence.
  - (* releases the lock *)
    rewrite B. split; [exact G|].
    intros j. destruct (Nat.eq_dec j i) as [->|Hne].
    + right; right; right; right. cbn [c_procs]. rewrite setp_same. cbn [p_rest]. repeat split; auto.
    + assert (Hj : holds st j = false).
      { destruct (holds st j) eqn:E; [|reflexivity]. exfalso. apply Hne. symmetry. exact (holds_unique st i j B E). }
      eapply (pinv_other st _ i j _ Hne); [reflexivity|..]; cbn [c_built]; auto; try congruence.
  - split; assumption.
Qed.

Lemma crun_inv b0 sched : forall st, cinv b0 st -> cinv b0 (crun st sched).
Proof.
  induction sched as [|i sched IH]; intros st H; [exact H|].
  cbn [crun fold_left]. apply IH. apply cstep_inv. exact H.
Qed.

Lemma cinit_inv b0 : cinv b0 (cinit lock_first b0).
Proof.
  split.
  - unfold ginv, cinit; cbn. destruct b0; auto.
  - intros i. left. split; reflexivity.
Qed.

Lemma program_is_lock_first : C03Incr.build_target_program = lock_first.
Proof. reflexivity. Qed.

(* any number of concurrent `plz build` of one target, any schedule: the command runs at most once, never when the
   target was up to date, and exactly once by the time any process has finished with an out-of-date target *)
Theorem conc_runs_once : forall b0 sched,
  let st := crun (cinit C03Incr.build_target_program b0) sched in
  c_count st <= 1
  /\ (b0 = true -> c_count st = 0)
  /\ (forall i, p_rest (c_procs st i) = [] -> c_built st = true /\ c_count st = if b0 then 0 else 1).
Proof.
  intros b0 sched. rewrite program_is_lock_first.
  destruct (crun_inv b0 sched _ (cinit_inv b0)) as [G P].
  set (st := crun (cinit lock_first b0) sched) in *. cbn zeta.
  unfold ginv in G. split; [|split].
  - destruct b0; [destruct G; lia|destruct G as [[_ G]|[_ G]]; lia].
  - intros ->. destruct G; assumption.
  - intros i Hi. pose proof (P i) as Pi. unfold pinv in Pi. rewrite Hi in Pi.
    destruct Pi as [[A _]|[[A _]|[[A _]|[[A _]|[_ [_ C]]]]]]; try discriminate.
    split; [exact C|]. destruct b0; [destruct G; assumption|destruct G as [[G _]|[_ G]]; congruence].
Qed.

(* needsBuilding BEFORE the lock, not asked again: two processes run the command twice *)
Lemma check_before_lock_runs_twice :
  c_count (crun (cinit [C03Incr.PCheck; C03Incr.PLock; C03Incr.PBuild; C03Incr.PUnlock] false) [0; 1; 0; 0; 0; 1; 1; 1]) = 2.
Proof. reflexivity. Qed.

(* the fair schedule the harness cases are replayed with finishes every process *)
Lemma round_robin_finishes_3 : forall i, i < 3 ->
  p_rest (c_procs (crun (cinit C03Incr.build_target_program false) (round_robin 3)) i) = [].
Proof. intros i H. destruct i as [|[|[|i]]]; [reflexivity..|lia]. Qed.

(* ------------------------------------------------------------------------------------------ *)
(* Named: the bytes ruleHash writes for the named outputs do not depend on the order in which the map is iterated *)

Lemma leb_total a b : str_leb a b = false -> str_leb b a = true.
Proof. unfold str_leb. rewrite (str_cmp_antisym a b). destruct (str_cmp a b); cbn; congruence. Qed.

Lemma leb_antisym a b : str_leb a b = true -> str_leb b a = true -> a = b.
Proof.
  unfold str_leb. rewrite (str_cmp_antisym a b). destruct (str_cmp a b) eqn:E; cbn; try congruence.
  intros _ _. apply str_cmp_eq. exact E.
Qed.

Lemma leb_trans a b c : str_leb a b = true -> str_leb b c = true -> str_leb a c = true.
Proof.
  unfold str_leb. destruct (str_cmp a b) eqn:E1; try congruence; destruct (str_cmp b c) eqn:E2; try congruence; intros _ _.
  - apply str_cmp_eq in E1, E2. subst. rewrite str_cmp_refl. reflexivity.
  - apply str_cmp_eq in E1. subst. rewrite E2. reflexivity.
  - apply str_cmp_eq in E2. subst. rewrite E1. reflexivity.
  - rewrite (str_cmp_lt_trans _ _ _ E1 E2). reflexivity.
Qed.

Lemma ins_comm a b l : ins_str a (ins_str b l) = ins_str b (ins_str a l).
Proof.
  induction l as [|y r IH]; cbn [ins_str].
  - destruct (str_leb a b) eqn:E1, (str_leb b a) eqn:E2; try reflexivity.
    + rewrite (leb_antisym _ _ E1 E2). reflexivity.
    + pose proof (leb_total _ _ E1). congruence.
  - destruct (str_leb b y) eqn:Eby, (str_leb a y) eqn:Eay; cbn [ins_str]; rewrite ?Eby, ?Eay.
    + destruct (str_leb a b) eqn:E1, (str_leb b a) eqn:E2; cbn [ins_str]; rewrite ?Eby, ?Eay; try reflexivity.
      * rewrite (leb_antisym _ _ E1 E2). reflexivity.
      * pose proof (leb_total _ _ E1). congruence.
    + destruct (str_leb a b) eqn:E1; [pose proof (leb_trans _ _ _ E1 Eby); congruence|].
      cbn [ins_str]; rewrite ?Eay, ?Eby; reflexivity.
    + destruct (str_leb b a) eqn:E2; [pose proof (leb_trans _ _ _ E2 Eay); congruence|].
      cbn [ins_str]; rewrite ?Eay, ?Eby; reflexivity.
    + rewrite IH. reflexivity.
Qed.

Lemma sort_perm l l' : Permutation l l' -> sort_str l = sort_str l'.
Proof.
  induction 1 as [|x l l' _ IH|x y l|l l' l'' _ IH1 _ IH2]; cbn [sort_str fold_right].
  - reflexivity.
  - fold (sort_str l) (sort_str l'). rewrite IH. reflexivity.
  - apply ins_comm.
  - congruence.
Qed.

Lemma alookup_perm {A} k (m m' : list (str * A)) :
  NoDup (map fst m) -> Permutation m m' -> alookup k m' = alookup k m.
Proof.
  intros Hnd Hp. induction Hp as [|[x v] l l' Hp IH|[x v] [y w] l|l l' l'' Hp1 IH1 Hp2 IH2].
  - reflexivity.
  - cbn [alookup]. inversion Hnd; subst. rewrite IH; auto.
  - cbn [alookup]. destruct (str_eqb_spec k x) as [Ex|Hx], (str_eqb_spec k y) as [E|Hy]; try reflexivity.
    subst x; subst y. exfalso. cbn in Hnd. inversion Hnd as [|? ? Hin _]; subst. apply Hin. left. reflexivity.
  - rewrite IH2, IH1; auto.
    apply (Permutation_NoDup (Permutation_map fst Hp1)). exact Hnd.
Qed.

Lemma named_sorted_independent m m' :
  NoDup (map fst m) -> Permutation m m' ->
  named_stream C03Incr.ItSortedNames m' = named_stream C03Incr.ItSortedNames m.
Proof.
  intros Hnd Hp. unfold named_stream.
  rewrite (sort_perm (map fst m') (map fst m)) by (apply Permutation_map, Permutation_sym; exact Hp).
  apply flat_map_ext. intros name. rewrite (alookup_perm name m m' Hnd Hp). reflexivity.
Qed.

Lemma iteration_is_sorted : C03Incr.named_outs_iteration = C03Incr.ItSortedNames.
Proof. reflexivity. Qed.

(* the map iterated in any two orders (m' a permutation of m, distinct names): the same bytes enter the rule hash *)
Theorem named_order_independent : forall m m',
  NoDup (map fst m) -> Permutation m m' ->
  named_stream C03Incr.named_outs_iteration m' = named_stream C03Incr.named_outs_iteration m.
Proof. rewrite iteration_is_sorted. exact named_sorted_independent. Qed.

(* ranging over the map itself is not: two groups in the other order give other bytes *)
Lemma named_map_range_depends_on_order :
  let m := [(s "hdrs", [s "m.h"]); (s "srcs", [s "m.c"])] in
  NoDup (map fst m) /\ Permutation m (rev m)
  /\ named_stream C03Incr.ItMapRange (rev m) <> named_stream C03Incr.ItMapRange m
  /\ named_stream C03Incr.ItSortedNames (rev m) = named_stream C03Incr.ItSortedNames m.
Proof.
  cbn zeta. split; [|split; [|split]].
  - repeat constructor; cbn; intuition discriminate.
  - apply Permutation_rev.
  - vm_compute. discriminate.
  - reflexivity.
Qed.
