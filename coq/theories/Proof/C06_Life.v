(* C06 - the states of the targets while the build waits (Model/C06.v: tstate, lworld, levent, lstep).
   Invariant over every sequence of queueing / waiting / build-step events: the successfully built targets,
   in the order in which they finished, form a post-order of the graph.  Hence a target in a built state
   (IsBuilt: Built <= s < DependencyFailed) never lies on a cycle, and everything beneath it is built.  The
   same is NOT true of the states at and above DependencyFailed: a member of a cycle becomes
   DependencyFailed when a failed dependency comes before the next member of the cycle in Dependencies(). *)
From PlzV Require Import Base.Harness Model.C06 Proof.C06.
From Coq Require Import Lia Relations.

(* ------------------------------------------------------------------------------------------- *)
(* State updates                                                                                 *)

Lemma nth_set_nth {A} (d x : A) : forall l v u,
  nth u (set_nth v x l) d = if Nat.eqb u v && Nat.ltb v (length l) then x else nth u l d.
Proof.
  induction l as [|y r IH]; intros v u.
  - rewrite andb_false_r. destruct v; reflexivity.
  - destruct v as [|v]; destruct u as [|u]; cbn [set_nth nth]; try reflexivity.
    rewrite IH. reflexivity.
Qed.

Lemma state_of_set w v s u :
  state_of (set_state w v s) u = if Nat.eqb u v && Nat.ltb v (length (l_state w)) then s else state_of w u.
Proof. unfold state_of, set_state. cbn [l_state]. apply nth_set_nth. Qed.

Lemma tstate_eqb_eq a b : tstate_eqb a b = true -> a = b.
Proof. destruct a, b; intros H; try reflexivity; discriminate H. Qed.

Lemma state_in_range w t : state_of w t <> Inactive -> t < length (l_state w).
Proof.
  intros H. destruct (Nat.lt_ge_cases t (length (l_state w))) as [Hl | Hl]; [exact Hl |].
  exfalso. apply H. unfold state_of. apply nth_overflow. exact Hl.
Qed.

Lemma first_unbuilt_none w : forall ds, first_unbuilt w ds = None -> forall d, In d ds -> is_built (state_of w d) = true.
Proof.
  induction ds as [|a r IH]; intros H d Hd; [destruct Hd |]. cbn [first_unbuilt] in H.
  destruct (is_built (state_of w a)) eqn:E; [| discriminate].
  destruct Hd as [<- | Hd]; [exact E | exact (IH H d Hd)].
Qed.

(* ------------------------------------------------------------------------------------------- *)
(* The invariant                                                                                 *)

Record linv (g : graph) (w : lworld) : Prop := {
  inv_post : post g (l_built w);                                                   (* finished in post-order *)
  inv_built_logged : forall v, is_built (state_of w v) = true -> In v (l_built w);
  inv_pending : forall v, state_of w v = Pending -> incl (deps g v) (l_built w);   (* ready: all dependencies built *)
  inv_logged_built : forall v, In v (l_built w) -> is_built (state_of w v) = true  (* built states are final *)
}.

Lemma set_state_inv g w t s :
  linv g w -> is_built (state_of w t) = false -> is_built s = false ->
  (s = Pending -> incl (deps g t) (l_built w)) -> linv g (set_state w t s).
Proof.
  intros [Ha Hb Hc Hd] Ht Hs Hp. split; cbn [set_state l_built].
  - exact Ha.
  - intros v. rewrite state_of_set. destruct (Nat.eqb v t && Nat.ltb t (length (l_state w))); [congruence | apply Hb].
  - intros v. rewrite state_of_set. destruct (Nat.eqb v t && Nat.ltb t (length (l_state w))) eqn:E; [| apply Hc].
    apply andb_prop in E as [E _]. apply Nat.eqb_eq in E. subst v. exact Hp.
  - intros v Hv. rewrite state_of_set. destruct (Nat.eqb v t && Nat.ltb t (length (l_state w))) eqn:E; [| apply Hd; exact Hv].
    apply andb_prop in E as [E _]. apply Nat.eqb_eq in E. subst v. rewrite (Hd t Hv) in Ht. discriminate Ht.
Qed.

Lemma build_inv g w t r :
  linv g w -> state_of w t = Pending -> is_built r = true ->
  linv g (LW (set_nth t r (l_state w)) (t :: l_built w)).
Proof.
  intros [Ha Hb Hc Hd] Ht Hr.
  assert (Hrange : Nat.ltb t (length (l_state w)) = true).
  { apply Nat.ltb_lt. apply state_in_range. rewrite Ht. discriminate. }
  assert (Hst : forall u, state_of (LW (set_nth t r (l_state w)) (t :: l_built w)) u
                          = if Nat.eqb u t then r else state_of w u).
  { intros u. unfold state_of. cbn [l_state]. rewrite nth_set_nth, Hrange, andb_true_r. reflexivity. }
  split; cbn [l_built].
  - split; [apply Hc; exact Ht | exact Ha].
  - intros v. rewrite Hst. destruct (Nat.eqb v t) eqn:E.
    + apply Nat.eqb_eq in E. intros _. left. symmetry. exact E.
    + intros H. right. apply Hb. exact H.
  - intros v. rewrite Hst. destruct (Nat.eqb v t) eqn:E.
    + intros ->. discriminate Hr.
    + intros H. apply incl_tl. apply Hc. exact H.
  - intros v Hv. rewrite Hst. destruct (Nat.eqb v t) eqn:E; [exact Hr |].
    destruct Hv as [<- | Hv]; [rewrite Nat.eqb_refl in E; discriminate E | apply Hd; exact Hv].
Qed.

Lemma ldo_inv g w e : linv g w -> linv g (ldo g w e).
Proof.
  intros Hinv. unfold ldo, lstep. destruct e as [t|t d|t|t r].
  - destruct (tstate_eqb (state_of w t) Inactive && Nat.ltb t (length (l_state w))) eqn:E; [| exact Hinv].
    apply andb_prop in E as [E _]. apply tstate_eqb_eq in E.
    apply set_state_inv; [exact Hinv | rewrite E; reflexivity | reflexivity | discriminate].
  - destruct (tstate_eqb (state_of w t) Active) eqn:E; [| exact Hinv]. apply tstate_eqb_eq in E.
    destruct (first_unbuilt w (deps g t)) as [d'|]; [| exact Hinv].
    destruct (Nat.eqb d d' && is_failed (state_of w d)); [| exact Hinv].
    apply set_state_inv; [exact Hinv | rewrite E; reflexivity | reflexivity | discriminate].
  - destruct (tstate_eqb (state_of w t) Active) eqn:E; [| exact Hinv]. apply tstate_eqb_eq in E.
    destruct (first_unbuilt w (deps g t)) as [d'|] eqn:Ef; [exact Hinv |].
    apply set_state_inv; [exact Hinv | rewrite E; reflexivity | reflexivity |].
    intros _ d Hd. apply (inv_built_logged g w Hinv). exact (first_unbuilt_none w _ Ef d Hd).
  - destruct (tstate_eqb (state_of w t) Pending) eqn:E; [| exact Hinv]. apply tstate_eqb_eq in E.
    destruct (is_built r) eqn:Er; [apply build_inv; assumption |].
    destruct (tstate_eqb r Failed) eqn:Ef; [| exact Hinv]. apply tstate_eqb_eq in Ef. subst r.
    apply set_state_inv; [exact Hinv | rewrite E; reflexivity | reflexivity | discriminate].
Qed.

Lemma lrun_inv g : forall es w, linv g w -> linv g (lrun g w es).
Proof.
  unfold lrun. induction es as [|e r IH]; intros w H; [exact H |]. cbn [fold_left]. apply IH. apply ldo_inv. exact H.
Qed.

Lemma state_of_lworld0 n v : state_of (lworld0 n) v = Inactive.
Proof.
  unfold state_of, lworld0. cbn [l_state].
  destruct (nth_in_or_default v (repeat Inactive n) Inactive) as [H | H]; [exact (repeat_spec _ _ _ H) | exact H].
Qed.

Lemma lworld0_inv g n : linv g (lworld0 n).
Proof.
  split.
  - exact I.
  - intros v. rewrite state_of_lworld0. discriminate.
  - intros v. rewrite state_of_lworld0. discriminate.
  - intros v [].
Qed.

(* every world that any sequence of events leads to from a fresh graph *)
Theorem reachable_inv g n es : linv g (lrun g (lworld0 n) es).
Proof. apply lrun_inv. apply lworld0_inv. Qed.

(* ------------------------------------------------------------------------------------------- *)
(* What a state says about cycles                                                                *)

(* "a target only gets built once everything beneath it has been" *)
Theorem built_closed g n es v d :
  let w := lrun g (lworld0 n) es in
  is_built (state_of w v) = true -> edge g v d -> is_built (state_of w d) = true.
Proof.
  intros w Hv He. pose proof (reachable_inv g n es) as Hinv. fold w in Hinv.
  apply (inv_logged_built g w Hinv). eapply post_closed; [exact (inv_post g w Hinv) | | exact He].
  apply (inv_built_logged g w Hinv). exact Hv.
Qed.

(* p: a test on target.State() after which a target is taken to be off every cycle *)
Definition guard_ok (p : tstate -> bool) : Prop :=
  forall g n es v, p (state_of (lrun g (lworld0 n) es) v) = true -> ~ clos_trans nat (edge g) v v.

(* ... it may be IsBuilt *)
Theorem guard_is_built_ok : guard_ok is_built.
Proof.
  intros g n es v Hv. pose proof (reachable_inv g n es) as Hinv.
  apply (post_acyclic g _ v (inv_post g _ Hinv)). apply (inv_built_logged g _ Hinv). exact Hv.
Qed.

(* ------------------------------------------------------------------------------------------- *)
(* The schedule that is compared with the real queueing code leads to a reachable world           *)

Lemma lrun_app g w a b : lrun g w (a ++ b) = lrun g (lrun g w a) b.
Proof. unfold lrun. apply fold_left_app. Qed.

Lemma round_reach g plan : forall ts w, exists es, round g plan ts w = lrun g w es.
Proof.
  induction ts as [|t r IH]; intros w; cbn [round]; [exists []; reflexivity |].
  destruct (IH (lrun g w (target_events g plan w t))) as [es E].
  exists (target_events g plan w t ++ es). rewrite lrun_app. exact E.
Qed.

Lemma settle_reach g plan : forall fuel w, exists es, settle g plan fuel w = lrun g w es.
Proof.
  induction fuel as [|f IH]; intros w; cbn [settle]; [exists []; reflexivity |].
  destruct (round_reach g plan (seq 0 (length (l_state w))) w) as [es1 E1]. rewrite E1.
  destruct (IH (lrun g w es1)) as [es2 E2]. exists (es1 ++ es2). rewrite lrun_app. exact E2.
Qed.

Theorem settled_reach g roots plan : exists es, settled g roots plan = lrun g (lworld0 (length g)) es.
Proof.
  unfold settled. destruct (settle_reach g plan (3 * length g + 3) (lrun g (lworld0 (length g)) (map LQueue roots))) as [es E].
  exists (map LQueue roots ++ es). rewrite lrun_app. exact E.
Qed.

Corollary settled_inv g roots plan : linv g (settled g roots plan).
Proof. destruct (settled_reach g roots plan) as [es ->]. apply reachable_inv. Qed.

(* ------------------------------------------------------------------------------------------- *)
(* ... it may not be "State() >= Built"                                                         *)

(* 0 depends on 1 and 2 (in this order), 2 depends on 0, the build step of 1 fails.  0 waits for 1 first,
   sees it failed and becomes DependencyFailed; 2, waiting for 0, follows.  Both lie on the cycle 0 <-> 2,
   both are in a state >= Built, neither is built. *)
Theorem failed_state_on_cycle :
  exists g roots plan v,
    let w := settled g roots plan in
    clos_trans nat (edge g) v v
    /\ l_state w = [DependencyFailed; Failed; DependencyFailed]
    /\ N.leb (rank Built) (rank (state_of w v)) = true
    /\ is_built (state_of w v) = false.
Proof.
  exists [[1; 2]; []; [0]], [0], [Built; Failed; Built], 0. cbn zeta.
  split; [| split; [| split]]; try (vm_compute; reflexivity).
  apply t_trans with 2; apply t_step; cbn; tauto.
Qed.

Theorem guard_ge_built_not_ok : ~ guard_ok (fun s => N.leb (rank Built) (rank s)).
Proof.
  intros H. destruct failed_state_on_cycle as (g & roots & plan & v & Hc & _ & Hge & _).
  destruct (settled_reach g roots plan) as [es E]. rewrite E in Hge.
  exact (H g (length g) es v Hge Hc).
Qed.
