(* C28 follow-up (round 2) - PathHasher.Hash's memo and the file sources of an input root.
   With the store into the memo guarded by `err == nil`, the memo only ever holds the digest of what is on disk
   (invariant over every history of file-system repairs and preparations), so EVERY preparation in a long-lived
   process yields exactly the insertions - hence the input root and the action digest - that a fresh process
   computes at that moment.  Without the guard the statement is false: unreadable, prepare (fails), repaired,
   prepare: the file node carries the sum of nothing. *)
From PlzV Require Import Base.Harness Base.StrFacts Model.C28.

Lemma path_eqb_eq p q : path_eqb p q = true <-> p = q.
Proof.
  unfold path_eqb. revert q. induction p as [|a p IH]; intros [|b q]; cbn; try (split; [discriminate|discriminate]); [split; reflexivity|].
  rewrite andb_true_iff, IH. split.
  - intros [E1 E2]. destruct (str_eqb_spec a b); [subst; reflexivity|discriminate].
  - intros E. injection E as -> ->. split; [|reflexivity]. destruct (str_eqb_spec b b); [reflexivity|contradiction].
Qed.

Lemma path_eqb_refl p : path_eqb p p = true.
Proof. apply path_eqb_eq. reflexivity. Qed.

(* the memo is sound for the file system: a remembered digest is the digest of the file that is there *)
Definition memo_inv (fs : fsys) (mm : memo) : Prop :=
  forall p h, mm p = Some (Some h) -> exists e, fs p = FGood h e.

Lemma memo_inv_empty fs : memo_inv fs memo_empty.
Proof. intros p h E. discriminate. Qed.

(* the file system only ever changes where there is nothing readable: a fault that goes away, a file that appears *)
Fixpoint repairs_only (fs : fsys) (h : list pstep) : Prop :=
  match h with
  | [] => True
  | PSet p st :: r => (forall dg e, fs p <> FGood dg e) /\ repairs_only (fs_set p st fs) r
  | PPrep _ :: r => repairs_only fs r
  end.

Section Guarded.
  Notation hash_path := (hash_path true).
  Notation prepare := (prepare true).

  Lemma hash_path_inv fs mm p : memo_inv fs mm -> memo_inv fs (fst (hash_path fs mm p)).
  Proof.
    intros Hi. unfold C28.hash_path.
    destruct (mm p) as [[h|]|] eqn:Em; [exact Hi| |];
      (destruct (fs p) as [|partial|dg e] eqn:Ef; cbn [fst]; [exact Hi|exact Hi|]);
      (intros q h' E; unfold memo_set in E; destruct (path_eqb q p) eqn:Eq;
       [apply path_eqb_eq in Eq; subst q; injection E as <-; exists e; exact Ef|exact (Hi q h' E)]).
  Qed.

  (* the answer does not depend on WHICH sound memo the process has *)
  Lemma hash_path_any fs m1 m2 p : memo_inv fs m1 -> memo_inv fs m2 -> snd (hash_path fs m1 p) = snd (hash_path fs m2 p).
  Proof.
    intros H1 H2. unfold C28.hash_path.
    destruct (m1 p) as [[h1|]|] eqn:E1; destruct (m2 p) as [[h2|]|] eqn:E2;
      try (destruct (H1 _ _ E1) as [e1 F1]); try (destruct (H2 _ _ E2) as [e2 F2]);
      try rewrite F1; try rewrite F2; cbn [snd]; try reflexivity;
      try (rewrite F1 in F2; injection F2 as -> _; reflexivity);
      destruct (fs p); reflexivity.
  Qed.

  Lemma prepare_inv fs srcs : forall mm, memo_inv fs mm -> memo_inv fs (fst (prepare fs mm srcs)).
  Proof.
    induction srcs as [|x r IH]; intros mm Hi; cbn [C28.prepare]; [exact Hi|].
    pose proof (hash_path_inv fs mm (src_path x) Hi) as Hh.
    destruct (fs (src_path x)) eqn:Ef; [exact Hi| |];
      (destruct (hash_path fs mm (src_path x)) as [mm1 [h|]] eqn:Eh; cbn [fst] in Hh;
       [specialize (IH mm1 Hh); destruct (prepare fs mm1 r) as [mm2 rest]; exact IH|exact Hh]).
  Qed.

  Lemma prepare_any fs srcs : forall m1 m2, memo_inv fs m1 -> memo_inv fs m2 -> snd (prepare fs m1 srcs) = snd (prepare fs m2 srcs).
  Proof.
    induction srcs as [|x r IH]; intros m1 m2 H1 H2; cbn [C28.prepare]; [reflexivity|].
    pose proof (hash_path_any fs m1 m2 (src_path x) H1 H2) as Ha.
    pose proof (hash_path_inv fs m1 (src_path x) H1) as I1. pose proof (hash_path_inv fs m2 (src_path x) H2) as I2.
    destruct (fs (src_path x)) eqn:Ef; [reflexivity| |];
      (destruct (hash_path fs m1 (src_path x)) as [a1 r1]; destruct (hash_path fs m2 (src_path x)) as [a2 r2];
       cbn [fst snd] in *; subst r2; destruct r1 as [h|]; [|reflexivity];
       specialize (IH a1 a2 I1 I2); destruct (prepare fs a1 r) as [b1 o1]; destruct (prepare fs a2 r) as [b2 o2];
       cbn [snd] in *; subst o2; reflexivity).
  Qed.

  Lemma fs_set_inv fs mm p st : memo_inv fs mm -> (forall dg e, fs p <> FGood dg e) -> memo_inv (fs_set p st fs) mm.
  Proof.
    intros Hi Hn q h E. destruct (Hi q h E) as [e F]. unfold fs_set. destruct (path_eqb q p) eqn:Eq.
    - apply path_eqb_eq in Eq. subst q. destruct (Hn _ _ F).
    - exists e. exact F.
  Qed.

  (* THE THEOREM: over every history of repairs and preparations, a process started with a sound memo prepares
     every action exactly as a fresh process would at that moment *)
  Theorem memo_history_fresh h : forall fs mm, memo_inv fs mm -> repairs_only fs h ->
    run_hist true fs mm h = fresh_hist true fs h.
  Proof.
    induction h as [|[p st|srcs] r IH]; intros fs mm Hi Hr; cbn [run_hist fresh_hist]; [reflexivity| |].
    - destruct Hr as [Hn Hr]. apply IH; [apply fs_set_inv; assumption|exact Hr].
    - pose proof (prepare_inv fs srcs mm Hi) as Hp.
      pose proof (prepare_any fs srcs mm memo_empty Hi (memo_inv_empty fs)) as Ha.
      destruct (prepare fs mm srcs) as [mm' o]. cbn [fst snd] in *. subst o. f_equal. apply IH; assumption.
  Qed.

  (* a preparation never puts a digest into the root that is not the digest of the file on disk *)
  Lemma prepare_sound fs srcs : forall mm ops, memo_inv fs mm -> snd (prepare fs mm srcs) = Some ops ->
    Forall (fun o => exists x e, In x srcs /\ fs (src_path x) = FGood (match o with AddFile _ n => fdig n | _ => [] end) e
                                 /\ o = AddFile (s_dir x) (FN (s_name x) (match o with AddFile _ n => fdig n | _ => [] end) e)) ops.
  Proof.
    induction srcs as [|x r IH]; intros mm ops Hi E; cbn [C28.prepare] in E.
    - injection E as <-. constructor.
    - pose proof (hash_path_inv fs mm (src_path x) Hi) as Hh.
      assert (Hok : forall h, snd (hash_path fs mm (src_path x)) = HOk h -> exists e, fs (src_path x) = FGood h e).
      { intros h. unfold C28.hash_path. destruct (mm (src_path x)) as [[h0|]|] eqn:Em.
        - cbn. intros E0. injection E0 as <-. exact (Hi _ _ Em).
        - destruct (fs (src_path x)); cbn; try discriminate. intros E0. injection E0 as <-. eexists; reflexivity.
        - destruct (fs (src_path x)); cbn; try discriminate. intros E0. injection E0 as <-. eexists; reflexivity. }
      destruct (fs (src_path x)) as [|partial|dg e] eqn:Ef; [discriminate| |].
      + destruct (hash_path fs mm (src_path x)) as [mm1 [h|]]; [|discriminate].
        destruct (Hok h eq_refl) as [e F]. discriminate.
      + destruct (hash_path fs mm (src_path x)) as [mm1 [h|]] eqn:Eh; [|discriminate]. cbn [fst snd] in *.
        destruct (Hok h eq_refl) as [e' F]. injection F as <- <-.
        specialize (IH mm1). destruct (prepare fs mm1 r) as [mm2 [rest|]]; [|discriminate]. cbn [option_map snd] in *.
        injection E as <-. constructor.
        * exists x, e. cbn. split; [left; reflexivity|]. split; [exact Ef|reflexivity].
        * specialize (IH rest Hh eq_refl). eapply Forall_impl; [|exact IH].
          intros o [y [e0 [Hin Hrest]]]. exists y, e0. split; [right; exact Hin|exact Hrest].
  Qed.
End Guarded.

(* ---- the unguarded store: the statement is false ---- *)
Definition stale_p : path := [s "pkg"; s "data.txt"].
Definition stale_src : list src := [SRC [s "pkg"] (s "data.txt")].
Definition stale_hist : list pstep :=
  [PSet stale_p (FBad (s "sum-of-nothing")); PPrep stale_src; PSet stale_p (FGood (s "real") false); PPrep stale_src].

Lemma unguarded_memo_stale :
  repairs_only fs_empty stale_hist
  /\ run_hist false fs_empty memo_empty stale_hist = [None; Some [AddFile [s "pkg"] (FN (s "data.txt") (s "sum-of-nothing") false)]]
  /\ fresh_hist false fs_empty stale_hist = [None; Some [AddFile [s "pkg"] (FN (s "data.txt") (s "real") false)]]
  /\ run_hist true fs_empty memo_empty stale_hist = fresh_hist true fs_empty stale_hist.
Proof.
  split.
  - cbn. split; [intros dg e; discriminate|]. split; [|exact I]. intros dg e. vm_compute. discriminate.
  - vm_compute. repeat split.
Qed.
