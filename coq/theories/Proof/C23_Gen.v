(* C23 - tie between the hand model and the level arithmetic regenerated from the source by gotrans
   (Gen/C23Levels.v: src/query/deps.go func deps, src/query/reverse_deps.go func findRevdeps).
   If the cut-off test, one of the three `currentLevel(+1)` arguments, the depth-limit test or the report test
   changes in the source, these lemmas stop compiling. *)
From Coq Require Import String.
From PlzV Require Import Base.Harness Model.C23 Gen.C23Levels.

(* the source has the operators and constants the model was written for *)
Lemma c23_levels_source :
  deps_cutoff_op = "=="%string /\ rev_limit_op = "<"%string /\ rev_unlimited = (-1)%Z
  /\ rev_report_op = ">"%string /\ rev_report_bound = 0%Z.
Proof. repeat split; reflexivity. Qed.

(* the level the MODEL passes to the recursive call in each of the three branches of deps, probed with a
   `rec` that records its level argument: printed dependency / hidden dependency of the same rule / other
   hidden dependency - equal to the increments extracted from the source *)
Definition probe (hidden : bool) (dep_parent tgt_parent : label) : Z :=
  let il := mkT [] dep_parent true [] [] in
  let it := mkT [7%N] tgt_parent false [] [] in
  match deps_loop (fun l c st => Some (fst st, [(c, l)])) [(7%N, il)] hidden it 10%Z [7%N] ([], []) with
  | Some (_, [(c, _)]) => (c - 10)%Z
  | _ => (-99)%Z
  end.

Lemma c23_model_steps_are_source_steps :
  [probe false 7%N 3%N; probe false 3%N 3%N; probe false 4%N 3%N] = deps_level_steps
  /\ probe true 3%N 3%N = nth 0 deps_level_steps 0%Z.
Proof. split; vm_compute; reflexivity. Qed.

(* the model's depth-limit and report tests of findRevdeps, probed on a two-target graph (1 depends on 0):
   at depth = limit nothing is pushed or reported, one below the limit the dependent is reported *)
Definition rprobe (nd maxd : Z) : list label :=
  r_ret (rev_step [(0%N, mkT [] 0%N false [] []); (1%N, mkT [0%N] 1%N false [] [])] false maxd 0%N nd (mkR [] [] []) 1%N).

Lemma c23_model_limit_is_source_limit :
  rprobe 2 2 = [] /\ rprobe 1 2 = [1%N] /\ rprobe 5 rev_unlimited = [1%N]
  /\ (if String.eqb rev_limit_op "<" then rprobe 2 2 else [1%N]) = []
  /\ (if String.eqb rev_report_op ">" then rev_report_bound else 1%Z) = 0%Z.
Proof. repeat split; vm_compute; reflexivity. Qed.
