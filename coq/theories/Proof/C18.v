(* C18 - frozen (imported) values against ordinary values, builtin by builtin. *)
From PlzV Require Import Base.Harness Base.StrFacts Model.C16_Syntax Model.C16_Ops Model.C16_Prim Model.C16_Eval Model.C16 Model.C18.

(* both applications have the same outcome (or the model refuses both) *)
Definition same_outcome (a b : bres) : bool :=
  match a, b with
  | BRefused, BRefused => true
  | _, _ => bres_eqb a b
  end.

(* a frozen list / dict and the ordinary value with the same contents *)
Definition indifferent (fuel : nat) (st : state) (b : bapp) (frozen : value) : Prop :=
  same_outcome (apply_b fuel b frozen st) (apply_b fuel b (unfreeze frozen) st) = true.

(* ---- a heap with FROZEN = [3, 1, 2] and D = {"k": 1} ---- *)
Definition st0 : state :=
  set_dicts [[(s "k", VInt 1)]] (set_arrays [[VInt 3; VInt 1; VInt 2]; [VInt 7; VInt 8; VInt 9]] empty_state).
Definition FROZEN : value := VFrozenList (Slice 0 0 3 3).
Definition OTHER : value := VList (Slice 1 0 3 3).
Definition FROZEND : value := VFrozenDict 0.

(* which of the listed builtins tell a frozen list from an ordinary one, on this heap *)
Lemma listed_outcomes :
  map (fun b => same_outcome (apply_b 50 b FROZEN st0) (apply_b 50 b (unfreeze FROZEN) st0)) (listed_list OTHER (VInt 1))
  = [false; false; false; false; false; false; false; false; false; false; false; false; true; true; true; true; false].
Proof. vm_compute. reflexivity. Qed.

Lemma sorted_refutes : ~ indifferent 50 st0 (BNative (s "sorted") [] []) FROZEN.
Proof. unfold indifferent. vm_compute. discriminate. Qed.

Lemma eq_refutes : ~ indifferent 50 st0 BEqSame FROZEN.
Proof. unfold indifferent. vm_compute. discriminate. Qed.

Lemma dict_eq_refutes : ~ indifferent 50 st0 BEqSame FROZEND.
Proof. unfold indifferent. vm_compute. discriminate. Qed.

(* the rejections do not depend on the list, the heap or the fuel: the natives that type-assert pyList
   raise on EVERY frozen list *)
Definition rejecting : list str := [s "sorted"; s "reversed"; s "enumerate"; s "any"; s "all"; s "min"; s "max"].

Theorem natives_reject_frozen : forall fuel st sl name,
  existsb (str_eqb name) rejecting = true ->
  apply_b fuel (BNative name [] []) (VFrozenList sl) st = BRaise.
Proof.
  intros fuel st sl name H. unfold rejecting in H. cbn [existsb] in H.
  repeat (apply orb_true_iff in H; destruct H as [H|H]; [apply str_eqb_eq in H; subst name; reflexivity|]).
  discriminate.
Qed.

Theorem zip_rejects_frozen : forall fuel st sl other,
  apply_b fuel (BNative (s "zip") [] [other]) (VFrozenList sl) st = BRaise.
Proof. intros. reflexivity. Qed.

Theorem eq_never_equal : forall fuel st sl, fuel <> O ->
  apply_b fuel BEqSame (VFrozenList sl) st = BVal (OBool false).
Proof. intros [|f] st sl H; [contradiction|]. reflexivity. Qed.

Theorem int_times_frozen_rejected : forall fuel st sl n, apply_b fuel (BMulR n) (VFrozenList sl) st = BRaise.
Proof. intros. reflexivity. Qed.

Theorem frozen_unsliceable_unpackable : forall fuel st sl lo hi n,
  apply_b fuel (BSliceOf lo hi) (VFrozenList sl) st = BRaise /\ (n <> 1%nat -> apply_b fuel (BUnpack n) (VFrozenList sl) st = BRaise).
Proof.
  intros. split; [reflexivity|]. intros Hn. unfold apply_b, unpack_names.
  destruct n as [|[|n]]; [reflexivity|contradiction|reflexivity].
Qed.

(* ---- C18_partial: the applications that go through interfaces do not look at the wrapper ---- *)
Theorem accepting_indifferent_list : forall fuel st sl b,
  accepting b = true -> apply_b fuel b (VFrozenList sl) st = apply_b fuel b (VList sl) st.
Proof.
  intros fuel st sl b H. destruct b; cbn [accepting] in H; try discriminate; try reflexivity.
  - (* len *) destruct before; [|discriminate]. destruct after; [|discriminate].
    apply str_eqb_eq in H. subst name. reflexivity.
  - (* other + V *) unfold apply_b, apply_bin. destruct other; try reflexivity; discriminate.
  - (* str(V) *) destruct fuel; reflexivity.
Qed.

Theorem accepting_indifferent_dict : forall fuel st i b,
  match b with BContains _ | BIndex _ | BStr | BTruthy => True | BNative name [] [] => name = s "len" | _ => False end ->
  apply_b fuel b (VFrozenDict i) st = apply_b fuel b (VDict i) st.
Proof.
  intros fuel st i b H. destruct b; try contradiction; try reflexivity.
  - destruct before; [|contradiction]. destruct after; [|contradiction]. subst name. reflexivity.
  - destruct fuel; reflexivity.
Qed.
