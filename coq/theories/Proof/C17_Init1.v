(* C17 - from the EMPTY interpreter, part 1: the fragment of build_defs files, the invariant `G` of the states the
   first-time Subinclude of such files produces, and G -> RestInv / closedness.

   The existing theorems (Proof/C17_Iso, C17_Sim7) start from an interpreter AT REST (RestInv), CLOSED
   (closed_stateb) in which every subincludable file is already CACHED.  Here these three hypotheses are
   discharged for the states reached from the empty interpreter by loading build_defs files of an executable
   syntactic fragment (file_class = None):
     top level (after Parser.optimise / optimiseExpressions):
       NAME = <int | str | True | False | None>       NAME = []        NAME = [<scalar literals>]  (folded to an
       optimised.Constant by the optimiser; its expression must be a list of scalar literals)
       def f(a, b=<scalar literal>, c=<non-constant expression without optimised.Constant>): <any body without
       optimised.Constant - the whole language of the frame theorem>
   The three refuting classes are exactly the ways a file leaves it: a constant list with a nested list
   (NestedExport), a constant list literal inside a function body (FuncConstant), a constant list as a default
   (FuncDefault). *)
From Coq Require Import String Lia.
From PlzV Require Import Base.Harness Base.StrFacts Gen.AspTables Model.C16_Syntax Model.C16_Ops Model.C16_Prim Model.C16_Eval.
From PlzV Require Import Proof.C17_Inv Proof.C17_Main Proof.C17_NoConst Proof.C17_Scopes Proof.C17_Iso Proof.C17_Sim7.
Local Open Scope list_scope.
Local Open Scope nat_scope.

(* ---------------------------------------------------------------- the fragment (executable) *)
Definition scalar_lit (e : expr) : bool :=
  match e with Ex (XInt _ | XStr _ | XTrue | XFalse | XNone) [] None => true | _ => false end.

Definition arg_ok (a : str * option expr) : bool :=
  match snd a with None => true | Some e => scalar_lit e || (nc_e e && negb (is_const 32 e)) end.

Definition rhs_ok (e : expr) : bool :=
  match e with
  | Ex (XInt _ | XStr _ | XTrue | XFalse | XNone | XConst _) [] None => true
  | Ex (XList []) [] None => true
  | _ => false
  end.

Definition top_ok (s0 : stmt) : bool :=
  match s0 with
  | SAssign _ e => rhs_ok e
  | SDef _ args body => forallb arg_ok args && no_const body
  | _ => false
  end.

Definition flat_cexpr (e : expr) : bool :=
  match e with Ex (XList es) [] None => forallb scalar_lit es | _ => false end.

Inductive init_defect := NestedExport | FuncConstant | FuncDefault | OutsideFragment.

Definition stmt_class (s0 : stmt) : option init_defect :=
  match s0 with
  | SAssign _ e => if rhs_ok e then None else Some OutsideFragment
  | SDef _ args body =>
      if negb (no_const body) then Some FuncConstant
      else if forallb arg_ok args then None
      else if existsb (fun a : str * option expr => match snd a with Some (Ex (XConst _) [] None) => true | _ => false end) args then Some FuncDefault
      else if existsb (fun a : str * option expr => match snd a with Some e => negb (nc_e e) | None => false end) args then Some FuncConstant
      else Some OutsideFragment
  | _ => Some OutsideFragment
  end.

Fixpoint first_class (p : list stmt) : option init_defect :=
  match p with [] => None | s0 :: r => match stmt_class s0 with Some c => Some c | None => first_class r end end.

(* the class of a build_defs file when its constants are numbered from `base` (the number of optimised.Constant objects
   the interpreter already holds when the file is loaded) *)
Definition class_of (pc : list stmt * list expr) : option init_defect :=
  match first_class (fst pc) with
  | Some c => Some c
  | None => if forallb flat_cexpr (snd pc) then None else Some NestedExport
  end.
Definition file_class (base : nat) (p : prog) : option init_defect :=
  class_of (opt_stmts 32 base (drop_pass 32 p) []).

Lemma stmt_class_ok : forall s0, stmt_class s0 = None -> top_ok s0 = true.
Proof.
  intros s0 H. destruct s0; cbn [stmt_class top_ok] in *; try discriminate.
  - destruct (rhs_ok e); [reflexivity|discriminate].
  - destruct (no_const body); cbn [negb] in H; [|discriminate]. destruct (forallb arg_ok args); [reflexivity|].
    destruct (existsb _ args); [discriminate|]. destruct (existsb _ args); discriminate.
Qed.

Lemma first_class_ok : forall p, first_class p = None -> forallb top_ok p = true.
Proof.
  induction p as [|s0 r IH]; intros H; [reflexivity|]. cbn [first_class forallb] in *.
  destruct (stmt_class s0) eqn:E; [discriminate|]. rewrite (stmt_class_ok _ E), (IH H). reflexivity.
Qed.

Lemma class_of_ok : forall p' cexprs, class_of (p', cexprs) = None -> forallb top_ok p' = true /\ forallb flat_cexpr cexprs = true.
Proof.
  intros p' cexprs H. unfold class_of in H. cbn [fst snd] in H.
  destruct (first_class p') eqn:E1; [discriminate|]. destruct (forallb flat_cexpr cexprs) eqn:E2; [|discriminate].
  split; [apply first_class_ok; exact E1|reflexivity].
Qed.

(* ---------------------------------------------------------------- values of the loaded states *)
Definition scalarb (v : value) : bool := match v with VInt _ | VStr _ | VBool _ | VNone => true | _ => false end.

(* a scalar, a list (mutable or frozen) whose array exists, a function that exists *)
Definition flatvb (la lf : nat) (v : value) : bool :=
  match v with
  | VInt _ | VStr _ | VBool _ | VNone => true
  | VList sl | VFrozenList sl => s_arr sl <? la
  | VFunc i => i <? lf
  | _ => false
  end.
(* ... and not a mutable reference *)
Definition fflatb (la lf : nat) (v : value) : bool := match v with VList _ => false | _ => flatvb la lf v end.

(* the condition on the values of file scope j: the scope of the file being loaded (o = Some j) may hold mutable lists *)
Definition okv (o : option nat) (j la lf : nat) (v : value) : bool :=
  match o with
  | Some k => if Nat.eqb k j then flatvb la lf v else fflatb la lf v
  | None => fflatb la lf v
  end.

Definition dflt_frag (a : str * fdefault) : bool :=
  match snd a with DNo => true | DConst v => scalarb v | DExpr e => nc_e e end.
Definition func_frag (ls : nat) (fd : func) : bool :=
  forallb dflt_frag (f_args fd) && no_const (f_body fd) && (f_scope fd <? ls).

Lemma scalar_fflat : forall la lf v, scalarb v = true -> fflatb la lf v = true.
Proof. intros la lf v H. destruct v; try discriminate; reflexivity. Qed.

Lemma fflat_flat : forall la lf v, fflatb la lf v = true -> flatvb la lf v = true.
Proof. intros la lf v H. destruct v; try discriminate; exact H. Qed.

Lemma flat_mono : forall la lf la' lf' v, la <= la' -> lf <= lf' -> flatvb la lf v = true -> flatvb la' lf' v = true.
Proof.
  intros la lf la' lf' v Ha Hf H. destruct v; cbn [flatvb] in *; try reflexivity; try discriminate;
    apply Nat.ltb_lt in H; apply Nat.ltb_lt; lia.
Qed.

Lemma fflat_mono : forall la lf la' lf' v, la <= la' -> lf <= lf' -> fflatb la lf v = true -> fflatb la' lf' v = true.
Proof.
  intros la lf la' lf' v Ha Hf H. destruct v; cbn [fflatb] in *; try discriminate; eapply flat_mono; eauto.
Qed.

Lemma okv_mono : forall o j la lf la' lf' v, la <= la' -> lf <= lf' -> okv o j la lf v = true -> okv o j la' lf' v = true.
Proof.
  intros o j la lf la' lf' v Ha Hf H. unfold okv in *. destruct o as [k|]; [destruct (Nat.eqb k j)|];
    first [eapply flat_mono; eauto | eapply fflat_mono; eauto].
Qed.

Lemma fflat_okv : forall o j la lf v, fflatb la lf v = true -> okv o j la lf v = true.
Proof. intros o j la lf v H. unfold okv. destruct o as [k|]; [destruct (Nat.eqb k j)|]; auto using fflat_flat. Qed.

Lemma func_frag_mono : forall ls ls' fd, ls <= ls' -> func_frag ls fd = true -> func_frag ls' fd = true.
Proof.
  intros ls ls' fd Hl H. unfold func_frag in *. apply andb_prop in H. destruct H as [H H2]. rewrite H. cbn [andb].
  apply Nat.ltb_lt in H2. apply Nat.ltb_lt. lia.
Qed.

(* ---------------------------------------------------------------- the invariant *)
Notation Fa P l := (Forall (fun x => P x = true) l).

Record G (o : option nat) (st : state) : Prop := mkG {
  g_arr : Forall (fun cells => Fa scalarb cells) (arrays st);
  g_dict : dicts st = [];
  g_fn : Fa (func_frag (length (fscopes st))) (funcs st);
  g_fs : forall j, Forall (fun kv : str * value => okv o j (length (arrays st)) (length (funcs st)) (snd kv) = true) (nth j (fscopes st) []);
  g_loc : locals st = [];
  g_cs : Fa (flatvb (length (arrays st)) (length (funcs st))) (consts st);
  g_sub : Forall (fun le : str * env => Forall (fun kv : str * value => fflatb (length (arrays st)) (length (funcs st)) (snd kv) = true) (snd le)) (subcache st);
  g_cur : match o with Some k => cur st = k /\ k < length (fscopes st) | None => True end
}.

Lemma G_empty : G None empty_state.
Proof. constructor; cbn; auto. intros j. destruct j; constructor. Qed.

Lemma Forall_forallb : forall {A} (p : A -> bool) l, Forall (fun x => p x = true) l -> forallb p l = true.
Proof. intros A p l H. apply forallb_forall. rewrite Forall_forall in H. exact H. Qed.

(* ---------------------------------------------------------------- G -> closed *)
Lemma flat_ids : forall la ld lf v, flatvb la lf v = true -> idsb la ld lf v = true.
Proof. intros la ld lf v H. destruct v; cbn [flatvb idsb] in *; try reflexivity; try discriminate; exact H. Qed.

Lemma scalar_ids : forall la ld lf v, scalarb v = true -> idsb la ld lf v = true.
Proof. intros la ld lf v H. destruct v; try discriminate; reflexivity. Qed.

Lemma frag_func_ids : forall la ld lf ls fd, func_frag ls fd = true -> func_idsb la ld lf ls fd = true.
Proof.
  intros la ld lf ls fd H. unfold func_frag in H. apply andb_prop in H. destruct H as [H H2]. apply andb_prop in H. destruct H as [H1 _].
  unfold func_idsb. rewrite H2, Bool.andb_true_r. apply forallb_forall. intros a Hin. rewrite forallb_forall in H1. specialize (H1 a Hin).
  unfold dflt_frag in H1. destruct (snd a); try reflexivity. apply scalar_ids. exact H1.
Qed.

Theorem G_closed : forall st, G None st -> closed_stateb st = true.
Proof.
  intros st HG. destruct HG. unfold closed_stateb. cbv zeta.
  repeat (apply andb_true_intro; split).
  - apply Forall_forallb. eapply Forall_impl; [|exact g_arr0]. intros cells Hc. apply Forall_forallb.
    eapply Forall_impl; [|exact Hc]. intros v Hv. apply scalar_ids. exact Hv.
  - rewrite g_dict0. reflexivity.
  - apply forallb_forall. intros e Hin. destruct (In_nth _ _ [] Hin) as (j & _ & <-). unfold env_idsb. apply Forall_forallb.
    eapply Forall_impl; [|apply (g_fs0 j)]. intros kv Hkv. cbn [okv] in Hkv. apply flat_ids, fflat_flat. exact Hkv.
  - apply Forall_forallb. eapply Forall_impl; [|exact g_cs0]. intros v Hv. apply flat_ids. exact Hv.
  - apply Forall_forallb. eapply Forall_impl; [|exact g_sub0]. intros le Hle. unfold env_idsb. apply Forall_forallb.
    eapply Forall_impl; [|exact Hle]. intros kv Hkv. apply flat_ids, fflat_flat. exact Hkv.
  - apply Forall_forallb. eapply Forall_impl; [|exact g_fn0]. intros fd Hfd. apply frag_func_ids. exact Hfd.
Qed.

(* ---------------------------------------------------------------- G -> at rest *)
Definition D0 : deadset := Dead4 [] [] [] [].

Lemma fflat_vok : forall la ld lf v, fflatb la lf v = true -> vokb (rest_a la []) (rest_a ld []) (rest_f lf []) v = true.
Proof.
  intros la ld lf v H. destruct v; cbn [fflatb flatvb vokb] in *; try reflexivity; try discriminate.
  - unfold rest_a. cbn [inb existsb]. rewrite H. reflexivity.
  - unfold rest_f. cbn [inb existsb orb]. apply Nat.ltb_lt in H. apply Bool.negb_true_iff. apply Nat.leb_gt. exact H.
Qed.

Lemma scalar_vok : forall ca cd pf v, scalarb v = true -> vokb ca cd pf v = true.
Proof. intros ca cd pf v H. destruct v; try discriminate; reflexivity. Qed.

Lemma frag_fokb : forall ca cd pf cs ls fd, func_frag ls fd = true -> fokb ca cd pf (rest_s ls []) cs fd = true.
Proof.
  intros ca cd pf cs ls fd H. unfold func_frag in H. apply andb_prop in H. destruct H as [H H3]. apply andb_prop in H. destruct H as [H1 H2].
  unfold fokb. rewrite (no_const_covered ca cd pf cs _ H2). unfold rest_s. cbn [inb existsb negb andb]. rewrite H3, !Bool.andb_true_r.
  apply forallb_forall. intros a Hin. rewrite forallb_forall in H1. specialize (H1 a Hin). unfold dflt_frag in H1. unfold dok.
  destruct (snd a); [reflexivity|apply scalar_vok; exact H1|apply nc_sok_e; exact H1].
Qed.

Theorem G_rest : forall st, G None st -> RestInv [] D0 st.
Proof.
  intros st HG. destruct HG. constructor; cbn [D0 d_a d_d d_f d_s].
  - intros x [].
  - intros x [].
  - intros x [].
  - intros x [].
  - intros a _. unfold arr_of. apply Forall_nth; [|constructor]. eapply Forall_impl; [|exact g_arr0].
    intros cells Hc. eapply Forall_impl; [|exact Hc]. intros v Hv. apply scalar_vok. exact Hv.
  - intros i _. unfold dict_of. rewrite g_dict0. destruct i; constructor.
  - intros j _. eapply Forall_impl; [|apply (g_fs0 j)]. intros kv Hkv. cbn [okv] in Hkv. apply fflat_vok. exact Hkv.
  - exact g_loc0.
  - eapply Forall_impl; [|exact g_sub0]. intros le Hle. eapply Forall_impl; [|exact Hle]. intros kv Hkv. apply fflat_vok. exact Hkv.
  - intros i Hi. assert (Hlt : i < length (funcs st)).
    { unfold rest_f in Hi. apply Bool.orb_false_elim in Hi. destruct Hi as [_ Hi]. apply Nat.leb_gt. exact Hi. }
    apply frag_fokb. rewrite Forall_forall in g_fn0. apply g_fn0. apply nth_In. exact Hlt.
  - intros label _. reflexivity.
Qed.

(* RestInv depends on the table of subincludable files only through "every one of them is cached" *)
Lemma rest_with_defs : forall defs D st, RestInv [] D st -> cachedall defs st -> RestInv defs D st.
Proof. intros defs D st R C. destruct R. constructor; auto. Qed.
