(* C08 - sources as BuildInputs and the guards of the loop over target.AllSources() (Model/C08_Srcs.v). *)
From PlzV Require Import Base.Harness Model.C08 Model.C08_Set Model.C08_Spec Model.C08_Cache Model.C08_Srcs
  Gen.RuleHashProg Proof.C08.

(* the regenerated loop has no guard that ever skips a source: breaks when ruleHash starts skipping some kind of source *)
Lemma gen_srcs_skip_never i : beval (ivar_val i) srcs_skip = false.
Proof. destruct i; reflexivity. Qed.

Lemma gen_srcs_item : item_of FSrcs = ([], EInputs true FSrcs FNamedSrcs).
Proof. vm_compute. reflexivity. Qed.

Lemma srcs_hashed : In FSrcs hashed_fields.
Proof. vm_compute. tauto. Qed.

Lemma written_unguarded skip ins :
  (forall i, beval (ivar_val i) skip = false) -> written_inputs skip ins = map input_string ins.
Proof.
  intros Hs. unfold written_inputs. f_equal. induction ins as [|i r IH]; cbn; [reflexivity|]. rewrite Hs. cbn. now f_equal.
Qed.

Definition gmap (g : list input -> list str) (kv : str * list input) : str * list str := (fst kv, g (snd kv)).

Lemma insert_by_gmap g kv l :
  insert_by key_leb (gmap g kv) (map (gmap g) l) = map (gmap g) (insert_by key_leb kv l).
Proof.
  induction l as [|y r IH]; cbn; [reflexivity|]. unfold key_leb at 1 3. cbn [gmap fst].
  destruct (str_leb (fst kv) (fst y)); cbn; [reflexivity|]. now rewrite IH.
Qed.

Lemma sort_keys_gmap g m : sort_keys (map (gmap g) m) = map (gmap g) (sort_keys m).
Proof.
  unfold sort_keys, isort. induction m as [|kv r IH]; cbn; [reflexivity|]. rewrite IH. apply insert_by_gmap.
Qed.

Lemma flat_snd_gmap m : flat_map snd (map (gmap (map input_string)) m) = map input_string (flat_map snd m).
Proof. induction m as [|kv r IH]; cbn; [reflexivity|]. now rewrite IH, map_app. Qed.

Lemma stored_toks t ins named : stores t ins named ->
  t_srcs t ++ flat_map snd (sort_keys (t_named_srcs t)) = map input_string (all_inputs true ins named).
Proof.
  intros [Hs Hn]. rewrite Hs, Hn. unfold all_inputs, order_of, strs_of. rewrite map_app. f_equal.
  change (fun kv : str * list input => (fst kv, map input_string (snd kv))) with (gmap (map input_string)).
  now rewrite sort_keys_gmap, flat_snd_gmap.
Qed.

Lemma toks_of_srcs rt t : toks_of FSrcs rt t = t_srcs t ++ flat_map snd (sort_keys (t_named_srcs t)).
Proof. unfold toks_of. rewrite gen_srcs_item. reflexivity. Qed.

(* with the regenerated guards, the stream over the inputs IS the stream of the stored state *)
Lemma ser_srcs_is_ser rt t ins named : stores t ins named -> ser_srcs prog srcs_skip rt t ins named = ser prog rt t.
Proof.
  intros Hst. destruct (hashed_located FSrcs srcs_hashed) as (pre & post & Hl).
  unfold ser_srcs. rewrite Hl, gen_srcs_item. cbn [forallb].
  rewrite (written_unguarded _ _ gen_srcs_skip_never), <- (stored_toks t ins named Hst).
  rewrite gen_srcs_item in Hl. apply locate_spec in Hl. destruct Hl as (Hp & _). rewrite Hp, ser_app, ser_cons. reflexivity.
Qed.

(* C08_srcs: two definitions of a target whose SOURCE LISTS differ (as lists of inputs: order, |annotation, a label that is
   added to srcs while it already is a dependency ...) while every other stored attribute - in particular the list of
   declared dependencies - is the same. *)
Theorem srcs_inputs_characterisation (D : Type) (H : str -> D) :
  injective H -> forall rt t1 t2 ins1 ins2 named,
  stores t1 ins1 named -> stores t2 ins2 named -> agree_except FSrcs t1 t2 ->
  let w1 := map input_string (all_inputs true ins1 named) in
  let w2 := map input_string (all_inputs true ins2 named) in
  (H (ser_srcs prog srcs_skip rt t1 ins1 named) = H (ser_srcs prog srcs_skip rt t2 ins2 named) <-> concat w1 = concat w2)
  /\ (w1 <> w2 -> shift_suspect w1 w2 = false ->
      H (ser_srcs prog srcs_skip rt t1 ins1 named) <> H (ser_srcs prog srcs_skip rt t2 ins2 named)).
Proof.
  intros Hinj rt t1 t2 ins1 ins2 named H1 H2 Hag w1 w2.
  rewrite (ser_srcs_is_ser rt t1 ins1 named H1), (ser_srcs_is_ser rt t2 ins2 named H2).
  pose proof (one_field_characterisation D H Hinj rt FSrcs t1 t2 srcs_hashed Hag) as Hc.
  rewrite !toks_of_srcs, (stored_toks t1 ins1 named H1), (stored_toks t2 ins2 named H2) in Hc. exact Hc.
Qed.

(* ---- the three shapes of seeded mutation r2-m2 (the set of depended-on targets stays the same) *)
Definition lab (n : str) : label := Label [] (s "p") n.
Definition src_base : target := set_deps [lab (s "a"); lab (s "b")] base.
Definition with_srcs (ins : list input) : target := set_srcs (map input_string ins) src_base.

Definition srcs_shapes : list (list input * list input) :=
  [ ([ILabel (lab (s "a")); ILabel (lab (s "b"))], [ILabel (lab (s "b")); ILabel (lab (s "a"))]);     (* order *)
    ([IAnn (lab (s "a")) (s "hdrs")], [IAnn (lab (s "a")) (s "srcs")]);                         (* annotation *)
    ([ILabel (lab (s "a"))], [IAnn (lab (s "a")) (s "srcs")]);
    ([], [ILabel (lab (s "a"))]) ].                                                           (* a source that already is a dep *)

Definition shape_streams (skip : bexp ivar) (pr : list input * list input) : str * str :=
  (ser_srcs prog skip false (with_srcs (fst pr)) (fst pr) [], ser_srcs prog skip false (with_srcs (snd pr)) (snd pr) []).

Lemma generated_guards_detect_shapes :
  forallb (fun pr => negb (str_eqb (fst (shape_streams srcs_skip pr)) (snd (shape_streams srcs_skip pr)))) srcs_shapes = true.
Proof. vm_compute. reflexivity. Qed.

(* under the guard `if _, ok := source.Label(); ok { continue }` all four pairs collide *)
Lemma skip_labels_guard_collides :
  forallb (fun pr => str_eqb (fst (shape_streams (BVar IVIsLabel) pr)) (snd (shape_streams (BVar IVIsLabel) pr))
                     && negb (is_nil (fst (shape_streams (BVar IVIsLabel) pr)))) srcs_shapes = true.
Proof. vm_compute. reflexivity. Qed.

Lemma C08_srcs_proof :
  forall (D : Type) (H : str -> D), injective H -> forall rt t1 t2 ins1 ins2 named,
  stores t1 ins1 named -> stores t2 ins2 named -> agree_except FSrcs t1 t2 ->
  let w1 := map input_string (all_inputs true ins1 named) in
  let w2 := map input_string (all_inputs true ins2 named) in
  (H (ser_srcs prog srcs_skip rt t1 ins1 named) = H (ser_srcs prog srcs_skip rt t2 ins2 named) <-> concat w1 = concat w2)
  /\ (w1 <> w2 -> shift_suspect w1 w2 = false ->
      H (ser_srcs prog srcs_skip rt t1 ins1 named) <> H (ser_srcs prog srcs_skip rt t2 ins2 named)).
Proof. exact srcs_inputs_characterisation. Qed.
