(* C06 - the statements of Props/C06.v about edges of every kind, about the reported slice and about
   target states, assembled for the regenerated Check (src_detect_env, Model/C06_Skel.v). *)
From PlzV Require Import Base.Harness Model.C06 Gen.CycleVisit Model.C06_Skel
  Proof.C06 Proof.C06_Seq Proof.C06_Skel Proof.C06_Simple Proof.C06_Kind Proof.C06_Life.
From Coq Require Import Permutation Relations.

(* ---- edges of every kind ---- *)
Theorem src_edges_correct :
  (forall ranks w rk order,
     src_detect_env (length w) (kinded_env ranks w rk) order = detect (wait_graph ranks w) order)
  /\ (forall n ranks ops rk order,
        Forall (kvalid n) ops -> Permutation order (seq 0 n) ->
        let w := kw_run n ops in
        length w = n /\ wf (wait_graph ranks w)
        /\ correct_for (wait_graph ranks w) (src_detect_env n (kinded_env ranks w rk) order))
  /\ (forall ranks w a b, edge (build_graph ranks w) a b -> edge (wait_graph ranks w) a b)
  /\ (forall ranks w, (forall l, In l w -> all_plain l) -> build_graph ranks w = wait_graph ranks w)
  /\ (exists n ranks ops order,
        Forall (kvalid n) ops /\ Permutation order (seq 0 n)
        /\ has_cycle (wait_graph ranks (kw_run n ops))
        /\ detect (build_graph ranks (kw_run n ops)) order = Clean).
Proof.
  split; [exact src_detect_kinded_eq |]. split; [| split; [exact build_edge_waits | split; [exact build_graph_plain |]]].
  - intros n ranks ops rk order Hv Hperm w.
    destruct (kw_run_inv n ops Hv) as [Hlen _]. fold w in Hlen.
    destruct (kinded_correct n ranks ops order Hv Hperm) as [Hwf Hc]. fold w in Hwf, Hc.
    split; [exact Hlen |]. split; [exact Hwf |].
    rewrite <- Hlen at 1. rewrite src_detect_kinded_eq. exact Hc.
  - destruct build_only_misses as (n & ranks & ops & order & H1 & H2 & H3 & H4 & _).
    exists n, ranks, ops, order. exact (conj H1 (conj H2 (conj H3 H4))).
Qed.

(* ---- the reported slice ---- *)
Theorem src_report_correct :
  (forall g order c, src_detect g order = Found c -> NoDup c)
  /\ (forall g order c, wf g -> src_detect g order = Found c -> length c <= length g)
  /\ (exists g order c keep,
        wf g /\ src_detect g order = Found c /\ is_cycle g c /\ ~ is_cycle g (drop keep c)).
Proof.
  split; [| split].
  - intros g order c. rewrite src_detect_eq. apply detect_simple.
  - intros g order c Hwf. rewrite src_detect_eq. apply detect_cycle_length. exact Hwf.
  - destruct drop_breaks_cycle as (g & order & c & keep & H1 & H2 & H3 & H4).
    exists g, order, c, keep. rewrite src_detect_eq. exact (conj H1 (conj H2 (conj H3 H4))).
Qed.

(* ---- target states ---- *)
(* the targets of graph g, in the states of the lifecycle world w *)
Definition life_env (g : graph) (w : lworld) : tenv := TE (fun _ t => deps g t) (fun t => rank (state_of w t)).

Theorem src_states_correct :
  (* whatever the states of the targets: the result of Check is that of the hand model on the graph *)
  (forall g w order, src_detect_env (length g) (life_env g w) order = detect g order)
  (* the invariant of the waiting protocol, for every sequence of events *)
  /\ (forall g n es, linv g (lrun g (lworld0 n) es))
  /\ (forall g n es v d, let w := lrun g (lworld0 n) es in
        is_built (state_of w v) = true -> edge g v d -> is_built (state_of w d) = true)
  /\ guard_ok is_built
  /\ ~ guard_ok (fun s => N.leb (rank Built) (rank s))
  /\ (forall g roots plan, exists es, settled g roots plan = lrun g (lworld0 (length g)) es).
Proof.
  split; [| split; [exact reachable_inv | split; [exact built_closed | split; [exact guard_is_built_ok |
          split; [exact guard_ge_built_not_ok | exact settled_reach]]]]].
  intros g w order. apply src_detect_env_eq. intros t. reflexivity.
Qed.
