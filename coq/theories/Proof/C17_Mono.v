(* C17 - the syntactic condition `sok` depends on the classification only through the constants a program
   mentions: it is monotone in "the k-th constant is locally ok". *)
From Coq Require Import String Lia.
From PlzV Require Import Base.Harness Gen.AspTables Model.C16_Syntax Model.C16_Ops Model.C16_Prim Model.C16_Eval.
From PlzV Require Import Proof.C17_Inv.
Local Open Scope list_scope.

Section Mono.
Variables (ca cd : nat -> mode) (pf : nat -> bool) (cs : list value).
Variables (ca' cd' : nat -> mode) (pf' : nat -> bool) (cs' : list value).
Hypothesis Hconst : forall k, vokb ca cd pf (nth k cs VNone) = true -> vokb ca' cd' pf' (nth k cs' VNone) = true.
Notation nc_e := (C17_Inv.sok_e ca cd pf cs).
Notation nc_v := (C17_Inv.sok_v ca cd pf cs).
Notation nc_i := (C17_Inv.sok_i ca cd pf cs).
Notation nc_s := (C17_Inv.sok_s ca cd pf cs).
Notation sok_e := (C17_Inv.sok_e ca' cd' pf' cs').
Notation sok_v := (C17_Inv.sok_v ca' cd' pf' cs').
Notation sok_i := (C17_Inv.sok_i ca' cd' pf' cs').
Notation sok_s := (C17_Inv.sok_s ca' cd' pf' cs').
Lemma mono_e : forall e, nc_e e = true -> sok_e e = true
with mono_v : forall x, nc_v x = true -> sok_v x = true
with mono_i : forall i, nc_i i = true -> sok_i i = true.
Proof.
  - intros [v ops iff] H. rewrite sok_e_Ex in H. apply andb_prop in H. destruct H as [H Hiff]. apply andb_prop in H. destruct H as [Hv Hops].
    rewrite sok_e_Ex. rewrite (mono_v v Hv). cbn [andb].
    assert (Ho : forallb sok_i ops = true).
    { revert ops Hops. fix IH 1. intros [|i r] Hr; [reflexivity|]. cbn [forallb] in *. apply andb_prop in Hr. destruct Hr as [Hi Hr].
      rewrite (mono_i i Hi), (IH r Hr). reflexivity. }
    rewrite Ho. cbn [andb]. destruct iff as [[c e2]|]; [|reflexivity].
    apply andb_prop in Hiff. destruct Hiff as [Hc He]. rewrite (mono_e c Hc), (mono_e e2 He). reflexivity.
  - intros x H. destruct x; try reflexivity.
    + rewrite sok_v_list in *. revert es H. fix IH 1. intros [|e r] Hr; [reflexivity|]. cbn [forallb] in *.
      apply andb_prop in Hr. destruct Hr as [He Hr]. rewrite (mono_e e He), (IH r Hr). reflexivity.
    + rewrite sok_v_comp in *. apply andb_prop in H. destruct H as [H Hc]. apply andb_prop in H. destruct H as [He Hit].
      rewrite (mono_e e He), (mono_e it Hit). destruct cond as [c|]; [rewrite (mono_e c Hc)|]; reflexivity.
    + rewrite sok_v_dict in *. revert kvs H. fix IH 1. intros [|[k v] r] Hr; [reflexivity|]. cbn [forallb] in *.
      apply andb_prop in Hr. destruct Hr as [Hkv Hr]. apply andb_prop in Hkv. destruct Hkv as [Hk Hv].
      rewrite (mono_e k Hk), (mono_e v Hv), (IH r Hr). reflexivity.
    + rewrite sok_v_paren in *. apply mono_e. exact H.
    + rewrite sok_v_call in *. unfold sok_args in *. revert args H. fix IH 1. intros [|[k e] r] Hr; [reflexivity|]. cbn [forallb] in *.
      apply andb_prop in Hr. destruct Hr as [He Hr]. rewrite (mono_e e He), (IH r Hr). reflexivity.
    + rewrite sok_v_meth in *. apply andb_prop in H. destruct H as [Hb Ha]. rewrite (mono_v x Hb). cbn [andb].
      revert args Ha. fix IH 1. intros [|e r] Hr; [reflexivity|]. cbn [forallb] in *.
      apply andb_prop in Hr. destruct Hr as [He Hr]. rewrite (mono_e e He), (IH r Hr). reflexivity.
    + rewrite sok_v_index in *. apply andb_prop in H. destruct H as [Hb Hi]. rewrite (mono_v x Hb), (mono_e i Hi). reflexivity.
    + rewrite sok_v_slice in *. apply andb_prop in H. destruct H as [H Hhi]. apply andb_prop in H. destruct H as [Hb Hlo].
      rewrite (mono_v x Hb). destruct lo as [l|]; [rewrite (mono_e l Hlo)|]; (destruct hi as [h|]; [rewrite (mono_e h Hhi)|]); reflexivity.
    + rewrite sok_v_const in *. apply Hconst. exact H.
  - intros [o v|u] H; [|reflexivity]. rewrite sok_i_bin in *. apply mono_v. exact H.
Qed.

Lemma mono_args : forall args, C17_Inv.sok_args ca cd pf cs args = true -> C17_Inv.sok_args ca' cd' pf' cs' args = true.
Proof.
  unfold sok_args. induction args as [|[k e] r IH]; intros H; [reflexivity|]. cbn [forallb] in *.
  apply andb_prop in H. destruct H as [He Hr]. rewrite (mono_e e He), (IH Hr). reflexivity.
Qed.

Lemma mono_s : forall s0, nc_s s0 = true -> sok_s s0 = true.
Proof.
  fix IHs 1. intros s0 H.
  assert (Hblock : forall b, forallb nc_s b = true -> forallb sok_s b = true).
  { fix IHb 1. intros [|x r] Hr; [reflexivity|]. cbn [forallb] in *. apply andb_prop in Hr. destruct Hr as [Hx Hr].
    rewrite (IHs x Hx), (IHb r Hr). reflexivity. }
  destruct s0.
  - cbn [C17_Inv.sok_s] in *. apply mono_e. exact H.
  - cbn [C17_Inv.sok_s] in *. apply mono_e. exact H.
  - cbn [C17_Inv.sok_s] in *. apply andb_prop in H. destruct H as [H1 H2]. rewrite (mono_e _ H1), (mono_e _ H2). reflexivity.
  - cbn [C17_Inv.sok_s] in *. apply andb_prop in H. destruct H as [H1 H2]. rewrite (mono_e _ H1), (mono_e _ H2). reflexivity.
  - cbn [C17_Inv.sok_s] in *. apply mono_e. exact H.
  - rewrite sok_s_if in *. unfold sok_p in *. apply andb_prop in H. destruct H as [H Hels]. apply andb_prop in H. destruct H as [H Helifs]. apply andb_prop in H. destruct H as [Hc Hbody].
    rewrite (mono_e c Hc), (Hblock body Hbody), (Hblock els Hels). cbn [andb]. rewrite Bool.andb_true_r.
    revert elifs Helifs. fix IHe 1. intros [|[c1 b1] r] Hr; [reflexivity|]. cbn [forallb] in *.
    apply andb_prop in Hr. destruct Hr as [Hcb Hr]. apply andb_prop in Hcb. destruct Hcb as [Hc1 Hb1].
    rewrite (mono_e c1 Hc1), (Hblock b1 Hb1), (IHe r Hr). reflexivity.
  - rewrite sok_s_for in *. unfold sok_p in *. apply andb_prop in H. destruct H as [Hit Hbody]. rewrite (mono_e it Hit), (Hblock body Hbody). reflexivity.
  - rewrite sok_s_def in *. unfold sok_p in *. apply andb_prop in H. destruct H as [Hargs Hbody]. rewrite (Hblock body Hbody). rewrite Bool.andb_true_r.
    clear Hbody. induction args as [|[a [e|]] r IH]; [reflexivity| |]; cbn [forallb snd] in *.
    + apply andb_prop in Hargs. destruct Hargs as [He Hr]. rewrite (mono_e e He), (IH Hr). reflexivity.
    + apply IH. exact Hargs.
  - destruct e as [e|]; cbn [C17_Inv.sok_s] in *; [apply mono_e; exact H|reflexivity].
  - cbn [C17_Inv.sok_s] in *. apply mono_args. exact H.
  - cbn [C17_Inv.sok_s] in *. apply mono_e. exact H.
  - reflexivity.
  - reflexivity.
  - reflexivity.
Qed.

Theorem sok_p_mono : forall p, sok_p ca cd pf cs p = true -> sok_p ca' cd' pf' cs' p = true.
Proof.
  unfold sok_p. induction p as [|x r IH]; intros H; [reflexivity|]. cbn [forallb] in *.
  apply andb_prop in H. destruct H as [Hx Hr]. rewrite (mono_s x Hx), (IH Hr). reflexivity.
Qed.
End Mono.
