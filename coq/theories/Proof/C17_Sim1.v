(* C17 - parametricity of the evaluator in the ids it allocates, part 1: the simulation relation.

   A package b is run twice: from a state st (alone) and from a state st' in which an earlier package has left
   k_a more arrays, k_d more dicts, k_f more functions and k_s more file scopes than st has.  Ids are indices
   into the four tables and every allocation takes the next index, so the ids of the two runs differ by a FIXED
   renaming: an id below the number n of objects the two states share is itself, an id at or above n is moved
   up by k (`sh n k`).  `rn` renames the ids inside one value; `sim st st'` says that st' read through the
   renaming is st: table entry (sh i) of st' is the renamed entry i of st (the k entries in between are the
   earlier package's garbage and are not constrained at all), scopes, constants and cache are the renamed ones.
   This file: the relation, what the state primitives do to it, and that `render` does not see the renaming. *)
From Coq Require Import String Lia.
From PlzV Require Import Base.Harness Base.StrFacts Gen.AspTables Model.C16_Syntax Model.C16_Ops Model.C16_Prim Model.C16_Eval.
From PlzV Require Import Proof.C17_Inv Proof.C17_Ops Proof.C17_Scopes.
Local Open Scope list_scope.
Local Open Scope nat_scope.

Record shift := Shift { w_na : nat; w_ka : nat; w_nd : nat; w_kd : nat; w_nf : nat; w_kf : nat; w_ns : nat; w_ks : nat }.

Definition sh (n k i : nat) : nat := if i <? n then i else i + k.

Lemma sh_inj : forall n k i j, sh n k i = sh n k j -> i = j.
Proof. intros n k i j. unfold sh. destruct (Nat.ltb_spec i n), (Nat.ltb_spec j n); lia. Qed.

Lemma sh_eqb : forall n k i j, Nat.eqb (sh n k i) (sh n k j) = Nat.eqb i j.
Proof.
  intros n k i j. destruct (Nat.eqb i j) eqn:E.
  - apply Nat.eqb_eq in E. subst. apply Nat.eqb_refl.
  - apply Nat.eqb_neq. apply Nat.eqb_neq in E. intros Hs. apply E. eapply sh_inj; eauto.
Qed.

Lemma sh_fresh : forall n k L, n <= L -> sh n k L = L + k.
Proof. intros n k L H. unfold sh. replace (L <? n) with false; [reflexivity|]. symmetry. apply Nat.ltb_ge. exact H. Qed.

Lemma sh_ge : forall n k L i, n <= L -> L <= i -> L + k <= sh n k i.
Proof. intros n k L i H1 H2. rewrite sh_fresh by lia. lia. Qed.

Lemma sh_lt : forall n k L i, n <= L -> i < L -> sh n k i < L + k.
Proof. intros n k L i H1 H2. unfold sh. destruct (Nat.ltb_spec i n); lia. Qed.

Lemma sh_zero : forall n i, sh n 0 i = i.
Proof. intros. unfold sh. destruct (Nat.ltb_spec i n); lia. Qed.

(* ---------------------------------------------------------------- one table *)
(* l' read through the renaming is l, entrywise renamed by f *)
Definition hrel {X} (n k : nat) (f : X -> X) (d : X) (l l' : list X) : Prop :=
  length l' = length l + k /\ n <= length l /\ forall i, i < length l -> nth (sh n k i) l' d = f (nth i l d).

Lemma hrel_nth : forall {X} n k (f : X -> X) d l l', f d = d -> hrel n k f d l l' -> forall i, nth (sh n k i) l' d = f (nth i l d).
Proof.
  intros X n k f d l l' Hd (H1 & H2 & H3) i. destruct (Nat.lt_ge_cases i (length l)) as [Hlt|Hge]; [auto|].
  rewrite (nth_overflow l) by exact Hge. rewrite nth_overflow; [auto|]. rewrite H1. apply sh_ge; auto.
Qed.

Lemma hrel_app : forall {X} n k (f : X -> X) d l l' x, hrel n k f d l l' -> hrel n k f d (l ++ [x]) (l' ++ [f x]).
Proof.
  intros X n k f d l l' x (H1 & H2 & H3). split; [|split].
  - rewrite !app_length. cbn. lia.
  - rewrite app_length. lia.
  - intros i Hi. rewrite app_length in Hi. cbn in Hi. destruct (Nat.eq_dec i (length l)) as [->|Hn].
    + rewrite sh_fresh by exact H2. rewrite <- H1. rewrite !nth_middle. reflexivity.
    + assert (Hlt : i < length l) by lia. rewrite (app_nth1 l) by exact Hlt.
      rewrite app_nth1; [auto|]. rewrite H1. apply sh_lt; auto.
Qed.

Lemma nth_list_set_eq' : forall {A} (l : list A) i x dflt, i < length l -> nth i (list_set i x l) dflt = x.
Proof. induction l as [|y r IH]; intros [|i] x dflt Hi; cbn in *; try lia; auto. apply IH. lia. Qed.

Lemma list_set_overflow : forall {A} (l : list A) i x, length l <= i -> list_set i x l = l.
Proof. induction l as [|y r IH]; intros [|i] x Hi; cbn in *; try lia; auto. f_equal. apply IH. lia. Qed.

Lemma hrel_set : forall {X} n k (f : X -> X) d l l' j x, hrel n k f d l l' -> hrel n k f d (list_set j x l) (list_set (sh n k j) (f x) l').
Proof.
  intros X n k f d l l' j x (H1 & H2 & H3). split; [|split].
  - rewrite !length_list_set. exact H1.
  - rewrite length_list_set. exact H2.
  - intros i Hi. rewrite length_list_set in Hi. destruct (Nat.eq_dec i j) as [->|Hn].
    + rewrite !nth_list_set_eq'; auto. rewrite H1. apply sh_lt; auto.
    + rewrite !nth_list_set_other; auto. intros E. apply Hn. symmetry. eapply sh_inj; eauto.
Qed.

Lemma hrel_len : forall {X} n k (f : X -> X) d l l', hrel n k f d l l' -> sh n k (length l) = length l'.
Proof. intros X n k f d l l' (H1 & H2 & _). rewrite sh_fresh by exact H2. auto. Qed.

Section Sim.
Variable W : shift.
Variable defs : list (str * prog).

Definition sha := sh (w_na W) (w_ka W).
Definition shd := sh (w_nd W) (w_kd W).
Definition shf := sh (w_nf W) (w_kf W).
Definition shs := sh (w_ns W) (w_ks W).

Definition rn_slice (sl : slice) : slice := Slice (sha (s_arr sl)) (s_off sl) (s_len sl) (s_cap sl).

Definition rn (v : value) : value :=
  match v with
  | VList sl => VList (rn_slice sl)
  | VFrozenList sl => VFrozenList (rn_slice sl)
  | VDict i => VDict (shd i)
  | VFrozenDict i => VFrozenDict (shd i)
  | VFunc i => VFunc (shf i)
  | _ => v
  end.

Definition rn_kv (kv : str * value) : str * value := (fst kv, rn (snd kv)).
Definition rn_env (e : env) : env := map rn_kv e.
Definition rn_dflt (df : fdefault) : fdefault := match df with DConst v => DConst (rn v) | _ => df end.
Definition rn_arg (a : str * fdefault) : str * fdefault := (fst a, rn_dflt (snd a)).
Definition rn_func (fd : func) : func := Func (f_name fd) (map rn_arg (f_args fd)) (f_body fd) (shs (f_scope fd)).
Definition rn_cache (le : str * env) : str * env := (fst le, rn_env (snd le)).

Record sim (st st' : state) : Prop := mkSim {
  sm_arr : hrel (w_na W) (w_ka W) (map rn) [] (arrays st) (arrays st');
  sm_dict : hrel (w_nd W) (w_kd W) rn_env [] (dicts st) (dicts st');
  sm_fn : hrel (w_nf W) (w_kf W) rn_func dflt_func (funcs st) (funcs st');
  sm_fs : hrel (w_ns W) (w_ks W) rn_env [] (fscopes st) (fscopes st');
  sm_cur : cur st' = shs (cur st);
  sm_loc : locals st' = map rn_env (locals st);
  sm_cs : consts st' = map rn (consts st);
  sm_sub : subcache st' = map rn_cache (subcache st);
  sm_cached : cachedall defs st
}.

(* ---------------------------------------------------------------- results *)
Definition rmap {A B} (f : A -> B) (r : res A) : res B :=
  match r with Ok a => Ok (f a) | Err k => Err k | OutOfFuel => OutOfFuel end.

Lemma rbind_rmap : forall {A B C} (f : A -> B) (r : res A) (k : B -> res C), rbind (rmap f r) k = rbind r (fun a => k (f a)).
Proof. intros. destruct r; reflexivity. Qed.

Definition rsim {A} (R : A -> A -> Prop) (r r' : res (A * state)) : Prop :=
  match r, r' with
  | Ok (a, s0), Ok (a', s0') => R a a' /\ sim s0 s0'
  | Err k, Err k' => k = k'
  | OutOfFuel, OutOfFuel => True
  | _, _ => False
  end.

Definition vR : value -> value -> Prop := fun v v' => v' = rn v.
Definition lR : list value -> list value -> Prop := fun l l' => l' = map rn l.

Lemma rsim_ret : forall {A} (R : A -> A -> Prop) a a' st st', R a a' -> sim st st' -> rsim R (Ok (a, st)) (Ok (a', st')).
Proof. intros. cbn. auto. Qed.

Lemma rsim_bind : forall {A B} (R1 : A -> A -> Prop) (R : B -> B -> Prop) m m' (k k' : A * state -> res (B * state)),
  rsim R1 m m' ->
  (forall a st1 a' st1', R1 a a' -> sim st1 st1' -> rsim R (k (a, st1)) (k' (a', st1'))) ->
  rsim R (rbind m k) (rbind m' k').
Proof.
  intros A B R1 R m m' k k' Hm Hk. destruct m as [[a s1]|e|], m' as [[a' s1']|e'|]; cbn in *; try contradiction; auto.
  destruct Hm. auto.
Qed.

(* a pure computation that gives the same result on both sides *)
Lemma rsim_bind_same : forall {A B} (R : B -> B -> Prop) (r : res A) (k k' : A -> res (B * state)),
  (forall a, r = Ok a -> rsim R (k a) (k' a)) -> rsim R (rbind r k) (rbind r k').
Proof. intros A B R r k k' H. destruct r; cbn; auto. Qed.

(* a pure computation whose result on the right is the renamed one *)
Lemma rsim_bind_pure : forall {A B} (f : A -> A) (R : B -> B -> Prop) (r : res A) (k k' : A -> res (B * state)),
  (forall a, r = Ok a -> rsim R (k a) (k' (f a))) -> rsim R (rbind r k) (rbind (rmap f r) k').
Proof. intros A B f R r k k' H. destruct r; cbn; auto. Qed.

Lemma rsim_weaken : forall {A} (R R' : A -> A -> Prop) r r', rsim R r r' -> (forall a a', R a a' -> R' a a') -> rsim R' r r'.
Proof. intros A R R' [[a s0]|e|] [[a' s0']|e'|] H HR; cbn in *; try contradiction; auto. destruct H. auto. Qed.

(* ---------------------------------------------------------------- values *)
Lemma type_tag_rn : forall v, type_tag (rn v) = type_tag v.
Proof. destruct v; reflexivity. Qed.

Lemma as_list_rn : forall v, as_list (rn v) = option_map rn_slice (as_list v).
Proof. destruct v; reflexivity. Qed.

Lemma rn_env_get : forall k e, env_get k (rn_env e) = option_map rn (env_get k e).
Proof. intros k. induction e as [|[k0 v] r IH]; cbn; [reflexivity|]. destruct (str_eqb k k0); auto. Qed.

Lemma rn_env_set : forall k v e, env_set k (rn v) (rn_env e) = rn_env (env_set k v e).
Proof. intros k v. induction e as [|[k0 w] r IH]; cbn; [reflexivity|]. destruct (str_eqb k k0); cbn; [reflexivity|]. f_equal. exact IH. Qed.

Lemma rn_envs_get : forall k l, envs_get k (map rn_env l) = option_map rn (envs_get k l).
Proof.
  intros k. induction l as [|e r IH]; cbn; [reflexivity|]. rewrite rn_env_get. destruct (env_get k e); cbn; auto.
Qed.

Lemma rn_insert_kv : forall kv l, insert_kv (rn_kv kv) (rn_env l) = rn_env (insert_kv kv l).
Proof.
  intros kv. induction l as [|x r IH]; cbn; [reflexivity|]. destruct (str_leb (fst kv) (fst x)); cbn; [reflexivity|].
  f_equal. exact IH.
Qed.

Lemma rn_sort_kvs : forall l, sort_kvs (rn_env l) = rn_env (sort_kvs l).
Proof.
  induction l as [|x r IH]; [reflexivity|]. unfold sort_kvs in *. cbn [rn_env map fold_right]. fold (rn_env r). rewrite IH. apply rn_insert_kv.
Qed.

Lemma rn_env_length : forall e, length (rn_env e) = length e.
Proof. intros. apply map_length. Qed.

Lemma rn_fold_env_set : forall (l acc : env),
  fold_left (fun a kv => env_set (fst kv) (snd kv) a) (rn_env l) (rn_env acc) = rn_env (fold_left (fun a kv => env_set (fst kv) (snd kv) a) l acc).
Proof.
  induction l as [|[k v] r IH]; intros acc; cbn [fold_left rn_env map]; [reflexivity|].
  cbn [rn_kv fst snd]. rewrite rn_env_set. apply IH.
Qed.

(* ---------------------------------------------------------------- reading the state *)
Section Read.
Variables st st' : state.
Hypothesis HS : sim st st'.

Lemma arr_of_sim : forall a, arr_of st' (sha a) = map rn (arr_of st a).
Proof. intros a. unfold arr_of. apply (hrel_nth _ _ (map rn) []); [reflexivity|apply (sm_arr _ _ HS)]. Qed.

Lemma dict_of_sim : forall i, dict_of st' (shd i) = rn_env (dict_of st i).
Proof. intros i. unfold dict_of. apply (hrel_nth _ _ rn_env []); [reflexivity|apply (sm_dict _ _ HS)]. Qed.

Lemma fscope_sim : forall j, nth (shs j) (fscopes st') [] = rn_env (nth j (fscopes st) []).
Proof. intros j. apply (hrel_nth _ _ rn_env []); [reflexivity|apply (sm_fs _ _ HS)]. Qed.

Lemma func_sim : forall i, i < length (funcs st) -> nth (shf i) (funcs st') dflt_func = rn_func (nth i (funcs st) dflt_func).
Proof. intros i Hi. destruct (sm_fn _ _ HS) as (_ & _ & H). auto. Qed.

Lemma func_out : forall i, length (funcs st) <= i -> nth i (funcs st) dflt_func = dflt_func /\ nth (shf i) (funcs st') dflt_func = dflt_func.
Proof.
  intros i Hi. destruct (sm_fn _ _ HS) as (H1 & H2 & _). split; [apply nth_overflow; exact Hi|].
  apply nth_overflow. rewrite H1. apply sh_ge; auto.
Qed.

Lemma func_name_sim : forall i, f_name (nth (shf i) (funcs st') dflt_func) = f_name (nth i (funcs st) dflt_func).
Proof.
  intros i. destruct (Nat.lt_ge_cases i (length (funcs st))) as [Hlt|Hge].
  - rewrite func_sim by exact Hlt. reflexivity.
  - destruct (func_out i Hge) as [-> ->]. reflexivity.
Qed.

Lemma func_args_sim : forall i, f_args (nth (shf i) (funcs st') dflt_func) = map rn_arg (f_args (nth i (funcs st) dflt_func)).
Proof.
  intros i. destruct (Nat.lt_ge_cases i (length (funcs st))) as [Hlt|Hge].
  - rewrite func_sim by exact Hlt. reflexivity.
  - destruct (func_out i Hge) as [-> ->]. reflexivity.
Qed.

Lemma list_items_sim : forall sl, list_items Asp st' (rn_slice sl) = map rn (list_items Asp st sl).
Proof.
  intros sl. unfold list_items. cbn [rn_slice s_arr s_off s_len]. rewrite arr_of_sim.
  rewrite <- firstn_map, <- skipn_map. reflexivity.
Qed.

Lemma list_len_sim : forall sl, list_len Asp st' (rn_slice sl) = list_len Asp st sl.
Proof. reflexivity. Qed.

Lemma lookup_sim : forall n, lookup n st' = option_map rn (lookup n st).
Proof.
  intros n. unfold lookup. rewrite (sm_loc _ _ HS), rn_envs_get. destruct (envs_get n (locals st)); [reflexivity|]. cbn [option_map].
  rewrite (sm_cur _ _ HS), fscope_sim, rn_env_get. destruct (env_get n (nth (cur st) (fscopes st) [])); [reflexivity|]. cbn [option_map].
  destruct (existsb (str_eqb n) builtin_names); reflexivity.
Qed.

Lemma truthy_sim : forall v, truthy Asp st' (rn v) = truthy Asp st v.
Proof.
  destruct v; cbn [rn truthy]; try reflexivity.
  - rewrite dict_of_sim. destruct (dict_of st id); reflexivity.
  - rewrite dict_of_sim. destruct (dict_of st id); reflexivity.
Qed.

Lemma const_sim : forall k, nth k (consts st') VNone = rn (nth k (consts st) VNone).
Proof. intros k. rewrite (sm_cs _ _ HS). change VNone with (rn VNone) at 1. apply map_nth. Qed.

Lemma subcache_sim : forall label, assoc_get label (subcache st') = option_map rn_env (assoc_get label (subcache st)).
Proof.
  intros label. rewrite (sm_sub _ _ HS). induction (subcache st) as [|[k e] r IH]; cbn; [reflexivity|].
  destruct (str_eqb label k); auto.
Qed.

(* ---- render does not see the renaming ---- *)
Lemma render_sim : forall fuel v, render Asp fuel st' (rn v) = render Asp fuel st v.
Proof.
  induction fuel as [|f IH]; intros v; [reflexivity|].
  destruct v; cbn [rn render]; try reflexivity.
  - cbn [rn_slice s_cap s_len]. f_equal. rewrite list_items_sim, map_map. apply map_ext. exact IH.
  - cbn [rn_slice s_cap s_len]. f_equal. rewrite list_items_sim, map_map. apply map_ext. exact IH.
  - f_equal. rewrite dict_of_sim, rn_sort_kvs. unfold rn_env. rewrite map_map. apply map_ext. intros kv. cbn [rn_kv fst snd]. f_equal. apply IH.
  - f_equal. rewrite dict_of_sim, rn_sort_kvs. unfold rn_env. rewrite map_map. apply map_ext. intros kv. cbn [rn_kv fst snd]. f_equal. apply IH.
  - f_equal. apply func_name_sim.
Qed.

Lemma render_env_sim : forall e, render_env Asp st' (rn_env e) = render_env Asp st e.
Proof.
  intros e. unfold render_env. rewrite rn_sort_kvs. unfold rn_env. rewrite map_map. apply map_ext. intros kv. cbn [rn_kv fst snd].
  f_equal. apply render_sim.
Qed.

End Read.

(* ---------------------------------------------------------------- writing the state *)
Ltac sim_fields := cbn [arrays dicts funcs fscopes cur locals consts subcache set_arrays set_dicts set_funcs set_fscopes set_cur set_locals set_consts set_subcache].

Lemma set_locals_sim : forall st st' l, sim st st' -> sim (set_locals l st) (set_locals (map rn_env l) st').
Proof. intros st st' l HS. destruct HS. constructor; sim_fields; auto. Qed.

Lemma set_cur_sim : forall st st' c, sim st st' -> sim (set_cur c st) (set_cur (shs c) st').
Proof. intros st st' c HS. destruct HS. constructor; sim_fields; auto. Qed.

Lemma set_var_sim : forall st st' n v, sim st st' -> sim (set_var n v st) (set_var n (rn v) st').
Proof.
  intros st st' n v HS. unfold set_var. rewrite (sm_loc _ _ HS). destruct (locals st) as [|e r] eqn:EL; cbn [map].
  - rewrite (sm_cur _ _ HS), (fscope_sim _ _ HS), rn_env_set.
    destruct HS. constructor; sim_fields; auto. apply hrel_set. assumption.
  - rewrite rn_env_set. destruct HS. constructor; sim_fields; auto.
Qed.

Lemma set_vars_sim : forall (kvs : env) st st', sim st st' ->
  sim (fold_left (fun acc kv => set_var (fst kv) (snd kv) acc) kvs st) (fold_left (fun acc kv => set_var (fst kv) (snd kv) acc) (rn_env kvs) st').
Proof.
  induction kvs as [|[k v] r IH]; intros st st' HS; cbn [fold_left rn_env map]; [exact HS|].
  apply IH. cbn [rn_kv fst snd]. apply set_var_sim. exact HS.
Qed.

Lemma combine_rn : forall (names : list str) items, combine names (map rn items) = rn_env (combine names items).
Proof. induction names as [|n r IH]; intros [|x xs]; cbn; try reflexivity. f_equal. apply IH. Qed.

Lemma alloc_list_sim : forall items cap st st', sim st st' ->
  fst (alloc_list (map rn items) cap st') = rn_slice (fst (alloc_list items cap st)) /\
  sim (snd (alloc_list items cap st)) (snd (alloc_list (map rn items) cap st')).
Proof.
  intros items cap st st' HS. unfold alloc_list. cbn [fst snd]. rewrite map_length. split.
  - unfold rn_slice. cbn [s_arr s_off s_len s_cap]. f_equal. symmetry. unfold sha. eapply hrel_len. apply (sm_arr _ _ HS).
  - replace (map rn items ++ repeat VNone (cap - length items)) with (map rn (items ++ repeat VNone (cap - length items))).
    + destruct HS. constructor; sim_fields; auto. apply hrel_app. assumption.
    + rewrite map_app. f_equal. induction (cap - length items); cbn; [reflexivity|]. f_equal. assumption.
Qed.

Lemma new_list_sim : forall items st st', sim st st' -> rsim vR (Ok (new_list items st)) (Ok (new_list (map rn items) st')).
Proof.
  intros items st st' HS. unfold new_list. rewrite map_length.
  destruct (alloc_list_sim items (length items) st st' HS) as [H1 H2].
  destruct (alloc_list items (length items) st) as [r s1]. destruct (alloc_list (map rn items) (length items) st') as [r' s1'].
  cbn [fst snd] in *. subst r'. split; [reflexivity|exact H2].
Qed.

Lemma alloc_dict_sim : forall kvs st st', sim st st' ->
  fst (alloc_dict (rn_env kvs) st') = shd (fst (alloc_dict kvs st)) /\
  sim (snd (alloc_dict kvs st)) (snd (alloc_dict (rn_env kvs) st')).
Proof.
  intros kvs st st' HS. unfold alloc_dict. cbn [fst snd]. split.
  - symmetry. unfold shd. eapply hrel_len. apply (sm_dict _ _ HS).
  - destruct HS. constructor; sim_fields; auto. apply hrel_app. assumption.
Qed.

Lemma write_cells_rn : forall xs off cells, write_cells off (map rn xs) (map rn cells) = map rn (write_cells off xs cells).
Proof.
  induction xs as [|x r IH]; intros off cells; cbn [write_cells map]; [reflexivity|].
  rewrite <- IH. f_equal. clear. revert off. induction cells as [|c cs IH]; intros [|off]; cbn; try reflexivity. f_equal. apply IH.
Qed.

Lemma arr_write_sim : forall a off xs st st', sim st st' -> sim (arr_write a off xs st) (arr_write (sha a) off (map rn xs) st').
Proof.
  intros a off xs st st' HS. unfold arr_write. rewrite (arr_of_sim _ _ HS), write_cells_rn.
  destruct HS. constructor; sim_fields; auto. apply hrel_set. assumption.
Qed.

Lemma dict_store_sim : forall i k v st st', sim st st' -> sim (dict_store i k v st) (dict_store (shd i) k (rn v) st').
Proof.
  intros i k v st st' HS. unfold dict_store. rewrite (dict_of_sim _ _ HS), rn_env_set.
  destruct HS. constructor; sim_fields; auto. apply hrel_set. assumption.
Qed.

Lemma add_func_sim : forall fd st st', sim st st' ->
  sim (set_funcs (funcs st ++ [fd]) st) (set_funcs (funcs st' ++ [rn_func fd]) st') /\ length (funcs st') = shf (length (funcs st)).
Proof.
  intros fd st st' HS. split.
  - destruct HS. constructor; sim_fields; auto. apply hrel_app. assumption.
  - symmetry. unfold shf. eapply hrel_len. apply (sm_fn _ _ HS).
Qed.

(* a new file scope for the next package *)
Lemma new_scope_sim : forall st st', sim st st' ->
  sim (set_locals [] (set_cur (length (fscopes st)) (set_fscopes (fscopes st ++ [[]]) st)))
      (set_locals [] (set_cur (length (fscopes st')) (set_fscopes (fscopes st' ++ [[]]) st'))).
Proof.
  intros st st' HS. pose proof (hrel_len _ _ _ _ _ _ (sm_fs _ _ HS)) as Hl.
  destruct HS. constructor; sim_fields; auto. apply (hrel_app _ _ rn_env [] _ _ []). assumption.
Qed.

End Sim.

