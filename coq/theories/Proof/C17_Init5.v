(* C17 - closedness, the part that follows from isolation: after ANY BUILD files from an interpreter at rest, every
   id that occurs in a LIVE place of the state (live file scopes, the cache, live arrays and dicts, the constant
   defaults of live functions) names an existing object.  (closed_stateb also asks this of the garbage the packages
   left behind, which nothing can reach; that part needs an induction over the evaluator of its own and is open.) *)
From Coq Require Import String Lia.
From PlzV Require Import Base.Harness Gen.AspTables Model.C16_Syntax Model.C16_Ops Model.C16_Prim Model.C16_Eval.
From PlzV Require Import Proof.C17_Inv Proof.C17_Main Proof.C17_NoConst Proof.C17_Scopes Proof.C17_Iso Proof.C17_Sim7.
Local Open Scope list_scope.
Local Open Scope nat_scope.

Lemma rest_vok_ids : forall la da ld dd lf df v,
  vokb (rest_a la da) (rest_a ld dd) (rest_f lf df) v = true -> idsb la ld lf v = true.
Proof.
  intros la da ld dd lf df v H. destruct v; cbn [vokb idsb] in *; try reflexivity.
  - unfold rest_a in H. destruct (inb (s_arr sl) da); [discriminate|]. destruct (s_arr sl <? la); discriminate.
  - unfold rest_a in H. destruct (inb (s_arr sl) da); [discriminate|]. destruct (s_arr sl <? la); [reflexivity|discriminate].
  - unfold rest_a in H. destruct (inb id dd); [discriminate|]. destruct (id <? ld); discriminate.
  - unfold rest_a in H. destruct (inb id dd); [discriminate|]. destruct (id <? ld); [reflexivity|discriminate].
  - unfold rest_f in H. apply Bool.negb_true_iff in H. apply Bool.orb_false_elim in H. destruct H as [_ H].
    apply Nat.leb_gt in H. apply Nat.ltb_lt. exact H.
Qed.

Record live_closed (D : deadset) (st : state) : Prop := mkLC {
  lc_arr : forall a, rest_a (length (arrays st)) (d_a D) a <> Dead ->
           Forall (fun v => idsb (length (arrays st)) (length (dicts st)) (length (funcs st)) v = true) (arr_of st a);
  lc_dict : forall i, rest_a (length (dicts st)) (d_d D) i <> Dead ->
           Forall (fun kv : str * value => idsb (length (arrays st)) (length (dicts st)) (length (funcs st)) (snd kv) = true) (dict_of st i);
  lc_fs : forall j, rest_s (length (fscopes st)) (d_s D) j = true ->
           Forall (fun kv : str * value => idsb (length (arrays st)) (length (dicts st)) (length (funcs st)) (snd kv) = true) (nth j (fscopes st) []);
  lc_sub : Forall (fun le : str * env => Forall (fun kv : str * value => idsb (length (arrays st)) (length (dicts st)) (length (funcs st)) (snd kv) = true) (snd le)) (subcache st)
}.

Theorem rest_live_closed : forall defs D st, RestInv defs D st -> live_closed D st.
Proof.
  intros defs D st R. destruct R as [_ _ _ _ r_arr0 r_dict0 r_fs0 _ r_sub0 _ _]. constructor.
  - intros a Ha. eapply Forall_impl; [|apply r_arr0; exact Ha]. intros v Hv. eapply rest_vok_ids. exact Hv.
  - intros i Hi. eapply Forall_impl; [|apply r_dict0; exact Hi]. intros kv Hv. eapply rest_vok_ids. exact Hv.
  - intros j Hj. eapply Forall_impl; [|apply r_fs0; exact Hj]. intros kv Hv. eapply rest_vok_ids. exact Hv.
  - eapply Forall_impl; [|exact r_sub0]. intros le Hle. eapply Forall_impl; [|exact Hle]. intros kv Hv. eapply rest_vok_ids. exact Hv.
Qed.

(* (1), live part: the evaluator preserves it - after any BUILD files from a state at rest *)
Theorem live_part_stays_closed : forall defs fuel builds D st outs st', RestInv defs D st ->
  Forall (fun p => no_const p = true) builds ->
  run_builds Asp defs fuel builds st = (outs, st') ->
  exists D', RestInv defs D' st' /\ live_closed D' st'.
Proof.
  intros defs fuel builds D st outs st' R Hb H. destruct (isolation defs fuel builds D st outs st' R Hb H) as [_ [D' R']].
  exists D'. split; [exact R'|eapply rest_live_closed; exact R'].
Qed.
