(* C16 - the enlarged pure fragment (Model/C16_Pure2.v): one-step unfolding equations of the shared evaluator for the
   constructs the first pure fragment did not have (calls, comprehensions with filter / several names, methods, dicts, def). *)
From Coq Require Import Lia Wf_nat.
From PlzV Require Import Base.Harness Base.StrFacts Gen.AspTables Model.C16_Syntax Model.C16_Ops Model.C16_Prim Model.C16_Eval Model.C16 Model.C16_Pure Model.C16_Sort Model.C16_Pure2.
From PlzV Require Import Proof.C16_Ops Proof.C16_Int Proof.C16_Pure.
Local Open Scope Z_scope.

(* ================================================================ unfolding lemmas (one step of fuel) *)
Section Unfold2.
  Variable d : dialect.
  Variable defs : list (str * prog).
  Notation EE := (eval_expr d defs).
  Notation EV := (eval_vexpr d defs).
  Notation XB := (exec_block d defs).
  Notation XS := (exec_stmt d defs).
  Definition dfunc : func := Func [] [] [] 0%nat.

  Lemma eval_vexpr_S_index : forall f b i st,
    EV (S f) (XIndex b i) st =
    rbind (EV f b st) (fun '(obj, st1) => rbind (EE f i st1) (fun '(idx, st2) => rbind (vindex d st2 obj idx) (fun v => Ok (v, st2)))).
  Proof. reflexivity. Qed.

  Definition dict_pairs (f : nat) : list (expr * expr) -> state -> res (list (str * value) * state) :=
    mapM (fun kv st0 => rbind (EE f (fst kv) st0) (fun '(k, st') =>
                        rbind (EE f (snd kv) st') (fun '(v, st'') =>
                        match k with VStr ks => Ok ((ks, v), st'') | _ => Err EType end))).
  Lemma eval_vexpr_S_dict : forall f kvs st,
    EV (S f) (XDict kvs) st =
    rbind (dict_pairs f kvs st) (fun '(pairs, st1) =>
      let '(n, st2) := alloc_dict (fold_left (fun acc kv => env_set (fst kv) (snd kv) acc) pairs []) st1 in
      Ok (VDict n, st2)).
  Proof. reflexivity. Qed.

  Definition comp_loop2 (f : nat) (names : list str) (e : expr) (cond : option expr)
    : list value -> list value -> state -> res (list value * state) :=
    fix go (l : list value) (acc : list value) (st0 : state) : res (list value * state) :=
    match l with
    | [] => Ok (rev acc, st0)
    | li :: r =>
        rbind (unpack_names d names li st0) (fun st' =>
        rbind (match cond with
               | None => Ok (true, st')
               | Some c => rbind (EE f c st') (fun '(cv, sx) => Ok (truthy d sx cv, sx))
               end) (fun '(keep, st'') =>
        if keep then rbind (EE f e st'') (fun '(v, sy) => go r (v :: acc) sy)
        else go r acc st''))
    end.

  Lemma eval_vexpr_S_comp2 : forall f e names it cond st,
    EV (S f) (XComp e names it cond) st =
    rbind (EE f it st) (fun '(itv, st1) =>
    rbind (iter_items d st1 itv) (fun items =>
      let hint := comp_hint itv items in
      if hint <? 0 then Err EType else
      rbind (comp_loop2 f names e cond items [] (set_locals ([] :: locals st1) st1)) (fun '(out, st3) =>
        let st4 := set_locals (tl (locals st3)) st3 in
        if Nat.ltb (Z.to_nat hint) (length out) then Err EUnsupported
        else let '(r, st5) := alloc_list out (match d with Asp => Z.to_nat hint | Py => 0%nat end) st4 in
             Ok (VList r, st5)))).
  Proof. reflexivity. Qed.

  (* ---- calls ---- *)
  Definition bind_loop (f : nat) (formals : list (str * fdefault))
    : list (option str * expr) -> nat -> env -> state -> res (env * state) :=
    fix go (l : list (option str * expr)) (i : nat) (acc : env) (st0 : state) : res (env * state) :=
    match l with
    | [] => Ok (acc, st0)
    | (None, e) :: r =>
        if Nat.leb (length formals) i then Err EType else
        rbind (EE f e st0) (fun '(v, st') => go r (S i) (env_set (fst (nth i formals ([], DNo))) v acc) st')
    | (Some k, e) :: r =>
        if existsb (fun a => str_eqb (fst a) k) formals then
          rbind (EE f e st0) (fun '(v, st') => go r (S i) (env_set k v acc) st')
        else Err EType
    end.

  Lemma call_value_S_func : forall f id name args st,
    call_value d defs (S f) (VFunc id) name args st =
    rbind (bind_loop f (f_args (nth id (funcs st) dfunc)) args 0%nat [] st) (fun '(bound, st1) => run_func d defs f id bound st1).
  Proof. reflexivity. Qed.

  Definition fill_loop (f : nat) : list (str * fdefault) -> env -> state -> res (env * state) :=
    fix go (l : list (str * fdefault)) (acc : env) (st0 : state) : res (env * state) :=
    match l with
    | [] => Ok (acc, st0)
    | (a, df) :: r =>
        match env_get a acc with
        | Some _ => go r acc st0
        | None =>
            match df with
            | DNo => Err EType
            | DConst v => go r (env_set a v acc) st0
            | DExpr e => rbind (EE f e st0) (fun '(v, st') => go r (env_set a v acc) st')
            end
        end
    end.

  Lemma run_func_S : forall f id bound st1,
    run_func d defs (S f) id bound st1 =
    rbind (fill_loop f (f_args (nth id (funcs st1) dfunc)) bound st1) (fun '(full, st2) =>
      rbind (XB f (f_body (nth id (funcs st1) dfunc)) (set_locals [full] (set_cur (f_scope (nth id (funcs st1) dfunc)) st2))) (fun '(r, st4) =>
        match r with
        | RRet v => Ok (v, set_locals (locals st2) (set_cur (cur st2) st4))
        | _ => Ok (VNone, set_locals (locals st2) (set_cur (cur st2) st4))
        end)).
  Proof. reflexivity. Qed.

  Definition native_loop (f : nat) (sg : list (str * N * option value)) (varargs : bool)
    : list (option str * expr) -> nat -> list (option value) -> list value -> state -> res (list (option value) * list value * state) :=
    fix go (l : list (option str * expr)) (i : nat) (slots : list (option value)) (extra : list value) (st0 : state)
      : res (list (option value) * list value * state) :=
      match l with
      | [] => Ok (slots, extra, st0)
      | (None, e) :: r =>
          if Nat.leb (length sg) i then
            (if varargs then rbind (EE f e st0) (fun '(v, st') => go r (S i) slots (extra ++ [v]) st') else Err EType)
          else
            let '(_, t, def) := nth i sg ([], 0%N, None) in
            rbind (EE f e st0) (fun '(v, st') => rbind (validate t def v) (fun v' =>
            go r (S i) (list_set i (Some v') slots) extra st'))
      | (Some k, e) :: r =>
          match (fix find (sg0 : list (str * N * option value)) (j : nat) : option nat :=
                   match sg0 with [] => None | (a, _, _) :: sr => if str_eqb a k then Some j else find sr (S j) end) sg 0%nat with
          | None => Err EType
          | Some j =>
              let '(_, t, def) := nth j sg ([], 0%N, None) in
              rbind (EE f e st0) (fun '(v, st') => rbind (validate t def v) (fun v' =>
              go r (S i) (list_set j (Some v') slots) extra st'))
          end
      end.

  Definition fill_defaults (filled : list (option value)) (sg : list (str * N * option value)) : res (list value) :=
    mapR (fun sv => match fst sv with
                    | Some v => Ok v
                    | None => match snd sv with (_, _, Some dv) => Ok dv | _ => Err EType end
                    end) (combine filled sg).

  Lemma call_value_S_builtin : forall f n name args st, exists hof,
    call_value d defs (S f) (VBuiltin n) name args st =
    match native_sig n with
    | None => hof
    | Some (sg, varargs) =>
        rbind (native_loop f sg varargs args 0%nat (map (fun _ => @None value) sg) [] st) (fun '(filled, extra, st1) =>
        rbind (fill_defaults filled sg) (fun vals => native d f n (vals ++ extra) st1))
    end.
  Proof. intros. eexists. reflexivity. Qed.

  Definition meth_loop (f : nat) : list expr -> list (str * N * option value) -> state -> res (list value * state) :=
    fix go (l : list expr) (sg0 : list (str * N * option value)) (st0 : state) : res (list value * state) :=
    match sg0 with
    | [] => Ok ([], st0)
    | (_, t, def) :: sr =>
        match l with
        | e :: r => rbind (EE f e st0) (fun '(v, st') => rbind (validate t def v) (fun v' =>
                    rbind (go r sr st') (fun '(vs, st'') => Ok (v' :: vs, st''))))
        | [] => match def with
                | Some dv => rbind (go [] sr st0) (fun '(vs, st'') => Ok (dv :: vs, st''))
                | None => Err EType
                end
        end
    end.

  Definition call_m (f : nat) (m : str) (args : list expr) (obj : value) (st1 : state) (table : list str) : res (value * state) :=
    if existsb (str_eqb m) table then
      match method_sig m with
      | None => Err EUnsupported
      | Some sg =>
          if Nat.ltb (length sg) (S (length args)) then Err EType else
          rbind (meth_loop f args (tl sg) st1) (fun '(vals, st2) => native_method d f m (obj :: vals) st2)
      end
    else if existsb (str_eqb m) (str_methods ++ dict_methods) then Err EType else Err EUnsupported.

  Lemma eval_vexpr_S_meth : forall f b m args st,
    EV (S f) (XMeth b m args) st =
    rbind (EV f b st) (fun '(obj, st1) =>
      match obj with
      | VStr _ => call_m f m args obj st1 str_methods
      | VDict i | VFrozenDict i =>
          match env_get m (dict_of st1 i) with
          | Some _ => Err EUnsupported
          | None => call_m f m args obj st1 dict_methods
          end
      | _ => Err EType
      end).
  Proof. reflexivity. Qed.

  (* ---- slices ---- *)
  Definition opt_eval (f : nat) (o : option expr) (st0 : state) : res (option value * state) :=
    match o with None => Ok (None, st0) | Some e => rbind (EE f e st0) (fun '(v, st') => Ok (Some v, st')) end.
  Lemma eval_vexpr_S_slice : forall f b lo hi st,
    EV (S f) (XSlice b lo hi) st =
    rbind (EV f b st) (fun '(obj, st1) => rbind (opt_eval f lo st1) (fun '(lov, st2) => rbind (opt_eval f hi st2) (fun '(hiv, st3) =>
      vslice d st3 obj lov hiv))).
  Proof. reflexivity. Qed.

  (* ---- statements ---- *)
  Lemma exec_stmt_S_unpack : forall f names e st,
    XS (S f) (SUnpack names e) st =
    rbind (EE f e st) (fun '(v, st1) =>
      match names with
      | [] | [_] => Err EUnsupported
      | _ => rbind (unpack_names d names v st1) (fun st2 => Ok (RNone, st2))
      end).
  Proof. reflexivity. Qed.

  Definition for_loop2 (f : nat) (names : list str) (body : list stmt) : list value -> state -> res (sres * state) :=
    fix go (l : list value) (st0 : state) : res (sres * state) :=
    match l with
    | [] => Ok (RNone, st0)
    | li :: r => rbind (unpack_names d names li st0) (fun st' =>
                 rbind (XB f body st') (fun '(r0, st'') =>
                   match r0 with
                   | RBreak => Ok (RNone, st'')
                   | RRet v => Ok (RRet v, st'')
                   | _ => go r st''
                   end))
    end.
  Lemma exec_stmt_S_for2 : forall f names it body st,
    XS (S f) (SFor names it body) st =
    rbind (EE f it st) (fun '(itv, st1) => rbind (iter_items d st1 itv) (fun items => for_loop2 f names body items st1)).
  Proof. reflexivity. Qed.

  Definition def_formals (f : nat) : list (str * option expr) -> state -> res (list (str * fdefault) * state) :=
    mapM (fun na st0 => match snd na with
                        | None => Ok ((fst na, DNo), st0)
                        | Some e => if is_const 32%nat e then rbind (const_alloc 32%nat e st0) (fun '(v, st') => Ok ((fst na, DConst v), st'))
                                    else match d with
                                         | Asp => Ok ((fst na, DExpr e), st0)
                                         | Py => rbind (EE f e st0) (fun '(v, st') => Ok ((fst na, DConst v), st'))
                                         end
                        end).
  Lemma exec_stmt_S_def : forall f n args body st,
    XS (S f) (SDef n args body) st =
    rbind (def_formals f args st) (fun '(formals, st1) =>
      Ok (RNone, set_var n (VFunc (length (funcs st1))) (set_funcs (funcs st1 ++ [Func n formals body (cur st1)]) st1))).
  Proof. reflexivity. Qed.

  Lemma exec_stmt_S_call : forall f n args st, exists K,
    XS (S f) (SCall n args) st =
    match lookup n st with
    | None => Err EType
    | Some fn => match fn with
                 | VBuiltin b => K b
                 | _ => rbind (call_value d defs f fn n args st) (fun '(_, st1) => Ok (RNone, st1))
                 end
    end.
  Proof. intros. eexists. reflexivity. Qed.

  Lemma exec_stmt_S_call_func : forall f n args st id,
    lookup n st = Some (VFunc id) ->
    XS (S f) (SCall n args) st = rbind (call_value d defs f (VFunc id) n args st) (fun '(_, st1) => Ok (RNone, st1)).
  Proof. intros f n args st id H. destruct (exec_stmt_S_call f n args st) as [K E]. rewrite E, H. reflexivity. Qed.
End Unfold2.
