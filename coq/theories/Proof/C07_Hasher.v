(* C07 - the two stores of the path hasher.
   MEMO: along every history of Hash / CopyHash / MoveHash calls whose successful raw computations return the digest of
   the path, a memo whose store is guarded by `err == nil` only ever holds digests of successful computations, and
   every digest Hash returns with a nil error is the digest of the path it stands for - in particular after a FAILED
   call the next call returns the true digest or an error.  Without the guard this is false (a partial digest is
   returned with a nil error).
   XATTR: the hashers of different algorithms never return a value another algorithm wrote IF AND ONLY IF the
   attribute names of the algorithms are pairwise distinct; for the regenerated rule and algorithm list they are, by
   computation. *)
From Coq Require Import Permutation.
From PlzV Require Import Base.Harness Base.StrFacts Model.C08 Model.C07_Hasher Proof.C07.
From PlzV Require Gen.C07Hasher.

(* ------------------------------------------------------------------------------------------ memo *)

Section Memo.
  Variable TH : str -> str.    (* the digest of a path, as a fresh process computes it on the unchanged tree *)

  (* a successful raw computation returns the digest of the path; failures return ANY partial digest *)
  Definition faithful_op (o : hop) : Prop :=
    match o with HHash p _ (RawOk d) => d = TH p | _ => True end.

  (* the memo only holds digests of successful computations (ghost: of which path) *)
  Definition memo_ok (m : memo) : Prop := forall p o v, In (p, MVal o v) m -> v = TH o.

  Definition res_ok (x : hres) : Prop := match x with ResOk o d => d = TH o | _ => True end.

  Lemma memo_ok_cons p e m : memo_ok m -> (forall o v, e = MVal o v -> v = TH o) -> memo_ok ((p, e) :: m).
  Proof. intros Hm He q o v [[= <- ->]|Hin]; [now apply He | now apply (Hm q)]. Qed.

  Lemma memo_ok_remove p m : memo_ok m -> memo_ok (mremove p m).
  Proof. intros Hm q o v Hin. apply filter_In in Hin. now apply (Hm q). Qed.

  Lemma memo_ok_lookup p m e : memo_ok m -> lookup p m = Some e -> forall o v, e = MVal o v -> v = TH o.
  Proof. intros Hm Hl o v ->. apply lookup_in in Hl. now apply (Hm p). Qed.

  Lemma hstep_ok m o : memo_ok m -> faithful_op o ->
    memo_ok (fst (hstep true m o)) /\ res_ok (snd (hstep true m o)).
  Proof.
    intros Hm Hf. destruct o as [p recalc w|old new|old new]; cbn [hstep].
    - assert (Hmiss : memo_ok (fst (match w with
                                  | RawMissing => (m, ResErr)
                                  | RawOk d => ((p, MVal p d) :: m, ResOk p d)
                                  | RawErr _ => (m, ResErr) end))
                      /\ res_ok (snd (match w with
                                  | RawMissing => (m, ResErr)
                                  | RawOk d => ((p, MVal p d) :: m, ResOk p d)
                                  | RawErr _ => (m, ResErr) end))).
      { destruct w as [|d|part]; cbn; try (split; [assumption | exact I]).
        cbn in Hf. split; [|assumption]. apply memo_ok_cons; [assumption|]. now intros o v [= <- <-]. }
      destruct (if recalc then None else lookup p m) as [[|org v]|] eqn:E; try exact Hmiss.
      cbn. split; [assumption|]. destruct recalc; [discriminate|]. now apply (memo_ok_lookup p m _ Hm E).
    - destruct (lookup old m) as [e|] eqn:E; cbn; (split; [|exact I]); apply memo_ok_cons; try assumption.
      + now apply (memo_ok_lookup old m e).
      + discriminate.
    - destruct (lookup old m) as [e|] eqn:E; [|split; [assumption | exact I]].
      assert (Hc : memo_ok ((new, e) :: m)) by (apply memo_ok_cons; [assumption | now apply (memo_ok_lookup old m e)]).
      destruct (has_prefix (s "plz-out/tmp") old); cbn [fst snd]; (split; [|exact I]); [now apply memo_ok_remove | assumption].
  Qed.

  (* the invariant over call histories *)
  Theorem hrun_ok : forall h m, memo_ok m -> Forall faithful_op h ->
    memo_ok (fst (hrun true m h)) /\ Forall res_ok (snd (hrun true m h)).
  Proof.
    induction h as [|o h IH]; intros m Hm Hf; cbn [hrun]; [split; [assumption | constructor]|].
    inversion Hf as [|? ? Ho Hh]; subst. destruct (hstep_ok m o Hm Ho) as [Hm1 Hr].
    destruct (hstep true m o) as [m1 x]. specialize (IH m1 Hm1 Hh). destruct (hrun true m1 h) as [m2 xs].
    cbn in *. destruct IH. split; [assumption | now constructor].
  Qed.

  (* histories of Hash calls alone: the digest returned for p is the digest OF p *)
  Definition hash_only (o : hop) : Prop := match o with HHash _ _ _ => True | _ => False end.
  Definition memo_own (m : memo) : Prop := forall p e, In (p, e) m -> exists v, e = MVal p v.
  Definition res_own (o : hop) (x : hres) : Prop :=
    match o, x with HHash p _ _, ResOk org _ => org = p | _, _ => True end.

  Theorem hrun_own g : forall h m, memo_own m -> Forall hash_only h -> Forall2 res_own h (snd (hrun g m h)).
  Proof.
    induction h as [|o h IH]; intros m Hm Hf; cbn [hrun]; [constructor|].
    inversion Hf as [|? ? Ho Hh]; subst. destruct o as [p recalc w| |]; try contradiction.
    assert (H1 : memo_own (fst (hstep g m (HHash p recalc w))) /\ res_own (HHash p recalc w) (snd (hstep g m (HHash p recalc w)))).
    { cbn [hstep].
      assert (Hcons : forall d, memo_own ((p, MVal p d) :: m)).
      { intros d q e [[= <- <-]|Hin]; [now exists d | now apply Hm]. }
      destruct (if recalc then None else lookup p m) as [[|org v]|] eqn:E.
      - destruct w; cbn; try (split; [assumption | exact I]); try (split; [apply Hcons | reflexivity]).
        destruct g; cbn; (split; [|exact I]); [assumption | apply Hcons].
      - cbn. split; [assumption|]. destruct recalc; [discriminate|]. apply lookup_in in E. destruct (Hm _ _ E) as [v' [= -> _]].
        reflexivity.
      - destruct w; cbn; try (split; [assumption | exact I]); try (split; [apply Hcons | reflexivity]).
        destruct g; cbn; (split; [|exact I]); [assumption | apply Hcons]. }
    destruct H1 as [Hm1 Hr]. destruct (hstep g m (HHash p recalc w)) as [m1 x]. specialize (IH m1 Hm1 Hh).
    destruct (hrun g m1 h) as [m2 xs]. cbn in *. now constructor.
  Qed.
End Memo.

Lemma memo_ok_nil TH : memo_ok TH [].
Proof. intros p o v []. Qed.

Lemma memo_own_nil : memo_own [].
Proof. intros p e []. Qed.

(* computation on the regenerated definition: the store `hasher.memo[path] = result` in PathHasher.Hash is inside
   `if err == nil`.  Dropping the guard makes gotrans emit false and this lemma fails. *)
Lemma gen_memo_guarded : C07Hasher.memo_guarded = true.
Proof. reflexivity. Qed.

Lemma C07_memo_full_proof :
  forall (TH : str -> str) (h : list hop), Forall (faithful_op TH) h ->
    Forall (res_ok TH) (snd (hrun C07Hasher.memo_guarded [] h)).
Proof. intros TH h Hf. rewrite gen_memo_guarded. apply hrun_ok; [apply memo_ok_nil | assumption]. Qed.

(* without the guard: the first call fails and leaves its partial digest, the second returns it with a nil error *)
Lemma unguarded_memo_returns_partial_digest :
  ~ (forall (TH : str -> str) (h : list hop), Forall (faithful_op TH) h -> Forall (res_ok TH) (snd (hrun false [] h))).
Proof.
  intros H.
  specialize (H (fun p => s "digest of " ++ p) [HHash (s "pkg/data") false (RawErr (s "partial")); HHash (s "pkg/data") false (RawOk (s "digest of pkg/data"))]).
  assert (Hf : Forall (faithful_op (fun p => s "digest of " ++ p))
                 [HHash (s "pkg/data") false (RawErr (s "partial")); HHash (s "pkg/data") false (RawOk (s "digest of pkg/data"))]).
  { repeat constructor. }
  specialize (H Hf). vm_compute in H. inversion H as [|? ? _ H2]; subst. inversion H2 as [|? ? H3 _]; subst. discriminate.
Qed.

(* ------------------------------------------------------------------------------------------ xattr names *)

Lemma nodupb_map_inj {A} (f : A -> str) (l : list A) :
  nodupb (map f l) = true -> forall a b, In a l -> In b l -> f a = f b -> a = b.
Proof.
  induction l as [|x l IH]; intros Hn a b Ha Hb Hab; [destruct Ha|].
  cbn in Hn. apply andb_true_iff in Hn. destruct Hn as [Hne Hn]. apply negb_true_iff in Hne.
  assert (Hno : forall z, In z l -> f x <> f z).
  { intros z Hz Heq. assert (existsb (str_eqb (f x)) (map f l) = true); [|congruence].
    apply existsb_exists. exists (f z). split; [now apply in_map | now apply str_eqb_eq]. }
  destruct Ha as [<-|Ha], Hb as [<-|Hb]; try reflexivity.
  - exfalso. now apply (Hno b Hb).
  - exfalso. apply (Hno a Ha). now symmetry.
  - now apply IH.
Qed.

Lemma nodupb_map_clash (f : str -> str) (l : list str) :
  nodupb l = true -> nodupb (map f l) = false -> exists a b, In a l /\ In b l /\ a <> b /\ f a = f b.
Proof.
  induction l as [|x l IH]; intros Hl Hn; [discriminate|].
  cbn in Hl, Hn. apply andb_true_iff in Hl. destruct Hl as [Hx Hl]. apply negb_true_iff in Hx.
  apply andb_false_iff in Hn. destruct Hn as [Hn|Hn].
  - apply negb_false_iff in Hn. apply existsb_exists in Hn. destruct Hn as [y [Hy He]]. apply str_eqb_eq in He.
    apply in_map_iff in Hy. destruct Hy as [b [<- Hb]]. exists x, b. repeat split; [now left | now right | | assumption].
    intros ->. assert (existsb (str_eqb b) l = true); [|congruence]. apply existsb_exists. exists b. split; [assumption | apply str_eqb_refl].
  - destruct (IH Hl Hn) as [a [b (Ha & Hb & Hab & Hf)]]. exists a, b. repeat split; try (now right); assumption.
Qed.

(* ------------------------------------------------------------------------------------------ xattr store *)

Section Xattr.
  Variable r : xrule.
  Variable algos : list str.
  Variable TH : str -> str -> str.    (* algorithm, path |-> the digest a computation gives *)

  Definition xfaithful (o : xop) : Prop := match o with XHash a p _ _ d => In a algos /\ d = TH a p end.

  (* every attribute was written by the algorithm it is named after and holds that algorithm's digest of the path *)
  Definition xstore_ok (st : xstore) : Prop :=
    forall p n a v, In ((p, n), (a, v)) st -> In a algos /\ n = xattr_name r a /\ v = TH a p.

  (* the call returns the digest of ITS algorithm *)
  Definition xres_ok (o : xop) (x : str * str) : Prop := match o with XHash a p _ _ _ => x = (a, TH a p) end.

  Hypothesis Hdistinct : names_distinct r algos = true.

  Lemma xstep_ok st o : xstore_ok st -> xfaithful o -> xstore_ok (fst (xstep r st o)) /\ xres_ok o (snd (xstep r st o)).
  Proof.
    intros Hs Hf. destruct o as [a p recalc store d]. destruct Hf as [Ha ->]. cbn [xstep].
    assert (Hmiss : xstore_ok (if store then ((p, xattr_name r a), (a, TH a p)) :: st else st)).
    { destruct store; [|assumption]. intros q n b v [[= <- <- <- <-]|Hin]; [now repeat split | now apply Hs]. }
    destruct (if recalc then None else xget st p (xattr_name r a)) as [[b v]|] eqn:E; cbn; [|now split].
    split; [assumption|]. destruct recalc; [discriminate|]. unfold xget in E.
    destruct (find _ st) as [[[q n] bv]|] eqn:F; [|discriminate]. cbn in E. injection E as ->.
    apply find_some in F. destruct F as [Hin Hc]. cbn in Hc. apply andb_true_iff in Hc. destruct Hc as [Hp Hn].
    apply str_eqb_eq in Hp, Hn. subst q n. destruct (Hs _ _ _ _ Hin) as (Hb & Hname & ->).
    assert (b = a) as ->; [|reflexivity].
    apply (nodupb_map_inj (xattr_name r) algos Hdistinct); try assumption. now symmetry.
  Qed.

  (* the invariant over histories *)
  Theorem xrun_ok : forall h st, xstore_ok st -> Forall xfaithful h ->
    xstore_ok (fst (xrun r st h)) /\ Forall2 xres_ok h (snd (xrun r st h)).
  Proof.
    induction h as [|o h IH]; intros st Hs Hf; cbn [xrun]; [split; [assumption | constructor]|].
    inversion Hf as [|? ? Ho Hh]; subst. destruct (xstep_ok st o Hs Ho) as [Hs1 Hr].
    destruct (xstep r st o) as [st1 x]. specialize (IH st1 Hs1 Hh). destruct (xrun r st1 h) as [st2 xs].
    cbn in *. destruct IH. split; [assumption | now constructor].
  Qed.
End Xattr.

Lemma xstore_ok_nil r algos TH : xstore_ok r algos TH [].
Proof. intros p n a v []. Qed.

(* every history over `algos` returns, to every call, the digest of the calling algorithm *)
Definition isolated (r : xrule) (algos : list str) : Prop :=
  forall (TH : str -> str -> str) (h : list xop), Forall (xfaithful algos TH) h -> Forall2 (xres_ok TH) h (snd (xrun r [] h)).

(* two algorithms with one name: the second reads what the first wrote *)
Lemma shared_name_leaks r a b p (TH : str -> str -> str) :
  xattr_name r a = xattr_name r b ->
  snd (xrun r [] [XHash b p false true (TH b p); XHash a p false true (TH a p)]) = [(b, TH b p); (b, TH b p)].
Proof.
  intros Hn. cbn [xrun xstep xget find fst snd]. rewrite Hn. unfold xget. cbn [find fst snd]. rewrite !str_eqb_refl. reflexivity.
Qed.

Theorem isolated_iff_names_distinct r algos :
  nodupb algos = true -> (isolated r algos <-> names_distinct r algos = true).
Proof.
  intros Hnd. split.
  - intros Hiso. destruct (names_distinct r algos) eqn:E; [reflexivity|]. exfalso.
    destruct (nodupb_map_clash (xattr_name r) algos Hnd E) as [a [b (Ha & Hb & Hab & Hn)]].
    pose (TH := fun (algo _ : str) => algo).
    specialize (Hiso TH [XHash b [] false true (TH b []); XHash a [] false true (TH a [])]).
    rewrite (shared_name_leaks r a b [] TH Hn) in Hiso.
    assert (Hf : Forall (xfaithful algos TH) [XHash b [] false true (TH b []); XHash a [] false true (TH a [])]).
    { repeat constructor; assumption. }
    specialize (Hiso Hf). inversion Hiso as [|? ? ? ? _ H2]; subst. inversion H2 as [|? ? ? ? H3 _]; subst.
    cbn in H3. injection H3 as H3. now apply Hab.
  - intros Hd TH h Hf. apply (xrun_ok r algos TH Hd); [apply xstore_ok_nil | assumption].
Qed.

(* computation on the regenerated table: the attribute names NewPathHasher gives the algorithms of NewBuildState are
   pairwise distinct (and so are the algorithms).  A rule under which two algorithms share a name fails here. *)
Lemma gen_algos_nodup : nodupb C07Hasher.algos = true.
Proof. vm_compute. reflexivity. Qed.

Lemma gen_names_distinct : names_distinct C07Hasher.xattr_rule C07Hasher.algos = true.
Proof. vm_compute. reflexivity. Qed.

Lemma C07_xattr_full_proof : isolated C07Hasher.xattr_rule C07Hasher.algos.
Proof. apply isolated_iff_names_distinct; [apply gen_algos_nodup | apply gen_names_distinct]. Qed.
