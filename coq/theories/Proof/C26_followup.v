(* C26 follow-up proofs:
   (1) TestSuite.Add keys a case by the PAIR (Name, ClassName) - it never identifies two cases with different
       pairs, whatever their joined form "ClassName.Name" is - and the number of reported tests is the number of
       distinct pairs written in the executed attempts;
   (2) the cached path of test(): the second `plz test` of an unchanged target re-reads the stored results. *)
From PlzV Require Import Base.Harness Base.StrFacts Gen.C26Counters Model.C26 Proof.C26.
From Coq Require Import Lia Permutation.

(* ------------------------------------------------------------------------------------------------ *)
(* (1) pairs *)

Lemma key_merged o es : key (mkCase (c_class o) (c_name o) es) = key o.
Proof. reflexivity. Qed.

(* every execution found under a case of Add's result was recorded under a case with the same pair *)
Lemma add_one_origin s c x e :
  In x (add_one s c) -> In e (c_execs x) ->
  exists c0, (In c0 s \/ c0 = c) /\ key c0 = key x /\ In e (c_execs c0).
Proof.
  induction s as [|o s IH]; cbn [add_one]; intros Hx He.
  - destruct Hx as [Hx|[]]. subst x. exists c. auto.
  - destruct (same_key o c) eqn:E.
    + apply same_key_iff in E. destruct Hx as [Hx|Hx].
      * subst x. cbn [c_execs] in He. rewrite key_merged. apply in_app_or in He. destruct He as [He|He].
        -- exists o. split; [left; left; reflexivity|]. split; [reflexivity|exact He].
        -- exists c. split; [right; reflexivity|]. split; [symmetry; exact E|exact He].
      * exists x. split; [left; right; exact Hx|]. split; [reflexivity|exact He].
    + destruct Hx as [Hx|Hx].
      * subst x. exists o. split; [left; left; reflexivity|]. split; [reflexivity|exact He].
      * destruct (IH Hx He) as [c0 [[H0|H0] [K0 E0]]].
        -- exists c0. split; [left; right; exact H0|]. split; [exact K0|exact E0].
        -- exists c0. split; [right; exact H0|]. split; [exact K0|exact E0].
Qed.

Theorem add_all_origin cs : forall s x e,
  In x (add_all s cs) -> In e (c_execs x) ->
  exists c0, In c0 (s ++ cs) /\ key c0 = key x /\ In e (c_execs c0).
Proof.
  unfold add_all. induction cs as [|c cs IH]; intros s x e Hx He; cbn [fold_left] in Hx.
  - exists x. rewrite app_nil_r. auto.
  - destruct (IH _ x e Hx He) as [c0 [H0 [K0 E0]]]. apply in_app_or in H0. destruct H0 as [H0|H0].
    + destruct (add_one_origin s c c0 e H0 E0) as [c1 [[H1|H1] [K1 E1]]].
      * exists c1. split; [apply in_or_app; left; exact H1|]. split; [congruence|exact E1].
      * exists c1. split; [apply in_or_app; right; left; symmetry; exact H1|]. split; [congruence|exact E1].
    + exists c0. split; [apply in_or_app; right; right; exact H0|]. split; [exact K0|exact E0].
Qed.

(* two cases with different pairs are never merged *)
Theorem distinct_pairs_never_merged a b : key a <> key b -> add_all [] [a; b] = [a; b].
Proof.
  intros N. apply (add_all_distinct [a; b] []). cbn. constructor.
  - intros [H|[]]. apply N. symmetry. exact H.
  - constructor; [intros []|constructor].
Qed.

(* the keys of Add's result: the distinct pairs, in order of first occurrence *)
Definition uniq_add (acc : list (str * str)) (k : str * str) : list (str * str) :=
  if existsb (key_eqb k) acc then acc else acc ++ [k].
Definition uniq_from (acc ks : list (str * str)) : list (str * str) := fold_left uniq_add ks acc.

Lemma existsb_key_eqb k l : existsb (key_eqb k) l = true <-> In k l.
Proof.
  rewrite existsb_exists. split.
  - intros [x [Hx E]]. apply key_eqb_iff in E. subst. exact Hx.
  - intros H. exists k. split; [exact H|apply key_eqb_refl].
Qed.

Lemma existsb_same_key_eqb s c : existsb (fun o => same_key o c) s = existsb (key_eqb (key c)) (keys s).
Proof.
  apply Bool.eq_iff_eq_true. rewrite existsb_same_key, existsb_key_eqb. reflexivity.
Qed.

Lemma add_one_keys_uniq s c : keys (add_one s c) = uniq_add (keys s) (key c).
Proof. rewrite add_one_keys, existsb_same_key_eqb. reflexivity. Qed.

Theorem add_all_keys_uniq cs : forall s, keys (add_all s cs) = uniq_from (keys s) (keys cs).
Proof.
  unfold add_all, uniq_from. induction cs as [|c cs IH]; intros s; [reflexivity|].
  cbn [fold_left keys map]. rewrite IH, add_one_keys_uniq. reflexivity.
Qed.

(* the counting theorem: the tests reported for a target are the distinct (name, classname) pairs written in
   the executed attempts - no two are identified, none is invented, none is lost *)
Theorem reported_tests_distinct_pairs n runs :
  let written := keys (concat (executed n runs)) in
  keys (flake_run n runs) = uniq_from [] written
  /\ tests (flake_run n runs) = length (uniq_from [] written)
  /\ NoDup (keys (flake_run n runs))
  /\ (forall k, In k (keys (flake_run n runs)) <-> In k written)
  /\ (forall x e, In x (flake_run n runs) -> In e (c_execs x) ->
        exists c0, In c0 (concat (executed n runs)) /\ key c0 = key x /\ In e (c_execs c0)).
Proof.
  intros written. subst written. rewrite flake_run_merged.
  assert (K : keys (add_all [] (concat (executed n runs))) = uniq_from [] (keys (concat (executed n runs)))).
  { exact (add_all_keys_uniq (concat (executed n runs)) []). }
  split; [exact K|]. split.
  - unfold tests. rewrite <- K. unfold keys. rewrite map_length. reflexivity.
  - split; [apply add_all_nodup; constructor|]. split.
    + intros k. rewrite add_all_in_keys. cbn. split; [intros [[]|H]; exact H|intros H; right; exact H].
    + intros x e Hx He. destruct (add_all_origin _ [] x e Hx He) as [c0 H0]. exists c0. exact H0.
Qed.

(* the joined form "ClassName.Name" is not injective on pairs: keying by it would merge these two cases *)
Definition joined (c : tcase) : str := c_class c ++ s "." ++ c_name c.
Definition w_join_a : tcase := mkCase (s "pkg.Outer") (s "Inner.test_ok") [ePass].
Definition w_join_b : tcase := mkCase (s "pkg.Outer.Inner") (s "test_ok") [eFail].
Lemma joined_collision :
  joined w_join_a = joined w_join_b /\ key w_join_a <> key w_join_b
  /\ add_all [] [w_join_a; w_join_b] = [w_join_a; w_join_b]
  /\ target_passes 1 [[w_join_a; w_join_b]] = false
  /\ counters (target_results 1 [[w_join_a; w_join_b]]) = [2; 1; 0; 1; 0; 0]%N.
Proof.
  split; [reflexivity|]. split; [discriminate|]. split; [apply distinct_pairs_never_merged; discriminate|].
  split; vm_compute; reflexivity.
Qed.

(* ------------------------------------------------------------------------------------------------ *)
(* (2) the cached path *)

Lemma executed_atts_map name no n : forall atts,
  map (run_suite name no) (executed_atts name no n atts) = executed n (map (run_suite name no) atts).
Proof.
  induction n as [|n IH]; intros atts; [reflexivity|]. destruct atts as [|a r]; [reflexivity|]. cbn.
  destruct (all_succeeded (run_suite name no a)); [reflexivity|]. rewrite IH. reflexivity.
Qed.

Lemma count_zero p (s : suite) : (forall c, In c s -> p c = false) -> count p s = 0.
Proof.
  intros H. induction s as [|c s IH]; [reflexivity|]. rewrite count_cons, (H c (or_introl eq_refl)), IH; [reflexivity|].
  intros c' Hc'. apply H. right. exact Hc'.
Qed.

(* a suite all of whose cases succeeded has no failed and no errored case: the `results.Failures() > 0` guard of
   cacheOutputFiles is implied by the AllSucceeded() test around it *)
Lemma all_succeeded_no_bad s : all_succeeded s = true -> failures s = 0 /\ errors s = 0.
Proof.
  intros H. rewrite all_succeeded_spec in H. unfold failures, errors. split; apply count_zero; intros c Hc;
    specialize (H c Hc); unfold case_ok in H; unfold view, cond_Failures, cond_Errors;
    destruct (has_success c), (has_skip c); try discriminate; reflexivity.
Qed.

Lemma stored_spec name no n atts :
  stored name no n atts =
  if all_succeeded (first_report name no n atts)
  then Some (stored_of (last (executed_atts name no n atts) (mkAttempt false [])))
  else None.
Proof.
  unfold stored. destruct (all_succeeded (first_report name no n atts)) eqn:E; [|reflexivity].
  destruct (all_succeeded_no_bad _ E) as [F _]. rewrite F. reflexivity.
Qed.

Lemma first_report_merged name no n atts :
  first_report name no n atts = add_all [] (concat (executed n (map (run_suite name no) atts))).
Proof. unfold first_report, target_results, collapse. cbn [app]. apply flake_run_merged. Qed.

(* with result files that parse, parseTestOutput returns their cases, possibly plus the synthetic case *)
Lemma parse_output_some name no re d ds r :
  parse_results (d :: ds) [] = Some r ->
  parse_output name no re (d :: ds) = r \/ parse_output name no re (d :: ds) = add_all r (synthetic name eErr).
Proof.
  intros H. unfold parse_output. rewrite H.
  destruct (re && Nat.eqb (failures r) 0); [right; reflexivity|].
  destruct (negb re && negb (Nat.eqb (failures r) 0)); [right; reflexivity|left; reflexivity].
Qed.

Lemma last_in {A} (l : list A) d : l <> [] -> In (last l d) l.
Proof.
  induction l as [|a l IH]; [congruence|]. intros _. destruct l as [|b l]; [left; reflexivity|].
  right. apply IH. discriminate.
Qed.

(* whatever the second invocation reports from the stored file: every case succeeded, nothing failed or errored,
   and (when the last attempt left result files) every reported case was reported, under the same pair, by the
   first invocation - the cached report invents no test case *)
Theorem cached_report_sound name no n atts r :
  second_report name no n atts = (r, true) ->
  all_succeeded (first_report name no n atts) = true
  /\ all_succeeded r = true /\ failures r = 0 /\ errors r = 0
  /\ passes r + flaky_passes r + skips r = tests r + count double r
  /\ (a_data (last (executed_atts name no n atts) (mkAttempt false [])) <> [] ->
      forall c, In c r -> In (key c) (keys (first_report name no n atts))).
Proof.
  unfold second_report. rewrite stored_spec.
  destruct (all_succeeded (first_report name no n atts)) eqn:E1; [|discriminate].
  set (la := last (executed_atts name no n atts) (mkAttempt false [])).
  unfold cached_results. destruct (parse_results (stored_of la) []) as [r0|] eqn:P; [|discriminate].
  destruct (all_succeeded r0) eqn:E2; [|discriminate]. intros H. inversion H. subst r0. clear H.
  destruct (all_succeeded_no_bad r E2) as [F0 R0].
  split; [reflexivity|]. split; [exact E2|]. split; [exact F0|]. split; [exact R0|]. split.
  - pose proof (counters_partition r) as CP. lia.
  - intros ND c Hc.
    assert (EX : executed_atts name no n atts <> []).
    { intros Z. unfold la in ND. rewrite Z in ND. cbn in ND. apply ND. reflexivity. }
    assert (IN : In la (executed_atts name no n atts)) by (apply last_in; exact EX).
    assert (SD : stored_of la = a_data la).
    { unfold stored_of. destruct (a_data la); [congruence|reflexivity]. }
    rewrite SD in P.
    assert (KR : In (key c) (keys (run_suite name no la))).
    { unfold run_suite. destruct (a_data la) as [|d ds] eqn:AD; [congruence|].
      destruct (parse_output_some name no (a_run_err la) d ds r P) as [Q|Q]; rewrite Q.
      - unfold keys. apply in_map. exact Hc.
      - apply add_all_in_keys. left. unfold keys. apply in_map. exact Hc. }
    rewrite first_report_merged. apply add_all_in_keys. right.
    unfold keys in *. apply in_map_iff in KR. destruct KR as [c' [Kc' Hc']].
    apply in_map_iff. exists c'. split; [exact Kc'|]. apply in_concat. exists (run_suite name no la). split; [|exact Hc'].
    rewrite <- executed_atts_map. apply in_map. exact IN.
Qed.

(* the second report when nothing comes from the stored file is the first report again *)
Lemma second_report_rerun name no n atts r :
  second_report name no n atts = (r, false) -> r = first_report name no n atts.
Proof.
  unfold second_report. destruct (stored name no n atts) as [ds|]; [destruct (cached_results ds)|];
    intros H; inversion H; reflexivity.
Qed.

(* the counters of the second report equal those of the first: a target whose first attempt exits zero and
   writes result files in which every case passed or was skipped, under distinct pairs, is reported from the
   stored file exactly as it was reported when it ran *)
Theorem cached_report_equals_first name no n a rest r :
  a_run_err a = false -> a_data a <> [] -> parse_results (a_data a) [] = Some r ->
  all_succeeded r = true -> NoDup (keys r) ->
  first_report name no (S n) (a :: rest) = r
  /\ second_report name no (S n) (a :: rest) = (r, true)
  /\ counters (fst (second_report name no (S n) (a :: rest))) = counters (first_report name no (S n) (a :: rest)).
Proof.
  intros RE AD P OK ND.
  destruct (all_succeeded_no_bad r OK) as [F0 _].
  assert (RS : run_suite name no a = r).
  { unfold run_suite, parse_output. destruct (a_data a) as [|d ds]; [congruence|]. rewrite P, RE, F0. reflexivity. }
  assert (FR : first_report name no (S n) (a :: rest) = r).
  { unfold first_report, target_results, flake_run, collapse. cbn. rewrite RS, OK.
    apply (add_all_distinct r []). exact ND. }
  assert (SR : second_report name no (S n) (a :: rest) = (r, true)).
  { unfold second_report. rewrite stored_spec, FR, OK. cbn [executed_atts]. rewrite RS, OK. cbn [last].
    unfold stored_of. destruct (a_data a) as [|d ds] eqn:E; [congruence|].
    unfold cached_results. rewrite P, OK. reflexivity. }
  split; [exact FR|]. split; [exact SR|]. rewrite SR, FR. reflexivity.
Qed.

(* ... and with the dummy stored for a target that writes no results file: one passing case both times *)
Lemma cached_no_output name n rest :
  counters (first_report name true (S n) (mkAttempt false [] :: rest)) = [1; 1; 0; 0; 0; 0]%N
  /\ counters (fst (second_report name true (S n) (mkAttempt false [] :: rest))) = [1; 1; 0; 0; 0; 0]%N
  /\ snd (second_report name true (S n) (mkAttempt false [] :: rest)) = true.
Proof. repeat split; reflexivity. Qed.

(* the results-file reader: a plain file is read whatever it is called; a directory is read in name order and
   the report does not depend on that order *)
Lemma read_tree_file d : read_tree (RFile d) = [d].
Proof. reflexivity. Qed.

Lemma insert_entry_perm e l : Permutation (insert_entry e l) (e :: l).
Proof.
  induction l as [|x l IH]; cbn; [apply Permutation_refl|].
  destruct (str_ltb (fst x) (fst e)); [|apply Permutation_refl].
  apply perm_trans with (x :: e :: l); [apply perm_skip; exact IH|apply perm_swap].
Qed.

Lemma sort_entries_perm l : Permutation (sort_entries l) l.
Proof.
  induction l as [|e l IH]; cbn; [apply perm_nil|].
  apply perm_trans with (e :: sort_entries l); [apply insert_entry_perm|apply perm_skip; exact IH].
Qed.

Theorem read_tree_dir_perm l : Permutation (read_tree (RDir l)) (map snd l).
Proof. cbn. apply Permutation_map. apply sort_entries_perm. Qed.

(* parse_results collapses the files in order: the result is the concatenation of the parsed files *)
Lemma parse_results_concat ds : forall acc r,
  parse_results ds acc = Some r ->
  exists parts, Forall2 (fun d p => parse_datum d = Some p) ds parts /\ r = acc ++ concat parts.
Proof.
  induction ds as [|d ds IH]; intros acc r H; cbn [parse_results] in H.
  - inversion H. subst. exists []. split; [constructor|]. cbn. rewrite app_nil_r. reflexivity.
  - (* the loop body regenerated from parseTestResults: parse, first error wins, collapse *)
    unfold results_step in H.
    destruct (parse_datum d) as [x|] eqn:E; [|discriminate].
    destruct (IH _ _ H) as [parts [F R]]. exists (x :: parts). split; [constructor; assumption|].
    unfold collapse in R. cbn. rewrite R, app_assoc. reflexivity.
Qed.

Lemma parse_results_of_parts ds : forall parts acc,
  Forall2 (fun d p => parse_datum d = Some p) ds parts -> parse_results ds acc = Some (acc ++ concat parts).
Proof.
  induction ds as [|d ds IH]; intros parts acc F; inversion F as [|? p ? ps Hd Hr]; subst; cbn [parse_results concat].
  - rewrite app_nil_r. reflexivity.
  - unfold results_step. rewrite Hd. rewrite (IH ps _ Hr). unfold collapse. rewrite app_assoc. reflexivity.
Qed.

Lemma count_perm p (a b : suite) : Permutation a b -> count p a = count p b.
Proof.
  intros H. induction H as [|x a b H IH|x y a|a b c H1 IH1 H2 IH2]; [reflexivity| | |congruence].
  - rewrite !count_cons, IH. reflexivity.
  - rewrite !count_cons. lia.
Qed.

Lemma counters_perm (a b : suite) : Permutation a b -> counters a = counters b /\ all_succeeded a = all_succeeded b.
Proof.
  intros H. split.
  - unfold counters, tests, passes, flaky_passes, failures, errors, skips.
    rewrite (Permutation_length H), !(count_perm _ a b H). reflexivity.
  - apply Bool.eq_iff_eq_true. rewrite !all_succeeded_spec. split; intros X c Hc; apply X.
    + apply Permutation_sym in H. exact (Permutation_in c H Hc).
    + exact (Permutation_in c H Hc).
Qed.

Lemma forall2_perm_parts (ds ds' : list datum) :
  Permutation ds ds' -> forall parts, Forall2 (fun d p => parse_datum d = Some p) ds parts ->
  exists parts', Forall2 (fun d p => parse_datum d = Some p) ds' parts' /\ Permutation parts parts'.
Proof.
  intros H. induction H as [|x a b H IH|x y a|a b c H1 IH1 H2 IH2]; intros parts F.
  - inversion F. subst. exists []. split; constructor.
  - inversion F as [|? p ? ps Hd Hr]; subst. destruct (IH ps Hr) as [ps' [F' P']].
    exists (p :: ps'). split; [constructor; assumption|apply perm_skip; exact P'].
  - inversion F as [|? p ? ps Hd Hr]; subst. inversion Hr as [|? q ? qs Hd2 Hr2]; subst.
    exists (q :: p :: qs). split; [constructor; [assumption|constructor; assumption]|apply perm_swap].
  - destruct (IH1 parts F) as [p1 [F1 P1]]. destruct (IH2 p1 F1) as [p2 [F2 P2]].
    exists p2. split; [exact F2|apply perm_trans with p1; assumption].
Qed.

Lemma concat_perm {A} (a b : list (list A)) : Permutation a b -> Permutation (concat a) (concat b).
Proof.
  intros H. induction H as [|x a b H IH|x y a|a b c H1 IH1 H2 IH2]; cbn.
  - apply perm_nil.
  - apply Permutation_app_head. exact IH.
  - rewrite !app_assoc. apply Permutation_app_tail. apply Permutation_app_comm.
  - apply perm_trans with (concat b); assumption.
Qed.

(* the totals reported from a results directory do not depend on the order in which its files are read *)
Theorem parse_results_order_irrelevant ds ds' r :
  Permutation ds ds' -> parse_results ds [] = Some r ->
  exists r', parse_results ds' [] = Some r' /\ Permutation r r' /\ counters r = counters r'
             /\ all_succeeded r = all_succeeded r'.
Proof.
  intros H P. destruct (parse_results_concat ds [] r P) as [parts [F R]]. cbn in R.
  destruct (forall2_perm_parts ds ds' H parts F) as [parts' [F' PP]].
  exists (concat parts'). split; [exact (parse_results_of_parts ds' parts' [] F')|].
  assert (PR : Permutation r (concat parts')) by (rewrite R; apply concat_perm; exact PP).
  split; [exact PR|]. apply counters_perm. exact PR.
Qed.

Corollary stored_directory_totals l r :
  parse_results_file (RDir l) = Some r ->
  exists r', parse_results (map snd l) [] = Some r' /\ counters r = counters r' /\ all_succeeded r = all_succeeded r'.
Proof.
  unfold parse_results_file. intros P.
  destruct (parse_results_order_irrelevant _ _ r (read_tree_dir_perm l) P) as [r' [P' [_ [C A]]]].
  exists r'. auto.
Qed.

(* ------------------------------------------------------------------------------------------------ *)
(* the follow-up part of the partial theorem *)
Definition followup_statement : Prop :=
  (* pairs: Add never identifies cases with different (name, classname) pairs; the reported tests are the distinct
     pairs written in the executed attempts *)
  (forall a b, key a <> key b -> add_all [] [a; b] = [a; b])
  /\ (forall s cs x e, In x (add_all s cs) -> In e (c_execs x) ->
        exists c0, In c0 (s ++ cs) /\ key c0 = key x /\ In e (c_execs c0))
  /\ (forall s cs, keys (add_all s cs) = uniq_from (keys s) (keys cs))
  /\ (forall n runs,
        let written := keys (concat (executed n runs)) in
        keys (flake_run n runs) = uniq_from [] written
        /\ tests (flake_run n runs) = length (uniq_from [] written)
        /\ NoDup (keys (flake_run n runs))
        /\ (forall k, In k (keys (flake_run n runs)) <-> In k written)
        /\ (forall x e, In x (flake_run n runs) -> In e (c_execs x) ->
              exists c0, In c0 (concat (executed n runs)) /\ key c0 = key x /\ In e (c_execs c0)))
  (* the cached path *)
  /\ (forall name no n atts r, second_report name no n atts = (r, true) ->
        all_succeeded (first_report name no n atts) = true
        /\ all_succeeded r = true /\ failures r = 0 /\ errors r = 0
        /\ passes r + flaky_passes r + skips r = tests r + count double r
        /\ (a_data (last (executed_atts name no n atts) (mkAttempt false [])) <> [] ->
            forall c, In c r -> In (key c) (keys (first_report name no n atts))))
  /\ (forall name no n atts r, second_report name no n atts = (r, false) -> r = first_report name no n atts)
  /\ (forall name no n a rest r,
        a_run_err a = false -> a_data a <> [] -> parse_results (a_data a) [] = Some r ->
        all_succeeded r = true -> NoDup (keys r) ->
        first_report name no (S n) (a :: rest) = r
        /\ second_report name no (S n) (a :: rest) = (r, true)
        /\ counters (fst (second_report name no (S n) (a :: rest))) = counters (first_report name no (S n) (a :: rest)))
  (* the reader of the stored results *)
  /\ (forall d, read_tree (RFile d) = [d])
  /\ (forall l, Permutation (read_tree (RDir l)) (map snd l))
  /\ (forall ds ds' r, Permutation ds ds' -> parse_results ds [] = Some r ->
        exists r', parse_results ds' [] = Some r' /\ Permutation r r' /\ counters r = counters r'
                   /\ all_succeeded r = all_succeeded r').

Theorem followup_statement_holds : followup_statement.
Proof.
  split; [exact distinct_pairs_never_merged|]. split; [intros s0 cs; exact (add_all_origin cs s0)|].
  split; [intros s0 cs; exact (add_all_keys_uniq cs s0)|]. split; [exact reported_tests_distinct_pairs|].
  split; [exact cached_report_sound|]. split; [exact second_report_rerun|]. split; [exact cached_report_equals_first|].
  split; [exact read_tree_file|]. split; [exact read_tree_dir_perm|]. exact parse_results_order_irrelevant.
Qed.
