(* C06 - the reported cycle is simple: no target is listed twice.  Together with is_cycle (Proof/C06.v)
   this pins the reported slice down to a genuine elementary cycle of the graph; in particular nothing
   may be taken out of it (see drop_breaks_cycle: a cycle from which a member is dropped is in general
   no cycle any more).  No assumption on the graph or on the order. *)
From PlzV Require Import Base.Harness Model.C06 Proof.C06.
From Coq Require Import Lia.

(* P: the partial set on entry *)
Definition simple_res (P : list nat) (r : res) : Prop :=
  match r with
  | OutOfFuel => True
  | NoCyc st' => partial st' = P
  | Cyc c true => NoDup c
  | Cyc c false => c <> [] /\ NoDup c /\ In (last c 0) P /\ (forall y, In y c -> y = last c 0 \/ ~ In y P)
  end.

Lemma visit_deps_simple vis t P :
  ~ In t P ->
  (forall st d, simple_res (partial st) (vis st d)) ->
  forall ds st, partial st = t :: P -> simple_res P (visit_deps vis t ds st).
Proof.
  intros Ht Hvis. induction ds as [|a ds IH]; intros st Hp; cbn [visit_deps].
  - cbn. rewrite Hp. apply del_head. exact Ht.
  - pose proof (Hvis st a) as Ha. destruct (vis st a) as [|st'|c d]; cbn [simple_res] in Ha.
    + exact I.
    + apply IH. rewrite Ha. exact Hp.
    + destruct d; cbn [orb]; [exact Ha |].
      destruct Ha as (Hne & Hnd & Hlast & Hrest). rewrite Hp in Hlast, Hrest.
      destruct (Nat.eqb t (last c 0)) eqn:Et; cbn [simple_res]; [exact Hnd |].
      apply Nat.eqb_neq in Et.
      assert (Hl : last (t :: c) 0 = last c 0) by (apply last_cons; exact Hne).
      split; [discriminate |]. split; [| split].
      * constructor; [| exact Hnd]. intros Hin. destruct (Hrest t Hin) as [E | Hn]; [exact (Et E) |].
        apply Hn. left. reflexivity.
      * rewrite Hl. destruct Hlast as [E | Hin]; [exfalso; exact (Et E) | exact Hin].
      * rewrite Hl. intros y [<- | Hy]; [right; exact Ht |].
        destruct (Hrest y Hy) as [E | Hn]; [left; exact E | right].
        intros Hin. apply Hn. right. exact Hin.
Qed.

Lemma visit_simple fuel g : forall st t, simple_res (partial st) (visit fuel g st t).
Proof.
  induction fuel as [|f IH]; intros st t; cbn [visit]; [exact I |].
  destruct (mem t (complete st)) eqn:Ec; [reflexivity |].
  destruct (mem t (partial st)) eqn:Ep.
  - cbn. split; [discriminate |]. split; [constructor; [intros [] | constructor] |].
    split; [apply mem_In; exact Ep | intros y [<- | []]; left; reflexivity].
  - apply visit_deps_simple; [apply mem_notIn; exact Ep | exact IH | reflexivity].
Qed.

Lemma check_loop_simple fuel g : forall order st c,
  partial st = [] -> check_loop fuel g order st = Found c -> NoDup c.
Proof.
  induction order as [|t rest IH]; intros st c Hp; cbn [check_loop]; [discriminate |].
  destruct (mem t (complete st)); [apply IH; exact Hp |].
  pose proof (visit_simple fuel g st t) as Hv.
  destruct (visit fuel g st t) as [|st'|c0 d]; cbn [simple_res] in Hv.
  - discriminate.
  - apply IH. rewrite Hv. exact Hp.
  - intros H. injection H as ->. destruct d; [exact Hv |]. destruct Hv as (_ & Hnd & _). exact Hnd.
Qed.

(* every reported cycle is elementary *)
Theorem detect_simple g order c : detect g order = Found c -> NoDup c.
Proof. apply check_loop_simple. reflexivity. Qed.

Corollary detect_cycle_length g order c :
  wf g -> detect g order = Found c -> length c <= length g.
Proof.
  intros Hwf E. apply nodup_bound; [exact (detect_simple g order c E) |].
  destruct (detect_sound g order c E) as (Hne & Hch & He).
  (* every member of a cycle has an outgoing edge *)
  assert (Hout : forall l x, chain g l -> In x l -> x = last l 0 \/ exists y, edge g x y).
  { induction l as [|a r IHl]; intros x Hc Hin; [destruct Hin |]. destruct Hin as [<- | Hx].
    - destruct r as [|b r]; [left; reflexivity | right; exists b; exact (proj1 Hc)].
    - destruct r as [|b r]; [destruct Hx |].
      destruct (IHl x (proj2 Hc) Hx) as [El | Hy]; [left; exact El | right; exact Hy]. }
  intros x Hx. destruct (Hout c x Hch Hx) as [-> | [y Hy]].
  - exact (deps_lt g _ _ He).
  - exact (deps_lt g _ _ Hy).
Qed.

(* What is reported must be reported whole.  keep: which targets stay in the list (e.g. "the label is not
   hidden").  On the three-target ring 0 -> 1 -> 2 -> 0 the detector reports [1; 2; 0]; without its middle
   member the list [1; 0] is no cycle of the graph: 1 does not depend on 0. *)
Definition drop (keep : nat -> bool) (c : list nat) : list nat :=
  match filter keep c with [] => c | c' => c' end.

Theorem drop_breaks_cycle :
  exists g order c keep,
    wf g /\ detect g order = Found c /\ is_cycle g c /\ ~ is_cycle g (drop keep c).
Proof.
  exists [[1]; [2]; [0]], [0; 1; 2], [1; 2; 0], (fun t => negb (Nat.eqb t 2)).
  split; [| split; [| split]].
  - intros v d. do 3 (destruct v as [|v]; [cbn; intuition lia |]). destruct v; intros [].
  - vm_compute. reflexivity.
  - split; [discriminate |]. cbn. tauto.
  - cbn. intros (_ & Hch & _). cbn in Hch. destruct Hch as [[H | []] _]. discriminate H.
Qed.
