(* C04 - each action runs once, and only after its dependencies succeeded: the theorems, over every run of the LTS. *)
From PlzV Require Import Base.Harness Model.Sched Proof.Sched_Base Proof.Sched_Inv Proof.Sched_Deps.
From Coq Require Import Lia Arith.

(* the state a final result stands for *)
Definition st_of (r : res) : tstate :=
  match r with RBuilt o => o | RFailed => Failed | RDepFailed => DependencyFailed end.
Definition res_ok (r : res) : bool := match r with RBuilt o => built_kind o | _ => true end.

Lemma trace_apply : forall g s l, enabled g s l = true ->
  match l with
  | LBuildStart t => trace (apply g s l) = OStart t :: trace s
  | LBuildOk t o => trace (apply g s l) = OEnd t (RBuilt o) :: trace s /\ ts (apply g s l) t = o /\ built_kind o = true
  | LBuildFail t => trace (apply g s l) = OEnd t RFailed :: trace s /\ ts (apply g s l) t = Failed
  | LDepFailed t d => trace (apply g s l) = OEnd t RDepFailed :: trace s /\ ts (apply g s l) t = DependencyFailed
  | _ => trace (apply g s l) = trace s \/ exists e, trace (apply g s l) = OErr e :: trace s /\ failed (apply g s l) = true
  end.
Proof.
  intros g s l He. destruct l; unfold enabled in He; cbv beta iota in He; cbn [apply]; btrue.
  - destruct (initq s); cbn; auto.
  - autorewrite with proj. cbn. auto.
  - autorewrite with proj. cbn. destruct (ex s l); autorewrite with proj; cbn; auto.
  - cbn. auto.
  - destruct (Nat.eqb t l); autorewrite with proj; cbn; auto.
  - autorewrite with proj. cbn. destruct (ex s l); autorewrite with proj; cbn; auto.
  - autorewrite with proj. cbn. auto.
  - destruct (cas cas_noneed (ts s t)); cbn; auto.
  - autorewrite with proj. cbn. auto.
  - dasy s t Ea. dlist todo. destruct (ex s d); [|destruct (pst_eqb (pk s (g_pkg g d)) PParsed)]; cbn; autorewrite with proj; cbn; eauto.
  - cbn. auto.
  - dasy s t Ea. destruct (ex s d); cbn; autorewrite with proj; cbn; auto.
  - dasy s t Ea. dlist todo. destruct err; cbn; autorewrite with proj; cbn; eauto.
  - dasy s t Ea. dlist todo. cbn. auto.
  - cbn. rewrite upd_same. auto.
  - destruct (cas [cas_pending] (ts s t)); cbn; auto.
  - autorewrite with proj. cbn. auto.
  - cbn. destruct (closed s); cbn; auto.
  - cbn. auto.
  - cbn. auto.
  - cbn. rewrite upd_same. auto.
  - cbn. autorewrite with proj. cbn. rewrite upd_same. auto.
  - cbn. auto.
  - autorewrite with proj. cbn. auto.
  - cbn. auto.
  - cbn. auto.
  - cbn. autorewrite with proj. cbn. eauto.
  - cbn. auto.
Qed.

Lemma tends_In : forall t r tr, In (OEnd t r) tr -> 1 <= tends t tr.
Proof.
  intros t r tr. induction tr as [|e tr IH]; cbn; [tauto|]. intros [->|H].
  - rewrite Nat.eqb_refl. lia.
  - specialize (IH H). destruct e; try lia; try (destruct (Nat.eqb t t0); lia).
Qed.
Lemma tstarts_In : forall t tr, In (OStart t) tr -> 1 <= tstarts t tr.
Proof.
  intros t tr. induction tr as [|e tr IH]; cbn; [tauto|]. intros [->|H].
  - rewrite Nat.eqb_refl. lia.
  - specialize (IH H). destruct e; try lia; try (destruct (Nat.eqb t t0); lia).
Qed.
Lemma tstarts_pos_In : forall t tr, 1 <= tstarts t tr -> In (OStart t) tr.
Proof.
  intros t tr. induction tr as [|e tr IH]; cbn; [lia|]. destruct e; try (intros H; right; apply IH; exact H).
  destruct (Nat.eqb_spec t t0); [subst; intros _; left; reflexivity | intros H; right; apply IH; exact H].
Qed.

Lemma built_kind_completed : forall o, built_kind o = true -> completed o = true /\ is_built o = true.
Proof. intros o. unfold built_kind, st_eqb. destruct o; cbn; intros H; try discriminate; split; reflexivity. Qed.

(* every final result in the stream tells the state of its target, for ever *)
Definition T2 (s : state) : Prop := forall d r, In (OEnd d r) (trace s) -> ts s d = st_of r /\ res_ok r = true.

Lemma st_of_completed : forall r, res_ok r = true -> completed (st_of r) = true.
Proof. intros [o| |]; cbn; intros H; [apply built_kind_completed in H; tauto | reflexivity | reflexivity]. Qed.

Theorem T2_step : forall g s l, (forall t, J s t) -> T2 s -> enabled g s l = true -> T2 (apply g s l).
Proof.
  intros g s l HJ HT He d r Hin.
  assert (Hold : In (OEnd d r) (trace s) -> ts (apply g s l) d = st_of r /\ res_ok r = true).
  { intros Ho. destruct (HT d r Ho) as [E Hk]. split; [|exact Hk].
    destruct (completed_stable g s l d HJ) as [H1 _]; [rewrite E; apply st_of_completed; exact Hk | exact He | congruence]. }
  pose proof (trace_apply g s l He) as Ht.
  pose proof (J_step g s l HJ He) as HJ'.
  assert (Hnew : forall t r0, trace (apply g s l) = OEnd t r0 :: trace s -> ts (apply g s l) t = st_of r0 -> res_ok r0 = true ->
                 ts (apply g s l) d = st_of r /\ res_ok r = true).
  { intros t r0 Etr Ets Hk. rewrite Etr in Hin. destruct Hin as [Heq|Ho].
    - inversion Heq. subst. auto.
    - destruct (Nat.eq_dec d t) as [->|Hne]; [|apply Hold; exact Ho].
      exfalso. apply tends_In in Ho. destruct (HJ' t) as (_ & _ & HS). unfold shape in HS. rewrite Etr, Ets in HS. cbn in HS.
      rewrite Nat.eqb_refl in HS. pose proof (st_of_completed r0 Hk) as Hc. unfold completed in Hc. apply N.leb_le in Hc.
      destruct (st_of r0); cbn in *; dand; try lia; try contradiction. }
  destruct l; try (destruct Ht as [Ht|[e [Ht _]]]; rewrite Ht in Hin; [apply Hold; exact Hin | destruct Hin as [Hin|Hin]; [discriminate | apply Hold; exact Hin]]).
  - (* LDepFailed *) destruct Ht as [E1 E2]. apply (Hnew t RDepFailed); auto.
  - (* LBuildStart *) rewrite Ht in Hin. destruct Hin as [Hin|Hin]; [discriminate | apply Hold; exact Hin].
  - (* LBuildOk *) destruct Ht as (E1 & E2 & E3). apply (Hnew t (RBuilt o)); auto.
  - (* LBuildFail *) destruct Ht as [E1 E2]. apply (Hnew t RFailed); auto.
Qed.

(* the order of events: a start comes after the successful end of every dependency *)
Definition T1 (g : graph) (s : state) : Prop :=
  forall l1 l2 t, trace s = l1 ++ OStart t :: l2 -> forall d, In d (g_deps g t) -> exists o, built_kind o = true /\ In (OEnd d (RBuilt o)) l2.
(* a built target has its successful result in the stream *)
Definition T0 (s : state) : Prop := forall d, is_built (ts s d) = true -> exists o, built_kind o = true /\ In (OEnd d (RBuilt o)) (trace s).

Lemma T1_cons_other : forall g s e tr', T1 g s -> tr' = e :: trace s -> (forall t, e <> OStart t) ->
  forall l1 l2 t, tr' = l1 ++ OStart t :: l2 -> forall d, In d (g_deps g t) -> exists o, built_kind o = true /\ In (OEnd d (RBuilt o)) l2.
Proof.
  intros g s e tr' HT -> Hne l1 l2 t E d Hd. destruct l1 as [|e1 l1]; cbn in E; inversion E; subst.
  - exfalso. apply (Hne t). reflexivity.
  - eapply HT; eauto.
Qed.

Theorem T01_step : forall g s l, (forall t, J s t) -> (forall t, K g s t) -> T0 s -> T1 g s -> enabled g s l = true ->
  T0 (apply g s l) /\ T1 g (apply g s l).
Proof.
  intros g s l HJ HK H0 H1 He.
  pose proof (trace_apply g s l He) as Ht.
  pose proof (J_step g s l HJ He) as HJ'.
  assert (Hincl : forall e, In e (trace s) -> In e (trace (apply g s l))).
  { intros e Hin. destruct l; repeat match goal with H : _ /\ _ |- _ => destruct H | H : _ \/ _ |- _ => destruct H | H : exists _, _ |- _ => destruct H end;
      match goal with H : trace _ = _ |- _ => rewrite H end; cbn; auto. }
  split.
  - (* T0: only LBuildOk makes a target built, and it logs the result *)
    intros d Hb. destruct (is_built (ts s d)) eqn:Eb.
    + destruct (H0 d Eb) as [o [Ho Hin]]. exists o. split; [exact Ho | apply Hincl; exact Hin].
    + (* newly built *)
      destruct (HJ' d) as (_ & _ & HS). unfold shape in HS.
      assert (Hen : 1 <= tends d (trace (apply g s l))).
      { unfold is_built in Hb. destruct (ts (apply g s l) d); cbn in *; dand; try discriminate; lia. }
      assert (Hold : tends d (trace s) = 0).
      { destruct (HJ d) as (_ & _ & HS0). unfold shape in HS0. unfold is_built in Eb.
        destruct (ts s d) eqn:E0; cbn in *; dand; try discriminate; try lia; try contradiction.
        - (* DependencyFailed is stable *)
          exfalso. destruct (completed_stable g s l d HJ) as [Hs _]; [rewrite E0; reflexivity | exact He|].
          rewrite Hs, E0 in Hb. discriminate.
        - exfalso. destruct (completed_stable g s l d HJ) as [Hs _]; [rewrite E0; reflexivity | exact He|].
          rewrite Hs, E0 in Hb. discriminate. }
      destruct l; repeat match goal with H : _ /\ _ |- _ => destruct H | H : _ \/ _ |- _ => destruct H | H : exists _, _ |- _ => destruct H end;
        match goal with H : trace _ = _ |- _ => rewrite H in Hen |- * end; cbn in Hen; try lia.
      * (* LDepFailed t: ts t = DependencyFailed is not built *)
        destruct (Nat.eqb_spec d t); [subst; rewrite H2 in Hb; discriminate | lia].
      * destruct (Nat.eqb_spec d t); [subst | lia]. exists o. split; [assumption | left; reflexivity].
      * destruct (Nat.eqb_spec d t); [subst; rewrite H2 in Hb; discriminate | lia].
  - (* T1 *)
    unfold T1 in *.
    destruct l; try (destruct Ht as [Ht|[e [Ht _]]]; [rewrite Ht; exact H1 | intros l1 l2 t0 E; eapply (T1_cons_other g s (OErr e)); eauto; discriminate]).
    + destruct Ht as [E1 _]. intros l1 l2 t0 E. eapply (T1_cons_other g s (OEnd t RDepFailed)); eauto; discriminate.
    + (* LBuildStart t: every dependency is finished and built *)
      unfold enabled in He. btrue.
      assert (Hq : 1 <= cnt t (taken s)) by (apply mem_cnt; assumption).
      assert (Hp : ts s t = Pending).
      { destruct (HJ t) as (_ & _ & HS). unfold shape, q in HS. destruct (ts s t); cbn in *; dand; try lia; try contradiction; reflexivity. }
      intros l1 l2 t0 E d Hd. rewrite Ht in E. destruct l1 as [|e1 l1]; cbn in E; inversion E; subst.
      * destruct (HK t0) as [K1 _]. destruct (K1 ltac:(rewrite Hp; reflexivity) d Hd) as [_ Hb]. apply H0. exact Hb.
      * eapply H1; eauto.
    + destruct Ht as (E1 & _). intros l1 l2 t0 E. eapply (T1_cons_other g s (OEnd t (RBuilt o))); eauto; discriminate.
    + destruct Ht as (E1 & _). intros l1 l2 t0 E. eapply (T1_cons_other g s (OEnd t RFailed)); eauto; discriminate.
Qed.

Record Inv04 (g : graph) (s : state) : Prop := {
  i_J : forall t, J s t;
  i_K : forall t, K g s t;
  i_T2 : T2 s;
  i_T0 : T0 s;
  i_T1 : T1 g s
}.

Theorem Inv04_reachable : forall g s, reachable g s -> Inv04 g s.
Proof.
  intros g s Hr. pattern s. apply (reachable_ind' g); [| | exact Hr].
  - constructor; [intros; apply J_init | intros; apply K_init | intros d r [] | intros d H; cbn in H; discriminate |].
    intros l1 l2 t E. cbn in E. destruct l1; discriminate.
  - intros s0 l _ [HJ HK HT2 HT0 HT1] He.
    destruct (T01_step g s0 l HJ HK HT0 HT1 He) as [A B].
    constructor; [apply J_step | apply K_step | eapply T2_step | |]; eauto.
Qed.

(* ---------------------------------------------------------------------------------------------------------------- *)
(* the theorems *)

(* at most one build start per target *)
Theorem once : forall g s, reachable g s -> forall t, tstarts t (trace s) <= 1.
Proof.
  intros g s Hr t. destruct (Inv04_reachable g s Hr) as [HJ _ _ _ _]. destruct (HJ t) as (_ & _ & HS). unfold shape in HS.
  destruct (ts s t); cbn in HS; dand; try lia; contradiction.
Qed.

(* a start only after the successful end of every dependency; no dependency ever has another (failed) result *)
Theorem after_deps : forall g s, reachable g s -> forall l1 l2 t, trace s = l1 ++ OStart t :: l2 ->
  forall d, In d (g_deps g t) ->
    (exists o, built_kind o = true /\ In (OEnd d (RBuilt o)) l2) /\
    ~ In (OEnd d RFailed) (trace s) /\ ~ In (OEnd d RDepFailed) (trace s).
Proof.
  intros g s Hr l1 l2 t E d Hd. destruct (Inv04_reachable g s Hr) as [HJ _ HT2 _ HT1].
  destruct (HT1 l1 l2 t E d Hd) as [o [Ho Hin]]. split; [exists o; auto|].
  assert (Hin' : In (OEnd d (RBuilt o)) (trace s)) by (rewrite E; apply in_or_app; right; right; exact Hin).
  destruct (HT2 _ _ Hin') as [Ets _]. cbn in Ets.
  split; intros Hbad; destruct (HT2 _ _ Hbad) as [Ets' _]; cbn in Ets'; rewrite Ets in Ets'; rewrite Ets' in Ho; vm_compute in Ho; discriminate Ho.
Qed.

(* logged exactly once: a target has a final result in the logged stream iff it is completed, and never two *)
Theorem logged_once : forall g s, reachable g s -> forall t,
  tends t (trace s) = (if completed (ts s t) then 1 else 0).
Proof.
  intros g s Hr t. destruct (Inv04_reachable g s Hr) as [HJ _ _ _ _]. destruct (HJ t) as (_ & _ & HS). unfold shape in HS.
  destruct (ts s t); cbn in *; dand; try lia; contradiction.
Qed.

(* what reaches the results channel is the oldest part of what was logged *)
Lemma tends_skipn : forall t k tr, tends t (skipn k tr) <= tends t tr.
Proof.
  intros t k. induction k as [|k IH]; intros tr; [cbn; lia|]. destruct tr as [|e tr]; cbn; [lia|].
  specialize (IH tr). destruct e; try lia; try (destruct (Nat.eqb t t0); lia).
Qed.
Lemma tstarts_skipn : forall t k tr, tstarts t (skipn k tr) <= tstarts t tr.
Proof.
  intros t k. induction k as [|k IH]; intros tr; [cbn; lia|]. destruct tr as [|e tr]; cbn; [lia|].
  specialize (IH tr). destruct e; try lia; try (destruct (Nat.eqb t t0); lia).
Qed.

Theorem reported_prefix : forall s, exists k, reported s = skipn k (trace s).
Proof. intros s. eexists. reflexivity. Qed.

Theorem reported_at_most_once : forall g s, reachable g s -> forall t,
  tends t (reported s) <= 1 /\ tstarts t (reported s) <= 1 /\ (1 <= tends t (reported s) -> completed (ts s t) = true).
Proof.
  intros g s Hr t. unfold reported.
  pose proof (tends_skipn t (length (trace s) - nfwd s) (trace s)) as H1.
  pose proof (tstarts_skipn t (length (trace s) - nfwd s) (trace s)) as H2.
  pose proof (logged_once g s Hr t) as H3. pose proof (once g s Hr t) as H4.
  destruct (completed (ts s t)); repeat split; intros; try lia.
Qed.

(* nothing pending in internalResults when the run ended: then reported = logged *)
Theorem reported_all_when_drained : forall s, nfwd s = length (trace s) -> reported s = trace s.
Proof. intros s H. unfold reported. rewrite H, Nat.sub_diag. reflexivity. Qed.

(* the forwarder never runs ahead of the log *)
Theorem nfwd_le : forall g s, reachable g s -> nfwd s <= length (trace s).
Proof.
  intros g s Hr. pattern s. apply (reachable_ind' g); [cbn; lia | | exact Hr].
  intros s0 l _ IH He. pose proof (trace_apply g s0 l He) as Ht.
  assert (Hn : l <> LForward -> nfwd (apply g s0 l) = nfwd s0).
  { intros Hne. destruct l; try congruence; cbn [apply];
      repeat (first [ reflexivity | progress autorewrite with proj | progress cbn
                    | match goal with |- context [match ?x with _ => _ end] => destruct x end
                    | match goal with |- context [if ?x then _ else _] => destruct x end ]). }
  destruct l; try (rewrite Hn by discriminate);
    repeat match goal with H : _ /\ _ |- _ => destruct H | H : _ \/ _ |- _ => destruct H | H : exists _, _ |- _ => destruct H end;
    try match goal with H : trace _ = _ |- _ => rewrite H end; cbn [length]; try lia.
  all: unfold enabled in He; btrue;
    match goal with H : Nat.ltb _ _ = true |- _ => apply Nat.ltb_lt in H end; cbn; lia.
Qed.

(* FinishBuild wakes the goroutines blocked in WaitForBuild.  Whenever a target's finishedBuilding channel is closed its state
   is final, and unless it was built it is at or above DependencyFailed - what the `t.State() >= DependencyFailed` test of a
   woken queueTargetAsync relies on.  This is where the order of build.Build's failure path counts (Gen/StateOrder.v:
   buildfail_prog, SetState(Failed) before FinishBuild): with FinishBuild first the model's LBuildFail closes the channel
   while the state is still Building, and J (Sched_Inv.v) is no longer inductive. *)
Theorem woken_sees_final : forall g s, reachable g s -> forall d, fin s d = true ->
  completed (ts s d) = true /\ (is_built (ts s d) = false -> st_geb (ts s d) dep_failed_threshold = true).
Proof.
  intros g s Hr d Hf. pose proof (J_reachable g s Hr d) as HJ. split; [exact (fin_completed s d HJ Hf)|].
  intros Hb. destruct (st_geb (ts s d) dep_failed_threshold) eqn:E; [reflexivity|].
  rewrite (fin_below_failed_built s d HJ Hf E) in Hb. discriminate.
Qed.
