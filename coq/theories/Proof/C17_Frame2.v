(* C17 - the frame theorem, part 2: function calls and blocks (run_func, exec_block, call_value) for one more unit of fuel. *)
From Coq Require Import String Lia.
From PlzV Require Import Base.Harness Gen.AspTables Model.C16_Syntax Model.C16_Ops Model.C16_Prim Model.C16_Eval.
From PlzV Require Import Proof.C17_Inv Proof.C17_Ops.
Local Open Scope list_scope.
Local Open Scope nat_scope.

#[local] Arguments chain : simpl never.
#[local] Arguments is_const : simpl never.
#[local] Arguments const_alloc : simpl never.
#[local] Arguments native : simpl never.
#[local] Arguments native_method : simpl never.
#[local] Arguments native_sig : simpl never.
#[local] Arguments method_sig : simpl never.
#[local] Arguments validate : simpl never.
#[local] Arguments apply_bin : simpl never.
#[local] Arguments vindex : simpl never.
#[local] Arguments vslice : simpl never.
#[local] Arguments vindex_assign : simpl never.
#[local] Arguments unpack_names : simpl never.
#[local] Arguments iter_items : simpl never.
#[local] Arguments new_list : simpl never.
#[local] Arguments alloc_list : simpl never.
#[local] Arguments alloc_dict : simpl never.
#[local] Arguments lookup : simpl never.
#[local] Arguments set_var : simpl never.
#[local] Arguments truthy : simpl never.
#[local] Arguments strict_list : simpl never.
#[local] Arguments str_eqb : simpl never.
#[local] Arguments existsb : simpl never.
#[local] Arguments assoc_get : simpl never.
#[local] Arguments find_def : simpl never.
#[local] Arguments opt_stmts : simpl never.
#[local] Arguments drop_pass : simpl never.
#[local] Arguments freeze_env : simpl never.
#[local] Arguments mapM : simpl never.
#[local] Arguments mapR : simpl never.
#[local] Arguments rbind : simpl never.
#[local] Arguments s : simpl never.
#[local] Arguments str_methods : simpl never.
#[local] Arguments dict_methods : simpl never.
#[local] Arguments Nat.ltb : simpl never.
#[local] Arguments Nat.leb : simpl never.
#[local] Arguments nth : simpl never.
#[local] Arguments fold_left : simpl never.
#[local] Arguments combine : simpl never.
#[local] Arguments map : simpl never.
#[local] Arguments length : simpl never.
#[local] Arguments env_get : simpl never.
#[local] Arguments tl : simpl never.

Section Frame2.
Variables (ca cd : nat -> mode) (pf ls : nat -> bool) (cs : list value) (defs : list (str * prog)).
Notation vok := (C17_Inv.vok ca cd pf).
Notation env_ok := (C17_Inv.env_ok ca cd pf).
Notation Inv := (C17_Inv.Inv ca cd pf ls cs defs).
Notation frame := (C17_Inv.frame ca cd ls).
Notation good := (C17_Inv.good ca cd pf ls cs defs).
Notation sok_e := (C17_Inv.sok_e ca cd pf cs).
Notation sok_args := (C17_Inv.sok_args ca cd pf cs).
Notation sok_p := (C17_Inv.sok_p ca cd pf cs).
Notation sok_s := (C17_Inv.sok_s ca cd pf cs).
Notation dok := (C17_Inv.dok ca cd pf cs).
Notation sres_ok := (C17_Ops.sres_ok ca cd pf).
Notation E_spec := (C17_Ops.E_spec ca cd pf ls cs defs).
Notation V_spec := (C17_Ops.V_spec ca cd pf ls cs defs).
Notation C_spec := (C17_Ops.C_spec ca cd pf ls cs defs).
Notation R_spec := (C17_Ops.R_spec ca cd pf ls cs defs).
Notation B_spec := (C17_Ops.B_spec ca cd pf ls cs defs).
Notation S_spec := (C17_Ops.S_spec ca cd pf ls cs defs).

Lemma restore_good : forall st st4, Inv st -> Inv st4 ->
  Inv (set_locals (locals st) (set_cur (cur st) st4)) /\ frame st4 (set_locals (locals st) (set_cur (cur st) st4)).
Proof.
  intros st st4 HI I4. split.
  - apply set_locals_inv; [|apply (i_loc _ _ _ _ _ _ _ HI)]. apply set_cur_inv; auto. apply (i_cur _ _ _ _ _ _ _ HI).
  - eapply frame_trans; [apply set_cur_frame|apply set_locals_frame].
Qed.

Lemma restore_same : forall st l c, Inv st ->
  Inv (set_locals (locals st) (set_cur (cur st) (set_locals l (set_cur c st)))) /\
  frame st (set_locals (locals st) (set_cur (cur st) (set_locals l (set_cur c st)))).
Proof.
  intros st l c HI. split.
  - destruct HI. constructor; cbn [arrays dicts funcs fscopes cur locals consts subcache set_cur set_locals]; auto.
  - constructor; cbn [arrays dicts funcs fscopes cur locals consts subcache set_cur set_locals]; auto. exists []. now rewrite app_nil_r.
Qed.

Lemma combine_env_ok : forall (names : list str) items, Forall vok items -> env_ok (combine names items).
Proof.
  unfold C17_Inv.env_ok. induction names as [|n r IH]; intros [|x xs] Hit; cbn [combine]; try constructor.
  - inversion Hit; auto.
  - inversion Hit; auto.
Qed.

Lemma step_R : forall f, E_spec f -> B_spec f -> R_spec (S f).
Proof.
  intros f IHE IHB id bound st1 Hid Hb HI. simpl.
  set (fd := nth id (funcs st1) _) in *.
  destruct (Nat.lt_ge_cases id (length (funcs st1))) as [Hlt|Hge].
  - assert (Hpf : pf id = false). { unfold C17_Inv.vok, C17_Inv.vokb in Hid. destruct (pf id); [discriminate|reflexivity]. }
    pose proof (i_fn _ _ _ _ _ _ _ HI id Hpf Hlt) as Hfok. fold fd in Hfok. unfold fokb in Hfok.
    apply andb_prop in Hfok. destruct Hfok as [Hfok Hls]. apply andb_prop in Hfok. destruct Hfok as [Hargs Hbody].
    match goal with |- post _ (rbind (?go _ _ _) _) =>
      assert (Hgo : forall l acc st0, forallb dok l = true -> env_ok acc -> Inv st0 -> post (good st0 env_ok) (go l acc st0)) end.
    { induction l as [|[a df] r IH]; intros acc st0 Hl Hacc I0; simpl.
      - apply good_ret; auto.
      - cbn [forallb] in Hl. apply andb_prop in Hl. destruct Hl as [Hd Hr]. unfold C17_Inv.dok in Hd. cbn [snd] in Hd.
        destruct (env_get a acc); [apply IH; auto|]. destruct df as [|v|e]; [exact I| |].
        + apply IH; auto. apply env_set_ok; auto.
        + eapply good_bind; [apply (E_plain ca cd pf ls cs defs _ _ _ IHE); auto|]. intros v st' I' F' Hv. cbv beta match. apply IH; auto. apply env_set_ok; auto. }
    eapply good_bind; [apply Hgo; auto|]. intros full st2 I2 F2 Hfull. cbv beta match.
    assert (I3 : Inv (set_locals [full] (set_cur (f_scope fd) st2))).
    { apply set_locals_inv; [apply set_cur_inv; auto|]. constructor; [exact Hfull|constructor]. }
    eapply good_frame; [eapply frame_trans; [apply (set_cur_frame ca cd ls st2 (f_scope fd))|apply (set_locals_frame ca cd ls _ [full])]|].
    eapply good_bind; [apply IHB; auto|]. intros r st4 I4 F4 Hr. cbv beta match.
    destruct (restore_good st2 st4 I2 I4) as [I5 F5].
    destruct r; cbn [post]; unfold C17_Inv.good; (split; [exact I5|]); (split; [exact F5|]); try reflexivity. exact Hr.
  - assert (Efd : fd = dflt_func). { unfold fd. apply nth_overflow. exact Hge. }
    rewrite Efd. unfold dflt_func. simpl. destruct f; simpl; [exact I|].
    destruct (restore_same st1 [bound] 0 HI) as [I5 F5]. split; [exact I5|]. split; [exact F5|reflexivity].
Qed.


Lemma step_B : forall f, B_spec f -> S_spec f -> B_spec (S f).
Proof.
  intros f IHB IHS ss st Hs HI. destruct ss as [|s0 r]; simpl.
  - split; [exact HI|]. split; [apply frame_refl|exact I].
  - unfold C17_Inv.sok_p in Hs. cbn [forallb] in Hs. apply andb_prop in Hs. destruct Hs as [Hs0 Hr].
    eapply good_bind; [apply IHS; auto|]. intros res0 st1 I1 F1 H0. cbv beta match.
    destruct res0; try (apply good_ret; auto). apply IHB; auto.
Qed.

Lemma sok_args_cons : forall k e r, sok_args ((k, e) :: r) = true -> sok_e e = true /\ sok_args r = true.
Proof. intros k e r H. unfold C17_Inv.sok_args in H. cbn [forallb] in H. apply andb_prop in H. exact H. Qed.

Definition optok (o : option value) : Prop := forall v, o = Some v -> vok v.

Lemma step_C : forall f, E_spec f -> R_spec f -> C_spec (S f).
Proof.
  intros f IHE IHR fn name args st Hfn Hargs HI. destruct fn; simpl; try exact I.
  - (* a function defined by def *)
    match goal with |- post _ (rbind (?go _ _ _ _) _) =>
      assert (Hgo : forall l i acc st0, sok_args l = true -> env_ok acc -> Inv st0 -> post (good st0 env_ok) (go l i acc st0)) end.
    { induction l as [|[[k|] e] r IH]; intros i acc st0 Hl Hacc I0; simpl.
      - apply good_ret; auto.
      - apply sok_args_cons in Hl. destruct Hl as [He Hr]. destruct (existsb _ _); [|exact I].
        eapply good_bind; [apply (E_plain ca cd pf ls cs defs _ _ _ IHE); auto|]. intros v st' I' F' Hv. cbv beta match. apply IH; auto. apply env_set_ok; auto.
      - apply sok_args_cons in Hl. destruct Hl as [He Hr]. destruct (Nat.leb _ _); [exact I|].
        eapply good_bind; [apply (E_plain ca cd pf ls cs defs _ _ _ IHE); auto|]. intros v st' I' F' Hv. cbv beta match. apply IH; auto. apply env_set_ok; auto. }
    eapply good_bind; [apply Hgo; auto; constructor|]. intros bound st1 I1 F1 Hb. cbv beta match. apply IHR; auto.
  - (* a builtin *)
    destruct (native_sig n) as [[sg varargs]|] eqn:Esg.
    + pose proof (native_sig_ok ca cd pf _ _ _ Esg) as Hsg.
      match goal with |- post _ (rbind (?go _ _ _ _ _) _) =>
        assert (Hgo : forall l i slots extra st0, sok_args l = true -> Forall optok slots -> Forall vok extra -> Inv st0 ->
                  post (good st0 (fun p : list (option value) * list value => Forall optok (fst p) /\ Forall vok (snd p))) (go l i slots extra st0)) end.
      { assert (Hnth : forall j, forall dv, snd (nth j sg ([], 0%N, None)) = Some dv -> vok dv).
        { intros j dv. apply (Forall_nth (fun x => forall dv, snd x = Some dv -> vok dv)); [exact Hsg|]. cbn. discriminate. }
        induction l as [|[[k|] e] r IH]; intros i slots extra st0 Hl Hsl Hex I0; simpl.
        - apply good_ret; auto.
        - apply sok_args_cons in Hl. destruct Hl as [He Hr].
          match goal with |- post _ (match ?x with _ => _ end) => destruct x as [j|] end; [|exact I].
          specialize (Hnth j). destruct (nth j sg ([], 0%N, None)) as [[a t] def]. cbn [snd] in Hnth.
          eapply good_bind; [apply (E_plain ca cd pf ls cs defs _ _ _ IHE); auto|]. intros v st' I' F' Hv. cbv beta match.
          apply post_bind_pure. intros v' Hv'. apply IH; auto. apply Forall_list_set; auto.
          intros w Hw. injection Hw as <-. eapply validate_ok; eauto.
        - apply sok_args_cons in Hl. destruct Hl as [He Hr]. destruct (Nat.leb _ _).
          + destruct varargs; [|exact I].
            eapply good_bind; [apply (E_plain ca cd pf ls cs defs _ _ _ IHE); auto|]. intros v st' I' F' Hv. cbv beta match. apply IH; auto.
            apply Forall_app. split; auto.
          + specialize (Hnth i). destruct (nth i sg ([], 0%N, None)) as [[a t] def]. cbn [snd] in Hnth.
            eapply good_bind; [apply (E_plain ca cd pf ls cs defs _ _ _ IHE); auto|]. intros v st' I' F' Hv. cbv beta match.
            apply post_bind_pure. intros v' Hv'. apply IH; auto. apply Forall_list_set; auto.
            intros w Hw. injection Hw as <-. eapply validate_ok; eauto. }
      eapply good_bind.
      { apply Hgo; auto. apply Forall_forall. intros o Hin. apply in_map_iff in Hin. destruct Hin as (x & <- & _). intros v Hv. discriminate Hv. }
      intros [filled extra] st1 I1 F1 [Hfi Hex]. cbn [fst snd] in Hfi, Hex. cbv beta match.
      apply post_bind_pure. intros vals Hvals. apply (native_good ca cd pf ls cs defs); auto. apply Forall_app. split; auto.
      eapply mapR_Forall; [|exact Hvals]. intros [o [[a t] def]] y Hin Hy. cbn [fst snd] in Hy.
      destruct o as [v|].
      * apply Ok_inj in Hy. subst y. apply in_combine_l in Hin. rewrite Forall_forall in Hfi. apply (Hfi _ Hin). reflexivity.
      * destruct def as [dv|]; [|discriminate Hy]. apply Ok_inj in Hy. subst y. apply in_combine_r in Hin.
        unfold sig_ok in Hsg. rewrite Forall_forall in Hsg. apply (Hsg _ Hin). reflexivity.
    + (* map / filter / reduce *)
      destruct (_ || _)%bool; [|exact I]. destruct (_ || _)%bool; [exact I|].
      match goal with |- post _ (rbind (?go _ _ _) _) =>
        assert (Hgo : forall l ts st0, sok_args l = true -> Inv st0 -> post (good st0 (Forall vok)) (go l ts st0)) end.
      { induction l as [|[k e] r IH]; intros ts st0 Hl I0; simpl.
        - apply good_ret; auto.
        - apply sok_args_cons in Hl. destruct Hl as [He Hr]. destruct ts as [|t tr]; [apply good_ret; auto|].
          eapply good_bind; [apply (E_plain ca cd pf ls cs defs _ _ _ IHE); auto|]. intros v st' I' F' Hv. cbv beta match.
          apply post_bind_pure. intros v' Hv'.
          eapply good_bind; [apply IH; auto|]. intros vs st'' I2 F2 Hvs. cbv beta match. apply good_ret; auto.
          constructor; auto. eapply validate_ok; eauto. intros dv Hd. discriminate Hd. }
      eapply good_bind; [apply Hgo; auto|]. intros vals st1 I1 F1 Hvals. cbv beta match.
      destruct (Nat.ltb _ _); [exact I|].
      pose proof (nth_args_ok ca cd pf vals 0 Hvals) as A0. pose proof (nth_args_ok ca cd pf vals 1 Hvals) as A1.
      pose proof (nth_args_ok ca cd pf vals 2 Hvals) as A2.
      destruct (nth 0 vals VNone) as [ | | | | | | | | | | fid | ]; try exact I.
      apply post_bind_pure. intros l Hl. pose proof (strict_list_ok ca cd pf ls cs defs _ _ _ I1 A1 Hl) as Hlv.
      assert (Hcall : forall xs st0, Forall vok xs -> Inv st0 ->
                post (good st0 vok)
                  (if Nat.ltb (length (f_args (nth fid (funcs st0) (Func [] [] [] 0)))) (length xs) then Err EType
                   else run_func Asp defs f fid (combine (map (@fst _ _) (f_args (nth fid (funcs st0) (Func [] [] [] 0)))) xs) st0)).
      { intros xs st0 Hxs I0. destruct (Nat.ltb _ _); [exact I|]. apply IHR; auto. apply combine_env_ok; auto. }
      destruct (str_eqb n (s "map")).
      { eapply good_bind.
        - apply (mapM_good ca cd pf ls cs defs vok); [exact I1|]. intros x Hin st0 I0. apply Hcall; auto.
          constructor; [|constructor]. rewrite Forall_forall in Hlv. auto.
        - intros out st2 I2 F2 Hout. cbv beta match. apply (new_list_good ca cd pf ls cs defs); auto. }
      destruct (str_eqb n (s "filter")).
      { eapply (good_bind ca cd pf ls cs defs (Forall (fun p : bool * value => vok (snd p)))).
        - apply (mapM_good ca cd pf ls cs defs (fun p : bool * value => vok (snd p))); [exact I1|]. intros x Hin st0 I0.
          assert (Hx : vok x). { rewrite Forall_forall in Hlv. auto. }
          eapply good_bind; [apply Hcall; auto|]. intros r st' I' F' Hr. cbv beta match. apply good_ret; auto.
        - intros keep st2 I2 F2 Hkeep. cbv beta match.
          assert (Hout : Forall vok (map (@snd _ _) (filter (@fst _ _) keep))).
          { apply Forall_forall. intros x Hin. apply in_map_iff in Hin. destruct Hin as (p & <- & Hp). apply filter_In in Hp.
            rewrite Forall_forall in Hkeep. apply Hkeep. tauto. }
          destruct (map (@snd _ _) (filter (@fst _ _) keep)) as [|o1 orest] eqn:Eout; [apply (good_pure ca cd pf ls cs defs); auto; reflexivity|].
          match goal with |- post _ (if ?c then _ else _) => destruct c end; [exact I|].
          match goal with |- post _ (Ok (VList {| s_arr := _; s_off := _; s_len := _; s_cap := Nat.max ?c _ |}, _)) =>
            pose proof (alloc_list_good ca cd pf ls cs defs (o1 :: orest) c st2 I2 Hout) as Ha end.
          unfold alloc_list in Ha. destruct Ha as (I3 & F3 & V3 & _). cbn [post]. unfold C17_Inv.good. auto. }
      (* reduce *)
      destruct l as [|x r]; [apply (good_pure ca cd pf ls cs defs); auto|].
      inversion Hlv as [|? ? Hx Hr]; subst.
      match goal with |- post _ (let '(acc0, rest) := ?p in ?go rest acc0 st1) =>
        assert (Hgo2 : forall l0 acc st0, Forall vok l0 -> vok acc -> Inv st0 -> post (good st0 vok) (go l0 acc st0));
        [|assert (Hp : vok (fst p) /\ Forall vok (snd p)); [|destruct p as [acc0 rest]; cbn [fst snd] in Hp; apply Hgo2; tauto]] end.
      { induction l0 as [|y r0 IH]; intros acc st0 Hl0 Hacc I0; simpl.
        - apply (good_pure ca cd pf ls cs defs); auto.
        - inversion Hl0 as [|? ? Hy Hr0]; subst.
          eapply good_bind; [apply Hcall; auto|]. intros acc' st' I' F' Hacc'. cbv beta match. apply IH; auto. }
      { destruct (nth 2 vals VNone); cbn [fst snd]; auto. }
Qed.

End Frame2.
