(* C08 - proofs about the stored rule hash (Model/C08_Store.v) and about sources as BuildInputs (Model/C08_Srcs.v). *)
From Coq Require Import Lia.
From PlzV Require Import Base.Harness Model.C08 Model.C08_Set Model.C08_Spec Model.C08_Cache Model.C08_Store Model.C08_Srcs
  Gen.RuleHashProg Proof.C08.

(* ================================================================================================ the stored rule hash *)

Section StoreProofs.
  Variable D : Type.
  Variable Deqb : D -> D -> bool.
  Hypothesis Deqb_spec : forall a b, Deqb a b = true <-> a = b.
  Variable H : str -> D.
  Variable p : program.
  Variable body : rstmt.

  (* what one iteration of the reader's loop must guarantee: it goes on only if the output carries a record, that record
     becomes the accumulated one, and it is the same as the one accumulated so far *)
  Definition body_sound : Prop :=
    forall a h st', rexec D Deqb a (h, None) body = Some st' ->
      exists x, a = Some x /\ fst st' = Some x /\ (h = None \/ h = Some x).

  Hypothesis Hbody : body_sound.

  Lemma rloop_sound attrs : forall h h', rloop D Deqb body attrs h = Some h' ->
    (attrs = [] /\ h' = h)
    \/ (exists x, h' = Some x /\ Forall (fun a => a = Some x) attrs /\ (h = None \/ h = Some x)).
  Proof.
    induction attrs as [|a r IH]; intros h h' Hl; cbn in Hl.
    - left. split; [reflexivity|]. now inversion Hl.
    - right. destruct (rexec D Deqb a (h, None) body) as [st'|] eqn:He; [|discriminate].
      apply Hbody in He. destruct He as (x & -> & Hx & Hh). rewrite Hx in Hl.
      apply IH in Hl. destruct Hl as [[-> ->] | (y & -> & HF & Hy)].
      + exists x. repeat split; [constructor; [reflexivity | constructor] | exact Hh].
      + assert (x = y) as -> by (destruct Hy as [Hy|Hy]; [discriminate | now inversion Hy]).
        exists y. repeat split; [constructor; [reflexivity | exact HF] | exact Hh].
  Qed.

  (* for EVERY number of outputs: the reader returns a record only if every output carries exactly that record *)
  Lemma read_stored_sound attrs r : read_stored D Deqb body attrs = Some r -> Forall (fun a => a = Some r) attrs.
  Proof.
    unfold read_stored. destruct (rloop D Deqb body attrs None) as [[h|]|] eqn:He; try discriminate.
    intros Hr. inversion Hr; subst h. apply rloop_sound in He. destruct He as [[_ Hh] | (x & Hx & HF & _)]; [discriminate|].
    inversion Hx; subst x. exact HF.
  Qed.

  (* ---- the disk invariant: every record on disk is the rule hash of the definition whose build wrote that file *)
  Definition truthful (dk : disk D) : Prop :=
    Forall (fun kv => forall r, f_rec (snd kv) = Some r -> r = H (ser p false (f_by (snd kv)))) dk.

  Lemma write_all_truthful t : forall outs dk, truthful dk ->
    truthful (fold_left (fun d o => (o, File t (Some (H (ser p false t)))) :: d) outs dk).
  Proof.
    induction outs as [|o r IH]; intros dk Ht; cbn; [exact Ht|]. apply IH. constructor; [|exact Ht].
    cbn. intros x Hx. now inversion Hx.
  Qed.

  Lemma sstep_truthful dk e : truthful dk -> truthful (fst (sstep D Deqb H p body dk e)).
  Proof.
    intros Ht. destruct e as [t other|o]; cbn.
    - destruct (needs_building D Deqb H p body dk t || other); [|exact Ht]. now apply write_all_truthful.
    - unfold truthful in *. rewrite Forall_forall in *. intros kv Hin. apply filter_In in Hin. now apply Ht.
  Qed.

  Lemma srun_truthful evs : forall dk, truthful dk -> truthful (fst (srun D Deqb H p body dk evs)).
  Proof.
    induction evs as [|e r IH]; intros dk Ht; cbn; [exact Ht|].
    pose proof (sstep_truthful dk e Ht) as Hs. destruct (sstep D Deqb H p body dk e) as [dk' o]. cbn in Hs.
    specialize (IH dk' Hs). destruct (srun D Deqb H p body dk' r) as [dk'' os]. exact IH.
  Qed.

  Lemma lookup_in {V} k (m : list (str * V)) v : lookup k m = Some v -> exists k', In (k', v) m.
  Proof.
    induction m as [|[k' v'] r IH]; cbn; [discriminate|]. destruct (str_eqb k k').
    - intros Hv. inversion Hv; subst. exists k'. now left.
    - intros Hv. destruct (IH Hv) as (k'' & Hin). exists k''. now right.
  Qed.

  (* ---- the theorem.  After ANY history of builds of ANY definitions (different outputs, different commands, reverts,
     forced rebuilds, deleted files) starting from an empty output directory: if the rule-hash comparison of needsBuilding
     says "unchanged" for the definition t, then EVERY output of t is on disk, carries the hash of t, and was written by the
     build of a definition with the same rule hash as t. *)
  Theorem stored_hash_sound evs t :
    let dk := fst (srun D Deqb H p body [] evs) in
    needs_building D Deqb H p body dk t = false ->
    Forall (fun o => exists f, lookup o dk = Some f /\ f_rec f = Some (H (ser p false t))
                               /\ H (ser p false (f_by f)) = H (ser p false t)) (outputs_of t).
  Proof.
    intros dk Hnb. assert (Ht : truthful dk) by (apply srun_truthful; constructor).
    unfold needs_building, stored_rule in Hnb.
    destruct (read_stored D Deqb body (map (attr_of D dk) (outputs_of t))) as [r|] eqn:Hr; [|discriminate].
    apply Bool.negb_false_iff, Deqb_spec in Hnb. subst r. apply read_stored_sound in Hr.
    rewrite Forall_forall in *. intros o Ho. specialize (Hr (attr_of D dk o) (in_map _ _ _ Ho)).
    unfold attr_of in Hr. destruct (lookup o dk) as [f|] eqn:Hl; [|discriminate].
    exists f. repeat split; [exact Hr|]. destruct (lookup_in _ _ _ Hl) as (k' & Hin).
    unfold truthful in Ht. rewrite Forall_forall in Ht. symmetry. exact (Ht _ Hin _ Hr).
  Qed.
End StoreProofs.

(* the regenerated loop body of readRuleHashFromXattrs is sound: breaks when the consistency check between the outputs, or
   the check for a missing record, is removed or weakened *)
Lemma gen_reader_sound (D : Type) (Deqb : D -> D -> bool) :
  (forall a b, Deqb a b = true <-> a = b) -> body_sound D Deqb stored_reader_body.
Proof.
  intros Hspec a h st'. unfold stored_reader_body. destruct a as [x|], h as [y|]; cbn; try discriminate.
  - destruct (Deqb y x) eqn:He; cbn; [|discriminate]. apply Hspec in He. subst y.
    intros Hs. inversion Hs; subst st'. exists x. cbn. repeat split. now right.
  - intros Hs. inversion Hs; subst st'. exists x. cbn. repeat split. now left.
Qed.

(* C08_stored, part 1 *)
Theorem stored_hash_current (D : Type) (Deqb : D -> D -> bool) (H : str -> D) :
  (forall a b, Deqb a b = true <-> a = b) -> forall evs t,
  let dk := fst (srun D Deqb H prog stored_reader_body [] evs) in
  needs_building D Deqb H prog stored_reader_body dk t = false ->
  Forall (fun o => exists f, lookup o dk = Some f /\ f_rec f = Some (H (ser prog false t))
                             /\ H (ser prog false (f_by f)) = H (ser prog false t)) (outputs_of t).
Proof.
  intros Hspec evs t. exact (stored_hash_sound D Deqb Hspec H prog stored_reader_body (gen_reader_sound D Deqb Hspec) evs t).
Qed.

(* C08_stored, part 2: a definition that differs in one hashed field (in the strings written for it, no entry boundary
   moved) from the definition that produced ANY of its outputs on disk is rebuilt *)
Theorem stored_change_detected (D : Type) (Deqb : D -> D -> bool) (H : str -> D) :
  (forall a b, Deqb a b = true <-> a = b) -> injective H -> forall evs t o f fld,
  let dk := fst (srun D Deqb H prog stored_reader_body [] evs) in
  In o (outputs_of t) -> lookup o dk = Some f ->
  In fld hashed_fields -> agree_except fld (f_by f) t ->
  toks_of fld false (f_by f) <> toks_of fld false t ->
  shift_suspect (toks_of fld false (f_by f)) (toks_of fld false t) = false ->
  needs_building D Deqb H prog stored_reader_body dk t = true.
Proof.
  intros Hspec Hinj evs t o f fld dk Ho Hl Hfld Hag Hne Hsh.
  destruct (needs_building D Deqb H prog stored_reader_body dk t) eqn:Hnb; [reflexivity|exfalso].
  pose proof (stored_hash_current D Deqb H Hspec evs t Hnb) as Hall. rewrite Forall_forall in Hall.
  destruct (Hall o Ho) as (f' & Hl' & _ & Heq). fold dk in Hl'. rewrite Hl in Hl'. inversion Hl'; subst f'.
  exact (proj2 (one_field_characterisation D H Hinj false fld (f_by f) t Hfld Hag) Hne Hsh Heq).
Qed.

(* ---- the check between the outputs is needed: the history of seeded mutation r2-m1 under a reader that keeps the record
   of the last output (the loop body `if h = ReadAttr(output); h == nil { return ruleHashes{} }`) *)
Definition reader_last_wins : rstmt := RSeq (RAssign RVh RRead) (RIf (BVar (RNil RVh)) RReturnEmpty RSkip).

Definition st_v1 : target := set_outs [s "a"; s "b"] (set_command (s "v1") base).
Definition st_v2 : target := set_outs [s "a"] (set_command (s "v2") base).
Definition st_history : list sevent := [SvBuild st_v1 false; SvBuild st_v2 false; SvBuild st_v1 false].

Lemma generated_reader_rebuilds :
  snd (srun str (list_eqb N.eqb) (fun x => x) prog stored_reader_body [] st_history) = [true; true; true]
  /\ option_map (@f_by str) (lookup (s "a") (fst (srun str (list_eqb N.eqb) (fun x => x) prog stored_reader_body [] st_history)))
     = Some st_v1.
Proof. split; vm_compute; reflexivity. Qed.

Lemma last_wins_reader_stale :
  snd (srun str (list_eqb N.eqb) (fun x => x) prog reader_last_wins [] st_history) = [true; true; false]
  /\ option_map (@f_by str) (lookup (s "a") (fst (srun str (list_eqb N.eqb) (fun x => x) prog reader_last_wins [] st_history)))
     = Some st_v2
  /\ ser prog false st_v1 <> ser prog false st_v2.
Proof. split; [|split]; [vm_compute; reflexivity | vm_compute; reflexivity | vm_compute; discriminate]. Qed.

Lemma C08_stored_proof :
  forall (D : Type) (Deqb : D -> D -> bool) (H : str -> D), (forall a b, Deqb a b = true <-> a = b) ->
    (forall evs t,
       let dk := fst (srun D Deqb H prog stored_reader_body [] evs) in
       needs_building D Deqb H prog stored_reader_body dk t = false ->
       Forall (fun o => exists f, lookup o dk = Some f /\ f_rec f = Some (H (ser prog false t))
                                  /\ H (ser prog false (f_by f)) = H (ser prog false t)) (outputs_of t))
    /\ (injective H -> forall evs t o f fld,
          let dk := fst (srun D Deqb H prog stored_reader_body [] evs) in
          In o (outputs_of t) -> lookup o dk = Some f ->
          In fld hashed_fields -> agree_except fld (f_by f) t ->
          toks_of fld false (f_by f) <> toks_of fld false t ->
          shift_suspect (toks_of fld false (f_by f)) (toks_of fld false t) = false ->
          needs_building D Deqb H prog stored_reader_body dk t = true).
Proof.
  intros D Deqb H Hspec. split.
  - exact (stored_hash_current D Deqb H Hspec).
  - intros Hinj. exact (stored_change_detected D Deqb H Hspec Hinj).
Qed.
