(* C33, end-to-end part: proofs about Model/C33_E2E.v.
   A. histories: with the step lists translated from buildTarget, the verdict of every invocation of
      every history is the verdict of the checks alone - plz-out, caches and flags do not matter;
   B. PUBLIC at any position of a visibility list is parsed, and makes the target visible;
   C. non-interference: under the translated pyConfig.Merge, the targets a package produces do not
      depend on what other packages do, for every interleaving of all packages' statements. *)
From Coq Require Import Lia PeanoNat.
From PlzV Require Import Base.Harness Model.C33 Model.C33_E2E Proof.C33_Spec Proof.C33.
From PlzV Require Gen.Visibility Gen.VisibilityFlow.
Import VisibilityFlow.

(* ------------------------------------------------------------------------------------------ *)
(* A. the build step over histories                                                            *)

(* the check is the first thing the path does *)
Definition guarded (ps : list bstep) : bool :=
  match ps with BValidate :: _ => true | _ => false end.

Lemma local_guarded : guarded build_target_local = true.
Proof. reflexivity. Qed.

Lemma remote_guarded : guarded build_target_remote = true.
Proof. reflexivity. Qed.

Lemma run_steps_passes e st g t ps :
  check_visibility st g t = ROk -> forall sto, fst (run_steps e st g t ps sto) = ROk.
Proof.
  intros Hc. induction ps as [|p r IH]; intros sto; cbn [run_steps]; [reflexivity|].
  destruct p.
  - rewrite Hc. apply IH.
  - apply IH.
  - destruct (e_prepare e t); [reflexivity | apply IH].
  - destruct (negb (e_filegroup e t) && e_unchanged e sto t); [reflexivity | apply IH].
  - destruct (e_filegroup e t); [reflexivity | apply IH].
  - destruct (e_cached e t); [reflexivity | apply IH].
  - apply IH.
  - apply IH.
Qed.

(* only the validation step can fail *)
Lemma run_steps_only_check_fails e st g t ps :
  forall sto, fst (run_steps e st g t ps sto) = ROk \/ fst (run_steps e st g t ps sto) = check_visibility st g t.
Proof.
  induction ps as [|p r IH]; intros sto; cbn [run_steps]; [left; reflexivity|].
  destruct p; try apply IH.
  - destruct (check_visibility st g t) eqn:Hc; try (right; reflexivity).
    left. apply run_steps_passes. exact Hc.
  - destruct (e_prepare e t); [left; reflexivity | apply IH].
  - destruct (negb (e_filegroup e t) && e_unchanged e sto t); [left; reflexivity | apply IH].
  - destruct (e_filegroup e t); [left; reflexivity | apply IH].
  - destruct (e_cached e t); [left; reflexivity | apply IH].
Qed.

Lemma run_steps_guarded e st g t ps sto :
  guarded ps = true -> fst (run_steps e st g t ps sto) = check_visibility st g t.
Proof.
  destruct ps as [|[] r]; try discriminate. intros _. cbn [run_steps].
  destruct (check_visibility st g t) eqn:Hc; try reflexivity.
  apply run_steps_passes. exact Hc.
Qed.

(* the verdict of an invocation as a function of configuration, graph and closure alone *)
Fixpoint first_failure (st : state) (g : graph) (ts : list label) : result :=
  match ts with
  | [] => ROk
  | l :: r =>
      match lookup g l with
      | None => RDie l
      | Some t => if is_ok (check_visibility st g t) then first_failure st g r else check_visibility st g t
      end
  end.

Lemma build_list_guarded e st g prog ts :
  guarded prog = true -> forall sto, fst (build_list e st g prog ts sto) = first_failure st g ts.
Proof.
  intros Hg. induction ts as [|l r IH]; intros sto; cbn [build_list first_failure]; [reflexivity|].
  destruct (lookup g l) as [t|]; [|reflexivity].
  pose proof (run_steps_guarded e st g t prog sto Hg) as H.
  destruct (run_steps e st g t prog sto) as [res sto']. cbn [fst] in H. subst res.
  destruct (is_ok (check_visibility st g t)); [apply IH | reflexivity].
Qed.

Theorem history_verdicts e prog h :
  guarded prog = true ->
  forall sto, run_history e prog h sto = map (fun i : invocation => let '(st, g, ts) := i in first_failure st g ts) h.
Proof.
  intros Hg. induction h as [|[[st g] ts] r IH]; intros sto; cbn [run_history map]; [reflexivity|].
  pose proof (build_list_guarded e st g prog ts Hg sto) as H.
  destruct (build_list e st g prog ts sto) as [res sto']. cbn [fst] in H. subst res.
  f_equal. apply IH.
Qed.

(* every label of the closure is in the graph and its declared dependencies are too *)
Definition closure_ok (g : graph) (ts : list label) : Prop :=
  forall l, In l ts -> exists t, lookup g l = Some t /\ resolvable g t.

Definition closure_violation (st : state) (g : graph) (ts : list label) : Prop :=
  exists l t, In l ts /\ lookup g l = Some t /\ violation st g t.

Lemma check_deps_not_die st g t ds :
  (forall dl, In dl ds -> exists d, lookup g dl = Some d) -> forall x, check_deps st g t ds <> RDie x.
Proof.
  induction ds as [|d ds IHd]; intros Hres x Hc; cbn [check_deps] in Hc; [discriminate|].
  destruct (Hres d (or_introl eq_refl)) as [y Hy]. rewrite Hy in Hc.
  assert (Hres' : forall dl, In dl ds -> exists d0, lookup g dl = Some d0) by (intros dl Hd; apply Hres; right; exact Hd).
  destruct (negb (can_see st (t_label t) y)); [discriminate|].
  destruct (t_testonly y && negb (t_test t) && negb (t_testonly t)).
  - destruct (is_experimental st (t_label t)); [exact (IHd Hres' x Hc) | discriminate].
  - exact (IHd Hres' x Hc).
Qed.

Lemma first_failure_failed st g ts :
  closure_ok g ts ->
  (failed (first_failure st g ts)
   <-> exists l t, In l ts /\ lookup g l = Some t /\ failed (check_visibility st g t)).
Proof.
  induction ts as [|l r IH]; intros Hok; cbn [first_failure].
  - split; [intros [] | intros [l [t [[] _]]]].
  - destruct (Hok l (or_introl eq_refl)) as [t [Hl Hres]]. rewrite Hl.
    assert (Hok' : closure_ok g r) by (intros x Hx; apply Hok; right; exact Hx).
    destruct (check_visibility st g t) eqn:Hc; cbn [is_ok].
    + rewrite (IH Hok'). split.
      * intros [l' [t' [Hin H]]]. exists l', t'. split; [right; exact Hin | exact H].
      * intros [l' [t' [[<-|Hin] [Hl' Hf]]]].
        -- rewrite Hl in Hl'. injection Hl' as <-. rewrite Hc in Hf. destruct Hf.
        -- exists l', t'. split; [exact Hin|]. split; assumption.
    + split; [|intros _; exact I]. intros _. exists l, t. split; [left; reflexivity|]. split; [exact Hl|].
      rewrite Hc. exact I.
    + split; [|intros _; exact I]. intros _. exists l, t. split; [left; reflexivity|]. split; [exact Hl|].
      rewrite Hc. exact I.
    + (* RDie: a declared dependency missing from the graph - excluded by resolvable *)
      exfalso. exact (check_deps_not_die st g t (t_deps t) Hres declared Hc).
Qed.

(* The history theorem: whatever plz-out holds and whatever the flags and caches say, every
   invocation of every history
     - fails only if some target of the requested closure has an illegal edge (never a legal build), and
     - outside the three known defect classes fails exactly then. *)
Definition history_statement (prog : list bstep) : Prop :=
  forall (e : env) (h : list invocation) (sto : store),
    Forall (fun i : invocation => let '(_, g, ts) := i in closure_ok g ts) h ->
    Forall2 (fun (i : invocation) (res : result) =>
               let '(st, g, ts) := i in
               (failed res -> closure_violation st g ts)
               /\ ((forall l t, In l ts -> lookup g l = Some t -> defect_class st g t = None) ->
                   (failed res <-> closure_violation st g ts)))
            h (run_history e prog h sto).

Theorem history_exact_guarded prog : guarded prog = true -> history_statement prog.
Proof.
  intros Hg e h sto Hok. rewrite (history_verdicts e prog h Hg sto). clear sto.
  induction h as [|[[st g] ts] r IH]; cbn [map]; [constructor|].
  inversion Hok as [|? ? Hok1 Hok2]; subst. constructor; [|exact (IH Hok2)].
  pose proof (first_failure_failed st g ts Hok1) as Hff. split.
  - intros Hf. apply Hff in Hf. destruct Hf as [l [t [Hin [Hl Hf]]]]. exists l, t.
    split; [exact Hin|]. split; [exact Hl|].
    destruct (Hok1 l Hin) as [t' [Hl' Hres]]. rewrite Hl in Hl'. injection Hl' as <-.
    exact (check_sound st g t Hres Hf).
  - intros Hnd. rewrite Hff. split.
    + intros [l [t [Hin [Hl Hf]]]]. exists l, t. split; [exact Hin|]. split; [exact Hl|].
      destruct (Hok1 l Hin) as [t' [Hl' Hres]]. rewrite Hl in Hl'. injection Hl' as <-.
      exact (check_sound st g t Hres Hf).
    + intros [l [t [Hin [Hl Hv]]]]. exists l, t. split; [exact Hin|]. split; [exact Hl|].
      destruct (Hok1 l Hin) as [t' [Hl' Hres]]. rewrite Hl in Hl'. injection Hl' as <-.
      apply (check_exact st g t Hres (Hnd l t Hin Hl)). exact Hv.
Qed.

(* for the two paths of the buildTarget that is in /repo now *)
Theorem history_exact : history_statement build_target_local /\ history_statement build_target_remote.
Proof. split; apply history_exact_guarded; [exact local_guarded | exact remote_guarded]. Qed.

(* non-vacuity: the edit of seeded change r2-m1.  //lib:lib is visible to //app:all, both are built;
   then its visibility is tightened to //other:all and //app:app is built again from a plz-out that
   holds both targets: the second invocation fails, the first does not. *)
Definition hx_app : target := mkTarget (mkLabel [] (s "app") (s "app")) [] false false [mkLabel [] (s "lib") (s "lib")].
Definition hx_lib (v : str) : target := mkTarget (mkLabel [] (s "lib") (s "lib")) [mkLabel [] v (s "all")] false false [].
Definition hx_history : list invocation :=
  [([], [hx_lib (s "app"); hx_app], [t_label (hx_lib []); t_label hx_app]);
   ([], [hx_lib (s "other"); hx_app], [t_label (hx_lib []); t_label hx_app])].

Lemma hx_runs :
  run_history e2e_env build_target_local hx_history [] = [ROk; RInvisible (mkLabel [] (s "lib") (s "lib"))].
Proof. vm_compute. reflexivity. Qed.

(* ------------------------------------------------------------------------------------------ *)
(* B. PUBLIC anywhere in a visibility list                                                     *)

Definition PUBLIC : str := s "PUBLIC".

Lemma parse_visibility_public bazel : parse_visibility bazel PUBLIC = Some whole_graph.
Proof. destruct bazel; reflexivity. Qed.

Lemma first_element_is_public : s first_element_public = PUBLIC.
Proof. reflexivity. Qed.

Lemma parse_visibility_total bazel v :
  v = PUBLIC \/ parse_label v <> None -> exists l, parse_visibility bazel v = Some l.
Proof.
  intros [->|Hp]; [exists whole_graph; apply parse_visibility_public|].
  unfold parse_visibility. destruct (_ || _); [exists whole_graph; reflexivity|].
  destruct (parse_label v) as [l|]; [exists l; reflexivity | contradiction].
Qed.

Lemma map_opt_total {A B} (f : A -> option B) xs :
  (forall x, In x xs -> exists y, f x = Some y) ->
  exists ys, map_opt f xs = Some ys /\ forall x y, In x xs -> f x = Some y -> In y ys.
Proof.
  induction xs as [|x r IH]; intros H; cbn [map_opt].
  - exists []. split; [reflexivity | intros ? ? []].
  - destruct (H x (or_introl eq_refl)) as [y Hy]. rewrite Hy.
    destruct IH as [ys [Hys Hin]]; [intros z Hz; apply H; right; exact Hz|]. rewrite Hys.
    exists (y :: ys). split; [reflexivity|]. intros z w [<-|Hz] Hw.
    + left. congruence.
    + right. exact (Hin z w Hz Hw).
Qed.

(* a visibility list that contains PUBLIC at ANY position, and otherwise labels, is accepted by the
   parser and yields a Visibility that contains WholeGraph[0] *)
Theorem public_anywhere_parses bazel arg :
  In PUBLIC arg -> (forall v, In v arg -> v = PUBLIC \/ parse_label v <> None) ->
  exists ls, target_visibility bazel arg = Some ls /\ In whole_graph ls.
Proof.
  intros Hin Hall. destruct arg as [|v0 r]; [destruct Hin|]. cbn [target_visibility].
  destruct (str_eqb v0 (s first_element_public)).
  - exists [whole_graph]. split; [reflexivity | left; reflexivity].
  - destruct (map_opt_total (parse_visibility bazel) (v0 :: r)) as [ls [Hls Hmem]].
    + intros x Hx. apply parse_visibility_total. exact (Hall x Hx).
    + exists ls. split; [exact Hls|]. exact (Hmem PUBLIC whole_graph Hin (parse_visibility_public bazel)).
Qed.

(* ... and a target whose Visibility contains it is visible to everybody the experimental rule does not exclude *)
Theorem public_can_see st lab dep :
  In whole_graph (t_vis dep) ->
  ~ (experimental st (t_label dep) /\ ~ experimental st lab) ->
  can_see st lab dep = true.
Proof.
  intros Hin Hexp. apply can_see_iff. right. split; [exact Hexp|]. left.
  exists whole_graph. split; [exact Hin|]. apply is_public_selects_dir. exact public_is_whole_graph.
Qed.

Theorem public_anywhere bazel arg st lab dep :
  In PUBLIC arg -> (forall v, In v arg -> v = PUBLIC \/ parse_label v <> None) ->
  ~ (experimental st (t_label dep) /\ ~ experimental st lab) ->
  exists ls, target_visibility bazel arg = Some ls
             /\ (t_vis dep = ls -> can_see st lab dep = true).
Proof.
  intros Hin Hall Hexp. destruct (public_anywhere_parses bazel arg Hin Hall) as [ls [Hls Hw]].
  exists ls. split; [exact Hls|]. intros Hv. apply public_can_see; [rewrite Hv; exact Hw | exact Hexp].
Qed.

Example public_last :
  target_visibility false [s "//other:all"; s "//third/..."; PUBLIC]
  = Some [mkLabel [] (s "other") (s "all"); mkLabel [] (s "third") (s "..."); whole_graph].
Proof. vm_compute. reflexivity. Qed.

(* ------------------------------------------------------------------------------------------ *)
(* C. per-package CONFIG: non-interference                                                     *)

Lemma merge_prog_ok : merge_nil_branch = [MAllocFresh] /\ merge_rest = [MCopyAll].
Proof. split; reflexivity. Qed.

Lemma dget_app a b k : dget (a ++ b) k = match dget a k with Some v => Some v | None => dget b k end.
Proof.
  induction a as [|[k' v] r IH]; cbn [dget app]; [reflexivity|].
  destruct (str_eqb k' k); [reflexivity | exact IH].
Qed.

Section NonInterference.
Variable bazel : bool.
Variable ds : defs.
Variable pname : nat -> str.

(* what package p's CONFIG overlay holds *)
Definition view (ps : pstate) (p : nat) : option dict := option_map (p_heap ps) (p_cfg ps p).

(* ownership: overlays of packages are distinct cells allocated after the frozen ones, which keep their contents *)
Record inv (ps : pstate) : Prop := mkInv {
  inv_range : forall p a, p_cfg ps p = Some a -> length ds <= a < p_next ps;
  inv_inj : forall p q a, p_cfg ps p = Some a -> p_cfg ps q = Some a -> p = q;
  inv_frozen : forall i d, frozen ds i = Some d -> p_heap ps i = d;
  inv_next : length ds <= p_next ps }.

Lemma frozen_lt i d : frozen ds i = Some d -> i < length ds.
Proof.
  unfold frozen. intros H. apply nth_error_Some. intros Hn. rewrite Hn in H. discriminate.
Qed.

Lemma inv_init : inv (init ds).
Proof.
  constructor; cbn.
  - intros p a H. discriminate.
  - intros p q a H. discriminate.
  - intros i d H. rewrite H. reflexivity.
  - lia.
Qed.

(* the effect of an operation of package p: invariant kept, p's view as stated, all other views untouched *)
Definition eff (p : nat) (ps ps' : pstate) (v' : option dict) : Prop :=
  inv ps' /\ view ps' p = v' /\ forall q, q <> p -> view ps' q = view ps q.

Lemma eff_refl p ps : inv ps -> eff p ps ps (view ps p).
Proof. intros H. split; [exact H|]. split; reflexivity. Qed.

Lemma eff_trans p ps1 ps2 ps3 v2 v3 : eff p ps1 ps2 v2 -> eff p ps2 ps3 v3 -> eff p ps1 ps3 v3.
Proof.
  intros [_ [_ H12]] [I3 [V3 H23]]. split; [exact I3|]. split; [exact V3|].
  intros q Hq. rewrite (H23 q Hq). exact (H12 q Hq).
Qed.

Lemma alloc_eff p d ps : inv ps -> eff p ps (alloc p d ps) (Some d).
Proof.
  intros [Hr Hi Hf Hn]. unfold eff, view, alloc, upd. cbn [p_heap p_cfg p_next]. split; [|split].
  - constructor; cbn [p_heap p_cfg p_next].
    + intros q a. destruct (Nat.eqb_spec q p) as [->|Hq].
      * intros H. injection H as <-. lia.
      * intros H. specialize (Hr q a H). lia.
    + intros q1 q2 a. destruct (Nat.eqb_spec q1 p) as [->|H1]; destruct (Nat.eqb_spec q2 p) as [->|H2]; intros A B.
      * reflexivity.
      * injection A as <-. specialize (Hr q2 _ B). lia.
      * injection B as <-. specialize (Hr q1 _ A). lia.
      * exact (Hi q1 q2 a A B).
    + intros i d0 H. pose proof (frozen_lt i d0 H) as Hlt.
      destruct (Nat.eqb_spec i (p_next ps)) as [->|_]; [lia | exact (Hf i d0 H)].
    + lia.
  - rewrite Nat.eqb_refl. cbn [option_map]. rewrite Nat.eqb_refl. reflexivity.
  - intros q Hq. destruct (Nat.eqb_spec q p) as [->|_]; [contradiction|].
    destruct (p_cfg ps q) as [b|] eqn:Hb; cbn [option_map]; [|reflexivity].
    specialize (Hr q b Hb). destruct (Nat.eqb_spec b (p_next ps)) as [->|_]; [lia | reflexivity].
Qed.

Lemma write_eff p a d ps : inv ps -> p_cfg ps p = Some a -> eff p ps (write a d ps) (Some d).
Proof.
  intros [Hr Hi Hf Hn] Ha. unfold eff, view, write, upd. cbn [p_heap p_cfg p_next]. split; [|split].
  - constructor; cbn [p_heap p_cfg p_next]; [exact Hr | exact Hi | | exact Hn].
    intros i d0 H. pose proof (frozen_lt i d0 H) as Hlt. specialize (Hr p a Ha).
    destruct (Nat.eqb_spec i a) as [->|_]; [lia | exact (Hf i d0 H)].
  - rewrite Ha. cbn [option_map]. rewrite Nat.eqb_refl. reflexivity.
  - intros q Hq. destruct (p_cfg ps q) as [b|] eqn:Hb; cbn [option_map]; [|reflexivity].
    destruct (Nat.eqb_spec b a) as [->|_]; [|reflexivity].
    exfalso. apply Hq. exact (Hi q p a Hb Ha).
Qed.

Definition ia_view (v : option dict) (k : str) (x : cval) : option dict :=
  match v with None => Some [(k, x)] | Some d => Some (dset d k x) end.

Lemma index_assign_eff p k x ps : inv ps -> eff p ps (index_assign p k x ps) (ia_view (view ps p) k x).
Proof.
  intros Hinv. unfold index_assign, view. destruct (p_cfg ps p) as [a|] eqn:Ha; cbn [option_map ia_view].
  - exact (write_eff p a _ ps Hinv Ha).
  - exact (alloc_eff p _ ps Hinv).
Qed.

Definition merged (v : option dict) (d0 : dict) : option dict :=
  Some (dmerge (match v with Some d => d | None => [] end) d0).

(* pyConfig.Merge as translated: the package gets its own copy *)
Lemma merge_eff p i d0 ps : inv ps -> frozen ds i = Some d0 -> eff p ps (merge p i ps) (merged (view ps p) d0).
Proof.
  intros Hinv Hfr. destruct merge_prog_ok as [Hnil Hrest]. unfold merge. rewrite Hnil, Hrest.
  pose proof (frozen_lt i d0 Hfr) as Hlt.
  destruct (p_cfg ps p) as [a|] eqn:Ha.
  - cbn [exec_prog fst]. unfold copy_all. rewrite Ha. unfold view, merged. rewrite Ha. cbn [option_map].
    rewrite (inv_frozen ps Hinv i d0 Hfr). exact (write_eff p a _ ps Hinv Ha).
  - cbn [exec_prog fst]. unfold view, merged. rewrite Ha. cbn [option_map].
    pose proof (alloc_eff p [] ps Hinv) as Ea. eapply eff_trans; [exact Ea|].
    destruct Ea as [Ia _].
    assert (Hc : p_cfg (alloc p [] ps) p = Some (p_next ps)).
    { unfold alloc, upd. cbn [p_cfg]. rewrite Nat.eqb_refl. reflexivity. }
    unfold copy_all. rewrite Hc.
    assert (Hh : p_heap (alloc p [] ps) (p_next ps) = []).
    { unfold alloc, upd. cbn [p_heap]. rewrite Nat.eqb_refl. reflexivity. }
    rewrite Hh, (inv_frozen _ Ia i d0 Hfr).
    exact (write_eff p (p_next ps) _ _ Ia Hc).
Qed.

(* the same statements on the view alone *)
Definition vget (v : option dict) (k : str) : option cval :=
  match v with Some d => dget d k | None => None end.

Definition step_view (p : nat) (x : stmt) (v : option dict) : option dict * emitted :=
  match x with
  | SSubinclude i => (match frozen ds i with Some d0 => merged v d0 | None => v end, ENone)
  | SPackage dv dt =>
      let v1 := match dv with Some y => ia_view v key_vis (CVis y) | None => v end in
      let v2 := match dt with Some b => ia_view v1 key_testonly (CBool b) | None => v1 end in
      (v2, ENone)
  | STarget d => (v, mk_target bazel (pname p) d (vget v key_vis) (vget v key_testonly))
  end.

Lemma cget_vget ps p k : cget ps p k = vget (view ps p) k.
Proof. unfold cget, vget, view. destruct (p_cfg ps p); reflexivity. Qed.

Lemma step_refines p x ps :
  inv ps ->
  eff p ps (fst (step bazel ds pname p x ps)) (fst (step_view p x (view ps p)))
  /\ snd (step bazel ds pname p x ps) = snd (step_view p x (view ps p)).
Proof.
  intros Hinv. destruct x as [i|dv dt|d]; cbn [step step_view fst snd].
  - split; [|reflexivity]. destruct (frozen ds i) as [d0|] eqn:Hfr.
    + exact (merge_eff p i d0 ps Hinv Hfr).
    + exact (eff_refl p ps Hinv).
  - split; [|reflexivity].
    assert (E1 : eff p ps (match dv with Some v => index_assign p key_vis (CVis v) ps | None => ps end)
                     (match dv with Some y => ia_view (view ps p) key_vis (CVis y) | None => view ps p end)).
    { destruct dv; [apply index_assign_eff; exact Hinv | exact (eff_refl p ps Hinv)]. }
    destruct dt as [b|]; [|exact E1].
    eapply eff_trans; [exact E1|]. destruct E1 as [I1 [V1 _]]. rewrite <- V1.
    apply index_assign_eff. exact I1.
  - split; [exact (eff_refl p ps Hinv)|]. rewrite !cget_vget. reflexivity.
Qed.

Fixpoint run_view (p : nat) (xs : list stmt) (v : option dict) : list emitted :=
  match xs with
  | [] => []
  | x :: r => snd (step_view p x v) :: run_view p r (fst (step_view p x v))
  end.

Definition of_pkg {A} (p : nat) (e : nat * A) : bool := Nat.eqb (fst e) p.
Definition stmts_of (p : nat) (evs : list event) : list stmt := map snd (filter (of_pkg p) evs).
Definition outs_of (p : nat) (os : list (nat * emitted)) : list emitted := map snd (filter (of_pkg p) os).

Lemma run_events_view p evs :
  forall ps, inv ps ->
    outs_of p (snd (run_events bazel ds pname evs ps)) = run_view p (stmts_of p evs) (view ps p).
Proof.
  induction evs as [|[q x] r IH]; intros ps Hinv; cbn [run_events]; [reflexivity|].
  destruct (step_refines q x ps Hinv) as [[I1 [V1 Hoth]] Ho].
  destruct (step bazel ds pname q x ps) as [ps1 o] eqn:Hs. cbn [fst snd] in *.
  specialize (IH ps1 I1).
  destruct (run_events bazel ds pname r ps1) as [ps2 os]. cbn [snd] in *.
  unfold outs_of, stmts_of in *. cbn [filter].
  assert (Hq1 : of_pkg p (q, o) = Nat.eqb q p) by reflexivity.
  assert (Hq2 : of_pkg p (q, x) = Nat.eqb q p) by reflexivity.
  rewrite Hq1, Hq2. clear Hq1 Hq2.
  destruct (Nat.eqb_spec q p) as [->|Hq]; cbn [map snd run_view].
  - rewrite IH, V1, Ho. reflexivity.
  - rewrite IH. rewrite (Hoth p); [reflexivity|]. intros ->. apply Hq. reflexivity.
Qed.

Lemma stmts_of_filter p evs : stmts_of p (filter (of_pkg p) evs) = stmts_of p evs.
Proof.
  unfold stmts_of. f_equal. induction evs as [|e r IH]; cbn [filter]; [reflexivity|].
  destruct (of_pkg p e) eqn:He; cbn [filter]; [rewrite He, IH; reflexivity | exact IH].
Qed.

(* NON-INTERFERENCE: for every interleaving of the statements of any number of packages, what
   package p hands to the graph (its targets with their visibility and test_only, or its parse
   error) is what it hands over when it is parsed alone. *)
Theorem noninterference (evs : list event) (p : nat) :
  outs_of p (snd (run_events bazel ds pname evs (init ds)))
  = outs_of p (snd (run_events bazel ds pname (filter (of_pkg p) evs) (init ds))).
Proof.
  rewrite !(run_events_view p _ (init ds) inv_init). rewrite stmts_of_filter. reflexivity.
Qed.

(* a package that never calls package() gets no defaults from anybody: each of its targets is what
   its own arguments say, whatever other packages do and whichever files it subincludes (provided
   those files do not themselves set the two keys) *)
Definition no_package (x : stmt) : Prop := match x with SPackage _ _ => False | _ => True end.

Definition own_output (p : nat) (x : stmt) : emitted :=
  match x with STarget d => mk_target bazel (pname p) d None None | _ => ENone end.

Lemma run_view_no_package p xs :
  (forall i d0, frozen ds i = Some d0 -> dget d0 key_vis = None /\ dget d0 key_testonly = None) ->
  Forall no_package xs ->
  forall v, vget v key_vis = None -> vget v key_testonly = None ->
    run_view p xs v = map (own_output p) xs.
Proof.
  intros Hds Hxs. induction Hxs as [|x r Hx _ IH]; intros v Hv Ht; cbn [run_view map]; [reflexivity|].
  destruct x as [i|dv dt|d]; cbn [step_view fst snd own_output]; [| destruct Hx |].
  - f_equal. apply IH; destruct (frozen ds i) as [d0|] eqn:Hfr; try assumption;
      unfold merged, vget, dmerge; rewrite dget_app; destruct (Hds i d0 Hfr) as [H1 H2];
      [rewrite H1 | rewrite H2]; destruct v; cbn [vget] in *; assumption || reflexivity.
  - rewrite Hv, Ht. f_equal. apply IH; assumption.
Qed.

Theorem no_default_leak (evs : list event) (p : nat) :
  (forall i d0, frozen ds i = Some d0 -> dget d0 key_vis = None /\ dget d0 key_testonly = None) ->
  Forall no_package (stmts_of p evs) ->
  outs_of p (snd (run_events bazel ds pname evs (init ds))) = map (own_output p) (stmts_of p evs).
Proof.
  intros Hds Hnp. rewrite (run_events_view p _ (init ds) inv_init).
  apply run_view_no_package; try assumption; reflexivity.
Qed.

End NonInterference.

(* non-vacuity: the repository of seeded change r2-m3.  //app subincludes d0 (which touched CONFIG),
   then calls package(default_visibility = ["PUBLIC"]); //lib subincludes d0 as well and declares a
   target without visibility.  In every interleaving //lib:private has an empty Visibility. *)
Definition nx_defs : defs := [Some [(s "GREETING", COther)]].
Definition nx_app : list stmt :=
  [SSubinclude 0; SPackage (Some [PUBLIC]) None; STarget (mkDecl (s "app") None None false [mkLabel [] (s "lib") (s "private")])].
Definition nx_lib : list stmt := [SSubinclude 0; STarget (mkDecl (s "private") None None false [])].
Definition nx_pname (i : nat) : str := match i with 0 => s "app" | _ => s "lib" end.

Example nx_sequential :
  parse_repo (mkRepo nx_defs [(s "app", nx_app); (s "lib", nx_lib)])
  = Some [mkTarget (mkLabel [] (s "app") (s "app")) [whole_graph] false false [mkLabel [] (s "lib") (s "private")];
          mkTarget (mkLabel [] (s "lib") (s "private")) [] false false []].
Proof. vm_compute. reflexivity. Qed.

Example nx_any_interleaving (evs : list event) :
  stmts_of 1 evs = nx_lib ->
  outs_of 1 (snd (run_events false nx_defs nx_pname evs (init nx_defs)))
  = [ENone; ETarget (mkTarget (mkLabel [] (s "lib") (s "private")) [] false false [])].
Proof.
  intros H. rewrite (no_default_leak false nx_defs nx_pname evs 1).
  - rewrite H. reflexivity.
  - intros [|[|i]] d0 Hf; cbn in Hf; try discriminate. injection Hf as <-. split; reflexivity.
  - rewrite H. repeat constructor.
Qed.
