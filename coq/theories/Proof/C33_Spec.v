(* C33 - the documented visibility / test_only rules, written from the property text and the user
   documentation (docs/basics.html "build labels", config.html parse.experimentaldir, the test_only
   argument of the build rules, the tag() docstring), NOT from the code:
     - propositions, no calls into the model's functions (only the label/target records and the
       literal constants are shared);
     - a package is identified by (subrepo, package name); a package directory is "in" a directory
       when it is that directory or lies beneath it (path-wise: dir, or dir/<something>);
   plus the executable classifier of the known defect classes used by C33_partial.
   Definitions only. *)
From PlzV Require Import Base.Harness Model.C33.

(* pkg is dir or anywhere beneath it in the filesystem; the empty dir is the repository root *)
Definition in_dir (dir pkg : str) : Prop :=
  dir = [] \/ pkg = dir \/ exists rest, pkg = dir ++ slash ++ rest.

(* what a pattern selects by package directory and name:  //d/...  |  //d:all  |  //d:name *)
Definition selects_dir (v l : label) : Prop :=
  (l_name v = dots /\ in_dir (l_pkg v) (l_pkg l))
  \/ (l_name v = all_ /\ l_pkg v = l_pkg l)
  \/ (l_pkg v = l_pkg l /\ l_name v = l_name l).

(* PUBLIC is //... *)
Definition is_public (v : label) : Prop := l_pkg v = [] /\ l_name v = dots.

(* a visibility pattern selects a target: PUBLIC selects everything, any other pattern selects
   targets of its own repository *)
Definition selects (v l : label) : Prop :=
  is_public v \/ (l_sub v = l_sub l /\ selects_dir v l).

(* hidden sub-targets: tag("name","t") = "_name#t", tag("_name#t","u") = "_name#t_u"; such a target
   acts with the identity of the target `name` it was generated for *)
Definition hidden_child (n : str) : Prop := (exists r, n = underscore_c :: r) /\ In hash_c n.

Definition owner_name (n o : str) : Prop :=
  (exists us rest, n = us ++ o ++ hash_c :: rest /\ us <> [] /\ Forall (eq underscore_c) us
                   /\ ~ In hash_c o /\ (forall r, o <> underscore_c :: r))
  \/ (~ hidden_child n /\ o = n).

Definition owner (l o : label) : Prop :=
  l_sub o = l_sub l /\ l_pkg o = l_pkg l /\ owner_name (l_name l) (l_name o).

(* the experimental tree exists only in the top-level repository *)
Definition experimental (st : state) (l : label) : Prop :=
  l_sub l = [] /\ exists d, In d st /\ in_dir d (l_pkg l).

Definition same_package (a b : label) : Prop := l_sub a = l_sub b /\ l_pkg a = l_pkg b.

Definition granted (t : label) (d : target) : Prop :=
  exists v o, In v (t_vis d) /\ owner t o /\ selects v o.

(* "visibility is granted by the same package, a matching visibility pattern, PUBLIC, or an
   experimental-directory exemption" - and code outside the experimental tree can never depend on
   code inside it *)
Definition visible_spec (st : state) (t : label) (d : target) : Prop :=
  same_package t (t_label d)
  \/ (~ (experimental st (t_label d) /\ ~ experimental st t)
      /\ (granted t d \/ experimental st t)).

(* "a non-test, non-test_only target depends on a test_only target" *)
Definition testonly_violation (t d : target) : Prop :=
  t_testonly d = true /\ t_test t = false /\ t_testonly t = false.

(* every declared dependency is in the graph (TargetOrDie does not die) *)
Definition resolvable (g : graph) (t : target) : Prop :=
  forall dl, In dl (t_deps t) -> exists d, lookup g dl = Some d.

Definition failed (r : result) : Prop :=
  match r with RInvisible _ | RTestOnly _ => True | _ => False end.

Definition violation (st : state) (g : graph) (t : target) : Prop :=
  exists dl d, In dl (t_deps t) /\ lookup g dl = Some d
               /\ (~ visible_spec st (t_label t) d \/ testonly_violation t d).

(* ---- known defect classes (KNOWN_FINDINGS.jsonl), as an executable classifier ---- *)
Inductive defect :=
| SamePackageNameOtherSubrepo      (* same-package-name-other-subrepo *)
| PatternMatchesOtherSubrepo       (* visibility-pattern-matches-other-subrepo *)
| TestOnlyAllowedFromExperimental. (* test-only-allowed-from-experimental *)

Definition is_publicb (v : label) : bool := str_eqb (l_pkg v) [] && str_eqb (l_name v) dots.

Definition dep_defect (st : state) (t d : target) : option defect :=
  let tl := t_label t in
  if str_eqb (l_pkg tl) (l_pkg (t_label d)) && negb (str_eqb (l_sub tl) (l_sub (t_label d)))
  then Some SamePackageNameOtherSubrepo
  else if existsb (fun v => includes v (parent tl) && negb (is_publicb v)
                            && negb (str_eqb (l_sub v) (l_sub tl))) (t_vis d)
  then Some PatternMatchesOtherSubrepo
  else if t_testonly d && negb (t_test t) && negb (t_testonly t) && is_experimental st tl
  then Some TestOnlyAllowedFromExperimental
  else None.

Fixpoint deps_defect (st : state) (g : graph) (t : target) (ds : list label) : option defect :=
  match ds with
  | [] => None
  | dl :: r =>
      match lookup g dl with
      | None => deps_defect st g t r
      | Some d => match dep_defect st t d with
                  | Some c => Some c
                  | None => deps_defect st g t r
                  end
      end
  end.

Definition defect_class (st : state) (g : graph) (t : target) : option defect :=
  deps_defect st g t (t_deps t).
