(* C13 - proofs about the model of the HTTP and command caches (Model/C13.v). *)
From PlzV Require Import Base.Harness Base.StrFacts Gen.C13Exits Model.C13.
From Coq Require Import Lia.
Local Open Scope N_scope.

(* ------------------------------------------------------------------------------------------
   What the translator found in the source, as facts the proofs below rest on.  If the code
   changes shape these stop being provable. *)
Lemma gen_http_fault : http_write_fault_exit = FCloseWithError. Proof. reflexivity. Qed.
Lemma gen_readtar_eof : readtar_eof_result = true. Proof. reflexivity. Qed.
Lemma gen_readtar_err : readtar_error_result = false. Proof. reflexivity. Qed.
Lemma gen_cmd_and : cmd_retrieve_needs_exit_ok = true. Proof. reflexivity. Qed.
Lemma gen_cmd_closes : cmd_retrieve_closes_reader = true. Proof. reflexivity. Qed.
Lemma gen_cmd_tar_close : cmd_write_deferred_tar_close = true. Proof. reflexivity. Qed.
(* fs.WalkMode gives godirwalk no ErrorCallback: an error of storeFile on an entry inside a
   directory output halts the walk, whatever the error is *)
Lemma gen_walk_halts : walk_callback_error_action = WHalt. Proof. reflexivity. Qed.
Lemma gen_walk_root : walk_root_lstat_error_returned = true. Proof. reflexivity. Qed.
(* readTar's tar.TypeSymlink case returns the error of os.Symlink whatever it is: a path that is
   already occupied (EEXIST) ends the retrieve *)
Lemma gen_symlink_exists : readtar_symlink_exists_is_error = true. Proof. reflexivity. Qed.

Lemma sym_if {A} (m p : bool) (E X Y : A) :
  (if (readtar_symlink_exists_is_error && m) || p then E else if m then X else Y) = (if m || p then E else Y).
Proof. rewrite gen_symlink_exists. destruct m, p; reflexivity. Qed.

(* ------------------------------------------------------------------------------------------
   Specification vocabulary *)

(* every declared output is back in the output directory, exactly *)
Definition restored (disk : fs) (files : list tree) : Prop :=
  forall n nd, In (n, nd) (all_expected files) -> lookup n disk = Some nd.

(* a Retrieve result is acceptable: a miss, or a hit that restored everything after a store
   in which every output could be read *)
Definition safe (files : list tree) (res : bool * fs) : Prop :=
  fst res = false \/ (all_healthy files = true /\ restored (snd res) files).

(* the one way the command cache breaks the property (see C13_refuted): an output could not be
   read, no member was half written, and the store command kept everything it was sent *)
Definition cmd_defect (files : list tree) (commit : option N) : bool :=
  negb (all_healthy files) && at_boundary (fst (write files)) &&
  match commit with Some k => bytes (cmd_sent files) <=? k | None => false end.

(* ------------------------------------------------------------------------------------------
   Streams *)

Definition node_of (c : chunk) : option (str * node) :=
  match c with
  | CReg n _ d => Some (n, NFile d)
  | CDir n => Some (n, NDir)
  | CSym n t => Some (n, NLink t)
  | _ => None
  end.

Fixpoint nodes (st : list chunk) : list (str * node) :=
  match st with
  | [] => []
  | c :: r => match node_of c with Some p => p :: nodes r | None => nodes r end
  end.

Definition member (c : chunk) : bool :=
  match c with CZero | CPartial => false | _ => true end.

(* members only, each complete: what a store without a fault writes *)
Definition good (st : list chunk) : Prop := Forall (fun c => member c = true /\ complete c = true) st.
Definition members (st : list chunk) : Prop := Forall (fun c => member c = true) st.

Lemma good_members st : good st -> members st.
Proof. intro H. eapply Forall_impl; [|exact H]. cbn. tauto. Qed.

Lemma good_app a b : good a -> good b -> good (a ++ b).
Proof. intros. apply Forall_app; split; assumption. Qed.
Lemma members_app a b : members a -> members b -> members (a ++ b).
Proof. intros. apply Forall_app; split; assumption. Qed.

Lemma nodes_app a b : nodes (a ++ b) = nodes a ++ nodes b.
Proof.
  induction a as [|c a IH]; cbn; [reflexivity|].
  destruct (node_of c); cbn; rewrite IH; reflexivity.
Qed.

Lemma good_at_boundary st : good st -> at_boundary st = true.
Proof.
  intro H. unfold at_boundary. apply forallb_forall. intros c Hc.
  unfold good in H. rewrite Forall_forall in H. apply H. exact Hc.
Qed.

(* ---- walk / write ---- *)

Section WalkInd.
  Variable P : tree -> Prop.
  Hypothesis Hfile : forall n c, P (TFile n c).
  Hypothesis Hlink : forall n t, P (TLink n t).
  Hypothesis Hdir : forall n ch, Forall P ch -> P (TDir n ch).
  Hypothesis Hsock : forall n, P (TSock n).
  Hypothesis Hshort : forall n sz g, P (TShort n sz g).
  Hypothesis Hmiss : forall n, P (TMissing n).
  Fixpoint tree_ind' (t : tree) : P t :=
    match t with
    | TFile n c => Hfile n c
    | TLink n t => Hlink n t
    | TDir n ch => Hdir n ch ((fix go (l : list tree) : Forall P l :=
                                 match l with [] => Forall_nil P | x :: r => Forall_cons x (tree_ind' x) (go r) end) ch)
    | TSock n => Hsock n
    | TShort n sz g => Hshort n sz g
    | TMissing n => Hmiss n
    end.
End WalkInd.

(* the local `go` of walk, named *)
Fixpoint walk_list (l : list tree) : list chunk * bool :=
  match l with
  | [] => ([], true)
  | x :: r => let '(a, ok) := walk x in
              if ok then let '(b, ok') := walk_list r in (a ++ b, ok') else (a, false)
  end.

Lemma walk_halt : walk = walk_a WHalt.
Proof. unfold walk. rewrite gen_walk_halts. reflexivity. Qed.
Lemma write_halt : write = write_a WHalt.
Proof. unfold write. rewrite gen_walk_halts. reflexivity. Qed.

Lemma walk_dir n ch : walk (TDir n ch) = let '(b, ok) := walk_list ch in (CDir n :: b, ok).
Proof.
  rewrite walk_halt. cbn [walk_a skippable].
  replace ((fix go (l : list tree) : list chunk * bool :=
              match l with
              | [] => ([], true)
              | x :: r => let '(a, ok) := walk_a WHalt x in
                          if ok then let '(b, ok') := go r in (a ++ b, ok') else (a, false)
              end) ch) with (walk_list ch); [reflexivity|].
  induction ch as [|x r IH]; cbn [walk_list]; [reflexivity|]. rewrite IH, walk_halt. reflexivity.
Qed.

Lemma write_walk_list files : write files = walk_list files.
Proof.
  rewrite write_halt.
  induction files as [|x r IH]; cbn [write_a walk_list]; [reflexivity|]. rewrite IH, walk_halt. reflexivity.
Qed.

(* the property of one tree that the list lemmas need *)
Definition walk_spec (t : tree) : Prop :=
  let '(st, ok) := walk t in
  ok = healthy t /\ members st /\ (ok = true -> good st /\ nodes st = expected t).

Lemma walk_list_spec l :
  Forall walk_spec l ->
  let '(st, ok) := walk_list l in
  ok = forallb healthy l /\ members st /\ (ok = true -> good st /\ nodes st = flat_map expected l).
Proof.
  induction 1 as [|x r Hx Hr IH]; cbn.
  - repeat split; constructor.
  - unfold walk_spec in Hx. destruct (walk x) as [a ok]. destruct Hx as (Hok & Hm & Hg).
    destruct ok.
    + destruct (walk_list r) as [b ok']. destruct IH as (Hok' & Hm' & Hg').
      rewrite <- Hok, <- Hok'. cbn. split; [reflexivity|]. split; [apply members_app; assumption|].
      intros ->. destruct (Hg eq_refl) as [G1 G2]. destruct (Hg' eq_refl) as [G3 G4].
      split; [apply good_app; assumption|]. rewrite nodes_app, G2, G4. reflexivity.
    + rewrite <- Hok. cbn. split; [reflexivity|]. split; [assumption|]. discriminate.
Qed.

Lemma walk_ok t : walk_spec t.
Proof.
  induction t as [n c|n t|n ch IH|n|n sz g|n] using tree_ind'; unfold walk_spec.
  - cbn. repeat split; try (repeat constructor; cbn; apply N.eqb_refl).
  - cbn. repeat split; repeat constructor.
  - rewrite walk_dir. pose proof (walk_list_spec ch IH) as H.
    destruct (walk_list ch) as [b ok]. destruct H as (Hok & Hm & Hg). cbn [healthy expected].
    split; [exact Hok|]. split; [constructor; [reflexivity|exact Hm]|].
    intros ->. destruct (Hg eq_refl) as [G1 G2]. split.
    + constructor; [split; reflexivity|exact G1].
    + cbn. rewrite G2. reflexivity.
  - cbn. repeat split; try constructor; discriminate.
  - cbn. repeat split; try discriminate. repeat constructor.
  - cbn. repeat split; try constructor; discriminate.
Qed.

Lemma write_spec files :
  let '(st, ok) := write files in
  ok = all_healthy files /\ members st /\ (ok = true -> good st /\ nodes st = all_expected files).
Proof.
  rewrite write_walk_list. apply walk_list_spec. apply Forall_forall. intros t _. apply walk_ok.
Qed.

(* ---- processing a whole stream of members ---- *)

(* the output directory after all of `st` has been unpacked; None if some member fails *)
Fixpoint run (root : str) (st : list chunk) (disk : fs) : option fs :=
  match st with
  | [] => Some disk
  | CDir n :: r => run root r ((n, NDir) :: disk)
  | CSym n t :: r => if mem n disk || negb (parent_exists root n disk) then None
                     else run root r ((n, NLink t) :: disk)
  | CReg n sz d :: r => if len d =? sz then run root r ((n, NFile d) :: disk) else None
  | _ => None
  end.

Lemma run_disk root st : forall disk d, run root st disk = Some d -> d = rev (nodes st) ++ disk.
Proof.
  induction st as [|c r IH]; intros disk d H; cbn in *.
  - inversion H. reflexivity.
  - destruct c as [n sz c0|n|n t| |]; try discriminate; cbn.
    + destruct (len c0 =? sz); [|discriminate]. rewrite (IH _ _ H), <- app_assoc. reflexivity.
    + rewrite (IH _ _ H), <- app_assoc. reflexivity.
    + destruct (mem n disk || negb (parent_exists root n disk)); [discriminate|].
      rewrite (IH _ _ H), <- app_assoc. reflexivity.
Qed.

(* the archive read to its end *)
Lemma read_whole root clean st : members st -> forall disk,
  read_tar root (st ++ footer) clean disk =
  match run root st disk with Some d => (true, d) | None => (false, snd (read_tar root (st ++ footer) clean disk)) end.
Proof.
  induction 1 as [|c r Hc Hr IH]; intro disk.
  - reflexivity.
  - destruct c as [n sz c0|n|n t| |]; try discriminate; cbn [app read_tar run].
    + destruct (len c0 =? sz); [apply IH|reflexivity].
    + apply IH.
    + rewrite sym_if. destruct (mem n disk || negb (parent_exists root n disk)); [reflexivity|apply IH].
Qed.

(* a hit on a truncated archive: the truncation kept everything, and everything was unpacked *)
Lemma read_cut_hit root st : members st -> forall k disk d,
  read_tar root (cut k (st ++ footer)) false disk = (true, d) ->
  bytes (st ++ footer) <= k /\ run root st disk = Some d.
Proof.
  induction 1 as [|c r Hc Hr IH]; intros k disk d H.
  - cbn [app footer cut] in H. cbn [app footer bytes fold_right chunk_bytes].
    destruct (N.eqb_spec k 0) as [->|K0]; [cbn in H; discriminate|].
    destruct (N.ltb_spec k 512) as [K1|K1]; [cbn in H; discriminate|].
    destruct (N.eqb_spec (k - 512) 0) as [E|K2]; [cbn in H; discriminate|].
    destruct (N.ltb_spec (k - 512) 512) as [K3|K3]; [cbn in H; discriminate|].
    cbn in H. inversion H. subst d. split; [lia|reflexivity].
  - cbn [app] in H |- *. cbn [bytes fold_right]. fold (bytes (r ++ footer)).
    destruct c as [n sz c0|n|n t| |]; try discriminate; cbn [cut] in H; cbn [chunk_bytes run].
    + destruct (N.eqb_spec k 0) as [->|K0]; [cbn in H; discriminate|].
      destruct (N.ltb_spec k 512) as [K1|K1]; [cbn in H; discriminate|].
      destruct (N.leb_spec (512 + pad512 sz) k) as [K2|K2].
      * cbn [read_tar] in H. destruct (len c0 =? sz); [|cbn in H; discriminate].
        destruct (IH _ _ _ H) as [B R]. split; [lia|exact R].
      * cbn [read_tar] in H. destruct (len (take (k - 512) c0) =? sz); cbn in H; discriminate.
    + destruct (N.eqb_spec k 0) as [->|K0]; [cbn in H; discriminate|].
      destruct (N.ltb_spec k 512) as [K1|K1]; [cbn in H; discriminate|].
      cbn [read_tar] in H. destruct (IH _ _ _ H) as [B R]. split; [lia|exact R].
    + destruct (N.eqb_spec k 0) as [->|K0]; [cbn in H; discriminate|].
      destruct (N.ltb_spec k 512) as [K1|K1]; [cbn in H; discriminate|].
      cbn [read_tar] in H. rewrite sym_if in H. destruct (mem n disk || negb (parent_exists root n disk)); [cbn in H; discriminate|].
      destruct (IH _ _ _ H) as [B R]. split; [lia|exact R].
Qed.

(* without the end-of-archive marker, a reader that ends with an error never reports a hit *)
Lemma read_cut_nofooter root st : members st -> forall k disk,
  fst (read_tar root (cut k st) false disk) = false.
Proof.
  induction 1 as [|c r Hc Hr IH]; intros k disk.
  - reflexivity.
  - destruct c as [n sz c0|n|n t| |]; try discriminate; cbn [cut].
    + destruct (k =? 0); [reflexivity|]. destruct (k <? 512); [reflexivity|].
      destruct (512 + pad512 sz <=? k); cbn [read_tar].
      * destruct (len c0 =? sz); [apply IH|reflexivity].
      * destruct (len (take (k - 512) c0) =? sz); reflexivity.
    + destruct (k =? 0); [reflexivity|]. destruct (k <? 512); [reflexivity|]. cbn [read_tar]. apply IH.
    + destruct (k =? 0); [reflexivity|]. destruct (k <? 512); [reflexivity|]. cbn [read_tar]. rewrite sym_if.
      destruct (mem n disk || negb (parent_exists root n disk)); [reflexivity|apply IH].
Qed.

(* cutting twice is cutting once *)
Lemma take_take k k' (d : str) : take k' (take k d) = take (N.min k k') d.
Proof.
  unfold take. rewrite firstn_firstn. f_equal. lia.
Qed.

Lemma cut_0 st : cut 0 st = [].
Proof. destruct st; reflexivity. Qed.

Lemma cut_cut st : forall k k', cut k' (cut k st) = cut (N.min k k') st.
Proof.
  induction st as [|c r IH]; intros k k'; [reflexivity|].
  destruct (N.eqb_spec k' 0) as [->|K0'].
  { rewrite N.min_0_r, !cut_0. reflexivity. }
  destruct (N.eqb_spec k 0) as [->|K0].
  { rewrite N.min_0_l, !cut_0. reflexivity. }
  cbn [cut].
  destruct (N.eqb_spec k 0) as [?|_]; [contradiction|].
  destruct (N.eqb_spec (N.min k k') 0) as [E|_]; [lia|].
  destruct c as [n sz c0|n|n t| |].
  - destruct (N.ltb_spec k 512) as [K1|K1].
    + destruct (N.ltb_spec (N.min k k') 512) as [_|?]; [|lia]. cbn [cut].
      destruct (N.eqb_spec k' 0); [contradiction|reflexivity].
    + destruct (N.leb_spec (512 + pad512 sz) k) as [K2|K2].
      * cbn [cut]. destruct (N.eqb_spec k' 0); [contradiction|].
        destruct (N.ltb_spec k' 512) as [K3|K3].
        { destruct (N.ltb_spec (N.min k k') 512) as [_|?]; [reflexivity|lia]. }
        destruct (N.ltb_spec (N.min k k') 512) as [?|_]; [lia|].
        destruct (N.leb_spec (512 + pad512 sz) k') as [K4|K4].
        { destruct (N.leb_spec (512 + pad512 sz) (N.min k k')) as [_|?]; [|lia].
          rewrite IH. replace (N.min k k' - (512 + pad512 sz)) with (N.min (k - (512 + pad512 sz)) (k' - (512 + pad512 sz))) by lia. reflexivity. }
        destruct (N.leb_spec (512 + pad512 sz) (N.min k k')) as [?|_]; [lia|].
        replace (N.min k k') with k' by lia. reflexivity.
      * cbn [cut]. destruct (N.eqb_spec k' 0); [contradiction|].
        destruct (N.leb_spec (512 + pad512 sz) (N.min k k')) as [?|_]; [lia|].
        destruct (N.ltb_spec k' 512) as [K3|K3].
        { destruct (N.ltb_spec (N.min k k') 512) as [_|?]; [reflexivity|lia]. }
        destruct (N.ltb_spec (N.min k k') 512) as [?|_]; [lia|].
        destruct (N.leb_spec (512 + pad512 sz) k') as [K4|K4].
        { cbn [cut]. replace (N.min k k') with k by lia. reflexivity. }
        rewrite take_take. replace (N.min k k' - 512) with (N.min (k - 512) (k' - 512)) by lia. reflexivity.
  - destruct (N.ltb_spec k 512) as [K1|K1].
    + destruct (N.ltb_spec (N.min k k') 512) as [_|?]; [|lia]. cbn [cut].
      destruct (N.eqb_spec k' 0); [contradiction|reflexivity].
    + cbn [cut]. destruct (N.eqb_spec k' 0); [contradiction|].
      destruct (N.ltb_spec k' 512) as [K3|K3].
      { destruct (N.ltb_spec (N.min k k') 512) as [_|?]; [reflexivity|lia]. }
      destruct (N.ltb_spec (N.min k k') 512) as [?|_]; [lia|].
      rewrite IH. replace (N.min k k' - 512) with (N.min (k - 512) (k' - 512)) by lia. reflexivity.
  - destruct (N.ltb_spec k 512) as [K1|K1].
    + destruct (N.ltb_spec (N.min k k') 512) as [_|?]; [|lia]. cbn [cut].
      destruct (N.eqb_spec k' 0); [contradiction|reflexivity].
    + cbn [cut]. destruct (N.eqb_spec k' 0); [contradiction|].
      destruct (N.ltb_spec k' 512) as [K3|K3].
      { destruct (N.ltb_spec (N.min k k') 512) as [_|?]; [reflexivity|lia]. }
      destruct (N.ltb_spec (N.min k k') 512) as [?|_]; [lia|].
      rewrite IH. replace (N.min k k' - 512) with (N.min (k - 512) (k' - 512)) by lia. reflexivity.
  - destruct (N.ltb_spec k 512) as [K1|K1].
    + destruct (N.ltb_spec (N.min k k') 512) as [_|?]; [|lia]. cbn [cut].
      destruct (N.eqb_spec k' 0); [contradiction|reflexivity].
    + cbn [cut]. destruct (N.eqb_spec k' 0); [contradiction|].
      destruct (N.ltb_spec k' 512) as [K3|K3].
      { destruct (N.ltb_spec (N.min k k') 512) as [_|?]; [reflexivity|lia]. }
      destruct (N.ltb_spec (N.min k k') 512) as [?|_]; [lia|].
      rewrite IH. replace (N.min k k' - 512) with (N.min (k - 512) (k' - 512)) by lia. reflexivity.
  - cbn [cut]. destruct (N.eqb_spec k' 0); [contradiction|reflexivity].
Qed.

(* cutting at or beyond the end changes nothing *)
Lemma cut_all st : forall k, members st -> bytes (st ++ footer) <= k -> cut k (st ++ footer) = st ++ footer.
Proof.
  intros k Hm. revert k. induction Hm as [|c r Hc Hr IH]; intros k Hk.
  - cbn in Hk. cbn [app footer cut].
    destruct (N.eqb_spec k 0); [lia|]. destruct (N.ltb_spec k 512); [lia|].
    destruct (N.eqb_spec (k - 512) 0); [lia|]. destruct (N.ltb_spec (k - 512) 512); [lia|].
    cbn. destruct (k - 512 - 512 =? 0); reflexivity.
  - cbn [app] in *. cbn [bytes fold_right] in Hk. fold (bytes (r ++ footer)) in Hk.
    destruct c as [n sz c0|n|n t| |]; try discriminate; cbn [cut chunk_bytes] in *.
    + destruct (N.eqb_spec k 0); [lia|]. destruct (N.ltb_spec k 512); [lia|].
      destruct (N.leb_spec (512 + pad512 sz) k); [|lia]. rewrite IH; [reflexivity|lia].
    + destruct (N.eqb_spec k 0); [lia|]. destruct (N.ltb_spec k 512); [lia|]. rewrite IH; [reflexivity|lia].
    + destruct (N.eqb_spec k 0); [lia|]. destruct (N.ltb_spec k 512); [lia|]. rewrite IH; [reflexivity|lia].
Qed.

(* ---- lookups in the output directory ---- *)

Lemma lookup_app_in n (a b : fs) : In n (map fst a) -> lookup n (a ++ b) = lookup n a.
Proof.
  induction a as [|[k v] a IH]; cbn; [tauto|].
  intros [->|H].
  - rewrite str_eqb_refl. reflexivity.
  - destruct (str_eqb n k); [reflexivity|apply IH; exact H].
Qed.

Lemma lookup_nodup n nd (a : fs) : NoDup (map fst a) -> In (n, nd) a -> lookup n a = Some nd.
Proof.
  induction a as [|[k v] a IH]; cbn; [tauto|].
  intros Hnd [E|H].
  - inversion E. subst. rewrite str_eqb_refl. reflexivity.
  - inversion Hnd as [|? ? Hnot Hnd']. subst.
    destruct (str_eqb_spec n k) as [->|_].
    + exfalso. apply Hnot. apply (in_map fst) in H. exact H.
    + apply IH; assumption.
Qed.

Lemma run_restores root st disk d :
  run root st disk = Some d -> NoDup (map fst (nodes st)) ->
  forall n nd, In (n, nd) (nodes st) -> lookup n d = Some nd.
Proof.
  intros R Hnd n nd Hin. rewrite (run_disk _ _ _ _ R).
  rewrite lookup_app_in.
  - apply lookup_nodup.
    + rewrite map_rev. apply NoDup_rev. exact Hnd.
    + apply in_rev in Hin. exact Hin.
  - rewrite map_rev. apply -> in_rev. apply (in_map fst) in Hin. exact Hin.
Qed.

(* ------------------------------------------------------------------------------------------
   HTTP cache *)

Lemma http_body_spec files :
  match http_body files with
  | Some b => all_healthy files = true /\ exists st, b = st ++ footer /\ good st /\ nodes st = all_expected files
  | None => all_healthy files = false
  end.
Proof.
  unfold http_body. pose proof (write_spec files) as H. destruct (write files) as [st ok].
  destruct H as (Hok & Hm & Hg). destruct ok.
  - destruct (Hg eq_refl) as [G1 G2]. split; [symmetry; exact Hok|]. exists st. auto.
  - rewrite gen_http_fault. symmetry. exact Hok.
Qed.

Theorem http_failed_store_leaves_nothing files server put_ok :
  all_healthy files && put_ok = false -> http_store server files put_ok = server.
Proof.
  intro H. unfold http_store. pose proof (http_body_spec files) as B.
  destruct (http_body files) as [b|]; [|reflexivity].
  destruct B as [Hh _]. rewrite Hh in H. cbn in H. rewrite H. reflexivity.
Qed.

Theorem http_all_or_nothing root files :
  NoDup (map fst (all_expected files)) ->
  forall put_ok g, safe files (http_retrieve root (http_store None files put_ok) g []).
Proof.
  intros Hnd put_ok g. unfold safe, http_store. pose proof (http_body_spec files) as B.
  destruct (http_body files) as [b|]; [|left; reflexivity].
  destruct put_ok; [|left; reflexivity].
  destruct B as (Hh & st & -> & Hg & Hn). cbn [http_retrieve].
  destruct g as [| |k].
  - rewrite (read_whole root true st (good_members _ Hg)).
    destruct (run root st []) as [d|] eqn:R; [|left; reflexivity].
    right. split; [exact Hh|]. intros n nd Hin. cbn [snd].
    apply (run_restores root st [] d R); rewrite Hn; assumption.
  - left. reflexivity.
  - destruct (read_tar root (cut k (st ++ footer)) false []) as [[|] d] eqn:R; [|left; reflexivity].
    right. split; [exact Hh|]. intros n nd Hin. cbn [snd].
    destruct (read_cut_hit root st (good_members _ Hg) _ _ _ R) as [_ R'].
    apply (run_restores root st [] d R'); rewrite Hn; assumption.
Qed.

Theorem http_short_response_is_miss root files b k :
  http_store None files true = Some b -> k < bytes b ->
  fst (http_retrieve root (Some b) (GetCut k) []) = false.
Proof.
  intros Hs Hk. unfold http_store in Hs. pose proof (http_body_spec files) as B.
  destruct (http_body files) as [b'|]; [|discriminate]. inversion Hs. subst b'.
  destruct B as (_ & st & -> & Hg & _). cbn [http_retrieve].
  destruct (read_tar root (cut k (st ++ footer)) false []) as [[|] d] eqn:R; [|reflexivity].
  destruct (read_cut_hit root st (good_members _ Hg) _ _ _ R) as [B _]. lia.
Qed.

Theorem http_bad_status_is_miss root sv : fst (http_retrieve root sv GetStatus []) = false.
Proof. destruct sv; reflexivity. Qed.

(* ------------------------------------------------------------------------------------------
   command cache *)

Lemma cmd_sent_spec files :
  (all_healthy files = true /\ exists st, cmd_sent files = st ++ footer /\ good st /\ nodes st = all_expected files)
  \/ (all_healthy files = false /\ at_boundary (fst (write files)) = true /\
      exists st, cmd_sent files = st ++ footer /\ members st)
  \/ (all_healthy files = false /\ at_boundary (fst (write files)) = false /\ members (cmd_sent files)).
Proof.
  unfold cmd_sent. pose proof (write_spec files) as H. destruct (write files) as [st ok].
  destruct H as (Hok & Hm & Hg). rewrite gen_cmd_tar_close. cbn [fst andb].
  destruct ok.
  - left. destruct (Hg eq_refl) as [G1 G2]. rewrite (good_at_boundary _ G1).
    split; [symmetry; exact Hok|]. exists st. auto.
  - right. destruct (at_boundary st) eqn:A.
    + left. split; [symmetry; exact Hok|]. split; [reflexivity|]. exists st. auto.
    + right. split; [symmetry; exact Hok|]. split; [reflexivity|exact Hm].
Qed.

Lemma cmd_reader root store rcut exit_ok :
  cmd_retrieve root store rcut exit_ok [] =
  match store with
  | None => (false, [])
  | Some b => let '(t, d) := read_tar root (match rcut with None => b | Some k => cut k b end) false [] in
              (t && exit_ok, d)
  end.
Proof. unfold cmd_retrieve. rewrite gen_cmd_closes, gen_cmd_and. reflexivity. Qed.

(* the stream the tar reader of Retrieve sees is one cut of what the store command was sent *)
Lemma cmd_view files k rcut :
  exists k', (match rcut with None => cut k (cmd_sent files) | Some j => cut j (cut k (cmd_sent files)) end)
             = cut k' (cmd_sent files)
             /\ k' <= k /\ (match rcut with Some j => k' <= j | None => True end).
Proof.
  destruct rcut as [j|].
  - exists (N.min k j). rewrite cut_cut. split; [reflexivity|]. split; lia.
  - exists k. split; [reflexivity|]. split; [lia|exact I].
Qed.

Theorem cmd_all_or_nothing_but_defect root files :
  NoDup (map fst (all_expected files)) ->
  forall commit rcut exit_ok, cmd_defect files commit = false ->
  safe files (cmd_retrieve root (cmd_store None files commit) rcut exit_ok []).
Proof.
  intros Hnd commit rcut exit_ok Hdef. unfold safe. rewrite cmd_reader. unfold cmd_store.
  destruct commit as [k|]; [|left; reflexivity].
  destruct (cmd_view files k rcut) as (k' & -> & Hk' & _).
  destruct (read_tar root (cut k' (cmd_sent files)) false []) as [[|] d] eqn:R; [|left; reflexivity].
  destruct (cmd_sent_spec files) as [(Hh & st & E & Hg & Hn)|[(Hh & Hb & st & E & Hm)|(Hh & Hb & Hm)]].
  - rewrite E in R. destruct (read_cut_hit root st (good_members _ Hg) _ _ _ R) as [_ R'].
    destruct exit_ok; [|left; reflexivity]. right. split; [exact Hh|].
    intros n nd Hin. cbn [snd]. apply (run_restores root st [] d R'); rewrite Hn; assumption.
  - (* an output could not be read, the stream was finished with the marker: only a store
       command that kept all of it gives a hit, and that is the excluded defect *)
    exfalso. unfold cmd_defect in Hdef. rewrite Hh, Hb in Hdef. cbn in Hdef.
    rewrite E in R. destruct (read_cut_hit root st Hm _ _ _ R) as [B _].
    rewrite <- E in B. apply N.leb_gt in Hdef. lia.
  - pose proof (read_cut_nofooter root _ Hm k' []) as F. rewrite R in F. discriminate.
Qed.

(* a store command that keeps nothing when Please kills it (the store is cancelled whenever an
   output cannot be read) is always safe *)
Theorem cmd_atomic_store_command_safe root files :
  NoDup (map fst (all_expected files)) ->
  forall commit rcut exit_ok, (all_healthy files = false -> commit = None) ->
  safe files (cmd_retrieve root (cmd_store None files commit) rcut exit_ok []).
Proof.
  intros Hnd commit rcut exit_ok Hat. apply cmd_all_or_nothing_but_defect; [exact Hnd|].
  unfold cmd_defect. destruct (all_healthy files); [reflexivity|].
  rewrite (Hat eq_refl). cbn. apply andb_false_r.
Qed.

Theorem cmd_failed_command_is_miss root sv rcut : fst (cmd_retrieve root sv rcut false []) = false.
Proof.
  rewrite cmd_reader. destruct sv as [b|]; [|reflexivity].
  destruct (read_tar root _ false []) as [t d]. cbn. apply andb_false_r.
Qed.

Theorem cmd_short_output_is_miss root files commit b k :
  cmd_store None files commit = Some b -> k < bytes (cmd_sent files) ->
  fst (cmd_retrieve root (Some b) (Some k) true []) = false.
Proof.
  intros Hs Hk. rewrite cmd_reader. unfold cmd_store in Hs. destruct commit as [kc|]; [|discriminate].
  inversion Hs. subst b. rewrite cut_cut.
  destruct (read_tar root (cut (N.min kc k) (cmd_sent files)) false []) as [[|] d] eqn:R; [|reflexivity].
  exfalso.
  destruct (cmd_sent_spec files) as [(Hh & st & E & Hg & Hn)|[(Hh & Hb & st & E & Hm)|(Hh & Hb & Hm)]].
  - rewrite E in R, Hk. destruct (read_cut_hit root st (good_members _ Hg) _ _ _ R) as [B _]. lia.
  - rewrite E in R, Hk. destruct (read_cut_hit root st Hm _ _ _ R) as [B _]. lia.
  - pose proof (read_cut_nofooter root _ Hm (N.min kc k) []) as F. rewrite R in F. discriminate.
Qed.

(* ------------------------------------------------------------------------------------------
   what a retrieve that fails leaves in the output directory: the members of a prefix of the
   stream it received, each complete, and possibly a short copy of the next regular file *)
Theorem read_tar_leftover root st : forall clean disk,
  exists pre rest, st = pre ++ rest /\
    (snd (read_tar root st clean disk) = rev (nodes pre) ++ disk
     \/ exists n sz c rest', rest = CReg n sz c :: rest' /\ len c <> sz /\
          snd (read_tar root st clean disk) = (n, NFile c) :: rev (nodes pre) ++ disk).
Proof.
  induction st as [|c r IH]; intros clean disk.
  - exists [], []. split; [reflexivity|left; reflexivity].
  - destruct c as [n sz c0|n|n t| |].
    + cbn [read_tar]. destruct (N.eqb_spec (len c0) sz) as [E|E].
      * destruct (IH clean ((n, NFile c0) :: disk)) as (pre & rest & -> & H).
        exists (CReg n sz c0 :: pre), rest. split; [reflexivity|]. cbn [nodes node_of rev].
        rewrite <- app_assoc. exact H.
      * exists [], (CReg n sz c0 :: r). split; [reflexivity|]. right. exists n, sz, c0, r. auto.
    + cbn [read_tar]. destruct (IH clean ((n, NDir) :: disk)) as (pre & rest & -> & H).
      exists (CDir n :: pre), rest. split; [reflexivity|]. cbn [nodes node_of rev].
      rewrite <- app_assoc. exact H.
    + cbn [read_tar]. rewrite sym_if. destruct (mem n disk || negb (parent_exists root n disk)).
      * exists [], (CSym n t :: r). split; [reflexivity|left; reflexivity].
      * destruct (IH clean ((n, NLink t) :: disk)) as (pre & rest & -> & H).
        exists (CSym n t :: pre), rest. split; [reflexivity|]. cbn [nodes node_of rev].
        rewrite <- app_assoc. exact H.
    + exists [], (CZero :: r). split; [reflexivity|]. left. cbn [read_tar].
      destruct r as [|[]]; reflexivity.
    + exists [], (CPartial :: r). split; [reflexivity|left; reflexivity].
Qed.

(* the stream received through a transfer cut after k bytes: a prefix of the members sent, then
   nothing, or part of a block, or the next regular file with part of its content *)
Theorem cut_shape st : forall k,
  exists pre rest, st = pre ++ rest /\
    (cut k st = pre \/ cut k st = pre ++ [CPartial]
     \/ exists n sz c rest' j, rest = CReg n sz c :: rest' /\ cut k st = pre ++ [CReg n sz (take j c)]).
Proof.
  induction st as [|c r IH]; intro k.
  - exists [], []. split; [reflexivity|left; reflexivity].
  - cbn [cut]. destruct (k =? 0).
    { exists [], (c :: r). split; [reflexivity|left; reflexivity]. }
    destruct c as [n sz c0|n|n t| |].
    + destruct (k <? 512).
      { exists [], (CReg n sz c0 :: r). split; [reflexivity|right; left; reflexivity]. }
      destruct (512 + pad512 sz <=? k).
      * destruct (IH (k - (512 + pad512 sz))) as (pre & rest & -> & H).
        exists (CReg n sz c0 :: pre), rest. split; [reflexivity|].
        destruct H as [->|[->|(n' & sz' & c' & rest' & j & -> & ->)]]; [left|right; left|right; right]; try reflexivity.
        exists n', sz', c', rest', j. split; reflexivity.
      * exists [], (CReg n sz c0 :: r). split; [reflexivity|]. right. right.
        exists n, sz, c0, r, (k - 512). split; reflexivity.
    + destruct (k <? 512).
      { exists [], (CDir n :: r). split; [reflexivity|right; left; reflexivity]. }
      destruct (IH (k - 512)) as (pre & rest & -> & H).
      exists (CDir n :: pre), rest. split; [reflexivity|].
      destruct H as [->|[->|(n' & sz' & c' & rest' & j & -> & ->)]]; [left|right; left|right; right]; try reflexivity.
      exists n', sz', c', rest', j. split; reflexivity.
    + destruct (k <? 512).
      { exists [], (CSym n t :: r). split; [reflexivity|right; left; reflexivity]. }
      destruct (IH (k - 512)) as (pre & rest & -> & H).
      exists (CSym n t :: pre), rest. split; [reflexivity|].
      destruct H as [->|[->|(n' & sz' & c' & rest' & j & -> & ->)]]; [left|right; left|right; right]; try reflexivity.
      exists n', sz', c', rest', j. split; reflexivity.
    + destruct (k <? 512).
      { exists [], (CZero :: r). split; [reflexivity|right; left; reflexivity]. }
      destruct (IH (k - 512)) as (pre & rest & -> & H).
      exists (CZero :: pre), rest. split; [reflexivity|].
      destruct H as [->|[->|(n' & sz' & c' & rest' & j & -> & ->)]]; [left|right; left|right; right]; try reflexivity.
      exists n', sz', c', rest', j. split; reflexivity.
    + exists [], (CPartial :: r). split; [reflexivity|right; left; reflexivity].
Qed.

(* ------------------------------------------------------------------------------------------
   the refutation: the command cache finishes the archive after a read error *)
Definition witness_files : list tree :=
  [TFile (s "o/a.txt") (s "a"); TMissing (s "o/b.txt"); TFile (s "o/c.txt") (s "c")].

Lemma cmd_witness :
  let r := cmd_retrieve (s "o") (cmd_store None witness_files (Some 2048)) None true [] in
  fst r = true /\ all_healthy witness_files = false /\ lookup (s "o/c.txt") (snd r) = None
  /\ NoDup (map fst (all_expected witness_files)).
Proof.
  vm_compute. repeat split; try reflexivity.
  repeat constructor; cbn; intuition discriminate.
Qed.
