(* C17 - what the evaluator does to the control part of the state: it preserves the current file scope, the
   number of local scopes and the subinclude cache, and it writes no file scope other than the current one -
   and that one only when no local scope is open (i.e. at the top level of a BUILD file).  No hypothesis on
   the heap is needed; the only hypothesis is that every subincludable file is already cached. *)
From Coq Require Import String Lia.
From PlzV Require Import Base.Harness Gen.AspTables Model.C16_Syntax Model.C16_Ops Model.C16_Prim Model.C16_Eval.
From PlzV Require Import Proof.C17_Inv Proof.C17_Ops.
Local Open Scope list_scope.
Local Open Scope nat_scope.

#[local] Arguments chain : simpl never.
#[local] Arguments is_const : simpl never.
#[local] Arguments const_alloc : simpl never.
#[local] Arguments native : simpl never.
#[local] Arguments native_method : simpl never.
#[local] Arguments native_sig : simpl never.
#[local] Arguments method_sig : simpl never.
#[local] Arguments validate : simpl never.
#[local] Arguments apply_bin : simpl never.
#[local] Arguments vindex : simpl never.
#[local] Arguments vslice : simpl never.
#[local] Arguments vindex_assign : simpl never.
#[local] Arguments unpack_names : simpl never.
#[local] Arguments iter_items : simpl never.
#[local] Arguments new_list : simpl never.
#[local] Arguments alloc_list : simpl never.
#[local] Arguments alloc_dict : simpl never.
#[local] Arguments lookup : simpl never.
#[local] Arguments set_var : simpl never.
#[local] Arguments truthy : simpl never.
#[local] Arguments strict_list : simpl never.
#[local] Arguments str_eqb : simpl never.
#[local] Arguments existsb : simpl never.
#[local] Arguments assoc_get : simpl never.
#[local] Arguments find_def : simpl never.
#[local] Arguments opt_stmts : simpl never.
#[local] Arguments drop_pass : simpl never.
#[local] Arguments freeze_env : simpl never.
#[local] Arguments mapM : simpl never.
#[local] Arguments mapR : simpl never.
#[local] Arguments rbind : simpl never.
#[local] Arguments s : simpl never.
#[local] Arguments str_methods : simpl never.
#[local] Arguments dict_methods : simpl never.
#[local] Arguments Nat.ltb : simpl never.
#[local] Arguments Nat.leb : simpl never.
#[local] Arguments nth : simpl never.
#[local] Arguments fold_left : simpl never.
#[local] Arguments combine : simpl never.
#[local] Arguments map : simpl never.
#[local] Arguments length : simpl never.
#[local] Arguments env_get : simpl never.
#[local] Arguments tl : simpl never.


(* ---------------------------------------------------------------- relations on states as postconditions *)
Definition tpost (T : state -> state -> Prop) (st : state) {A} : A -> state -> Prop := fun _ st' => T st st'.

Section Rel.
  Variable T : state -> state -> Prop.
  Hypothesis T_refl : forall st, T st st.
  Hypothesis T_trans : forall a b c, T a b -> T b c -> T a c.

  Lemma t_ret : forall {A} st (a : A), post (tpost T st) (Ok (a, st)).
  Proof. intros. cbn. apply T_refl. Qed.

  Lemma t_bind : forall {A B} st (m : res (A * state)) (k : A * state -> res (B * state)),
    post (tpost T st) m -> (forall a st1, T st st1 -> post (tpost T st1) (k (a, st1))) -> post (tpost T st) (rbind m k).
  Proof.
    intros A B st m k Hm Hk. eapply post_bind; [exact Hm|]. intros a st1 H1. eapply post_weaken; [apply Hk; exact H1|].
    intros b st2 H2. unfold tpost in *. eapply T_trans; eauto.
  Qed.

  Lemma t_step : forall {A} st st1 (r : res (A * state)), T st st1 -> post (tpost T st1) r -> post (tpost T st) r.
  Proof. intros A st st1 r H Hr. eapply post_weaken; [exact Hr|]. intros a st2 H2. unfold tpost in *. eapply T_trans; eauto. Qed.

  Lemma t_mapM : forall {A B} (g : A -> state -> res (B * state)) l st,
    (forall x st0, post (tpost T st0) (g x st0)) -> post (tpost T st) (mapM g l st).
  Proof.
    intros A B g. induction l as [|x r IH]; intros st Hg; cbn [mapM]; [apply t_ret|].
    eapply t_bind; [apply Hg|]. intros y st1 H1. cbv beta match.
    eapply t_bind; [apply IH; exact Hg|]. intros ys st2 H2. cbv beta match. apply t_ret.
  Qed.
End Rel.

Lemma tpost_weaken : forall (T T' : state -> state -> Prop) {A} st (r : res (A * state)),
  (forall a b, T a b -> T' a b) -> post (tpost T st) r -> post (tpost T' st) r.
Proof. intros T T' A st r H Hr. eapply post_weaken; [exact Hr|]. intros a st' Ht. apply H. exact Ht. Qed.

(* ---------------------------------------------------------------- heap-only steps *)
Definition heap_only (st st' : state) : Prop :=
  cur st' = cur st /\ locals st' = locals st /\ fscopes st' = fscopes st /\ subcache st' = subcache st.

Lemma ho_refl : forall st, heap_only st st.
Proof. intros. repeat split. Qed.
Lemma ho_trans : forall a b c, heap_only a b -> heap_only b c -> heap_only a c.
Proof. intros a b c (A1 & A2 & A3 & A4) (B1 & B2 & B3 & B4). repeat split; congruence. Qed.

Ltac ho_leaf :=
  first
    [ exact I
    | match goal with |- post (tpost heap_only _) _ =>
        unfold new_list, alloc_list, list_add, alloc_dict, arr_write, dict_store;
        cbn [post]; unfold tpost, heap_only;
        cbn [cur locals fscopes subcache set_arrays set_dicts]; repeat split; reflexivity
      end ].

Lemma bool_of_ho : forall st (r : res bool) neg, post (tpost heap_only st) (rbind r (fun x => Ok (VBool (xorb neg x), st))).
Proof. intros st r neg. destruct r; cbn; auto. apply ho_refl. Qed.

Lemma apply_bin_ho : forall fuel o a b st, post (tpost heap_only st) (apply_bin Asp fuel o a b st).
Proof.
  intros fuel o a b st. unfold apply_bin. cbv zeta.
  destruct o; cbv beta iota; try apply bool_of_ho; try exact I.
  all: destruct a; try exact I; try apply bool_of_ho; cbn [is_py].
  all: try (destruct b; try exact I; try apply bool_of_ho; cbn [is_py]).
  all: repeat first [ apply bool_of_ho | ho_leaf | post_step ].
Qed.

Lemma vslice_ho : forall st obj lo hi, post (tpost heap_only st) (vslice Asp st obj lo hi).
Proof. intros. unfold vslice. destruct obj; try exact I; repeat first [ho_leaf | post_step]. Qed.

Lemma const_alloc_ho : forall fuel e st, post (tpost heap_only st) (const_alloc fuel e st).
Proof.
  induction fuel as [|f IH]; intros e st; [exact I|]. destruct e as [v ops iff]. cbn [const_alloc].
  destruct v; try exact I; destruct ops; try exact I; destruct iff; try exact I; try ho_leaf.
  eapply (t_bind heap_only ho_trans); [apply (t_mapM heap_only ho_refl ho_trans); intros; apply IH|].
  intros vs st1 H1. cbv beta match. ho_leaf.
Qed.

Lemma native_ho : forall fuel n args st, post (tpost heap_only st) (native Asp fuel n args st).
Proof.
  intros fuel n args st. unfold native. cbv zeta.
  assert (Hm : forall {A} (g : A -> state -> value * state) l st0,
            (forall x s0, heap_only s0 (snd (g x s0))) ->
            post (tpost heap_only st0) (mapM (fun x s0 => Ok (g x s0)) l st0)).
  { intros A g l st0 Hg. apply (t_mapM heap_only ho_refl ho_trans). intros x s0. specialize (Hg x s0). destruct (g x s0). exact Hg. }
  assert (Hnl : forall items s0, heap_only s0 (snd (new_list items s0))).
  { intros. unfold new_list, alloc_list. cbn. repeat split. }
  destruct (str_eqb n (s "len")). { repeat first [ho_leaf | post_step]. }
  destruct (str_eqb n (s "str")). { repeat first [ho_leaf | post_step]. }
  destruct (str_eqb n (s "bool")). { ho_leaf. }
  destruct (str_eqb n (s "enumerate")).
  { apply post_bind_pure. intros l _. eapply (t_bind heap_only ho_trans); [apply Hm; intros; apply Hnl|].
    intros pairs st1 H1. cbv beta match. ho_leaf. }
  destruct (str_eqb n (s "zip")).
  { apply post_bind_pure. intros lsts _. destruct lsts; [exact I|]. destruct (forallb _ _); [|exact I].
    eapply (t_bind heap_only ho_trans); [apply Hm; intros; apply Hnl|]. intros rows st1 H1. cbv beta match. ho_leaf. }
  destruct (str_eqb n (s "any")). { repeat first [ho_leaf | post_step]. }
  destruct (str_eqb n (s "all")). { repeat first [ho_leaf | post_step]. }
  destruct (str_eqb n (s "reversed")). { repeat first [ho_leaf | post_step]. }
  destruct (str_eqb n (s "sorted")). { repeat first [ho_leaf | post_step]. }
  destruct (str_eqb n (s "min") || str_eqb n (s "max")). { repeat first [ho_leaf | post_step]. }
  destruct (str_eqb n (s "range")). { repeat first [ho_leaf | post_step]. }
  exact I.
Qed.

Lemma native_method_ho : forall fuel n args st, post (tpost heap_only st) (native_method Asp fuel n args st).
Proof.
  intros fuel n args st. unfold native_method. cbv zeta.
  assert (Hnl : forall items s0, heap_only s0 (snd (new_list items s0))).
  { intros. unfold new_list, alloc_list. cbn. repeat split. }
  assert (Hd : forall kvs,
    post (tpost heap_only st)
      (rbind (mapM (fun (kv : str * value) st0 => Ok (new_list [VStr (fst kv); snd kv] st0)) kvs st)
             (fun '(pairs, st1) => Ok (new_list pairs st1)))).
  { intros kvs. eapply (t_bind heap_only ho_trans).
    - apply (t_mapM heap_only ho_refl ho_trans). intros kv s0. pose proof (Hnl [VStr (fst kv); snd kv] s0) as H.
      destruct (new_list _ s0). exact H.
    - intros pairs st1 H1. cbv beta match. ho_leaf. }
  destruct (nth 0 args VNone) as [ ? | self | ? | | ? | ? | | ? | ? | ? ? ? | ? | ? ]; try exact I.
  - repeat first [ho_leaf | post_step].
  - destruct (str_eqb n (s "get")). { repeat first [ho_leaf | post_step]. }
    destruct (str_eqb n (s "keys")). { ho_leaf. }
    destruct (str_eqb n (s "values")). { ho_leaf. }
    destruct (str_eqb n (s "items")); [apply Hd|exact I].
  - destruct (str_eqb n (s "get")). { repeat first [ho_leaf | post_step]. }
    destruct (str_eqb n (s "keys")). { ho_leaf. }
    destruct (str_eqb n (s "values")). { ho_leaf. }
    destruct (str_eqb n (s "items")); [apply Hd|exact I].
Qed.

(* ---------------------------------------------------------------- the control relation *)
Record sc (st st' : state) : Prop := mkSc {
  sc_cur : cur st' = cur st;
  sc_nloc : length (locals st') = length (locals st);
  sc_sub : subcache st' = subcache st;
  sc_fs : forall j, (locals st <> [] \/ j <> cur st) -> nth j (fscopes st') [] = nth j (fscopes st) []
}.

Lemma sc_refl : forall st, sc st st.
Proof. intros. constructor; auto. Qed.

Lemma sc_trans : forall a b c, sc a b -> sc b c -> sc a c.
Proof.
  intros a b c [A1 A2 A3 A4] [B1 B2 B3 B4]. constructor; try congruence.
  intros j Hj. rewrite B4, A4; auto. destruct Hj as [Hj|Hj]; [left|right; congruence].
  intros E. apply Hj. destruct (locals a); [reflexivity|]. rewrite E in A2. discriminate A2.
Qed.

Lemma ho_sc : forall a b, heap_only a b -> sc a b.
Proof. intros a b (H1 & H2 & H3 & H4). constructor; auto. - now rewrite H2. - intros. now rewrite H3. Qed.

Lemma set_var_sc : forall n v st, sc st (set_var n v st).
Proof.
  intros n v st. unfold set_var. destruct (locals st) as [|e r] eqn:E.
  - constructor; cbn [cur locals subcache fscopes set_fscopes]; auto.
    intros j [Hj|Hj]; [rewrite E in Hj; contradiction|]. apply nth_list_set_other. auto.
  - constructor; cbn [cur locals subcache fscopes set_locals]; auto. rewrite E. reflexivity.
Qed.

Lemma set_vars_sc : forall (kvs : env) st, sc st (fold_left (fun acc kv => set_var (fst kv) (snd kv) acc) kvs st).
Proof.
  induction kvs as [|[k v] r IH]; intros st; cbn [fold_left]; [apply sc_refl|].
  eapply sc_trans; [apply set_var_sc|apply IH].
Qed.

Lemma unpack_names_sc : forall names v st st', unpack_names Asp names v st = Ok st' -> sc st st'.
Proof.
  intros names v st st' H. unfold unpack_names in H. destruct names as [|n [|n2 r]].
  - destruct v; try discriminate H; inv_res H; apply Ok_inj in H; rewrite <- H; apply set_vars_sc.
  - apply Ok_inj in H. rewrite <- H. apply set_var_sc.
  - destruct v; try discriminate H; inv_res H; apply Ok_inj in H; rewrite <- H; apply set_vars_sc.
Qed.

Lemma vindex_assign_sc : forall st obj idx v st', vindex_assign Asp st obj idx v = Ok st' -> sc st st'.
Proof.
  intros st obj idx v st' H. apply ho_sc. unfold vindex_assign in H.
  destruct obj; try discriminate H; destruct idx; try discriminate H; inv_res H; apply Ok_inj in H; rewrite <- H;
    unfold arr_write, dict_store, heap_only; cbn; repeat split.
Qed.
