(* C17 - what the evaluator does to the control part of the state: it preserves the current file scope, the
   number of local scopes and the subinclude cache, and it writes no file scope other than the current one -
   and that one only when no local scope is open (i.e. at the top level of a BUILD file).  No hypothesis on
   the heap is needed; the only hypothesis is that every subincludable file is already cached. *)
From Coq Require Import String Lia.
From PlzV Require Import Base.Harness Gen.AspTables Model.C16_Syntax Model.C16_Ops Model.C16_Prim Model.C16_Eval.
From PlzV Require Import Proof.C17_Inv Proof.C17_Ops.
Local Open Scope list_scope.
Local Open Scope nat_scope.

#[local] Arguments chain : simpl never.
#[local] Arguments is_const : simpl never.
#[local] Arguments const_alloc : simpl never.
#[local] Arguments native : simpl never.
#[local] Arguments native_method : simpl never.
#[local] Arguments native_sig : simpl never.
#[local] Arguments method_sig : simpl never.
#[local] Arguments validate : simpl never.
#[local] Arguments apply_bin : simpl never.
#[local] Arguments vindex : simpl never.
#[local] Arguments vslice : simpl never.
#[local] Arguments vindex_assign : simpl never.
#[local] Arguments unpack_names : simpl never.
#[local] Arguments iter_items : simpl never.
#[local] Arguments new_list : simpl never.
#[local] Arguments alloc_list : simpl never.
#[local] Arguments alloc_dict : simpl never.
#[local] Arguments lookup : simpl never.
#[local] Arguments set_var : simpl never.
#[local] Arguments truthy : simpl never.
#[local] Arguments strict_list : simpl never.
#[local] Arguments str_eqb : simpl never.
#[local] Arguments existsb : simpl never.
#[local] Arguments assoc_get : simpl never.
#[local] Arguments find_def : simpl never.
#[local] Arguments opt_stmts : simpl never.
#[local] Arguments drop_pass : simpl never.
#[local] Arguments freeze_env : simpl never.
#[local] Arguments mapM : simpl never.
#[local] Arguments mapR : simpl never.
#[local] Arguments rbind : simpl never.
#[local] Arguments s : simpl never.
#[local] Arguments str_methods : simpl never.
#[local] Arguments dict_methods : simpl never.
#[local] Arguments Nat.ltb : simpl never.
#[local] Arguments Nat.leb : simpl never.
#[local] Arguments nth : simpl never.
#[local] Arguments fold_left : simpl never.
#[local] Arguments combine : simpl never.
#[local] Arguments map : simpl never.
#[local] Arguments length : simpl never.
#[local] Arguments env_get : simpl never.
#[local] Arguments tl : simpl never.


(* ---------------------------------------------------------------- relations on states as postconditions *)
Definition tpost (T : state -> state -> Prop) (st : state) {A} : A -> state -> Prop := fun _ st' => T st st'.

Section Rel.
  Variable T : state -> state -> Prop.
  Hypothesis T_refl : forall st, T st st.
  Hypothesis T_trans : forall a b c, T a b -> T b c -> T a c.

  Lemma t_ret : forall {A} st (a : A), post (tpost T st) (Ok (a, st)).
  Proof. intros. cbn. apply T_refl. Qed.

  Lemma t_bind : forall {A B} st (m : res (A * state)) (k : A * state -> res (B * state)),
    post (tpost T st) m -> (forall a st1, T st st1 -> post (tpost T st1) (k (a, st1))) -> post (tpost T st) (rbind m k).
  Proof.
    intros A B st m k Hm Hk. eapply post_bind; [exact Hm|]. intros a st1 H1. eapply post_weaken; [apply Hk; exact H1|].
    intros b st2 H2. unfold tpost in *. eapply T_trans; eauto.
  Qed.

  Lemma t_step : forall {A} st st1 (r : res (A * state)), T st st1 -> post (tpost T st1) r -> post (tpost T st) r.
  Proof. intros A st st1 r H Hr. eapply post_weaken; [exact Hr|]. intros a st2 H2. unfold tpost in *. eapply T_trans; eauto. Qed.

  Lemma t_mapM : forall {A B} (g : A -> state -> res (B * state)) l st,
    (forall x st0, post (tpost T st0) (g x st0)) -> post (tpost T st) (mapM g l st).
  Proof.
    intros A B g. induction l as [|x r IH]; intros st Hg; cbn [mapM]; [apply t_ret|].
    eapply t_bind; [apply Hg|]. intros y st1 H1. cbv beta match.
    eapply t_bind; [apply IH; exact Hg|]. intros ys st2 H2. cbv beta match. apply t_ret.
  Qed.
End Rel.

Lemma tpost_weaken : forall (T T' : state -> state -> Prop) {A} st (r : res (A * state)),
  (forall a b, T a b -> T' a b) -> post (tpost T st) r -> post (tpost T' st) r.
Proof. intros T T' A st r H Hr. eapply post_weaken; [exact Hr|]. intros a st' Ht. apply H. exact Ht. Qed.

(* ---------------------------------------------------------------- heap-only steps *)
Definition heap_only (st st' : state) : Prop :=
  cur st' = cur st /\ locals st' = locals st /\ fscopes st' = fscopes st /\ subcache st' = subcache st.

Lemma ho_refl : forall st, heap_only st st.
Proof. intros. repeat split. Qed.
Lemma ho_trans : forall a b c, heap_only a b -> heap_only b c -> heap_only a c.
Proof. intros a b c (A1 & A2 & A3 & A4) (B1 & B2 & B3 & B4). repeat split; congruence. Qed.

Ltac ho_leaf :=
  first
    [ exact I
    | match goal with |- post (tpost heap_only _) _ =>
        unfold new_list, alloc_list, list_add, alloc_dict, arr_write, dict_store;
        cbn [post]; unfold tpost, heap_only;
        cbn [cur locals fscopes subcache set_arrays set_dicts]; repeat split; reflexivity
      end ].

Lemma bool_of_ho : forall st (r : res bool) neg, post (tpost heap_only st) (rbind r (fun x => Ok (VBool (xorb neg x), st))).
Proof. intros st r neg. unfold rbind. destruct r; [apply ho_refl|exact I|exact I]. Qed.

Lemma apply_bin_ho : forall fuel o a b st, post (tpost heap_only st) (apply_bin Asp fuel o a b st).
Proof.
  intros fuel o a b st. unfold apply_bin. cbv zeta.
  destruct o; cbv beta iota; try apply bool_of_ho; try exact I.
  all: destruct a; try exact I; try apply bool_of_ho; cbn [is_py].
  all: try (destruct b; try exact I; try apply bool_of_ho; cbn [is_py]).
  all: repeat first [ apply bool_of_ho | ho_leaf | post_step ].
Qed.

Lemma vslice_ho : forall st obj lo hi, post (tpost heap_only st) (vslice Asp st obj lo hi).
Proof. intros. unfold vslice. destruct obj; try exact I; repeat first [ho_leaf | post_step]. Qed.

Lemma const_alloc_ho : forall fuel e st, post (tpost heap_only st) (const_alloc fuel e st).
Proof.
  induction fuel as [|f IH]; intros e st; [exact I|]. destruct e as [v ops iff]. cbn [const_alloc].
  destruct v; try exact I; destruct ops; try exact I; destruct iff; try exact I; try ho_leaf.
  eapply (t_bind heap_only ho_trans); [apply (t_mapM heap_only ho_refl ho_trans); intros; apply IH|].
  intros vs st1 H1. cbv beta match. ho_leaf.
Qed.

Lemma native_ho : forall fuel n args st, post (tpost heap_only st) (native Asp fuel n args st).
Proof.
  intros fuel n args st. unfold native. cbv zeta.
  assert (Hm : forall {A} (g : A -> state -> value * state) l st0,
            (forall x s0, heap_only s0 (snd (g x s0))) ->
            post (tpost heap_only st0) (mapM (fun x s0 => Ok (g x s0)) l st0)).
  { intros A g l st0 Hg. apply (t_mapM heap_only ho_refl ho_trans). intros x s0. specialize (Hg x s0). destruct (g x s0). exact Hg. }
  assert (Hnl : forall items s0, heap_only s0 (snd (new_list items s0))).
  { intros. unfold new_list, alloc_list. cbn. repeat split. }
  destruct (str_eqb n (s "len")). { repeat first [ho_leaf | post_step]. }
  destruct (str_eqb n (s "str")). { repeat first [ho_leaf | post_step]. }
  destruct (str_eqb n (s "bool")). { ho_leaf. }
  destruct (str_eqb n (s "enumerate")).
  { apply post_bind_pure. intros l _. eapply (t_bind heap_only ho_trans); [apply Hm; intros; apply Hnl|].
    intros pairs st1 H1. cbv beta match. ho_leaf. }
  destruct (str_eqb n (s "zip")).
  { apply post_bind_pure. intros lsts _. destruct lsts; [exact I|]. destruct (forallb _ _); [|exact I].
    eapply (t_bind heap_only ho_trans); [apply Hm; intros; apply Hnl|]. intros rows st1 H1. cbv beta match. ho_leaf. }
  destruct (str_eqb n (s "any")). { repeat first [ho_leaf | post_step]. }
  destruct (str_eqb n (s "all")). { repeat first [ho_leaf | post_step]. }
  destruct (str_eqb n (s "reversed")). { repeat first [ho_leaf | post_step]. }
  destruct (str_eqb n (s "sorted")). { repeat first [ho_leaf | post_step]. }
  destruct (str_eqb n (s "min") || str_eqb n (s "max")). { repeat first [ho_leaf | post_step]. }
  destruct (str_eqb n (s "range")). { repeat first [ho_leaf | post_step]. }
  exact I.
Qed.

Lemma native_method_ho : forall fuel n args st, post (tpost heap_only st) (native_method Asp fuel n args st).
Proof.
  intros fuel n args st. unfold native_method. cbv zeta.
  assert (Hnl : forall items s0, heap_only s0 (snd (new_list items s0))).
  { intros. unfold new_list, alloc_list. cbn. repeat split. }
  assert (Hd : forall kvs,
    post (tpost heap_only st)
      (rbind (mapM (fun (kv : str * value) st0 => Ok (new_list [VStr (fst kv); snd kv] st0)) kvs st)
             (fun '(pairs, st1) => Ok (new_list pairs st1)))).
  { intros kvs. eapply (t_bind heap_only ho_trans).
    - apply (t_mapM heap_only ho_refl ho_trans). intros kv s0. pose proof (Hnl [VStr (fst kv); snd kv] s0) as H.
      destruct (new_list _ s0). exact H.
    - intros pairs st1 H1. cbv beta match. ho_leaf. }
  destruct (nth 0 args VNone) as [ ? | self | ? | | ? | ? | | ? | ? | ? ? ? | ? | ? ]; try exact I.
  - repeat first [ho_leaf | post_step].
  - destruct (str_eqb n (s "get")). { repeat first [ho_leaf | post_step]. }
    destruct (str_eqb n (s "keys")). { ho_leaf. }
    destruct (str_eqb n (s "values")). { ho_leaf. }
    destruct (str_eqb n (s "items")); [apply Hd|exact I].
  - destruct (str_eqb n (s "get")). { repeat first [ho_leaf | post_step]. }
    destruct (str_eqb n (s "keys")). { ho_leaf. }
    destruct (str_eqb n (s "values")). { ho_leaf. }
    destruct (str_eqb n (s "items")); [apply Hd|exact I].
Qed.

(* ---------------------------------------------------------------- the control relation *)
Record sc (st st' : state) : Prop := mkSc {
  sc_cur : cur st' = cur st;
  sc_nloc : length (locals st') = length (locals st);
  sc_sub : subcache st' = subcache st;
  sc_fs : forall j, (locals st <> [] \/ j <> cur st) -> nth j (fscopes st') [] = nth j (fscopes st) []
}.

Lemma sc_refl : forall st, sc st st.
Proof. intros. constructor; auto. Qed.

Lemma sc_trans : forall a b c, sc a b -> sc b c -> sc a c.
Proof.
  intros a b c [A1 A2 A3 A4] [B1 B2 B3 B4]. constructor; try congruence.
  intros j Hj. rewrite B4, A4; auto. destruct Hj as [Hj|Hj]; [left|right; congruence].
  intros E. apply Hj. destruct (locals a); [reflexivity|]. rewrite E in A2. discriminate A2.
Qed.

Lemma ho_sc : forall a b, heap_only a b -> sc a b.
Proof. intros a b (H1 & H2 & H3 & H4). constructor; auto. - now rewrite H2. - intros. now rewrite H3. Qed.

Lemma set_var_sc : forall n v st, sc st (set_var n v st).
Proof.
  intros n v st. unfold set_var. destruct (locals st) as [|e r] eqn:E.
  - constructor; cbn [cur locals subcache fscopes set_fscopes]; auto.
    intros j [Hj|Hj]; [rewrite E in Hj; contradiction|]. apply nth_list_set_other. auto.
  - constructor; cbn [cur locals subcache fscopes set_locals]; auto. rewrite E. reflexivity.
Qed.

Lemma set_vars_sc : forall (kvs : env) st, sc st (fold_left (fun acc kv => set_var (fst kv) (snd kv) acc) kvs st).
Proof.
  induction kvs as [|[k v] r IH]; intros st; cbn [fold_left]; [apply sc_refl|].
  eapply sc_trans; [apply set_var_sc|apply IH].
Qed.

Lemma unpack_names_sc : forall names v st st', unpack_names Asp names v st = Ok st' -> sc st st'.
Proof.
  intros names v st st' H. unfold unpack_names in H. destruct names as [|n [|n2 r]].
  - destruct v; try discriminate H; inv_res H; apply Ok_inj in H; rewrite <- H; apply set_vars_sc.
  - apply Ok_inj in H. rewrite <- H. apply set_var_sc.
  - destruct v; try discriminate H; inv_res H; apply Ok_inj in H; rewrite <- H; apply set_vars_sc.
Qed.

Lemma vindex_assign_sc : forall st obj idx v st', vindex_assign Asp st obj idx v = Ok st' -> sc st st'.
Proof.
  intros st obj idx v st' H. apply ho_sc. unfold vindex_assign in H.
  destruct obj; try discriminate H; destruct idx; try discriminate H; inv_res H; apply Ok_inj in H; rewrite <- H;
    unfold arr_write, dict_store, heap_only; cbn; repeat split.
Qed.

(* ---------------------------------------------------------------- the evaluator *)
Section Scopes.
Variable defs : list (str * prog).

Definition cachedall (st : state) : Prop := forall label, assoc_get label (subcache st) = None -> find_def defs label = None.

Lemma cached_sc : forall st st', cachedall st -> sc st st' -> cachedall st'.
Proof. intros st st' H S label Hl. apply H. rewrite <- (sc_sub _ _ S). exact Hl. Qed.

Notation spost := (tpost sc).
Notation sbind := (t_bind sc sc_trans).
Notation sret := (t_ret sc sc_refl).

Lemma apply_bin_sc : forall fuel o a b st, post (spost st) (apply_bin Asp fuel o a b st).
Proof. intros. eapply tpost_weaken; [apply ho_sc|apply apply_bin_ho]. Qed.

Definition E_sc (f : nat) : Prop := forall e st, cachedall st -> post (spost st) (eval_expr Asp defs f e st).
Definition V_sc (f : nat) : Prop := forall x st, cachedall st -> post (spost st) (eval_vexpr Asp defs f x st).
Definition C_sc (f : nat) : Prop := forall fn name args st, cachedall st -> post (spost st) (call_value Asp defs f fn name args st).
Definition R_sc (f : nat) : Prop := forall id bound st, cachedall st -> post (spost st) (run_func Asp defs f id bound st).
Definition B_sc (f : nat) : Prop := forall ss st, cachedall st -> post (spost st) (exec_block Asp defs f ss st).
Definition S_sc (f : nat) : Prop := forall s0 st, cachedall st -> post (spost st) (exec_stmt Asp defs f s0 st).

(* the operator chain *)
Section ChainSc.
  Variable fuel : nat.
  Variable evalx : vexpr -> state -> res (value * state).
  Variable un : unop -> value -> state -> res value.
  Variable tr : value -> state -> bool.
  Hypothesis evalx_sc : forall x st, cachedall st -> post (spost st) (evalx x st).

  Lemma lift_un_sc : forall u obj st, post (spost st) (lift_un un u obj st).
  Proof. intros. unfold lift_un, rbind. destruct (un u obj st); [apply sret|exact I|exact I]. Qed.

  Lemma recheck_sc : forall obj st0 st1 st (k : res (value * state)), post (spost st) k -> post (spost st) (recheck tr obj st0 st1 k).
  Proof. intros. unfold recheck. destruct (Bool.eqb _ _); [assumption|exact I]. Qed.

  Lemma interp_op_x_sc : forall i obj st, cachedall st ->
    post (spost st) (interp_op_x evalx (apply_bin Asp fuel) un tr obj i st).
  Proof.
    intros i obj st Hc. destruct i as [o x|u]; cbn [interp_op_x]; [|apply lift_un_sc].
    assert (Hstrict : post (spost st) (rbind (evalx x st) (fun '(r, st1) => apply_bin Asp fuel o obj r st1))).
    { eapply sbind; [apply evalx_sc; auto|]. intros r st1 H1. cbv beta match. apply apply_bin_sc. }
    destruct o; try exact Hstrict.
    - destruct (Bool.eqb _ _); [|apply sret]. eapply sbind; [apply evalx_sc; auto|]. intros r st1 H1. cbv beta match. apply recheck_sc. apply sret.
    - destruct (Bool.eqb _ _); [|apply sret]. eapply sbind; [apply evalx_sc; auto|]. intros r st1 H1. cbv beta match. apply recheck_sc. apply sret.
  Qed.

  Lemma interp_op_v_sc : forall obj o n st0 st, post (spost st) (interp_op_v (apply_bin Asp fuel) tr obj o n st0 st).
  Proof.
    intros. unfold interp_op_v. destruct o; try apply apply_bin_sc.
    - apply recheck_sc. destruct (Bool.eqb _ _); apply sret.
    - apply recheck_sc. destruct (Bool.eqb _ _); apply sret.
  Qed.

  Lemma flat_ops_sc : forall (ops : list (item vexpr)) obj st, cachedall st ->
    post (spost st) (flat_ops evalx (apply_bin Asp fuel) un tr obj ops st).
  Proof.
    induction ops as [|i0 rest IH]; intros obj st Hc.
    - cbn. apply sret.
    - destruct rest as [|i1 rest'].
      + cbn [flat_ops]. apply interp_op_x_sc; auto.
      + cbn [flat_ops]. destruct (aprec (ikey i0) >=? aprec (ikey i1))%Z.
        * eapply sbind; [apply interp_op_x_sc; auto|]. intros r st1 H1. cbv beta match. apply IH. eapply cached_sc; eauto.
        * destruct (alazy (ikey i0) && _)%bool; [apply sret|]. destruct i0 as [o x|u].
          -- eapply sbind; [apply evalx_sc; auto|]. intros r0 st1 H1. cbv beta match.
             eapply sbind; [apply IH; eapply cached_sc; eauto|]. intros n st2 H2. cbv beta match. apply interp_op_v_sc.
          -- eapply sbind; [apply IH; auto|]. intros r st1 H1. cbv beta match. apply lift_un_sc.
  Qed.
End ChainSc.

Lemma chain_sc : forall fuel evalx ops obj st,
  (forall x st, cachedall st -> post (spost st) (evalx x st)) -> cachedall st ->
  post (spost st) (chain Asp evalx fuel obj ops st).
Proof. intros. unfold chain. apply flat_ops_sc; auto. Qed.

Lemma step_E_sc : forall f, E_sc f -> V_sc f -> E_sc (S f).
Proof.
  intros f IHE IHV e st Hc. destruct e as [v ops iff]. simpl.
  assert (Hmain : forall st0, cachedall st0 ->
            post (spost st0)
              (rbind (eval_vexpr Asp defs f v st0)
                 (fun '(obj, st1) => match ops with [] => Ok (obj, st1) | _ :: _ => chain Asp (eval_vexpr Asp defs f) f obj ops st1 end))).
  { intros st0 C0. eapply sbind; [apply IHV; auto|]. intros obj st1 H1. cbv beta match.
    destruct ops; [apply sret|]. apply chain_sc; [exact IHV|eapply cached_sc; eauto]. }
  destruct iff as [[c e2]|]; [|apply Hmain; auto].
  eapply sbind; [apply IHE; auto|]. intros cv st1 H1. cbv beta match. pose proof (cached_sc _ _ Hc H1) as C1.
  destruct (truthy Asp st1 cv); [apply Hmain; auto|apply IHE; auto].
Qed.

Lemma s_mapM : forall {A B} (g : A -> state -> res (B * state)) l st,
  (forall x st0, cachedall st0 -> post (spost st0) (g x st0)) -> cachedall st -> post (spost st) (mapM g l st).
Proof.
  intros A B g. induction l as [|x r IH]; intros st Hg Hc; cbn [mapM]; [apply sret|].
  eapply sbind; [apply Hg; auto|]. intros y st1 H1. cbv beta match.
  eapply sbind; [apply IH; [exact Hg|eapply cached_sc; eauto]|]. intros ys st2 H2. cbv beta match. apply sret.
Qed.

Lemma ho_step : forall st st', heap_only st st' -> forall {A} (a : A), post (spost st) (Ok (a, st')).
Proof. intros st st' H A a. cbn. apply ho_sc. exact H. Qed.

Lemma new_list_sc : forall items st, post (spost st) (Ok (new_list items st)).
Proof. intros. unfold new_list, alloc_list. apply ho_step. repeat split. Qed.

Lemma comp_wrap : forall st1 st3, sc (set_locals ([] :: locals st1) st1) st3 -> sc st1 (set_locals (tl (locals st3)) st3).
Proof.
  intros st1 st3 [H1 H2 H3 H4]. cbn [cur locals subcache fscopes set_locals] in *. constructor; cbn [cur locals subcache fscopes set_locals]; auto.
  - destruct (locals st3); cbn in *; [discriminate H2|]. injection H2 as H2. exact H2.
  - intros j _. apply H4. left. discriminate.
Qed.

Lemma func_wrap : forall st2 st4 full c, sc (set_locals [full] (set_cur c st2)) st4 ->
  sc st2 (set_locals (locals st2) (set_cur (cur st2) st4)).
Proof.
  intros st2 st4 full c [H1 H2 H3 H4]. cbn [cur locals subcache fscopes set_locals set_cur] in *.
  constructor; cbn [cur locals subcache fscopes set_locals set_cur]; auto.
  intros j _. apply H4. left. discriminate.
Qed.

Lemma step_V_sc : forall f, E_sc f -> V_sc f -> C_sc f -> V_sc (S f).
Proof.
  intros f IHE IHV IHC x st Hc. destruct x; simpl; try apply sret.
  - (* XList *)
    eapply sbind; [apply s_mapM; [intros; apply IHE; auto|auto]|]. intros vs st1 H1. cbv beta match. apply new_list_sc.
  - (* XComp *)
    eapply sbind; [apply IHE; auto|]. intros itv st1 H1. cbv beta match. pose proof (cached_sc _ _ Hc H1) as C1.
    apply post_bind_pure. intros items _.
    match goal with |- post _ (if ?c then _ else _) => destruct c end; [exact I|].
    match goal with |- post _ (rbind (?go _ _ _) _) =>
      assert (Hgo : forall l acc st0, cachedall st0 -> post (spost st0) (go l acc st0)) end.
    { induction l as [|li r IH]; intros acc st0 C0; simpl; [apply sret|].
      apply post_bind_pure. intros st' Hu. pose proof (unpack_names_sc _ _ _ _ Hu) as S1. pose proof (cached_sc _ _ C0 S1) as C'.
      eapply (t_step sc sc_trans); [exact S1|].
      eapply sbind.
      - destruct cond as [c|]; [|apply sret]. eapply sbind; [apply IHE; auto|]. intros cv sx H2. cbv beta match. apply sret.
      - intros keep st'' H2. cbv beta match. pose proof (cached_sc _ _ C' H2) as C2. destruct keep; [|apply IH; auto].
        eapply sbind; [apply IHE; auto|]. intros v sy H3. cbv beta match. apply IH. eapply cached_sc; eauto. }
    assert (C2 : cachedall (set_locals ([] :: locals st1) st1)) by exact C1.
    pose proof (Hgo items [] _ C2) as Hloop.
    match goal with |- post _ (rbind ?m _) => destruct m as [[out st3]| |] eqn:Em end; try exact I.
    cbn [post] in Hloop. unfold tpost in Hloop. apply comp_wrap in Hloop. unfold rbind.
    match goal with |- post _ (if ?c then _ else _) => destruct c end; [exact I|].
    eapply (t_step sc sc_trans); [exact Hloop|]. unfold alloc_list. apply ho_step. repeat split.
  - (* XDict *)
    eapply sbind.
    + apply s_mapM; [|auto]. intros [k v] st0 C0. cbn [fst snd].
      eapply sbind; [apply IHE; auto|]. intros kv st' H1. cbv beta match.
      eapply sbind; [apply IHE; eapply cached_sc; eauto|]. intros vv st'' H2. cbv beta match. destruct kv; try exact I. apply sret.
    + intros pairs st1 H1. cbv beta match. unfold alloc_dict. apply ho_step. repeat split.
  - (* XParen *) apply IHE; auto.
  - (* XIdent *) destruct (lookup n st); [apply sret|exact I].
  - (* XCall *) destruct (lookup n st); [|exact I]. apply IHC; auto.
  - (* XMeth *)
    eapply sbind; [apply IHV; auto|]. intros obj st1 H1. cbv beta match. pose proof (cached_sc _ _ Hc H1) as C1.
    assert (Hargs : forall (sg0 : list (str * N * option value)) (l : list expr) st0, cachedall st0 ->
      post (spost st0)
        ((fix go (l : list expr) (sg0 : list (str * N * option value)) (st0 : state) : res (list value * state) :=
            match sg0 with
            | [] => Ok ([], st0)
            | (_, t, def) :: sr =>
                match l with
                | e :: r => rbind (eval_expr Asp defs f e st0) (fun '(v, st') => rbind (validate t def v) (fun v' =>
                            rbind (go r sr st') (fun '(vs, st'') => Ok (v' :: vs, st''))))
                | [] => match def with
                        | Some dv => rbind (go [] sr st0) (fun '(vs, st'') => Ok (dv :: vs, st''))
                        | None => Err EType
                        end
                end
            end) l sg0 st0)).
    { induction sg0 as [|[[a t] def] sr IH]; intros l st0 C0; [apply sret|]. destruct l as [|e r].
      - destruct def; [|exact I]. eapply sbind; [apply IH; auto|]. intros vs st'' H2. cbv beta match. apply sret.
      - eapply sbind; [apply IHE; auto|]. intros v st' H2. cbv beta match. apply post_bind_pure. intros v' _.
        eapply sbind; [apply IH; eapply cached_sc; eauto|]. intros vs st'' H3. cbv beta match. apply sret. }
    assert (Hcall : forall table,
      post (spost st1)
        (if existsb (str_eqb m) table then
           match method_sig m with
           | None => Err EUnsupported
           | Some sg =>
               if Nat.ltb (length sg) (S (length args)) then Err EType else
               rbind ((fix go (l : list expr) (sg0 : list (str * N * option value)) (st0 : state) : res (list value * state) :=
                         match sg0 with
                         | [] => Ok ([], st0)
                         | (_, t, def) :: sr =>
                             match l with
                             | e :: r => rbind (eval_expr Asp defs f e st0) (fun '(v, st') => rbind (validate t def v) (fun v' =>
                                         rbind (go r sr st') (fun '(vs, st'') => Ok (v' :: vs, st''))))
                             | [] => match def with
                                     | Some dv => rbind (go [] sr st0) (fun '(vs, st'') => Ok (dv :: vs, st''))
                                     | None => Err EType
                                     end
                             end
                         end) args (tl sg) st1)
                     (fun '(vals, st2) => native_method Asp f m (obj :: vals) st2)
           end
         else if existsb (str_eqb m) (str_methods ++ dict_methods) then Err EType else Err EUnsupported)).
    { intros table. destruct (existsb (str_eqb m) table); [|destruct (existsb _ _); exact I].
      destruct (method_sig m) as [sg|]; [|exact I]. destruct (Nat.ltb _ _); [exact I|].
      eapply sbind; [apply Hargs; auto|]. intros vals st2 H2. cbv beta match.
      eapply tpost_weaken; [apply ho_sc|apply native_method_ho]. }
    destruct obj; try exact I; try apply Hcall.
    + destruct (env_get m (dict_of st1 id)); [exact I|apply Hcall].
    + destruct (env_get m (dict_of st1 id)); [exact I|apply Hcall].
  - (* XIndex *)
    eapply sbind; [apply IHV; auto|]. intros obj st1 H1. cbv beta match.
    eapply sbind; [apply IHE; eapply cached_sc; eauto|]. intros idx st2 H2. cbv beta match.
    apply post_bind_pure. intros v _. apply sret.
  - (* XSlice *)
    eapply sbind; [apply IHV; auto|]. intros obj st1 H1. cbv beta match. pose proof (cached_sc _ _ Hc H1) as C1.
    assert (Hoe : forall (o : option expr) st0, cachedall st0 ->
              post (spost st0)
                (match o with None => Ok (None, st0) | Some e => rbind (eval_expr Asp defs f e st0) (fun '(v, st') => Ok (Some v, st')) end)).
    { intros o st0 C0. destruct o as [e|]; [|apply sret]. eapply sbind; [apply IHE; auto|]. intros v st' H'. cbv beta match. apply sret. }
    eapply sbind; [apply Hoe; auto|]. intros lov st2 H2. cbv beta match. pose proof (cached_sc _ _ C1 H2) as C2.
    eapply sbind; [apply Hoe; auto|]. intros hiv st3 H3. cbv beta match.
    eapply tpost_weaken; [apply ho_sc|apply vslice_ho].
Qed.

Lemma step_B_sc : forall f, B_sc f -> S_sc f -> B_sc (S f).
Proof.
  intros f IHB IHS ss st Hc. destruct ss as [|s0 r]; simpl; [apply sret|].
  eapply sbind; [apply IHS; auto|]. intros res0 st1 H1. cbv beta match.
  destruct res0; try apply sret. apply IHB. eapply cached_sc; eauto.
Qed.

Lemma step_R_sc : forall f, E_sc f -> B_sc f -> R_sc (S f).
Proof.
  intros f IHE IHB id bound st1 Hc. simpl.
  match goal with |- post _ (rbind (?go _ _ _) _) =>
    assert (Hgo : forall l acc st0, cachedall st0 -> post (spost st0) (go l acc st0)) end.
  { induction l as [|[a df] r IH]; intros acc st0 C0; simpl; [apply sret|].
    destruct (env_get a acc); [apply IH; auto|]. destruct df as [|v|e]; [exact I|apply IH; auto|].
    eapply sbind; [apply IHE; auto|]. intros v st' H'. cbv beta match. apply IH. eapply cached_sc; eauto. }
  eapply sbind; [apply Hgo; auto|]. intros full st2 H2. cbv beta match. pose proof (cached_sc _ _ Hc H2) as C2.
  match goal with |- post _ (rbind (exec_block _ _ _ ?body ?st3) _) =>
    pose proof (IHB body st3 C2) as Hb; destruct (exec_block Asp defs f body st3) as [[r st4]| |] eqn:Eb end; try exact I.
  cbn [post] in Hb. unfold tpost in Hb. apply func_wrap in Hb. unfold rbind. destruct r; cbn [post]; exact Hb.
Qed.


Lemma step_C_sc : forall f, E_sc f -> R_sc f -> C_sc (S f).
Proof.
  intros f IHE IHR fn name args st Hc. destruct fn; simpl; try exact I.
  - (* a function defined by def *)
    match goal with |- post _ (rbind (?go _ _ _ _) _) =>
      assert (Hgo : forall l i acc st0, cachedall st0 -> post (spost st0) (go l i acc st0)) end.
    { induction l as [|[[k|] e] r IH]; intros i acc st0 C0; simpl; [apply sret| |].
      - destruct (existsb _ _); [|exact I]. eapply sbind; [apply IHE; auto|]. intros v st' H'. cbv beta match. apply IH. eapply cached_sc; eauto.
      - destruct (Nat.leb _ _); [exact I|]. eapply sbind; [apply IHE; auto|]. intros v st' H'. cbv beta match. apply IH. eapply cached_sc; eauto. }
    eapply sbind; [apply Hgo; auto|]. intros bound st1 H1. cbv beta match. apply IHR. eapply cached_sc; eauto.
  - (* a builtin *)
    destruct (native_sig n) as [[sg varargs]|].
    + match goal with |- post _ (rbind (?go _ _ _ _ _) _) =>
        assert (Hgo : forall l i slots extra st0, cachedall st0 -> post (spost st0) (go l i slots extra st0)) end.
      { induction l as [|[[k|] e] r IH]; intros i slots extra st0 C0; simpl; [apply sret| |].
        - match goal with |- post _ (match ?x with _ => _ end) => destruct x as [j|] end; [|exact I].
          destruct (nth j sg ([], 0%N, None)) as [[a t] def].
          eapply sbind; [apply IHE; auto|]. intros v st' H'. cbv beta match. apply post_bind_pure. intros v' _. apply IH. eapply cached_sc; eauto.
        - destruct (Nat.leb _ _).
          + destruct varargs; [|exact I]. eapply sbind; [apply IHE; auto|]. intros v st' H'. cbv beta match. apply IH. eapply cached_sc; eauto.
          + destruct (nth i sg ([], 0%N, None)) as [[a t] def].
            eapply sbind; [apply IHE; auto|]. intros v st' H'. cbv beta match. apply post_bind_pure. intros v' _. apply IH. eapply cached_sc; eauto. }
      eapply sbind; [apply Hgo; auto|]. intros [filled extra] st1 H1. cbv beta match.
      apply post_bind_pure. intros vals _. eapply tpost_weaken; [apply ho_sc|apply native_ho].
    + destruct (_ || _)%bool; [|exact I]. destruct (_ || _)%bool; [exact I|].
      match goal with |- post _ (rbind (?go _ _ _) _) =>
        assert (Hgo : forall l ts st0, cachedall st0 -> post (spost st0) (go l ts st0)) end.
      { induction l as [|[k e] r IH]; intros ts st0 C0; simpl; [apply sret|]. destruct ts as [|t tr]; [apply sret|].
        eapply sbind; [apply IHE; auto|]. intros v st' H'. cbv beta match. apply post_bind_pure. intros v' _.
        eapply sbind; [apply IH; eapply cached_sc; eauto|]. intros vs st'' H2. cbv beta match. apply sret. }
      eapply sbind; [apply Hgo; auto|]. intros vals st1 H1. cbv beta match. pose proof (cached_sc _ _ Hc H1) as C1.
      destruct (Nat.ltb _ _); [exact I|].
      destruct (nth 0 vals VNone) as [ | | | | | | | | | | fid | ]; try exact I.
      apply post_bind_pure. intros l _.
      assert (Hcall : forall xs st0, cachedall st0 ->
                post (spost st0)
                  (if Nat.ltb (length (f_args (nth fid (funcs st0) (Func [] [] [] 0)))) (length xs) then Err EType
                   else run_func Asp defs f fid (combine (map (@fst _ _) (f_args (nth fid (funcs st0) (Func [] [] [] 0)))) xs) st0)).
      { intros xs st0 C0. destruct (Nat.ltb _ _); [exact I|]. apply IHR; auto. }
      destruct (str_eqb n (s "map")).
      { eapply sbind; [apply s_mapM; [intros; apply Hcall; auto|auto]|]. intros out st2 H2. cbv beta match. apply new_list_sc. }
      destruct (str_eqb n (s "filter")).
      { eapply sbind.
        - apply s_mapM; [|auto]. intros x st0 C0. eapply sbind; [apply Hcall; auto|]. intros r st' H'. cbv beta match. apply sret.
        - intros keep st2 H2. cbv beta match.
          destruct (map (@snd _ _) (filter (@fst _ _) keep)) as [|o1 orest]; [apply sret|].
          match goal with |- post _ (if ?c then _ else _) => destruct c end; [exact I|].
          unfold alloc_list. apply ho_step. repeat split. }
      destruct l as [|x r]; [apply sret|].
      match goal with |- post _ (let '(acc0, rest) := ?p in ?go rest acc0 st1) =>
        assert (Hgo2 : forall l0 acc st0, cachedall st0 -> post (spost st0) (go l0 acc st0)); [|destruct p as [acc0 rest]; apply Hgo2; auto] end.
      induction l0 as [|y r0 IH]; intros acc st0 C0; simpl; [apply sret|].
      eapply sbind; [apply Hcall; auto|]. intros acc' st' H'. cbv beta match. apply IH. eapply cached_sc; eauto.
Qed.

Lemma step_S_sc : forall f, E_sc f -> C_sc f -> B_sc f -> S_sc (S f).
Proof.
  intros f IHE IHC IHB s0 st Hc. destruct s0; simpl; try apply sret.
  - (* SAssign *)
    eapply sbind; [apply IHE; auto|]. intros v st1 H1. cbv beta match. cbn [post]. apply set_var_sc.
  - (* SAug *)
    destruct (lookup n st) as [old|]; [|exact I].
    eapply sbind; [apply IHE; auto|]. intros v st1 H1. cbv beta match.
    eapply sbind; [apply apply_bin_sc|]. intros r st2 H2. cbv beta match. cbn [post]. apply set_var_sc.
  - (* SIdxAssign *)
    destruct (lookup n st) as [obj|]; [|exact I].
    eapply sbind; [apply IHE; auto|]. intros idx st1 H1. cbv beta match.
    eapply sbind; [apply IHE; eapply cached_sc; eauto|]. intros v st2 H2. cbv beta match.
    apply post_bind_pure. intros st3 H3. cbn [post]. eapply vindex_assign_sc; eauto.
  - (* SIdxAug *)
    destruct (lookup n st) as [obj|]; [|exact I].
    eapply sbind; [apply IHE; auto|]. intros idx st1 H1. cbv beta match.
    apply post_bind_pure. intros old _.
    eapply sbind; [apply IHE; eapply cached_sc; eauto|]. intros v st2 H2. cbv beta match.
    eapply sbind; [apply apply_bin_sc|]. intros r st3 H3. cbv beta match.
    apply post_bind_pure. intros st4 H4. cbn [post]. eapply vindex_assign_sc; eauto.
  - (* SUnpack *)
    eapply sbind; [apply IHE; auto|]. intros v st1 H1. cbv beta match.
    destruct names as [|n1 [|n2 nr]]; try exact I. apply post_bind_pure. intros st2 H2. cbn [post]. eapply unpack_names_sc; eauto.
  - (* SIf *)
    eapply sbind; [apply IHE; auto|]. intros cv st1 H1. cbv beta match. pose proof (cached_sc _ _ Hc H1) as C1.
    destruct (truthy Asp st1 cv); [apply IHB; auto|].
    clear H1 Hc. revert st1 C1. induction elifs as [|[c1 b1] r IH]; intros st1 C1; simpl; [apply IHB; auto|].
    eapply sbind; [apply IHE; auto|]. intros v1 st' H'. cbv beta match. pose proof (cached_sc _ _ C1 H') as C'.
    destruct (truthy Asp st' v1); [apply IHB; auto|apply IH; auto].
  - (* SFor *)
    eapply sbind; [apply IHE; auto|]. intros itv st1 H1. cbv beta match. pose proof (cached_sc _ _ Hc H1) as C1.
    apply post_bind_pure. intros items _.
    clear H1 Hc. revert st1 C1. induction items as [|li r IH]; intros st1 C1; simpl; [apply sret|].
    apply post_bind_pure. intros st' Hu. pose proof (unpack_names_sc _ _ _ _ Hu) as S1. pose proof (cached_sc _ _ C1 S1) as C'.
    eapply (t_step sc sc_trans); [exact S1|].
    eapply sbind; [apply IHB; auto|]. intros r0 st'' H2. cbv beta match.
    destruct r0; try apply sret. + apply IH. eapply cached_sc; eauto. + apply IH. eapply cached_sc; eauto.
  - (* SDef *)
    eapply sbind.
    + apply s_mapM; [|auto]. intros [a oe] st0 C0. cbn [fst snd]. destruct oe as [e|]; [|apply sret].
      destruct (is_const 32 e); [|apply sret].
      eapply sbind; [eapply tpost_weaken; [apply ho_sc|apply const_alloc_ho]|]. intros v st' H'. cbv beta match. apply sret.
    + intros formals st1 H1. cbv beta match. cbn [post].
      eapply sc_trans; [|apply set_var_sc]. apply ho_sc. repeat split.
  - (* SReturn *)
    destruct e as [e|]; simpl; [|apply sret]. eapply sbind; [apply IHE; auto|]. intros v st1 H1. cbv beta match. apply sret.
  - (* SCall *)
    destruct (lookup n st) as [fn|]; [|exact I].
    assert (Hcall : post (spost st) (rbind (call_value Asp defs f fn n args st) (fun '(_, st1) => Ok (RNone, st1)))).
    { eapply sbind; [apply IHC; auto|]. intros v st1 H1. cbv beta match. apply sret. }
    destruct fn; try exact Hcall.
    destruct (str_eqb n0 (s "subinclude")); [|exact Hcall].
    destruct args as [|[[k|] [[ | lbl | | | | | | | | | | | | | ] [|? ?] [?|]]] [|? ?]]; try exact I.
    destruct (assoc_get lbl (subcache st)) as [globals|] eqn:Eg; [|rewrite (Hc lbl Eg); exact I].
    cbn [post]. apply set_vars_sc.
  - (* SAssert *)
    eapply sbind; [apply IHE; auto|]. intros v st1 H1. cbv beta match. destruct (truthy Asp st1 v); [apply sret|exact I].
Qed.

Record sc_specs (f : nat) : Prop := mkScSpecs {
  ss_E : E_sc f; ss_V : V_sc f; ss_C : C_sc f; ss_R : R_sc f; ss_B : B_sc f; ss_S : S_sc f }.

Theorem all_sc : forall f, sc_specs f.
Proof.
  induction f as [|f IH].
  - constructor; intro; intros; exact I.
  - destruct IH as [HE HV HC HR HB HS]. constructor.
    + apply step_E_sc; auto.
    + apply step_V_sc; auto.
    + apply step_C_sc; auto.
    + apply step_R_sc; auto.
    + apply step_B_sc; auto.
    + apply step_S_sc; auto.
Qed.

(* the statements of one BUILD file *)
Theorem top_sc : forall fuel p st e oof st', cachedall st -> exec_top Asp defs fuel p st = (e, oof, st') -> sc st st'.
Proof.
  intros fuel. induction p as [|s0 r IH]; intros st e oof st' Hc H; cbn [exec_top] in H.
  - injection H as _ _ <-. apply sc_refl.
  - pose proof (ss_S _ (all_sc fuel) s0 st Hc) as Hs.
    destruct (exec_stmt Asp defs fuel s0 st) as [[r0 st1]|k|].
    + cbn [post] in Hs. unfold tpost in Hs. destruct r0.
      * eapply sc_trans; [exact Hs|]. eapply IH; [eapply cached_sc; eauto|exact H].
      * injection H as _ _ <-. exact Hs.
      * injection H as _ _ <-. exact Hs.
      * injection H as _ _ <-. exact Hs.
    + injection H as _ _ <-. apply sc_refl.
    + injection H as _ _ <-. apply sc_refl.
Qed.

End Scopes.
