(* C33 - proofs: the model's string tests against the documented pattern semantics, the owner of a
   hidden sub-target, CanSee against the documented visibility rule, and the loop of
   CheckDependencyVisibility by induction over the declared dependencies (any number of them). *)
From PlzV Require Import Base.Harness Base.StrFacts Model.C33 Proof.C33_Spec.
From Coq Require Import Lia.

Lemma has_prefix_iff p x : has_prefix p x = true <-> exists r, x = p ++ r.
Proof.
  revert x. induction p as [|a p IH]; intros x; cbn [has_prefix].
  - split; [intros _; exists x; reflexivity | reflexivity].
  - destruct x as [|b x].
    + split; [discriminate | intros [r Hr]; discriminate].
    + rewrite andb_true_iff, N.eqb_eq, IH. split.
      * intros [Hab [r Hr]]. exists r. subst. reflexivity.
      * intros [r Hr]. cbn in Hr. injection Hr as Hb Hx. split; [auto | exists r; auto].
Qed.

Lemma str_eqb_true a b : str_eqb a b = true <-> a = b.
Proof. apply str_eqb_eq. Qed.

(* facts about the regenerated literals (Gen/Visibility.v) that the proofs below rest on *)
Lemma dots_neq_all : dots <> all_.
Proof. vm_compute. discriminate. Qed.

Lemma underscore_neq_hash : underscore_c <> hash_c.
Proof. vm_compute. discriminate. Qed.

Lemma exp_name_dots : exp_name = dots.
Proof. reflexivity. Qed.

Lemma public_is_whole_graph :
  is_public (mkLabel [] (s Visibility.public_package) (s Visibility.public_name)).
Proof. split; reflexivity. Qed.

Lemma gen_literals :
  dots = s "..." /\ all_ = s "all" /\ slash = s "/" /\ hash_c = 35%N /\ underscore_c = 95%N.
Proof. repeat split. Qed.

Lemma includes_unfold v l :
  includes v l =
  ((str_eqb (l_pkg v) [] && is_all_subpackages v) || str_eqb (l_pkg l) (l_pkg v)
    || has_prefix (l_pkg v ++ slash) (l_pkg l))
  && (is_all_subpackages v
      || (str_eqb (l_pkg v) (l_pkg l) && (str_eqb (l_name v) (l_name l) || is_all_targets v))).
Proof.
  unfold includes.
  destruct (str_eqb (l_pkg v) []), (is_all_subpackages v), (str_eqb (l_pkg l) (l_pkg v)),
    (has_prefix (l_pkg v ++ slash) (l_pkg l)), (str_eqb (l_pkg v) (l_pkg l)); reflexivity.
Qed.

Lemma includes_iff v l : includes v l = true <-> selects_dir v l.
Proof.
  rewrite includes_unfold. unfold selects_dir, in_dir, is_all_subpackages, is_all_targets.
  rewrite !andb_true_iff, !orb_true_iff, !andb_true_iff, !orb_true_iff, !str_eqb_true, has_prefix_iff.
  split.
  - intros [Houter [Hd | [Hp [Hn | Ha]]]].
    + left. split; [exact Hd|].
      destruct Houter as [[[Hp0 _] | Hpp] | [r Hr]].
      * left; exact Hp0.
      * right; left; exact Hpp.
      * right; right. exists r. rewrite <- app_assoc in Hr. exact Hr.
    + right; right. split; assumption.
    + right; left. split; assumption.
  - intros [[Hd [Hp0 | [Hpp | [r Hr]]]] | [[Ha Hp] | [Hp Hn]]].
    + split; [left; left; split; assumption | left; exact Hd].
    + split; [left; right; exact Hpp | left; exact Hd].
    + split; [right; exists r; rewrite <- app_assoc; exact Hr | left; exact Hd].
    + split; [left; right; symmetry; exact Hp | right; split; [exact Hp | right; exact Ha]].
    + split; [left; right; symmetry; exact Hp | right; split; [exact Hp | left; exact Hn]].
Qed.

(* ------------------------------------------------------------------ Parent / owner *)

Lemma before_Some c x : forall p, before c x = Some p -> exists r, x = p ++ c :: r /\ ~ In c p.
Proof.
  induction x as [|a x IH]; cbn [before]; intros p Hp; [discriminate|].
  destruct (N.eqb_spec a c) as [E|E].
  - injection Hp as <-. subst a. exists x. split; [reflexivity | intros []].
  - destruct (before c x) as [q|]; [|discriminate]. injection Hp as <-.
    destruct (IH q eq_refl) as [r [Hx Hq]]. exists r. split.
    + cbn. rewrite <- Hx. reflexivity.
    + intros [H|H]; [exact (E H) | exact (Hq H)].
Qed.

Lemma before_app c p r : ~ In c p -> before c (p ++ c :: r) = Some p.
Proof.
  induction p as [|a p IH]; cbn [before app]; intros Hp.
  - rewrite N.eqb_refl. reflexivity.
  - destruct (N.eqb_spec a c) as [E|E]; [exfalso; apply Hp; left; exact E|].
    rewrite IH; [reflexivity | intros H; apply Hp; right; exact H].
Qed.

Lemma before_None c x : before c x = None <-> ~ In c x.
Proof.
  split.
  - intros Hn Hin. apply in_split in Hin. destruct Hin as [l1 [l2 ->]].
    revert Hn. induction l1 as [|a l1 IH]; cbn [before app].
    + rewrite N.eqb_refl. discriminate.
    + destruct (N.eqb a c); [discriminate|]. destruct (before c (l1 ++ c :: l2)); [discriminate|].
      intros _. apply IH. reflexivity.
  - intros Hn. destruct (before c x) as [p|] eqn:Hb; [|reflexivity].
    destruct (before_Some _ _ _ Hb) as [r [-> _]]. exfalso. apply Hn. apply in_or_app. right. left. reflexivity.
Qed.

Lemma trim_left_split c x :
  exists us, x = us ++ trim_left c x /\ Forall (eq c) us /\ (forall r, trim_left c x <> c :: r)
             /\ (forall y, x = c :: y -> us <> []).
Proof.
  induction x as [|a x [us [Hx [Hus [Hne Hcons]]]]]; cbn [trim_left].
  - exists []. repeat split; [constructor | discriminate | discriminate].
  - destruct (N.eqb_spec a c) as [E|E].
    + subst a. exists (c :: us). repeat split.
      * cbn. rewrite <- Hx. reflexivity.
      * constructor; [reflexivity | exact Hus].
      * exact Hne.
      * discriminate.
    + exists []. repeat split; [constructor | | ].
      * intros r Hr. injection Hr as Hr _. exact (E Hr).
      * intros y Hy. injection Hy as Hy _. exfalso. exact (E Hy).
Qed.

Lemma trim_left_app c us o :
  Forall (eq c) us -> (forall r, o <> c :: r) -> trim_left c (us ++ o) = o.
Proof.
  intros Hus Ho. induction Hus as [|a us Ha Hus IH]; cbn [app trim_left].
  - destruct o as [|b o]; [reflexivity|]. cbn [trim_left].
    destruct (N.eqb_spec b c) as [E|E]; [subst b; exfalso; exact (Ho o eq_refl) | reflexivity].
  - subst a. rewrite N.eqb_refl. exact IH.
Qed.

Definition parent_name (n : str) : str :=
  match before hash_c n with
  | None => n
  | Some pre => if has_prefix [underscore_c] n then trim_left underscore_c pre else n
  end.

Lemma parent_name_eq l : l_name (parent l) = parent_name (l_name l).
Proof.
  unfold parent, parent_name. destruct (before hash_c (l_name l)); [|reflexivity].
  destruct (has_prefix [underscore_c] (l_name l)); reflexivity.
Qed.

Lemma parent_sub l : l_sub (parent l) = l_sub l.
Proof.
  unfold parent. destruct (before hash_c (l_name l)); [|reflexivity].
  destruct (has_prefix [underscore_c] (l_name l)); reflexivity.
Qed.

Lemma parent_pkg l : l_pkg (parent l) = l_pkg l.
Proof.
  unfold parent. destruct (before hash_c (l_name l)); [|reflexivity].
  destruct (has_prefix [underscore_c] (l_name l)); reflexivity.
Qed.

Lemma has_underscore_prefix n : has_prefix [underscore_c] n = true <-> exists r, n = underscore_c :: r.
Proof. rewrite has_prefix_iff. reflexivity. Qed.

(* the documented owner of a (possibly hidden) target name is exactly what Parent() computes *)
Lemma owner_name_iff n o : owner_name n o <-> o = parent_name n.
Proof.
  unfold owner_name, parent_name. split.
  - intros [[us [rest [Hn [Hne [Hus [Hno Hstart]]]]]] | [Hnh ->]].
    + assert (Hb : before hash_c n = Some (us ++ o)).
      { rewrite Hn, app_assoc. apply before_app. intros Hin. apply in_app_or in Hin.
        destruct Hin as [Hin|Hin]; [|exact (Hno Hin)].
        rewrite Forall_forall in Hus. specialize (Hus _ Hin). exact (underscore_neq_hash Hus). }
      rewrite Hb.
      assert (Hp : has_prefix [underscore_c] n = true).
      { apply has_underscore_prefix. destruct us as [|u us]; [contradiction|].
        inversion Hus as [|? ? Hu Hrest]; subst u. exists (us ++ o ++ hash_c :: rest). exact Hn. }
      rewrite Hp. symmetry. apply trim_left_app; assumption.
    + destruct (before hash_c n) as [pre|] eqn:Hb; [|reflexivity].
      destruct (has_prefix [underscore_c] n) eqn:Hp; [|reflexivity].
      exfalso. apply Hnh. split; [apply has_underscore_prefix; exact Hp|].
      destruct (before_Some _ _ _ Hb) as [r [-> _]]. apply in_or_app. right. left. reflexivity.
  - intros ->. destruct (before hash_c n) as [pre|] eqn:Hb.
    + destruct (has_prefix [underscore_c] n) eqn:Hp.
      * left. destruct (before_Some _ _ _ Hb) as [r [Hn Hpre]].
        destruct (trim_left_split underscore_c pre) as [us [Hsplit [Hus [Hstart Hcons]]]].
        exists us, r. repeat split.
        -- rewrite app_assoc, <- Hsplit. exact Hn.
        -- apply has_underscore_prefix in Hp. destruct Hp as [y Hy].
           destruct pre as [|a pre'].
           ++ rewrite Hn in Hy. apply (f_equal (@hd N 0%N)) in Hy. exfalso. exact (underscore_neq_hash (eq_sym Hy)).
           ++ rewrite Hn in Hy. apply (f_equal (@hd N 0%N)) in Hy. cbn [hd app] in Hy. subst a. exact (Hcons pre' eq_refl).
        -- exact Hus.
        -- intros Hin. apply Hpre. rewrite Hsplit. apply in_or_app. right. exact Hin.
        -- exact Hstart.
      * right. split; [|reflexivity]. intros [Hs _]. apply has_underscore_prefix in Hs. congruence.
    + right. split; [|reflexivity]. intros [_ Hin]. apply before_None in Hb. exact (Hb Hin).
Qed.

Lemma parent_owner l : owner l (parent l).
Proof.
  unfold owner. rewrite parent_sub, parent_pkg, parent_name_eq. repeat split.
  apply owner_name_iff. reflexivity.
Qed.

Lemma owner_unique l o : owner l o -> o = parent l.
Proof.
  intros [Hs [Hp Hn]]. apply owner_name_iff in Hn.
  rewrite <- parent_name_eq in Hn. rewrite <- (parent_sub l) in Hs. rewrite <- (parent_pkg l) in Hp.
  destruct o, (parent l); cbn in *; subst; reflexivity.
Qed.

(* ------------------------------------------------------------------ isExperimental *)

Lemma selects_dir_dots sub d l : selects_dir (mkLabel sub d dots) l <-> in_dir d (l_pkg l).
Proof.
  unfold selects_dir; cbn [l_name l_pkg]. split.
  - intros [[_ H] | [[H _] | [H _]]]; [exact H | exfalso; exact (dots_neq_all H) | right; left; symmetry; exact H].
  - intros H. left. split; [reflexivity | exact H].
Qed.

Lemma is_experimental_iff st l : is_experimental st l = true <-> experimental st l.
Proof.
  unfold is_experimental, experimental, exp_labels. rewrite exp_name_dots.
  destruct (str_eqb_spec (l_sub l) []) as [Hs|Hs]; cbn [negb].
  - rewrite existsb_exists. split.
    + intros [e [Hin Hinc]]. apply in_map_iff in Hin. destruct Hin as [d [<- Hd]].
      split; [exact Hs|]. exists d. split; [exact Hd|].
      apply includes_iff in Hinc. apply selects_dir_dots in Hinc. exact Hinc.
    + intros [_ [d [Hd Hin]]]. exists (mkLabel [] d dots). split.
      * apply in_map_iff. exists d. split; [reflexivity | exact Hd].
      * apply includes_iff. apply selects_dir_dots. exact Hin.
  - split; [discriminate | intros [H _]; contradiction].
Qed.

Lemma is_experimental_false st l : is_experimental st l = false <-> ~ experimental st l.
Proof.
  rewrite <- is_experimental_iff. destruct (is_experimental st l); split; congruence.
Qed.

(* ------------------------------------------------------------------ CanSee *)

(* what the code decides, as a proposition: package NAMES are compared, patterns select by
   directory and name only *)
Definition visible_code (st : state) (t : label) (d : target) : Prop :=
  l_pkg t = l_pkg (t_label d)
  \/ (~ (experimental st (t_label d) /\ ~ experimental st t)
      /\ ((exists v, In v (t_vis d) /\ selects_dir v (parent t)) \/ experimental st t)).

Lemma can_see_iff st t d : can_see st t d = true <-> visible_code st t d.
Proof.
  unfold can_see, visible_code.
  destruct (str_eqb_spec (l_pkg t) (l_pkg (t_label d))) as [Hp|Hp].
  - split; [intros _; left; exact Hp | reflexivity].
  - rewrite parent_pkg.
    destruct (str_eqb_spec (l_pkg (t_label d)) (l_pkg t)) as [Hp'|_]; [symmetry in Hp'; contradiction|].
    destruct (is_experimental st (t_label d)) eqn:Hd; destruct (is_experimental st t) eqn:Ht; cbn [andb negb].
    all: first [apply is_experimental_iff in Hd | apply is_experimental_false in Hd];
         first [apply is_experimental_iff in Ht | apply is_experimental_false in Ht].
    + (* both experimental *)
      split; [intros _; right; split; [intros [_ H]; exact (H Ht) | right; exact Ht] |].
      intros _. destruct (existsb _ _); reflexivity.
    + (* dep experimental, target not *)
      split; [discriminate|]. intros [H|[H _]]; [contradiction | exfalso; apply H; split; assumption].
    + (* target experimental only *)
      split; [intros _; right; split; [intros [H _]; exact (Hd H) | right; exact Ht] |].
      intros _. destruct (existsb _ _); reflexivity.
    + (* neither *)
      destruct (existsb (fun v => includes v (parent t)) (t_vis d)) eqn:He.
      * split; [|reflexivity]. intros _. right. split; [intros [H _]; exact (Hd H)|]. left.
        apply existsb_exists in He. destruct He as [v [Hin Hinc]]. exists v. split; [exact Hin|].
        apply includes_iff. exact Hinc.
      * split; [discriminate|]. intros [H|[_ [[v [Hin Hsel]]|H]]]; [contradiction | | contradiction].
        assert (Ht' : existsb (fun v => includes v (parent t)) (t_vis d) = true).
        { apply existsb_exists. exists v. split; [exact Hin | apply includes_iff; exact Hsel]. }
        congruence.
Qed.

Lemma is_public_selects_dir v l : is_public v -> selects_dir v l.
Proof. intros [Hp Hn]. left. split; [exact Hn | left; exact Hp]. Qed.

(* the code never refuses what the documented rule allows *)
Lemma spec_implies_code st t d : visible_spec st t d -> visible_code st t d.
Proof.
  intros [[_ Hp] | [Hban [[v [o [Hin [Ho Hsel]]]] | Hexp]]].
  - left. exact Hp.
  - right. split; [exact Hban|]. left. exists v. split; [exact Hin|].
    apply owner_unique in Ho. subst o.
    destruct Hsel as [Hpub | [_ Hsel]]; [apply is_public_selects_dir; exact Hpub | exact Hsel].
  - right. split; [exact Hban | right; exact Hexp].
Qed.

(* ... and allows only what the rule allows, provided no repository confusion is possible *)
Lemma code_implies_spec st t d :
  (l_pkg t = l_pkg (t_label d) -> l_sub t = l_sub (t_label d)) ->
  (forall v, In v (t_vis d) -> selects_dir v (parent t) -> is_public v \/ l_sub v = l_sub t) ->
  visible_code st t d -> visible_spec st t d.
Proof.
  intros Hsame Hpat [Hp | [Hban [[v [Hin Hsel]] | Hexp]]].
  - left. split; [exact (Hsame Hp) | exact Hp].
  - right. split; [exact Hban|]. left. exists v, (parent t). split; [exact Hin|]. split; [apply parent_owner|].
    destruct (Hpat v Hin Hsel) as [Hpub|Hsub]; [left; exact Hpub|].
    right. split; [rewrite parent_sub; exact Hsub | exact Hsel].
  - right. split; [exact Hban | right; exact Hexp].
Qed.

(* ------------------------------------------------------------------ the defect classifier *)

Lemma is_publicb_iff v : is_publicb v = true <-> is_public v.
Proof. unfold is_publicb, is_public. rewrite andb_true_iff, !str_eqb_true. reflexivity. Qed.

Definition tov_b (t d : target) : bool := t_testonly d && negb (t_test t) && negb (t_testonly t).

Lemma tov_b_iff t d : tov_b t d = true <-> testonly_violation t d.
Proof.
  unfold tov_b, testonly_violation. rewrite !andb_true_iff, !negb_true_iff. tauto.
Qed.

Lemma dep_defect_None st t d :
  dep_defect st t d = None ->
  (l_pkg (t_label t) = l_pkg (t_label d) -> l_sub (t_label t) = l_sub (t_label d))
  /\ (forall v, In v (t_vis d) -> selects_dir v (parent (t_label t)) -> is_public v \/ l_sub v = l_sub (t_label t))
  /\ (tov_b t d = true -> is_experimental st (t_label t) = false).
Proof.
  unfold dep_defect. fold (tov_b t d).
  destruct (str_eqb (l_pkg (t_label t)) (l_pkg (t_label d)) && negb (str_eqb (l_sub (t_label t)) (l_sub (t_label d)))) eqn:H1; [discriminate|].
  destruct (existsb _ (t_vis d)) eqn:H2; [discriminate|].
  destruct (tov_b t d && is_experimental st (t_label t)) eqn:H3; [discriminate|]. intros _.
  split; [|split].
  - intros Hp. apply andb_false_iff in H1. destruct H1 as [H1|H1].
    + apply str_eqb_neq in H1. contradiction.
    + apply negb_false_iff in H1. apply str_eqb_true in H1. exact H1.
  - intros v Hin Hsel.
    destruct (is_publicb v) eqn:Hpub; [left; apply is_publicb_iff; exact Hpub|].
    destruct (str_eqb_spec (l_sub v) (l_sub (t_label t))) as [Hs|Hs]; [right; exact Hs|].
    exfalso. assert (Ht : existsb (fun v => includes v (parent (t_label t)) && negb (is_publicb v)
                            && negb (str_eqb (l_sub v) (l_sub (t_label t)))) (t_vis d) = true).
    { apply existsb_exists. exists v. split; [exact Hin|].
      rewrite (proj2 (includes_iff _ _) Hsel), Hpub.
      destruct (str_eqb_spec (l_sub v) (l_sub (t_label t))); [contradiction | reflexivity]. }
    congruence.
  - intros Ht. rewrite Ht in H3. exact H3.
Qed.

(* ------------------------------------------------------------------ one dependency *)

(* what one iteration of the loop rejects *)
Definition dep_bad (st : state) (t d : target) : bool :=
  negb (can_see st (t_label t) d) || (tov_b t d && negb (is_experimental st (t_label t))).

Definition dep_bad_spec (st : state) (t d : target) : Prop :=
  ~ visible_spec st (t_label t) d \/ testonly_violation t d.

Lemma dep_bad_sound st t d : dep_bad st t d = true -> dep_bad_spec st t d.
Proof.
  unfold dep_bad, dep_bad_spec. rewrite orb_true_iff, negb_true_iff, andb_true_iff.
  intros [Hc | [Ht _]].
  - left. intros Hv. apply spec_implies_code in Hv. apply can_see_iff in Hv. congruence.
  - right. apply tov_b_iff. exact Ht.
Qed.

Lemma dep_bad_complete st t d : dep_defect st t d = None -> dep_bad_spec st t d -> dep_bad st t d = true.
Proof.
  intros Hnd Hbad. destruct (dep_defect_None _ _ _ Hnd) as [Hsame [Hpat Htov]].
  unfold dep_bad. destruct (can_see st (t_label t) d) eqn:Hc; cbn [negb orb]; [|reflexivity].
  apply can_see_iff in Hc. pose proof (code_implies_spec _ _ _ Hsame Hpat Hc) as Hv.
  destruct Hbad as [Hnv|Ht]; [contradiction|].
  apply tov_b_iff in Ht. rewrite Ht, (Htov Ht). reflexivity.
Qed.

(* ------------------------------------------------------------------ the loop *)

Lemma check_deps_failed st g t ds :
  (forall dl, In dl ds -> exists d, lookup g dl = Some d) ->
  (failed (check_deps st g t ds)
   <-> exists dl d, In dl ds /\ lookup g dl = Some d /\ dep_bad st t d = true).
Proof.
  induction ds as [|dl ds IH]; intros Hres; cbn [check_deps].
  - split; [intros [] | intros [? [? [[] _]]]].
  - destruct (Hres dl (or_introl eq_refl)) as [d Hd]. rewrite Hd.
    assert (Hres' : forall x, In x ds -> exists d, lookup g x = Some d) by (intros x Hx; apply Hres; right; exact Hx).
    specialize (IH Hres').
    assert (Hstep : (if tov_b t d then if is_experimental st (t_label t) then check_deps st g t ds else RTestOnly (t_label d) else check_deps st g t ds)
                    = if tov_b t d && negb (is_experimental st (t_label t)) then RTestOnly (t_label d) else check_deps st g t ds).
    { destruct (tov_b t d), (is_experimental st (t_label t)); reflexivity. }
    fold (tov_b t d). rewrite Hstep.
    destruct (can_see st (t_label t) d) eqn:Hc; cbn [negb].
    + destruct (tov_b t d && negb (is_experimental st (t_label t))) eqn:Ht.
      * split; [|intros _; exact I]. intros _. exists dl, d. split; [left; reflexivity|]. split; [exact Hd|].
        unfold dep_bad. rewrite Hc, Ht. reflexivity.
      * rewrite IH. split.
        -- intros [x [dx [Hx H]]]. exists x, dx. split; [right; exact Hx | exact H].
        -- intros [x [dx [[Hx|Hx] [Hl Hb]]]].
           ++ subst x. rewrite Hd in Hl. injection Hl as <-. unfold dep_bad in Hb. rewrite Hc, Ht in Hb. discriminate.
           ++ exists x, dx. split; [exact Hx | split; assumption].
    + split; [|intros _; exact I]. intros _. exists dl, d. split; [left; reflexivity|]. split; [exact Hd|].
      unfold dep_bad. rewrite Hc. reflexivity.
Qed.

Lemma deps_defect_None st g t ds :
  deps_defect st g t ds = None -> forall dl d, In dl ds -> lookup g dl = Some d -> dep_defect st t d = None.
Proof.
  induction ds as [|x ds IH]; cbn [deps_defect]; intros Hn dl d Hin Hl; [destruct Hin|].
  destruct Hin as [->|Hin].
  - rewrite Hl in Hn. destruct (dep_defect st t d); [discriminate | reflexivity].
  - destruct (lookup g x) as [dx|].
    + destruct (dep_defect st t dx); [discriminate|]. exact (IH Hn dl d Hin Hl).
    + exact (IH Hn dl d Hin Hl).
Qed.

(* ------------------------------------------------------------------ the theorems *)

(* unconditional: the check never rejects a build that the documented rules allow *)
Theorem check_sound st g t : resolvable g t -> failed (check_visibility st g t) -> violation st g t.
Proof.
  intros Hres Hf. apply (check_deps_failed st g t (t_deps t) Hres) in Hf.
  destruct Hf as [dl [d [Hin [Hl Hb]]]]. exists dl, d. split; [exact Hin|]. split; [exact Hl|].
  apply dep_bad_sound. exact Hb.
Qed.

(* outside the three listed defect classes the check fails exactly when the rules are violated *)
Theorem check_exact st g t :
  resolvable g t -> defect_class st g t = None ->
  (failed (check_visibility st g t) <-> violation st g t).
Proof.
  intros Hres Hnd. split; [apply check_sound; exact Hres|].
  intros [dl [d [Hin [Hl Hbad]]]]. apply (check_deps_failed st g t (t_deps t) Hres).
  exists dl, d. split; [exact Hin|]. split; [exact Hl|].
  apply dep_bad_complete; [|exact Hbad].
  exact (deps_defect_None st g t (t_deps t) Hnd dl d Hin Hl).
Qed.

(* the error names the FIRST declared dependency (in declaration order) that the loop rejects *)
Lemma check_deps_first st g t ds :
  forall dep, check_deps st g t ds = RInvisible dep \/ check_deps st g t ds = RTestOnly dep ->
  exists pre dl d post, ds = pre ++ dl :: post /\ lookup g dl = Some d /\ t_label d = dep
    /\ dep_bad st t d = true
    /\ (forall x dx, In x pre -> lookup g x = Some dx -> dep_bad st t dx = false).
Proof.
  induction ds as [|dl ds IH]; cbn [check_deps]; intros dep Hr.
  - destruct Hr as [Hr|Hr]; discriminate.
  - destruct (lookup g dl) as [d|] eqn:Hd; [|destruct Hr as [Hr|Hr]; discriminate].
    fold (tov_b t d) in Hr.
    destruct (can_see st (t_label t) d) eqn:Hc; cbn [negb] in Hr.
    + destruct (tov_b t d) eqn:Ht; [destruct (is_experimental st (t_label t)) eqn:He|].
      * destruct (IH dep Hr) as [pre [x [dx [post [Hds [Hl [Hlab [Hb Hpre]]]]]]]].
        exists (dl :: pre), x, dx, post. split; [cbn; rewrite Hds; reflexivity|]. repeat split; try assumption.
        intros y dy [<-|Hy] Hly; [|exact (Hpre y dy Hy Hly)].
        rewrite Hd in Hly. injection Hly as <-. unfold dep_bad. rewrite Hc, Ht, He. reflexivity.
      * exists [], dl, d, ds. split; [reflexivity|]. split; [exact Hd|].
        destruct Hr as [Hr|Hr]; [discriminate|]. injection Hr as Hr. split; [exact Hr|]. split.
        -- unfold dep_bad. rewrite Hc, Ht, He. reflexivity.
        -- intros ? ? [].
      * destruct (IH dep Hr) as [pre [x [dx [post [Hds [Hl [Hlab [Hb Hpre]]]]]]]].
        exists (dl :: pre), x, dx, post. split; [cbn; rewrite Hds; reflexivity|]. repeat split; try assumption.
        intros y dy [<-|Hy] Hly; [|exact (Hpre y dy Hy Hly)].
        rewrite Hd in Hly. injection Hly as <-. unfold dep_bad. rewrite Hc, Ht. reflexivity.
    + exists [], dl, d, ds. split; [reflexivity|]. split; [exact Hd|].
      destruct Hr as [Hr|Hr]; [|discriminate]. injection Hr as Hr. split; [exact Hr|]. split.
      * unfold dep_bad. rewrite Hc. reflexivity.
      * intros ? ? [].
Qed.

(* the error names the first declared dependency that violates the rules *)
Theorem check_first st g t dep :
  resolvable g t -> defect_class st g t = None ->
  check_visibility st g t = RInvisible dep \/ check_visibility st g t = RTestOnly dep ->
  exists pre dl d post, t_deps t = pre ++ dl :: post /\ lookup g dl = Some d /\ t_label d = dep
    /\ dep_bad_spec st t d
    /\ (forall x dx, In x pre -> lookup g x = Some dx -> ~ dep_bad_spec st t dx).
Proof.
  intros Hres Hnd Hr. destruct (check_deps_first st g t (t_deps t) dep Hr)
    as [pre [dl [d [post [Hds [Hl [Hlab [Hb Hpre]]]]]]]].
  exists pre, dl, d, post. repeat split; try assumption.
  - apply dep_bad_sound. exact Hb.
  - intros x dx Hx Hlx Hbad.
    assert (Hin : In x (t_deps t)) by (rewrite Hds; apply in_or_app; left; exact Hx).
    pose proof (deps_defect_None st g t (t_deps t) Hnd x dx Hin Hlx) as Hndx.
    pose proof (Hpre x dx Hx Hlx) as Hf. rewrite (dep_bad_complete st t dx Hndx Hbad) in Hf. discriminate Hf.
Qed.

(* ------------------------------------------------------------------ the full statement and its refutations *)

Definition exactness : Prop :=
  forall st g t, resolvable g t -> (failed (check_visibility st g t) <-> violation st g t).

(* (a) @s//p:y depends on the private //p:priv of the host repository: CanSee compares package NAMES *)
Definition wa_dep : target := mkTarget (mkLabel (s "") (s "p") (s "priv")) [] false false [].
Definition wa_t : target := mkTarget (mkLabel (s "s") (s "p") (s "y")) [] false false [t_label wa_dep].

Lemma wa_passes : check_visibility [] [wa_dep] wa_t = ROk.
Proof. vm_compute. reflexivity. Qed.

Lemma wa_resolvable : resolvable [wa_dep] wa_t.
Proof. intros dl [<-|[]]. exists wa_dep. vm_compute. reflexivity. Qed.

Lemma wa_violation : violation [] [wa_dep] wa_t.
Proof.
  exists (t_label wa_dep), wa_dep. split; [left; reflexivity|]. split; [vm_compute; reflexivity|].
  left. intros [[Hs _] | [_ [[v [o [[] _]]] | [_ [d [[] _]]]]]]. discriminate Hs.
Qed.

Lemma refuted_same_package_name : ~ exactness.
Proof.
  intros H. pose proof (proj2 (H [] [wa_dep] wa_t wa_resolvable) wa_violation) as Hf.
  rewrite wa_passes in Hf. exact Hf.
Qed.

(* (b) //p:vis is visible to //q/... of the host repository; @s//q:z is let in: Includes ignores Subrepo *)
Definition wb_dep : target := mkTarget (mkLabel (s "") (s "p") (s "vis")) [mkLabel (s "") (s "q") dots] false false [].
Definition wb_t : target := mkTarget (mkLabel (s "s") (s "q") (s "z")) [] false false [t_label wb_dep].

Lemma wb_passes : check_visibility [] [wb_dep] wb_t = ROk.
Proof. vm_compute. reflexivity. Qed.

Lemma wb_resolvable : resolvable [wb_dep] wb_t.
Proof. intros dl [<-|[]]. exists wb_dep. vm_compute. reflexivity. Qed.

Lemma wb_violation : violation [] [wb_dep] wb_t.
Proof.
  exists (t_label wb_dep), wb_dep. split; [left; reflexivity|]. split; [vm_compute; reflexivity|].
  left. intros [[_ Hp] | [_ [[v [o [Hin [[Hos _] Hsel]]]] | [_ [d [[] _]]]]]].
  - discriminate Hp.
  - destruct Hin as [<-|[]]. destruct Hsel as [[Hpub _] | [Hsub _]].
    + discriminate Hpub.
    + cbn in Hsub, Hos. rewrite Hos in Hsub. discriminate Hsub.
Qed.

Lemma refuted_pattern_other_subrepo : ~ exactness.
Proof.
  intros H. pose proof (proj2 (H [] [wb_dep] wb_t wb_resolvable) wb_violation) as Hf.
  rewrite wb_passes in Hf. exact Hf.
Qed.

(* (c) a plain target in the experimental tree depends on a test_only target: the restriction is suppressed *)
Definition wc_dep : target := mkTarget (mkLabel (s "") (s "lib") (s "t")) [mkLabel (s "") (s "") dots] false true [].
Definition wc_t : target := mkTarget (mkLabel (s "") (s "experimental/u") (s "x")) [] false false [t_label wc_dep].
Definition wc_st : state := [s "experimental"].

Lemma wc_passes : check_visibility wc_st [wc_dep] wc_t = ROk.
Proof. vm_compute. reflexivity. Qed.

Lemma wc_resolvable : resolvable [wc_dep] wc_t.
Proof. intros dl [<-|[]]. exists wc_dep. vm_compute. reflexivity. Qed.

Lemma wc_violation : violation wc_st [wc_dep] wc_t.
Proof.
  exists (t_label wc_dep), wc_dep. split; [left; reflexivity|]. split; [vm_compute; reflexivity|].
  right. repeat split.
Qed.

Lemma refuted_testonly_experimental : ~ exactness.
Proof.
  intros H. pose proof (proj2 (H wc_st [wc_dep] wc_t wc_resolvable) wc_violation) as Hf.
  rewrite wc_passes in Hf. exact Hf.
Qed.

(* the classifier recognises each witness as its own class *)
Lemma witnesses_classified :
  defect_class [] [wa_dep] wa_t = Some SamePackageNameOtherSubrepo
  /\ defect_class [] [wb_dep] wb_t = Some PatternMatchesOtherSubrepo
  /\ defect_class wc_st [wc_dep] wc_t = Some TestOnlyAllowedFromExperimental.
Proof. vm_compute. repeat split. Qed.

(* ------------------------------------------------------------------ the partial theorem *)

Definition partial_statement : Prop :=
  (* outside the three classes: exactly the documented rules *)
  (forall st g t, resolvable g t -> defect_class st g t = None ->
     (failed (check_visibility st g t) <-> violation st g t))
  (* always: a build that the rules allow is never rejected *)
  /\ (forall st g t, resolvable g t -> failed (check_visibility st g t) -> violation st g t)
  (* outside the three classes: the error names the first offending declared dependency *)
  /\ (forall st g t dep, resolvable g t -> defect_class st g t = None ->
        check_visibility st g t = RInvisible dep \/ check_visibility st g t = RTestOnly dep ->
        exists pre dl d post, t_deps t = pre ++ dl :: post /\ lookup g dl = Some d /\ t_label d = dep
          /\ (~ visible_spec st (t_label t) d \/ testonly_violation t d)
          /\ (forall x dx, In x pre -> lookup g x = Some dx ->
                ~ (~ visible_spec st (t_label t) dx \/ testonly_violation t dx)))
  (* a single-repository build (every label and pattern in the host repository) outside the
     experimental tree is in no defect class *)
  /\ (forall st g t, l_sub (t_label t) = [] -> is_experimental st (t_label t) = false ->
        (forall dl d, In dl (t_deps t) -> lookup g dl = Some d ->
           l_sub (t_label d) = [] /\ forall v, In v (t_vis d) -> l_sub v = []) ->
        defect_class st g t = None).

Lemma single_repo_no_defect st g t :
  l_sub (t_label t) = [] -> is_experimental st (t_label t) = false ->
  (forall dl d, In dl (t_deps t) -> lookup g dl = Some d ->
     l_sub (t_label d) = [] /\ forall v, In v (t_vis d) -> l_sub v = []) ->
  defect_class st g t = None.
Proof.
  intros Hs He Hall. unfold defect_class.
  assert (Hgen : forall ds, (forall dl, In dl ds -> In dl (t_deps t)) -> deps_defect st g t ds = None).
  { induction ds as [|dl ds IH]; intros Hsub; cbn [deps_defect]; [reflexivity|].
    assert (IH' : deps_defect st g t ds = None) by (apply IH; intros x Hx; apply Hsub; right; exact Hx).
    destruct (lookup g dl) as [d|] eqn:Hl; [|exact IH'].
    destruct (Hall dl d (Hsub dl (or_introl eq_refl)) Hl) as [Hds Hvs].
    unfold dep_defect. rewrite Hs, Hds, str_eqb_refl. cbn [negb]. rewrite andb_false_r.
    assert (Hex : existsb (fun v => includes v (parent (t_label t)) && negb (is_publicb v)
                                    && negb (str_eqb (l_sub v) [])) (t_vis d) = false).
    { destruct (existsb _ (t_vis d)) eqn:Hex; [|reflexivity].
      apply existsb_exists in Hex. destruct Hex as [v [Hin Hv]]. rewrite (Hvs v Hin) in Hv.
      cbn in Hv. rewrite andb_false_r in Hv. discriminate. }
    rewrite Hex, He, andb_false_r. exact IH'. }
  apply Hgen. auto.
Qed.

Theorem partial_holds : partial_statement.
Proof.
  split; [exact check_exact|]. split; [exact check_sound|]. split; [|exact single_repo_no_defect].
  intros st g t dep Hres Hnd Hr. exact (check_first st g t dep Hres Hnd Hr).
Qed.

(* non-vacuity material: a single-repository tree with shared-prefix siblings and a hidden child *)
Definition ex_graph : graph :=
  [ mkTarget (mkLabel [] (s "p") (s "lib")) [mkLabel [] (s "p/q") all_; mkLabel [] (s "pf") dots] false false [];
    mkTarget (mkLabel [] (s "third_party") (s "mock")) [mkLabel [] [] dots] false true [];
    mkTarget (mkLabel [] (s "p/q/r") (s "deep")) [mkLabel [] (s "p/q") (s "bin")] false false [] ].
(* pfoo is a textual, not a path, extension of pf: //pfoo:x is NOT covered by //pf/... *)
Definition ex_bad : target :=
  mkTarget (mkLabel [] (s "pfoo") (s "x")) [] false false [mkLabel [] (s "p") (s "lib")].
(* the hidden child _bin#pex of //p/q:bin sees what //p/q:bin may see *)
Definition ex_good : target :=
  mkTarget (mkLabel [] (s "p/q") (s "_bin#pex")) [] false false
           [mkLabel [] (s "p") (s "lib"); mkLabel [] (s "p/q/r") (s "deep")].
Definition ex_test : target :=
  mkTarget (mkLabel [] (s "p/q") (s "bin_test")) [] true false
           [mkLabel [] (s "third_party") (s "mock"); mkLabel [] (s "p") (s "lib")].
Definition ex_prod : target :=
  mkTarget (mkLabel [] (s "p/q") (s "bin")) [] false false
           [mkLabel [] (s "p") (s "lib"); mkLabel [] (s "third_party") (s "mock")].
