(* C16 - sorted(key=, reverse=) is a stable sort in the direction CPython sorts, and d | e is a new dict, for ALL inputs.
   Both are proved about the definitions gotrans regenerates from builtins.go / objects.go (Gen/C16Builtins.v). *)
From Coq Require Import String Lia Permutation Sorted.
From PlzV Require Import Base.Harness Base.StrFacts Gen.C16Builtins.
From PlzV Require Import Model.C16_Syntax Model.C16_Ops Model.C16_Prim Model.C16_Eval Model.C16_Sort Proof.C16_Int.
Local Open Scope list_scope.

(* ================================================================ insertionSortLessFunc, generically *)
Section Isort.
  Variable A : Type.
  Variable less : A -> A -> bool.

  Lemma ins_r_perm : forall x rs, Permutation (ins_r less x rs) (x :: rs).
  Proof.
    intros x rs. induction rs as [|y r IH]; cbn [ins_r]; [reflexivity|].
    destruct (less x y); [|reflexivity].
    rewrite IH. apply perm_swap.
  Qed.

  Lemma fold_ins_perm : forall l acc, Permutation (fold_left (fun a x => ins_r less x a) l acc) (l ++ acc).
  Proof.
    induction l as [|x l IH]; intros acc; cbn [fold_left app]; [reflexivity|].
    rewrite IH, ins_r_perm. symmetry. apply Permutation_middle.
  Qed.

  (* 1. the result is a permutation of the input *)
  Lemma go_isort_perm : forall l, Permutation (go_isort less l) l.
  Proof.
    intros l. unfold go_isort. rewrite <- Permutation_rev, fold_ins_perm, app_nil_r. reflexivity.
  Qed.

  (* 2. stability: a class of elements none of which is `less` than another keeps its input order *)
  Section Stable.
    Variable cls : A -> bool.
    Hypothesis cls_sep : forall x y, less x y = true -> cls x = true -> cls y = true -> False.

    Lemma ins_r_filter : forall x rs, filter cls (ins_r less x rs) = filter cls (x :: rs).
    Proof.
      intros x rs. induction rs as [|y r IH]; cbn [ins_r]; [reflexivity|].
      destruct (less x y) eqn:L; [|reflexivity].
      cbn [filter] in *. rewrite IH.
      destruct (cls x) eqn:Cx, (cls y) eqn:Cy; try reflexivity.
      exfalso. exact (cls_sep x y L Cx Cy).
    Qed.

    Lemma fold_ins_filter : forall l acc,
      filter cls (fold_left (fun a x => ins_r less x a) l acc) = filter cls (rev l ++ acc).
    Proof.
      induction l as [|x l IH]; intros acc; cbn [fold_left rev app]; [reflexivity|].
      rewrite IH, !filter_app, ins_r_filter, <- app_assoc. cbn [filter app].
      destruct (cls x); reflexivity.
    Qed.

    Lemma filter_rev' : forall l : list A, filter cls (rev l) = rev (filter cls l).
    Proof.
      induction l as [|x l IH]; [reflexivity|]. cbn [rev filter]. rewrite filter_app, IH. cbn [filter].
      destruct (cls x); cbn [rev]; [reflexivity|apply app_nil_r].
    Qed.

    Lemma go_isort_stable : forall l, filter cls (go_isort less l) = filter cls l.
    Proof.
      intros l. unfold go_isort. rewrite filter_rev', fold_ins_filter, app_nil_r, filter_rev', rev_involutive. reflexivity.
    Qed.
  End Stable.

  (* 3. the result is sorted: no element is `less` than one that stands before it *)
  Section Ordered.
    Hypothesis less_asym : forall x y, less x y = true -> less y x = false.
    Hypothesis less_negtrans : forall x y z, less x y = false -> less y z = false -> less x z = false.

    Definition rsorted (rs : list A) : Prop := StronglySorted (fun a b => less a b = false) rs.

    Lemma ins_r_sorted : forall x rs, rsorted rs -> rsorted (ins_r less x rs).
    Proof.
      intros x rs. induction rs as [|y r IH]; intros H; cbn [ins_r].
      - constructor; constructor.
      - apply StronglySorted_inv in H. destruct H as [Hr Hy].
        destruct (less x y) eqn:L.
        + constructor; [exact (IH Hr)|].
          eapply Permutation_Forall; [symmetry; apply ins_r_perm|].
          constructor; [exact (less_asym x y L)|exact Hy].
        + constructor; [constructor; assumption|].
          constructor; [exact L|].
          eapply Forall_impl; [|exact Hy]. intros b Hb. exact (less_negtrans x y b L Hb).
    Qed.

    Lemma fold_ins_sorted : forall l acc, rsorted acc -> rsorted (fold_left (fun a x => ins_r less x a) l acc).
    Proof. induction l as [|x l IH]; intros acc H; cbn [fold_left]; [exact H|]. apply IH, ins_r_sorted, H. Qed.

    Lemma ssorted_snoc : forall (R : A -> A -> Prop) l a,
      StronglySorted R l -> Forall (fun b => R b a) l -> StronglySorted R (l ++ [a]).
    Proof.
      intros R l a. induction l as [|x l IH]; intros H F; cbn [app].
      - constructor; constructor.
      - apply StronglySorted_inv in H. destruct H as [Hl Hx]. inversion F; subst.
        constructor; [apply IH; assumption|].
        apply Forall_app. split; [exact Hx|]. constructor; [assumption|constructor].
    Qed.

    Lemma ssorted_rev : forall (R : A -> A -> Prop) l,
      StronglySorted R l -> StronglySorted (fun a b => R b a) (rev l).
    Proof.
      intros R l. induction l as [|x l IH]; intros H; cbn [rev]; [constructor|].
      apply StronglySorted_inv in H. destruct H as [Hl Hx].
      apply ssorted_snoc; [exact (IH Hl)|].
      apply Forall_rev. exact Hx.
    Qed.

    Lemma go_isort_sorted : forall l, StronglySorted (fun a b => less b a = false) (go_isort less l).
    Proof.
      intros l. unfold go_isort.
      apply (ssorted_rev (fun a b => less a b = false)). apply fold_ins_sorted. constructor.
    Qed.
  End Ordered.
End Isort.

(* ================================================================ the order on keys *)
Lemma key_cmp_refl : forall a, key_cmp a a = Datatypes.Eq.
Proof. intros [x|x]; cbn [key_cmp]; [apply Z.compare_refl|apply str_cmp_refl]. Qed.

Lemma key_cmp_eq : forall a b, key_cmp a b = Datatypes.Eq -> a = b.
Proof.
  intros [x|x] [y|y]; cbn [key_cmp]; intros H; try discriminate.
  - apply Z.compare_eq in H. now subst.
  - apply str_cmp_eq in H. now subst.
Qed.

Lemma key_cmp_antisym : forall a b, key_cmp b a = CompOpp (key_cmp a b).
Proof.
  intros [x|x] [y|y]; cbn [key_cmp]; try reflexivity.
  - apply Z.compare_antisym.
  - apply str_cmp_antisym.
Qed.

Lemma key_cmp_lt_trans : forall a b c, key_cmp a b = Datatypes.Lt -> key_cmp b c = Datatypes.Lt -> key_cmp a c = Datatypes.Lt.
Proof.
  intros [x|x] [y|y] [z|z]; cbn [key_cmp]; intros H1 H2; try discriminate; try reflexivity.
  - rewrite Z.compare_lt_iff in *. lia.
  - eapply str_cmp_lt_trans; eassumption.
Qed.

Lemma key_lt_asym : forall a b, key_lt a b = true -> key_lt b a = false.
Proof.
  intros a b. unfold key_lt. rewrite (key_cmp_antisym a b). destruct (key_cmp a b); cbn [CompOpp]; congruence.
Qed.

Lemma key_lt_negtrans : forall a b c, key_lt a b = false -> key_lt b c = false -> key_lt a c = false.
Proof.
  intros a b c. unfold key_lt. intros H1 H2.
  destruct (key_cmp a c) eqn:Eac; try reflexivity. exfalso.
  destruct (key_cmp a b) eqn:Eab; try discriminate.
  - apply key_cmp_eq in Eab. subst b. rewrite Eac in H2. discriminate.
  - assert (Eba : key_cmp b a = Datatypes.Lt) by (rewrite (key_cmp_antisym a b), Eab; reflexivity).
    rewrite (key_cmp_lt_trans b a c Eba Eac) in H2. discriminate.
Qed.

Lemma key_less_asym : forall o a b, key_less o a b = true -> key_less o b a = false.
Proof. intros [] a b; cbn [key_less]; apply key_lt_asym. Qed.

Lemma key_less_negtrans : forall o a b c, key_less o a b = false -> key_less o b c = false -> key_less o a c = false.
Proof.
  intros [] a b c; cbn [key_less]; intros H1 H2.
  - exact (key_lt_negtrans a b c H1 H2).
  - exact (key_lt_negtrans c b a H2 H1).
Qed.

Lemma key_less_irrefl_class : forall o k a b, key_less o a b = true -> key_eqb a k = true -> key_eqb b k = true -> False.
Proof.
  intros o k a b L Ha Hb. unfold key_eqb in *.
  destruct (key_cmp a k) eqn:Ea; try discriminate. destruct (key_cmp b k) eqn:Eb; try discriminate.
  apply key_cmp_eq in Ea, Eb. subst a b.
  destruct o; cbn [key_less] in L; unfold key_lt in L; rewrite key_cmp_refl in L; discriminate.
Qed.

(* ================================================================ sorted() of the current source *)
(* what gotrans read off builtins.go: the comparison is `<` (`>` for reverse=True) on the keys, nothing follows the sort,
   and both branches call the STABLE sort (with sort.Slice the model - and the proof below - only cover 12 elements) *)
Lemma sorted_source_shape :
  (forall rv, sort_op_of (sorted_op_key rv) = Some (if rv then SGt else SLt))
  /\ (forall rv, sort_op_of (sorted_op_nokey rv) = Some (if rv then SGt else SLt))
  /\ sorted_post_reverse = false /\ sorted_clones = true
  /\ sort_fn_of sorted_fn_key = Some FStable /\ sort_fn_of sorted_fn_nokey = Some FStable.
Proof. repeat split; intros []; reflexivity. Qed.

(* hence the model covers lists of EVERY length *)
Lemma asp_sorted_perm_all_lengths : forall keys rv,
  same_kind keys = true -> exists r, asp_sorted_perm keys rv = Some (map (@snd _ _) r) /\ asp_sorted rv (tag keys) = Some r.
Proof.
  intros keys rv K. unfold asp_sorted_perm.
  rewrite (proj1 (proj2 (proj2 (proj2 (proj2 sorted_source_shape))))). cbn [modelled_length negb orb]. rewrite K. cbn [negb].
  destruct (asp_sorted rv (tag keys)) as [r|] eqn:E.
  - exists r. split; reflexivity.
  - unfold asp_sorted in E. rewrite (proj1 sorted_source_shape rv) in E. discriminate.
Qed.

Lemma asp_sorted_eq : forall rv l,
  asp_sorted rv l = Some (go_isort (fun a b => key_less (if rv then SGt else SLt) (fst a) (fst b)) l).
Proof.
  intros rv l. unfold asp_sorted. rewrite (proj1 sorted_source_shape rv). unfold sorted_by.
  rewrite (proj1 (proj2 (proj2 sorted_source_shape))). reflexivity.
Qed.

(* `a` may stand before `b` in the result: ascending - b's key is not smaller; reverse=True - b's key is not larger *)
Definition in_order (rv : bool) (a b : keyed) : Prop :=
  if rv then key_lt (fst a) (fst b) = false else key_lt (fst b) (fst a) = false.

(* For EVERY list (any length, any keys) and both directions: sorted(key=, reverse=) returns a permutation of its input,
   ordered by key in the requested direction, in which the elements of equal key stand in their INPUT order - the
   three properties that make CPython's sorted() (a stable sort; reverse=True "as if each comparison were reversed",
   which keeps equal elements in their original order) return this very list. *)
Theorem asp_sorted_stable : forall (rv : bool) (l r : list keyed),
  asp_sorted rv l = Some r ->
  Permutation r l
  /\ StronglySorted (in_order rv) r
  /\ (forall k, filter (fun x => key_eqb (fst x) k) r = filter (fun x => key_eqb (fst x) k) l).
Proof.
  intros rv l r H. rewrite asp_sorted_eq in H. injection H as <-.
  set (less := fun a b : keyed => key_less (if rv then SGt else SLt) (fst a) (fst b)).
  split; [apply go_isort_perm|]. split.
  - assert (S : StronglySorted (fun a b => less b a = false) (go_isort less l)).
    { apply go_isort_sorted.
      - intros x y. apply key_less_asym.
      - intros x y z. apply key_less_negtrans. }
    eapply StronglySorted_ind with (P := fun l0 => StronglySorted (in_order rv) l0); [constructor| |exact S].
    intros a l0 _ IH F. constructor; [exact IH|].
    eapply Forall_impl; [|exact F]. intros b Hb. unfold less in Hb. unfold in_order.
    destruct rv; cbn [key_less] in Hb; exact Hb.
  - intros k. apply go_isort_stable. intros x y L Cx Cy.
    exact (key_less_irrefl_class _ k (fst x) (fst y) L Cx Cy).
Qed.

(* ================================================================ dict union *)
Lemma env_set_fresh : forall k v (acc : list (str * value)),
  ~ List.In k (map (@fst _ _) acc) -> env_set k v acc = acc ++ [(k, v)].
Proof.
  intros k v acc. induction acc as [|[k0 w] r IH]; intros H; cbn [env_set app]; [reflexivity|].
  cbn [map fst List.In] in H.
  destruct (str_eqb k k0) eqn:E.
  - apply str_eqb_eq in E. subst. exfalso. apply H. now left.
  - rewrite IH; [reflexivity|]. intros Hin. apply H. now right.
Qed.

Lemma merge_into_disjoint : forall (src acc : list (str * value)),
  NoDup (map (@fst _ _) src) -> (forall k, List.In k (map (@fst _ _) src) -> ~ List.In k (map (@fst _ _) acc)) ->
  dict_merge_into acc src = acc ++ src.
Proof.
  unfold dict_merge_into. induction src as [|[k v] r IH]; intros acc ND Hd; cbn [fold_left]; [now rewrite app_nil_r|].
  cbn [map fst] in ND. inversion ND as [|? ? Hk ND']; subst. cbn [fst snd].
  rewrite env_set_fresh by (apply Hd; now left).
  rewrite IH; [now rewrite <- app_assoc|exact ND'|].
  intros k0 Hin. rewrite map_app, in_app_iff. cbn [map fst List.In]. intros [Ha|[<-|[]]].
  - exact (Hd k0 (or_intror Hin) Ha).
  - exact (Hk Hin).
Qed.

(* what gotrans read off objects.go is the union of the evaluator (Model/C16_Eval.v apply_bin), on every well-formed dict *)
Lemma union_translated_is_apply_bin : forall fuel i j st,
  nodup_keys (dict_of st i) ->
  apply_bin Asp fuel Union (VDict i) (VDict j) st = union_translated i j st.
Proof.
  intros fuel i j st ND. unfold union_translated, dict_union_steps. cbn [run_union uside_dict].
  unfold apply_bin. cbv beta iota zeta.
  rewrite (merge_into_disjoint (dict_of st i) [] ND) by (intros k _ []).
  reflexivity.
Qed.

(* For ALL operands and states: d | e returns a dict that did not exist before, writes no list and no existing dict. *)
Theorem dict_union_always_fresh : forall i j st v st',
  union_translated i j st = Ok (v, st') ->
  v = VDict (length (dicts st))
  /\ arrays st' = arrays st
  /\ dicts st' = dicts st ++ [dict_merge_into (dict_merge_into [] (dict_of st i)) (dict_of st j)].
Proof.
  intros i j st v st'. unfold union_translated, dict_union_steps. cbn [run_union uside_dict]. unfold alloc_dict.
  intros H. injection H as <- <-. repeat split.
Qed.

Lemma nth_list_set_other : forall {A} (l : list A) a n x d, a <> n -> nth a (list_set n x l) d = nth a l d.
Proof.
  intros A l. induction l as [|y l IH]; intros a n x d Hne; destruct n, a; cbn [list_set nth]; try reflexivity; try congruence.
  apply IH. congruence.
Qed.

(* ... hence a later store into the result is invisible in every dict that existed before (the operands included),
   and a later store into any of those is invisible in the result *)
Corollary dict_union_independent : forall i j st n st' k x a,
  union_translated i j st = Ok (VDict n, st') -> (a < length (dicts st))%nat ->
  dict_of (dict_store n k x st') a = dict_of st a
  /\ dict_of (dict_store a k x st') n = dict_of st' n.
Proof.
  intros i j st n st' k x a H Ha.
  destruct (dict_union_always_fresh i j st _ _ H) as (Hn & _ & Hd). injection Hn as ->.
  unfold dict_of, dict_store. cbn [dicts set_dicts].
  assert (Hne : a <> length (dicts st)) by lia.
  split.
  - rewrite nth_list_set_other by exact Hne. rewrite Hd. apply app_nth1. exact Ha.
  - apply nth_list_set_other. congruence.
Qed.

(* ================================================================ the three properties determine the result *)
Lemma key_eqb_refl : forall a, key_eqb a a = true.
Proof. intros a. unfold key_eqb. now rewrite key_cmp_refl. Qed.

Lemma in_order_both_eq : forall rv a b, in_order rv a b -> in_order rv b a -> key_eqb (fst a) (fst b) = true.
Proof.
  intros rv a b H1 H2. unfold in_order, key_lt, key_eqb in *.
  assert (Hab : key_cmp (fst a) (fst b) <> Datatypes.Lt /\ key_cmp (fst b) (fst a) <> Datatypes.Lt).
  { destruct rv; split; intros E; rewrite E in *; discriminate. }
  destruct Hab as [Hab Hba]. rewrite (key_cmp_antisym (fst a) (fst b)) in Hba.
  destruct (key_cmp (fst a) (fst b)); cbn [CompOpp] in Hba; congruence.
Qed.

(* Any list that is a permutation of the input, ordered by key in the requested direction, and keeps every class of equal
   keys in input order IS the list sorted() returns: CPython's contract for sorted() leaves no other result. *)
Lemma stable_sorted_unique : forall rv (r1 r2 : list keyed),
  Permutation r1 r2 -> StronglySorted (in_order rv) r1 -> StronglySorted (in_order rv) r2 ->
  (forall k, filter (fun x => key_eqb (fst x) k) r1 = filter (fun x => key_eqb (fst x) k) r2) -> r1 = r2.
Proof.
  intros rv. induction r1 as [|a r1 IH]; intros r2 P S1 S2 F.
  - apply Permutation_nil in P. now subst.
  - destruct r2 as [|b r2]; [apply Permutation_sym, Permutation_nil in P; discriminate|].
    assert (Hab : a = b).
    { assert (Ia : List.In a (b :: r2)) by (eapply Permutation_in; [exact P|now left]).
      assert (Ib : List.In b (a :: r1)) by (eapply Permutation_in; [symmetry; exact P|now left]).
      destruct Ia as [Ia|Ia]; [now subst|]. destruct Ib as [Ib|Ib]; [now subst|].
      pose proof (proj2 (StronglySorted_inv S1)) as Fa. pose proof (proj2 (StronglySorted_inv S2)) as Fb.
      rewrite Forall_forall in Fa, Fb.
      pose proof (in_order_both_eq rv a b (Fa b Ib) (Fb a Ia)) as E.
      specialize (F (fst b)). cbn [filter] in F. rewrite E, key_eqb_refl in F. now injection F. }
    subst b. f_equal. apply IH.
    + eapply Permutation_cons_inv; exact P.
    + exact (proj1 (StronglySorted_inv S1)).
    + exact (proj1 (StronglySorted_inv S2)).
    + intros k. specialize (F k). cbn [filter] in F. destruct (key_eqb (fst a) k); [now injection F|exact F].
Qed.

Theorem asp_sorted_is_the_stable_sort : forall (rv : bool) (l r r' : list keyed),
  asp_sorted rv l = Some r ->
  Permutation r' l -> StronglySorted (in_order rv) r' ->
  (forall k, filter (fun x => key_eqb (fst x) k) r' = filter (fun x => key_eqb (fst x) k) l) ->
  r' = r.
Proof.
  intros rv l r r' H P S F. destruct (asp_sorted_stable rv l r H) as (P0 & S0 & F0).
  apply (stable_sorted_unique rv); [|assumption|assumption|].
  - rewrite P, P0. reflexivity.
  - intros k. now rewrite F, F0.
Qed.

(* ================================================================ pyRange.Len (/repo 3ce4752) *)
(* the model's length of a range IS the body gotrans regenerates from objects.go (going back to (Stop - Start) / Step
   changes Gen.C16Builtins.pyrange_len and breaks this proof) *)
Lemma range_len_is_source : forall a b c, range_len a b c = pyrange_len wrap64 a b c.
Proof. reflexivity. Qed.

Lemma range_up_length : forall n a c, length (range_up n a c) = n.
Proof. induction n as [|n IH]; intros a c; cbn; [reflexivity|now rewrite IH]. Qed.

(* ... and it is the number of items asp's iteration yields, for EVERY range whose span does not overflow 64 bits: the
   capacity interpretList reserves for a comprehension is never negative (no makeslice panic) and never too small *)
Theorem range_len_counts_items : forall a b c items,
  range_items Asp a b c = Ok items -> in_int64 (b - a + c - 1) = true ->
  range_len a b c = Z.of_nat (length items).
Proof.
  intros a b c items H Hi. unfold range_items in H. unfold range_len.
  destruct (Z.gtb_spec c 0) as [Hc|Hc].
  - destruct (Z.ltb_spec a b) as [Hab|Hab].
    + destruct ((b - a + c - 1) / c >? range_bound)%Z; [discriminate|]. injection H as <-.
      replace (b <=? a)%Z with false by (symmetry; apply Z.leb_gt; lia).
      replace (c <=? 0)%Z with false by (symmetry; apply Z.leb_gt; lia). cbn [orb].
      rewrite (wrap64_id _ Hi), range_up_length.
      rewrite Z.quot_div_nonneg by lia. rewrite Z2Nat.id; [reflexivity|]. apply Z.div_pos; lia.
    + injection H as <-. replace (b <=? a)%Z with true by (symmetry; apply Z.leb_le; lia). reflexivity.
  - destruct (Z.eqb_spec c 0) as [Hz|Hz]; [discriminate|].
    destruct (a <? b)%Z; [discriminate|]. injection H as <-.
    replace (c <=? 0)%Z with true by (symmetry; apply Z.leb_le; lia). now rewrite Bool.orb_true_r.
Qed.
