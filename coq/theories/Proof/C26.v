(* C26 - proofs about the summary logic of Model/C26.v.  The counter conditions come from Gen/C26Counters.v
   (regenerated from the Go source on every run): the lemmas below unfold them, so a change of a condition in
   src/core/test_results.go breaks these proofs. *)
From PlzV Require Import Base.Harness Base.StrFacts Gen.C26Counters Model.C26.
From Coq Require Import Lia.

(* ------------------------------------------------------------------------------------------------ *)
(* specification vocabulary: the five outcome kinds of the property, decided from the executions only *)

Inductive kind := KPass | KFlaky | KFail | KError | KSkip.

Definition is_pass (e : exec) : bool := negb (e_fail e) && negb (e_err e) && negb (e_skip e).

Definition kind_of (es : list exec) : kind :=
  if existsb is_pass es then (if forallb is_pass es then KPass else KFlaky)
  else if existsb e_skip es then KSkip
  else if existsb e_err es then KError
  else KFail.

Definition kind_eqb (a b : kind) : bool :=
  match a, b with
  | KPass, KPass | KFlaky, KFlaky | KFail, KFail | KError, KError | KSkip, KSkip => true
  | _, _ => false
  end.

Definition count_kind (k : kind) (s : suite) : nat := count (fun c => kind_eqb (kind_of (c_execs c)) k) s.

(* every case carries at least one execution (true of everything the parsers and Add produce) *)
Definition wf (s : suite) : Prop := forall c, In c s -> c_execs c <> [].

(* the known defect class: a case that ran more than once and passed at least once is counted as a flake even
   when it never failed or errored (then it is also counted as passed) or when it was also skipped (then it is
   also counted as skipped) *)
Definition double (c : tcase) : bool :=
  has_success c && Nat.ltb 1 (length (c_execs c))
  && (has_skip c || (Nat.eqb (length (failures_of c)) 0 && Nat.eqb (length (errors_of c)) 0)).

Definition key (c : tcase) : str * str := (c_name c, c_class c).
Definition case_ok (c : tcase) : bool := has_success c || has_skip c.

(* ------------------------------------------------------------------------------------------------ *)
(* list facts *)

Lemma filter_disjoint_le {A} (p q : A -> bool) l :
  (forall x, p x = true -> q x = false) -> length (filter p l) + length (filter q l) <= length l.
Proof.
  intros Hpq. induction l as [|a l IH]; cbn; [lia|].
  destruct (p a) eqn:Hp; [rewrite (Hpq a Hp)|destruct (q a)]; cbn; lia.
Qed.

Lemma existsb_filter_pos {A} (p : A -> bool) l : existsb p l = true -> 0 < length (filter p l).
Proof. induction l as [|a l IH]; cbn; [discriminate|]. destruct (p a); cbn; [lia|exact IH]. Qed.

Lemma filter_len0_forallb {A} (p : A -> bool) l : Nat.eqb (length (filter p l)) 0 = forallb (fun x => negb (p x)) l.
Proof. induction l as [|a l IH]; cbn; [reflexivity|]. destruct (p a); cbn; [reflexivity|exact IH]. Qed.

Lemma filter_pos_existsb {A} (p : A -> bool) l : Nat.ltb 0 (length (filter p l)) = existsb p l.
Proof. induction l as [|a l IH]; cbn; [reflexivity|]. destruct (p a); cbn; [reflexivity|exact IH]. Qed.

Lemma count_cons p c s : count p (c :: s) = Nat.b2n (p c) + count p s.
Proof. unfold count. cbn. destruct (p c); reflexivity. Qed.

Lemma count_nil p : count p [] = 0.
Proof. reflexivity. Qed.

Lemma existsb_orb {A} (p q : A -> bool) l : existsb (fun x => p x || q x) l = existsb p l || existsb q l.
Proof.
  induction l as [|a l IH]; cbn; [reflexivity|]. rewrite IH.
  destruct (p a), (q a), (existsb p l), (existsb q l); reflexivity.
Qed.

Lemma existsb_repeat {A} (p : A -> bool) a n : existsb p (repeat a n) = Nat.ltb 0 n && p a.
Proof. induction n as [|n IH]; cbn; [reflexivity|]. rewrite IH. destruct (p a), n; reflexivity. Qed.

Lemma forallb_repeat {A} (p : A -> bool) a n : forallb p (repeat a n) = Nat.eqb n 0 || p a.
Proof. induction n as [|n IH]; cbn; [reflexivity|]. rewrite IH. destruct (p a), n; reflexivity. Qed.

(* ------------------------------------------------------------------------------------------------ *)
(* one case: the generated selector predicates in specification terms *)

Lemma on_success e : on_exec exec_Success e = is_pass e.
Proof. reflexivity. Qed.
Lemma on_skip e : on_exec exec_Skip e = e_skip e.
Proof. reflexivity. Qed.
Lemma on_failures e : on_exec exec_Failures e = e_fail e.
Proof. reflexivity. Qed.
Lemma on_errors e : on_exec exec_Errors e = e_err e.
Proof. reflexivity. Qed.

(* a passing execution and a failing (erroring) one are different executions *)
Lemma success_and_bad_two c :
  has_success c = true -> 0 < length (failures_of c) + length (errors_of c) -> 1 < length (c_execs c).
Proof.
  unfold has_success, failures_of, errors_of. intros Hs Hb.
  apply existsb_filter_pos in Hs.
  assert (Hf := filter_disjoint_le (on_exec exec_Success) (on_exec exec_Failures) (c_execs c)).
  assert (He := filter_disjoint_le (on_exec exec_Success) (on_exec exec_Errors) (c_execs c)).
  assert (D1 : forall x, on_exec exec_Success x = true -> on_exec exec_Failures x = false).
  { intros [f e k]. unfold on_exec, exec_Success, exec_Failures. cbn. destruct f; [discriminate|reflexivity]. }
  assert (D2 : forall x, on_exec exec_Success x = true -> on_exec exec_Errors x = false).
  { intros [f e k]. unfold on_exec, exec_Success, exec_Errors. cbn. destruct f, e; try discriminate; reflexivity. }
  specialize (Hf D1). specialize (He D2). lia.
Qed.

(* the five counters, on one case: exactly one of them counts it, plus the flake counter for the defect class *)
Lemma case_partition c :
  Nat.b2n (view cond_Passes c) + Nat.b2n (view cond_FlakyPasses c) + Nat.b2n (view cond_Failures c)
  + Nat.b2n (view cond_Errors c) + Nat.b2n (view cond_Skips c) = 1 + Nat.b2n (double c).
Proof.
  pose proof (success_and_bad_two c) as H2.
  unfold view, double, cond_Passes, cond_FlakyPasses, cond_Failures, cond_Errors, cond_Skips.
  destruct (has_success c), (has_skip c);
    destruct (length (failures_of c)) as [|nf], (length (errors_of c)) as [|ne];
    destruct (length (c_execs c)) as [|[|nx]]; cbn in *; try reflexivity;
    try (exfalso; assert (T : true = true) by reflexivity; specialize (H2 T); lia).
Qed.

Lemma all_succeeded_spec s : all_succeeded s = true <-> forall c, In c s -> case_ok c = true.
Proof.
  unfold all_succeeded. rewrite negb_true_iff. split.
  - intros H c Hc. destruct (case_ok c) eqn:E; [reflexivity|].
    assert (X : existsb (view cond_NotSucceeded) s = true).
    { apply existsb_exists. exists c. split; [exact Hc|].
      unfold view, cond_NotSucceeded. unfold case_ok in E. destruct (has_success c), (has_skip c); try discriminate; reflexivity. }
    rewrite X in H. discriminate.
  - intros H. destruct (existsb (view cond_NotSucceeded) s) eqn:E; [|reflexivity].
    apply existsb_exists in E. destruct E as [c [Hc Hv]]. specialize (H c Hc).
    unfold view, cond_NotSucceeded in Hv. unfold case_ok in H. destruct (has_success c), (has_skip c); discriminate.
Qed.

(* ------------------------------------------------------------------------------------------------ *)
(* T1: the counters against the number of cases *)

Theorem counters_partition s :
  passes s + flaky_passes s + failures s + errors s + skips s = tests s + count double s.
Proof.
  unfold passes, flaky_passes, failures, errors, skips, tests.
  induction s as [|c s IH]; [reflexivity|].
  rewrite !count_cons. cbn [length]. pose proof (case_partition c). lia.
Qed.

Corollary counters_sum_exact s :
  (forall c, In c s -> double c = false) ->
  passes s + flaky_passes s + failures s + errors s + skips s = tests s.
Proof.
  intros H. rewrite counters_partition.
  assert (Z : count double s = 0).
  { unfold count. induction s as [|c s IH]; [reflexivity|]. cbn. rewrite (H c (or_introl eq_refl)). apply IH.
    intros c' Hc'. apply H. right. exact Hc'. }
  lia.
Qed.

(* ------------------------------------------------------------------------------------------------ *)
(* T2: each counter against the outcome kinds *)

Lemma has_success_is c : has_success c = existsb is_pass (c_execs c).
Proof. reflexivity. Qed.
Lemma has_skip_is c : has_skip c = existsb e_skip (c_execs c).
Proof. reflexivity. Qed.

Lemma forallb_is_pass es :
  forallb is_pass es = forallb (fun x => negb (e_fail x)) es && forallb (fun x => negb (e_err x)) es && negb (existsb e_skip es).
Proof.
  induction es as [|[f e k] es IH]; cbn; [reflexivity|]. rewrite IH. unfold is_pass. cbn.
  destruct f, e, k; cbn; try reflexivity;
    destruct (forallb (fun x => negb (e_fail x)) es), (forallb (fun x => negb (e_err x)) es), (existsb e_skip es); reflexivity.
Qed.

Lemma forallb_nonempty_exists {A} (p : A -> bool) l : l <> [] -> forallb p l = true -> existsb p l = true.
Proof. destruct l as [|a l]; [congruence|]. cbn. intros _ H. apply andb_prop in H. destruct H as [H _]. rewrite H. reflexivity. Qed.

Lemma no_bad_all_pass es :
  existsb is_pass es = false -> existsb e_skip es = false -> existsb e_err es = false -> existsb e_fail es = false -> es = [].
Proof.
  destruct es as [|[f e k] es]; [reflexivity|]. cbn. unfold is_pass. cbn. destruct f, e, k; cbn; discriminate.
Qed.

Lemma forallb_negb_existsb {A} (p : A -> bool) l : forallb (fun x => negb (p x)) l = negb (existsb p l).
Proof. induction l as [|a l IH]; cbn; [reflexivity|]. rewrite IH. destruct (p a); reflexivity. Qed.

(* one case: the generated conditions against kind_of *)
Lemma case_kinds c :
  c_execs c <> [] ->
  view cond_Passes c = kind_eqb (kind_of (c_execs c)) KPass
  /\ view cond_Failures c = kind_eqb (kind_of (c_execs c)) KFail
  /\ view cond_Errors c = kind_eqb (kind_of (c_execs c)) KError
  /\ view cond_Skips c = (kind_eqb (kind_of (c_execs c)) KSkip || (kind_eqb (kind_of (c_execs c)) KFlaky && has_skip c))
  /\ view cond_FlakyPasses c = (kind_eqb (kind_of (c_execs c)) KFlaky
                                || (kind_eqb (kind_of (c_execs c)) KPass && Nat.ltb 1 (length (c_execs c)))).
Proof.
  intros Hne.
  pose proof (success_and_bad_two c) as H2.
  pose proof (forallb_nonempty_exists is_pass (c_execs c) Hne) as Hfe.
  pose proof (no_bad_all_pass (c_execs c)) as Hnb.
  unfold view, cond_Passes, cond_Failures, cond_Errors, cond_Skips, cond_FlakyPasses, kind_of.
  unfold failures_of, errors_of in *.
  rewrite !filter_len0_forallb, !filter_pos_existsb.
  rewrite forallb_is_pass in *.
  rewrite has_success_is, has_skip_is in *.
  change (fun x : exec => negb (on_exec exec_Failures x)) with (fun x : exec => negb (e_fail x)).
  change (fun x : exec => negb (on_exec exec_Errors x)) with (fun x : exec => negb (e_err x)).
  change (on_exec exec_Errors) with e_err. change (on_exec exec_Failures) with e_fail.
  rewrite !forallb_negb_existsb in *.
  assert (H2' : existsb is_pass (c_execs c) = true ->
                existsb e_err (c_execs c) = true \/ existsb e_fail (c_execs c) = true ->
                Nat.ltb 1 (length (c_execs c)) = true).
  { intros Hp Hb. apply Nat.ltb_lt. apply H2; [exact Hp|].
    change (on_exec exec_Errors) with e_err. change (on_exec exec_Failures) with e_fail.
    destruct Hb as [Hb|Hb]; apply existsb_filter_pos in Hb; lia. }
  assert (H3 : existsb is_pass (c_execs c) = true -> existsb e_skip (c_execs c) = true ->
               Nat.ltb 1 (length (c_execs c)) = true).
  { intros Hp Hk. apply Nat.ltb_lt. apply existsb_filter_pos in Hp. apply existsb_filter_pos in Hk.
    assert (D := filter_disjoint_le is_pass e_skip (c_execs c)).
    assert (X : forall x, is_pass x = true -> e_skip x = false).
    { intros [f e k]. unfold is_pass. cbn. destruct f, e, k; try discriminate; reflexivity. }
    specialize (D X). lia. }
  clear H2. set (big := Nat.ltb 1 (length (c_execs c))) in *.
  destruct (existsb is_pass (c_execs c)) eqn:Ep, (existsb e_skip (c_execs c)) eqn:Es,
    (existsb e_err (c_execs c)) eqn:Ee, (existsb e_fail (c_execs c)) eqn:Ef; cbn in *;
    repeat split; try reflexivity;
    try (exfalso; apply Hne; apply Hnb; reflexivity);
    try (rewrite (H2' eq_refl (or_introl eq_refl)); reflexivity);
    try (rewrite (H2' eq_refl (or_intror eq_refl)); reflexivity);
    try (rewrite (H3 eq_refl eq_refl); reflexivity);
    try (specialize (Hfe eq_refl); discriminate).
Qed.

Lemma count_ext p q s : (forall c, In c s -> p c = q c) -> count p s = count q s.
Proof.
  intros H. induction s as [|c s IH]; [reflexivity|]. rewrite !count_cons, (H c (or_introl eq_refl)), IH; [reflexivity|].
  intros c' Hc'. apply H. right. exact Hc'.
Qed.

Lemma count_orb_disjoint p q s :
  (forall c, In c s -> p c = true -> q c = false) -> count (fun c => p c || q c) s = count p s + count q s.
Proof.
  intros H. induction s as [|c s IH]; [reflexivity|]. rewrite !count_cons, IH.
  - specialize (H c (or_introl eq_refl)). destruct (p c); [rewrite (H eq_refl)|destruct (q c)]; cbn; lia.
  - intros c' Hc'. apply H. right. exact Hc'.
Qed.

Theorem counters_by_kind s :
  wf s ->
  passes s = count_kind KPass s
  /\ failures s = count_kind KFail s
  /\ errors s = count_kind KError s
  /\ skips s = count_kind KSkip s + count (fun c => kind_eqb (kind_of (c_execs c)) KFlaky && has_skip c) s
  /\ flaky_passes s = count_kind KFlaky s
                      + count (fun c => kind_eqb (kind_of (c_execs c)) KPass && Nat.ltb 1 (length (c_execs c))) s.
Proof.
  intros W. unfold passes, failures, errors, skips, flaky_passes, count_kind.
  repeat split.
  - apply count_ext. intros c Hc. apply (case_kinds c (W c Hc)).
  - apply count_ext. intros c Hc. apply (case_kinds c (W c Hc)).
  - apply count_ext. intros c Hc. apply (case_kinds c (W c Hc)).
  - rewrite <- count_orb_disjoint.
    + apply count_ext. intros c Hc. apply (case_kinds c (W c Hc)).
    + intros c _ H. destruct (kind_of (c_execs c)); try discriminate; reflexivity.
  - rewrite <- count_orb_disjoint.
    + apply count_ext. intros c Hc. apply (case_kinds c (W c Hc)).
    + intros c _ H. destruct (kind_of (c_execs c)); try discriminate; reflexivity.
Qed.

(* ------------------------------------------------------------------------------------------------ *)
(* Add / Collapse: keys and executions *)

Lemma same_key_iff o c : same_key o c = true <-> key o = key c.
Proof.
  unfold same_key, match_case, key. rewrite andb_true_iff, !str_eqb_eq. split.
  - intros [A B]. rewrite A, B. reflexivity.
  - intros H. inversion H. split; reflexivity.
Qed.

Lemma same_key_false o c : same_key o c = false <-> key o <> key c.
Proof.
  split.
  - intros H E. apply same_key_iff in E. rewrite E in H. discriminate.
  - intros H. destruct (same_key o c) eqn:E; [|reflexivity]. apply same_key_iff in E. contradiction.
Qed.

Definition keys (s : suite) : list (str * str) := map key s.

Lemma add_one_keys s c :
  keys (add_one s c) = if existsb (fun o => same_key o c) s then keys s else keys s ++ [key c].
Proof.
  induction s as [|o s IH]; [reflexivity|]. cbn. destruct (same_key o c) eqn:E; cbn; [reflexivity|].
  unfold keys in *. rewrite IH. destruct (existsb (fun o0 => same_key o0 c) s); reflexivity.
Qed.

Lemma existsb_same_key s c : existsb (fun o => same_key o c) s = true <-> In (key c) (keys s).
Proof.
  rewrite existsb_exists. unfold keys. rewrite in_map_iff. split.
  - intros [o [Ho E]]. exists o. split; [apply same_key_iff; exact E|exact Ho].
  - intros [o [E Ho]]. exists o. split; [exact Ho|apply same_key_iff; exact E].
Qed.

Lemma add_one_nodup s c : NoDup (keys s) -> NoDup (keys (add_one s c)).
Proof.
  intros H. rewrite add_one_keys. destruct (existsb (fun o => same_key o c) s) eqn:E; [exact H|].
  assert (N : ~ In (key c) (keys s)).
  { intros X. apply existsb_same_key in X. rewrite X in E. discriminate. }
  clear E. induction (keys s) as [|k l IH]; cbn.
  - constructor; [intros []|constructor].
  - inversion H as [|? ? Hk Hl]; subst. constructor.
    + rewrite in_app_iff. intros [X|[X|[]]]; [contradiction|]. apply N. left. symmetry. exact X.
    + apply IH; [exact Hl|]. intros X. apply N. right. exact X.
Qed.

Lemma add_one_in_keys s c k : In k (keys (add_one s c)) <-> In k (keys s) \/ k = key c.
Proof.
  rewrite add_one_keys. destruct (existsb (fun o => same_key o c) s) eqn:E.
  - apply existsb_same_key in E. split; [intros H; left; exact H|intros [H|H]; [exact H|subst; exact E]].
  - rewrite in_app_iff. cbn. split; [intros [H|[H|[]]]; auto|intros [H|H]; auto].
Qed.

Lemma add_all_nodup cs : forall s, NoDup (keys s) -> NoDup (keys (add_all s cs)).
Proof. unfold add_all. induction cs as [|c cs IH]; intros s H; [exact H|]. cbn. apply IH. apply add_one_nodup. exact H. Qed.

Lemma add_all_in_keys cs : forall s k, In k (keys (add_all s cs)) <-> In k (keys s) \/ In k (keys cs).
Proof.
  unfold add_all. induction cs as [|c cs IH]; intros s k; cbn.
  - split; [intros H; left; exact H|intros [H|[]]; exact H].
  - rewrite IH, add_one_in_keys. split; [intros [[H|H]|H]|intros [H|[H|H]]]; auto.
Qed.

(* the executions recorded under a key, in order *)
Definition key_eqb (a b : str * str) : bool := str_eqb (fst a) (fst b) && str_eqb (snd a) (snd b).
Lemma key_eqb_iff a b : key_eqb a b = true <-> a = b.
Proof.
  destruct a as [a1 a2], b as [b1 b2]. unfold key_eqb. cbn. rewrite andb_true_iff, !str_eqb_eq. split.
  - intros [A B]. subst. reflexivity.
  - intros H. inversion H. split; reflexivity.
Qed.
Lemma key_eqb_refl a : key_eqb a a = true.
Proof. apply key_eqb_iff. reflexivity. Qed.

Definition execs_for (k : str * str) (s : suite) : list exec :=
  flat_map (fun c => if key_eqb k (key c) then c_execs c else []) s.

Lemma execs_for_absent k s : ~ In k (keys s) -> execs_for k s = [].
Proof.
  induction s as [|o s IH]; [reflexivity|]. cbn. intros N.
  destruct (key_eqb k (key o)) eqn:E.
  - apply key_eqb_iff in E. exfalso. apply N. left. symmetry. exact E.
  - cbn. apply IH. intros X. apply N. right. exact X.
Qed.

(* Add keeps the executions of every key, in order *)
Lemma add_one_execs s c k :
  NoDup (keys s) -> execs_for k (add_one s c) = execs_for k s ++ (if key_eqb k (key c) then c_execs c else []).
Proof.
  induction s as [|o s IH]; intros ND.
  - cbn. rewrite app_nil_r. reflexivity.
  - inversion ND as [|? ? Ho Hs]; subst. specialize (IH Hs). cbn [add_one]. destruct (same_key o c) eqn:E.
    + apply same_key_iff in E. pose proof (execs_for_absent (key o) s Ho) as A.
      unfold execs_for in *. cbn. unfold key at 1. cbn. fold (key o). rewrite <- E.
      destruct (key_eqb k (key o)) eqn:K.
      * apply key_eqb_iff in K. subst k. rewrite A, !app_nil_r. reflexivity.
      * cbn. rewrite app_nil_r. reflexivity.
    + unfold execs_for in *. cbn. rewrite IH, app_assoc. reflexivity.
Qed.

Theorem add_all_execs cs : forall s k,
  NoDup (keys s) -> execs_for k (add_all s cs) = execs_for k s ++ execs_for k cs.
Proof.
  unfold add_all. induction cs as [|c cs IH]; intros s k ND; cbn [fold_left].
  - cbn. rewrite app_nil_r. reflexivity.
  - rewrite IH by (apply add_one_nodup; exact ND). rewrite add_one_execs by exact ND. rewrite <- app_assoc. reflexivity.
Qed.

(* with distinct keys nothing is merged *)
Lemma add_one_fresh s c : ~ In (key c) (keys s) -> add_one s c = s ++ [c].
Proof.
  induction s as [|o s IH]; intros N; [reflexivity|]. cbn.
  destruct (same_key o c) eqn:E.
  - apply same_key_iff in E. exfalso. apply N. left. exact E.
  - rewrite IH; [reflexivity|]. intros X. apply N. right. exact X.
Qed.

Theorem add_all_distinct cs : forall s, NoDup (keys (s ++ cs)) -> add_all s cs = s ++ cs.
Proof.
  unfold add_all. induction cs as [|c cs IH]; intros s ND; cbn.
  - rewrite app_nil_r. reflexivity.
  - assert (N : ~ In (key c) (keys s)).
    { unfold keys in *. rewrite map_app in ND. cbn in ND. apply NoDup_remove_2 in ND. intros X. apply ND.
      rewrite in_app_iff. left. exact X. }
    rewrite (add_one_fresh s c N). rewrite IH; [rewrite <- app_assoc; reflexivity|].
    rewrite <- app_assoc. exact ND.
Qed.

Lemma collapse_cases a b : collapse a b = a ++ b.
Proof. reflexivity. Qed.

(* ------------------------------------------------------------------------------------------------ *)
(* T3: the retry loop and the pass decision *)

(* the attempts doFlakeRun really executes: up to the allowance, stopping after the first fully successful one *)
Fixpoint executed (n : nat) (runs : list suite) : list suite :=
  match n, runs with
  | S n', r :: rs => r :: (if all_succeeded r then [] else executed n' rs)
  | _, _ => []
  end.

Lemma flake_loop_executed n : forall runs acc, flake_loop n runs acc = fold_left add_all (executed n runs) acc.
Proof.
  induction n as [|n IH]; intros runs acc; [reflexivity|]. destruct runs as [|r rs]; [reflexivity|]. cbn.
  destruct (all_succeeded r); [reflexivity|]. apply IH.
Qed.

Lemma fold_add_all_concat l : forall acc, fold_left add_all l acc = add_all acc (concat l).
Proof.
  induction l as [|r l IH]; intros acc; [reflexivity|]. cbn. rewrite IH. unfold add_all. rewrite fold_left_app. reflexivity.
Qed.

Theorem flake_run_merged n runs : flake_run n runs = add_all [] (concat (executed n runs)).
Proof. unfold flake_run. rewrite flake_loop_executed, fold_add_all_concat. reflexivity. Qed.

Lemma executed_length n runs : length (executed n runs) <= n.
Proof.
  revert runs. induction n as [|n IH]; intros runs; [cbn; lia|]. destruct runs as [|r rs]; [cbn; lia|]. cbn.
  destruct (all_succeeded r); cbn; [lia|]. specialize (IH rs). lia.
Qed.

(* the attempts executed are a prefix of the attempts that would have been available *)
Lemma executed_prefix n runs : exists rest, runs = executed n runs ++ rest.
Proof.
  revert runs. induction n as [|n IH]; intros runs; [exists runs; reflexivity|].
  destruct runs as [|r rs]; [exists []; reflexivity|]. cbn. destruct (all_succeeded r).
  - exists rs. reflexivity.
  - destruct (IH rs) as [rest E]. exists rest. cbn. rewrite <- E. reflexivity.
Qed.

Definition exec_ok (e : exec) : bool := on_exec exec_Success e || on_exec exec_Skip e.
Lemma case_ok_execs c : case_ok c = existsb exec_ok (c_execs c).
Proof. unfold case_ok, has_success, has_skip, exec_ok. rewrite existsb_orb. reflexivity. Qed.

Lemma nodup_key_unique (s : suite) a b : NoDup (keys s) -> In a s -> In b s -> key a = key b -> a = b.
Proof.
  induction s as [|o s IH]; intros ND Ha Hb E; [destruct Ha|].
  inversion ND as [|? ? Ho Hs]; subst. destruct Ha as [Ha|Ha], Hb as [Hb|Hb]; subst.
  - reflexivity.
  - exfalso. apply Ho. rewrite E. unfold keys. apply in_map. exact Hb.
  - exfalso. apply Ho. rewrite <- E. unfold keys. apply in_map. exact Ha.
  - apply IH; assumption.
Qed.

Lemma execs_for_unique s c : NoDup (keys s) -> In c s -> execs_for (key c) s = c_execs c.
Proof.
  induction s as [|o s IH]; intros ND Hc; [destruct Hc|].
  inversion ND as [|? ? Ho Hs]; subst. specialize (IH Hs). destruct Hc as [Hc|Hc].
  - subst o. pose proof (execs_for_absent (key c) s Ho) as A. unfold execs_for in *. cbn.
    rewrite key_eqb_refl, A, app_nil_r. reflexivity.
  - specialize (IH Hc). unfold execs_for in *. cbn. destruct (key_eqb (key c) (key o)) eqn:K.
    + apply key_eqb_iff in K. exfalso. apply Ho. rewrite <- K. unfold keys. apply in_map. exact Hc.
    + cbn. exact IH.
Qed.

Lemma existsb_execs_for q k s :
  existsb q (execs_for k s) = true <-> exists c, In c s /\ key c = k /\ existsb q (c_execs c) = true.
Proof.
  induction s as [|o s IH]; cbn.
  - split; [discriminate|intros [c [[] _]]].
  - rewrite existsb_app, orb_true_iff, IH. split.
    + intros [H|[c [Hc [Hk Hq]]]].
      * destruct (key_eqb k (key o)) eqn:K; [|discriminate]. apply key_eqb_iff in K. exists o. auto.
      * exists c. auto.
    + intros [c [[Hc|Hc] [Hk Hq]]].
      * subst o. left. rewrite <- Hk, key_eqb_refl. exact Hq.
      * right. exists c. auto.
Qed.

(* the merged result succeeds exactly when every key written in some executed attempt has, in some executed
   attempt, a case of that key with a passing or skipped execution *)
Theorem merged_succeeds_iff cs :
  all_succeeded (add_all [] cs) = true <->
  forall c, In c cs -> exists c', In c' cs /\ key c' = key c /\ case_ok c' = true.
Proof.
  assert (ND : NoDup (keys (add_all [] cs))) by (apply add_all_nodup; constructor).
  rewrite all_succeeded_spec. split.
  - intros H c Hc.
    assert (K : In (key c) (keys (add_all [] cs))) by (apply add_all_in_keys; right; unfold keys; apply in_map; exact Hc).
    unfold keys in K. apply in_map_iff in K. destruct K as [m [Km Hm]].
    specialize (H m Hm). rewrite case_ok_execs in H.
    rewrite <- (execs_for_unique _ m ND Hm) in H. rewrite add_all_execs in H by constructor. cbn in H.
    apply existsb_execs_for in H. destruct H as [c' [Hc' [Kc' Q]]]. exists c'. rewrite case_ok_execs.
    split; [exact Hc'|]. split; [congruence|exact Q].
  - intros H m Hm.
    assert (K : In (key m) (keys cs)).
    { assert (X : In (key m) (keys (add_all [] cs))) by (unfold keys; apply in_map; exact Hm).
      apply add_all_in_keys in X. destruct X as [[]|X]. exact X. }
    unfold keys in K. apply in_map_iff in K. destruct K as [c [Kc Hc]].
    destruct (H c Hc) as [c' [Hc' [Kc' Q]]].
    rewrite case_ok_execs. rewrite <- (execs_for_unique _ m ND Hm). rewrite add_all_execs by constructor. cbn.
    apply existsb_execs_for. exists c'. rewrite case_ok_execs in Q. split; [exact Hc'|]. split; [congruence|exact Q].
Qed.

Theorem target_passes_iff n runs :
  target_passes n runs = true <->
  forall r c, In r (executed n runs) -> In c r ->
    exists r' c', In r' (executed n runs) /\ In c' r' /\ key c' = key c /\ case_ok c' = true.
Proof.
  unfold target_passes, target_results, collapse. cbn [app]. rewrite flake_run_merged, merged_succeeds_iff. split.
  - intros H r c Hr Hc. destruct (H c) as [c' [Hc' [K Q]]].
    + apply in_concat. exists r. auto.
    + apply in_concat in Hc'. destruct Hc' as [r' [Hr' Hc'r]]. exists r', c'. auto.
  - intros H c Hc. apply in_concat in Hc. destruct Hc as [r [Hr Hcr]].
    destruct (H r c Hr Hcr) as [r' [c' [Hr' [Hc' [K Q]]]]]. exists c'. split; [|auto].
    apply in_concat. exists r'. auto.
Qed.

(* per-case executions survive the retry loop, in attempt order, whenever names are not repeated inside it *)
Theorem flake_run_execs n runs k :
  execs_for k (flake_run n runs) = execs_for k (concat (executed n runs)).
Proof. rewrite flake_run_merged, add_all_execs by constructor. reflexivity. Qed.

Theorem single_attempt_identity r : NoDup (keys r) -> target_results 1 [r] = r.
Proof.
  intros ND. unfold target_results, flake_run, collapse. cbn.
  assert (E : add_all [] r = r) by (apply (add_all_distinct r []); exact ND).
  rewrite E. destruct (all_succeeded r); reflexivity.
Qed.

Corollary single_attempt_passes r : NoDup (keys r) -> target_passes 1 [r] = all_succeeded r.
Proof. intros ND. unfold target_passes. rewrite single_attempt_identity by exact ND. reflexivity. Qed.

(* well-formedness is preserved by everything in the pipeline *)
Lemma add_one_wf s c : wf s -> c_execs c <> [] -> wf (add_one s c).
Proof.
  induction s as [|o s IH]; intros W Hc x Hx.
  - destruct Hx as [Hx|[]]. subst. exact Hc.
  - cbn in Hx. destruct (same_key o c).
    + destruct Hx as [Hx|Hx]; [subst x; cbn; intros E; apply app_eq_nil in E; destruct E as [E _]; exact (W o (or_introl eq_refl) E)
                              |apply W; right; exact Hx].
    + destruct Hx as [Hx|Hx]; [subst; apply W; left; reflexivity|].
      apply IH; [intros y Hy; apply W; right; exact Hy|exact Hc|exact Hx].
Qed.

Lemma add_all_wf cs : forall s, wf s -> wf cs -> wf (add_all s cs).
Proof.
  unfold add_all. induction cs as [|c cs IH]; intros s Ws Wc; [exact Ws|]. cbn. apply IH.
  - apply add_one_wf; [exact Ws|apply Wc; left; reflexivity].
  - intros y Hy. apply Wc. right. exact Hy.
Qed.

Theorem flake_run_wf n runs : (forall r, In r runs -> wf r) -> wf (flake_run n runs).
Proof.
  intros W. rewrite flake_run_merged. apply add_all_wf; [intros c []|].
  intros c Hc. apply in_concat in Hc. destruct Hc as [r [Hr Hcr]].
  destruct (executed_prefix n runs) as [rest E]. apply (W r); [|exact Hcr]. rewrite E. apply in_or_app. left. exact Hr.
Qed.

(* ------------------------------------------------------------------------------------------------ *)
(* T5: the parsers on decoded documents *)

(* every test case written in a <testsuite> element, nested suites included, in document order *)
Fixpoint suite_all (x : xsuite) : list xtest :=
  match x with XS cs ns => cs ++ flat_map suite_all ns end.
Definition top_all (t : xtop) : list xtest :=
  match t with XSuites l => flat_map suite_all l | XSuite x => suite_all x | XCase c => [c] end.
Definition doc_all (d : list xtop) : list xtest := flat_map top_all d.

Definition suite_flat (x : xsuite) : bool := match x with XS _ [] => true | _ => false end.
Definition top_flat (t : xtop) : bool :=
  match t with XSuites l => forallb suite_flat l | XSuite x => suite_flat x | XCase _ => false end.
(* the known defect classes of the XML reader: nested <testsuite> elements and bare <testcase> elements *)
Definition doc_flat (d : list xtop) : bool := forallb top_flat d.

Lemma suite_cases_flat x : suite_flat x = true -> suite_cases x = map to_case (suite_all x).
Proof. destruct x as [cs [|n ns]]; [|discriminate]. intros _. cbn. rewrite app_nil_r. reflexivity. Qed.

Lemma flat_map_suites_flat l :
  forallb suite_flat l = true -> flat_map suite_cases l = map to_case (flat_map suite_all l).
Proof.
  induction l as [|x l IH]; [reflexivity|]. cbn. intros H. apply andb_prop in H. destruct H as [Hx Hl].
  rewrite map_app, (suite_cases_flat x Hx), (IH Hl). reflexivity.
Qed.

Theorem parse_xml_flat d : doc_flat d = true -> parse_xml d = map to_case (doc_all d).
Proof.
  unfold parse_xml, doc_all. induction d as [|t d IH]; [reflexivity|]. cbn. intros H. apply andb_prop in H.
  destruct H as [Ht Hd]. rewrite map_app, (IH Hd). f_equal.
  destruct t as [l|x|c]; cbn in *; [apply flat_map_suites_flat; exact Ht|apply suite_cases_flat; exact Ht|discriminate].
Qed.

(* a <testcase> that documents one outcome: at most one of failure/error/skipped, flaky* elements only on a
   case that finally passed, rerun* elements only on one that never did *)
Definition well_marked (x : xtest) : bool :=
  match x_fail x, x_err x, x_skip x with
  | false, false, false => Nat.eqb (x_rerunF x + x_rerunE x) 0
  | true, false, false | false, true, false => Nat.eqb (x_flakyF x + x_flakyE x) 0
  | false, false, true => Nat.eqb (x_flakyF x + x_flakyE x + x_rerunF x + x_rerunE x) 0
  | _, _, _ => false
  end.

Definition intended_kind (x : xtest) : kind :=
  if x_fail x then (if Nat.ltb 0 (x_rerunE x) then KError else KFail)
  else if x_err x then KError
  else if x_skip x then KSkip
  else if Nat.ltb 0 (x_flakyF x + x_flakyE x) then KFlaky else KPass.

Theorem append_result_kind x : well_marked x = true -> kind_of (append_result x) = intended_kind x.
Proof.
  destruct x as [cl nm f e k ff fe rf re]. unfold well_marked, intended_kind, append_result, main_exec, kind_of. cbn.
  destruct f, e, k; try discriminate; cbn; intros W; apply Nat.eqb_eq in W;
    rewrite ?existsb_app, ?forallb_app, ?existsb_repeat, ?forallb_repeat; cbn;
    rewrite ?andb_false_r, ?andb_true_r, ?orb_false_r, ?orb_true_r;
    destruct ff, fe, rf, re; cbn in *; try discriminate; try reflexivity; try lia.
Qed.

Lemma append_result_nonempty x : append_result x <> [].
Proof. unfold append_result. discriminate. Qed.

Theorem parse_xml_wf d : wf (parse_xml d).
Proof.
  unfold parse_xml. intros c Hc. apply in_flat_map in Hc. destruct Hc as [t [_ Hc]].
  assert (S : forall x, In c (suite_cases x) -> c_execs c <> []).
  { intros [cs ns] H. cbn in H. apply in_map_iff in H. destruct H as [y [E _]]. subst. apply append_result_nonempty. }
  destruct t as [l|x|y]; cbn in Hc.
  - apply in_flat_map in Hc. destruct Hc as [x [_ Hx]]. exact (S x Hx).
  - exact (S x Hc).
  - destruct Hc as [E|[]]. subst. apply append_result_nonempty.
Qed.

Theorem parse_go_wf t : wf (parse_go t).
Proof. intros c Hc. unfold parse_go in Hc. apply in_map_iff in Hc. destruct Hc as [y [E _]]. subst. discriminate. Qed.

Definition go_kind (r : gores) : kind := match r with GFail => KFail | GSkip => KSkip | _ => KPass end.
Theorem parse_go_kinds t :
  map (fun c => (c_name c, kind_of (c_execs c))) (parse_go t) = map (fun x => (fst x, go_kind (snd x))) t.
Proof. unfold parse_go. rewrite map_map. apply map_ext. intros [nm r]. destruct r; reflexivity. Qed.

Lemma filter_repeat_all {A} (p : A -> bool) a n : p a = true -> filter p (repeat a n) = repeat a n.
Proof. intros H. induction n as [|n IH]; cbn; [reflexivity|]. rewrite H, IH. reflexivity. Qed.
Lemma filter_repeat_none {A} (p : A -> bool) a n : p a = false -> filter p (repeat a n) = [].
Proof. intros H. induction n as [|n IH]; cbn; [reflexivity|]. rewrite H. exact IH. Qed.

(* a well-marked case never falls into the double-counting class, so for flat documents of well-marked cases
   all five counters are exact *)
Lemma well_marked_not_double x : well_marked x = true -> double (to_case x) = false.
Proof.
  destruct x as [cl nm f e k ff fe rf re]. unfold well_marked, double, has_success, has_skip, failures_of, errors_of, to_case,
    append_result, main_exec. cbn.
  destruct f, e, k; try discriminate; cbn; intros W; apply Nat.eqb_eq in W.
  - assert (ff = 0 /\ fe = 0) as [-> ->] by lia. cbn.
    change (on_exec exec_Success) with is_pass. rewrite existsb_app, !existsb_repeat. cbn. rewrite !andb_false_r. reflexivity.
  - assert (ff = 0 /\ fe = 0) as [-> ->] by lia. cbn.
    change (on_exec exec_Success) with is_pass. rewrite existsb_app, !existsb_repeat. cbn. rewrite !andb_false_r. reflexivity.
  - assert (ff = 0 /\ fe = 0 /\ rf = 0 /\ re = 0) as [-> [-> [-> ->]]] by lia. reflexivity.
  - assert (rf = 0 /\ re = 0) as [-> ->] by lia. cbn. rewrite !app_nil_r.
    change (on_exec exec_Skip) with e_skip. change (on_exec exec_Failures) with e_fail. change (on_exec exec_Errors) with e_err.
    rewrite existsb_app, !existsb_repeat, !filter_app. cbn. rewrite !andb_false_r. cbn.
    rewrite !app_length.
    rewrite (filter_repeat_all e_fail eFail ff eq_refl), (filter_repeat_all e_err eErr fe eq_refl),
      (filter_repeat_none e_fail eErr fe eq_refl), (filter_repeat_none e_err eFail ff eq_refl), !repeat_length. cbn. destruct ff, fe; reflexivity.
Qed.

Theorem parsed_counters_exact d :
  doc_flat d = true -> forallb well_marked (doc_all d) = true ->
  let s := parse_xml d in
  tests s = length (doc_all d)
  /\ passes s + flaky_passes s + failures s + errors s + skips s = tests s
  /\ forall k, count_kind k s = length (filter (fun x => kind_eqb (intended_kind x) k) (doc_all d)).
Proof.
  intros F W s. subst s. rewrite (parse_xml_flat d F). split; [unfold tests; apply map_length|]. split.
  - apply counters_sum_exact. intros c Hc. apply in_map_iff in Hc. destruct Hc as [x [E Hx]]. subst c.
    apply well_marked_not_double. rewrite forallb_forall in W. apply W. exact Hx.
  - intros k. unfold count_kind, count. induction (doc_all d) as [|x l IH]; [reflexivity|]. cbn in W.
    apply andb_prop in W. destruct W as [Wx Wl]. cbn. unfold to_case at 1. cbn [c_execs].
    rewrite (append_result_kind x Wx). destruct (kind_eqb (intended_kind x) k); cbn; rewrite (IH Wl); reflexivity.
Qed.

(* ------------------------------------------------------------------------------------------------ *)
(* the format dispatch, from the regenerated prefixes *)

Lemma dispatch_xml_decl : looks_like_junit (s "<?xml version=""1.0""?><testsuites/>") = true.
Proof. vm_compute. reflexivity. Qed.
Lemma dispatch_testsuite : looks_like_junit (s "<testsuite name=""x""/>") = true.
Proof. vm_compute. reflexivity. Qed.
Lemma dispatch_testcase : looks_like_junit (s "<testcase name=""x""/>") = true.
Proof. vm_compute. reflexivity. Qed.
Lemma dispatch_go : looks_like_junit (s "=== RUN   TestA") = false.
Proof. vm_compute. reflexivity. Qed.

(* ------------------------------------------------------------------------------------------------ *)
(* parseTestOutput: when the exit status agrees with Failures() nothing is added *)

Theorem parse_output_exact name no_output d ds r :
  parse_results (d :: ds) [] = Some r ->
  parse_output name no_output (negb (Nat.eqb (failures r) 0)) (d :: ds) = r.
Proof.
  intros H. unfold parse_output. rewrite H. destruct (Nat.eqb (failures r) 0); reflexivity.
Qed.

(* ------------------------------------------------------------------------------------------------ *)
(* the property at full strength, its refutation by one witness per defect class, and the partial theorem *)

Definition full_statement : Prop :=
  (forall s, wf s -> passes s + flaky_passes s + failures s + errors s + skips s = tests s)
  /\ (forall s, wf s ->
        passes s = count_kind KPass s /\ flaky_passes s = count_kind KFlaky s /\ failures s = count_kind KFail s
        /\ errors s = count_kind KError s /\ skips s = count_kind KSkip s)
  /\ (forall n runs,
        target_passes n runs = true <->
        forall r c, In r (executed n runs) -> In c r ->
          exists r' c', In r' (executed n runs) /\ In c' r' /\ key c' = key c /\ case_ok c' = true)
  /\ (forall r, wf r -> target_results 1 [r] = r)
  /\ (forall r, wf r -> target_passes 1 [r] = all_succeeded r)
  /\ (forall n runs k, execs_for k (flake_run n runs) = execs_for k (concat (executed n runs)))
  /\ (forall n runs, (forall r, In r runs -> wf r) -> wf (flake_run n runs))
  /\ (forall d, parse_xml d = map to_case (doc_all d))
  /\ (forall x, well_marked x = true -> kind_of (append_result x) = intended_kind x)
  /\ (forall t, map (fun c => (c_name c, kind_of (c_execs c))) (parse_go t) = map (fun x => (fst x, go_kind (snd x))) t)
  /\ (forall name d ds r, parse_results (d :: ds) [] = Some r ->
        parse_output name false (negb (all_succeeded r)) (d :: ds) = r)
  /\ (forall name no n atts,
        counters (fst (second_report name no n atts)) = counters (first_report name no n atts)).

(* witnesses *)
Definition w_case (es : list exec) : tcase := mkCase (s "c") (s "A") es.
Definition w_repeat : suite := [w_case [ePass; ePass]].                       (* passed twice *)
Definition w_skip_pass : suite := [w_case [eSkip; ePass]].                    (* skipped, then passed *)
Definition w_dup : suite := [w_case [ePass]; w_case [eFail]].                 (* one name, two cases, one fails *)
Definition w_nested : list xtop :=
  [XSuite (XS [mkX (s "c") (s "a") false false false 0 0 0 0]
              [XS [mkX (s "c") (s "b") true false false 0 0 0 0] []])].
Definition w_bare : list xtop := [XCase (mkX (s "c") (s "a") true false false 0 0 0 0)].
Definition w_errors_only : datum := DXml [XSuite (XS [mkX (s "c") (s "a") false true false 0 0 0 0] [])].

Lemma w_wf es : es <> [] -> wf [w_case es].
Proof. intros H c [E|[]]. subst. exact H. Qed.

Lemma refute_partition : ~ (forall s, wf s -> passes s + flaky_passes s + failures s + errors s + skips s = tests s).
Proof. intros H. specialize (H w_repeat (w_wf [ePass; ePass] ltac:(discriminate))). vm_compute in H. discriminate. Qed.

Lemma refute_kinds : ~ (forall s, wf s ->
        passes s = count_kind KPass s /\ flaky_passes s = count_kind KFlaky s /\ failures s = count_kind KFail s
        /\ errors s = count_kind KError s /\ skips s = count_kind KSkip s).
Proof.
  intros H. specialize (H w_skip_pass (w_wf [eSkip; ePass] ltac:(discriminate))). destruct H as [_ [_ [_ [_ H]]]].
  vm_compute in H. discriminate.
Qed.

Lemma w_dup_wf : wf w_dup.
Proof. intros c [E|[E|[]]]; subst; discriminate. Qed.

Lemma refute_identity : ~ (forall r, wf r -> target_results 1 [r] = r).
Proof. intros H. specialize (H w_dup w_dup_wf). vm_compute in H. discriminate. Qed.

Lemma refute_single_pass : ~ (forall r, wf r -> target_passes 1 [r] = all_succeeded r).
Proof. intros H. specialize (H w_dup w_dup_wf). vm_compute in H. discriminate. Qed.

Lemma refute_parse_nested : parse_xml w_nested <> map to_case (doc_all w_nested).
Proof. vm_compute. discriminate. Qed.

Lemma refute_parse_bare : parse_xml w_bare <> map to_case (doc_all w_bare).
Proof. vm_compute. discriminate. Qed.

Lemma refute_exit_status :
  ~ (forall name d ds r, parse_results (d :: ds) [] = Some r ->
       parse_output name false (negb (all_succeeded r)) (d :: ds) = r).
Proof.
  intros H. specialize (H (s "t") w_errors_only [] _ eq_refl). vm_compute in H. discriminate.
Qed.

(* a flaky target: attempt 1 fails, attempt 2 passes; the stored file is attempt 2's, so the second invocation
   reports "1 passed" where the first reported "1 flake" *)
Definition w_retry : list attempt :=
  [mkAttempt true [DXml [XSuite (XS [mkX (s "c") (s "a") true false false 0 0 0 0] [])]];
   mkAttempt false [DXml [XSuite (XS [mkX (s "c") (s "a") false false false 0 0 0 0] [])]]].
Lemma refute_cached_equal :
  ~ (forall name no n atts, counters (fst (second_report name no n atts)) = counters (first_report name no n atts)).
Proof. intros H. specialize (H (s "t") false 2 w_retry). vm_compute in H. discriminate. Qed.

Theorem full_statement_refuted : ~ full_statement.
Proof. intros [H _]. exact (refute_partition H). Qed.

(* every conjunct touched by a defect class fails on its own *)
Definition refuted_classes : Prop :=
  ~ (forall s, wf s -> passes s + flaky_passes s + failures s + errors s + skips s = tests s)
  /\ ~ (forall s, wf s ->
        passes s = count_kind KPass s /\ flaky_passes s = count_kind KFlaky s /\ failures s = count_kind KFail s
        /\ errors s = count_kind KError s /\ skips s = count_kind KSkip s)
  /\ ~ (forall r, wf r -> target_results 1 [r] = r)
  /\ ~ (forall r, wf r -> target_passes 1 [r] = all_succeeded r)
  /\ ~ (forall d, parse_xml d = map to_case (doc_all d))
  /\ ~ (forall name d ds r, parse_results (d :: ds) [] = Some r ->
         parse_output name false (negb (all_succeeded r)) (d :: ds) = r)
  /\ ~ (forall name no n atts,
         counters (fst (second_report name no n atts)) = counters (first_report name no n atts)).

Theorem refuted_classes_hold : refuted_classes.
Proof.
  split; [exact refute_partition|]. split; [exact refute_kinds|]. split; [exact refute_identity|].
  split; [exact refute_single_pass|]. split; [|split; [exact refute_exit_status|exact refute_cached_equal]].
  intros H. exact (refute_parse_nested (H w_nested)).
Qed.

(* the strongest statement the code supports: the same conjuncts, each guarded by the executable classifier of
   its defect class (double / repeated keys / doc_flat / exit status compared with Failures() only), with the
   exact size of the deviation where there is one *)
Definition partial_statement : Prop :=
  (forall s, passes s + flaky_passes s + failures s + errors s + skips s = tests s + count double s)
  /\ (forall s, (forall c, In c s -> double c = false) ->
        passes s + flaky_passes s + failures s + errors s + skips s = tests s)
  /\ (forall s, wf s ->
        passes s = count_kind KPass s /\ failures s = count_kind KFail s /\ errors s = count_kind KError s
        /\ skips s = count_kind KSkip s + count (fun c => kind_eqb (kind_of (c_execs c)) KFlaky && has_skip c) s
        /\ flaky_passes s = count_kind KFlaky s
                            + count (fun c => kind_eqb (kind_of (c_execs c)) KPass && Nat.ltb 1 (length (c_execs c))) s)
  /\ (forall s, all_succeeded s = true <-> forall c, In c s -> case_ok c = true)
  /\ (forall n runs,
        target_passes n runs = true <->
        forall r c, In r (executed n runs) -> In c r ->
          exists r' c', In r' (executed n runs) /\ In c' r' /\ key c' = key c /\ case_ok c' = true)
  /\ (forall n runs, length (executed n runs) <= n /\ exists rest, runs = executed n runs ++ rest)
  /\ (forall r, NoDup (keys r) -> target_results 1 [r] = r /\ target_passes 1 [r] = all_succeeded r)
  /\ (forall s cs, NoDup (keys (s ++ cs)) -> add_all s cs = s ++ cs)
  /\ (forall n runs k, execs_for k (flake_run n runs) = execs_for k (concat (executed n runs)))
  /\ (forall n runs, (forall r, In r runs -> wf r) -> wf (flake_run n runs))
  /\ (forall d, wf (parse_xml d)) /\ (forall t, wf (parse_go t))
  /\ (forall d, doc_flat d = true -> parse_xml d = map to_case (doc_all d))
  /\ (forall x, well_marked x = true -> kind_of (append_result x) = intended_kind x)
  /\ (forall d, doc_flat d = true -> forallb well_marked (doc_all d) = true ->
        let s := parse_xml d in
        tests s = length (doc_all d)
        /\ passes s + flaky_passes s + failures s + errors s + skips s = tests s
        /\ forall k, count_kind k s = length (filter (fun x => kind_eqb (intended_kind x) k) (doc_all d)))
  /\ (forall t, map (fun c => (c_name c, kind_of (c_execs c))) (parse_go t) = map (fun x => (fst x, go_kind (snd x))) t)
  /\ (forall name no_output d ds r, parse_results (d :: ds) [] = Some r ->
        parse_output name no_output (negb (Nat.eqb (failures r) 0)) (d :: ds) = r).

Theorem partial_statement_holds : partial_statement.
Proof.
  split; [exact counters_partition|]. split; [exact counters_sum_exact|]. split; [exact counters_by_kind|].
  split; [exact all_succeeded_spec|]. split; [exact target_passes_iff|].
  split; [intros n runs; split; [apply executed_length|apply executed_prefix]|].
  split; [intros r ND; split; [apply single_attempt_identity|apply single_attempt_passes]; exact ND|].
  split; [intros s0 cs; apply add_all_distinct|]. split; [exact flake_run_execs|]. split; [exact flake_run_wf|].
  split; [exact parse_xml_wf|]. split; [exact parse_go_wf|]. split; [exact parse_xml_flat|].
  split; [exact append_result_kind|]. split; [exact parsed_counters_exact|]. split; [exact parse_go_kinds|].
  exact parse_output_exact.
Qed.
