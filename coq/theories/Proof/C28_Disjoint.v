(* C28 - no name occurs in two kinds (file / directory / symlink) of a Directory message that walk
   produces, for EVERY realizable set of declarations (the known defect class included): a one-way
   ("every entry of the builder state stems from a declaration") invariant that, unlike J of C28_Ops,
   needs no hypothesis on output directories overlapping interior directories. *)
From PlzV Require Import Base.Harness Base.StrFacts Model.C28 Proof.C28 Proof.C28_Ops.
From Coq Require Import Lia Permutation.

(* ================================================================================================ *)
(* dir()/apply on a parent-closed map (the lemmas of C28_Ops ask for J only to get `closed`)         *)

Lemma ensure_present_c st p : closed st -> forall q, ensure p st q <> None <-> (st q <> None \/ prefix q p).
Proof. intros C q. unfold ensure. rewrite (dir_rev_present _ _ _ C), rev_involutive. tauto. Qed.

Lemma apply_present st o : closed st -> forall q, apply st o q <> None <-> (st q <> None \/ prefix q (op_path o)).
Proof.
  intros C q. rewrite <- (ensure_present_c _ _ C). rewrite apply_eq.
  destruct (path_eqb q (op_path o)); [|tauto]. destruct (ensure (op_path o) st q); cbn; split; congruence.
Qed.

Lemma oget_apply_c st o q : closed st ->
  oget (apply st o) q = if path_eqb q (op_path o) then gen o (oget (ensure (op_path o) st) q) else oget (ensure (op_path o) st) q.
Proof.
  intros C. unfold oget at 1. rewrite apply_eq. destruct (path_eqb_spec q (op_path o)) as [->|Hq]; [|reflexivity].
  unfold oget. assert (Hp : ensure (op_path o) st (op_path o) <> None).
  { apply (ensure_present_c _ _ C). right. apply prefix_refl. }
  destruct (ensure (op_path o) st (op_path o)); [reflexivity|contradiction].
Qed.

Lemma ensure_dirs_c st p q n : closed st ->
  In n (dirs (oget (ensure p st) q)) ->
  In n (dirs (oget st q)) \/ exists x, n = DN x None /\ st (q ++ [x]) = None /\ prefix (q ++ [x]) p.
Proof.
  intros C. unfold ensure. rewrite (dir_rev_dirs _ _ _ C). unfold NEW. rewrite rev_involutive.
  intros [Hin|(x & E1 & _ & E3)]; [left; exact Hin|right; exists x; split; [exact E1|]].
  destruct E3 as [E3|[_ E3]]; [exact E3|discriminate].
Qed.

(* ================================================================================================ *)
(* every entry of the builder state stems from a declaration - for ALL insertion lists               *)

Record Jw (st : state) (done : list op) : Prop := {
  w_closed : closed st;
  w_key : forall q, st q <> None -> is_key done q;
  w_files : forall q n, In n (files (oget st q)) -> In (AddFile q n) done;
  w_syms : forall q n, In n (syms (oget st q)) -> In (AddSym q n) done;
  w_opq : forall q x dg, In (DN x (Some dg)) (dirs (oget st q)) -> In (AddDir q x dg) done;
  w_nil : forall q x, In (DN x None) (dirs (oget st q)) -> is_key done (q ++ [x]) }.

Lemma Jw_init : Jw init [].
Proof.
  pose proof J_init as HJ. constructor.
  - exact (J_closed _ _ HJ).
  - intros q. apply (j_key _ _ HJ).
  - intros q n. apply (j_files _ _ HJ).
  - intros q n. apply (j_syms _ _ HJ).
  - intros q x dg. apply (j_opq _ _ HJ).
  - intros q x. apply (j_nil _ _ HJ).
Qed.

Lemma Jw_apply st done o : Jw st done -> Jw (apply st o) (o :: done).
Proof.
  intros HJ. pose proof (w_closed _ _ HJ) as C. set (p := op_path o).
  assert (Hf : forall q, files (oget (ensure p st) q) = files (oget st q)) by (intros q; apply dir_rev_files).
  assert (Hs : forall q, syms (oget (ensure p st) q) = syms (oget st q)) by (intros q; apply dir_rev_files).
  constructor.
  - constructor.
    + apply (apply_present _ _ C). left. exact (c_root _ C).
    + intros q x Hq. apply (apply_present _ _ C) in Hq. apply (apply_present _ _ C).
      destruct Hq as [Hq|Hq]; [left; exact (c_parent _ C _ _ Hq)|right; exact (prefix_drop _ _ _ Hq)].
  - intros q Hq. apply (apply_present _ _ C) in Hq. apply is_key_cons.
    destruct Hq as [Hq|Hq]; [left; exact (w_key _ _ HJ _ Hq)|right; exact Hq].
  - intros q n. rewrite (oget_apply_c _ _ _ C). fold p. cbn [In].
    destruct (path_eqb_spec q p) as [->|Hq].
    + destruct o as [p0 n0|p0 x0 dg0|p0 n0]; cbn [gen files]; rewrite ?in_app_iff, Hf; cbn [In op_path] in *.
      * subst p. intros [Hin|[<-|[]]]; [right; exact (w_files _ _ HJ _ _ Hin)|left; reflexivity].
      * intros Hin. right. exact (w_files _ _ HJ _ _ Hin).
      * intros Hin. right. exact (w_files _ _ HJ _ _ Hin).
    + rewrite Hf. intros Hin. right. exact (w_files _ _ HJ _ _ Hin).
  - intros q n. rewrite (oget_apply_c _ _ _ C). fold p. cbn [In].
    destruct (path_eqb_spec q p) as [->|Hq].
    + destruct o as [p0 n0|p0 x0 dg0|p0 n0]; cbn [gen syms]; rewrite ?in_app_iff, Hs; cbn [In op_path] in *.
      * intros Hin. right. exact (w_syms _ _ HJ _ _ Hin).
      * intros Hin. right. exact (w_syms _ _ HJ _ _ Hin).
      * subst p. intros [Hin|[<-|[]]]; [right; exact (w_syms _ _ HJ _ _ Hin)|left; reflexivity].
    + rewrite Hs. intros Hin. right. exact (w_syms _ _ HJ _ _ Hin).
  - intros q x dg. rewrite (oget_apply_c _ _ _ C). fold p. cbn [In].
    assert (He : In (DN x (Some dg)) (dirs (oget (ensure p st) q)) -> In (AddDir q x dg) done).
    { intros Hin. apply (ensure_dirs_c _ _ _ _ C) in Hin. destruct Hin as [Hin|(y & E & _)]; [|discriminate].
      exact (w_opq _ _ HJ _ _ _ Hin). }
    destruct (path_eqb_spec q p) as [->|Hq].
    + destruct o as [p0 n0|p0 x0 dg0|p0 n0]; cbn [gen dirs]; rewrite ?in_app_iff; cbn [In op_path] in *.
      * intros Hin. right. exact (He Hin).
      * subst p. intros [Hin|[E|[]]]; [right; exact (He Hin)|left; inversion E; reflexivity].
      * intros Hin. right. exact (He Hin).
    + intros Hin. right. exact (He Hin).
  - intros q x Hin. apply is_key_cons. fold p.
    assert (He : In (DN x None) (dirs (oget (ensure p st) q))).
    { rewrite (oget_apply_c _ _ _ C) in Hin. fold p in Hin. destruct (path_eqb q p); [|exact Hin].
      destruct o as [p0 n0|p0 x0 dg0|p0 n0]; cbn [gen dirs] in Hin; [exact Hin| |exact Hin].
      apply in_app_iff in Hin. destruct Hin as [Hin|[E|[]]]; [exact Hin|discriminate]. }
    apply (ensure_dirs_c _ _ _ _ C) in He. destruct He as [He|(y & E & _ & Hp)].
    + left. exact (w_nil _ _ HJ _ _ He).
    + inversion E; subst. right. exact Hp.
Qed.

Lemma Jw_run_gen ops : forall st done, Jw st done -> Jw (fold_left apply ops st) (rev ops ++ done).
Proof.
  induction ops as [|o ops IH]; intros st done HJ; cbn [fold_left rev app]; [exact HJ|].
  rewrite <- app_assoc. cbn [app]. apply IH. apply Jw_apply. exact HJ.
Qed.

Theorem Jw_run ops : Jw (run ops) (rev ops).
Proof. unfold run. rewrite <- (app_nil_r (rev ops)). apply Jw_run_gen. exact Jw_init. Qed.

(* ================================================================================================ *)
(* no name in two kinds                                                                              *)

Definition xdisjoint (m : dirmsg) : Prop :=
  (forall x y, In x (files m) -> In y (dirs m) -> fname x <> dname y)
  /\ (forall x y, In x (files m) -> In y (syms m) -> fname x <> sname y)
  /\ (forall x y, In x (dirs m) -> In y (syms m) -> dname x <> sname y).

(* a directory of the state of a realizable declaration set holds no name in two kinds *)
Lemma run_xdisjoint ops q d : realizable ops -> run ops q = Some d -> xdisjoint d.
Proof.
  intros (Hcl & Hone & Hleaf) Eq.
  pose proof (Jw_run ops) as HJ. pose proof (J_oget _ _ _ Eq) as O. rewrite <- O.
  assert (inops : forall o, In o (rev ops) -> In o ops) by (intros o; apply in_rev).
  assert (nilkey : forall x, In (DN x None) (dirs (oget (run ops) q)) -> exists o, In o ops /\ prefix (q ++ [x]) (op_path o)).
  { intros x Hin. apply (w_nil _ _ HJ) in Hin. destruct Hin as [E|(o & Hin & Hp)]; [destruct (snoc_not_nil _ _ E)|].
    exists o. auto. }
  split; [|split].
  - intros x [y [dg|]] Hx Hy E; cbn in E; apply (w_files _ _ HJ) in Hx.
    + apply (w_opq _ _ HJ) in Hy. assert (X := Hone _ _ (inops _ Hx) (inops _ Hy) eq_refl E). discriminate.
    + destruct (nilkey _ Hy) as (o & Ho & Hp). apply (Hleaf _ _ (inops _ Hx) Ho eq_refl). cbn. rewrite E. exact Hp.
  - intros x y Hx Hy E. apply (w_files _ _ HJ) in Hx. apply (w_syms _ _ HJ) in Hy.
    assert (X := Hone _ _ (inops _ Hx) (inops _ Hy) eq_refl E). discriminate.
  - intros [x [dg|]] y Hx Hy E; cbn in E; apply (w_syms _ _ HJ) in Hy.
    + apply (w_opq _ _ HJ) in Hx. assert (X := Hone _ _ (inops _ Hx) (inops _ Hy) eq_refl E). discriminate.
    + destruct (nilkey _ Hx) as (o & Ho & Hp). apply (Hleaf _ _ (inops _ Hy) Ho eq_refl). cbn. rewrite <- E. exact Hp.
Qed.

Section WalkAll.
  Variable H : dirmsg -> str.
  Variable srt : sorter.
  Hypothesis srt_ok : sorter_ok srt.

  (* the sort-and-deduplicate step only removes entries *)
  Lemma finish_sub d :
    (forall x, In x (files (finish srt d)) -> In x (files d))
    /\ (forall x, In x (dirs (finish srt d)) -> In x (dirs d))
    /\ (forall x, In x (syms (finish srt d)) -> In x (syms d)).
  Proof.
    rewrite (finish_eq srt). cbn zeta. cbn [files dirs syms].
    repeat split; intros x Hx; apply dd_subset in Hx;
      (eapply Permutation_in; [apply Permutation_sym; apply srt_ok|exact Hx]).
  Qed.

  Lemma finish_xdisjoint d g : (forall n, dname (g n) = dname n) -> xdisjoint d ->
    xdisjoint (finish srt (DM (files d) (map g (dirs d)) (syms d))).
  Proof.
    intros Hg (Dfd & Dfs & Dds).
    destruct (finish_sub (DM (files d) (map g (dirs d)) (syms d))) as (Sf & Sd & Ss). cbn [files dirs syms] in *.
    split; [|split].
    - intros x y Hx Hy. apply Sf in Hx. apply Sd in Hy. apply in_map_iff in Hy. destruct Hy as (n & <- & Hn).
      rewrite Hg. exact (Dfd _ _ Hx Hn).
    - intros x y Hx Hy. exact (Dfs _ _ (Sf _ Hx) (Ss _ Hy)).
    - intros x y Hx Hy. apply Sd in Hx. apply in_map_iff in Hx. destruct Hx as (n & <- & Hn).
      rewrite Hg. exact (Dds _ _ Hn (Ss _ Hy)).
  Qed.

  Variable P : dirmsg -> Prop.

  Lemma fill_all rec p l :
    (forall q em m, rec q = Some (em, m) -> Forall P em) ->
    forall em ds, fill H rec p l = Some (em, ds) -> Forall P em.
  Proof.
    intros Hrec. induction l as [|n r IH]; intros em ds; cbn [fill].
    - intros E; inversion E; constructor.
    - destruct (ddig n).
      + destruct (fill H rec p r) as [[em' r']|]; [|discriminate]. intros E; inversion E; subst. eapply IH; reflexivity.
      + destruct (rec (p ++ [dname n])) as [[em1 m]|] eqn:E1; [|discriminate].
        destruct (fill H rec p r) as [[em2 r']|]; [|discriminate]. intros E; inversion E; subst.
        apply Forall_app. split; [eapply Hrec; exact E1|eapply IH; reflexivity].
  Qed.

  (* whatever holds of the finished form of every directory of the state holds of every message walk produces *)
  Theorem walk_all st :
    (forall q d g, st q = Some d -> (forall n, dname (g n) = dname n) -> P (finish srt (DM (files d) (map g (dirs d)) (syms d)))) ->
    forall fuel p em m, walk H srt fuel st p = Some (em, m) -> Forall P em /\ P m.
  Proof.
    intros HP. induction fuel as [|f IH]; intros p em m; cbn [walk]; [discriminate|].
    destruct (st p) as [d|] eqn:Ep; [|discriminate].
    destruct (fill H (walk H srt f st) p (dirs d)) as [[em' ds]|] eqn:E; [|discriminate].
    intros E2; inversion E2; subst.
    assert (Pm : P (finish srt (DM (files d) ds (syms d)))).
    { rewrite (fill_some H _ _ _ _ _ E). apply (HP p d); [exact Ep|apply gfun_name]. }
    split; [|exact Pm]. apply Forall_app. split.
    - eapply fill_all; [|exact E]. intros q em0 m0 Hq. exact (proj1 (IH _ _ _ Hq)).
    - constructor; [exact Pm|constructor].
  Qed.
End WalkAll.

(* THE DISJOINTNESS THEOREM: for every realizable declaration set - in any order, the defect class
   included - no message Build produces carries one name in two kinds. *)
Theorem build_disjoint (H : dirmsg -> str) (srt : sorter) : sorter_ok srt ->
  forall ops em m, realizable ops -> build H srt ops = Some (em, m) -> Forall xdisjoint em /\ xdisjoint m.
Proof.
  intros ok ops em m Hr. unfold build. apply (walk_all H srt xdisjoint).
  intros q d g Eq Hg. apply (finish_xdisjoint srt ok); [exact Hg|]. exact (run_xdisjoint _ _ _ Hr Eq).
Qed.

(* a Directory message in canonical form: every kind strictly sorted by name, and no name in two kinds *)
Definition fully_canonical (m : dirmsg) : Prop := canonical m /\ xdisjoint m.

Theorem build_fully_canonical (H : dirmsg -> str) (srt : sorter) : sorter_ok srt ->
  forall ops em m, realizable ops -> build H srt ops = Some (em, m) -> Forall fully_canonical em /\ fully_canonical m.
Proof.
  intros ok ops em m Hr Hb.
  destruct (build_canonical H srt ok ops em m Hb) as [C1 C2]. destruct (build_disjoint H srt ok ops em m Hr Hb) as [D1 D2].
  split; [|split; assumption]. unfold fully_canonical. apply Forall_and; assumption.
Qed.
