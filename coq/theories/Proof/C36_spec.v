(* C36 - the documented include/exclude rule, written from the property text and docs/commands.html,
   as propositions over the model's data types.  Definitions only; the proofs are in Proof/C36.v.
   The constants here ("test", '*', ',', '/', "all", "...") are the documented ones, written out; the model takes
   its constants from the source (Gen/LabelFilter.v), so a change of a literal in the source separates the two. *)
From Coq Require Import String.
From PlzV Require Import Base.Harness Model.C36.
Local Open Scope list_scope.

Definition STAR : N := 42%N.    (* '*' *)
Definition COMMA : N := 44%N.   (* ',' *)
Definition SLASH : N := 47%N.   (* '/' *)
Definition COLON : N := 58%N.   (* ':' *)

(* a trailing `*` in a label matches by prefix *)
Definition label_matches (p l : str) : Prop :=
  p = l \/ exists stem rest, p = stem ++ [STAR] /\ l = stem ++ rest.

(* the labels a target carries: the declared ones, and `test` for a test *)
Definition carried (t : target) (l : str) : Prop :=
  In l (t_labels t) \/ (t_test t = true /\ l = s "test").

Definition carries_label (t : target) (p : str) : Prop := exists l, carried t l /\ label_matches p l.

(* a group is a comma separated list of labels *)
Fixpoint join_comma (pieces : list str) : str :=
  match pieces with
  | [] => []
  | [p] => p
  | p :: r => p ++ COMMA :: join_comma r
  end.

Definition is_group (g : str) (pieces : list str) : Prop :=
  pieces <> [] /\ Forall (fun p => ~ In COMMA p) pieces /\ join_comma pieces = g.

(* a target carries a group when it carries every label of the group *)
Definition carries_group (t : target) (g : str) : Prop :=
  exists pieces, is_group g pieces /\ Forall (carries_label t) pieces.

(* an --exclude argument is a build expression when it looks like a build label *)
Definition is_expression (x : str) : Prop :=
  (exists r, x = s "//" ++ r) \/ (exists r, x = s ":" ++ r)
  \/ ((exists r, x = s "@" ++ r) /\ ((exists a b, x = a ++ s ":" ++ b) \/ (exists a b, x = a ++ s "//" ++ b))).

(* the targets a build expression denotes, within one repository: package and name *)
Definition denotes_names (e that : label) : Prop :=
  (l_name e = s "..." /\ (l_pkg e = [] \/ l_pkg that = l_pkg e \/ exists rest, l_pkg that = l_pkg e ++ SLASH :: rest))
  \/ (l_name e = s "all" /\ l_pkg that = l_pkg e)
  \/ (l_pkg that = l_pkg e /\ l_name that = l_name e).

(* the targets a build expression denotes: those of ITS repository (the host repository, or the subrepo it names)
   whose package and name it covers.  `//pkg:x` does not match `///sub//pkg:x`, nor the other way round. *)
Definition denotes (e that : label) : Prop := l_sub that = l_sub e /\ denotes_names e that.

(* the documented reading of the exclude expression forms, from the package `cur` plz was started in:
     :name              -> //cur:name            (also :all, and :... for everything below cur)
     //pkg:name         -> that target of the host repository
     ///sub//pkg:name, @sub//pkg:name -> that target of subrepo sub *)
Inductive reads (cur : str) : str -> label -> Prop :=
| read_relative name :
    validate_target_name name = true ->
    reads cur (COLON :: name) {| l_sub := []; l_pkg := cur; l_name := name |}
| read_absolute p name :
    validate_package_name p = true -> validate_target_name name = true -> name <> s "..." ->
    reads cur (s "//" ++ p ++ COLON :: name) {| l_sub := []; l_pkg := p; l_name := name |}
| read_subrepo_slashes sub p name :
    ~ In COLON sub -> (forall a b, sub <> a ++ s "//" ++ b) -> last sub 0%N <> SLASH ->
    validate_package_name p = true -> validate_target_name name = true -> name <> s "..." ->
    reads cur (s "///" ++ sub ++ s "//" ++ p ++ COLON :: name) {| l_sub := sub; l_pkg := p; l_name := name |}
| read_subrepo_at sub p name :
    ~ In COLON sub -> (forall a b, sub <> a ++ s "//" ++ b) -> last sub 0%N <> SLASH ->
    validate_package_name p = true -> validate_target_name name = true -> name <> s "..." ->
    reads cur (s "@" ++ sub ++ s "//" ++ p ++ COLON :: name) {| l_sub := sub; l_pkg := p; l_name := name |}.

(* THE RULE: selected <-> (no include given, or some include group carried) and no exclude group carried and no
   exclude expression (read from the package `cur` plz was started in) denotes the target. *)
Definition selected (cur : str) (include exclude : list str) (t : target) : Prop :=
  (include = [] \/ exists g, In g include /\ carries_group t g)
  /\ (forall x, In x exclude -> ~ is_expression x -> ~ carries_group t x)
  /\ (forall x e, In x exclude -> is_expression x -> parse_exclude cur x = Some e -> ~ denotes e (t_label t)).

(* some --exclude argument covers the target *)
Definition excluded (cur : str) (exclude : list str) (t : target) : Prop :=
  exists x, In x exclude /\
    ((~ is_expression x /\ carries_group t x)
     \/ (is_expression x /\ exists e, parse_exclude cur x = Some e /\ denotes e (t_label t))).

(* the package names a pseudo label ranges over, within one repository *)
Definition covers_names (l : label) (pkgname : str) : Prop :=
  (l_name l = s "all" /\ pkgname = l_pkg l)
  \/ (l_name l = s "..." /\ (l_pkg l = [] \/ pkgname = l_pkg l \/ exists rest, pkgname = l_pkg l ++ SLASH :: rest)).

(* the packages a pseudo label ranges over: those of its own repository *)
Definition covers (l : label) (p : package) : Prop := p_sub p = l_sub l /\ covers_names l (p_name p).

(* a graph as the parser builds it: one package per (subrepo, name) - as the code keys them, by the printed key -,
   one target per name, targets know their package and repository *)
Definition wf_graph (g : graph) : Prop :=
  NoDup (map pkg_key g)
  /\ forall p, In p g -> NoDup (map t_name (p_targets p))
                         /\ forall t, In t (p_targets p) -> t_pkg t = p_name p /\ t_sub t = p_sub p.

(* the known defect, as executable classifiers.
   (1) BuildLabel.Includes does not look at Subrepo: an exclude expression of ANOTHER repository whose package and
       name cover the target rejects it. *)
Definition confused (st : state) (t : target) : bool :=
  existsb (fun e => includes e (t_label t) && negb (str_eqb (l_sub e) (t_sub t))) (st_exclude_targets st).

(* (2) the `...` branch of expandOriginalPseudoTarget compares the label's package with the PackageMap key
       (`@sub//pkg` for a subrepo package) and never looks at the label's Subrepo: it is right when the label and all
       packages of the graph belong to the host repository. *)
Definition host_only (g : graph) (l : label) : Prop := l_sub l = [] /\ forall p, In p g -> p_sub p = [].

(* the documented selection for one requested :all or /... label *)
Definition in_selection (cur : str) (include exclude : list str) (g : graph) (l : label)
           (just_tests : bool) (lbl : label) : Prop :=
  exists p t, In p g /\ covers l p /\ In t (p_targets p) /\ t_label t = lbl
              /\ (just_tests = true -> t_test t = true) /\ selected cur include exclude t.
