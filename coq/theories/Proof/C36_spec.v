(* C36 - the documented include/exclude rule, written from the property text and docs/commands.html,
   as propositions over the model's data types.  Definitions only; the proofs are in Proof/C36.v.
   The constants here ("test", '*', ',', '/', "all", "...") are the documented ones, written out; the model takes
   its constants from the source (Gen/LabelFilter.v), so a change of a literal in the source separates the two. *)
From Coq Require Import String.
From PlzV Require Import Base.Harness Model.C36.
Local Open Scope list_scope.

Definition STAR : N := 42%N.    (* '*' *)
Definition COMMA : N := 44%N.   (* ',' *)
Definition SLASH : N := 47%N.   (* '/' *)
Definition COLON : N := 58%N.   (* ':' *)

(* a trailing `*` in a label matches by prefix *)
Definition label_matches (p l : str) : Prop :=
  p = l \/ exists stem rest, p = stem ++ [STAR] /\ l = stem ++ rest.

(* the labels a target carries: the declared ones, and `test` for a test *)
Definition carried (t : target) (l : str) : Prop :=
  In l (t_labels t) \/ (t_test t = true /\ l = s "test").

Definition carries_label (t : target) (p : str) : Prop := exists l, carried t l /\ label_matches p l.

(* a group is a comma separated list of labels *)
Fixpoint join_comma (pieces : list str) : str :=
  match pieces with
  | [] => []
  | [p] => p
  | p :: r => p ++ COMMA :: join_comma r
  end.

Definition is_group (g : str) (pieces : list str) : Prop :=
  pieces <> [] /\ Forall (fun p => ~ In COMMA p) pieces /\ join_comma pieces = g.

(* a target carries a group when it carries every label of the group *)
Definition carries_group (t : target) (g : str) : Prop :=
  exists pieces, is_group g pieces /\ Forall (carries_label t) pieces.

(* an --exclude argument is a build expression when it looks like a build label *)
Definition is_expression (x : str) : Prop :=
  (exists r, x = s "//" ++ r) \/ (exists r, x = s ":" ++ r)
  \/ ((exists r, x = s "@" ++ r) /\ ((exists a b, x = a ++ s ":" ++ b) \/ (exists a b, x = a ++ s "//" ++ b))).

(* the targets a build expression denotes *)
Definition denotes (e that : label) : Prop :=
  (l_name e = s "..." /\ (l_pkg e = [] \/ l_pkg that = l_pkg e \/ exists rest, l_pkg that = l_pkg e ++ SLASH :: rest))
  \/ (l_name e = s "all" /\ l_pkg that = l_pkg e)
  \/ (l_pkg that = l_pkg e /\ l_name that = l_name e).

(* THE RULE: selected <-> (no include given, or some include group carried) and no exclude group carried and no
   exclude expression denotes the target. *)
Definition selected (include exclude : list str) (t : target) : Prop :=
  (include = [] \/ exists g, In g include /\ carries_group t g)
  /\ (forall x, In x exclude -> ~ is_expression x -> ~ carries_group t x)
  /\ (forall x e, In x exclude -> is_expression x -> parse_exclude x = Some e -> ~ denotes e (t_label t)).

(* some --exclude argument covers the target *)
Definition excluded (exclude : list str) (t : target) : Prop :=
  exists x, In x exclude /\
    ((~ is_expression x /\ carries_group t x)
     \/ (is_expression x /\ exists e, parse_exclude x = Some e /\ denotes e (t_label t))).

(* the packages a pseudo label ranges over *)
Definition covers (l : label) (pkgname : str) : Prop :=
  (l_name l = s "all" /\ pkgname = l_pkg l)
  \/ (l_name l = s "..." /\ (l_pkg l = [] \/ pkgname = l_pkg l \/ exists rest, pkgname = l_pkg l ++ SLASH :: rest)).

(* a graph as the parser builds it: one package per name, one target per name, targets know their package *)
Definition wf_graph (g : graph) : Prop :=
  NoDup (map p_name g)
  /\ forall p, In p g -> NoDup (map t_name (p_targets p)) /\ forall t, In t (p_targets p) -> t_pkg t = p_name p.

(* the documented selection for one requested :all or /... label *)
Definition in_selection (include exclude : list str) (g : graph) (l : label)
           (just_tests : bool) (lbl : label) : Prop :=
  exists p t, In p g /\ covers l (p_name p) /\ In t (p_targets p) /\ t_label t = lbl
              /\ (just_tests = true -> t_test t = true) /\ selected include exclude t.
