(* C10 - round-2 follow-up proofs:
   (a) the three states of a listed variable (unset / empty / value) and the two read modes: the environment is a
       function of what the hash can see;
   (b) the request headers of the built-in remote_file action;
   (c) needsBuilding / Build over histories of invocations, failing actions and both hash stores included. *)
From Coq Require Import String.
From PlzV Require Import Base.Harness Base.StrFacts Model.C10 Proof.C10 Proof.C10_Sandbox.
From Coq Require Import Lia Permutation.

(* ------------------------------------------------------------------ (a) read modes *)
Lemma read_view_getenv c k : read_view RGetenv c k = Some (getenv c k).
Proof. unfold read_view, vstate_of, getenv. destruct (lookup k c) as [[|x v]|]; reflexivity. Qed.

Lemma read_view_lookup c k : read_view RLookup c k = lookup k c.
Proof. unfold read_view, vstate_of. destruct (lookup k c) as [[|x v]|]; reflexivity. Qed.

Lemma pass_step_getenv c a k : pass_step RGetenv c a k = set k (getenv c k) a.
Proof. unfold pass_step. now rewrite read_view_getenv. Qed.

(* the unchanged code is the (getenv, getenv) instance *)
Lemma target_env_m_unchanged cfg t c : target_env_m RGetenv RGetenv cfg t c = target_env cfg t c.
Proof.
  unfold target_env_m, target_env.
  rewrite (fold_left_ext_in (pass_step RGetenv c) (fun a k => set k (getenv c k) a) (opt_list (t_pass_env t)))
    by (intros; apply pass_step_getenv).
  now rewrite (fold_left_ext_in (pass_step RGetenv c) (fun a k => set k (getenv c k) a) (opt_list (t_pass_unsafe t)))
    by (intros; apply pass_step_getenv).
Qed.

(* the read of the ENVIRONMENT side may not tell more states apart than the read of the HASH side *)
Definition mode_le (me mh : read_mode) : bool := match me, mh with RLookup, RGetenv => false | _, _ => true end.

Lemma view_refines me mh st1 st2 :
  mode_le me mh = true -> view_of mh st1 = view_of mh st2 -> view_of me st1 = view_of me st2.
Proof. destruct me, mh, st1, st2; cbn; intros Hle H; try discriminate; try congruence. Qed.

Lemma map_eq_in {A B} (f g : A -> B) l : map f l = map g l -> forall x, In x l -> f x = g x.
Proof.
  induction l as [|y l IH]; cbn; intros H x Hx; [destruct Hx|].
  injection H as H1 H2. destruct Hx as [->|Hx]; auto.
Qed.

Lemma fold_pass_step_ext m c1 c2 l :
  (forall n, In n l -> read_view m c1 n = read_view m c2 n) ->
  forall e, fold_left (pass_step m c1) l e = fold_left (pass_step m c2) l e.
Proof. intros H; apply fold_left_ext_in; intros a k Hk. unfold pass_step. now rewrite (H k Hk). Qed.

(* For EVERY combination of read modes in which the environment side is not finer than the hash side: two callers the
   hash cannot tell apart (same view of every pass_env variable), that agree on the configuration-level lists and on
   what the unsafe loop sees, give the same TargetEnvironment. *)
Theorem target_env_m_hashed mu me mh cfg t c1 c2 :
  mode_le me mh = true ->
  agree c1 c2 (c_pass_unsafe cfg ++ c_pass_env cfg) ->
  (forall n, In n (opt_list (t_pass_unsafe t)) -> read_view mu c1 n = read_view mu c2 n) ->
  hashed_view mh t c1 = hashed_view mh t c2 ->
  target_env_m mu me cfg t c1 = target_env_m mu me cfg t c2.
Proof.
  intros Hle Hc Hu Hh. unfold target_env_m. rewrite (general_env_agree _ _ _ Hc).
  rewrite (fold_pass_step_ext mu c1 c2 _ Hu).
  apply fold_pass_step_ext. intros n Hn. unfold read_view.
  apply (view_refines me mh); [exact Hle|]. exact (map_eq_in _ _ _ Hh n Hn).
Qed.

(* ... and it is false for the combination (environment: LookupEnv, hash: Getenv): unset vs. set-but-empty *)
Definition tri_target := simple_target (Some [s "T_A"]) [].
Definition tri_unset : env := [].
Definition tri_empty : env := [(s "T_A", [])].
Lemma lookup_vs_getenv_refuted :
  hashed_view RGetenv tri_target tri_unset = hashed_view RGetenv tri_target tri_empty
  /\ pass_env_stream tri_target tri_unset = pass_env_stream tri_target tri_empty
  /\ target_env_m RLookup RLookup (empty_cfg []) tri_target tri_unset <> target_env_m RLookup RLookup (empty_cfg []) tri_target tri_empty
  /\ target_env (empty_cfg []) tri_target tri_unset = target_env (empty_cfg []) tri_target tri_empty.
Proof. vm_compute. repeat split; try reflexivity. discriminate. Qed.

(* the rest of BuildEnvironment reads the caller only through HOME (secrets with ~) *)
Lemma build_env_sb_of_target_env sx cfg t tmp c1 c2 :
  target_env cfg t c1 = target_env cfg t c2 -> agree c1 c2 (code_reads cfg t) ->
  build_env_sb sx cfg t tmp c1 = build_env_sb sx cfg t tmp c2.
Proof.
  intros Ht Hc. unfold build_env_sb. rewrite Ht.
  assert (Hs : secrets_value c1 (t_secrets t) = secrets_value c2 (t_secrets t)).
  { apply (secrets_value_agree cfg t); [exact Hc|]. unfold has_tilde_secrets; intros E.
    apply orb_false_iff in E as [E _]; exact E. }
  assert (Hn : forall e,
    fold_left (fun a kv => set (s "SECRETS_" ++ to_upper (fst kv)) (secrets_value c1 (snd kv)) a) (t_named_secrets t) e =
    fold_left (fun a kv => set (s "SECRETS_" ++ to_upper (fst kv)) (secrets_value c2 (snd kv)) a) (t_named_secrets t) e).
  { apply fold_left_ext_in; intros a kv Hkv. f_equal.
    apply (secrets_value_agree cfg t); [exact Hc|]. unfold has_tilde_secrets; intros E.
    apply orb_false_iff in E as [_ E].
    exact (existsb_false_in _ _ kv E Hkv). }
  rewrite Hn. revert Hs. destruct (t_secrets t) as [|s0 l0]; intros Hs; [reflexivity|]. now rewrite Hs.
Qed.

Lemma getenv_agree_views c1 c2 l :
  (forall n, In n l -> getenv c1 n = getenv c2 n) -> forall n, In n l -> read_view RGetenv c1 n = read_view RGetenv c2 n.
Proof. intros H n Hn. rewrite !read_view_getenv. now rewrite (H n Hn). Qed.

(* The unchanged code: the whole build environment is a function of the os.Getenv VALUES of the target-level listed
   variables - unset and set-but-empty are the same state, exactly as for ruleHash - plus the configuration-level
   lists and HOME-if-read (os.LookupEnv there). *)
Theorem env_function_of_hashed sx cfg t tmp c1 c2 :
  agree c1 c2 (c_pass_unsafe cfg ++ c_pass_env cfg ++ code_reads cfg t) ->
  (forall n, In n (opt_list (t_pass_unsafe t) ++ opt_list (t_pass_env t)) -> getenv c1 n = getenv c2 n) ->
  build_env_sb sx cfg t tmp c1 = build_env_sb sx cfg t tmp c2.
Proof.
  intros Ha Hg.
  assert (Hc : agree c1 c2 (c_pass_unsafe cfg ++ c_pass_env cfg)).
  { intros n Hn; apply Ha. rewrite app_assoc. apply in_or_app; now left. }
  assert (Hr : agree c1 c2 (code_reads cfg t)).
  { intros n Hn; apply Ha. do 2 (apply in_or_app; right). exact Hn. }
  apply build_env_sb_of_target_env; [|exact Hr].
  rewrite <- !target_env_m_unchanged.
  apply (target_env_m_hashed RGetenv RGetenv RGetenv); [reflexivity|exact Hc| |].
  - apply getenv_agree_views. intros n Hn; apply Hg, in_or_app; now left.
  - unfold hashed_view. apply map_ext_in. apply getenv_agree_views. intros n Hn; apply Hg, in_or_app; now right.
Qed.

(* equal hashed bytes => equal environment, for "="-free names and values (C10_framing's hypothesis): the environment
   is a function of WHAT IS HASHED *)
Theorem env_function_of_stream sx cfg t tmp pre post c1 c2 :
  agree c1 c2 (c_pass_unsafe cfg ++ c_pass_env cfg ++ code_reads cfg t) ->
  (forall n, In n (opt_list (t_pass_unsafe t)) -> getenv c1 n = getenv c2 n) ->
  (forall n, In n (opt_list (t_pass_env t)) -> no_eq n /\ no_eq (getenv c1 n) /\ no_eq (getenv c2 n)) ->
  rule_stream pre post t c1 = rule_stream pre post t c2 ->
  build_env_sb sx cfg t tmp c1 = build_env_sb sx cfg t tmp c2.
Proof.
  intros Ha Hu Hne Hs. apply env_function_of_hashed; [exact Ha|].
  intros n Hn. apply in_app_or in Hn as [Hn|Hn]; [now apply Hu|].
  exact (rule_stream_injective_no_eq t pre post c1 c2 Hne Hs n Hn).
Qed.

(* the three states, explicitly: a listed variable that is unset and one that is set-but-empty are indistinguishable *)
Lemma vstate_getenv c k : getenv c k = match vstate_of c k with VUnset | VEmpty => [] | VValue v => v end.
Proof. unfold getenv, vstate_of. destruct (lookup k c) as [[|x v]|]; reflexivity. Qed.

(* ------------------------------------------------------------------ (b) remote_file headers *)
Lemma expand_fuel_ext f m1 m2 : (forall k, m1 k = m2 k) -> forall x, expand_fuel f m1 x = expand_fuel f m2 x.
Proof.
  intros H; induction f as [|f IH]; intros x; cbn [expand_fuel]; [reflexivity|].
  destruct x as [|c r]; [reflexivity|].
  destruct (N.eqb c (ch "$") && negb match r with [] => true | _ :: _ => false end)%bool.
  - destruct (get_shell_name r) as [name w]. rewrite IH. destruct name, w; try reflexivity; now rewrite H.
  - now rewrite IH.
Qed.

Lemma os_expand_ext m1 m2 x : (forall k, m1 k = m2 k) -> os_expand m1 x = os_expand m2 x.
Proof. intros H; unfold os_expand. now apply expand_fuel_ext. Qed.

(* with the target's environment as the mapping, a header value is determined by configuration, target and the LISTED
   caller variables - for every declared value, whatever it refers to *)
Theorem header_determined cfg t tmp c1 c2 e1 e2 raw :
  NoDup (map fst (t_env t)) -> Permutation e1 (t_env t) -> Permutation e2 (t_env t) -> agree c1 c2 (reads cfg t) ->
  header_value HTargetEnv cfg (with_env t e1) tmp c1 raw = header_value HTargetEnv cfg (with_env t e2) tmp c2 raw.
Proof.
  intros Hnd P1 P2 Ha. unfold header_value. apply os_expand_ext. intros k. cbn [header_mapping].
  now rewrite (determined cfg t tmp c1 c2 e1 e2 Hnd P1 P2 Ha).
Qed.

(* and a listed variable IS visible to a header *)
Lemma header_sees_listed cfg t tmp c :
  t_env t = [] -> In (s "T_A") (opt_list (t_pass_env t)) ->
  header_value HTargetEnv cfg t tmp c (s "${T_A}") = getenv c (s "T_A").
Proof.
  intros He Hin. unfold header_value, os_expand. cbn. rewrite app_nil_r. unfold env_val0.
  assert (H : lookup (s "T_A") (build_env cfg t tmp c) = Some (getenv c (s "T_A"))); [|cbn in H; now rewrite H].
  unfold build_env, build_env_sb, with_user_env. rewrite He. cbn [sort_env fold_right fold_left].
  assert (Ht : lookup (s "T_A") (target_env cfg t c) = Some (getenv c (s "T_A")))
    by (apply target_env_visible, in_or_app; now right).
  assert (Hfold : forall (f : str * list str -> str) (g : list str -> str) l e,
             (forall kv, f kv <> s "T_A") -> lookup (s "T_A") e = Some (getenv c (s "T_A")) ->
             lookup (s "T_A") (fold_left (fun a kv => set (f kv) (g (snd kv)) a) l e) = Some (getenv c (s "T_A"))).
  { intros f g l; induction l as [|kv l IH]; intros e Hf Hl; cbn [fold_left]; [exact Hl|].
    apply IH; [exact Hf|]. rewrite lookup_set_other; [exact Hl|]. intros E; exact (Hf kv (eq_sym E)). }
  assert (Hpre : forall p x, p <> [] -> hd 0%N p <> ch "T" -> p ++ x <> s "T_A").
  { intros p x Hp Hh E. destruct p as [|a p]; [congruence|]. cbn in E, Hh. injection E as E _. congruence. }
  repeat first
    [ rewrite lookup_set_other by (vm_compute; discriminate)
    | match goal with |- lookup _ (fold_left _ _ _) = _ => apply Hfold; [intros kv; apply Hpre; vm_compute; congruence|] end
    | match goal with |- lookup _ (match ?x with _ => _ end) = _ => destruct x end
    | match goal with |- lookup _ (if ?x then _ else _) = _ => destruct x end
    | exact Ht ].
Qed.

(* with the process environment as the mapping (os.ExpandEnv) the statement is false *)
Definition hdr_target := simple_target (Some [s "T_A"]) [].
Lemma header_shell_refuted :
  let c1 := [(s "T_A", s "1"); (s "LEAK", s "hunter2")] in
  let c2 := [(s "T_A", s "1"); (s "LEAK", s "other")] in
  agree c1 c2 (reads (empty_cfg []) hdr_target)
  /\ header_value HShellEnv (empty_cfg []) hdr_target (s "/tmp/x") c1 (s "tok-$LEAK") <> header_value HShellEnv (empty_cfg []) hdr_target (s "/tmp/x") c2 (s "tok-$LEAK")
  /\ header_value HTargetEnv (empty_cfg []) hdr_target (s "/tmp/x") c1 (s "tok-$LEAK/$T_A") = s "tok-/1".
Proof.
  cbn zeta. split; [|split].
  - intros n Hn. vm_compute in Hn. destruct Hn as [<-|[]]. reflexivity.
  - vm_compute. discriminate.
  - vm_compute. reflexivity.
Qed.

(* ------------------------------------------------------------------ (c) histories of builds *)
Definition nb_eqb (a b : nb_check) : bool :=
  match a, b with
  | NbMetadata, NbMetadata | NbConfig, NbConfig | NbRule, NbRule | NbSource, NbSource | NbSecret, NbSecret
  | NbOutputs, NbOutputs | NbForce, NbForce => true
  | _, _ => false
  end.
Lemma nb_eqb_eq a b : nb_eqb a b = true -> a = b.
Proof. destruct a, b; cbn; congruence. Qed.

(* the checks the argument needs: the recorded hash is compared (both halves) and the outputs are looked at *)
Definition covers (checks : list nb_check) : bool :=
  (existsb (nb_eqb NbConfig) checks && existsb (nb_eqb NbRule) checks && existsb (nb_eqb NbOutputs) checks)%bool.

(* what is on disk is consistent: outputs that exist carry THEIR hash record, and the metadata file is there *)
Definition consistent (st : ostate) : Prop := forall k, o_out st = Some k -> o_rec st = Some k /\ o_md st = true.

Lemma consistent_init : consistent o_init.
Proof. intros k H; discriminate. Qed.

Lemma build_once_consistent checks removes xattrs key ok st :
  consistent st -> consistent (fst (build_once checks removes xattrs key ok st)).
Proof.
  intros H. unfold build_once. destruct (needs_building checks st key); [|exact H].
  destruct ok; cbn [fst].
  - intros k Hk; cbn in *. injection Hk as <-. auto.
  - destruct removes; cbn [fst]; [|exact H]. intros k Hk; discriminate.
Qed.

Lemma run_step_consistent checks removes xattrs st x :
  consistent st -> consistent (fst (run_step checks removes xattrs st x)).
Proof.
  intros H. destruct x as [[key ok]|]; cbn [run_step]; [|exact consistent_init].
  pose proof (build_once_consistent checks removes xattrs key ok st H) as H'.
  destruct (build_once checks removes xattrs key ok st) as [st' r]. exact H'.
Qed.

(* the invariant holds after EVERY history *)
Lemma run_history_consistent checks removes xattrs h : forall st,
  consistent st -> consistent (fst (run_history checks removes xattrs st h)).
Proof.
  induction h as [|x h IH]; intros st H; cbn [run_history]; [exact H|].
  pose proof (run_step_consistent checks removes xattrs st x H) as H1.
  destruct (run_step checks removes xattrs st x) as [st' o]. cbn [fst] in H1.
  pose proof (IH st' H1) as H2.
  destruct (run_history checks removes xattrs st' h) as [stf obs]. exact H2.
Qed.

Lemma existsb_in_fires checks st key c :
  existsb (nb_eqb c) checks = true -> nb_fires st key c = true -> needs_building checks st key = true.
Proof.
  intros Hin Hf. unfold needs_building. apply existsb_exists.
  apply existsb_exists in Hin as [c' [Hc' E]]. apply nb_eqb_eq in E; subst c'. exists c; auto.
Qed.

Lemma hkey_eqb_eq a b : hkey_eqb a b = true <-> a = b.
Proof.
  destruct a as [a1 a2], b as [b1 b2]; unfold hkey_eqb; cbn [fst snd]. rewrite andb_true_iff, !str_eqb_eq.
  split; [intros [-> ->]; reflexivity|intros E; injection E; auto].
Qed.

(* needsBuilding, exactly: on a consistent state the action is (re-)run iff the outputs on disk are not those of the
   current hashed bytes - a changed pass_env value (changed bytes) causes a rebuild, nothing else does, failed builds
   and missing outputs included *)
Theorem needs_building_exact checks st key :
  covers checks = true -> consistent st ->
  needs_building checks st key = negb (okey_eqb (o_out st) (Some key)).
Proof.
  unfold covers; intros Hc Hs. apply andb_true_iff in Hc as [Hc Ho]. apply andb_true_iff in Hc as [Hcfg Hrule].
  destruct (o_out st) as [k|] eqn:Eo; cbn [okey_eqb negb].
  - destruct (Hs k Eo) as [Hr Hm].
    destruct (hkey_eqb k key) eqn:Ek; cbn [negb].
    + apply hkey_eqb_eq in Ek; subst k. unfold needs_building.
      apply not_true_is_false. intros H. apply existsb_exists in H as [c [_ Hf]].
      destruct c; cbn [nb_fires] in Hf; rewrite ?Hm, ?Hr, ?Eo, ?str_eqb_refl in Hf; discriminate.
    + unfold hkey_eqb in Ek. apply andb_false_iff in Ek as [E|E].
      * apply (existsb_in_fires _ _ _ NbConfig Hcfg). cbn [nb_fires]. now rewrite Hr, E.
      * apply (existsb_in_fires _ _ _ NbRule Hrule). cbn [nb_fires]. now rewrite Hr, E.
  - apply (existsb_in_fires _ _ _ NbOutputs Ho). cbn [nb_fires]. now rewrite Eo.
Qed.

(* After ANY history of builds (successful or failing), cleans and environment changes, an invocation that reports
   success leaves outputs that exist and were produced under the CURRENT hashed bytes; and it ran the action exactly
   when the outputs on disk were not those. *)
Theorem history_fresh checks removes xattrs h key ok st' ran :
  covers checks = true ->
  let st := fst (run_history checks removes xattrs o_init h) in
  build_once checks removes xattrs key ok st = (st', (ran, true)) ->
  o_out st' = Some key /\ ran = negb (okey_eqb (o_out st) (Some key)).
Proof.
  intros Hc st Hb.
  assert (Hs : consistent st) by (apply run_history_consistent, consistent_init).
  unfold build_once in Hb. rewrite (needs_building_exact checks st key Hc Hs) in Hb.
  destruct (okey_eqb (o_out st) (Some key)) eqn:E; cbn [negb] in Hb.
  - injection Hb as <- <-. split; [|reflexivity].
    destruct (o_out st) as [k|]; cbn in E; [|discriminate]. apply hkey_eqb_eq in E; now subst.
  - destruct ok; [|destruct removes; discriminate]. injection Hb as <- <-. auto.
Qed.

(* Without the existence check the statement is false when the hashes live in side files: good, bad (fails, outputs
   removed, .rule_hash_ files stay), good again: "unchanged", no outputs.  With xattrs it happens to hold. *)
Definition nb_checks_no_outputs : list nb_check := [NbMetadata; NbConfig; NbRule; NbSource; NbSecret; NbForce].
Lemma no_outputs_check_refuted :
  let good := (s "cfg", s "MODE=fast") in let bad := (s "cfg", s "MODE=broken") in
  let h := [Some (good, true); Some (bad, false); Some (good, true)] in
  snd (run_history nb_checks_no_outputs true false o_init h) = [(true, true, true); (true, false, false); (false, true, false)]
  /\ snd (run_history nb_checks_no_outputs true true o_init h) = [(true, true, true); (true, false, false); (true, true, true)]
  /\ snd (run_history nb_checks_unchanged true false o_init h) = [(true, true, true); (true, false, false); (true, true, true)].
Proof. vm_compute. repeat split. Qed.
