(* C21 - glob(): the walk.
   Part W1: walkDir (io/fs.WalkDir with the SkipDir protocol, path strings built by path.Join, sub-packages found
            by filepath.Base/filepath.Dir) computes, on path strings, what `swalk` computes on component lists.
   Part W2: which entries the walk records and which directories it declares sub-packages (`swalk`), as sets:
            after the sub-package filter exactly the entries `ents` of the package remain.
   Part W3: the reference's `spec_files_in` selects the non-hidden files among `ents`. *)
From Coq Require Import String.
From PlzV Require Import Base.Harness Base.StrFacts Model.C21 Proof.C21 Proof.C21_paths.
From Coq Require Import Lia.

(* ------------------------------------------------------------------------------------------- trees *)
Lemma node_ind2 (P : node -> Prop) :
  P File -> P Sym -> (forall kids, Forall (fun e => P (snd e)) kids -> P (Dir kids)) -> forall n, P n.
Proof.
  intros HF HS HD. fix IH 1. intros [| |kids]; [exact HF|exact HS|].
  apply HD. induction kids as [|[nm k] r IHr]; constructor; [apply IH|exact IHr].
Qed.

(* a property of every entry below `n` (Q: of every directory listing) *)
Fixpoint tree_forall (Q : list (str * node) -> bool) (P : bool -> str -> node -> bool) (top : bool) (n : node) : bool :=
  match n with
  | Dir kids => Q kids && forallb (fun e => P top (fst e) (snd e) && tree_forall Q P false (snd e)) kids
  | _ => true
  end.

Lemma tree_forall_dir Q P top kids : tree_forall Q P top (Dir kids) = true ->
  Q kids = true /\ forall nm k, In (nm, k) kids -> P top nm k = true /\ tree_forall Q P false k = true.
Proof.
  cbn [tree_forall]. intros H. apply andb_prop in H as [HQ H]. split; [exact HQ|].
  intros nm k Hin. rewrite forallb_forall in H. specialize (H _ Hin). cbn [fst snd] in H. now apply andb_prop in H.
Qed.

Fixpoint nodupb (l : list str) : bool :=
  match l with [] => true | x :: r => negb (existsb (str_eqb x) r) && nodupb r end.

Lemma nodupb_cons x r : nodupb (x :: r) = true -> ~ In x r /\ nodupb r = true.
Proof.
  cbn [nodupb]. intros H. apply andb_prop in H as [H1 H2]. split; [|exact H2].
  intros Hin. apply negb_true_iff in H1. assert (existsb (str_eqb x) r = true); [|congruence].
  apply existsb_exists. exists x. split; [exact Hin|apply str_eqb_refl].
Qed.

Definition plz_out : str := s "plz-out".
Definition is_nil {A} (l : list A) : bool := match l with [] => true | _ => false end.
Definition is_sym (n : node) : bool := match n with Sym => true | _ => false end.
Definition in_bfn (bfn : list str) (nm : str) : bool := existsb (str_eqb nm) bfn.

(* well-formed directory listings: plain entry names, pairwise distinct (a directory has one entry per name) *)
Definition wf_Q (kids : list (str * node)) : bool := nodupb (map fst kids).
Definition wf_P (_ : bool) (nm : str) (k : node) : bool := entry_name_ok nm && negb (is_sym k).
Definition tree_wf (n : node) : bool := is_dir n && tree_forall wf_Q wf_P true n.

(* in the root package: nothing is named plz-out but, possibly, a directory at the top *)
Definition plz_P (top : bool) (nm : str) (k : node) : bool :=
  if str_eqb nm plz_out then top && is_dir k else true.
Definition plz_ok (rp : bool) (n : node) : bool := negb rp || tree_forall (fun _ => true) plz_P true n.

(* no hidden directory *)
Definition hid_P (_ : bool) (nm : str) (k : node) : bool := negb (is_dir k && name_hidden nm).
Definition no_hidden_dir (n : node) : bool := tree_forall (fun _ => true) hid_P true n.

(* ------------------------------------------------------------------------------------------- the walk on components *)
Definition loop_until {A St} (step : A -> St -> St * bool) : list A -> St -> St :=
  fix go (l : list A) (st : St) : St :=
    match l with
    | [] => st
    | x :: r => match step x st with (s2, true) => s2 | (s2, false) => go r s2 end
    end.

Definition sacc := (list (list str) * list (list str))%type.      (* recorded entries, sub-packages; newest first *)

Fixpoint swalk (bfn : list str) (rp : bool) (par : list str) (nm : str) (n : node) (a : sacc) {struct n} : sacc * bool :=
  if in_bfn bfn nm && negb (is_nil par) then ((fst a, par :: snd a), negb (is_dir n))
  else if str_eqb nm plz_out && rp then (a, negb (is_dir n))
  else match n with
       | Dir kids => (loop_until (fun e a => swalk bfn rp (par ++ [nm]) (fst e) (snd e) a) kids
                                 ((par ++ [nm]) :: fst a, snd a), false)
       | _ => (((par ++ [nm]) :: fst a, snd a), false)
       end.

Definition sloop bfn rp (dir : list str) (kids : list (str * node)) (a : sacc) : sacc :=
  loop_until (fun e a => swalk bfn rp dir (fst e) (snd e) a) kids a.

(* ------------------------------------------------------------------------------------------- Part W1 *)
Definition wr (pkg : list str) (a : sacc) : walked :=
  Walked (map (pstr pkg) (fst a)) [] (map (pstr pkg) (snd a)).

Definition wloop bfn root path (kids : list (str * node)) (w : walked) : walked :=
  loop_until (fun e w => walk_node bfn root (pjoin path (fst e)) (fst e) (snd e) w) kids w.

Lemma walk_node_dir bfn root path name kids w :
  walk_node bfn root path name (Dir kids) w =
  match visit bfn root path name (Dir kids) w with
  | (w1, true) => (w1, false)
  | (w1, false) => (wloop bfn root path kids w1, false)
  end.
Proof.
  cbn [walk_node]. destruct (visit bfn root path name (Dir kids) w) as [w1 [|]]; [reflexivity|].
  f_equal. unfold wloop. revert w1. induction kids as [|[nm k] r IH]; intros w1; [reflexivity|].
  cbn [loop_until fst snd]. destruct (walk_node bfn root (pjoin path nm) nm k w1) as [w2 [|]]; [reflexivity|apply IH].
Qed.

Lemma root_is_dot pkg : forallb entry_name_ok pkg = true -> str_eqb (root_str pkg) (s ".") = is_nil pkg.
Proof.
  intros H. destruct pkg as [|x pkg]; [reflexivity|]. unfold root_str. apply intercalate_not_dot; [discriminate|exact H].
Qed.

Lemma pstr_neq_root pkg par : forallb entry_name_ok (pkg ++ par) = true ->
  str_eqb (pstr pkg par) (root_str pkg) = is_nil par.
Proof.
  intros H. destruct par as [|x par]; [rewrite pstr_root; apply str_eqb_refl|].
  cbn [is_nil]. apply str_eqb_neq. rewrite pstr_nonroot by discriminate. unfold path_str, root_str.
  destruct pkg as [|y pkg].
  - cbn [app]. intros E. cbn [app] in H. pose proof (intercalate_not_dot (x :: par)) as N.
    rewrite E in N. cbn in N. specialize (N ltac:(discriminate) H). discriminate.
  - rewrite intercalate_app; [|discriminate|discriminate]. intros E.
    apply (f_equal (@length N)) in E. rewrite app_length in E. cbn [length] in E. lia.
Qed.

Lemma walk_refines bfn pkg n : forall par nm a,
  forallb entry_name_ok (pkg ++ par) = true -> entry_name_ok nm = true -> is_sym n = false ->
  tree_forall wf_Q wf_P false n = true ->
  walk_node bfn (root_str pkg) (pstr pkg (par ++ [nm])) nm n (wr pkg a)
  = (wr pkg (fst (swalk bfn (is_nil pkg) par nm n a)), snd (swalk bfn (is_nil pkg) par nm n a)).
Proof.
  induction n as [| |kids IH] using node_ind2; intros par nm a Hpar Hnm Hsym Hwf; [|discriminate|].
  - (* File *)
    cbn [walk_node swalk]. unfold visit, is_build_file. rewrite (base_pstr pkg par nm Hpar Hnm), (dirname_pstr pkg par nm Hpar Hnm).
    rewrite (pstr_neq_root pkg par Hpar), (root_is_dot pkg) by (rewrite forallb_app in Hpar; now apply andb_prop in Hpar).
    fold (in_bfn bfn nm). fold plz_out.
    destruct (in_bfn bfn nm && negb (is_nil par)); [reflexivity|].
    destruct (str_eqb nm plz_out && is_nil pkg); reflexivity.
  - (* Dir *)
    rewrite walk_node_dir. cbn [swalk]. unfold visit, is_build_file.
    rewrite (base_pstr pkg par nm Hpar Hnm), (dirname_pstr pkg par nm Hpar Hnm).
    rewrite (pstr_neq_root pkg par Hpar), (root_is_dot pkg) by (rewrite forallb_app in Hpar; now apply andb_prop in Hpar).
    fold (in_bfn bfn nm). fold plz_out.
    destruct (in_bfn bfn nm && negb (is_nil par)); [reflexivity|].
    destruct (str_eqb nm plz_out && is_nil pkg); [reflexivity|].
    cbn [fst snd]. f_equal.
    apply tree_forall_dir in Hwf as [_ Hkids].
    assert (Hdir : forallb entry_name_ok (pkg ++ par ++ [nm]) = true).
    { rewrite app_assoc, forallb_snoc, Hpar, Hnm. reflexivity. }
    change (Walked (pstr pkg (par ++ [nm]) :: w_files (wr pkg a)) (w_syms (wr pkg a)) (w_subs (wr pkg a)))
      with (wr pkg ((par ++ [nm]) :: fst a, snd a)).
    generalize ((par ++ [nm]) :: fst a, snd a). unfold wloop. clear Hsym.
    induction kids as [|[nm2 k] r IHr]; intros a1; [reflexivity|].
    inversion IH as [|? ? IHk IHrest]; subst.
    destruct (Hkids nm2 k (or_introl eq_refl)) as [HP Hk]. unfold wf_P in HP. apply andb_prop in HP as [Hnm2 Hs2].
    apply negb_true_iff in Hs2.
    cbn [loop_until fst snd]. rewrite (pjoin_pstr pkg (par ++ [nm]) nm2 Hdir).
    cbn [snd] in IHk. rewrite (IHk (par ++ [nm]) nm2 a1 Hdir Hnm2 Hs2 Hk).
    destruct (swalk bfn (is_nil pkg) (par ++ [nm]) nm2 k a1) as [a2 [|]]; [reflexivity|].
    cbn [fst snd]. apply IHr; [exact IHrest|]. intros nm3 k3 Hin. apply Hkids. now right.
Qed.

(* the whole walk of a package directory *)
Lemma walk_dir_refines bfn pkg kids :
  forallb entry_name_ok pkg = true -> tree_wf (Dir kids) = true ->
  is_build_file bfn (root_str pkg) = false ->
  walk_dir bfn (root_str pkg) (Dir kids)
  = let a := sloop bfn (is_nil pkg) [] kids ([[]], []) in
    Walked (rev (map (pstr pkg) (fst a))) [] (rev (map (pstr pkg) (snd a))).
Proof.
  intros Hpkg Hwf Hnb. unfold tree_wf in Hwf. cbn [is_dir andb] in Hwf.
  unfold walk_dir. rewrite walk_node_dir. unfold visit. rewrite Hnb. cbn [andb].
  assert (str_eqb (base (root_str pkg)) (s "plz-out") && str_eqb (root_str pkg) (s ".") = false) as ->.
  { rewrite (root_is_dot pkg Hpkg). destruct pkg; [reflexivity|]. apply andb_false_r. }
  cbn [fst w_files w_syms w_subs].
  change (Walked [root_str pkg] [] []) with (Walked [root_str pkg] [] (map (pstr pkg) [])).
  rewrite <- (pstr_root pkg). change (Walked [pstr pkg []] [] (map (pstr pkg) [])) with (wr pkg ([[]], [])).
  apply tree_forall_dir in Hwf as [_ Hkids].
  assert (E : forall a, wloop bfn (root_str pkg) (pstr pkg []) kids (wr pkg a) = wr pkg (sloop bfn (is_nil pkg) [] kids a)).
  { unfold wloop, sloop. induction kids as [|[nm k] r IHr]; intros a; [reflexivity|].
    destruct (Hkids nm k (or_introl eq_refl)) as [HP Hk]. unfold wf_P in HP. apply andb_prop in HP as [Hnm Hs].
    apply negb_true_iff in Hs. cbn [loop_until fst snd].
    assert (Hp0 : forallb entry_name_ok (pkg ++ []) = true) by now rewrite app_nil_r.
    rewrite (pjoin_pstr pkg [] nm Hp0). rewrite (walk_refines bfn pkg k [] nm a Hp0 Hnm Hs Hk). cbn [app].
    destruct (swalk bfn (is_nil pkg) [] nm k a) as [a2 [|]]; [reflexivity|]. cbn [fst snd].
    apply IHr. intros nm3 k3 Hin. apply Hkids. now right. }
  rewrite <- (pstr_root pkg) in E. rewrite E. reflexivity.
Qed.

(* ------------------------------------------------------------------------------------------- Part W2 *)
Definition pre (d f : list str) : Prop := exists t, f = d ++ t.

Lemma pre_refl d : pre d d.
Proof. exists []. now rewrite app_nil_r. Qed.

Lemma pre_trans a b c : pre a b -> pre b c -> pre a c.
Proof. intros (t1 & ->) (t2 & ->). exists (t1 ++ t2). now rewrite app_assoc. Qed.

Lemma pre_snoc dir x : pre dir (dir ++ [x]).
Proof. now exists [x]. Qed.

Lemma pre_sibling dir x y d f : pre (dir ++ [x]) d -> pre d f -> pre (dir ++ [y]) f -> x = y.
Proof.
  intros (t1 & ->) (t2 & ->) (t3 & E). rewrite <- !app_assoc in E. apply app_inv_head in E.
  cbn in E. now injection E.
Qed.

Lemma pre_not_longer dir x d : pre (dir ++ [x]) d -> ~ pre d dir.
Proof.
  intros (t1 & ->) (t2 & E). apply (f_equal (@length _)) in E. rewrite !app_length in E. cbn in E. lia.
Qed.

Lemma pre_iff d f : is_prefix_segs d f = true <-> pre d f.
Proof. apply is_prefix_segs_iff. Qed.

(* a directory that holds a BUILD file is a package of its own *)
Definition keep (bfn : list str) (n : node) : bool :=
  match n with Dir kk => negb (has_build bfn kk) | _ => true end.

(* the entries of the package below `n` (flag: is a directory): not in the repository's plz-out, not in (or at
   the top of) a sub-package *)
Fixpoint ents (bfn : list str) (top : bool) (rel : list str) (n : node) {struct n} : list (list str * bool) :=
  match n with
  | Dir kids =>
      flat_map (fun e =>
        if top && str_eqb (fst e) plz_out then []
        else if keep bfn (snd e)
             then (rel ++ [fst e], is_dir (snd e)) :: ents bfn false (rel ++ [fst e]) (snd e)
             else []) kids
  | _ => []
  end.

Definition ents_kids bfn (top : bool) (rel : list str) (kids : list (str * node)) : list (list str * bool) :=
  flat_map (fun e =>
    if top && str_eqb (fst e) plz_out then []
    else if keep bfn (snd e)
         then (rel ++ [fst e], is_dir (snd e)) :: ents bfn false (rel ++ [fst e]) (snd e)
         else []) kids.

Lemma ents_dir bfn top rel kids : ents bfn top rel (Dir kids) = ents_kids bfn top rel kids.
Proof. reflexivity. Qed.

Definition node_hyp (rp top : bool) (nm : str) (n : node) : Prop :=
  tree_forall wf_Q wf_P false n = true
  /\ (rp = true -> plz_P top nm n = true /\ tree_forall (fun _ => true) plz_P false n = true).

Definition swalk_post bfn rp par nm n (a : sacc) : Prop :=
  exists Fn Sn skip, swalk bfn rp par nm n a = ((Fn ++ fst a, Sn ++ snd a), skip) /\
    (forall f, In f Fn -> pre (par ++ [nm]) f) /\
    (if in_bfn bfn nm && negb (is_nil par) then Fn = [] /\ Sn = [par]
     else skip = false /\ (forall d, In d Sn -> pre (par ++ [nm]) d) /\
          (if str_eqb nm plz_out && rp then Fn = [] /\ Sn = [] /\ is_nil par = true
           else if keep bfn n
                then forall f, (In f Fn /\ forall d, In d Sn -> ~ pre d f)
                               <-> (f = par ++ [nm] \/ In f (map fst (ents bfn false (par ++ [nm]) n)))
                else In (par ++ [nm]) Sn)).

Definition sloop_post bfn rp dir ks (a : sacc) : Prop :=
  exists Fn Sn, sloop bfn rp dir ks a = (Fn ++ fst a, Sn ++ snd a) /\
    (forall f, In f Fn -> exists nm, In nm (map fst ks) /\ pre (dir ++ [nm]) f) /\
    (forall d, In d Sn -> d = dir \/ exists nm, In nm (map fst ks) /\ pre (dir ++ [nm]) d) /\
    (dir <> [] -> has_build bfn ks = true -> In dir Sn) /\
    (dir = [] \/ has_build bfn ks = false ->
       (forall d, In d Sn -> exists nm, In nm (map fst ks) /\ pre (dir ++ [nm]) d) /\
       forall f, (In f Fn /\ forall d, In d Sn -> ~ pre d f)
                 <-> In f (map fst (ents_kids bfn (is_nil dir && rp) dir ks))).

Lemma is_nil_false {A} (l : list A) : l <> [] -> is_nil l = false.
Proof. destruct l; [congruence|reflexivity]. Qed.

Lemma sloop_spec bfn rp dir ks :
  nodupb (map fst ks) = true ->
  (forall nm k, In (nm, k) ks -> node_hyp rp (is_nil dir) nm k /\ forall a, swalk_post bfn rp dir nm k a) ->
  forall a, sloop_post bfn rp dir ks a.
Proof.
  induction ks as [|[nm k] rest IH]; intros Hnd Hk a.
  - exists [], []. repeat split; try (intros; contradiction); try discriminate.
    + intros [? Hin]. contradiction.
  - cbn [map fst] in Hnd. apply nodupb_cons in Hnd as [Hnotin Hnd].
    assert (Hrest : forall nm0 k0, In (nm0, k0) rest ->
              node_hyp rp (is_nil dir) nm0 k0 /\ forall a, swalk_post bfn rp dir nm0 k0 a)
      by (intros; apply Hk; now right).
    specialize (IH Hnd Hrest).
    destruct (Hk nm k (or_introl eq_refl)) as [[Hwf Hplz] Hpost].
    destruct (Hpost a) as (Fn1 & Sn1 & skip1 & E1 & Hpre1 & Hcase).
    unfold sloop in *. cbn [loop_until fst snd]. rewrite E1.
    assert (Hb : has_build bfn ((nm, k) :: rest) = in_bfn bfn nm || has_build bfn rest) by reflexivity.
    destruct (in_bfn bfn nm && negb (is_nil dir)) eqn:Ebuild.
    + (* a BUILD file (or an entry named like one) in a directory that is not the package's own *)
      destruct Hcase as [-> ->]. apply andb_prop in Ebuild as [Hin Hdir].
      assert (Hdne : dir <> []) by (destruct dir; [discriminate|discriminate]).
      destruct skip1.
      * exists [], [dir]. repeat split; try (intros; contradiction).
        -- intros d [<-|[]]. now left.
        -- intros _ _. now left.
        -- intros [->|Hnb]; [congruence|]. rewrite Hb, Hin in Hnb. discriminate.
        -- intros [->|Hnb]; [congruence|]. rewrite Hb, Hin in Hnb. discriminate.
        -- intros [->|Hnb]; [congruence|]. rewrite Hb, Hin in Hnb. discriminate.
        -- intros [->|Hnb]; [congruence|]. rewrite Hb, Hin in Hnb. discriminate.
      * destruct (IH (fst a, dir :: snd a)) as (Fnr & Snr & Er & HpreF & HpreS & Hhb & _).
        cbn [fst snd app] in Er. cbn [app]. rewrite Er.
        exists Fnr, (Snr ++ [dir]). rewrite <- app_assoc. cbn [app]. split; [reflexivity|]. repeat split.
        -- intros f Hf. destruct (HpreF f Hf) as (nm0 & Hin0 & Hp). exists nm0. split; [now right|exact Hp].
        -- intros d Hd. apply in_app_or in Hd as [Hd|[<-|[]]]; [|now left].
           destruct (HpreS d Hd) as [->|(nm0 & Hin0 & Hp)]; [now left|right]. exists nm0. split; [now right|exact Hp].
        -- intros _ _. apply in_or_app. right. now left.
        -- destruct H as [->|Hnb]; [congruence|]. rewrite Hb, Hin in Hnb. discriminate.
        -- destruct H as [->|Hnb]; [congruence|]. rewrite Hb, Hin in Hnb. discriminate.
        -- destruct H as [->|Hnb]; [congruence|]. rewrite Hb, Hin in Hnb. discriminate.
    + destruct Hcase as (-> & HpreS1 & Hcase).
      destruct (IH (Fn1 ++ fst a, Sn1 ++ snd a)) as (Fnr & Snr & Er & HpreF & HpreS & Hhb & Hflat).
      cbn [fst snd] in Er. rewrite Er. exists (Fnr ++ Fn1), (Snr ++ Sn1). rewrite <- !app_assoc.
      split; [reflexivity|].
      assert (HF : forall f, In f (Fnr ++ Fn1) -> exists nm0, In nm0 (map fst ((nm, k) :: rest)) /\ pre (dir ++ [nm0]) f).
      { intros f Hf. apply in_app_or in Hf as [Hf|Hf].
        - destruct (HpreF f Hf) as (nm0 & Hin0 & Hp). exists nm0. split; [now right|exact Hp].
        - exists nm. split; [now left|now apply Hpre1]. }
      split; [exact HF|]. split; [|split].
      * intros d Hd. apply in_app_or in Hd as [Hd|Hd].
        -- destruct (HpreS d Hd) as [->|(nm0 & Hin0 & Hp)]; [now left|right]. exists nm0. split; [now right|exact Hp].
        -- right. exists nm. split; [now left|now apply HpreS1].
      * intros Hdne Hhas. apply in_or_app. left. apply Hhb; [exact Hdne|].
        rewrite Hb in Hhas. rewrite (is_nil_false dir Hdne) in Ebuild. cbn in Ebuild. rewrite andb_true_r in Ebuild.
        now rewrite Ebuild in Hhas.
      * intros Hor.
        assert (Hor' : dir = [] \/ has_build bfn rest = false).
        { destruct Hor as [->|Hnb]; [now left|right]. rewrite Hb in Hnb. now apply orb_false_elim in Hnb. }
        destruct (Hflat Hor') as [HlocS Hiff]. split.
        -- intros d Hd. apply in_app_or in Hd as [Hd|Hd].
           ++ destruct (HlocS d Hd) as (nm0 & Hin0 & Hp). exists nm0. split; [now right|exact Hp].
           ++ exists nm. split; [now left|now apply HpreS1].
        -- intros f. unfold ents_kids. cbn [flat_map fst snd]. rewrite map_app, in_app_iff.
           fold (ents_kids bfn (is_nil dir && rp) dir rest). rewrite <- Hiff.
           (* siblings do not interfere *)
           assert (Hsib1 : forall f, In f Fn1 -> forall d, In d Snr -> ~ pre d f).
           { intros f0 Hf0 d Hd Hp. destruct (HlocS d Hd) as (nm0 & Hin0 & Hp0).
             pose proof (pre_sibling dir nm0 nm d f0 Hp0 Hp (Hpre1 f0 Hf0)) as ->. contradiction. }
           assert (Hsib2 : forall f, In f Fnr -> forall d, In d Sn1 -> ~ pre d f).
           { intros f0 Hf0 d Hd Hp. destruct (HpreF f0 Hf0) as (nm0 & Hin0 & Hp0).
             pose proof (pre_sibling dir nm nm0 d f0 (HpreS1 d Hd) Hp Hp0) as <-. contradiction. }
           destruct (str_eqb nm plz_out && rp) eqn:Eplz.
           ++ destruct Hcase as (-> & -> & Htop). apply andb_prop in Eplz as [Enm ->].
              rewrite Htop, Enm. cbn [andb map]. rewrite !app_nil_r. tauto.
           ++ assert (is_nil dir && rp && str_eqb nm plz_out = false) as ->.
              { rewrite <- andb_assoc, (andb_comm rp), Eplz. apply andb_false_r. }
              destruct (keep bfn k) eqn:Ekeep.
              ** cbn [map fst]. specialize (Hcase f). split.
                 --- intros [Hin Hno]. apply in_app_or in Hin as [Hin|Hin].
                     +++ right. split; [exact Hin|]. intros d Hd. apply Hno. apply in_or_app. now left.
                     +++ left. apply Hcase. split; [exact Hin|]. intros d Hd. apply Hno. apply in_or_app. now right.
                 --- intros [Hl|[Hin Hno]].
                     +++ apply Hcase in Hl as [Hin Hno]. split; [apply in_or_app; now right|].
                         intros d Hd. apply in_app_or in Hd as [Hd|Hd]; [now apply Hsib1|now apply Hno].
                     +++ split; [apply in_or_app; now left|].
                         intros d Hd. apply in_app_or in Hd as [Hd|Hd]; [now apply Hno|now apply Hsib2].
              ** cbn [map]. split.
                 --- intros [Hin Hno]. apply in_app_or in Hin as [Hin|Hin].
                     +++ right. split; [exact Hin|]. intros d Hd. apply Hno. apply in_or_app. now left.
                     +++ exfalso. apply (Hno (dir ++ [nm])); [apply in_or_app; now right|now apply Hpre1].
                 --- intros [[]|[Hin Hno]]. split; [apply in_or_app; now left|].
                     intros d Hd. apply in_app_or in Hd as [Hd|Hd]; [now apply Hno|now apply Hsib2].
Qed.
