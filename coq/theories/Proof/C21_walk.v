(* C21 - glob(): the walk.
   Part W1: walkDir (io/fs.WalkDir with the SkipDir protocol, path strings built by path.Join, sub-packages found
            by filepath.Base/filepath.Dir) computes, on path strings, what `swalk` computes on component lists.
   Part W2: which entries the walk records and which directories it declares sub-packages (`swalk`), as sets:
            after the sub-package filter exactly the entries `ents` of the package remain.
   Part W3: the reference's `spec_files_in` selects the non-hidden files among `ents`. *)
From Coq Require Import String.
From PlzV Require Import Base.Harness Base.StrFacts Model.C21 Proof.C21 Proof.C21_paths.
From Coq Require Import Lia.

(* ------------------------------------------------------------------------------------------- trees *)
Lemma node_ind2 (P : node -> Prop) :
  P File -> P Sym -> (forall kids, Forall (fun e => P (snd e)) kids -> P (Dir kids)) -> forall n, P n.
Proof.
  intros HF HS HD. fix IH 1. intros [| |kids]; [exact HF|exact HS|].
  apply HD. induction kids as [|[nm k] r IHr]; constructor; [apply IH|exact IHr].
Qed.

(* a property of every entry below `n` (Q: of every directory listing) *)
Fixpoint tree_forall (Q : list (str * node) -> bool) (P : bool -> str -> node -> bool) (top : bool) (n : node) : bool :=
  match n with
  | Dir kids => Q kids && forallb (fun e => P top (fst e) (snd e) && tree_forall Q P false (snd e)) kids
  | _ => true
  end.

Lemma tree_forall_dir Q P top kids : tree_forall Q P top (Dir kids) = true ->
  Q kids = true /\ forall nm k, In (nm, k) kids -> P top nm k = true /\ tree_forall Q P false k = true.
Proof.
  cbn [tree_forall]. intros H. apply andb_prop in H as [HQ H]. split; [exact HQ|].
  intros nm k Hin. rewrite forallb_forall in H. specialize (H _ Hin). cbn [fst snd] in H. now apply andb_prop in H.
Qed.

Fixpoint nodupb (l : list str) : bool :=
  match l with [] => true | x :: r => negb (existsb (str_eqb x) r) && nodupb r end.

Lemma nodupb_cons x r : nodupb (x :: r) = true -> ~ In x r /\ nodupb r = true.
Proof.
  cbn [nodupb]. intros H. apply andb_prop in H as [H1 H2]. split; [|exact H2].
  intros Hin. apply negb_true_iff in H1. assert (existsb (str_eqb x) r = true); [|congruence].
  apply existsb_exists. exists x. split; [exact Hin|apply str_eqb_refl].
Qed.

Definition plz_out : str := s "plz-out".
Definition is_nil {A} (l : list A) : bool := match l with [] => true | _ => false end.
Definition is_sym (n : node) : bool := match n with Sym => true | _ => false end.
Definition in_bfn (bfn : list str) (nm : str) : bool := existsb (str_eqb nm) bfn.

(* well-formed directory listings: plain entry names, pairwise distinct (a directory has one entry per name) *)
Definition wf_Q (kids : list (str * node)) : bool := nodupb (map fst kids).
Definition wf_P (_ : bool) (nm : str) (k : node) : bool := entry_name_ok nm && negb (is_sym k).
Definition tree_wf (n : node) : bool := is_dir n && tree_forall wf_Q wf_P true n.

(* in the root package: nothing is named plz-out but, possibly, a directory at the top *)
Definition plz_P (top : bool) (nm : str) (k : node) : bool :=
  if str_eqb nm plz_out then top && is_dir k else true.
Definition plz_ok (rp : bool) (n : node) : bool := negb rp || tree_forall (fun _ => true) plz_P true n.

(* no hidden directory *)
Definition hid_P (_ : bool) (nm : str) (k : node) : bool := negb (is_dir k && name_hidden nm).
Definition no_hidden_dir (n : node) : bool := tree_forall (fun _ => true) hid_P true n.

(* ------------------------------------------------------------------------------------------- the walk on components *)
Definition loop_until {A St} (step : A -> St -> St * bool) : list A -> St -> St :=
  fix go (l : list A) (st : St) : St :=
    match l with
    | [] => st
    | x :: r => match step x st with (s2, true) => s2 | (s2, false) => go r s2 end
    end.

Lemma loop_until_cons {A St} (step : A -> St -> St * bool) x r st :
  loop_until step (x :: r) st = match step x st with (s2, true) => s2 | (s2, false) => loop_until step r s2 end.
Proof. reflexivity. Qed.

Definition sacc := (list (list str) * list (list str))%type.      (* recorded entries, sub-packages; newest first *)

Fixpoint swalk (bfn : list str) (rp : bool) (par : list str) (nm : str) (n : node) (a : sacc) {struct n} : sacc * bool :=
  if in_bfn bfn nm && negb (is_nil par) then ((fst a, par :: snd a), negb (is_dir n))
  else if str_eqb nm plz_out && rp then (a, negb (is_dir n))
  else match n with
       | Dir kids => (loop_until (fun e a => swalk bfn rp (par ++ [nm]) (fst e) (snd e) a) kids
                                 ((par ++ [nm]) :: fst a, snd a), false)
       | _ => (((par ++ [nm]) :: fst a, snd a), false)
       end.

Definition sloop bfn rp (dir : list str) (kids : list (str * node)) (a : sacc) : sacc :=
  loop_until (fun e a => swalk bfn rp dir (fst e) (snd e) a) kids a.

(* ------------------------------------------------------------------------------------------- Part W1 *)
Definition wr (pkg : list str) (a : sacc) : walked :=
  Walked (map (pstr pkg) (fst a)) [] (map (pstr pkg) (snd a)).

Definition wloop bfn root path (kids : list (str * node)) (w : walked) : walked :=
  loop_until (fun e w => walk_node bfn root (pjoin path (fst e)) (fst e) (snd e) w) kids w.

Lemma walk_node_dir bfn root path name kids w :
  walk_node bfn root path name (Dir kids) w =
  match visit bfn root path name (Dir kids) w with
  | (w1, true) => (w1, false)
  | (w1, false) => (wloop bfn root path kids w1, false)
  end.
Proof.
  cbn [walk_node]. destruct (visit bfn root path name (Dir kids) w) as [w1 [|]]; [reflexivity|].
  f_equal. unfold wloop. revert w1. induction kids as [|[nm k] r IH]; intros w1; [reflexivity|].
  cbn [loop_until fst snd]. destruct (walk_node bfn root (pjoin path nm) nm k w1) as [w2 [|]]; [reflexivity|apply IH].
Qed.

Lemma root_is_dot pkg : forallb entry_name_ok pkg = true -> str_eqb (root_str pkg) (s ".") = is_nil pkg.
Proof.
  intros H. destruct pkg as [|x pkg]; [reflexivity|]. unfold root_str. apply intercalate_not_dot; [discriminate|exact H].
Qed.

Lemma pstr_neq_root pkg par : forallb entry_name_ok (pkg ++ par) = true ->
  str_eqb (pstr pkg par) (root_str pkg) = is_nil par.
Proof.
  intros H. destruct par as [|x par]; [rewrite pstr_root; apply str_eqb_refl|].
  cbn [is_nil]. apply str_eqb_neq. rewrite pstr_nonroot by discriminate. unfold path_str, root_str.
  destruct pkg as [|y pkg].
  - cbn [app]. intros E. cbn [app] in H. pose proof (intercalate_not_dot (x :: par)) as N.
    rewrite E in N. cbn in N. specialize (N ltac:(discriminate) H). discriminate.
  - rewrite intercalate_app; [|discriminate|discriminate]. intros E.
    apply (f_equal (@length N)) in E. rewrite app_length in E. cbn [length] in E. lia.
Qed.

Lemma walk_refines bfn pkg n : forall par nm a,
  forallb entry_name_ok (pkg ++ par) = true -> entry_name_ok nm = true -> is_sym n = false ->
  tree_forall wf_Q wf_P false n = true ->
  walk_node bfn (root_str pkg) (pstr pkg (par ++ [nm])) nm n (wr pkg a)
  = (wr pkg (fst (swalk bfn (is_nil pkg) par nm n a)), snd (swalk bfn (is_nil pkg) par nm n a)).
Proof.
  induction n as [| |kids IH] using node_ind2; intros par nm a Hpar Hnm Hsym Hwf; [|discriminate|].
  - (* File *)
    cbn [walk_node swalk]. unfold visit, is_build_file. rewrite (base_pstr pkg par nm Hpar Hnm), (dirname_pstr pkg par nm Hpar Hnm).
    rewrite (pstr_neq_root pkg par Hpar), (root_is_dot pkg) by (rewrite forallb_app in Hpar; now apply andb_prop in Hpar).
    fold (in_bfn bfn nm). fold plz_out.
    destruct (in_bfn bfn nm && negb (is_nil par)); [reflexivity|].
    destruct (str_eqb nm plz_out && is_nil pkg); reflexivity.
  - (* Dir *)
    rewrite walk_node_dir. cbn [swalk]. unfold visit, is_build_file.
    rewrite (base_pstr pkg par nm Hpar Hnm), (dirname_pstr pkg par nm Hpar Hnm).
    rewrite (pstr_neq_root pkg par Hpar), (root_is_dot pkg) by (rewrite forallb_app in Hpar; now apply andb_prop in Hpar).
    fold (in_bfn bfn nm). fold plz_out.
    destruct (in_bfn bfn nm && negb (is_nil par)); [reflexivity|].
    destruct (str_eqb nm plz_out && is_nil pkg); [reflexivity|].
    cbn [fst snd]. f_equal.
    apply tree_forall_dir in Hwf as [_ Hkids].
    assert (Hdir : forallb entry_name_ok (pkg ++ par ++ [nm]) = true).
    { rewrite app_assoc, forallb_snoc, Hpar, Hnm. reflexivity. }
    change (Walked (pstr pkg (par ++ [nm]) :: w_files (wr pkg a)) (w_syms (wr pkg a)) (w_subs (wr pkg a)))
      with (wr pkg ((par ++ [nm]) :: fst a, snd a)).
    generalize ((par ++ [nm]) :: fst a, snd a). unfold wloop. clear Hsym.
    induction kids as [|[nm2 k] r IHr]; intros a1; [reflexivity|].
    inversion IH as [|? ? IHk IHrest]; subst.
    destruct (Hkids nm2 k (or_introl eq_refl)) as [HP Hk]. unfold wf_P in HP. apply andb_prop in HP as [Hnm2 Hs2].
    apply negb_true_iff in Hs2.
    cbn [loop_until fst snd]. rewrite (pjoin_pstr pkg (par ++ [nm]) nm2 Hdir).
    cbn [snd] in IHk. rewrite (IHk (par ++ [nm]) nm2 a1 Hdir Hnm2 Hs2 Hk).
    destruct (swalk bfn (is_nil pkg) (par ++ [nm]) nm2 k a1) as [a2 [|]]; [reflexivity|].
    cbn [fst snd]. apply IHr; [exact IHrest|]. intros nm3 k3 Hin. apply Hkids. now right.
Qed.

(* the whole walk of a package directory *)
Lemma walk_dir_refines bfn pkg kids :
  forallb entry_name_ok pkg = true -> tree_wf (Dir kids) = true ->
  is_build_file bfn (root_str pkg) = false ->
  walk_dir bfn (root_str pkg) (Dir kids)
  = let a := sloop bfn (is_nil pkg) [] kids ([[]], []) in
    Walked (rev (map (pstr pkg) (fst a))) [] (rev (map (pstr pkg) (snd a))).
Proof.
  intros Hpkg Hwf Hnb. unfold tree_wf in Hwf. cbn [is_dir andb] in Hwf.
  unfold walk_dir. rewrite walk_node_dir. unfold visit. rewrite Hnb. cbn [andb].
  assert (str_eqb (base (root_str pkg)) (s "plz-out") && str_eqb (root_str pkg) (s ".") = false) as ->.
  { rewrite (root_is_dot pkg Hpkg). destruct pkg; [reflexivity|]. apply andb_false_r. }
  cbn [fst w_files w_syms w_subs].
  change (Walked [root_str pkg] [] []) with (Walked [root_str pkg] [] (map (pstr pkg) [])).
  rewrite <- (pstr_root pkg). change (Walked [pstr pkg []] [] (map (pstr pkg) [])) with (wr pkg ([[]], [])).
  apply tree_forall_dir in Hwf as [_ Hkids].
  assert (E : forall a, wloop bfn (root_str pkg) (pstr pkg []) kids (wr pkg a) = wr pkg (sloop bfn (is_nil pkg) [] kids a)).
  { unfold wloop, sloop. induction kids as [|[nm k] r IHr]; intros a; [reflexivity|].
    destruct (Hkids nm k (or_introl eq_refl)) as [HP Hk]. unfold wf_P in HP. apply andb_prop in HP as [Hnm Hs].
    apply negb_true_iff in Hs. cbn [loop_until fst snd].
    assert (Hp0 : forallb entry_name_ok (pkg ++ []) = true) by now rewrite app_nil_r.
    rewrite (pjoin_pstr pkg [] nm Hp0). rewrite (walk_refines bfn pkg k [] nm a Hp0 Hnm Hs Hk). cbn [app].
    destruct (swalk bfn (is_nil pkg) [] nm k a) as [a2 [|]]; [reflexivity|]. cbn [fst snd].
    apply IHr. intros nm3 k3 Hin. apply Hkids. now right. }
  rewrite <- (pstr_root pkg) in E. rewrite E. reflexivity.
Qed.

(* ------------------------------------------------------------------------------------------- Part W2 *)
Definition pre (d f : list str) : Prop := exists t, f = d ++ t.

Lemma pre_refl d : pre d d.
Proof. exists []. now rewrite app_nil_r. Qed.

Lemma pre_trans a b c : pre a b -> pre b c -> pre a c.
Proof. intros (t1 & ->) (t2 & ->). exists (t1 ++ t2). now rewrite app_assoc. Qed.

Lemma pre_snoc dir x : pre dir (dir ++ [x]).
Proof. now exists [x]. Qed.

Lemma pre_sibling dir x y d f : pre (dir ++ [x]) d -> pre d f -> pre (dir ++ [y]) f -> x = y.
Proof.
  intros (t1 & ->) (t2 & ->) (t3 & E). rewrite <- !app_assoc in E. apply app_inv_head in E.
  cbn in E. now injection E.
Qed.

Lemma pre_not_longer dir x d : pre (dir ++ [x]) d -> ~ pre d dir.
Proof.
  intros (t1 & ->) (t2 & E). apply (f_equal (@length _)) in E. rewrite !app_length in E. cbn in E. lia.
Qed.

Lemma pre_iff d f : is_prefix_segs d f = true <-> pre d f.
Proof. apply is_prefix_segs_iff. Qed.

(* a directory that holds a BUILD file is a package of its own *)
Definition keep (bfn : list str) (n : node) : bool :=
  match n with Dir kk => negb (has_build bfn kk) | _ => true end.

(* the entries of the package below `n` (flag: is a directory): not in the repository's plz-out, not in (or at
   the top of) a sub-package *)
Fixpoint ents (bfn : list str) (top : bool) (rel : list str) (n : node) {struct n} : list (list str * bool) :=
  match n with
  | Dir kids =>
      flat_map (fun e =>
        if top && str_eqb (fst e) plz_out then []
        else if keep bfn (snd e)
             then (rel ++ [fst e], is_dir (snd e)) :: ents bfn false (rel ++ [fst e]) (snd e)
             else []) kids
  | _ => []
  end.

Definition ents_kids bfn (top : bool) (rel : list str) (kids : list (str * node)) : list (list str * bool) :=
  flat_map (fun e =>
    if top && str_eqb (fst e) plz_out then []
    else if keep bfn (snd e)
         then (rel ++ [fst e], is_dir (snd e)) :: ents bfn false (rel ++ [fst e]) (snd e)
         else []) kids.

Lemma ents_dir bfn top rel kids : ents bfn top rel (Dir kids) = ents_kids bfn top rel kids.
Proof. reflexivity. Qed.

Definition node_hyp (rp top : bool) (nm : str) (n : node) : Prop :=
  tree_forall wf_Q wf_P false n = true
  /\ (rp = true -> plz_P top nm n = true /\ tree_forall (fun _ => true) plz_P false n = true).

Definition swalk_post bfn rp par nm n (a : sacc) : Prop :=
  exists Fn Sn skip, swalk bfn rp par nm n a = ((Fn ++ fst a, Sn ++ snd a), skip) /\
    (forall f, In f Fn -> pre (par ++ [nm]) f) /\
    (if in_bfn bfn nm && negb (is_nil par) then Fn = [] /\ Sn = [par]
     else skip = false /\ (forall d, In d Sn -> pre (par ++ [nm]) d) /\
          (if str_eqb nm plz_out && rp then Fn = [] /\ Sn = [] /\ is_nil par = true
           else if keep bfn n
                then forall f, (In f Fn /\ forall d, In d Sn -> ~ pre d f)
                               <-> (f = par ++ [nm] \/ In f (map fst (ents bfn false (par ++ [nm]) n)))
                else In (par ++ [nm]) Sn)).

Definition sloop_post bfn rp dir ks (a : sacc) : Prop :=
  exists Fn Sn, sloop bfn rp dir ks a = (Fn ++ fst a, Sn ++ snd a) /\
    (forall f, In f Fn -> exists nm, In nm (map fst ks) /\ pre (dir ++ [nm]) f) /\
    (forall d, In d Sn -> d = dir \/ exists nm, In nm (map fst ks) /\ pre (dir ++ [nm]) d) /\
    (dir <> [] -> has_build bfn ks = true -> In dir Sn) /\
    (dir = [] \/ has_build bfn ks = false ->
       (forall d, In d Sn -> exists nm, In nm (map fst ks) /\ pre (dir ++ [nm]) d) /\
       forall f, (In f Fn /\ forall d, In d Sn -> ~ pre d f)
                 <-> In f (map fst (ents_kids bfn (is_nil dir && rp) dir ks))).

Lemma is_nil_false {A} (l : list A) : l <> [] -> is_nil l = false.
Proof. destruct l; [congruence|reflexivity]. Qed.

Lemma sloop_spec bfn rp dir ks :
  nodupb (map fst ks) = true ->
  (forall nm k, In (nm, k) ks -> node_hyp rp (is_nil dir) nm k /\ forall a, swalk_post bfn rp dir nm k a) ->
  forall a, sloop_post bfn rp dir ks a.
Proof.
  induction ks as [|[nm k] rest IH]; intros Hnd Hk a.
  - exists [], []. split; [destruct a; reflexivity|]. split; [intros f []|]. split; [intros d []|].
    split; [intros _ H; discriminate|]. intros _. split; [intros d []|].
    intros f. split; [intros [[] _]|intros []].
  - cbn [map fst] in Hnd. apply nodupb_cons in Hnd as [Hnotin Hnd].
    assert (Hrest : forall nm0 k0, In (nm0, k0) rest ->
              node_hyp rp (is_nil dir) nm0 k0 /\ forall a, swalk_post bfn rp dir nm0 k0 a)
      by (intros; apply Hk; now right).
    specialize (IH Hnd Hrest).
    destruct (Hk nm k (or_introl eq_refl)) as [[Hwf Hplz] Hpost].
    destruct (Hpost a) as (Fn1 & Sn1 & skip1 & E1 & Hpre1 & Hcase).
    assert (Estep : sloop bfn rp dir ((nm, k) :: rest) a
                    = if skip1 then (Fn1 ++ fst a, Sn1 ++ snd a) else sloop bfn rp dir rest (Fn1 ++ fst a, Sn1 ++ snd a)).
    { unfold sloop. rewrite loop_until_cons. cbn [fst snd]. rewrite E1. destruct skip1; reflexivity. }
    unfold sloop_post. rewrite Estep.
    assert (Hb : has_build bfn ((nm, k) :: rest) = in_bfn bfn nm || has_build bfn rest) by reflexivity.
    destruct (in_bfn bfn nm && negb (is_nil dir)) eqn:Ebuild.
    + (* a BUILD file (or an entry named like one) in a directory that is not the package's own *)
      destruct Hcase as [-> ->]. apply andb_prop in Ebuild as [Hin Hdir].
      assert (Hdne : dir <> []) by (destruct dir; [discriminate|discriminate]).
      destruct skip1.
      * exists [], [dir]. split; [reflexivity|]. split; [intros f []|]. split; [intros d [<-|[]]; now left|].
        split; [intros _ _; now left|]. intros [->|Hnb]; [congruence|]. rewrite Hb, Hin in Hnb. discriminate.
      * destruct (IH (fst a, dir :: snd a)) as (Fnr & Snr & Er & HpreF & HpreS & Hhb & _).
        cbn [fst snd] in Er.
        exists Fnr, (Snr ++ [dir]). rewrite <- app_assoc. cbn [app]. split; [exact Er|].
        split; [|split; [|split]].
        -- intros f Hf. destruct (HpreF f Hf) as (nm0 & Hin0 & Hp). exists nm0. split; [now right|exact Hp].
        -- intros d Hd. apply in_app_or in Hd as [Hd|[<-|[]]]; [|now left].
           destruct (HpreS d Hd) as [->|(nm0 & Hin0 & Hp)]; [now left|right]. exists nm0. split; [now right|exact Hp].
        -- intros _ _. apply in_or_app. right. now left.
        -- intros [->|Hnb]; [congruence|]. rewrite Hb, Hin in Hnb. discriminate.
    + destruct Hcase as (-> & HpreS1 & Hcase).
      destruct (IH (Fn1 ++ fst a, Sn1 ++ snd a)) as (Fnr & Snr & Er & HpreF & HpreS & Hhb & Hflat).
      cbn [fst snd] in Er. rewrite Er. exists (Fnr ++ Fn1), (Snr ++ Sn1). rewrite <- !app_assoc.
      split; [reflexivity|].
      assert (HF : forall f, In f (Fnr ++ Fn1) -> exists nm0, In nm0 (map fst ((nm, k) :: rest)) /\ pre (dir ++ [nm0]) f).
      { intros f Hf. apply in_app_or in Hf as [Hf|Hf].
        - destruct (HpreF f Hf) as (nm0 & Hin0 & Hp). exists nm0. split; [now right|exact Hp].
        - exists nm. split; [now left|now apply Hpre1]. }
      split; [exact HF|]. split; [|split].
      * intros d Hd. apply in_app_or in Hd as [Hd|Hd].
        -- destruct (HpreS d Hd) as [->|(nm0 & Hin0 & Hp)]; [now left|right]. exists nm0. split; [now right|exact Hp].
        -- right. exists nm. split; [now left|now apply HpreS1].
      * intros Hdne Hhas. apply in_or_app. left. apply Hhb; [exact Hdne|].
        rewrite Hb in Hhas. rewrite (is_nil_false dir Hdne) in Ebuild. cbn in Ebuild. rewrite andb_true_r in Ebuild.
        now rewrite Ebuild in Hhas.
      * intros Hor.
        assert (Hor' : dir = [] \/ has_build bfn rest = false).
        { destruct Hor as [->|Hnb]; [now left|right]. rewrite Hb in Hnb. now apply orb_false_elim in Hnb. }
        destruct (Hflat Hor') as [HlocS Hiff]. split.
        -- intros d Hd. apply in_app_or in Hd as [Hd|Hd].
           ++ destruct (HlocS d Hd) as (nm0 & Hin0 & Hp). exists nm0. split; [now right|exact Hp].
           ++ exists nm. split; [now left|now apply HpreS1].
        -- intros f.
           assert (Hents : In f (map fst (ents_kids bfn (is_nil dir && rp) dir ((nm, k) :: rest)))
                           <-> In f (map fst (if is_nil dir && rp && str_eqb nm plz_out then []
                                               else if keep bfn k
                                                    then (dir ++ [nm], is_dir k) :: ents bfn false (dir ++ [nm]) k
                                                    else []))
                               \/ In f (map fst (ents_kids bfn (is_nil dir && rp) dir rest))).
           { unfold ents_kids. cbn [flat_map fst snd]. rewrite map_app, in_app_iff. reflexivity. }
           rewrite Hents, <- Hiff. clear Hents.
           (* siblings do not interfere *)
           assert (Hsib1 : forall f, In f Fn1 -> forall d, In d Snr -> ~ pre d f).
           { intros f0 Hf0 d Hd Hp. destruct (HlocS d Hd) as (nm0 & Hin0 & Hp0).
             pose proof (pre_sibling dir nm0 nm d f0 Hp0 Hp (Hpre1 f0 Hf0)) as ->. contradiction. }
           assert (Hsib2 : forall f, In f Fnr -> forall d, In d Sn1 -> ~ pre d f).
           { intros f0 Hf0 d Hd Hp. destruct (HpreF f0 Hf0) as (nm0 & Hin0 & Hp0).
             pose proof (pre_sibling dir nm nm0 d f0 (HpreS1 d Hd) Hp Hp0) as <-. contradiction. }
           destruct (str_eqb nm plz_out && rp) eqn:Eplz.
           ++ destruct Hcase as (-> & -> & Htop). apply andb_prop in Eplz as [Enm ->].
              rewrite Htop, Enm. cbn [andb map In]. rewrite !app_nil_r. tauto.
           ++ assert (is_nil dir && rp && str_eqb nm plz_out = false) as ->.
              { rewrite <- andb_assoc, (andb_comm rp), Eplz. apply andb_false_r. }
              destruct (keep bfn k) eqn:Ekeep.
              ** cbn [map fst]. specialize (Hcase f).
                 assert (Hc : In f Fn1 /\ (forall d, In d Sn1 -> ~ pre d f)
                              <-> In f ((dir ++ [nm]) :: map fst (ents bfn false (dir ++ [nm]) k))).
                 { rewrite Hcase. cbn [In]. split; (intros [H|H]; [left; now symmetry|now right]). }
                 clear Hcase. rename Hc into Hcase. split.
                 --- intros [Hin Hno]. apply in_app_or in Hin as [Hin|Hin].
                     +++ right. split; [exact Hin|]. intros d Hd. apply Hno. apply in_or_app. now left.
                     +++ left. apply Hcase. split; [exact Hin|]. intros d Hd. apply Hno. apply in_or_app. now right.
                 --- intros [Hl|[Hin Hno]].
                     +++ apply Hcase in Hl as [Hin Hno]. split; [apply in_or_app; now right|].
                         intros d Hd. apply in_app_or in Hd as [Hd|Hd]; [now apply Hsib1|now apply Hno].
                     +++ split; [apply in_or_app; now left|].
                         intros d Hd. apply in_app_or in Hd as [Hd|Hd]; [now apply Hno|now apply Hsib2].
              ** cbn [map]. split.
                 --- intros [Hin Hno]. apply in_app_or in Hin as [Hin|Hin].
                     +++ right. split; [exact Hin|]. intros d Hd. apply Hno. apply in_or_app. now left.
                     +++ exfalso. apply (Hno (dir ++ [nm])); [apply in_or_app; now right|now apply Hpre1].
                 --- intros [[]|[Hin Hno]]. split; [apply in_or_app; now left|].
                     intros d Hd. apply in_app_or in Hd as [Hd|Hd]; [now apply Hno|now apply Hsib2].
Qed.

Lemma snoc_not_nil {A} (l : list A) x : l ++ [x] <> [].
Proof. destruct l; discriminate. Qed.

Lemma swalk_spec bfn rp n : forall par nm, node_hyp rp (is_nil par) nm n -> forall a, swalk_post bfn rp par nm n a.
Proof.
  induction n as [| |kids IH] using node_ind2; intros par nm [Hwf Hplz] a; unfold swalk_post.
  1,2: cbn [swalk]; destruct (in_bfn bfn nm && negb (is_nil par)) eqn:Eb;
    [ eexists [], [par], _; split; [reflexivity|]; split; [intros f []|]; split; reflexivity
    | destruct (str_eqb nm plz_out && rp) eqn:Ep;
      [ exfalso; apply andb_prop in Ep as [Enm ->]; destruct (Hplz eq_refl) as [HP _]; unfold plz_P in HP;
        rewrite Enm in HP; cbn [is_dir] in HP; rewrite andb_false_r in HP; discriminate
      | exists [par ++ [nm]], [], false; split; [reflexivity|]; split; [intros f [<-|[]]; apply pre_refl|];
        split; [reflexivity|]; split; [intros d []|]; cbn [keep ents map In]; intros f; split;
        [ intros [[<-|[]] _]; now left | intros [->|[]]; split; [now left|intros d []] ] ] ].
  cbn [swalk]. destruct (in_bfn bfn nm && negb (is_nil par)) eqn:Eb.
  - eexists [], [par], _. split; [reflexivity|]. split; [intros f []|]. split; reflexivity.
  - destruct (str_eqb nm plz_out && rp) eqn:Ep.
    + apply andb_prop in Ep as [Enm ->]. destruct (Hplz eq_refl) as [HP _]. unfold plz_P in HP.
      rewrite Enm in HP. apply andb_prop in HP as [Htop _].
      exists [], [], false. cbn [is_dir negb]. split; [destruct a; reflexivity|]. split; [intros f []|].
      split; [reflexivity|]. split; [intros d []|]. auto.
    + apply tree_forall_dir in Hwf as [HQ Hkids].
      assert (Hhyp : forall nm2 k, In (nm2, k) kids -> node_hyp rp (is_nil (par ++ [nm])) nm2 k).
      { intros nm2 k Hin. split; [apply (Hkids nm2 k Hin)|]. intros ->. destruct (Hplz eq_refl) as [_ HT].
        apply tree_forall_dir in HT as [_ HT]. rewrite is_nil_false by apply snoc_not_nil. exact (HT nm2 k Hin). }
      assert (Hloop : forall a, sloop_post bfn rp (par ++ [nm]) kids a).
      { apply sloop_spec; [exact HQ|]. intros nm2 k Hin. split; [now apply Hhyp|].
        rewrite Forall_forall in IH. apply (IH (nm2, k) Hin). now apply Hhyp. }
      destruct (Hloop ((par ++ [nm]) :: fst a, snd a)) as (Fnl & Snl & El & HpF & HpS & Hhb & Hflat).
      unfold sloop in El. cbn [fst snd] in El.
      exists (Fnl ++ [par ++ [nm]]), Snl, false. split; [rewrite El, <- app_assoc; reflexivity|].
      split; [|split; [reflexivity|split]].
      * intros f Hf. apply in_app_or in Hf as [Hf|[<-|[]]]; [|apply pre_refl].
        destruct (HpF f Hf) as (nm0 & _ & Hp). exact (pre_trans _ _ _ (pre_snoc _ _) Hp).
      * intros d Hd. destruct (HpS d Hd) as [->|(nm0 & _ & Hp)]; [apply pre_refl|].
        exact (pre_trans _ _ _ (pre_snoc _ _) Hp).
      * cbn [keep]. destruct (has_build bfn kids) eqn:Ehb; cbn [negb].
        -- apply Hhb; [apply snoc_not_nil|reflexivity].
        -- destruct (Hflat (or_intror eq_refl)) as [HlocS Hiff]. rewrite ents_dir.
           rewrite (is_nil_false (par ++ [nm]) (snoc_not_nil _ _)) in Hiff. cbn [andb] in Hiff.
           intros f. split.
           ++ intros [Hin Hno]. apply in_app_or in Hin as [Hin|[<-|[]]]; [right|now left].
              apply Hiff. split; [exact Hin|exact Hno].
           ++ intros [->|Hin].
              ** split; [apply in_or_app; right; now left|]. intros d Hd Hp.
                 destruct (HlocS d Hd) as (nm0 & _ & Hp0). exact (pre_not_longer _ _ _ Hp0 Hp).
              ** apply Hiff in Hin as [Hin Hno]. split; [apply in_or_app; now left|exact Hno].
Qed.

(* the walk of the whole package directory: what remains after the sub-package filter *)
Definition under_any (S : list (list str)) (f : list str) : bool := existsb (fun d => is_prefix_segs d f) S.

Lemma under_any_false S f : under_any S f = false <-> forall d, In d S -> ~ pre d f.
Proof.
  unfold under_any. split.
  - intros H d Hd Hp. apply pre_iff in Hp. assert (existsb (fun d => is_prefix_segs d f) S = true); [|congruence].
    apply existsb_exists. now exists d.
  - intros H. destruct (existsb _ S) eqn:E; [|reflexivity]. apply existsb_exists in E as (d & Hd & Hp).
    apply pre_iff in Hp. exfalso. exact (H d Hd Hp).
Qed.

Theorem walk_sets bfn rp kids :
  tree_forall wf_Q wf_P true (Dir kids) = true -> plz_ok rp (Dir kids) = true ->
  exists Fn Sn, sloop bfn rp [] kids ([[]], []) = (Fn ++ [[]], Sn) /\
    (forall f, In f Fn -> f <> []) /\
    (forall d, In d Sn -> d <> []) /\
    (forall f, (In f Fn /\ under_any Sn f = false) <-> In f (map fst (ents bfn rp [] (Dir kids)))).
Proof.
  intros Hwf Hplz.
  assert (Hwf' : tree_forall wf_Q wf_P false (Dir kids) = true) by exact Hwf.
  apply tree_forall_dir in Hwf as [HQ Hkids].
  assert (Hhyp : forall nm k, In (nm, k) kids -> node_hyp rp true nm k).
  { intros nm k Hin. split; [apply (Hkids nm k Hin)|]. intros ->. unfold plz_ok in Hplz. cbn [negb orb] in Hplz.
    apply tree_forall_dir in Hplz as [_ HT]. exact (HT nm k Hin). }
  destruct (sloop_spec bfn rp [] kids HQ) with (a := ([[]: list str], @nil (list str))) as (Fn & Sn & E & HpF & HpS & _ & Hflat).
  { intros nm k Hin. split; [now apply Hhyp|]. intros a. apply swalk_spec. now apply Hhyp. }
  destruct (Hflat (or_introl eq_refl)) as [HlocS Hiff].
  exists Fn, Sn. cbn [fst snd] in E. rewrite app_nil_r in E. split; [exact E|]. split; [|split].
  - intros f Hf. destruct (HpF f Hf) as (nm & _ & (t & ->)). discriminate.
  - intros d Hd. destruct (HlocS d Hd) as (nm & _ & (t & ->)). discriminate.
  - intros f. rewrite under_any_false, ents_dir. cbn [is_nil andb] in Hiff. apply Hiff.
Qed.

(* ------------------------------------------------------------------------------------------- Part W3 *)
Definition spec_each bfn (top hidden syms : bool) (rel : list str) :=
  fix each (ks : list (str * node)) : list (list str) :=
    match ks with
    | [] => []
    | (nm, k) :: rest =>
        (if negb hidden && name_hidden nm then []
         else if top && str_eqb nm (s "plz-out") then []
         else match k with
              | Dir kk => if has_build bfn kk then [] else spec_files_in bfn false hidden syms (rel ++ [nm]) k
              | _ => spec_files_in bfn false hidden syms (rel ++ [nm]) k
              end) ++ each rest
    end.

Lemma spec_files_dir bfn top hidden syms rel kids :
  spec_files_in bfn top hidden syms rel (Dir kids) = spec_each bfn top hidden syms rel kids.
Proof. reflexivity. Qed.

Lemma spec_each_cons bfn top hidden syms rel nm k rest :
  spec_each bfn top hidden syms rel ((nm, k) :: rest)
  = (if negb hidden && name_hidden nm then []
     else if top && str_eqb nm (s "plz-out") then []
     else match k with
          | Dir kk => if has_build bfn kk then [] else spec_files_in bfn false hidden syms (rel ++ [nm]) k
          | _ => spec_files_in bfn false hidden syms (rel ++ [nm]) k
          end) ++ spec_each bfn top hidden syms rel rest.
Proof. reflexivity. Qed.

(* visible: not hidden by its own name (directories on the way are not hidden by hypothesis) *)
Definition vis (hidden : bool) (f : list str) : bool := hidden || negb (name_hidden (last f [])).

Lemma spec_files_ents bfn hidden syms n : forall top tp rel,
  tree_forall wf_Q wf_P false n = true ->
  (hidden = true \/ tree_forall (fun _ => true) hid_P tp n = true) ->
  is_dir n = true ->
  forall f, In f (spec_files_in bfn top hidden syms rel n) <-> In (f, false) (ents bfn top rel n) /\ vis hidden f = true.
Proof.
  induction n as [| |kids IH] using node_ind2; intros top tp rel Hwf Hhid Hdir; try discriminate. clear Hdir.
  rewrite spec_files_dir, ents_dir. unfold ents_kids.
  apply tree_forall_dir in Hwf as [_ Hkids].
  assert (Hh : forall nm k, In (nm, k) kids ->
            hidden = true \/ (hid_P tp nm k = true /\ tree_forall (fun _ => true) hid_P false k = true)).
  { intros nm k Hin. destruct Hhid as [->|Hhid]; [now left|right]. apply tree_forall_dir in Hhid as [_ HT]. exact (HT nm k Hin). }
  clear Hhid. rewrite Forall_forall in IH.
  induction kids as [|[nm k] r IHr]; intros f.
  - cbn. split; [intros []|intros [[] _]].
  - rewrite spec_each_cons, in_app_iff. cbn [flat_map fst snd]. rewrite in_app_iff.
    assert (IHr' := IHr (fun e He => IH e (or_intror He)) (fun nm0 k0 H0 => Hkids nm0 k0 (or_intror H0))
                        (fun nm0 k0 H0 => Hh nm0 k0 (or_intror H0)) f).
    rewrite IHr'. clear IHr IHr'.
    destruct (Hkids nm k (or_introl eq_refl)) as [HP Hk]. unfold wf_P in HP. apply andb_prop in HP as [_ Hsym].
    apply negb_true_iff in Hsym. specialize (Hh nm k (or_introl eq_refl)). specialize (IH (nm, k) (or_introl eq_refl)).
    cbn [snd] in IH. fold plz_out.
    assert (Hvis : vis hidden (rel ++ [nm]) = hidden || negb (name_hidden nm)) by (unfold vis; now rewrite last_snoc).
    enough (Hhead :
      In f (if negb hidden && name_hidden nm then []
            else if top && str_eqb nm plz_out then []
            else match k with
                 | Dir kk => if has_build bfn kk then [] else spec_files_in bfn false hidden syms (rel ++ [nm]) k
                 | _ => spec_files_in bfn false hidden syms (rel ++ [nm]) k
                 end)
      <-> In (f, false) (if top && str_eqb nm plz_out then []
                         else if keep bfn k then (rel ++ [nm], is_dir k) :: ents bfn false (rel ++ [nm]) k else [])
          /\ vis hidden f = true) by tauto.
    destruct (negb hidden && name_hidden nm) eqn:Eskip.
    + apply andb_prop in Eskip as [Eh Enh]. apply negb_true_iff in Eh. subst hidden.
      destruct Hh as [Hh|[Hh _]]; [discriminate|]. unfold hid_P in Hh. rewrite Enh, andb_true_r in Hh.
      apply negb_true_iff in Hh. destruct k; try discriminate. cbn [keep ents is_dir].
      split; [intros []|]. intros [Hin Hv]. destruct (top && str_eqb nm plz_out); [destruct Hin|].
      destruct Hin as [E|[]]. injection E as <-. rewrite Hvis, Enh in Hv. discriminate.
    + destruct (top && str_eqb nm plz_out); [split; [intros []|intros [[] _]]|].
      assert (Hv : hidden || negb (name_hidden nm) = true).
      { destruct hidden; [reflexivity|]. cbn in Eskip. now rewrite Eskip. }
      destruct k as [| |kk]; [|discriminate|].
      * cbn [spec_files_in keep ents is_dir]. split.
        -- intros [<-|[]]. split; [now left|now rewrite Hvis].
        -- intros [[E|[]] _]. injection E as <-. now left.
      * cbn [keep]. destruct (has_build bfn kk); cbn [negb]; [split; [intros []|intros [[] _]]|].
        rewrite (IH false false (rel ++ [nm])); [|exact Hk| |reflexivity].
        -- cbn [is_dir]. split; [intros [Hin Hvf]; split; [now right|exact Hvf]|].
           intros [[E|Hin] Hvf]; [discriminate|]. split; assumption.
        -- destruct Hh as [->|[_ Hh]]; [now left|now right].
Qed.

(* every recorded path and every sub-package consists of entry names of the tree *)
Definition all_ok (l : list (list str)) : Prop := forall f, In f l -> forallb entry_name_ok f = true.

Lemma all_ok_cons x l : forallb entry_name_ok x = true -> all_ok l -> all_ok (x :: l).
Proof. intros Hx Hl f [<-|Hf]; [exact Hx|now apply Hl]. Qed.

Lemma sloop_names bfn rp dir ks :
  (forall nm k, In (nm, k) ks -> forall a, all_ok (fst a) -> all_ok (snd a) ->
      all_ok (fst (fst (swalk bfn rp dir nm k a))) /\ all_ok (snd (fst (swalk bfn rp dir nm k a)))) ->
  forall a, all_ok (fst a) -> all_ok (snd a) ->
    all_ok (fst (sloop bfn rp dir ks a)) /\ all_ok (snd (sloop bfn rp dir ks a)).
Proof.
  induction ks as [|[nm k] r IH]; intros Hk a HF HS; [split; assumption|].
  unfold sloop. rewrite loop_until_cons. cbn [fst snd].
  destruct (Hk nm k (or_introl eq_refl) a HF HS) as [HF2 HS2].
  destruct (swalk bfn rp dir nm k a) as [a2 [|]]; cbn [fst] in HF2, HS2; [split; assumption|].
  apply IH; [|exact HF2|exact HS2]. intros nm0 k0 Hin. apply Hk. now right.
Qed.

Lemma swalk_names bfn rp n : forall par nm a,
  forallb entry_name_ok par = true -> entry_name_ok nm = true -> tree_forall wf_Q wf_P false n = true ->
  all_ok (fst a) -> all_ok (snd a) ->
  all_ok (fst (fst (swalk bfn rp par nm n a))) /\ all_ok (snd (fst (swalk bfn rp par nm n a))).
Proof.
  induction n as [| |kids IH] using node_ind2; intros par nm a Hpar Hnm Hwf HF HS;
    (assert (Hx : forallb entry_name_ok (par ++ [nm]) = true) by now rewrite forallb_snoc, Hpar, Hnm);
    cbn [swalk]; (destruct (in_bfn bfn nm && negb (is_nil par)); [split; [exact HF|now apply all_ok_cons]|]);
    (destruct (str_eqb nm plz_out && rp); [split; assumption|]).
  1,2: split; [now apply all_ok_cons|exact HS].
  cbn [fst]. apply tree_forall_dir in Hwf as [_ Hkids]. rewrite Forall_forall in IH.
  apply (sloop_names bfn rp (par ++ [nm]) kids); [|now apply all_ok_cons|exact HS].
  intros nm2 k Hin a2 HF2 HS2. destruct (Hkids nm2 k Hin) as [HP Hk]. unfold wf_P in HP. apply andb_prop in HP as [Hn2 _].
  exact (IH (nm2, k) Hin (par ++ [nm]) nm2 a2 Hx Hn2 Hk HF2 HS2).
Qed.

Lemma walk_names bfn rp kids : tree_forall wf_Q wf_P true (Dir kids) = true ->
  all_ok (fst (sloop bfn rp [] kids ([[]], []))) /\ all_ok (snd (sloop bfn rp [] kids ([[]], []))).
Proof.
  intros Hwf. apply tree_forall_dir in Hwf as [_ Hkids].
  apply sloop_names; [|intros f [<-|[]]; reflexivity|intros f []].
  intros nm k Hin a HF HS. destruct (Hkids nm k Hin) as [HP Hk]. unfold wf_P in HP. apply andb_prop in HP as [Hn _].
  now apply swalk_names.
Qed.
