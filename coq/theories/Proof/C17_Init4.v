(* C17 - from the EMPTY interpreter, part 4: computed examples (non-vacuity).  Two build_defs files of the fragment are
   loaded by their loader packages from the empty interpreter; the classifier accepts them and rejects the three
   refuting files with their class; the loads succeed; the attacked / observing packages run to their end. *)
From Coq Require Import String.
From PlzV Require Import Base.Harness Model.C16_Syntax Model.C16_Ops Model.C16_Prim Model.C16_Eval Model.C16.
From PlzV Require Import Proof.C17 Proof.C17_Inv Proof.C17_Main Proof.C17_NoConst Proof.C17_Iso Proof.C17_Sim7 Proof.C17_Init1 Proof.C17_Init2 Proof.C17_Init3.
Local Open Scope list_scope.
Local Open Scope Z_scope.

Definition lbl2 : str := s "//defs:e".
Definition sub2 : stmt := SCall (s "subinclude") [(None, Ex (XStr lbl2) [] None)].

(* build_defs //defs:d:   FLAT = [3, 1, 2]; N = 7; E = []; OFF = None
                          def inc(x, y=1): return x + y *)
Definition d_init : prog :=
  [SAssign (s "FLAT") (Ex (ints [3; 1; 2]) [] None); SAssign (s "N") (lit 7); SAssign (s "E") (Ex (XList []) [] None);
   SAssign (s "OFF") (Ex XNone [] None);
   SDef (s "inc") [(s "x", None); (s "y", Some (lit 1))] [SReturn (Some (Ex (XIdent (s "x")) [OBin Add (XIdent (s "y"))] None))]].
(* build_defs //defs:e:   NAMES = ["a", "b"]
                          def twice(q, sep=N0 + 1): return [q, q]          (a default that is not a constant; never evaluated here)
                          N0 = 1 *)
Definition d_init2 : prog :=
  [SAssign (s "NAMES") (Ex (XList [Ex (XStr (s "a")) [] None; Ex (XStr (s "b")) [] None]) [] None);
   SDef (s "twice") [(s "q", None); (s "sep", Some (Ex (XIdent (s "N0")) [OBin Add (XInt 1)] None))]
        [SReturn (Some (Ex (XList [id_ "q"; id_ "q"]) [] None))];
   SAssign (s "N0") (lit 1)].
Definition defs2 : list (str * prog) := [(lbl, d_init); (lbl2, d_init2)].

(* the attacking package: alias, +, +=, + [], index assignment on the copy, map over an imported function, sorted,
   a call of the second file's function with a list of its own *)
Definition ya : prog :=
  [sub; sub2; SAssign (s "al") (id_ "FLAT"); SAssign (s "p") (Ex (XIdent (s "FLAT")) [OBin Add (ints [4])] None);
   SAug (s "FLAT") (Ex (ints [5]) [] None);
   SAssign (s "m") (Ex (XCall (s "map") [(None, id_ "inc"); (None, Ex (XIdent (s "al")) [OBin Add (ints [4])] None)]) [] None);
   SAssign (s "e") (Ex (XIdent (s "al")) [OBin Add (XList [])] None);
   SIdxAssign (s "e") (lit 0) (lit 7);
   SAssign (s "so") (Ex (XCall (s "sorted") [(None, id_ "e")]) [] None);
   SAssign (s "tw") (Ex (XCall (s "twice") [(None, id_ "e"); (None, lit 0)]) [] None)].
(* the observing package *)
Definition yb : prog :=
  [sub; sub2; SAssign (s "seen") (id_ "FLAT"); SAssign (s "i") (Ex (XCall (s "inc") [(None, id_ "N")]) [] None);
   SAssign (s "nm") (id_ "NAMES"); SAssign (s "tw") (Ex (XCall (s "twice") [(None, id_ "E"); (None, lit 0)]) [] None)].

Definition st_init : state := snd (run_builds Asp defs2 FUEL (loaders defs2) empty_state).

Lemma init_examples :
  (* the classifier: the two files are in the fragment; the three refuting files are rejected with their class *)
  defs_defect_class FUEL defs2 = None
  /\ defs_defect_class FUEL [(lbl, d_nested)] = Some NestedExport
  /\ defs_defect_class FUEL [(lbl, d_mk)] = Some FuncConstant
  /\ defs_defect_class FUEL [(lbl, d_dflt)] = Some FuncDefault
  /\ defs_defect_class FUEL [(lbl, d_plain)] = None
  (* both loads succeed from the empty interpreter, the second file's constant is numbered after the first one's *)
  /\ forallb loadedb (fst (run_builds Asp defs2 FUEL (loaders defs2) empty_state)) = true
  /\ length (consts st_init) = 2%nat /\ length (subcache st_init) = 2%nat /\ length (funcs st_init) = 2%nat
  (* cross-check of the theorem with the executable tests of its conclusion *)
  /\ rest_invb defs2 D0 st_init = true /\ closed_stateb st_init = true
  /\ forallb no_const [ya; yb] = true
  (* the attacker ran to its end and allocated; the observer sees the exported values *)
  /\ match map (@snd _ _) (fst (run_builds Asp defs2 FUEL [ya; yb] st_init)) with
     | [OGlobals a _; OGlobals b _] =>
         assoc_get (s "e") a = Some (OList false 0%nat [OInt 7; OInt 1; OInt 2])
         /\ assoc_get (s "m") a = Some (OList false 0%nat [OInt 4; OInt 2; OInt 3; OInt 5])
         /\ assoc_get (s "so") a = Some (OList false 0%nat [OInt 1; OInt 2; OInt 7])
         /\ assoc_get (s "seen") b = Some (OList true 0%nat [OInt 3; OInt 1; OInt 2])
         /\ assoc_get (s "i") b = Some (OInt 8)
         /\ assoc_get (s "nm") b = Some (OList true 0%nat [OStr (s "a"); OStr (s "b")])
         /\ assoc_get (s "tw") b = Some (OList false 0%nat [OList true 0%nat []; OList true 0%nat []])
     | _ => False
     end.
Proof. vm_compute. repeat split. Qed.

(* the theorem applied to this instance: nothing about the second run of yb is computed *)
Lemma init_applied :
  map (@snd _ _) (fst (run_builds Asp defs2 FUEL [yb] (snd (run_builds Asp defs2 FUEL [ya] st_init)))) =
  map (@snd _ _) (fst (run_builds Asp defs2 FUEL [yb] st_init))
  /\ unchanged st_init (snd (run_builds Asp defs2 FUEL [ya] st_init)).
Proof.
  destruct init_examples as (Hc & _ & _ & _ & _ & Hl & _ & _ & _ & _ & _ & Hn & _).
  destruct (run_builds Asp defs2 FUEL (loaders defs2 ++ [ya] ++ [yb]) empty_state) as [outs st'] eqn:E.
  destruct (packages_do_not_interfere_from_empty defs2 FUEL [ya] [yb] outs st' Hc) as (o0 & st0 & o1 & st1 & o2 & E0 & E1 & E2 & _ & _ & Hrest).
  - cbn [app]. constructor; [reflexivity|]. constructor; [reflexivity|constructor].
  - exact E.
  - assert (Hst : st0 = st_init) by (unfold st_init; rewrite E0; reflexivity).
    assert (Ho : o0 = fst (run_builds Asp defs2 FUEL (loaders defs2) empty_state)) by (rewrite E0; reflexivity).
    subst st0. rewrite Ho in Hrest. destruct (Hrest Hl) as (H1 & U1 & _).
    rewrite E1. cbn [snd]. rewrite E2. cbn [fst]. split; [exact H1|exact U1].
Qed.

(* the purely syntactic condition on the same table: the numbering base of the constants stays a variable *)
Lemma defs2_in_fragment : table_in_fragment defs2.
Proof.
  intros l p base H. unfold find_def, defs2 in H.
  match type of H with context [str_eqb l ?x] => destruct (str_eqb l x) end; [injection H as <-; vm_compute; reflexivity|].
  match type of H with context [str_eqb l ?x] => destruct (str_eqb l x) end; [injection H as <-; vm_compute; reflexivity|discriminate H].
Qed.
