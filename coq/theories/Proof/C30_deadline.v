(* C30, second part - proofs about the deadline an action gets (Model/C30_deadline.v).
   Everything here is proved about Gen.size_and_timeout_prog, the statement list regenerated from
   sizeAndTimeout: reordering its statements (e.g. testing `size != nil` before the type switch)
   changes the program and breaks `size_and_timeout_precedence`. *)
From PlzV Require Import Base.Harness Gen.KillTimings Model.C30_deadline.
From Coq Require Import Lia.
Local Open Scope Z_scope.

Lemma gen_explicit_unit : explicit_unit_ns = 1000000000%N.
Proof. reflexivity. Qed.

Lemma gen_deadline_calls : build_deadline_call = (ABuildTimeout, CfgBuildTimeout) /\ test_deadline_call = (ATestTimeout, CfgTestTimeout).
Proof. split; reflexivity. Qed.

(* sizeAndTimeout as written computes the documented precedence, for every size table, every
   declared size, every value of the timeout argument and every default *)
Theorem size_and_timeout_precedence : forall env, size_and_timeout env = deadline_spec env.
Proof.
  intros [sizes size arg dflt]. unfold size_and_timeout, deadline_spec. destruct arg as [z|n|].
  - cbn. destruct (0 <? z); [reflexivity|]. destruct size; reflexivity.
  - cbn. destruct (lookup_size sizes n); reflexivity.
  - cbn. destruct size; reflexivity.
Qed.

Lemma create_target_ext : forall f g, (forall env, f env = g env) -> forall c d, create_target_with f c d = create_target_with g c d.
Proof.
  intros f g H c d. unfold create_target_with. destruct (d_size d) as [n|]; [destruct (lookup_size (c_sizes c) n)|]; try reflexivity; rewrite !H; reflexivity.
Qed.

Theorem create_target_precedence : forall c d, create_target c d = create_target_with deadline_spec c d.
Proof. intros. apply create_target_ext. exact size_and_timeout_precedence. Qed.

(* an explicit positive timeout IS the deadline, whatever size the target declares and whatever the defaults are *)
Theorem explicit_build_timeout_wins : forall c d b t z, create_target c d = TOk b t -> d_build d = TInt z -> 0 < z -> b = z * 1000000000.
Proof.
  intros c d b t z H Hb Hz. rewrite create_target_precedence in H. unfold create_target_with in H.
  destruct (match d_size d with None => Some None | Some n => match lookup_size (c_sizes c) n with Some v => Some (Some v) | None => None end end) as [size|]; [|discriminate].
  destruct gen_deadline_calls as [Eb Et]. rewrite Eb, Et in H. unfold call_env, deadline_spec in H. cbn in H. rewrite Hb in H.
  assert (Hp : (0 <? z) = true) by (apply Z.ltb_lt; exact Hz). rewrite Hp in H.
  destruct (d_is_test d).
  - match type of H with match ?x with _ => _ end = _ => destruct x end; try discriminate; inversion H; reflexivity.
  - inversion H; reflexivity.
Qed.

Theorem explicit_test_timeout_wins : forall c d b u z, create_target c d = TOk b (Some u) -> d_test d = TInt z -> 0 < z -> u = z * 1000000000.
Proof.
  intros c d b u z H Ht Hz. rewrite create_target_precedence in H. unfold create_target_with in H.
  destruct (match d_size d with None => Some None | Some n => match lookup_size (c_sizes c) n with Some v => Some (Some v) | None => None end end) as [size|]; [|discriminate].
  destruct gen_deadline_calls as [Eb Et]. rewrite Eb, Et in H. unfold call_env in H. cbn [fst snd pick_arg pick_default] in H.
  match type of H with match ?x with _ => _ end = _ => destruct x end; try discriminate.
  destruct (d_is_test d); [|discriminate].
  unfold deadline_spec in H. cbn in H. rewrite Ht in H.
  assert (Hp : (0 <? z) = true) by (apply Z.ltb_lt; exact Hz). rewrite Hp in H. inversion H; reflexivity.
Qed.

(* hence declaring (or changing) a size never moves an explicitly declared deadline *)
Theorem size_does_not_move_explicit_deadline : forall c d d' b t b' t' z,
  d_build d = TInt z -> d_build d' = TInt z -> 0 < z -> create_target c d = TOk b t -> create_target c d' = TOk b' t' -> b = b'.
Proof.
  intros c d d' b t b' t' z H1 H2 Hz Ha Hb.
  rewrite (explicit_build_timeout_wins c d b t z Ha H1 Hz), (explicit_build_timeout_wins c d' b' t' z Hb H2 Hz). reflexivity.
Qed.

(* in the unit of the protocol model: z seconds are z * 1000 ms *)
Lemma deadline_ms_seconds : forall z, 0 < z -> deadline_ms (z * 1000000000) = Z.to_N (z * 1000).
Proof. intros z _. unfold deadline_ms. f_equal. replace (z * 1000000000) with (z * 1000 * 1000000) by lia. apply Z.div_mul. lia. Qed.

(* ---- any program of the statement language: the deadline is never an invented value ----
   Whatever statements sizeAndTimeout consists of and in whatever order and nesting (induction over
   the structure of the program), a value it returns is the explicit timeout, the timeout of a
   configured size, or the configured default. *)
Definition candidate (env : denv) (v : dres) : Prop :=
  v = DCrash \/ v = DUnknownSize
  \/ (exists z, e_arg env = TInt z /\ v = DOk (z * Z.of_N explicit_unit_ns))
  \/ (exists n x, e_arg env = TStr n /\ lookup_size (e_sizes env) n = Some x /\ v = DOk x)
  \/ (exists x, e_size env = Some x /\ v = DOk x)
  \/ v = DOk (e_default env).

Definition bound_ok (env : denv) (t : option targ) : Prop := t = None \/ t = Some (e_arg env).

Lemma eval_expr_candidate : forall env t e, bound_ok env t -> candidate env (eval_expr env t e).
Proof.
  intros env t e Ht. unfold candidate. destruct e; cbn.
  - destruct t as [[z|n|]|]; try (left; reflexivity). destruct Ht as [Ht|Ht]; [discriminate|]. injection Ht as E.
    right; right; left. exists z. split; [congruence|reflexivity].
  - destruct t as [[z|n|]|]; try (left; reflexivity). destruct Ht as [Ht|Ht]; [discriminate|]. injection Ht as E.
    destruct (lookup_size (e_sizes env) n) as [x|] eqn:El; [|right; left; reflexivity].
    right; right; right; left. exists n, x. split; [congruence|split; [exact El|reflexivity]].
  - destruct (e_size env) as [x|] eqn:Es; [|left; reflexivity]. right; right; right; right; left. exists x. split; reflexivity.
  - right; right; right; right; right. reflexivity.
Qed.

Fixpoint dstmt_size (s : dstmt) : nat :=
  let fix go (l : list dstmt) : nat := match l with [] => O | x :: r => S (dstmt_size x + go r) end in
  match s with DReturn _ => 1%nat | DIf _ th => S (go th) | DSwitch a b => S (go a + go b) end.
Fixpoint dstmts_size (l : list dstmt) : nat := match l with [] => O | x :: r => S (dstmt_size x + dstmts_size r) end.

Lemma eval_stmt_unfold_if : forall env t c th, eval_stmt env t (DIf c th) = if eval_cond env t c then eval_stmts env t th else None.
Proof. intros. cbn [eval_stmt]. destruct (eval_cond env t c); [|reflexivity]. induction th as [|x r IH]; [reflexivity|]. cbn. destruct (eval_stmt env t x); [reflexivity|exact IH]. Qed.

Lemma eval_stmt_unfold_switch : forall env t a b, eval_stmt env t (DSwitch a b) =
  match e_arg env with TInt z => eval_stmts env (Some (TInt z)) a | TStr n => eval_stmts env (Some (TStr n)) b | TOther => None end.
Proof.
  intros. cbn [eval_stmt]. destruct (e_arg env) as [z|n|]; [| |reflexivity].
  - induction a as [|x r IH]; [reflexivity|]. cbn. destruct (eval_stmt env (Some (TInt z)) x); [reflexivity|exact IH].
  - induction b as [|x r IH]; [reflexivity|]. cbn. destruct (eval_stmt env (Some (TStr n)) x); [reflexivity|exact IH].
Qed.

Lemma go_size : forall l, (fix go (l : list dstmt) : nat := match l with [] => O | x :: r => S (dstmt_size x + go r) end) l = dstmts_size l.
Proof. induction l as [|x r IH]; [reflexivity|]. cbn [dstmts_size]. rewrite <- IH. reflexivity. Qed.
Lemma dstmt_size_if : forall c th, dstmt_size (DIf c th) = S (dstmts_size th).
Proof. intros. rewrite <- go_size. reflexivity. Qed.
Lemma dstmt_size_switch : forall a b, dstmt_size (DSwitch a b) = S (dstmts_size a + dstmts_size b).
Proof. intros. rewrite <- !go_size. reflexivity. Qed.

Theorem any_program_returns_a_candidate : forall env (prog : list dstmt) t v,
  bound_ok env t -> eval_stmts env t prog = Some v -> candidate env v.
Proof.
  intros env prog. remember (dstmts_size prog) as k eqn:Hk. revert prog Hk.
  induction k as [k IH] using (well_founded_induction Wf_nat.lt_wf). intros prog Hk t v Ht H.
  destruct prog as [|s r]; [discriminate|]. cbn [eval_stmts] in H. cbn [dstmts_size] in Hk.
  destruct (eval_stmt env t s) as [w|] eqn:Es.
  - inversion H; subst w. clear H. destruct s as [e|c th|a b].
    + cbn in Es. inversion Es. apply eval_expr_candidate. exact Ht.
    + rewrite eval_stmt_unfold_if in Es. rewrite dstmt_size_if in Hk. destruct (eval_cond env t c); [|discriminate].
      apply (IH (dstmts_size th)) with (prog := th) (t := t); [lia|reflexivity|exact Ht|exact Es].
    + rewrite eval_stmt_unfold_switch in Es. rewrite dstmt_size_switch in Hk. destruct (e_arg env) as [z|n|] eqn:Ea; [| |discriminate].
      * apply (IH (dstmts_size a)) with (prog := a) (t := Some (TInt z)); [lia|reflexivity|right; rewrite Ea; reflexivity|exact Es].
      * apply (IH (dstmts_size b)) with (prog := b) (t := Some (TStr n)); [lia|reflexivity|right; rewrite Ea; reflexivity|exact Es].
  - apply (IH (dstmts_size r)) with (prog := r) (t := t); [lia|reflexivity|exact Ht|exact H].
Qed.

(* the variant with `size != nil` tested first (the precedence inverted) is a program of the same
   language, is accepted by the lemma above, and is told apart by the precedence theorem: *)
Definition inverted_prog : list dstmt :=
  [DIf DHasSize [DReturn DSize]; DSwitch [DIf DPositive [DReturn DExplicit]] [DReturn DNamed]; DReturn DDefault].
Lemma inverted_differs :
  eval_stmts (mkDenv [] (Some 60000000000) (TInt 2) 600000000000) None inverted_prog = Some (DOk 60000000000)
  /\ size_and_timeout (mkDenv [] (Some 60000000000) (TInt 2) 600000000000) = DOk 2000000000.
Proof. split; reflexivity. Qed.
