(* Proofs about Model/C01Ext.v (follow-up of the seeded changes C01/r2-m1..m3, C02/r2-m1).  The main theorems are stated about
   the values REGENERATED from the source (Gen/EngineRecord.v): a change of the statement they were read off changes the
   generated value and the proof no longer goes through. *)
From Coq Require Import List Bool Arith Lia.
From PlzV Require Gen.EngineRecord.
From PlzV Require Import Base.Harness Base.StrFacts Model.Engine Model.C01Ext.
From PlzV Require Proof.C03.
Import ListNotations.

(* ------------------------------------------------------------------------------------------ *)
(* the record of a target with several outputs (seeded C01/r2-m1) *)

(* readRuleHashFromXattrs returns a record exactly when the target has outputs and EVERY output carries that record -
   for every store and every list of outputs.  With "the first output only" the direction -> fails. *)
Theorem record_read_exact : forall st rels rk,
  common_rec st rels = Some rk <-> (rels <> [] /\ forall rel, In rel rels -> rec_at st rel = Some rk).
Proof.
  intros st rels rk. split.
  - intros H. split; [intros ->; discriminate|]. exact (C03.common_rec_each st rels rk H).
  - intros [Hne H]. exact (C03.common_rec_all st rk rels Hne H).
Qed.

(* an output that another target wrote since (another record) makes the target out of date, wherever it sits in the list *)
Corollary taken_over_output_not_trusted : forall st rels rk rel rk',
  In rel rels -> rec_at st rel = Some rk' -> rk' <> rk -> common_rec st rels <> Some rk.
Proof.
  intros st rels rk rel rk' Hin Hrec Hne H. apply record_read_exact in H. destruct H as [_ H].
  rewrite (H rel Hin) in Hrec. congruence.
Qed.

(* ------------------------------------------------------------------------------------------ *)
(* inodes: with CopyHash on the same-file way out, the nil mark honoured and the xattr read only below plz-out, every
   consumer sees the hash of the CURRENT content of the file it reads, whatever the history *)

Definition good (fl : flags) : Prop :=
  f_copy fl = true /\ f_nil_nostore fl = true /\ f_nil_recalc fl = true /\ f_guard_out fl = true.

Lemma hash_file_content fl below store read i : i_content (snd (hash_file fl below store read i)) = i_content i.
Proof.
  unfold hash_file.
  destruct (if read && (below || negb (f_guard_out fl)) then i_xattr i else None); [reflexivity|].
  destruct (store && (below || negb (f_store_out fl))); reflexivity.
Qed.

(* a path of the source tree: the hash of the content, whatever xattr the inode carries *)
Lemma hash_file_src fl store read i : f_guard_out fl = true -> fst (hash_file fl false store read i) = i_content i.
Proof.
  intros H. unfold hash_file. rewrite H. cbn [orb negb]. rewrite andb_false_r.
  destruct (store && negb (f_store_out fl)); reflexivity.
Qed.

(* the filegroup output that is the user's file: re-hashed, the xattr neither read nor stored *)
Lemma hash_path_marked fl i : good fl -> hash_path fl true true i = (i_content i, i).
Proof.
  intros (_ & Hs & Hr & _). unfold hash_path, hash_file. rewrite Hs, Hr. reflexivity.
Qed.

Lemma fg_build_good fl a b out : good fl ->
  forall a1 b1 out1 seen, fg_build fl a b out = (a1, b1, out1, seen) ->
  seen = i_content a /\ i_content a1 = i_content a /\ option_map i_content b1 = option_map i_content b.
Proof.
  intros G a1 b1 out1 seen. pose proof G as (Hc & _ & _ & Hg).
  assert (Hother : forall o back,
    (forall o1, i_content o1 = i_content o -> option_map i_content (fst (back o1)) = option_map i_content b) ->
    match hash_file fl false true true a with
    | (h1, a1') =>
        match hash_file fl true true true o with
        | (h2, o1) =>
            if str_eqb h1 h2 then (a1', fst (back o1), snd (back o1), h1)
            else (a1', fst (back o1), OLinkA, i_content a1')
        end
    end = (a1, b1, out1, seen) ->
    seen = i_content a /\ i_content a1 = i_content a /\ option_map i_content b1 = option_map i_content b).
  { intros o back Hback.
    pose proof (hash_file_src fl true true a Hg) as H1. pose proof (hash_file_content fl false true true a) as H1c.
    pose proof (hash_file_content fl true true true o) as H2c.
    destruct (hash_file fl false true true a) as [h1 a1'] eqn:E1.
    destruct (hash_file fl true true true o) as [h2 o1] eqn:E2.
    cbn [fst snd] in H1, H1c, H2c.
    destruct (str_eqb h1 h2); intros H; injection H as <- <- <- <-.
    - repeat split; [exact H1|exact H1c|apply Hback; exact H2c].
    - repeat split; [exact H1c|exact H1c|apply Hback; exact H2c]. }
  unfold fg_build. destruct out as [| | |o].
  - intros H; injection H as <- <- <- <-. repeat split.
  - rewrite Hc, (hash_path_marked fl a G). intros H; injection H as <- <- <- <-. repeat split.
  - destruct b as [ib|].
    + apply Hother. intros o1 Ho1. cbn [fst option_map]. rewrite Ho1. reflexivity.
    + intros H; injection H as <- <- <- <-. repeat split.
  - apply Hother. intros o1 _. reflexivity.
Qed.

Lemma irun_spec fl : good fl -> forall evs st,
  irun fl st evs = ispec (i_content (s_a st)) (option_map i_content (s_b st)) (s_recg st) (s_recg2 st) evs.
Proof.
  intros G. pose proof G as (_ & _ & _ & Hg).
  induction evs as [|e evs IH]; intros st; [reflexivity|].
  destruct st as [a b out rg rg2]; cbn [s_a s_b s_out s_recg s_recg2].
  destruct e as [c|c|c|c| |]; cbn [irun istep ispec s_a s_b s_out s_recg s_recg2].
  - rewrite IH. reflexivity.
  - rewrite IH. reflexivity.
  - rewrite IH. reflexivity.
  - rewrite IH. cbn [s_a s_b s_recg s_recg2]. destruct b as [ib|]; reflexivity.
  - rewrite IH. reflexivity.
  - destruct (fg_build fl a b out) as [[[a1 b1] out1] seen] eqn:E.
    destruct (fg_build_good fl a b out G _ _ _ _ E) as (-> & Ha & Hb).
    destruct b1 as [ib|]; destruct b as [ib0|]; cbn [option_map] in Hb |- *; try discriminate.
    + pose proof (hash_file_src fl true true ib Hg) as H2. pose proof (hash_file_content fl false true true ib) as H2c.
      destruct (hash_file fl false true true ib) as [seen2 ib1] eqn:E2. cbn [fst snd] in H2, H2c.
      injection Hb as Hb. subst seen2. rewrite IH. cbn [s_a s_b s_recg s_recg2 option_map].
      rewrite Ha, H2c, Hb. reflexivity.
    + rewrite IH. cbn [s_a s_b s_recg s_recg2 option_map]. rewrite Ha. reflexivity.
Qed.

(* the source as it is: CopyHash on the same-file way out, the nil mark sets store = false and recalc = true, the xattr is
   read only below plz-out/ *)
Lemma gen_flags_good : good gen_flags.
Proof. repeat split. Qed.

Theorem ino_runs_exact : forall c0 evs, irun gen_flags (iinit c0) evs = ispec c0 None None None evs.
Proof. intros c0 evs. exact (irun_spec gen_flags gen_flags_good evs (iinit c0)). Qed.

(* each of the three is needed (the seeded changes C01/r2-m2, C02/r2-m1, C01/r2-m3) *)
Lemma ino_needs_copyhash :
  let evs := [Build; EditA (s "two"); Build; EditA (s "three"); Build] in
  irun (mkF false true true true true) (iinit (s "one")) evs = [(true, None); (true, None); (false, None)]
  /\ ispec (s "one") None None None evs = [(true, None); (true, None); (true, None)].
Proof. vm_compute. split; reflexivity. Qed.

Lemma ino_needs_nil_mark :
  let evs := [Build; Build; EditA (s "two"); Build] in
  irun (mkF true false false true true) (iinit (s "one")) evs = [(true, None); (false, None); (false, None)]
  /\ ispec (s "one") None None None evs = [(true, None); (false, None); (true, None)].
Proof. vm_compute. split; reflexivity. Qed.

Lemma ino_needs_plz_out_guard :
  let evs := [Build; RenameAB (s "new"); Build; EditB (s "three"); Build] in
  irun (mkF true true true false true) (iinit (s "one")) evs = [(true, None); (true, Some true); (false, Some false)]
  /\ ispec (s "one") None None None evs = [(true, None); (true, Some true); (false, Some true)].
Proof. vm_compute. split; reflexivity. Qed.
