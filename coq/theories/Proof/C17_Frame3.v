(* C17 - the frame theorem, part 3: statements (exec_stmt), the induction on the fuel, and the theorem for one more unit of fuel. *)
From Coq Require Import String Lia.
From PlzV Require Import Base.Harness Gen.AspTables Model.C16_Syntax Model.C16_Ops Model.C16_Prim Model.C16_Eval.
From PlzV Require Import Proof.C17_Inv Proof.C17_Ops Proof.C17_Frame1 Proof.C17_Frame2.
Local Open Scope list_scope.
Local Open Scope nat_scope.

#[local] Arguments chain : simpl never.
#[local] Arguments is_const : simpl never.
#[local] Arguments const_alloc : simpl never.
#[local] Arguments native : simpl never.
#[local] Arguments native_method : simpl never.
#[local] Arguments native_sig : simpl never.
#[local] Arguments method_sig : simpl never.
#[local] Arguments validate : simpl never.
#[local] Arguments apply_bin : simpl never.
#[local] Arguments vindex : simpl never.
#[local] Arguments vslice : simpl never.
#[local] Arguments vindex_assign : simpl never.
#[local] Arguments unpack_names : simpl never.
#[local] Arguments iter_items : simpl never.
#[local] Arguments new_list : simpl never.
#[local] Arguments alloc_list : simpl never.
#[local] Arguments alloc_dict : simpl never.
#[local] Arguments lookup : simpl never.
#[local] Arguments set_var : simpl never.
#[local] Arguments truthy : simpl never.
#[local] Arguments strict_list : simpl never.
#[local] Arguments str_eqb : simpl never.
#[local] Arguments existsb : simpl never.
#[local] Arguments assoc_get : simpl never.
#[local] Arguments find_def : simpl never.
#[local] Arguments opt_stmts : simpl never.
#[local] Arguments drop_pass : simpl never.
#[local] Arguments freeze_env : simpl never.
#[local] Arguments mapM : simpl never.
#[local] Arguments mapR : simpl never.
#[local] Arguments rbind : simpl never.
#[local] Arguments s : simpl never.
#[local] Arguments str_methods : simpl never.
#[local] Arguments dict_methods : simpl never.
#[local] Arguments Nat.ltb : simpl never.
#[local] Arguments Nat.leb : simpl never.
#[local] Arguments nth : simpl never.
#[local] Arguments fold_left : simpl never.
#[local] Arguments combine : simpl never.
#[local] Arguments map : simpl never.
#[local] Arguments length : simpl never.
#[local] Arguments env_get : simpl never.
#[local] Arguments tl : simpl never.

Section Frame3.
Variables (ca cd : nat -> mode) (pf ls : nat -> bool) (cs : list value) (defs : list (str * prog)).
Notation vok := (C17_Inv.vok ca cd pf).
Notation env_ok := (C17_Inv.env_ok ca cd pf).
Notation Inv := (C17_Inv.Inv ca cd pf ls cs defs).
Notation frame := (C17_Inv.frame ca cd ls).
Notation good := (C17_Inv.good ca cd pf ls cs defs).
Notation sok_e := (C17_Inv.sok_e ca cd pf cs).
Notation sok_args := (C17_Inv.sok_args ca cd pf cs).
Notation sok_p := (C17_Inv.sok_p ca cd pf cs).
Notation sok_s := (C17_Inv.sok_s ca cd pf cs).
Notation dok := (C17_Inv.dok ca cd pf cs).
Notation sres_ok := (C17_Ops.sres_ok ca cd pf).
Notation E_spec := (C17_Ops.E_spec ca cd pf ls cs defs).
Notation V_spec := (C17_Ops.V_spec ca cd pf ls cs defs).
Notation C_spec := (C17_Ops.C_spec ca cd pf ls cs defs).
Notation R_spec := (C17_Ops.R_spec ca cd pf ls cs defs).
Notation B_spec := (C17_Ops.B_spec ca cd pf ls cs defs).
Notation S_spec := (C17_Ops.S_spec ca cd pf ls cs defs).

Ltac split_sok H :=
  repeat match type of H with
         | (_ && _)%bool = true => let H1 := fresh H in apply andb_prop in H; destruct H as [H H1]
         end.

Lemma ret_none : forall st st', Inv st' -> frame st st' -> post (good st sres_ok) (Ok (RNone, st')).
Proof. intros st st' HI HF. cbn. unfold C17_Inv.good. split; [exact HI|]. split; [exact HF|exact I]. Qed.

Lemma step_S : forall f, E_spec f -> C_spec f -> B_spec f -> S_spec (S f).
Proof.
  intros f IHE IHC IHB s0 st Hs HI. destruct s0; simpl.
  - (* SAssign *)
    cbn [C17_Inv.sok_s] in Hs.
    eapply good_bind; [apply (E_plain ca cd pf ls cs defs _ _ _ IHE); auto|]. intros v st1 I1 F1 Hv. cbv beta match.
    destruct (set_var_good ca cd pf ls cs defs st1 n v I1 Hv) as [I2 F2]. apply ret_none; auto.
  - (* SAug *)
    cbn [C17_Inv.sok_s] in Hs.
    destruct (lookup n st) as [old|] eqn:El; [|exact I]. pose proof (lookup_ok ca cd pf ls cs defs _ _ _ HI El) as Hold.
    eapply good_bind; [apply (E_plain ca cd pf ls cs defs _ _ _ IHE); auto|]. intros v st1 I1 F1 Hv. cbv beta match.
    eapply good_bind; [apply (apply_bin_good ca cd pf ls cs defs); auto|]. intros r st2 I2 F2 Hr. cbv beta match.
    destruct (set_var_good ca cd pf ls cs defs st2 n r I2 Hr) as [I3 F3]. apply ret_none; auto.
  - (* SIdxAssign *)
    cbn [C17_Inv.sok_s] in Hs. split_sok Hs.
    destruct (lookup n st) as [obj|] eqn:El; [|exact I]. pose proof (lookup_ok ca cd pf ls cs defs _ _ _ HI El) as Hobj.
    eapply good_bind; [apply (E_plain ca cd pf ls cs defs _ _ _ IHE); auto|]. intros idx st1 I1 F1 Hidx. cbv beta match.
    eapply good_bind; [apply (E_plain ca cd pf ls cs defs _ _ _ IHE); auto|]. intros v st2 I2 F2 Hv. cbv beta match.
    apply post_bind_pure. intros st3 H3.
    destruct (vindex_assign_good ca cd pf ls cs defs _ _ _ _ _ I2 Hobj Hv H3) as [I3 F3]. apply ret_none; auto.
  - (* SIdxAug *)
    cbn [C17_Inv.sok_s] in Hs. split_sok Hs.
    destruct (lookup n st) as [obj|] eqn:El; [|exact I]. pose proof (lookup_ok ca cd pf ls cs defs _ _ _ HI El) as Hobj.
    eapply good_bind; [apply (E_plain ca cd pf ls cs defs _ _ _ IHE); auto|]. intros idx st1 I1 F1 Hidx. cbv beta match.
    apply post_bind_pure. intros old Hold. pose proof (vindex_ok ca cd pf ls cs defs st1 obj idx old I1 Hobj Hold) as Hov.
    eapply good_bind; [apply (E_plain ca cd pf ls cs defs _ _ _ IHE); auto|]. intros v st2 I2 F2 Hv. cbv beta match.
    eapply good_bind; [apply (apply_bin_good ca cd pf ls cs defs); auto|]. intros r st3 I3 F3 Hr. cbv beta match.
    apply post_bind_pure. intros st4 H4.
    destruct (vindex_assign_good ca cd pf ls cs defs _ _ _ _ _ I3 Hobj Hr H4) as [I4 F4]. apply ret_none; auto.
  - (* SUnpack *)
    cbn [C17_Inv.sok_s] in Hs.
    eapply good_bind; [apply (E_plain ca cd pf ls cs defs _ _ _ IHE); auto|]. intros v st1 I1 F1 Hv. cbv beta match.
    destruct names as [|n1 [|n2 nr]]; try exact I.
    apply post_bind_pure. intros st2 H2.
    destruct (unpack_names_good ca cd pf ls cs defs _ _ _ _ I1 Hv H2) as [I2 F2]. apply ret_none; auto.
  - (* SIf *)
    rewrite sok_s_if in Hs. split_sok Hs.
    eapply good_bind; [apply (E_plain ca cd pf ls cs defs _ _ _ IHE); auto|]. intros cv st1 I1 F1 Hcv. cbv beta match.
    destruct (truthy Asp st1 cv); [apply IHB; auto|].
    clear HI. revert st1 I1 F1. induction elifs as [|[c1 b1] r IH]; intros st1 I1 F1; simpl.
    + apply IHB; auto.
    + cbn [forallb] in Hs1. apply andb_prop in Hs1. destruct Hs1 as [Hcb Hr]. apply andb_prop in Hcb. destruct Hcb as [Hc1 Hb1].
      eapply good_bind; [apply (E_plain ca cd pf ls cs defs _ _ _ IHE); auto|]. intros v1 st' I' F' Hv1. cbv beta match.
      destruct (truthy Asp st' v1); [apply IHB; auto|]. apply IH; auto. eapply frame_trans; eauto.
  - (* SFor *)
    rewrite sok_s_for in Hs. split_sok Hs.
    eapply good_bind; [apply (E_plain ca cd pf ls cs defs _ _ _ IHE); auto|]. intros itv st1 I1 F1 Hitv. cbv beta match.
    apply post_bind_pure. intros items Hit. pose proof (iter_items_ok ca cd pf ls cs defs _ _ _ I1 Hitv Hit) as Hitems.
    clear Hit HI F1. revert st1 I1. induction items as [|li r IH]; intros st1 I1; simpl.
    + apply ret_none; auto. apply frame_refl.
    + inversion Hitems as [|? ? Hli Hr]; subst.
      apply post_bind_pure. intros st' Hu. destruct (unpack_names_good ca cd pf ls cs defs _ _ _ _ I1 Hli Hu) as [I2 F2].
      eapply good_frame; [exact F2|].
      eapply good_bind; [apply IHB; auto|]. intros r0 st'' I3 F3 Hr0. cbv beta match.
      destruct r0; try (apply IH; auto).
      * apply good_ret; auto.
      * apply ret_none; auto. apply frame_refl.
  - (* SDef *)
    rewrite sok_s_def in Hs. split_sok Hs.
    eapply (good_bind ca cd pf ls cs defs (Forall (fun a : str * fdefault => dok a = true))).
    + apply (mapM_good ca cd pf ls cs defs (fun a : str * fdefault => dok a = true)); [exact HI|].
      intros [a oe] Hin st0 I0. rewrite forallb_forall in Hs. specialize (Hs _ Hin). cbn [snd fst] in *.
      destruct oe as [e|]; [|apply good_ret; auto].
      destruct (is_const 32 e).
      * eapply good_bind; [apply (const_alloc_good ca cd pf ls cs defs); auto|]. intros v st' I' F' Hv. cbv beta match. apply good_ret; auto.
      * apply good_ret; auto.
    + intros formals st1 I1 F1 Hformals. cbv beta match.
      assert (Hfok : fokb ca cd pf ls cs (Func n formals body (cur st1)) = true).
      { unfold fokb. cbn [f_args f_body f_scope]. rewrite Hs0, (i_cur _ _ _ _ _ _ _ I1).
        replace (forallb dok formals) with true; [reflexivity|]. symmetry. apply forallb_forall. rewrite Forall_forall in Hformals. exact Hformals. }
      destruct (add_func_good ca cd pf ls cs defs st1 _ I1 Hfok) as (I2 & F2 & Hv).
      destruct (set_var_good ca cd pf ls cs defs _ n _ I2 Hv) as [I3 F3].
      apply ret_none; auto. eapply frame_trans; eauto.
  - (* SReturn *)
    destruct e as [e|]; simpl.
    + cbn [C17_Inv.sok_s] in Hs.
      eapply good_bind; [apply (E_plain ca cd pf ls cs defs _ _ _ IHE); auto|]. intros v st1 I1 F1 Hv. cbv beta match. apply good_ret; auto.
    + apply good_ret; auto.
  - (* SCall *)
    cbn [C17_Inv.sok_s] in Hs.
    destruct (lookup n st) as [fn|] eqn:El; [|exact I]. pose proof (lookup_ok ca cd pf ls cs defs _ _ _ HI El) as Hfn.
    assert (Hcall : post (good st sres_ok) (rbind (call_value Asp defs f fn n args st) (fun '(_, st1) => Ok (RNone, st1)))).
    { eapply good_bind; [apply IHC; auto|]. intros v st1 I1 F1 Hv. cbv beta match. apply ret_none; auto. apply frame_refl. }
    destruct fn; try exact Hcall.
    destruct (str_eqb n0 (s "subinclude")); [|exact Hcall].
    destruct args as [|[[k|] [[ | lbl | | | | | | | | | | | | | ] [|? ?] [?|]]] [|? ?]]; try exact I.
    destruct (assoc_get lbl (subcache st)) as [globals|] eqn:Eg; [|rewrite (i_defs _ _ _ _ _ _ _ HI lbl Eg); exact I].
    pose proof (assoc_get_ok ca cd pf _ _ _ (i_sub _ _ _ _ _ _ _ HI) Eg) as Hg.
    destruct (set_vars_good ca cd pf ls cs defs globals st HI Hg) as [I1 F1]. apply ret_none; auto.
  - (* SAssert *)
    cbn [C17_Inv.sok_s] in Hs.
    eapply good_bind; [apply (E_plain ca cd pf ls cs defs _ _ _ IHE); auto|]. intros v st1 I1 F1 Hv. cbv beta match.
    destruct (truthy Asp st1 v); [|exact I]. apply ret_none; auto. apply frame_refl.
  - apply ret_none; auto. apply frame_refl.
  - apply good_ret; auto. exact I.
  - apply good_ret; auto. exact I.
Qed.

Record specs (f : nat) : Prop := mkSpecs {
  sp_E : E_spec f; sp_V : V_spec f; sp_C : C_spec f; sp_R : R_spec f; sp_B : B_spec f; sp_S : S_spec f }.

Theorem all_specs : forall f, specs f.
Proof.
  induction f as [|f IH].
  - constructor; intro; intros; exact I.
  - destruct IH as [HE HV HC HR HB HS]. constructor.
    + apply (step_E ca cd pf ls cs defs); auto.
    + apply (step_V ca cd pf ls cs defs); auto.
    + apply (step_C ca cd pf ls cs defs); auto.
    + apply (step_R ca cd pf ls cs defs); auto.
    + apply (step_B ca cd pf ls cs defs); auto.
    + apply step_S; auto.
Qed.

End Frame3.
