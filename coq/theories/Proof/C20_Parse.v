(* C20 - proofs about parsing and printing labels: the printed form of every well-formed label parses back
   to it; the parser never runs out of fuel; what the parser accepts has a valid package name and a
   subrepo without ':' and "//" (so the only ways the round trip can fail are the three classes of
   defect_class). *)
From Coq Require Import String.
From PlzV Require Import Base.Harness Base.StrFacts Gen.LabelTables Model.C20 Proof.C20_Select.
From Coq Require Import Lia List.
Local Open Scope list_scope.

(* ---- the tie to the regenerated tables: the facts about the character sets the proofs need ------------------- *)
Lemma colon_forbidden_in_pkg : mem_byte 58 (lit pkg_forbidden) = true.
Proof. reflexivity. Qed.
Lemma colon_forbidden_in_name : mem_byte 58 (lit name_forbidden) = true.
Proof. reflexivity. Qed.
Lemma slash_forbidden_in_name : mem_byte 47 (lit name_forbidden) = true.
Proof. reflexivity. Qed.
Lemma dot_slash_allowed_in_pkg : contains_any (lit "/...") (lit pkg_forbidden) = false.
Proof. reflexivity. Qed.
Lemma dots_is_a_valid_name : valid_name dots = true.
Proof. reflexivity. Qed.

(* ---- lists of bytes ------------------------------------------------------------------------------------------ *)

Lemma rev_nil_inv {A} (l : list A) : rev l = [] -> l = [].
Proof. intros H. apply (f_equal (@rev A)) in H. rewrite rev_involutive in H. exact H. Qed.

Lemma last_is_app c a b : b <> [] -> last_is c (a ++ b) = last_is c b.
Proof.
  intros Hb. unfold last_is. rewrite rev_app_distr.
  destruct (rev b) as [|y r] eqn:E; [apply rev_nil_inv in E; contradiction|reflexivity].
Qed.

Lemma last_is_cons c x a : a <> [] -> last_is c (x :: a) = last_is c a.
Proof. intros Ha. exact (last_is_app c [x] a Ha). Qed.

Lemma head_is_app c a b : a <> [] -> head_is c (a ++ b) = head_is c a.
Proof. destruct a; [contradiction|reflexivity]. Qed.

Lemma contains_any_app a b set : contains_any (a ++ b) set = contains_any a set || contains_any b set.
Proof. unfold contains_any. apply existsb_app. Qed.

Lemma mem_byte_app c a b : mem_byte c (a ++ b) = mem_byte c a || mem_byte c b.
Proof. unfold mem_byte. apply existsb_app. Qed.

Lemma mem_byte_cons c x n : mem_byte c (x :: n) = N.eqb c x || mem_byte c n.
Proof. reflexivity. Qed.

Lemma contains_any_mem n set c : contains_any n set = false -> mem_byte c set = true -> mem_byte c n = false.
Proof.
  intros Hn Hc. induction n as [|x n IH]; [reflexivity|].
  cbn in Hn. apply orb_false_iff in Hn. destruct Hn as [Hx Hn].
  change (mem_byte c (x :: n)) with (N.eqb c x || mem_byte c n).
  rewrite (IH Hn), orb_false_r. destruct (N.eqb_spec c x) as [->|]; [|reflexivity].
  unfold mem_byte in *. congruence.
Qed.

Lemma contains_dslash_cons2 x y r : contains_dslash (x :: y :: r) = (N.eqb x 47 && N.eqb y 47) || contains_dslash (y :: r).
Proof. reflexivity. Qed.

Lemma contains_dslash_app a b :
  contains_dslash a = false -> contains_dslash b = false -> last_is 47 a = false \/ head_is 47 b = false ->
  contains_dslash (a ++ b) = false.
Proof.
  induction a as [|x a IH]; intros Ha Hb Hj; [exact Hb|].
  destruct a as [|y a].
  - destruct b as [|z b]; [reflexivity|]. cbn [app]. rewrite contains_dslash_cons2, Hb, orb_false_r.
    destruct Hj as [Hj|Hj]; cbn in Hj; rewrite Hj; [reflexivity|apply andb_false_r].
  - rewrite contains_dslash_cons2 in Ha. apply orb_false_iff in Ha. destruct Ha as [Hxy Ha].
    change ((x :: y :: a) ++ b) with (x :: y :: (a ++ b)). rewrite contains_dslash_cons2, Hxy. cbn [orb].
    apply (IH Ha Hb). destruct Hj as [Hj|Hj]; [left|right; exact Hj].
    rewrite last_is_cons in Hj by discriminate. exact Hj.
Qed.

Lemma contains_dslash_prefix a b : contains_dslash (a ++ b) = false -> contains_dslash a = false.
Proof.
  induction a as [|x a IH]; intros H; [reflexivity|].
  destruct a as [|y a]; [reflexivity|].
  change ((x :: y :: a) ++ b) with (x :: y :: (a ++ b)) in H. rewrite contains_dslash_cons2 in H.
  apply orb_false_iff in H. destruct H as [Hxy H]. rewrite contains_dslash_cons2, Hxy. exact (IH H).
Qed.

(* split_byte *)
Lemma split_byte_app c a b : mem_byte c a = false -> split_byte c (a ++ c :: b) = Some (a, b).
Proof.
  induction a as [|x a IH]; intros H; cbn [app split_byte].
  - rewrite N.eqb_refl. reflexivity.
  - cbn in H. apply orb_false_iff in H. destruct H as [Hx H]. rewrite N.eqb_sym, Hx, (IH H). reflexivity.
Qed.

Lemma split_byte_none c x : mem_byte c x = false -> split_byte c x = None.
Proof.
  induction x as [|b x IH]; intros H; [reflexivity|].
  cbn in H. apply orb_false_iff in H. destruct H as [Hx H]. cbn [split_byte]. rewrite N.eqb_sym, Hx, (IH H). reflexivity.
Qed.

Lemma split_byte_some c x p q : split_byte c x = Some (p, q) -> x = p ++ c :: q /\ mem_byte c p = false.
Proof.
  revert p q; induction x as [|b x IH]; intros p q H; [discriminate|].
  cbn [split_byte] in H. destruct (N.eqb_spec b c) as [->|Hne].
  - injection H as <- <-. auto.
  - destruct (split_byte c x) as [[p' q']|]; [|discriminate]. injection H as <- <-.
    destruct (IH p' q' eq_refl) as [-> Hm]. split; [reflexivity|].
    rewrite mem_byte_cons, Hm, orb_false_r. apply N.eqb_neq. congruence.
Qed.

Lemma split_byte_none_inv c x : split_byte c x = None -> mem_byte c x = false.
Proof.
  induction x as [|b x IH]; intros H; [reflexivity|].
  cbn [split_byte] in H. destruct (N.eqb_spec b c) as [->|Hne]; [discriminate|].
  destruct (split_byte c x) as [[p q]|]; [discriminate|]. rewrite mem_byte_cons, (IH eq_refl), orb_false_r.
  apply N.eqb_neq. congruence.
Qed.

(* split_dslash *)
Lemma split_dslash_cons2 a b r :
  split_dslash (a :: b :: r) =
    if N.eqb a 47 && N.eqb b 47 then Some ([], a :: b :: r)
    else match split_dslash (b :: r) with Some (p, q) => Some (a :: p, q) | None => None end.
Proof. reflexivity. Qed.

Lemma split_dslash_app a b :
  contains_dslash a = false -> last_is 47 a = false -> split_dslash (a ++ 47%N :: 47%N :: b) = Some (a, 47%N :: 47%N :: b).
Proof.
  induction a as [|x a IH]; intros Hc Hl; [reflexivity|].
  destruct a as [|y a].
  - cbn in Hl. cbn [app]. rewrite split_dslash_cons2, Hl. cbn [andb]. rewrite split_dslash_cons2. reflexivity.
  - rewrite contains_dslash_cons2 in Hc. apply orb_false_iff in Hc. destruct Hc as [Hxy Hc].
    rewrite last_is_cons in Hl by discriminate.
    change ((x :: y :: a) ++ 47%N :: 47%N :: b) with (x :: y :: (a ++ 47%N :: 47%N :: b)).
    rewrite split_dslash_cons2, Hxy.
    change (y :: (a ++ 47%N :: 47%N :: b)) with ((y :: a) ++ 47%N :: 47%N :: b). rewrite (IH Hc Hl). reflexivity.
Qed.

Lemma split_dslash_some x p q :
  split_dslash x = Some (p, q) -> x = p ++ q /\ contains_dslash p = false /\ exists q', q = 47%N :: 47%N :: q'.
Proof.
  revert p q; induction x as [|a x IH]; intros p q H; [discriminate|].
  destruct x as [|b r]; [discriminate|].
  rewrite split_dslash_cons2 in H. destruct (N.eqb a 47 && N.eqb b 47) eqn:E.
  - injection H as <- <-. apply andb_true_iff in E. destruct E as [Ea Eb].
    apply N.eqb_eq in Ea, Eb. subst. split; [reflexivity|]. split; [reflexivity|]. exists r. reflexivity.
  - destruct (split_dslash (b :: r)) as [[p' q']|] eqn:R; [|discriminate]. injection H as <- <-.
    destruct (IH p' q' eq_refl) as (Hx & Hc & Hq). split; [cbn; rewrite Hx; reflexivity|]. split; [|exact Hq].
    destruct p' as [|y p']; [reflexivity|].
    rewrite contains_dslash_cons2, Hc, orb_false_r.
    (* y = b, the head of b :: r = (y :: p') ++ q' *)
    cbn in Hx. injection Hx as <- _. exact E.
Qed.

Lemma split_dslash_none x : split_dslash x = None -> contains_dslash x = false.
Proof.
  induction x as [|a x IH]; intros H; [reflexivity|].
  destruct x as [|b r]; [reflexivity|].
  rewrite split_dslash_cons2 in H. destruct (N.eqb a 47 && N.eqb b 47) eqn:E; [discriminate|].
  destruct (split_dslash (b :: r)) as [[p q]|] eqn:R; [discriminate|].
  rewrite contains_dslash_cons2, E. exact (IH eq_refl).
Qed.

Lemma has_suffix_app suf a : has_suffix suf (a ++ suf) = true.
Proof. unfold has_suffix. rewrite rev_app_distr. apply has_prefix_spec. eexists; reflexivity. Qed.

Lemma trim_right_keep c a : last_is c a = false -> trim_right c a = a.
Proof.
  unfold trim_right, last_is. intros H. destruct (rev a) as [|y r] eqn:E.
  - apply rev_nil_inv in E. subst. reflexivity.
  - cbn in H. cbn [drop_while]. rewrite N.eqb_sym, H. rewrite <- E. apply rev_involutive.
Qed.

Lemma trim_right_snoc c a : trim_right c (a ++ [c]) = trim_right c a.
Proof. unfold trim_right. rewrite rev_app_distr. cbn. rewrite N.eqb_refl. reflexivity. Qed.

(* ---- validity ---------------------------------------------------------------------------------------------------- *)

Lemma valid_pkg_inv p : valid_pkg p = true ->
  p = [] \/ (p <> [] /\ head_is 47 p = false /\ last_is 47 p = false /\ contains_any p (lit pkg_forbidden) = false
             /\ contains_dslash p = false).
Proof.
  unfold valid_pkg. destruct p as [|x p]; [auto|]. cbn [is_nil orb]. intros H.
  repeat (apply andb_true_iff in H; destruct H as [H ?]).
  right. repeat split; try discriminate; apply negb_true_iff; assumption.
Qed.

Lemma valid_pkg_intro p :
  head_is 47 p = false -> last_is 47 p = false -> contains_any p (lit pkg_forbidden) = false -> contains_dslash p = false ->
  valid_pkg p = true.
Proof. intros H1 H2 H3 H4. unfold valid_pkg. rewrite H1, H2, H3, H4. apply orb_true_r. Qed.

Lemma valid_pkg_no_colon p : valid_pkg p = true -> mem_byte 58 p = false.
Proof.
  intros H. destruct (valid_pkg_inv p H) as [->|(_ & _ & _ & Hc & _)]; [reflexivity|].
  exact (contains_any_mem p _ 58 Hc colon_forbidden_in_pkg).
Qed.

Lemma valid_pkg_head p rest : valid_pkg p = true -> head_is 47 rest = false -> head_is 47 (p ++ rest) = false.
Proof.
  intros H Hr. destruct (valid_pkg_inv p H) as [->|(Hn & Hh & _)]; [exact Hr|].
  rewrite head_is_app by exact Hn. exact Hh.
Qed.

Lemma valid_name_inv n : valid_name n = true -> n <> [] /\ contains_any n (lit name_forbidden) = false.
Proof.
  unfold valid_name. intros H. repeat (apply andb_true_iff in H; destruct H as [H ?]).
  split; [destruct n; [discriminate|discriminate]|apply negb_true_iff; assumption].
Qed.

(* a prefix of a valid package name that does not end in a slash is a valid package name *)
Lemma valid_pkg_prefix a b : valid_pkg (a ++ b) = true -> last_is 47 a = false -> valid_pkg a = true.
Proof.
  intros H Hl. destruct a as [|x a]; [reflexivity|].
  destruct (valid_pkg_inv _ H) as [E|(_ & Hh & _ & Hc & Hd)]; [discriminate|].
  apply valid_pkg_intro.
  - exact Hh.
  - exact Hl.
  - rewrite contains_any_app in Hc. apply orb_false_iff in Hc. tauto.
  - exact (contains_dslash_prefix _ _ Hd).
Qed.

(* ---- one step of ParseBuildLabelParts --------------------------------------------------------------------------- *)

Lemma parts_fuel_eq f c0 c1 r2 cur subrepo :
  parts_fuel (S f) (c0 :: c1 :: r2) cur subrepo =
    if N.eqb c0 58 then (if valid_name (c1 :: r2) then Some (cur, c1 :: r2, []) else Some fail3)
    else if N.eqb c0 64 then subrepo_with (parts_fuel f) (c1 :: r2) cur
    else if has_prefix (lit "///") (c0 :: c1 :: r2) then subrepo_with (parts_fuel f) (skipn 3 (c0 :: c1 :: r2)) cur
    else if negb (N.eqb c0 47) || negb (N.eqb c1 47) then Some fail3
    else match split_byte 58 (c0 :: c1 :: r2) with
         | Some (pre, name) =>
             let pkg := skipn 2 pre in
             if negb (valid_pkg pkg) || negb (valid_name name) || str_eqb name (lit all_subpackages_name)
             then Some fail3 else Some (pkg, name, subrepo)
         | None =>
             if negb (valid_pkg r2) then Some fail3
             else if has_suffix (lit "/...") (c0 :: c1 :: r2)
             then Some (trim_right 47 (drop_last 3 r2), lit all_subpackages_name, [])
             else Some (r2, last_seg r2, subrepo)
         end.
Proof. reflexivity. Qed.

Lemma has_prefix_3slash r : has_prefix (lit "///") (47%N :: 47%N :: r) = head_is 47 r.
Proof.
  destruct r as [|x r]; [reflexivity|].
  change (has_prefix (lit "///") (47%N :: 47%N :: x :: r)) with (N.eqb 47 47 && (N.eqb 47 47 && (N.eqb 47 x && true))).
  change (head_is 47 (x :: r)) with (N.eqb x 47).
  rewrite N.eqb_refl, andb_true_r. cbn [andb]. apply N.eqb_sym.
Qed.

(* //pkg:name *)
Lemma parse_plain f pkg name cur sr :
  valid_pkg pkg = true -> valid_name name = true -> str_eqb name dots = false ->
  parts_fuel (S f) (47%N :: 47%N :: pkg ++ 58%N :: name) cur sr = Some (pkg, name, sr).
Proof.
  intros Hp Hn Hd. rewrite parts_fuel_eq.
  change (N.eqb 47 58) with false. change (N.eqb 47 64) with false. cbn iota.
  rewrite has_prefix_3slash, (valid_pkg_head pkg (58%N :: name) Hp eq_refl).
  change (negb (N.eqb 47 47) || negb (N.eqb 47 47)) with false. cbn iota.
  change (47%N :: 47%N :: pkg ++ 58%N :: name) with ((47%N :: 47%N :: pkg) ++ 58%N :: name).
  rewrite split_byte_app by (rewrite !mem_byte_cons, (valid_pkg_no_colon pkg Hp); reflexivity).
  cbn [skipn]. rewrite Hp, Hn. change (lit all_subpackages_name) with dots. rewrite Hd. reflexivity.
Qed.

(* //pkg/... and //... *)
Lemma parse_dots f pkg cur sr :
  valid_pkg pkg = true ->
  parts_fuel (S f) (47%N :: 47%N :: pkg ++ (if is_nil pkg then lit "..." else lit "/...")) cur sr = Some (pkg, dots, []).
Proof.
  intros Hp. destruct (valid_pkg_inv pkg Hp) as [->|(Hne & Hh & Hl & Hc & Hd)]; [reflexivity|].
  assert (Hnil : is_nil pkg = false) by (destruct pkg; [contradiction|reflexivity]). rewrite Hnil.
  rewrite parts_fuel_eq.
  change (N.eqb 47 58) with false. change (N.eqb 47 64) with false. cbn iota.
  rewrite has_prefix_3slash, (head_is_app 47 pkg (lit "/...") Hne), Hh.
  change (negb (N.eqb 47 47) || negb (N.eqb 47 47)) with false. cbn iota.
  rewrite split_byte_none.
  2:{ change (47%N :: 47%N :: pkg ++ lit "/...") with ((47%N :: 47%N :: pkg) ++ lit "/...").
      rewrite mem_byte_app, !mem_byte_cons, (valid_pkg_no_colon pkg Hp). reflexivity. }
  assert (Hv : valid_pkg (pkg ++ lit "/...") = true).
  { apply valid_pkg_intro.
    - rewrite head_is_app by exact Hne. exact Hh.
    - rewrite last_is_app by discriminate. reflexivity.
    - rewrite contains_any_app, Hc. exact dot_slash_allowed_in_pkg.
    - apply contains_dslash_app; [exact Hd|reflexivity|left; exact Hl]. }
  rewrite Hv. cbn [negb]. cbn iota.
  change (47%N :: 47%N :: pkg ++ lit "/...") with ((47%N :: 47%N :: pkg) ++ lit "/..."). rewrite has_suffix_app.
  assert (Hdl : drop_last 3 (pkg ++ lit "/...") = pkg ++ [47%N]).
  { unfold drop_last. rewrite rev_app_distr. cbn. rewrite rev_involutive. reflexivity. }
  rewrite Hdl, trim_right_snoc, (trim_right_keep 47 pkg Hl). reflexivity.
Qed.

(* ///sub//... *)
Lemma parse_subrepo f sub rest cur sr p n x :
  mem_byte 58 sub = false -> contains_dslash sub = false -> last_is 47 sub = false ->
  parts_fuel (S f) (47%N :: 47%N :: rest) cur [] = Some (p, n, x) ->
  parts_fuel (S (S f)) (47%N :: 47%N :: 47%N :: sub ++ 47%N :: 47%N :: rest) cur sr = Some (p, n, sub).
Proof.
  intros Hc Hd Hl Hrec. rewrite parts_fuel_eq.
  change (N.eqb 47 58) with false. change (N.eqb 47 64) with false. cbn iota.
  rewrite has_prefix_3slash. cbn [head_is]. change (N.eqb 47 47) with true. cbn iota. cbn [skipn].
  unfold subrepo_with. rewrite (split_dslash_app sub rest Hd Hl), Hc, Hrec. reflexivity.
Qed.

(* ---- String() then parse ------------------------------------------------------------------------------------------- *)

Lemma label_eqb_neq a b : label_eqb a b = false <-> a <> b.
Proof.
  destruct (label_eqb a b) eqn:E.
  - apply label_eqb_eq in E. split; [discriminate|contradiction].
  - split; [intros _ H; apply label_eqb_eq in H; congruence|reflexivity].
Qed.

Definition sub_ok (sub : str) : Prop :=
  mem_byte 58 sub = false /\ contains_dslash sub = false /\ last_is 47 sub = false.

(* the labels the code can print and read back: names it validates itself, a subrepo name that can stand before "//",
   and not the reserved sentinel *)
Definition wf (l : label) : Prop :=
  valid_pkg (l_pkg l) = true /\ valid_name (l_name l) = true /\ sub_ok (l_sub l) /\ l <> original_target.

(* the obligation on the source: String() puts the subrepo in front before it returns a `...` form (seeded r2-m3) *)
Lemma gen_print_order : print_subrepo_prefix_first = true.
Proof. reflexivity. Qed.

Lemma print_shape pkg name sub :
  label_eqb (L pkg name sub) zero_label = false -> label_eqb (L pkg name sub) original_target = false ->
  print (L pkg name sub) =
    (if is_nil sub then [] else 47%N :: 47%N :: 47%N :: sub) ++
    47%N :: 47%N :: pkg ++ (if str_eqb name dots then (if is_nil pkg then lit "..." else lit "/...") else 58%N :: name).
Proof.
  intros Hz Hor. unfold print. rewrite gen_print_order, Hz, Hor. unfold is_all_sub. simpl l_pkg. simpl l_name. simpl l_sub.
  change (lit all_subpackages_name) with dots.
  destruct sub as [|c sub], (str_eqb name dots), (is_nil pkg); cbn [is_nil];
    change (lit "//") with [47%N; 47%N]; change (lit "///") with [47%N; 47%N; 47%N]; change (lit ":") with [58%N];
    cbn [app]; rewrite <- ?app_assoc; cbn [app]; reflexivity.
Qed.

Theorem roundtrip_wf l cur : wf l -> try_parse (print l) cur [] = Parsed l.
Proof.
  intros (Hp & Hn & (Hc & Hd & Hl) & Ho). destruct l as [pkg name sub]. simpl in Hp, Hn, Hc, Hd, Hl.
  destruct (valid_name_inv name Hn) as [Hne _].
  assert (Hz : label_eqb (L pkg name sub) zero_label = false).
  { apply label_eqb_neq. intros E. injection E as _ E _. contradiction. }
  assert (Hor : label_eqb (L pkg name sub) original_target = false).
  { apply label_eqb_neq. exact Ho. }
  assert (Hnn : is_nil name = false) by (destruct name; [contradiction|reflexivity]).
  rewrite (print_shape pkg name sub Hz Hor). unfold try_parse, parse_parts.
  destruct (str_eqb name dots) eqn:Ed.
  - apply str_eqb_eq in Ed. subst name.
    destruct sub as [|c sub]; cbn [is_nil].
    + cbn [app length]. rewrite (parse_dots _ pkg cur [] Hp). reflexivity.
    + set (rest := pkg ++ (if is_nil pkg then lit "..." else lit "/...")).
      change ((47%N :: 47%N :: 47%N :: c :: sub) ++ 47%N :: 47%N :: rest)
        with (47%N :: 47%N :: 47%N :: (c :: sub) ++ 47%N :: 47%N :: rest).
      change (S (length (47%N :: 47%N :: 47%N :: (c :: sub) ++ 47%N :: 47%N :: rest)))
        with (S (S (length (47%N :: 47%N :: (c :: sub) ++ 47%N :: 47%N :: rest)))).
      rewrite (parse_subrepo _ (c :: sub) rest cur [] pkg dots [] Hc Hd Hl); [reflexivity|].
      apply parse_dots. exact Hp.
  - destruct sub as [|c sub]; cbn [is_nil].
    + cbn [app length]. rewrite (parse_plain _ pkg name cur [] Hp Hn Ed). rewrite Hnn. reflexivity.
    + set (rest := pkg ++ 58%N :: name).
      change ((47%N :: 47%N :: 47%N :: c :: sub) ++ 47%N :: 47%N :: rest)
        with (47%N :: 47%N :: 47%N :: (c :: sub) ++ 47%N :: 47%N :: rest).
      change (S (length (47%N :: 47%N :: 47%N :: (c :: sub) ++ 47%N :: 47%N :: rest)))
        with (S (S (length (47%N :: 47%N :: (c :: sub) ++ 47%N :: 47%N :: rest)))).
      rewrite (parse_subrepo _ (c :: sub) rest cur [] pkg name [] Hc Hd Hl); [rewrite Hnn; reflexivity|].
      apply parse_plain; assumption.
Qed.

(* ---- the fuel is enough ------------------------------------------------------------------------------------------- *)

Lemma subrepo_with_some rec target cur :
  (forall rest, length rest <= length target -> rec rest cur [] <> None) -> subrepo_with rec target cur <> None.
Proof.
  intros Hrec. unfold subrepo_with.
  destruct (split_dslash target) as [[pre rest]|] eqn:D.
  - destruct (split_dslash_some _ _ _ D) as (Hx & _ & _).
    destruct (mem_byte 58 pre); [discriminate|].
    assert (Hlen : length rest <= length target) by (rewrite Hx, app_length; lia).
    specialize (Hrec rest Hlen). destruct (rec rest cur []) as [[[p n] x]|]; [discriminate|contradiction].
  - destruct (split_byte 58 target) as [[pre post]|] eqn:B; [|discriminate].
    destruct (split_byte_some _ _ _ _ B) as (Hx & Hm). rewrite Hm.
    assert (Hlen : length (58%N :: post) <= length target) by (rewrite Hx, app_length; lia).
    specialize (Hrec _ Hlen). destruct (rec (58%N :: post) cur []) as [[[p n] x]|]; [discriminate|contradiction].
Qed.

Lemma parts_fuel_enough f : forall t cur sr, length t < f -> parts_fuel f t cur sr <> None.
Proof.
  induction f as [|f IH]; intros t cur sr Hlen; [lia|].
  destruct t as [|c0 [|c1 r2]]; try discriminate.
  rewrite parts_fuel_eq.
  destruct (N.eqb c0 58); [destruct (valid_name (c1 :: r2)); discriminate|].
  destruct (N.eqb c0 64).
  { apply subrepo_with_some. intros rest Hr. apply IH. cbn [length] in *. lia. }
  destruct (has_prefix (lit "///") (c0 :: c1 :: r2)).
  { apply subrepo_with_some. intros rest Hr. apply IH.
    assert (H3 : length (skipn 3 (c0 :: c1 :: r2)) <= length r2) by (change (skipn 3 (c0 :: c1 :: r2)) with (skipn 1 r2); rewrite skipn_length; lia).
    cbn [length] in Hlen. lia. }
  destruct (negb (N.eqb c0 47) || negb (N.eqb c1 47)); [discriminate|].
  destruct (split_byte 58 (c0 :: c1 :: r2)) as [[pre name]|].
  - cbn zeta. destruct (negb (valid_pkg (skipn 2 pre)) || negb (valid_name name) || str_eqb name (lit all_subpackages_name)); discriminate.
  - destruct (negb (valid_pkg r2)); [discriminate|]. destruct (has_suffix (lit "/...") (c0 :: c1 :: r2)); discriminate.
Qed.

Theorem try_parse_never_out_of_fuel t cur sr : try_parse t cur sr <> OutOfFuel.
Proof.
  unfold try_parse, parse_parts.
  destruct (parts_fuel (S (length t)) t cur sr) as [[[p n] x]|] eqn:E.
  - destruct (is_nil n); discriminate.
  - exfalso. exact (parts_fuel_enough (S (length t)) t cur sr (Nat.lt_succ_diag_r _) E).
Qed.

(* ---- what the parser accepts --------------------------------------------------------------------------------------- *)

Definition sr_ok (sr : str) : Prop := mem_byte 58 sr = false /\ contains_dslash sr = false.

Lemma sr_ok_nil : sr_ok [].
Proof. split; reflexivity. Qed.

Lemma drop_while_suffix f l : exists z, l = z ++ drop_while f l.
Proof.
  induction l as [|b l [z IH]]; [exists []; reflexivity|].
  cbn [drop_while]. destruct (f b); [exists (b :: z); cbn; rewrite <- IH; reflexivity|exists []; reflexivity].
Qed.

Lemma head_is_drop_while c l : head_is c (drop_while (N.eqb c) l) = false.
Proof.
  induction l as [|b l IH]; [reflexivity|]. cbn [drop_while].
  destruct (N.eqb c b) eqn:E; [exact IH|]. cbn [head_is]. rewrite N.eqb_sym. exact E.
Qed.

Lemma trim_right_prefix c a : (exists z, a = trim_right c a ++ z) /\ last_is c (trim_right c a) = false.
Proof.
  unfold trim_right, last_is. rewrite rev_involutive. split; [|apply head_is_drop_while].
  destruct (drop_while_suffix (N.eqb c) (rev a)) as [z Hz]. exists (rev z).
  rewrite <- rev_app_distr, <- Hz, rev_involutive. reflexivity.
Qed.

Lemma drop_last_prefix n a : exists z, a = drop_last n a ++ z.
Proof.
  unfold drop_last. exists (rev (firstn n (rev a))).
  rewrite <- rev_app_distr, firstn_skipn, rev_involutive. reflexivity.
Qed.

Lemma subrepo_with_inv rec target cur p n x :
  (forall rest p n x, rec rest cur [] = Some (p, n, x) -> valid_pkg p = true /\ sr_ok x) ->
  subrepo_with rec target cur = Some (p, n, x) -> valid_pkg p = true /\ sr_ok x.
Proof.
  intros Hrec. unfold subrepo_with.
  destruct (split_dslash target) as [[pre rest]|] eqn:D.
  - destruct (split_dslash_some _ _ _ D) as (_ & Hc & _).
    destruct (mem_byte 58 pre) eqn:M.
    + intros H. injection H as <- <- <-. split; [reflexivity|apply sr_ok_nil].
    + destruct (rec rest cur []) as [[[p' n'] x']|] eqn:R; [|discriminate].
      intros H. injection H as <- <- <-. destruct (Hrec _ _ _ _ R) as [Hp _]. split; [exact Hp|split; assumption].
  - apply split_dslash_none in D.
    destruct (split_byte 58 target) as [[pre post]|] eqn:B.
    + destruct (split_byte_some _ _ _ _ B) as (Hx & Hm). rewrite Hm.
      destruct (rec (58%N :: post) cur []) as [[[p' n'] x']|] eqn:R; [|discriminate].
      intros H. injection H as <- <- <-. destruct (Hrec _ _ _ _ R) as [Hp _]. split; [exact Hp|].
      split; [exact Hm|]. rewrite Hx in D. exact (contains_dslash_prefix _ _ D).
    + intros H. injection H as <- <- <-. split; [reflexivity|]. split; [exact (split_byte_none_inv _ _ B)|exact D].
Qed.

Lemma parts_fuel_inv f : forall t cur sr p n x,
  valid_pkg cur = true -> sr_ok sr -> parts_fuel f t cur sr = Some (p, n, x) -> valid_pkg p = true /\ sr_ok x.
Proof.
  induction f as [|f IH]; intros t cur sr p n x Hcur Hsr; [discriminate|].
  assert (Hfail : Some fail3 = Some (p, n, x) -> valid_pkg p = true /\ sr_ok x).
  { intros H. injection H as <- <- <-. split; [reflexivity|apply sr_ok_nil]. }
  destruct t as [|c0 [|c1 r2]]; try exact Hfail.
  rewrite parts_fuel_eq.
  destruct (N.eqb c0 58).
  { destruct (valid_name (c1 :: r2)); [|exact Hfail]. intros H. injection H as <- <- <-. split; [exact Hcur|apply sr_ok_nil]. }
  destruct (N.eqb c0 64).
  { apply subrepo_with_inv. intros rest p' n' x'. apply IH; [exact Hcur|apply sr_ok_nil]. }
  destruct (has_prefix (lit "///") (c0 :: c1 :: r2)).
  { apply subrepo_with_inv. intros rest p' n' x'. apply IH; [exact Hcur|apply sr_ok_nil]. }
  destruct (negb (N.eqb c0 47) || negb (N.eqb c1 47)); [exact Hfail|].
  destruct (split_byte 58 (c0 :: c1 :: r2)) as [[pre name]|].
  - cbn zeta. destruct (valid_pkg (skipn 2 pre)) eqn:V; cbn [negb orb]; [|exact Hfail].
    destruct (negb (valid_name name) || str_eqb name (lit all_subpackages_name)); [exact Hfail|].
    intros H. injection H as <- <- <-. split; [exact V|exact Hsr].
  - destruct (valid_pkg r2) eqn:V; cbn [negb]; [|exact Hfail].
    destruct (has_suffix (lit "/...") (c0 :: c1 :: r2)).
    + intros H. injection H as <- <- <-. split; [|apply sr_ok_nil].
      destruct (trim_right_prefix 47 (drop_last 3 r2)) as [[z1 Hz1] Hl].
      destruct (drop_last_prefix 3 r2) as [z2 Hz2].
      apply (valid_pkg_prefix _ (z1 ++ z2)); [|exact Hl].
      rewrite app_assoc, <- Hz1, <- Hz2. exact V.
    + intros H. injection H as <- <- <-. split; [exact V|exact Hsr].
Qed.

Theorem parsed_label_inv t cur sr l :
  valid_pkg cur = true -> sr_ok sr -> try_parse t cur sr = Parsed l -> valid_pkg (l_pkg l) = true /\ sr_ok (l_sub l) /\ l_name l <> [].
Proof.
  intros Hcur Hsr. unfold try_parse, parse_parts.
  destruct (parts_fuel (S (length t)) t cur sr) as [[[p n] x]|] eqn:E; [|discriminate].
  destruct n as [|c n]; cbn [is_nil]; [discriminate|]. intros H. injection H as <-.
  destruct (parts_fuel_inv _ _ _ _ _ _ _ Hcur Hsr E) as [Hp Hx]. simpl. repeat split; try assumption; try apply Hx. discriminate.
Qed.

(* ---- round trip of what the parser accepts, outside the three defect classes ----------------------------------------- *)

Lemma defect_none_wf l :
  valid_pkg (l_pkg l) = true -> sr_ok (l_sub l) -> defect_class l = None -> wf l.
Proof.
  intros Hp [Hc Hd]. unfold defect_class.
  destruct (label_eqb l original_target) eqn:O; [discriminate|].
  destruct (valid_name (l_name l)) eqn:V; cbn [negb]; [|discriminate].
  destruct (last_is 47 (l_sub l)) eqn:S; [discriminate|]. intros _.
  repeat split; try assumption. apply label_eqb_neq. exact O.
Qed.

Theorem roundtrip_parsed t cur sr l cur' :
  valid_pkg cur = true -> sr_ok sr -> try_parse t cur sr = Parsed l -> defect_class l = None ->
  try_parse (print l) cur' [] = Parsed l.
Proof.
  intros Hcur Hsr Hparse Hdef. destruct (parsed_label_inv _ _ _ _ Hcur Hsr Hparse) as (Hp & Hx & _).
  apply roundtrip_wf. exact (defect_none_wf l Hp Hx Hdef).
Qed.

(* conversely every well-formed label is outside the classes, so the two statements cover the same labels *)
Lemma wf_defect_none l : wf l -> defect_class l = None.
Proof.
  intros (_ & Hn & (_ & _ & Hl) & Ho). unfold defect_class.
  apply label_eqb_neq in Ho. rewrite Ho, Hn, Hl. reflexivity.
Qed.

(* ---- the three witnesses ------------------------------------------------------------------------------------------------ *)

Definition w_implied : label := L (lit ".a") (lit ".a") [].
Lemma w_implied_parses : try_parse (lit "//.a") [] [] = Parsed w_implied.
Proof. vm_compute. reflexivity. Qed.
Lemma w_implied_fails : try_parse (print w_implied) [] [] <> Parsed w_implied.
Proof. vm_compute. discriminate. Qed.
Lemma w_implied_class : defect_class w_implied = Some ImpliedNameUnvalidated /\ print w_implied = lit "//.a:.a".
Proof. vm_compute. split; reflexivity. Qed.

Definition w_slash : label := L [] (lit "a") (lit "a/").
Lemma w_slash_parses : try_parse (lit "@a/:a") [] [] = Parsed w_slash.
Proof. vm_compute. reflexivity. Qed.
Lemma w_slash_fails : print w_slash = lit "///a///:a" /\ try_parse (print w_slash) [] [] = Parsed (L [] (lit "a") (lit "a"))
                      /\ defect_class w_slash = Some SubrepoTrailingSlash.
Proof. vm_compute. repeat split; reflexivity. Qed.

Lemma w_sentinel_fails :
  try_parse (lit "//:_ORIGINAL") [] [] = Parsed original_target /\ print original_target = lit "command-line targets"
  /\ try_parse (print original_target) [] [] = Invalid /\ defect_class original_target = Some OriginalTargetSentinel.
Proof. vm_compute. repeat split; reflexivity. Qed.
