(* C17 - a BUILD file contains no optimised.Constant (XConst is produced only by optimiseExpressions on a
   subincluded file): every such program is covered by the frame theorem, whatever the classification. *)
From Coq Require Import String Lia.
From PlzV Require Import Base.Harness Gen.AspTables Model.C16_Syntax Model.C16_Ops Model.C16_Prim Model.C16_Eval.
From PlzV Require Import Proof.C17_Inv.
Local Open Scope list_scope.

Definition optb (f : expr -> bool) (o : option expr) : bool := match o with None => true | Some e => f e end.

Fixpoint nc_e (e : expr) : bool :=
  match e with
  | Ex v ops iff => nc_v v && forallb nc_i ops && match iff with None => true | Some (c, e2) => nc_e c && nc_e e2 end
  end
with nc_v (x : vexpr) : bool :=
  match x with
  | XInt _ | XStr _ | XTrue | XFalse | XNone | XIdent _ => true
  | XConst _ => false
  | XList es => forallb nc_e es
  | XComp e _ it cond => nc_e e && nc_e it && match cond with None => true | Some c => nc_e c end
  | XDict kvs => forallb (fun kv => let '(k, v) := kv in nc_e k && nc_e v) kvs
  | XParen e => nc_e e
  | XCall _ args => forallb (fun a => let '(_, e) := a in nc_e e) args
  | XMeth b _ args => nc_v b && forallb nc_e args
  | XIndex b i => nc_v b && nc_e i
  | XSlice b lo hi => nc_v b && match lo with None => true | Some e => nc_e e end && match hi with None => true | Some e => nc_e e end
  end
with nc_i (i : opitem) : bool :=
  match i with OBin _ v => nc_v v | OUn _ => true end.

Fixpoint nc_s (s0 : stmt) : bool :=
  match s0 with
  | SAssign _ e | SAug _ e | SUnpack _ e | SAssert e | SReturn (Some e) => nc_e e
  | SIdxAssign _ i e | SIdxAug _ i e => nc_e i && nc_e e
  | SIf c body elifs els =>
      nc_e c && forallb nc_s body && forallb (fun cb => let '(c1, b1) := cb in nc_e c1 && forallb nc_s b1) elifs && forallb nc_s els
  | SFor _ it body => nc_e it && forallb nc_s body
  | SDef _ args body => forallb (fun na => match snd na with None => true | Some e => nc_e e end) args && forallb nc_s body
  | SReturn None => true
  | SCall _ args => forallb (fun a => let '(_, e) := a in nc_e e) args
  | SPass | SBreak | SContinue => true
  end.
Definition no_const (p : list stmt) : bool := forallb nc_s p.

Section NoConst.
Variables (ca cd : nat -> mode) (pf : nat -> bool) (cs : list value).
Notation sok_e := (sok_e ca cd pf cs).
Notation sok_v := (sok_v ca cd pf cs).
Notation sok_i := (sok_i ca cd pf cs).
Notation sok_s := (sok_s ca cd pf cs).

Lemma nc_sok_e : forall e, nc_e e = true -> sok_e e = true
with nc_sok_v : forall x, nc_v x = true -> sok_v x = true
with nc_sok_i : forall i, nc_i i = true -> sok_i i = true.
Proof.
  - intros [v ops iff] H. cbn [nc_e] in H. apply andb_prop in H. destruct H as [H Hiff]. apply andb_prop in H. destruct H as [Hv Hops].
    rewrite sok_e_Ex. rewrite (nc_sok_v v Hv). cbn [andb].
    assert (Ho : forallb sok_i ops = true).
    { revert ops Hops. fix IH 1. intros [|i r] Hr; [reflexivity|]. cbn [forallb] in *. apply andb_prop in Hr. destruct Hr as [Hi Hr].
      rewrite (nc_sok_i i Hi), (IH r Hr). reflexivity. }
    rewrite Ho. cbn [andb]. destruct iff as [[c e2]|]; [|reflexivity].
    apply andb_prop in Hiff. destruct Hiff as [Hc He]. rewrite (nc_sok_e c Hc), (nc_sok_e e2 He). reflexivity.
  - intros x H. destruct x; try reflexivity; try discriminate H.
    + rewrite sok_v_list. cbn [nc_v] in H. revert es H. fix IH 1. intros [|e r] Hr; [reflexivity|]. cbn [forallb] in *.
      apply andb_prop in Hr. destruct Hr as [He Hr]. rewrite (nc_sok_e e He), (IH r Hr). reflexivity.
    + rewrite sok_v_comp. cbn [nc_v] in H. apply andb_prop in H. destruct H as [H Hc]. apply andb_prop in H. destruct H as [He Hit].
      rewrite (nc_sok_e e He), (nc_sok_e it Hit). destruct cond as [c|]; [rewrite (nc_sok_e c Hc)|]; reflexivity.
    + rewrite sok_v_dict. cbn [nc_v] in H. revert kvs H. fix IH 1. intros [|[k v] r] Hr; [reflexivity|]. cbn [forallb] in *.
      apply andb_prop in Hr. destruct Hr as [Hkv Hr]. apply andb_prop in Hkv. destruct Hkv as [Hk Hv].
      rewrite (nc_sok_e k Hk), (nc_sok_e v Hv), (IH r Hr). reflexivity.
    + rewrite sok_v_paren. cbn [nc_v] in H. apply nc_sok_e. exact H.
    + rewrite sok_v_call. cbn [nc_v] in H. unfold sok_args. revert args H. fix IH 1. intros [|[k e] r] Hr; [reflexivity|]. cbn [forallb] in *.
      apply andb_prop in Hr. destruct Hr as [He Hr]. rewrite (nc_sok_e e He), (IH r Hr). reflexivity.
    + rewrite sok_v_meth. cbn [nc_v] in H. apply andb_prop in H. destruct H as [Hb Ha]. rewrite (nc_sok_v x Hb). cbn [andb].
      revert args Ha. fix IH 1. intros [|e r] Hr; [reflexivity|]. cbn [forallb] in *.
      apply andb_prop in Hr. destruct Hr as [He Hr]. rewrite (nc_sok_e e He), (IH r Hr). reflexivity.
    + rewrite sok_v_index. cbn [nc_v] in H. apply andb_prop in H. destruct H as [Hb Hi]. rewrite (nc_sok_v x Hb), (nc_sok_e i Hi). reflexivity.
    + rewrite sok_v_slice. cbn [nc_v] in H. apply andb_prop in H. destruct H as [H Hhi]. apply andb_prop in H. destruct H as [Hb Hlo].
      rewrite (nc_sok_v x Hb). destruct lo as [l|]; [rewrite (nc_sok_e l Hlo)|]; (destruct hi as [h|]; [rewrite (nc_sok_e h Hhi)|]); reflexivity.
  - intros [o v|u] H; [|reflexivity]. rewrite sok_i_bin. cbn [nc_i] in H. apply nc_sok_v. exact H.
Qed.

Lemma nc_sok_args : forall args, forallb (fun a : option str * expr => let '(_, e) := a in nc_e e) args = true -> sok_args ca cd pf cs args = true.
Proof.
  unfold sok_args. induction args as [|[k e] r IH]; intros H; [reflexivity|]. cbn [forallb] in *.
  apply andb_prop in H. destruct H as [He Hr]. rewrite (nc_sok_e e He), (IH Hr). reflexivity.
Qed.

Lemma nc_sok_s : forall s0, nc_s s0 = true -> sok_s s0 = true.
Proof.
  fix IHs 1. intros s0 H.
  assert (Hblock : forall b, forallb nc_s b = true -> forallb sok_s b = true).
  { fix IHb 1. intros [|x r] Hr; [reflexivity|]. cbn [forallb] in *. apply andb_prop in Hr. destruct Hr as [Hx Hr].
    rewrite (IHs x Hx), (IHb r Hr). reflexivity. }
  destruct s0; cbn [nc_s] in H.
  - cbn [C17_Inv.sok_s]. apply nc_sok_e. exact H.
  - cbn [C17_Inv.sok_s]. apply nc_sok_e. exact H.
  - cbn [C17_Inv.sok_s]. apply andb_prop in H. destruct H as [H1 H2]. rewrite (nc_sok_e _ H1), (nc_sok_e _ H2). reflexivity.
  - cbn [C17_Inv.sok_s]. apply andb_prop in H. destruct H as [H1 H2]. rewrite (nc_sok_e _ H1), (nc_sok_e _ H2). reflexivity.
  - cbn [C17_Inv.sok_s]. apply nc_sok_e. exact H.
  - rewrite sok_s_if. apply andb_prop in H. destruct H as [H Hels]. apply andb_prop in H. destruct H as [H Helifs]. apply andb_prop in H. destruct H as [Hc Hbody].
    unfold sok_p. rewrite (nc_sok_e c Hc), (Hblock body Hbody), (Hblock els Hels). cbn [andb]. rewrite Bool.andb_true_r.
    revert elifs Helifs. fix IHe 1. intros [|[c1 b1] r] Hr; [reflexivity|]. cbn [forallb] in *.
    apply andb_prop in Hr. destruct Hr as [Hcb Hr]. apply andb_prop in Hcb. destruct Hcb as [Hc1 Hb1].
    rewrite (nc_sok_e c1 Hc1), (Hblock b1 Hb1), (IHe r Hr). reflexivity.
  - rewrite sok_s_for. apply andb_prop in H. destruct H as [Hit Hbody]. unfold sok_p. rewrite (nc_sok_e it Hit), (Hblock body Hbody). reflexivity.
  - rewrite sok_s_def. apply andb_prop in H. destruct H as [Hargs Hbody]. unfold sok_p. rewrite (Hblock body Hbody). rewrite Bool.andb_true_r.
    clear Hbody. induction args as [|[a [e|]] r IH]; [reflexivity| |]; cbn [forallb snd] in *.
    + apply andb_prop in Hargs. destruct Hargs as [He Hr]. rewrite (nc_sok_e e He), (IH Hr). reflexivity.
    + apply IH. exact Hargs.
  - destruct e as [e|]; cbn [C17_Inv.sok_s]; [apply nc_sok_e; exact H|reflexivity].
  - cbn [C17_Inv.sok_s]. apply nc_sok_args. exact H.
  - cbn [C17_Inv.sok_s]. apply nc_sok_e. exact H.
  - reflexivity.
  - reflexivity.
  - reflexivity.
Qed.

Theorem no_const_covered : forall p, no_const p = true -> sok_p ca cd pf cs p = true.
Proof.
  unfold no_const, sok_p. induction p as [|x r IH]; intros H; [reflexivity|]. cbn [forallb] in *.
  apply andb_prop in H. destruct H as [Hx Hr]. rewrite (nc_sok_s x Hx), (IH Hr). reflexivity.
Qed.
End NoConst.

(* the frame theorem for BUILD files: no hypothesis on the programs beyond "contains no optimised.Constant" *)
From PlzV Require Import Proof.C17_Main.
Local Open Scope nat_scope.

Theorem build_files_write_nothing_imported : forall defs dead_a dead_d st0 fuel builds outs st',
  frozen_state defs dead_a dead_d st0 ->
  Forall (fun p => no_const p = true) builds ->
  run_builds Asp defs fuel builds st0 = (outs, st') ->
  (forall a, a < length (arrays st0) -> arr_of st' a = arr_of st0 a)
  /\ (forall i, i < length (dicts st0) -> dict_of st' i = dict_of st0 i)
  /\ (exists X, funcs st' = funcs st0 ++ X)
  /\ subcache st' = subcache st0
  /\ frozen_inv_after defs dead_a dead_d st0 st'.
Proof.
  intros defs da dd st0 fuel builds outs st' HI Hb H.
  apply (packages_write_nothing_imported defs da dd st0 fuel builds outs st' HI); [|exact H].
  eapply Forall_impl; [|exact Hb]. intros p Hp. apply no_const_covered. exact Hp.
Qed.
