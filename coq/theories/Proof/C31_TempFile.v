(* C31 - a destination shared between targets (Model/C31_TempFile.v).

   tempfile_unique_inv / tempfile_unique_safe: with temporary names that are unique per call (os.CreateTemp)
   the copy-then-rename protocol of fs.WriteFile needs NO lock: for every number of processes, every
   assignment of targets to them (so: whatever the per-target flocks happen to exclude), every size and every
   schedule, no process fails, the destination is never partial, and once one process has finished the
   destination holds the whole source and that process's temporary name is gone.  By invariant TInv over
   histories.
   now_unique: the policy translated from fs.go (Gen/C34Copy.v write_file_temp) IS the unique one - compiled
   on every run.
   fixed_name_races: with one fixed temporary name and two DIFFERENT targets (different flocks) the schedule
   of the seeded race makes a process fail and deletes the destination; fixed_name_same_target: the same
   schedule with both processes on the SAME target is harmless (the flock keeps the second one out);
   fixed_one_target_safe: with all processes on ONE target even the fixed name is safe, for every number of
   processes, size and schedule (invariant FInv) - mutual exclusion per target is enough within a target and
   not between targets, where the temporary names must not be shared. *)
From Coq Require Import String Lia.
From PlzV Require Import Base.Harness Model.C31_TempFile.
From PlzV Require Gen.C34Copy.

Lemma ent_eqb_refl e : ent_eqb e e = true.
Proof. destruct e; cbn; auto using Nat.eqb_refl. Qed.

Lemma upd_at_same {A} (f : nat -> A) i v : upd_at f i v i = v.
Proof. unfold upd_at. rewrite Nat.eqb_refl. reflexivity. Qed.

Lemma upd_at_other {A} (f : nat -> A) i v j : j <> i -> upd_at f i v j = f j.
Proof. intros H. unfold upd_at. destruct (Nat.eqb_spec j i); [contradiction|reflexivity]. Qed.

Lemma upd_dir_same d e v : upd_dir d e v e = v.
Proof. unfold upd_dir. rewrite ent_eqb_refl. reflexivity. Qed.

Lemma upd_dir_other d e v x : ent_eqb x e = false -> upd_dir d e v x = d x.
Proof. intros H. unfold upd_dir. rewrite H. reflexivity. Qed.

Lemma tmp_neq j i : j <> i -> ent_eqb (ETmp j) (ETmp i) = false.
Proof. intros H. cbn. destruct (Nat.eqb_spec j i); [contradiction|reflexivity]. Qed.

Lemma write_chunk_next k : write_chunk (Some k) k = Some (S k).
Proof. unfold write_chunk. rewrite Nat.ltb_irrefl, Nat.eqb_refl. reflexivity. Qed.

(* ------------------------------------------------------------------------------------------ *)
(* the invariant (unique names) *)

(* process i: its temporary name exists exactly between open and rename, refers to the inode it created, which
   holds exactly what i has written so far; nobody has failed *)
Definition Ipc (sz : nat) (st : tstate) (i : nat) : Prop :=
  match t_pc st i with
  | PStart => t_dir st (ETmp i) = None
  | PWriting x k => x = i /\ t_dir st (ETmp i) = Some i /\ t_data st i = Some k /\ k <= sz
  | PClosed x => x = i /\ t_dir st (ETmp i) = Some i /\ t_data st i = Some sz
  | PDone => t_dir st (ETmp i) = None /\ t_data st i = Some sz
  | PFailed => False
  end.

(* the destination is the inode of a process that has finished *)
Definition Idest (st : tstate) : Prop :=
  (forall x, t_dir st ETo = Some x -> t_pc st x = PDone)
  /\ (forall i, t_pc st i = PDone -> t_dir st ETo <> None).

Definition TInv (sz : nat) (st : tstate) : Prop := (forall i, Ipc sz st i) /\ Idest st.

Lemma Ipc_frame sz st st' j :
  t_pc st' j = t_pc st j -> t_dir st' (ETmp j) = t_dir st (ETmp j) -> t_data st' j = t_data st j ->
  Ipc sz st j -> Ipc sz st' j.
Proof. unfold Ipc. intros -> -> ->. auto. Qed.

(* a step of process i that leaves the destination alone and does not finish *)
Lemma Idest_keep st st' i p :
  t_pc st' = upd_at (t_pc st) i p -> t_dir st' ETo = t_dir st ETo -> t_pc st i <> PDone -> p <> PDone ->
  Idest st -> Idest st'.
Proof.
  intros Hpc Hd Hold Hnew [HB HC]. split.
  - intros y Hy. rewrite Hd in Hy. pose proof (HB y Hy) as Hdone. rewrite Hpc.
    destruct (Nat.eq_dec y i) as [->|Hne]; [contradiction|]. rewrite upd_at_other by exact Hne. exact Hdone.
  - intros j Hj. rewrite Hd. rewrite Hpc in Hj.
    destruct (Nat.eq_dec j i) as [->|Hne]; [rewrite upd_at_same in Hj; contradiction|].
    rewrite upd_at_other in Hj by exact Hne. exact (HC j Hj).
Qed.

Lemma TInv_init sz : TInv sz tinit.
Proof.
  split; [|split].
  - intros i. reflexivity.
  - intros x Hx. discriminate.
  - intros i Hi. discriminate.
Qed.

Lemma TInv_step sz n tg st i st' : TInv sz st -> tstep TUnique sz n tg st i = Some st' -> TInv sz st'.
Proof.
  intros [HA HD] Hst. cbv beta iota zeta delta [tstep tname] in Hst.
  destruct (Nat.ltb i n); [|discriminate].
  pose proof (HA i) as Hi. unfold Ipc in Hi. revert Hi Hst.
  destruct (t_pc st i) as [|x k|x| |] eqn:Epc; intros Hi Hst.
  - (* open: a new name, a new inode *)
    destruct (tblocked n tg st i); [discriminate|]. rewrite Hi in Hst. injection Hst as <-. split.
    + intros j. destruct (Nat.eq_dec j i) as [->|Hne].
      * unfold Ipc. cbn [t_pc t_dir t_data]. rewrite !upd_at_same, upd_dir_same. repeat split; lia.
      * apply (Ipc_frame sz st); cbn [t_pc t_dir t_data].
        -- rewrite upd_at_other by exact Hne. reflexivity.
        -- rewrite upd_dir_other by (apply tmp_neq; exact Hne). reflexivity.
        -- rewrite upd_at_other by exact Hne. reflexivity.
        -- exact (HA j).
    + apply (Idest_keep st _ i (PWriting i 0)); cbn [t_pc t_dir]; [reflexivity|reflexivity| | |exact HD].
      * rewrite Epc. discriminate.
      * discriminate.
  - destruct Hi as (Hx & Hd & Hdat & Hk). subst x. destruct (Nat.ltb_spec k sz) as [Hlt|Hge].
    + (* one more chunk, into its own inode *)
      rewrite Hdat, write_chunk_next in Hst. injection Hst as <-. split.
      * intros j. destruct (Nat.eq_dec j i) as [->|Hne].
        -- unfold Ipc. cbn [t_pc t_dir t_data]. rewrite !upd_at_same. repeat split; [exact Hd|lia].
        -- apply (Ipc_frame sz st); cbn [t_pc t_dir t_data].
           ++ rewrite upd_at_other by exact Hne. reflexivity.
           ++ reflexivity.
           ++ rewrite upd_at_other by exact Hne. reflexivity.
           ++ exact (HA j).
      * apply (Idest_keep st _ i (PWriting i (S k))); cbn [t_pc t_dir]; [reflexivity|reflexivity| | |exact HD].
        -- rewrite Epc. discriminate.
        -- discriminate.
    + (* close, chmod by name: the name is there *)
      rewrite Hd in Hst. injection Hst as <-. assert (Hks : k = sz) by lia. subst k. split.
      * intros j. destruct (Nat.eq_dec j i) as [->|Hne].
        -- unfold Ipc. cbn [t_pc t_dir t_data]. rewrite !upd_at_same. repeat split; [exact Hd|exact Hdat].
        -- apply (Ipc_frame sz st); cbn [t_pc t_dir t_data].
           ++ rewrite upd_at_other by exact Hne. reflexivity.
           ++ reflexivity.
           ++ reflexivity.
           ++ exact (HA j).
      * apply (Idest_keep st _ i (PClosed i)); cbn [t_pc t_dir]; [reflexivity|reflexivity| | |exact HD].
        -- rewrite Epc. discriminate.
        -- discriminate.
  - (* rename onto the destination *)
    destruct Hi as (Hx & Hd & Hdat). subst x. rewrite Hd in Hst. injection Hst as <-. split.
    + intros j. destruct (Nat.eq_dec j i) as [->|Hne].
      * unfold Ipc. cbn [t_pc t_dir t_data]. rewrite !upd_at_same, upd_dir_same. split; [reflexivity|exact Hdat].
      * apply (Ipc_frame sz st); cbn [t_pc t_dir t_data].
        -- rewrite upd_at_other by exact Hne. reflexivity.
        -- rewrite upd_dir_other by (apply tmp_neq; exact Hne). rewrite upd_dir_other by reflexivity. reflexivity.
        -- reflexivity.
        -- exact (HA j).
    + assert (Hto : upd_dir (upd_dir (t_dir st) ETo (Some i)) (ETmp i) None ETo = Some i).
      { rewrite upd_dir_other by reflexivity. apply upd_dir_same. }
      split; cbn [t_pc t_dir].
      * intros y Hy. rewrite Hto in Hy. injection Hy as <-. apply upd_at_same.
      * intros j _. rewrite Hto. discriminate.
  - discriminate.
  - discriminate.
Qed.

Lemma TInv_apply sz n tg st i : TInv sz st -> TInv sz (tapply TUnique sz n tg st i).
Proof.
  intros HI. unfold tapply. destruct (tstep TUnique sz n tg st i) as [st'|] eqn:E; [exact (TInv_step _ _ _ _ _ _ HI E)|exact HI].
Qed.

Theorem tempfile_unique_inv sz n tg sched : forall st, TInv sz st -> TInv sz (trun TUnique sz n tg sched st).
Proof.
  induction sched as [|i sched IH]; intros st HI; [exact HI|]. cbn. apply IH. apply TInv_apply. exact HI.
Qed.

(* what the invariant gives, spelled out *)
Theorem tempfile_unique_holds sz n tg sched :
  let st := trun TUnique sz n tg sched tinit in
  (forall i, t_pc st i <> PFailed)
  /\ (forall x, t_dir st ETo = Some x -> t_data st x = Some sz)
  /\ (forall i, t_pc st i = PDone ->
        t_dir st (ETmp i) = None /\ exists x, t_dir st ETo = Some x /\ t_data st x = Some sz).
Proof.
  intros st. destruct (tempfile_unique_inv sz n tg sched tinit (TInv_init sz)) as [HA [HB HC]]. fold st in HA, HB, HC.
  assert (Hwhole : forall x, t_dir st ETo = Some x -> t_data st x = Some sz).
  { intros x Hx. pose proof (HA x) as Hi. unfold Ipc in Hi. rewrite (HB x Hx) in Hi. exact (proj2 Hi). }
  split; [|split].
  - intros i Hf. pose proof (HA i) as Hi. unfold Ipc in Hi. rewrite Hf in Hi. exact Hi.
  - exact Hwhole.
  - intros i Hd. pose proof (HA i) as Hi. unfold Ipc in Hi. rewrite Hd in Hi. split; [exact (proj1 Hi)|].
    destruct (t_dir st ETo) as [x|] eqn:Ex; [|exfalso; exact (HC i Hd eq_refl)].
    exists x. split; [reflexivity|]. apply Hwhole. reflexivity.
Qed.

Lemma whole_some sz : whole sz (Some sz) = true.
Proof. cbn. apply Nat.eqb_refl. Qed.

Theorem tempfile_unique_safe sz n tg sched : tsafe sz n (trun TUnique sz n tg sched tinit) = true.
Proof.
  destruct (tempfile_unique_holds sz n tg sched) as (Hnf & Hw & Hdone). cbv zeta in Hnf, Hw, Hdone.
  set (st := trun TUnique sz n tg sched tinit) in *. unfold tsafe. rewrite !andb_true_iff. repeat split.
  - unfold nobody_failed. apply forallb_forall. intros i _. pose proof (Hnf i) as H. destruct (t_pc st i); try reflexivity. contradiction.
  - unfold dest_atomic. destruct (t_dir st ETo) as [x|] eqn:Ex; [|reflexivity]. rewrite (Hw x eq_refl). apply whole_some.
  - destruct (existsb (fun i => is_done (t_pc st i)) (seq 0 n)) eqn:Ee; [|reflexivity]. cbn [implb].
    apply existsb_exists in Ee as (i & _ & Hi). assert (Hd : t_pc st i = PDone) by (destruct (t_pc st i); try discriminate; reflexivity).
    destruct (proj2 (Hdone i Hd)) as (x & Hx & Hdat). unfold dest_whole. rewrite Hx, Hdat. apply whole_some.
Qed.

(* ------------------------------------------------------------------------------------------ *)
(* the source *)

Lemma now_unique : tpolicy_now = TUnique.
Proof. reflexivity. Qed.

Corollary tempfile_now_safe sz n tg sched : tsafe sz n (trun tpolicy_now sz n tg sched tinit) = true.
Proof. rewrite now_unique. apply tempfile_unique_safe. Qed.

(* ------------------------------------------------------------------------------------------ *)
(* a fixed temporary name: the per-target lock does not help between targets *)

Lemma fixed_name_races :
  let st := trun TFixed 3 2 (fun i => i) (race_sched 3) tinit in
  tsafe 3 2 st = false /\ t_pc st 0 = PDone /\ t_pc st 1 = PFailed /\ t_dir st ETo = None.
Proof. vm_compute. repeat split; reflexivity. Qed.

(* the same schedule, both processes on the same target: the second waits for the flock, nothing is lost
   (one schedule, a computation - the general statement for one target is C31_critical_section) *)
Lemma fixed_name_same_target :
  let st := trun TFixed 3 2 (fun _ => 0) (race_sched 3 ++ repeat 1 6) tinit in
  tsafe 3 2 st = true /\ all_done 2 st = true /\ dest_whole 3 st = true.
Proof. vm_compute. repeat split; reflexivity. Qed.

(* ------------------------------------------------------------------------------------------ *)
(* ONE target, a fixed temporary name: the flock is enough (fixed_one_target_safe, by invariant FInv: at most one
   process is between open and rename, the fixed name exists only then and refers to that process's inode) *)

Definition Fpc (sz : nat) (st : tstate) (i : nat) : Prop :=
  match t_pc st i with
  | PStart => True
  | PWriting x k => x = i /\ t_dir st EFixed = Some i /\ t_data st i = Some k /\ k <= sz
  | PClosed x => x = i /\ t_dir st EFixed = Some i /\ t_data st i = Some sz
  | PDone => t_data st i = Some sz
  | PFailed => False
  end.

Definition FInv (sz n : nat) (st : tstate) : Prop :=
  (forall i, n <= i -> t_pc st i = PStart)
  /\ (forall i j, holds_lock (t_pc st i) = true -> holds_lock (t_pc st j) = true -> i = j)
  /\ ((forall i, holds_lock (t_pc st i) = false) -> t_dir st EFixed = None)
  /\ (forall i, Fpc sz st i)
  /\ Idest st.

Lemma FInv_init sz n : FInv sz n tinit.
Proof.
  split; [|split; [|split; [|split; [|split]]]].
  - intros i _. reflexivity.
  - intros i j Hi. discriminate.
  - intros _. reflexivity.
  - intros i. exact I.
  - intros x Hx. discriminate.
  - intros i Hi. discriminate.
Qed.

(* process i moves to p', nobody else holds the lock *)
Lemma FInv_update sz n st i p' dir' data' :
  i < n -> FInv sz n st ->
  (forall j, j <> i -> holds_lock (t_pc st j) = false) ->
  (forall j, j <> i -> data' j = t_data st j) ->
  match p' with
  | PStart => False
  | PWriting x k => x = i /\ dir' EFixed = Some i /\ data' i = Some k /\ k <= sz /\ dir' ETo = t_dir st ETo
  | PClosed x => x = i /\ dir' EFixed = Some i /\ data' i = Some sz /\ dir' ETo = t_dir st ETo
  | PDone => dir' EFixed = None /\ data' i = Some sz /\ dir' ETo = Some i
  | PFailed => False
  end ->
  t_pc st i <> PDone ->
  FInv sz n (mkT dir' data' (upd_at (t_pc st) i p')).
Proof.
  intros Hi (H1 & H2 & H3 & H4 & H5) Hoth Hdat Hp Hnd.
  assert (Hpc : forall j, j <> i -> upd_at (t_pc st) i p' j = t_pc st j) by (intros j Hj; apply upd_at_other; exact Hj).
  split; [|split; [|split; [|split]]]; cbn [t_pc t_dir t_data].
  - intros j Hj. rewrite Hpc by lia. apply H1. exact Hj.
  - intros a b Ha Hb.
    destruct (Nat.eq_dec a i) as [->|Hai]; [|rewrite Hpc in Ha by exact Hai; rewrite (Hoth a Hai) in Ha; discriminate].
    destruct (Nat.eq_dec b i) as [->|Hbi]; [reflexivity|rewrite Hpc in Hb by exact Hbi; rewrite (Hoth b Hbi) in Hb; discriminate].
  - intros Hnone. specialize (Hnone i). rewrite upd_at_same in Hnone.
    destruct p'; try contradiction; try discriminate. exact (proj1 Hp).
  - intros j. unfold Fpc. cbn [t_pc t_dir t_data]. destruct (Nat.eq_dec j i) as [->|Hne].
    + rewrite upd_at_same. destruct p'; try contradiction.
      * destruct Hp as (A & B & C & D & _). repeat split; assumption.
      * destruct Hp as (A & B & C & _). repeat split; assumption.
      * exact (proj1 (proj2 Hp)).
    + rewrite Hpc by exact Hne. pose proof (H4 j) as Hj. unfold Fpc in Hj. pose proof (Hoth j Hne) as Hh.
      destruct (t_pc st j); try discriminate; try exact I; try contradiction.
      rewrite (Hdat j Hne). exact Hj.
  - destruct H5 as [HB HC]. split; cbn [t_pc t_dir].
    + intros y Hy. destruct p'; try contradiction.
      * destruct Hp as (_ & _ & _ & _ & E). rewrite E in Hy. pose proof (HB y Hy) as Hd.
        destruct (Nat.eq_dec y i) as [->|Hne]; [contradiction|]. rewrite Hpc by exact Hne. exact Hd.
      * destruct Hp as (_ & _ & _ & E). rewrite E in Hy. pose proof (HB y Hy) as Hd.
        destruct (Nat.eq_dec y i) as [->|Hne]; [contradiction|]. rewrite Hpc by exact Hne. exact Hd.
      * destruct Hp as (_ & _ & E). rewrite E in Hy. injection Hy as <-. apply upd_at_same.
    + intros j Hj. destruct p'; try contradiction.
      * destruct Hp as (_ & _ & _ & _ & E). rewrite E.
        destruct (Nat.eq_dec j i) as [->|Hne]; [rewrite upd_at_same in Hj; discriminate|]. rewrite Hpc in Hj by exact Hne. exact (HC j Hj).
      * destruct Hp as (_ & _ & _ & E). rewrite E.
        destruct (Nat.eq_dec j i) as [->|Hne]; [rewrite upd_at_same in Hj; discriminate|]. rewrite Hpc in Hj by exact Hne. exact (HC j Hj).
      * destruct Hp as (_ & _ & E). rewrite E. discriminate.
Qed.

Lemma existsb_false_in {A} (f : A -> bool) l : existsb f l = false -> forall x, In x l -> f x = false.
Proof.
  induction l as [|a l IH]; intros He x Hin; [destruct Hin|]. cbn in He. apply orb_false_iff in He as [Ha Hl].
  destruct Hin as [<-|Hin]; [exact Ha|exact (IH Hl x Hin)].
Qed.

Lemma tblocked_false n tg st i : tblocked n tg st i = false ->
  forall j, j < n -> j <> i -> tg j = tg i -> holds_lock (t_pc st j) = false.
Proof.
  intros Hb j Hj Hne Htg. unfold tblocked in Hb.
  assert (Hin : In j (seq 0 n)) by (apply in_seq; lia).
  pose proof (existsb_false_in _ _ Hb j Hin) as Hf. cbn beta in Hf.
  destruct (Nat.eqb_spec j i) as [->|_]; [contradiction|]. rewrite Htg, Nat.eqb_refl in Hf. cbn [negb andb] in Hf. exact Hf.
Qed.

Lemma FInv_step sz n tg st i st' : (forall a b, tg a = tg b) ->
  FInv sz n st -> tstep TFixed sz n tg st i = Some st' -> FInv sz n st'.
Proof.
  intros Htg HI Hst. pose proof HI as (H1 & H2 & H3 & H4 & H5).
  cbv beta iota zeta delta [tstep tname] in Hst.
  destruct (Nat.ltb_spec i n) as [Hi|]; [|discriminate].
  pose proof (H4 i) as Hpi. unfold Fpc in Hpi. revert Hpi Hst.
  destruct (t_pc st i) as [|x k|x| |] eqn:Epc; intros Hpi Hst.
  - destruct (tblocked n tg st i) eqn:Eb; [discriminate|].
    assert (Hoth : forall j, j <> i -> holds_lock (t_pc st j) = false).
    { intros j Hne. destruct (Nat.lt_ge_cases j n) as [Hj|Hj].
      - exact (tblocked_false n tg st i Eb j Hj Hne (Htg j i)).
      - rewrite (H1 j Hj). reflexivity. }
    assert (Hfree : t_dir st EFixed = None).
    { apply H3. intros j. destruct (Nat.eq_dec j i) as [->|Hne]; [rewrite Epc; reflexivity|exact (Hoth j Hne)]. }
    rewrite Hfree in Hst. injection Hst as <-.
    apply (FInv_update sz n st i (PWriting i 0)); try assumption.
    + intros j Hne. apply upd_at_other. exact Hne.
    + split; [reflexivity|]. split; [apply upd_dir_same|]. split; [apply upd_at_same|]. split; [lia|]. apply upd_dir_other; reflexivity.
    + rewrite Epc. discriminate.
  - destruct Hpi as (Hx & Hd & Hdat & Hk). subst x.
    assert (Hoth : forall j, j <> i -> holds_lock (t_pc st j) = false).
    { intros j Hne. destruct (holds_lock (t_pc st j)) eqn:Eh; [|reflexivity]. exfalso. apply Hne. apply H2; [exact Eh|rewrite Epc; reflexivity]. }
    destruct (Nat.ltb_spec k sz) as [Hlt|Hge].
    + rewrite Hdat, write_chunk_next in Hst. injection Hst as <-.
      apply (FInv_update sz n st i (PWriting i (S k))); try assumption.
      * intros j Hne. apply upd_at_other. exact Hne.
      * split; [reflexivity|]. split; [exact Hd|]. split; [apply upd_at_same|]. split; [lia|reflexivity].
      * rewrite Epc. discriminate.
    + rewrite Hd in Hst. injection Hst as <-. assert (Hks : k = sz) by lia. subst k.
      apply (FInv_update sz n st i (PClosed i)); try assumption.
      * intros j Hne. reflexivity.
      * split; [reflexivity|]. split; [exact Hd|]. split; [exact Hdat|reflexivity].
      * rewrite Epc. discriminate.
  - destruct Hpi as (Hx & Hd & Hdat). subst x.
    assert (Hoth : forall j, j <> i -> holds_lock (t_pc st j) = false).
    { intros j Hne. destruct (holds_lock (t_pc st j)) eqn:Eh; [|reflexivity]. exfalso. apply Hne. apply H2; [exact Eh|rewrite Epc; reflexivity]. }
    rewrite Hd in Hst. injection Hst as <-.
    apply (FInv_update sz n st i PDone); try assumption.
    + intros j Hne. reflexivity.
    + split; [apply upd_dir_same|]. split; [exact Hdat|]. rewrite upd_dir_other by reflexivity. apply upd_dir_same.
    + rewrite Epc. discriminate.
  - discriminate.
  - discriminate.
Qed.

Theorem fixed_one_target_inv sz n tg sched : (forall a b, tg a = tg b) ->
  forall st, FInv sz n st -> FInv sz n (trun TFixed sz n tg sched st).
Proof.
  intros Htg. induction sched as [|i sched IH]; intros st HI; [exact HI|]. cbn. apply IH. unfold tapply.
  destruct (tstep TFixed sz n tg st i) as [st'|] eqn:E; [exact (FInv_step _ _ _ _ _ _ Htg HI E)|exact HI].
Qed.

(* all processes on ONE target: whatever the temporary file is called, no process fails and the destination is
   never partial, for every number of processes, size and schedule *)
Theorem fixed_one_target_safe sz n tg sched : (forall a b, tg a = tg b) ->
  let st := trun TFixed sz n tg sched tinit in
  (forall i, t_pc st i <> PFailed)
  /\ (forall x, t_dir st ETo = Some x -> t_data st x = Some sz)
  /\ (forall i, t_pc st i = PDone -> exists x, t_dir st ETo = Some x /\ t_data st x = Some sz).
Proof.
  intros Htg st. destruct (fixed_one_target_inv sz n tg sched Htg tinit (FInv_init sz n)) as (_ & _ & _ & H4 & HB & HC).
  fold st in H4, HB, HC.
  assert (Hwhole : forall x, t_dir st ETo = Some x -> t_data st x = Some sz).
  { intros x Hx. pose proof (H4 x) as Hi. unfold Fpc in Hi. rewrite (HB x Hx) in Hi. exact Hi. }
  split; [|split].
  - intros i Hf. pose proof (H4 i) as Hi. unfold Fpc in Hi. rewrite Hf in Hi. exact Hi.
  - exact Hwhole.
  - intros i Hd. destruct (t_dir st ETo) as [x|] eqn:Ex; [|exfalso; exact (HC i Hd eq_refl)].
    exists x. split; [reflexivity|]. apply Hwhole. reflexivity.
Qed.

(* non-vacuity: under the policy of the source the racing schedule does run both copies to the end, the
   second one over the first one's result, and in between both were writing at the same time *)
Lemma ex_tempfile_nonvacuous :
  let mid := trun tpolicy_now 3 2 (fun i => i) [0; 1; 0; 1] tinit in
  let fin := trun tpolicy_now 3 2 (fun i => i) (race_sched 3 ++ [1]) tinit in
  t_pc mid 0 = PWriting 0 1 /\ t_pc mid 1 = PWriting 1 1
  /\ all_done 2 fin = true /\ t_dir fin ETo = Some 1 /\ t_data fin 1 = Some 3 /\ t_dir fin (ETmp 0) = None
  /\ model_safe_now 2 = true /\ shared_check 3 3 false = true /\ shared_check 3 3 true = false.
Proof. vm_compute. repeat split; reflexivity. Qed.
