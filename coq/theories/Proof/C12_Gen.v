(* C12 - the model's Store follows the statement order of dirCache.Store as regenerated from the
   source by gotrans (Gen/C12Store.v): remove the final entry, build into the temporary entry,
   rename temporary -> final; the temporary entry is the final name plus tmp_suffix; and the
   model's treatment of a not-exist error in the compressed retrieve is the source's. *)
From Coq Require Import String.
From PlzV Require Import Base.Harness Model.C12 Proof.C12 Proof.C12_Dirty Gen.C12Store.

Definition loc (x : string) : path :=
  if String.eqb x "final" then [kK] else [app (s "K") (s tmp_suffix)].

Lemma loc_final : loc "final" = [kK].
Proof. reflexivity. Qed.

Lemma loc_tmp : loc "tmp" = [kT].
Proof. reflexivity. Qed.

Definition phase_steps (c : bool) (order : list path) (outs : list str) (src : tree) (ph : phase) (st : fs) : list step :=
  match ph with
  | PRemoveAll p => rm_steps order (loc p) st
  | PStoreInto p => if path_eqb (loc p) [kT] then build_steps c order st outs src else []
  | PRename a b => [SRename (loc a) (loc b)]
  end.

Fixpoint interp (c : bool) (order : list path) (outs : list str) (src : tree) (phs : list phase) (st : fs) : list step :=
  match phs with
  | [] => []
  | ph :: r => let l := phase_steps c order outs src ph st in l ++ interp c order outs src r (run l st)
  end.

Lemma store_follows_source c order st outs src :
  store_steps c order st outs src = interp c order outs src store_phases st.
Proof.
  unfold store_phases. cbn [interp phase_steps]. rewrite loc_final, loc_tmp.
  change (path_eqb [kT] [kT]) with true. cbv iota. rewrite app_nil_r.
  destruct c; cbn [store_steps build_steps]; unfold store_comp, store_plain.
  - rewrite <- !app_assoc. reflexivity.
  - reflexivity.
Qed.

Lemma compressed_notexist_follows_source st1 st2 o outs :
  lookup [kK] st1 <> None -> lookup [kK] st2 = None ->
  retrieve2 true st1 st2 (o :: outs)
  = if compressed_found_with_error && notexist_error_keeps_found then Hit [] else Miss.
Proof.
  intros H1 H2. unfold retrieve2. destruct (lookup [kK] st1); [|congruence]. rewrite H2. reflexivity.
Qed.

(* ---- the error branches (read faults, Model.C12 store_comp_g / outs_steps_f) ---- *)

(* does the error branch of storeCompressed remove the temporary tarball before it returns? *)
Fixpoint removes_tmp (b : list errstmt) : bool :=
  match b with
  | [] => false
  | ERemoveAll p :: r => path_eqb (loc p) [kT] || removes_tmp r
  | EReturn :: _ => false
  | EWarn :: r => removes_tmp r
  end.

Definition returns (b : list errstmt) : bool :=
  existsb (fun e => match e with EReturn => true | _ => false end) b.

(* the model's faulted compressed store does with the temporary tarball what the source's error
   branch does (seeded mutation m3 drops the removal: this lemma then fails) *)
Lemma comp_fault_follows_source order st outs src f :
  store_steps_f true order st outs src f
  = store_comp_g (removes_tmp compressed_error_branch) order st outs src f.
Proof. reflexivity. Qed.

(* storeFile does not return (nor remove anything) when RecursiveLink fails: the loop over the
   outputs goes on and Store renames - which is what outs_steps_f / store_plain_f do *)
Lemma plain_fault_follows_source :
  returns plain_link_error_branch = false /\ removes_tmp plain_link_error_branch = false.
Proof. split; reflexivity. Qed.

(* ---- the retrieve side: ensureRetrieveReady as gotrans reads it (Gen.C12Store.retrieve_ready) ---- *)

Definition conv (o : C12Store.rop) : PlzV.Model.C12.rop :=
  match o with OMkdirAllParent => OMkdirParent | ORemoveAllFull => ORemoveAll end.

(* the operations one simple statement runs, and whether the function returns after it (an operation
   that fails makes every recognised statement return the error, so only the all-succeed trace matters) *)
Definition simple_ops (x : rsimple) : list C12Store.rop * bool :=
  match x with
  | RTry o => ([o], false)
  | RReturnOp o => ([o], true)
  | RReturnOk => ([], true)
  end.

Fixpoint simples_trace (l : list rsimple) : list C12Store.rop * bool :=
  match l with
  | [] => ([], false)
  | x :: r =>
      let (o, ret) := simple_ops x in
      if ret then (o, true) else let (o2, ret2) := simples_trace r in ((o ++ o2)%list, ret2)
  end.

(* the operations ensureRetrieveReady performs on a path that contains a '/' (nest = true) or not *)
Fixpoint ready_trace (nest : bool) (l : list rstmt) : list C12Store.rop :=
  match l with
  | [] => []
  | RS x :: r => let (o, ret) := simple_ops x in if ret then o else (o ++ ready_trace nest r)%list
  | RIfNested body :: r =>
      if nest then let (o, ret) := simples_trace body in if ret then o else (o ++ ready_trace nest r)%list
      else ready_trace nest r
  end.

Definition gen_opsN : list PlzV.Model.C12.rop := map conv (ready_trace true retrieve_ready).
Definition gen_opsT : list PlzV.Model.C12.rop := map conv (ready_trace false retrieve_ready).

(* the model's ensureRetrieveReady (Model.C12 src_opsN / src_opsT, used by `check`) is the source's:
   MkdirAll of the parent for a nested path, and ALWAYS the RemoveAll of the destination (seeded
   mutation r2-m2 returns before the removal for nested paths: this lemma then fails); the model's
   write without truncation is the source's open flags *)
Lemma ready_follows_source :
  gen_opsN = src_opsN /\ gen_opsT = src_opsT /\ compressed_write_truncates = src_trunc.
Proof. repeat split; reflexivity. Qed.

(* the uncompressed loop: a missing entry for an output is `found = plain_found_with_error` together
   with a not-exist error, which retrieve() lets through (seeded mutation r2-m3 makes it true: a hit) *)
Lemma plain_notexist_follows_source st o r out :
  lookup [kK; o] st = None ->
  retr_plain st (o :: r) out
  = if plain_found_with_error && notexist_error_keeps_found then Hit (drop_sub [o] out) else Miss.
Proof. intros H. cbn [retr_plain]. rewrite H. reflexivity. Qed.

Lemma plain_into_notexist_follows_source st p r out :
  lookup (kK :: p) st = None ->
  retr_into_plain gen_opsN gen_opsT st (p :: r) out
  = if plain_found_with_error && notexist_error_keeps_found then Some (ready (pick p gen_opsN gen_opsT) p out) else None.
Proof. intros H. cbn [retr_into_plain]. rewrite H. reflexivity. Qed.

(* the dirty-retrieve theorem, about the source's ensureRetrieveReady and open flags *)
Lemma dirty_holds_gen c st outs T out0 :
  outs <> [] -> indepb outs = true -> trees_okb T outs = true -> entry_holds c st outs T ->
  exists r, retrieve_into c compressed_write_truncates gen_opsN gen_opsT st outs out0 = Some r
    /\ (forall p, In p outs -> sub p r = sub p T)
    /\ (forall q, Forall (fun p => incomp p q) outs -> sub q r = sub q out0).
Proof.
  destruct ready_follows_source as [-> [-> _]]. apply dirty_holds.
Qed.

Lemma dirty_roundtrip_gen c order st outs src out0 :
  inputs_ok c st outs src -> trees_okb src (tops outs) = true ->
  exists r, retrieve_into c compressed_write_truncates gen_opsN gen_opsT (run (store_steps c order st outs src) st) (tops outs) out0 = Some r
    /\ (forall o, In o outs -> sub [o] r = sub [o] src)
    /\ (forall q, Forall (fun o => incomp [o] q) outs -> sub q r = sub q out0).
Proof.
  destruct ready_follows_source as [-> [-> _]]. apply dirty_roundtrip.
Qed.
