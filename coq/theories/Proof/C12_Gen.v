(* C12 - the model's Store follows the statement order of dirCache.Store as regenerated from the
   source by gotrans (Gen/C12Store.v): remove the final entry, build into the temporary entry,
   rename temporary -> final; the temporary entry is the final name plus tmp_suffix; and the
   model's treatment of a not-exist error in the compressed retrieve is the source's. *)
From Coq Require Import String.
From PlzV Require Import Base.Harness Model.C12 Proof.C12 Gen.C12Store.

Definition loc (x : string) : path :=
  if String.eqb x "final" then [kK] else [app (s "K") (s tmp_suffix)].

Lemma loc_final : loc "final" = [kK].
Proof. reflexivity. Qed.

Lemma loc_tmp : loc "tmp" = [kT].
Proof. reflexivity. Qed.

Definition phase_steps (c : bool) (order : list path) (outs : list str) (src : tree) (ph : phase) (st : fs) : list step :=
  match ph with
  | PRemoveAll p => rm_steps order (loc p) st
  | PStoreInto p => if path_eqb (loc p) [kT] then build_steps c order st outs src else []
  | PRename a b => [SRename (loc a) (loc b)]
  end.

Fixpoint interp (c : bool) (order : list path) (outs : list str) (src : tree) (phs : list phase) (st : fs) : list step :=
  match phs with
  | [] => []
  | ph :: r => let l := phase_steps c order outs src ph st in l ++ interp c order outs src r (run l st)
  end.

Lemma store_follows_source c order st outs src :
  store_steps c order st outs src = interp c order outs src store_phases st.
Proof.
  unfold store_phases. cbn [interp phase_steps]. rewrite loc_final, loc_tmp.
  change (path_eqb [kT] [kT]) with true. cbv iota. rewrite app_nil_r.
  destruct c; cbn [store_steps build_steps]; unfold store_comp, store_plain.
  - rewrite <- !app_assoc. reflexivity.
  - reflexivity.
Qed.

Lemma compressed_notexist_follows_source st1 st2 o outs :
  lookup [kK] st1 <> None -> lookup [kK] st2 = None ->
  retrieve2 true st1 st2 (o :: outs)
  = if compressed_found_with_error && notexist_error_keeps_found then Hit [] else Miss.
Proof.
  intros H1 H2. unfold retrieve2. destruct (lookup [kK] st1); [|congruence]. rewrite H2. reflexivity.
Qed.

(* ---- the error branches (read faults, Model.C12 store_comp_g / outs_steps_f) ---- *)

(* does the error branch of storeCompressed remove the temporary tarball before it returns? *)
Fixpoint removes_tmp (b : list errstmt) : bool :=
  match b with
  | [] => false
  | ERemoveAll p :: r => path_eqb (loc p) [kT] || removes_tmp r
  | EReturn :: _ => false
  | EWarn :: r => removes_tmp r
  end.

Definition returns (b : list errstmt) : bool :=
  existsb (fun e => match e with EReturn => true | _ => false end) b.

(* the model's faulted compressed store does with the temporary tarball what the source's error
   branch does (seeded mutation m3 drops the removal: this lemma then fails) *)
Lemma comp_fault_follows_source order st outs src f :
  store_steps_f true order st outs src f
  = store_comp_g (removes_tmp compressed_error_branch) order st outs src f.
Proof. reflexivity. Qed.

(* storeFile does not return (nor remove anything) when RecursiveLink fails: the loop over the
   outputs goes on and Store renames - which is what outs_steps_f / store_plain_f do *)
Lemma plain_fault_follows_source :
  returns plain_link_error_branch = false /\ removes_tmp plain_link_error_branch = false.
Proof. split; reflexivity. Qed.
