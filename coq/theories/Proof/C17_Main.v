(* C17 - the whole-program theorems: a package program, and any sequence of packages, evaluated by the modelled
   interpreter (asp dialect of Model/C16_Eval.v) in a state that satisfies the invariant of Proof/C17_Inv.v,
   writes no protected and no dead array / dict; the frozen states; what the model's Freeze guarantees. *)
From Coq Require Import String Lia.
From PlzV Require Import Base.Harness Gen.AspTables Model.C16_Syntax Model.C16_Ops Model.C16_Prim Model.C16_Eval.
From PlzV Require Import Base.StrFacts Proof.C17_Inv Proof.C17_Ops Proof.C17_Frame3.
Local Open Scope list_scope.
Local Open Scope nat_scope.

Lemma nth_app_P : forall {A} (P : A -> Prop) (l : list A) x a d, P (nth a l d) -> P x -> P d -> P (nth a (l ++ [x]) d).
Proof. intros A P l x a d H1 H2 H3. destruct (nth_app_cases l x a d) as [[_ ->]|[[_ ->]|[_ ->]]]; auto. Qed.

Lemma nth_app_default : forall {A} (l : list A) a d, nth a (l ++ [d]) d = nth a l d.
Proof.
  intros A l a d. destruct (nth_app_cases l d a d) as [[_ ->]|[[Hlen ->]|[Hlen ->]]]; auto; symmetry; apply nth_overflow; lia.
Qed.

Section Main.
Variables (ca cd : nat -> mode) (pf ls : nat -> bool) (cs : list value) (defs : list (str * prog)).
Notation vok := (C17_Inv.vok ca cd pf).
Notation env_ok := (C17_Inv.env_ok ca cd pf).
Notation Inv := (C17_Inv.Inv ca cd pf ls cs defs).
Notation frame := (C17_Inv.frame ca cd ls).
Notation sok_p := (C17_Inv.sok_p ca cd pf cs).
Notation sok_s := (C17_Inv.sok_s ca cd pf cs).

(* ---- one block, one statement ---- *)
Theorem frame_block : forall fuel p st r st', Inv st -> sok_p p = true ->
  exec_block Asp defs fuel p st = Ok (r, st') -> Inv st' /\ frame st st'.
Proof.
  intros fuel p st r st' HI Hp H. pose proof (sp_B _ _ _ _ _ _ _ (all_specs ca cd pf ls cs defs fuel) p st Hp HI) as Hs.
  rewrite H in Hs. cbn in Hs. destruct Hs as (I1 & F1 & _). auto.
Qed.

Theorem frame_stmt : forall fuel s0 st r st', Inv st -> sok_s s0 = true ->
  exec_stmt Asp defs fuel s0 st = Ok (r, st') -> Inv st' /\ frame st st'.
Proof.
  intros fuel s0 st r st' HI Hp H. pose proof (sp_S _ _ _ _ _ _ _ (all_specs ca cd pf ls cs defs fuel) s0 st Hp HI) as Hs.
  rewrite H in Hs. cbn in Hs. destruct Hs as (I1 & F1 & _). auto.
Qed.

(* ---- the statements of one BUILD file (what a failing statement did before it failed stays done) ---- *)
Theorem frame_top : forall fuel p st e oof st', Inv st -> sok_p p = true ->
  exec_top Asp defs fuel p st = (e, oof, st') -> Inv st' /\ frame st st'.
Proof.
  intros fuel. induction p as [|s0 r IH]; intros st e oof st' HI Hp H; cbn [exec_top] in H.
  - injection H as _ _ <-. split; [auto|apply frame_refl].
  - unfold C17_Inv.sok_p in Hp. cbn [forallb] in Hp. apply andb_prop in Hp. destruct Hp as [H0 Hr].
    destruct (exec_stmt Asp defs fuel s0 st) as [[r0 st1]|k|] eqn:E.
    + destruct (frame_stmt _ _ _ _ _ HI H0 E) as [I1 F1]. destruct r0.
      * destruct (IH _ _ _ _ I1 Hr H) as [I2 F2]. split; [auto|eapply frame_trans; eauto].
      * injection H as _ _ <-. auto.
      * injection H as _ _ <-. auto.
      * injection H as _ _ <-. auto.
    + injection H as _ _ <-. split; [auto|apply frame_refl].
    + injection H as _ _ <-. split; [auto|apply frame_refl].
Qed.

(* ---- a new file scope for the next package ---- *)
Lemma new_scope_good : forall st, Inv st -> ls (length (fscopes st)) = true ->
  let st1 := set_locals [] (set_cur (length (fscopes st)) (set_fscopes (fscopes st ++ [[]]) st)) in
  Inv st1 /\ frame st st1.
Proof.
  intros st HI Hl. cbv zeta. split.
  - destruct HI. constructor; cbn [arrays dicts funcs fscopes cur locals consts subcache set_cur set_locals set_fscopes]; auto.
    intros j Hj. apply (nth_app_P env_ok); auto; constructor.
  - constructor; cbn [arrays dicts funcs fscopes cur locals consts subcache set_cur set_locals set_fscopes]; auto.
    + intros j Hj. apply nth_app_default.
    + rewrite app_length. lia.
    + exists []. now rewrite app_nil_r.
Qed.

(* ---- any sequence of packages on one interpreter ---- *)
Theorem frame_builds : forall fuel builds st outs st', Inv st ->
  (forall j, length (fscopes st) <= j -> ls j = true) ->
  Forall (fun p => sok_p p = true) builds ->
  run_builds Asp defs fuel builds st = (outs, st') -> Inv st' /\ frame st st'.
Proof.
  intros fuel. induction builds as [|p r IH]; intros st outs st' HI Hlive Hb H; cbn [run_builds] in H.
  - injection H as _ <-. split; [auto|apply frame_refl].
  - inversion Hb as [|? ? Hp Hr]; subst.
    destruct (new_scope_good st HI (Hlive _ (Nat.le_refl _))) as [I1 F1].
    destruct (exec_top Asp defs fuel p _) as [[e oof] st2] eqn:E.
    destruct (frame_top _ _ _ _ _ _ I1 Hp E) as [I2 F2].
    assert (F02 : frame st st2) by (eapply frame_trans; eauto).
    assert (Hlive2 : forall j, length (fscopes st2) <= j -> ls j = true).
    { intros j Hj. apply Hlive. pose proof (f_fslen _ _ _ _ _ F02). lia. }
    assert (I2' : Inv (set_locals [] st2)) by (apply set_locals_inv; auto).
    assert (F2' : frame st (set_locals [] st2)) by (eapply frame_trans; [exact F02|apply set_locals_frame]).
    assert (Hgen : forall stx, (stx = st2 \/ stx = set_locals [] st2) -> forall o r0, run_builds Asp defs fuel r stx = (o, r0) -> Inv r0 /\ frame st r0).
    { intros stx [-> | ->] o r0 Hrun.
      - destruct (IH _ _ _ I2 Hlive2 Hr Hrun) as [I3 F3]. split; [exact I3|exact (frame_trans ca cd ls _ _ _ F02 F3)].
      - destruct (IH _ _ _ I2' Hlive2 Hr Hrun) as [I3 F3]. split; [exact I3|exact (frame_trans ca cd ls _ _ _ F2' F3)]. }
    destruct e as [k|]; [|destruct oof].
    + destruct k; destruct (run_builds Asp defs fuel r (set_locals [] st2)) as [rest st3] eqn:Er; injection H as _ <-;
        (eapply Hgen; [right; reflexivity|exact Er]).
    + destruct (run_builds Asp defs fuel r (set_locals [] st2)) as [rest st3] eqn:Er; injection H as _ <-.
      eapply Hgen; [right; reflexivity|exact Er].
    + destruct (run_builds Asp defs fuel r st2) as [rest st3] eqn:Er; injection H as _ <-.
      eapply Hgen; [left; reflexivity|exact Er].
Qed.

End Main.

(* ================================================================ frozen states *)
(* Everything that exists when the packages start (the heap the subincludes left behind) is protected, except the
   listed garbage objects (e.g. the unfrozen original of a dict pyDict.Freeze copied), which are dead.  Objects
   allocated later are free. *)
Definition cls_prefix (n : nat) (dead : list nat) : nat -> mode :=
  fun a => if existsb (Nat.eqb a) dead then Dead else if a <? n then Prot else Free.

Definition frozen_state (defs : list (str * prog)) (dead_a dead_d : list nat) (st : state) : Prop :=
  Inv (cls_prefix (length (arrays st)) dead_a) (cls_prefix (length (dicts st)) dead_d) (fun _ => false) (fun _ => true) (consts st) defs st.

(* the invariant, with the classification of st0, on a later state *)
Definition frozen_inv_after (defs : list (str * prog)) (dead_a dead_d : list nat) (st0 st' : state) : Prop :=
  Inv (cls_prefix (length (arrays st0)) dead_a) (cls_prefix (length (dicts st0)) dead_d) (fun _ => false) (fun _ => true) (consts st0) defs st'.

Definition pkg_ok (dead_a dead_d : list nat) (st : state) (p : prog) : Prop :=
  sok_p (cls_prefix (length (arrays st)) dead_a) (cls_prefix (length (dicts st)) dead_d) (fun _ => false) (consts st) p = true.

Lemma cls_prefix_not_free : forall n dead a, a < n -> cls_prefix n dead a <> Free.
Proof.
  intros n dead a H. unfold cls_prefix. destruct (existsb _ _); [discriminate|].
  destruct (a <? n) eqn:E; [discriminate|]. apply Nat.ltb_ge in E. lia.
Qed.

(* THE FRAME THEOREM for packages: whatever BUILD files are interpreted, in whatever number, on an interpreter whose
   state is frozen, no array and no dict that existed before is changed; the state stays frozen in the same sense. *)
Theorem packages_write_nothing_imported : forall defs dead_a dead_d st0 fuel builds outs st',
  frozen_state defs dead_a dead_d st0 ->
  Forall (pkg_ok dead_a dead_d st0) builds ->
  run_builds Asp defs fuel builds st0 = (outs, st') ->
  (forall a, a < length (arrays st0) -> arr_of st' a = arr_of st0 a)
  /\ (forall i, i < length (dicts st0) -> dict_of st' i = dict_of st0 i)
  /\ (exists X, funcs st' = funcs st0 ++ X)
  /\ subcache st' = subcache st0
  /\ frozen_inv_after defs dead_a dead_d st0 st'.
Proof.
  intros defs dead_a dead_d st0 fuel builds outs st' HI Hb H. unfold frozen_inv_after.
  destruct (frame_builds _ _ _ _ _ _ fuel builds st0 outs st' HI (fun _ _ => eq_refl) Hb H) as [I1 F1].
  split; [|split; [|split; [|split]]]; auto.
  - intros a Ha. apply (f_arr _ _ _ _ _ F1). apply cls_prefix_not_free. exact Ha.
  - intros i Hi. apply (f_dict _ _ _ _ _ F1). apply cls_prefix_not_free. exact Hi.
  - apply (f_fn _ _ _ _ _ F1).
  - apply (f_sub _ _ _ _ _ F1).
Qed.

(* ---- what a package sees of an imported value is what it sees when parsed alone ---- *)
Fixpoint closedb (fuel : nat) (st : state) (na nd nf : nat) (v : value) : bool :=
  match fuel with
  | O => true
  | S f =>
      match v with
      | VList sl | VFrozenList sl => (s_arr sl <? na) && forallb (closedb f st na nd nf) (list_items Asp st sl)
      | VDict i | VFrozenDict i => (i <? nd) && forallb (fun kv => closedb f st na nd nf (snd kv)) (dict_of st i)
      | VFunc i => i <? nf
      | _ => true
      end
  end.

Lemma render_same : forall na nd nf st st',
  (forall a, a < na -> arr_of st' a = arr_of st a) ->
  (forall i, i < nd -> dict_of st' i = dict_of st i) ->
  (forall i, i < nf -> nth i (funcs st') (Func [] [] [] 0) = nth i (funcs st) (Func [] [] [] 0)) ->
  forall fuel v, closedb fuel st na nd nf v = true -> render Asp fuel st' v = render Asp fuel st v.
Proof.
  intros na nd nf st st' Ha Hd Hf. induction fuel as [|f IH]; intros v Hc; [reflexivity|].
  assert (Hl : forall sl, (s_arr sl <? na) && forallb (closedb f st na nd nf) (list_items Asp st sl) = true ->
            map (render Asp f st') (list_items Asp st' sl) = map (render Asp f st) (list_items Asp st sl)).
  { intros sl Hs. apply andb_prop in Hs. destruct Hs as [Hs1 Hs2]. apply Nat.ltb_lt in Hs1.
    unfold list_items at 1. rewrite (Ha _ Hs1). fold (list_items Asp st sl).
    apply map_ext_in. intros x Hx. apply IH. rewrite forallb_forall in Hs2. auto. }
  assert (Hdd : forall i, (i <? nd) && forallb (fun kv => closedb f st na nd nf (snd kv)) (dict_of st i) = true ->
            map (fun kv => (fst kv, render Asp f st' (snd kv))) (sort_kvs (dict_of st' i)) =
            map (fun kv => (fst kv, render Asp f st (snd kv))) (sort_kvs (dict_of st i))).
  { intros i Hs. apply andb_prop in Hs. destruct Hs as [Hs1 Hs2]. apply Nat.ltb_lt in Hs1. rewrite (Hd _ Hs1).
    assert (Hsort : forall l, (forall kv, List.In kv (sort_kvs l) -> List.In kv l)).
    { assert (Hins : forall kv l x, List.In x (insert_kv kv l) -> x = kv \/ List.In x l).
      { intros kv. induction l as [|y r IHl]; intros x Hx; cbn in Hx.
        - destruct Hx as [<-|[]]. auto.
        - destruct (str_leb (fst kv) (fst y)); cbn in Hx.
          + destruct Hx as [<-|Hx]; auto.
          + destruct Hx as [<-|Hx]; [right; left; reflexivity|]. destruct (IHl _ Hx); auto. right. right. auto. }
      induction l as [|y r IHl]; intros kv Hkv; cbn in Hkv; [contradiction|].
      destruct (Hins _ _ _ Hkv) as [->|H']; [left; reflexivity|right; auto]. }
    apply map_ext_in. intros kv Hkv. f_equal. apply IH. rewrite forallb_forall in Hs2. apply (Hs2 kv). apply Hsort. exact Hkv. }
  destruct v; cbn [render closedb] in *; try reflexivity.
  - f_equal. apply Hl. exact Hc.
  - f_equal. apply Hl. exact Hc.
  - f_equal. apply Hdd. exact Hc.
  - f_equal. apply Hdd. exact Hc.
  - f_equal. f_equal. apply Hf. apply Nat.ltb_lt. exact Hc.
Qed.

(* every value that is closed in the frozen state (refers to nothing allocated later - true of everything a
   subinclude exported) renders the same after ANY packages were interpreted as before *)
Theorem imported_values_unchanged : forall defs dead_a dead_d st0 fuel builds outs st' rfuel v,
  frozen_state defs dead_a dead_d st0 ->
  Forall (pkg_ok dead_a dead_d st0) builds ->
  run_builds Asp defs fuel builds st0 = (outs, st') ->
  closedb rfuel st0 (length (arrays st0)) (length (dicts st0)) (length (funcs st0)) v = true ->
  render Asp rfuel st' v = render Asp rfuel st0 v.
Proof.
  intros defs dead_a dead_d st0 fuel builds outs st' rfuel v HI Hb H Hc.
  destruct (packages_write_nothing_imported _ _ _ _ _ _ _ _ HI Hb H) as (Ha & Hd & [X Hf] & _).
  eapply render_same; eauto. intros i Hi. rewrite Hf. apply app_nth1. exact Hi.
Qed.

(* ================================================================ deep_frozen, and what Freeze gives *)
(* every list / dict reachable from v is a frozen wrapper.  (Before /repo 7aeabfa the lists also had to have no
   spare capacity: FROZEN + [x] appended into it.  List + now always allocates, so capacity no longer matters.) *)
Inductive deep_frozen (st : state) : value -> Prop :=
| DF_int : forall z, deep_frozen st (VInt z)
| DF_str : forall x, deep_frozen st (VStr x)
| DF_bool : forall b, deep_frozen st (VBool b)
| DF_none : deep_frozen st VNone
| DF_nil : deep_frozen st VNilList
| DF_range : forall a b c, deep_frozen st (VRange a b c)
| DF_func : forall i, deep_frozen st (VFunc i)
| DF_builtin : forall n, deep_frozen st (VBuiltin n)
| DF_list : forall sl, Forall (deep_frozen st) (list_items Asp st sl) -> deep_frozen st (VFrozenList sl)
| DF_dict : forall i, Forall (fun kv => deep_frozen st (snd kv)) (dict_of st i) -> deep_frozen st (VFrozenDict i).

(* a deep-frozen value satisfies the local condition of the invariant under every classification without dead objects *)
Lemma deep_frozen_vok : forall st na nd v, deep_frozen st v -> vok (cls_prefix na []) (cls_prefix nd []) (fun _ => false) v.
Proof.
  intros st na nd v H. destruct H; try reflexivity.
  - unfold vok, vokb, cls_prefix. cbn [existsb]. destruct (s_arr sl <? na); reflexivity.
  - unfold vok, vokb, cls_prefix. cbn [existsb]. destruct (i <? nd); reflexivity.
Qed.

(* the state-side finding classes are exactly the ways an exported value fails to be deep-frozen / the state fails
   to be frozen: a nested list stays VList (pyList.Freeze is shallow), and the shared constants are VList values in
   `consts` (mentioned by a function body) / DConst defaults. *)
Definition scalar (v : value) : Prop :=
  match v with VInt _ | VStr _ | VBool _ | VNone => True | _ => False end.

Lemma scalar_deep_frozen : forall st v, scalar v -> deep_frozen st v.
Proof. intros st v H. destruct v; try contradiction; constructor. Qed.

(* Freeze of a list of scalars (nesting depth 1) *)
Theorem freeze_flat_list_deep_frozen : forall fuel sl st,
  Forall scalar (list_items Asp st sl) ->
  freeze (S fuel) (VList sl) st = Ok (VFrozenList sl, st) /\ deep_frozen st (VFrozenList sl).
Proof.
  intros fuel sl st Hs. split; [reflexivity|]. constructor.
  eapply Forall_impl; [|exact Hs]. intros v Hv. apply scalar_deep_frozen. exact Hv.
Qed.

(* ... and the way the same Freeze does NOT give a deep-frozen value: it is shallow *)
Theorem freeze_nested_not_deep_frozen : forall fuel sl st inner,
  List.In (VList inner) (list_items Asp st sl) ->
  freeze (S fuel) (VList sl) st = Ok (VFrozenList sl, st) /\ ~ deep_frozen st (VFrozenList sl).
Proof.
  intros fuel sl st inner Hin. split; [reflexivity|]. intros H. inversion H as [| | | | | | | |? Hall|]; subst.
  rewrite Forall_forall in Hall. specialize (Hall _ Hin). inversion Hall.
Qed.

(* ================================================================ an executable test of frozen_state *)
Definition envb (ca cd : nat -> mode) (e : env) : bool := forallb (fun kv => vokb ca cd (fun _ => false) (snd kv)) e.

Definition frozen_stateb (defs : list (str * prog)) (dead_a dead_d : list nat) (st : state) : bool :=
  let ca := cls_prefix (length (arrays st)) dead_a in
  let cd := cls_prefix (length (dicts st)) dead_d in
  forallb (fun lp => match assoc_get (fst lp) (subcache st) with Some _ => true | None => false end) defs &&
  forallb (fun a => a <? length (arrays st)) dead_a &&
  forallb (fun i => i <? length (dicts st)) dead_d &&
  forallb (fun a => match ca a with Dead => true | _ => forallb (vokb ca cd (fun _ => false)) (arr_of st a) end) (seq 0 (length (arrays st))) &&
  forallb (fun i => match cd i with Dead => true | _ => envb ca cd (dict_of st i) end) (seq 0 (length (dicts st))) &&
  forallb (envb ca cd) (fscopes st) && forallb (envb ca cd) (locals st) && forallb (fun le => envb ca cd (snd le)) (subcache st) &&
  forallb (fokb ca cd (fun _ => false) (fun _ => true) (consts st)) (funcs st).

Lemma envb_ok : forall ca cd e, envb ca cd e = true -> env_ok ca cd (fun _ => false) e.
Proof. intros ca cd e H. unfold envb in H. rewrite forallb_forall in H. apply Forall_forall. intros kv Hin. apply H. exact Hin. Qed.

Lemma cls_prefix_range : forall n dead a, forallb (fun a => a <? n) dead = true -> cls_prefix n dead a <> Free -> a < n.
Proof.
  intros n dead a Hd Hc. unfold cls_prefix in Hc. destruct (existsb (Nat.eqb a) dead) eqn:E.
  - apply existsb_exists in E. destruct E as (x & Hin & Hx). apply Nat.eqb_eq in Hx. subst x.
    rewrite forallb_forall in Hd. apply Nat.ltb_lt. apply Hd. exact Hin.
  - destruct (a <? n) eqn:E2; [apply Nat.ltb_lt; exact E2|contradiction].
Qed.

Lemma find_def_cached : forall (defs : list (str * prog)) sc,
  forallb (fun lp => match assoc_get (fst lp) sc with Some _ => true | None => false end) defs = true ->
  forall label, @assoc_get env label sc = None -> find_def defs label = None.
Proof.
  intros defs sc H label Hl. unfold find_def. induction defs as [|[k p] r IH]; [reflexivity|].
  cbn [forallb fst] in H. apply andb_prop in H. destruct H as [Hk Hr].
  destruct (str_eqb label k) eqn:E.
  - apply StrFacts.str_eqb_eq in E. subst k. rewrite Hl in Hk. discriminate Hk.
  - apply IH. exact Hr.
Qed.

Theorem frozen_stateb_sound : forall defs dead_a dead_d st, frozen_stateb defs dead_a dead_d st = true -> frozen_state defs dead_a dead_d st.
Proof.
  intros defs da dd st H. unfold frozen_stateb in H. cbv zeta in H.
  repeat match type of H with (_ && _)%bool = true => let H1 := fresh "H" in apply andb_prop in H; destruct H as [H H1] end.
  unfold frozen_state. constructor.
  - intros a Ha. eapply cls_prefix_range; eauto.
  - intros i Hi. eapply cls_prefix_range; eauto.
  - intros i Hi. discriminate Hi.
  - intros a Ha. destruct (Nat.lt_ge_cases a (length (arrays st))) as [Hlt|Hge].
    + rewrite forallb_forall in H5. specialize (H5 a). rewrite in_seq in H5. specialize (H5 (conj (Nat.le_0_l _) Hlt)).
      destruct (cls_prefix (length (arrays st)) da a) eqn:E; try contradiction;
        (apply Forall_forall; intros v Hv; rewrite forallb_forall in H5; apply H5; exact Hv).
    + unfold arr_of. rewrite nth_overflow by exact Hge. constructor.
  - intros i Hi. destruct (Nat.lt_ge_cases i (length (dicts st))) as [Hlt|Hge].
    + rewrite forallb_forall in H4. specialize (H4 i). rewrite in_seq in H4. specialize (H4 (conj (Nat.le_0_l _) Hlt)).
      destruct (cls_prefix (length (dicts st)) dd i) eqn:E; try contradiction; apply envb_ok; exact H4.
    + unfold dict_of. rewrite nth_overflow by exact Hge. constructor.
  - intros j _. apply (Forall_nth (env_ok _ _ _)); [|constructor]. apply Forall_forall. intros e He. apply envb_ok.
    rewrite forallb_forall in H3. apply H3. exact He.
  - reflexivity.
  - apply Forall_forall. intros e He. apply envb_ok. rewrite forallb_forall in H2. apply H2. exact He.
  - apply Forall_forall. intros e He. apply envb_ok. rewrite forallb_forall in H1. apply (H1 e He).
  - intros i _ Hlt. rewrite forallb_forall in H0. apply H0. apply nth_In. exact Hlt.
  - reflexivity.
  - apply find_def_cached. exact H.
Qed.
