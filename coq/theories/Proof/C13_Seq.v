(* C13 follow-up 2 - three parts of the all-or-nothing argument that the first model passed by
   (Model/C13.v: cmd_fate / cmd_store_atomic, read_tar over an occupied path, the multiplexer).

     cmd_atomic_*      the cancel of a faulted command-cache store reaches the store command at
                       EVERY point of the race with its creation (the archive writer is started
                       first): with the context of cmdCache.Store the command never runs or is
                       killed; with a guarded Process.Kill a fault before anything was written lets
                       it run to its end on an empty, well-formed archive.
     *_into_*          retrieves into an output directory that already holds ANYTHING: a hit still
                       means every declared output was restored exactly; an occupied symlink path
                       is a miss.
     mplex_*           histories (build+store / wipe / retrieve, any faults, any length) on the
                       multiplexer over any list of HTTP and command caches: what every cache
                       holds under the key stays a prefix of THE archive of the target's outputs,
                       and every hit restores them exactly. *)
From PlzV Require Import Base.Harness Base.StrFacts Gen.C13Exits Model.C13 Proof.C13.
From Coq Require Import Lia.
Local Open Scope N_scope.

Lemma gen_kill_switch : cmd_store_kill_switch = KContext. Proof. reflexivity. Qed.
Lemma gen_writer_first : cmd_store_writer_precedes_start = true. Proof. reflexivity. Qed.
Lemma gen_fault_cancels : cmd_write_fault_cancels = true. Proof. reflexivity. Qed.
Lemma gen_no_backfill_on_miss : mplex_backfill_on_total_miss = false. Proof. reflexivity. Qed.
Lemma gen_store_until_exclusive : mplex_store_until_exclusive = true. Proof. reflexivity. Qed.
Lemma gen_file_created_first : readtar_file_created_before_content = true. Proof. reflexivity. Qed.

(* ------------------------------------------------------------------------------------------
   1. when the cancel reaches the store command *)

Lemma write_ok_healthy files : snd (write files) = all_healthy files.
Proof. pose proof (write_spec files) as W. destruct (write files) as [st ok]. destruct W as [W _]. exact W. Qed.

(* the fate of the store command, for either kill switch *)
Lemma cmd_fate_k_spec ks files sc :
  cmd_fate_k ks files sc =
  if all_healthy files then RanToEnd else
  match sc, fst (write files) with
  | CancelBeforeStart, [] => match ks with KContext => NeverRan | KProcessIfStarted => RanToEnd end
  | _, _ => Killed
  end.
Proof.
  unfold cmd_fate_k. rewrite <- write_ok_healthy. destruct (write files) as [st ok]. cbn [fst snd].
  rewrite gen_fault_cancels, gen_writer_first. cbn [negb orb]. rewrite orb_false_r.
  destruct ok; [reflexivity|]. destruct sc, st; reflexivity.
Qed.

(* with the context of cmdCache.Store: after a read fault the command never ran to its end,
   wherever the cancel fell *)
Theorem cmd_fate_after_fault files sc :
  all_healthy files = false -> cmd_fate files sc = NeverRan \/ cmd_fate files sc = Killed.
Proof.
  intro Hh. unfold cmd_fate. rewrite cmd_fate_k_spec, gen_kill_switch, Hh.
  destruct sc; [destruct (fst (write files))|]; auto.
Qed.

Theorem cmd_fate_healthy files sc : all_healthy files = true -> cmd_fate files sc = RanToEnd.
Proof. intro Hh. unfold cmd_fate. rewrite cmd_fate_k_spec, Hh. reflexivity. Qed.

(* so a store command that publishes only when it ran to its end leaves the store as it was *)
Theorem cmd_store_atomic_fault_leaves_nothing files sc store :
  all_healthy files = false -> cmd_store_atomic store files sc = store.
Proof.
  intro Hh. unfold cmd_store_atomic, cmd_store_atomic_k. fold (cmd_fate files sc).
  destruct (cmd_fate_after_fault files sc Hh) as [-> | ->]; reflexivity.
Qed.

Theorem cmd_atomic_all_or_nothing root files :
  NoDup (map fst (all_expected files)) ->
  forall sc rcut exit_ok, safe files (cmd_retrieve root (cmd_store_atomic None files sc) rcut exit_ok []).
Proof.
  intros Hnd sc rcut exit_ok. unfold cmd_store_atomic, cmd_store_atomic_k. fold (cmd_fate files sc).
  apply cmd_atomic_store_command_safe; [exact Hnd|].
  intro Hh. destruct (cmd_fate_after_fault files sc Hh) as [-> | ->]; reflexivity.
Qed.

(* and after a fault-free store it holds the complete archive *)
Theorem cmd_store_atomic_healthy files sc store :
  all_healthy files = true -> cmd_store_atomic store files sc = Some (fst (write files) ++ footer).
Proof.
  intro Hh. unfold cmd_store_atomic, cmd_store_atomic_k. fold (cmd_fate files sc).
  rewrite (cmd_fate_healthy files sc Hh). cbn [atomic_commit cmd_store].
  pose proof (write_spec files) as W. unfold cmd_sent. destruct (write files) as [st ok]. cbn [fst].
  destruct W as (Hok & _ & Hg). rewrite Hh in Hok. subst ok. destruct (Hg eq_refl) as [G _].
  rewrite gen_cmd_tar_close, (good_at_boundary _ G). cbn [andb].
  rewrite (cut_all st _ (good_members _ G)) by lia. reflexivity.
Qed.

(* why the kill switch has to be the context.  With a guarded cmd.Process.Kill(), for EVERY list
   of outputs whose first one cannot be read before anything was written (it is missing, or cannot
   be archived), however long and whatever follows: the cancel that comes before the process
   exists is dropped, the command runs to its end on the archive the deferred Close calls
   finish - the end-of-archive marker alone - and publishes it; a later retrieve is a hit that
   restores NOTHING. *)
Theorem kill_guard_publishes_empty_archive files :
  fst (write files) = [] -> all_healthy files = false ->
  cmd_store_atomic_k KProcessIfStarted None files CancelBeforeStart = Some footer
  /\ forall root, cmd_retrieve root (Some footer) None true [] = (true, []).
Proof.
  intros Hw Hh. split.
  - unfold cmd_store_atomic_k. rewrite cmd_fate_k_spec, Hh, Hw. cbn [atomic_commit cmd_store].
    unfold cmd_sent. destruct (write files) as [st ok]. cbn [fst] in Hw. subst st.
    rewrite gen_cmd_tar_close. reflexivity.
  - intro root. rewrite cmd_reader. reflexivity.
Qed.

Lemma first_missing_writes_nothing n r : fst (write (TMissing n :: r)) = [] /\ all_healthy (TMissing n :: r) = false.
Proof. rewrite write_halt. split; reflexivity. Qed.
Lemma first_sock_writes_nothing n r : fst (write (TSock n :: r)) = [] /\ all_healthy (TSock n :: r) = false.
Proof. rewrite write_halt. split; reflexivity. Qed.

(* ------------------------------------------------------------------------------------------
   2. retrieves into an output directory that is not empty *)

Lemma cmd_reader_d root store rcut exit_ok disk :
  cmd_retrieve root store rcut exit_ok disk =
  match store with
  | None => (false, disk)
  | Some b => let '(t, d) := read_tar root (match rcut with None => b | Some k => cut k b end) false disk in
              (t && exit_ok, d)
  end.
Proof. unfold cmd_retrieve. rewrite gen_cmd_closes, gen_cmd_and. reflexivity. Qed.

(* unpacking a prefix (possibly all) of a complete archive, ending in an error or in a clean end
   AFTER the marker: a hit restored every member *)
Lemma archive_hit_restores root st (Hg : good st) (Hnd : NoDup (map fst (nodes st))) :
  (forall disk d, read_tar root (st ++ footer) true disk = (true, d) ->
     forall n nd, In (n, nd) (nodes st) -> lookup n d = Some nd)
  /\ (forall k disk d, read_tar root (cut k (st ++ footer)) false disk = (true, d) ->
     forall n nd, In (n, nd) (nodes st) -> lookup n d = Some nd).
Proof.
  split.
  - intros disk d R. rewrite (read_whole root true st (good_members _ Hg)) in R.
    destruct (run root st disk) as [d'|] eqn:Rn; [|discriminate]. inversion R. subst d'.
    apply (run_restores root st disk d Rn Hnd).
  - intros k disk d R. destruct (read_cut_hit root st (good_members _ Hg) _ _ _ R) as [_ Rn].
    apply (run_restores root st disk d Rn Hnd).
Qed.

Theorem http_into_all_or_nothing root files :
  NoDup (map fst (all_expected files)) ->
  forall put_ok g disk, safe files (http_retrieve root (http_store None files put_ok) g disk).
Proof.
  intros Hnd put_ok g disk. unfold safe, http_store. pose proof (http_body_spec files) as B.
  destruct (http_body files) as [b|]; [|left; reflexivity].
  destruct put_ok; [|left; reflexivity].
  destruct B as (Hh & st & -> & Hg & Hn). cbn [http_retrieve].
  assert (Hnd' : NoDup (map fst (nodes st))) by (rewrite Hn; exact Hnd).
  destruct (archive_hit_restores root st Hg Hnd') as [A1 A2].
  destruct g as [| |k].
  - destruct (read_tar root (st ++ footer) true disk) as [[|] d] eqn:R; [|left; reflexivity].
    right. split; [exact Hh|]. intros n nd Hin. cbn [snd]. apply (A1 disk d R). rewrite Hn. exact Hin.
  - left. reflexivity.
  - destruct (read_tar root (cut k (st ++ footer)) false disk) as [[|] d] eqn:R; [|left; reflexivity].
    right. split; [exact Hh|]. intros n nd Hin. cbn [snd]. apply (A2 k disk d R). rewrite Hn. exact Hin.
Qed.

Theorem cmd_into_all_or_nothing root files :
  NoDup (map fst (all_expected files)) ->
  forall commit rcut exit_ok disk, cmd_defect files commit = false ->
  safe files (cmd_retrieve root (cmd_store None files commit) rcut exit_ok disk).
Proof.
  intros Hnd commit rcut exit_ok disk Hdef. unfold safe. rewrite cmd_reader_d. unfold cmd_store.
  destruct commit as [k|]; [|left; reflexivity].
  destruct (cmd_view files k rcut) as (k' & -> & Hk' & _).
  destruct (read_tar root (cut k' (cmd_sent files)) false disk) as [[|] d] eqn:R; [|left; reflexivity].
  destruct (cmd_sent_spec files) as [(Hh & st & E & Hg & Hn)|[(Hh & Hb & st & E & Hm)|(Hh & Hb & Hm)]].
  - rewrite E in R. destruct (read_cut_hit root st (good_members _ Hg) _ _ _ R) as [_ R'].
    destruct exit_ok; [|left; reflexivity]. right. split; [exact Hh|].
    intros n nd Hin. cbn [snd]. apply (run_restores root st disk d R'); rewrite Hn; assumption.
  - exfalso. unfold cmd_defect in Hdef. rewrite Hh, Hb in Hdef. cbn in Hdef.
    rewrite E in R. destruct (read_cut_hit root st Hm _ _ _ R) as [B _].
    rewrite <- E in B. apply N.leb_gt in Hdef. lia.
  - pose proof (read_cut_nofooter root _ Hm k' disk) as F. rewrite R in F. discriminate.
Qed.

(* an occupied path stays occupied while other members are unpacked *)
Lemma mem_cons n p disk : mem n disk = true -> mem n (p :: disk) = true.
Proof. unfold mem. destruct p as [k v]. cbn [lookup]. destruct (str_eqb n k); [reflexivity|tauto]. Qed.

Lemma run_occupied_symlink root st : forall disk n t,
  In (CSym n t) st -> mem n disk = true -> run root st disk = None.
Proof.
  induction st as [|c r IH]; intros disk n t Hin Hm; [destruct Hin|].
  destruct Hin as [->|Hin].
  - cbn [run]. rewrite Hm. reflexivity.
  - destruct c as [n' sz c0|n'|n' t'| |]; cbn [run]; try reflexivity.
    + destruct (len c0 =? sz); [|reflexivity]. apply (IH _ n t Hin). apply mem_cons. exact Hm.
    + apply (IH _ n t Hin). apply mem_cons. exact Hm.
    + destruct (mem n' disk || negb (parent_exists root n' disk)); [reflexivity|].
      apply (IH _ n t Hin). apply mem_cons. exact Hm.
Qed.

Lemma nodes_sym_in st n t : members st -> In (n, NLink t) (nodes st) -> In (CSym n t) st.
Proof.
  induction 1 as [|c r Hc Hr IH]; cbn [nodes]; [tauto|].
  destruct c as [n' sz c0|n'|n' t'| |]; try discriminate; cbn [node_of]; intros [E|Hin];
    try (inversion E; subst; left; reflexivity); right; apply IH; exact Hin.
Qed.

(* whatever occupies the path of a symlink output - a stale link, the same link, a file - and
   whatever else is in the directory: the retrieve is a miss, through either cache, with or
   without a transport fault *)
Theorem occupied_symlink_path_is_miss root files n t disk :
  In (n, NLink t) (all_expected files) -> mem n disk = true ->
  (forall g, fst (http_retrieve root (http_store None files true) g disk) = false)
  /\ (forall k rcut exit_ok, fst (cmd_retrieve root (cmd_store None files (Some k)) rcut exit_ok disk) = false
                              \/ all_healthy files = false).
Proof.
  intros Hin Hm. split.
  - intro g. unfold http_store. pose proof (http_body_spec files) as B.
    destruct (http_body files) as [b|]; [|reflexivity].
    destruct B as (Hh & st & -> & Hg & Hn). cbn [http_retrieve].
    assert (Hs : In (CSym n t) st) by (apply nodes_sym_in; [apply good_members; exact Hg|rewrite Hn; exact Hin]).
    destruct g as [| |k]; [| reflexivity |].
    + rewrite (read_whole root true st (good_members _ Hg)), (run_occupied_symlink root st disk n t Hs Hm). reflexivity.
    + destruct (read_tar root (cut k (st ++ footer)) false disk) as [[|] d] eqn:R; [|reflexivity].
      destruct (read_cut_hit root st (good_members _ Hg) _ _ _ R) as [_ R'].
      rewrite (run_occupied_symlink root st disk n t Hs Hm) in R'. discriminate.
  - intros k rcut exit_ok. destruct (all_healthy files) eqn:Hh; [left|right; reflexivity].
    rewrite cmd_reader_d. unfold cmd_store.
    destruct (cmd_view files k rcut) as (k' & -> & _ & _).
    destruct (cmd_sent_spec files) as [(_ & st & E & Hg & Hn)|[(Hf & _)|(Hf & _)]]; try (rewrite Hh in Hf; discriminate).
    rewrite E.
    assert (Hs : In (CSym n t) st) by (apply nodes_sym_in; [apply good_members; exact Hg|rewrite Hn; exact Hin]).
    destruct (read_tar root (cut k' (st ++ footer)) false disk) as [[|] d] eqn:R; [|reflexivity].
    destruct (read_cut_hit root st (good_members _ Hg) _ _ _ R) as [_ R'].
    rewrite (run_occupied_symlink root st disk n t Hs Hm) in R'. discriminate.
Qed.

(* ------------------------------------------------------------------------------------------
   3. the multiplexer *)

Definition arch (ref : list tree) : blob := fst (write ref) ++ footer.

(* what a cache may hold under the key: nothing; the complete archive of the target's outputs
   (HTTP: a server keeps complete bodies only); a byte prefix of it (command cache) *)
Definition entry_ok (ref : list tree) (ke : ckind * option blob) : Prop :=
  match ke with
  | (_, None) => True
  | (KHttp, Some b) => b = arch ref
  | (KCmd, Some b) => exists j, b = cut j (arch ref)
  end.
Definition Inv (ref : list tree) (st : mstate) : Prop := Forall (entry_ok ref) st.

Lemma flat_healthy ref : flat ref = true -> all_healthy ref = true.
Proof.
  induction ref as [|t r IH]; [reflexivity|]. destruct t; cbn [flat]; try discriminate; intro H;
    cbn [all_healthy forallb healthy]; apply IH; exact H.
Qed.

Section Ref.
  Variable root : str.
  Variable ref : list tree.
  Hypothesis Hflat : flat ref = true.
  Hypothesis Hnd : NoDup (map fst (all_expected ref)).

  Let Hh : all_healthy ref = true := flat_healthy ref Hflat.

  Lemma arch_good : exists st, write ref = (st, true) /\ good st /\ nodes st = all_expected ref.
  Proof.
    pose proof (write_spec ref) as W. destruct (write ref) as [st ok]. destruct W as (Hok & _ & Hg).
    rewrite Hh in Hok. subst ok. exists st. destruct (Hg eq_refl). auto.
  Qed.

  Lemma store_one_ok k e sf : entry_ok ref (k, e) -> entry_ok ref (k, store_one k e ref sf).
  Proof.
    intro He. destruct arch_good as (st & W & Hg & Hn). destruct k; cbn [store_one].
    - unfold http_store, http_body. rewrite W. destruct sf; [|exact He].
      cbn [entry_ok]. unfold arch. rewrite W. reflexivity.
    - unfold cmd_store. destruct sf as [j|]; [|exact He]. cbn [entry_ok]. exists j.
      unfold cmd_sent, arch. rewrite W, gen_cmd_tar_close, (good_at_boundary _ Hg). reflexivity.
  Qed.

  Lemma store_until_ok st : Inv ref st -> forall stop sfs, Inv ref (store_until stop st ref sfs).
  Proof.
    unfold Inv. induction 1 as [|[k e] r He Hr IH]; intros stop sfs.
    - destruct stop; constructor.
    - destruct stop; cbn [store_until].
      + constructor; assumption.
      + constructor; [apply store_one_ok; exact He|apply IH].
  Qed.

  (* one cache, any fault, into ANY output directory: a miss, or everything restored *)
  Lemma retrieve_one_ok k e rf disk : entry_ok ref (k, e) ->
    fst (retrieve_one root k e rf disk) = false \/ restored (snd (retrieve_one root k e rf disk)) ref.
  Proof.
    intro He. destruct arch_good as (st & W & Hg & Hn).
    assert (Hnd' : NoDup (map fst (nodes st))) by (rewrite Hn; exact Hnd).
    destruct (archive_hit_restores root st Hg Hnd') as [A1 A2].
    assert (Ea : arch ref = st ++ footer) by (unfold arch; rewrite W; reflexivity).
    destruct e as [b|]; [|destruct k; left; reflexivity].
    destruct k; cbn [entry_ok] in He; cbn [retrieve_one].
    - subst b. rewrite Ea. cbn [http_retrieve]. destruct (rf_get rf) as [| |j].
      + destruct (read_tar root (st ++ footer) true disk) as [[|] d] eqn:R; [|left; reflexivity].
        right. intros n nd Hin. cbn [snd]. apply (A1 disk d R). rewrite Hn. exact Hin.
      + left. reflexivity.
      + destruct (read_tar root (cut j (st ++ footer)) false disk) as [[|] d] eqn:R; [|left; reflexivity].
        right. intros n nd Hin. cbn [snd]. apply (A2 j disk d R). rewrite Hn. exact Hin.
    - destruct He as [j ->]. rewrite Ea, cmd_reader_d.
      assert (V : exists j', (match rf_cut rf with None => cut j (st ++ footer) | Some i => cut i (cut j (st ++ footer)) end)
                             = cut j' (st ++ footer)).
      { destruct (rf_cut rf) as [i|]; [exists (N.min j i); apply cut_cut|exists j; reflexivity]. }
      destruct V as [j' ->].
      destruct (read_tar root (cut j' (st ++ footer)) false disk) as [[|] d] eqn:R; [|left; reflexivity].
      destruct (rf_exit rf); [|left; reflexivity].
      right. intros n nd Hin. cbn [snd]. apply (A2 j' disk d R). rewrite Hn. exact Hin.
  Qed.

  Lemma first_hit_ok st : Inv ref st -> forall rfs disk i,
    match fst (first_hit root st rfs disk i) with
    | Some _ => restored (snd (first_hit root st rfs disk i)) ref
    | None => True
    end.
  Proof.
    unfold Inv. induction 1 as [|[k e] r He Hr IH]; intros rfs disk i; cbn [first_hit]; [exact I|].
    pose proof (retrieve_one_ok k e (hd rf_none rfs) disk He) as R.
    destruct (retrieve_one root k e (hd rf_none rfs) disk) as [[|] d]; cbn [fst snd] in *.
    - destruct R as [R|R]; [discriminate|exact R].
    - apply IH.
  Qed.

  (* a Store reads the declared outputs back from the output directory: restored outputs are
     read back as themselves *)
  Lemma of_disk_restored disk : restored disk ref -> map (of_disk disk) (map name_of ref) = ref.
  Proof.
    unfold restored. clear Hnd Hh. revert Hflat. induction ref as [|t r IH]; intros Hf Hr; [reflexivity|].
    cbn [map]. rewrite IH.
    - f_equal. destruct t; cbn [flat] in Hf; try discriminate; cbn [name_of]; unfold of_disk.
      + rewrite (Hr n (NFile c)); [reflexivity|left; reflexivity].
      + rewrite (Hr n (NLink t)); [reflexivity|left; reflexivity].
    - destruct t; cbn [flat] in Hf; try discriminate; exact Hf.
    - intros n nd Hin. apply Hr. unfold all_expected. cbn [flat_map]. apply in_or_app. right. exact Hin.
  Qed.

  Lemma built_restored : restored (all_expected ref) ref.
  Proof. intros n nd Hin. apply lookup_nodup; assumption. Qed.

  (* one operation keeps the invariant, and a hit restored the outputs *)
  Lemma mstep_ok st disk o : Inv ref st ->
    Inv ref (fst (fst (mstep root ref (st, disk) o)))
    /\ (snd (mstep root ref (st, disk) o) = Some true -> restored (snd (fst (mstep root ref (st, disk) o))) ref).
  Proof.
    intro Hi. destruct o as [sfs| |rfs sfs]; cbn [mstep].
    - cbn [fst snd]. split; [|discriminate]. unfold mplex_store.
      rewrite (of_disk_restored _ built_restored). apply store_until_ok. exact Hi.
    - cbn [fst snd]. split; [exact Hi|discriminate].
    - unfold mplex_retrieve, mplex_retrieve_b. rewrite gen_no_backfill_on_miss.
      pose proof (first_hit_ok st Hi rfs disk 0%nat) as F.
      destruct (first_hit root st rfs disk 0) as [[i|] d]; cbn [fst snd] in *.
      + rewrite (of_disk_restored d F). split; [apply store_until_ok; exact Hi|intros _; exact F].
      + split; [exact Hi|discriminate].
  Qed.

  Lemma mexec_ok ops : forall st disk, Inv ref st -> Inv ref (fst (mexec root ref (st, disk) ops)).
  Proof.
    induction ops as [|o r IH]; intros st disk Hi; [exact Hi|]. cbn [mexec].
    destruct (mstep_ok st disk o Hi) as [Hi' _].
    destruct (mstep root ref (st, disk) o) as [[st' d'] h]. cbn [fst] in *. apply IH. exact Hi'.
  Qed.

  Lemma init_inv kinds : Inv ref (map (fun k => (k, None)) kinds).
  Proof. unfold Inv. induction kinds as [|k r IH]; cbn [map]; [constructor|]. constructor; [destruct k; exact I|exact IH]. Qed.

  (* THE theorem: after ANY history on the multiplexer over ANY caches, a Retrieve with ANY
     faults, back-filling with ANY transport outcome, is a miss or restored every output exactly,
     and what the caches hold afterwards is still nothing or (a prefix of) the complete archive *)
  Theorem mplex_history_safe kinds ops rfs sfs :
    let s := mexec root ref (map (fun k => (k, None)) kinds, []) ops in
    let r := mstep root ref s (ORetrieve rfs sfs) in
    Inv ref (fst (fst r)) /\ (snd r = Some true -> restored (snd (fst r)) ref).
  Proof.
    cbn zeta.
    assert (Hi : Inv ref (fst (mexec root ref (map (fun k => (k, None)) kinds, []) ops)))
      by (apply mexec_ok; apply init_inv).
    revert Hi. generalize (mexec root ref (map (fun k => (k, None)) kinds, []) ops).
    intros [st disk] Hi. cbn [fst] in Hi. apply mstep_ok. exact Hi.
  Qed.
End Ref.

(* why a total miss must not back-fill.  One history, the multiplexer newSyncCache builds for an
   HTTP and a command cache: the HTTP cache holds the complete entry, the command cache nothing; a
   retrieve is cut inside the content of the last file (a miss, the file is left short); with
   back-fill on a total miss both caches now hold a COMPLETE archive of the short file, and the
   next, fault-free retrieve into an emptied directory is a hit with a truncated output. *)
Definition bf_ref : list tree := [TFile (s "o/a.txt") (s "aaa"); TFile (s "o/b.txt") (rep 700 98)].
Definition bf_state : mstate := [(KHttp, Some (arch bf_ref)); (KCmd, None)].
Definition bf_cut : list rfault := [RF (GetCut 1700) None true; rf_none].

Lemma backfill_on_total_miss_breaks :
  let '(h1, st1, d1) := mplex_retrieve_b true (s "o") (map name_of bf_ref) bf_state bf_cut [Some 0; Some 99999] [] in
  let '(h2, st2, d2) := mplex_retrieve_b true (s "o") (map name_of bf_ref) st1 [] [] [] in
  h1 = false /\ lookup (s "o/b.txt") d1 = Some (NFile (rep 164 98))
  /\ h2 = true /\ lookup (s "o/b.txt") d2 = Some (NFile (rep 164 98)).
Proof. vm_compute. repeat split; reflexivity. Qed.

(* ... and the invariant of the histories is gone after the first of the two retrieves: the HTTP
   cache holds a complete archive that is not the archive of the target's outputs *)
Definition http_lengths_ok (ref : list tree) (st : mstate) : bool :=
  forallb (fun ke => match ke with (KHttp, Some b) => bytes b =? bytes (arch ref) | _ => true end) st.

Lemma Inv_http_lengths ref st : Inv ref st -> http_lengths_ok ref st = true.
Proof.
  unfold Inv, http_lengths_ok. induction 1 as [|[k e] r He Hr IH]; [reflexivity|]. cbn [forallb]. rewrite IH, andb_true_r.
  destruct k, e as [b|]; try reflexivity. cbn [entry_ok] in He. subst b. apply N.eqb_refl.
Qed.

Lemma backfill_on_total_miss_breaks_invariant :
  ~ Inv bf_ref (snd (fst (mplex_retrieve_b true (s "o") (map name_of bf_ref) bf_state bf_cut [Some 0; Some 99999] []))).
Proof. intro H. apply Inv_http_lengths in H. vm_compute in H. discriminate. Qed.

Lemma no_backfill_same_history :
  let '(h1, st1, d1) := mplex_retrieve_b false (s "o") (map name_of bf_ref) bf_state bf_cut [Some 0; Some 99999] [] in
  let '(h2, st2, d2) := mplex_retrieve_b false (s "o") (map name_of bf_ref) st1 [] [] [] in
  h1 = false /\ st1 = bf_state /\ h2 = true /\ lookup (s "o/b.txt") d2 = Some (NFile (rep 700 98))
  /\ st2 = bf_state.
Proof. vm_compute. repeat split; reflexivity. Qed.
